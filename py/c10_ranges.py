#!/usr/bin/env python3-vt
"""C10, Python side: sdk/python/arvados/_ranges.py and _normalize_stream.py
against a reference written from the manifest format document (Hypothesis).

The two modules are loaded by file path under a stub ``arvados`` package so the
heavy SDK __init__ (pycurl, ciso8601, ...) is never imported.
"""
import argparse, hashlib, importlib.util, json, os, sys, types, traceback

ap = argparse.ArgumentParser()
ap.add_argument('--seed', type=int, default=1)
ap.add_argument('--examples', type=int, default=500)
ap.add_argument('--stats', default='')
ap.add_argument('--repo', default='/repo')
ap.add_argument('--replay', default='')
args = ap.parse_args()

from hypothesis import given, settings, seed, strategies as st, HealthCheck  # noqa: E402


def load_modules(repo):
    pkg = types.ModuleType('arvados')
    pkg.__path__ = [os.path.join(repo, 'sdk/python/arvados')]
    sys.modules['arvados'] = pkg
    cfg = types.ModuleType('arvados.config')
    cfg.EMPTY_BLOCK_LOCATOR = 'd41d8cd98f00b204e9800998ecf8427e+0'
    sys.modules['arvados.config'] = cfg
    pkg.config = cfg
    mods = {}
    for name in ('_ranges', '_normalize_stream'):
        path = os.path.join(repo, 'sdk/python/arvados', name + '.py')
        spec = importlib.util.spec_from_file_location('arvados.' + name, path)
        mod = importlib.util.module_from_spec(spec)
        sys.modules['arvados.' + name] = mod
        spec.loader.exec_module(mod)
        mods[name] = mod
    return mods['_ranges'], mods['_normalize_stream']


try:
    R, N = load_modules(args.repo)
except Exception:
    traceback.print_exc()
    print('VERIF-INFRA: cannot load the python modules')
    sys.exit(2)

KNOWN = set(k for k in os.environ.get('VERIF_KNOWN', '').split(',') if k)
STATS = {'evaluations': 0, 'nontrivial_fps': set(), 'labels': {}, 'samples': {}, 'known_hits': {}, 'known_examples': {}, 'info': {}}
LAST = {}


def label(*ls):
    for l in ls:
        STATS['labels'][l] = STATS['labels'].get(l, 0) + 1


def case(fp, nontrivial, *labels):
    STATS['evaluations'] += 1
    if nontrivial:
        STATS['nontrivial_fps'].add(hashlib.md5(repr(fp).encode()).hexdigest()[:16])
    label(*labels)


def sample(lbl, v):
    cur = STATS['samples'].setdefault(lbl, [])
    if len(cur) < 3:
        cur.append(v)


def flush_stats():
    if not args.stats:
        return
    out = dict(STATS)
    out['nontrivial_fps'] = sorted(STATS['nontrivial_fps'])
    with open(args.stats, 'w') as f:
        json.dump(out, f)


# ---------------------------------------------------------------- reference

def block_content(i, n):
    return bytes((65 + (i * 7 + j * 3) % 58) for j in range(n))


def make_stream(sizes):
    """-> (locators, contents, data_locators as StreamReader builds them)"""
    locs, contents, dls = [], [], []
    off = 0
    for i, n in enumerate(sizes):
        c = block_content(i, n)
        loc = '%s+%d' % (hashlib.md5(c).hexdigest(), n)
        locs.append(loc)
        contents.append(c)
        dls.append(R.Range(loc, off, n, 0))
        off += n
    return locs, contents, dls


def ref_segments(sizes, locs, pos, size):
    """Reference: pieces (locator, block_size, offset, length), zero-length pieces dropped."""
    out = []
    off = 0
    for loc, n in zip(locs, sizes):
        lo, hi = off, off + n
        off = hi
        a, b = max(lo, pos), min(hi, pos + size)
        if b > a:
            out.append((loc, n, a - lo, b - a))
    return out


def ref_unescape(s):
    out = bytearray()
    b = s.encode('utf-8', 'surrogateescape') if isinstance(s, str) else s
    i = 0
    while i < len(b):
        if b[i] == 0x5c and i + 1 < len(b) and b[i + 1] == 0x5c:
            out.append(0x5c); i += 2; continue
        if b[i] == 0x5c and i + 3 < len(b) and all(0x30 <= c <= 0x37 for c in b[i + 1:i + 4]):
            v = (b[i + 1] - 0x30) * 64 + (b[i + 2] - 0x30) * 8 + (b[i + 3] - 0x30)
            if v <= 255:
                out.append(v); i += 4; continue
        out.append(b[i]); i += 1
    return bytes(out)


# ---------------------------------------------------------------- properties

def check_ranges(sizes, pos, size):
    LAST.clear(); LAST.update(kind='ranges', sizes=sizes, pos=pos, size=size)
    locs, contents, dls = make_stream(sizes)
    got = [(x.locator, x.block_size, x.segment_offset, x.segment_size)
           for x in R.locators_and_ranges(dls, pos, size) if x.segment_size != 0]
    want = ref_segments(sizes, locs, pos, size)
    if got != want:
        raise AssertionError('locators_and_ranges(blocks=%r, %d, %d) = %r, reference %r' % (sizes, pos, size, got, want))
    total = sum(sizes)
    stream = b''.join(contents)
    data = b''.join(contents[locs.index(l)][o:o + n] for (l, bs, o, n) in got) if len(set(locs)) == len(locs) else None
    if data is not None and data != stream[pos:pos + size]:
        raise AssertionError('bytes differ for blocks=%r pos=%d size=%d' % (sizes, pos, size))
    bounds = [sum(sizes[:i + 1]) for i in range(len(sizes) - 1)]
    crosses = any(pos < b < pos + size for b in bounds)
    zero = 0 in sizes
    interior_zero = 0 in sizes[:-1]
    case(('ranges', tuple(sizes), pos, size), crosses or zero,
         'py:ranges', 'py:crosses-block' if crosses else '', 'py:zero-length-block' if zero else '',
         'py:interior-or-leading-zero-block' if interior_zero else '', 'py:zero-size-range' if size == 0 else '')
    if crosses or zero:
        sample('py-ranges', {'block_sizes': sizes, 'pos': pos, 'size': size, 'result': got})


NAME_ALPHABET = ['a', 'b', '.', ' ', ':', '\\', '0', '4', '1', '3', '\t', '\n', 'é', '日', '\x01', 'x', '7', '8', '+', '-',
                 # DEL, C1 controls, NBSP, line separator, astral: one code point is several manifest bytes
                 '\x7f', '\x80', '\x85', '\x9b', '\x9f', '\xa0', '\u2028', '\U0001f600']


def check_escape(name):
    LAST.clear(); LAST.update(kind='escape', name=name)
    esc = N.escape(name)
    for ch in esc:
        if ord(ch) <= 0x20:
            raise AssertionError('escape(%r) = %r contains whitespace/control character' % (name, esc))
    back = ref_unescape(esc)
    if back != name.encode('utf-8'):
        raise AssertionError('escape(%r) = %r, which unescapes to %r' % (name, esc, back))
    special = any(c in name for c in ' :\\\t\n\x01')
    case(('escape', name), special, 'py:escape', 'py:escape-special' if special else '',
         'py:backslash-digits' if '\\' in name and any(c.isdigit() for c in name) else '',
         'py:c1-control-or-del' if any(0x7f <= ord(c) <= 0x9f for c in name) else '',
         'py:multibyte' if any(ord(c) >= 0x80 for c in name) else '')
    if special:
        sample('py-escape', {'name': name, 'escaped': esc})


def check_normalize(stream_name, sizes, files):
    """files: list of (name, [(pos,size), ...])"""
    LAST.clear(); LAST.update(kind='normalize', stream_name=stream_name, sizes=sizes, files=files)
    locs, contents, dls = make_stream(sizes)
    if len(set(locs)) != len(locs):
        # normalize_stream keys blocks by locator; identical blocks are legitimately merged,
        # which the content comparison below handles (same locator = same bytes)
        pass
    stream = b''.join(contents)
    smap, want = {}, {}
    for name, toks in files:
        segs, data = [], b''
        for pos, size in toks:
            segs.extend(R.locators_and_ranges(dls, pos, size))
            data += stream[pos:pos + size]
        smap.setdefault(name, []).extend(segs)
        want[name] = want.get(name, b'') + data
    toks = N.normalize_stream(stream_name, smap)
    # re-interpret with the reference
    if ref_unescape(toks[0]) != stream_name.encode('utf-8'):
        raise AssertionError('normalize_stream: stream name %r written as %r' % (stream_name, toks[0]))
    by_loc = dict(zip(locs, contents))
    by_loc['d41d8cd98f00b204e9800998ecf8427e+0'] = b''
    i = 1
    out_stream = b''
    while i < len(toks) and toks[i] in by_loc:
        out_stream += by_loc[toks[i]]
        i += 1
    if i == 1:
        raise AssertionError('normalize_stream produced no locator: %r' % (toks,))
    got = {}
    for tok in toks[i:]:
        parts = tok.split(':', 2)
        if len(parts) != 3 or not parts[0].isdigit() or not parts[1].isdigit():
            raise AssertionError('normalize_stream produced bad file token %r in %r' % (tok, toks))
        for ch in tok:
            if ord(ch) <= 0x20:
                raise AssertionError('normalize_stream token %r contains whitespace/control' % (tok,))
        p, n = int(parts[0]), int(parts[1])
        if p + n > len(out_stream):
            raise AssertionError('normalize_stream token %r exceeds the stream (%d bytes): %r' % (tok, len(out_stream), toks))
        nm = ref_unescape(parts[2])
        got[nm] = got.get(nm, b'') + out_stream[p:p + n]
    want_b = {k.encode('utf-8'): v for k, v in want.items()}
    if got != want_b:
        raise AssertionError('normalize_stream(%r, blocks=%r, files=%r) -> %r\n reads back %r, want %r' % (stream_name, sizes, files, toks, got, want_b))
    zero = 0 in sizes
    special = any(c in (stream_name + ''.join(n for n, _ in files)) for c in ' :\\\t\n')
    case(('normalize', stream_name, tuple(sizes), repr(files)), zero or special, 'py:normalize',
         'py:normalize-zero-block' if zero else '', 'py:normalize-escaped-name' if special else '')
    if zero or special:
        sample('py-normalize', {'stream': stream_name, 'block_sizes': sizes, 'files': files, 'tokens': toks})


sizes_st = st.lists(st.one_of(st.just(0), st.just(1), st.integers(0, 20)), min_size=1, max_size=5)


@st.composite
def ranges_case(draw):
    sizes = draw(sizes_st)
    total = sum(sizes)
    bounds = [0] + [sum(sizes[:i + 1]) for i in range(len(sizes))]
    def pick(lo):
        k = draw(st.integers(0, 3))
        if k == 0:
            v = draw(st.sampled_from(bounds))
        elif k == 1:
            v = draw(st.sampled_from(bounds)) + draw(st.integers(-1, 1))
        else:
            v = draw(st.integers(0, total))
        return min(max(v, lo), total)
    start = pick(0)
    end = pick(start)
    return sizes, start, end - start


name_st = st.lists(st.sampled_from(NAME_ALPHABET), min_size=1, max_size=6).map(''.join).filter(
    lambda s: s not in ('.', '..'))


@st.composite
def normalize_case(draw):
    sizes, _, _ = draw(ranges_case())
    total = sum(sizes)
    nfiles = draw(st.integers(1, 4))
    files = []
    used = set()
    for _ in range(nfiles):
        name = draw(name_st)
        if name in used:
            continue
        used.add(name)
        ntok = draw(st.integers(1, 3))
        toks = []
        for _ in range(ntok):
            a = draw(st.integers(0, total))
            b = draw(st.integers(a, total))
            toks.append((a, b - a))
        files.append((name, toks))
    sname = '.' if draw(st.booleans()) else './' + draw(name_st)
    return sname, sizes, files


def run_replay(path):
    d = json.load(open(path))
    if d['kind'] == 'ranges':
        check_ranges(d['sizes'], d['pos'], d['size'])
    elif d['kind'] == 'escape':
        check_escape(d['name'])
    else:
        check_normalize(d['stream_name'], d['sizes'], [(n, [tuple(t) for t in toks]) for n, toks in d['files']])


def main():
    if args.replay:
        try:
            run_replay(args.replay)
        except AssertionError as e:
            print('--- FAIL: replay\n%s' % e)
            return 1
        print('replay passed')
        return 0
    common = dict(max_examples=args.examples, database=None, deadline=None, derandomize=False,
                  suppress_health_check=list(HealthCheck), print_blob=False)

    @seed(args.seed)
    @settings(**common)
    @given(ranges_case())
    def t_ranges(c):
        check_ranges(*c)

    @seed(args.seed + 1)
    @settings(**common)
    @given(name_st)
    def t_escape(n):
        check_escape(n)

    @seed(args.seed + 2)
    @settings(**common)
    @given(normalize_case())
    def t_normalize(c):
        check_normalize(*c)

    rc = 0
    for name, fn in (('ranges', t_ranges), ('escape', t_escape), ('normalize', t_normalize)):
        try:
            fn()
        except AssertionError as e:
            path = os.path.abspath('c10py_%s_fail.json' % name)
            with open(path, 'w') as f:
                json.dump(LAST, f)
            print('--- FAIL: python %s\n%s' % (name, e))
            print('VERIF-REPLAY: %s' % path)
            rc = 1
        except Exception:
            traceback.print_exc()
            path = os.path.abspath('c10py_%s_fail.json' % name)
            with open(path, 'w') as f:
                json.dump(LAST, f, default=str)
            # an exception inside the code under test on a valid input is a failure of the property
            print('--- FAIL: python %s raised on input %r' % (name, LAST))
            print('VERIF-REPLAY: %s' % path)
            rc = 1
    flush_stats()
    return rc


if __name__ == '__main__':
    sys.exit(main())
