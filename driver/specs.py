"""Static description of harness binaries (KEYS) and checks (CHECKS)."""

KEYS = {
    'arvados': {'pkg': 'sdk/go/arvados'},
}

CHECKS = {}


def unit(name, key, run, quick, thorough, **kw):
    u = {'name': name, 'key': key, 'run': run, 'quick': quick, 'thorough': thorough}
    u.update(kw)
    return u

CHECKS['C07'] = {
    'level': 'exploration',
    'rule': 'rapid-generated (hash, hints, token, key, ttl, expiry) tuples; each case signs with the real code, '
            'compares with the blob.rb reference HMAC and applies ~35 single-field/single-character perturbations; '
            'every case is non-trivial (it contains perturbations); distinct = distinct tuple fingerprint',
    'assumptions': ['blob.rb algorithm transcribed (Ruby not installed)', 'expiry within ±5 s of now is not generated (wall clock not injectable)'],
    'units': [
        unit('sign', 'arvados', '^TestVerifC07', {'shards': 8, 'checks': 1500}, {'shards': 16, 'checks': 60000, 'timeout': 1500}),
    ],
}

NOT_APPLICABLE = {}
HOOK_COMMITS = []
