"""Static description of harness binaries (KEYS) and checks (CHECKS)."""

KEYS = {
    'arvados': {'pkg': 'sdk/go/arvados'},
}

CHECKS = {}


def unit(name, key, run, quick, thorough, **kw):
    u = {'name': name, 'key': key, 'run': run, 'quick': quick, 'thorough': thorough}
    u.update(kw)
    return u

CHECKS['C07'] = {
    'level': 'exploration',
    'rule': 'rapid-generated (hash, hints, token, key, ttl, expiry) tuples; each case signs with the real code, '
            'compares with the blob.rb reference HMAC and applies ~35 single-field/single-character perturbations; '
            'every case is non-trivial (it contains perturbations); distinct = distinct tuple fingerprint',
    'assumptions': ['blob.rb algorithm transcribed (Ruby not installed)', 'expiry within ±5 s of now is not generated (wall clock not injectable)'],
    'units': [
        unit('sign', 'arvados', '^TestVerifC07', {'shards': 8, 'checks': 1500}, {'shards': 16, 'checks': 60000, 'timeout': 1500}),
    ],
}

NOT_APPLICABLE = {}
HOOK_COMMITS = []

KEYS['manifest'] = {'pkg': 'sdk/go/manifest'}

CHECKS['C10'] = {
    'level': 'exploration',
    'rule': 'grammar-directed manifests (1-4 streams, 1-5 blocks of 0-20 bytes incl. zero-length, file tokens at block-boundary '
            'alignments, escaped/backslash/non-ASCII names); non-trivial = a file token crosses a block boundary, or a zero-length '
            'block, or an escaped name; distinct = fingerprint of (manifest text, src, relocate)',
    'assumptions': ['reference interpreter written from doc/architecture/manifest-format'],
    'units': [
        unit('gomanifest', 'manifest', '^TestVerifC10', {'shards': 8, 'checks': 1500}, {'shards': 16, 'checks': 60000, 'timeout': 1500}),
    ],
}
