"""Static description of harness binaries (KEYS) and checks (CHECKS).

Every driver/spec_*.py file is imported and may add entries:

    from specs import KEYS, CHECKS, unit
    KEYS['mykey'] = {'pkg': 'services/keepstore'}          # harness/mykey/*_test.go are overlaid into that package
    CHECKS['C01'] = {..., 'ready': True, 'units': [unit(...)]}
"""
import glob, importlib.util, os, sys

KEYS = {}
CHECKS = {}
NOT_APPLICABLE = {}
HOOK_COMMITS = []


def unit(name, key, run, quick, thorough, **kw):
    u = {'name': name, 'key': key, 'run': run}
    if quick is not None:
        u['quick'] = quick
    if thorough is not None:
        u['thorough'] = thorough
    u.update(kw)
    return u


def _load():
    here = os.path.dirname(os.path.abspath(__file__))
    sys.modules.setdefault('specs', sys.modules[__name__])
    for path in sorted(glob.glob(os.path.join(here, 'spec_*.py'))):
        name = os.path.basename(path)[:-3]
        sp = importlib.util.spec_from_file_location(name, path)
        mod = importlib.util.module_from_spec(sp)
        sp.loader.exec_module(mod)


_load()
