from specs import KEYS, CHECKS, unit

KEYS['keepstore_c01'] = {'pkg': 'services/keepstore'}

CHECKS['C01'] = {
    'ready': False,
    'level': 'exploration',
    'rule': 'placeholder',
    'assumptions': [],
    'units': [
        unit('script', 'keepstore_c01', '^TestVerifC01Script$', {'shards': 16, 'checks': 60}, {'shards': 16, 'checks': 1500, 'timeout': 1500}),
        unit('boundary', 'keepstore_c01', '^TestVerifC01Boundary$', None, {'shards': 1, 'checks': 8, 'timeout': 900}),
    ],
}
