from specs import KEYS, CHECKS, unit

KEYS['keepstore_c01'] = {'pkg': 'services/keepstore'}

CHECKS['C01'] = {
    'ready': True,
    'level': 'exploration',
    'rule': 'one real keepstore handler (handler.setup, 1-3 Directory volumes in a scratch dir on /dev/shm, each rw / ReadOnly by '
            'config / ReadOnly via AccessViaHosts, generated probe order) per case; block size from {0,1,2,31..33,4K+-1,64K+-1,'
            '256K+-1,1M+-1,random<=3MiB} (thorough adds 64MiB-1, 64MiB, 64MiB+1); every volume starts absent/intact/corrupt '
            '(bit flip, truncation, zero length, appended bytes, other block of same/other length, sparse growth past 64 MiB); '
            'then 3-7 steps of GET/HEAD (with and without hints, direct and over a real HTTP connection), PUT correct body, '
            'PUT wrong body (incl. the corrupt bytes already on disk), PUT with Content-Length != bytes sent, and re-corruption '
            'of a volume between requests. Round 3: stored copies are also changed IN PLACE (same file, same size; bit flip, run of inverted bytes, other block of the '
            'same length, true content written back) with the exact mtime put back by os.Chtimes (7 of 8) or left to change; 3 cases in 10 follow an aimed script '
            'read (GET/HEAD served from the copy) -> corrupt that copy in place -> read -> restore in place -> read -> corrupt again -> read, all through one handler '
            '(no restart), in half of them with no copy on any other volume; in-place changes also occur as ordinary script steps. Non-trivial = some request was served while a corrupt copy of the block was on a '
            'volume, or a PUT arrived while a copy (intact or corrupt) already existed. distinct = fingerprint of '
            '(size class, per-volume mode+initial state, script)',
    'assumptions': [
        'Directory (UnixVolume) driver only; volumes are tmpfs directories',
        'the buffer pool is shared by all handlers of a test process (as in one long-running keepstore), so buffers carry stale bytes of earlier blocks',
        'volume probe order is set by the harness to a generated permutation (every order is one that handler.setup can produce from map iteration)',
        'findmnt is kept out of PATH (blank DeviceID), which the property does not depend on',
        'no real MD5 collisions are generated',
    ],
    'technique': 'property-based testing (rapid) with a file-level oracle: intactness is decided by comparing the files under the volume roots with the generated block',
    'units': [
        unit('script', 'keepstore_c01', '^TestVerifC01Script$',
             {'shards': 16, 'checks': 60}, {'shards': 16, 'checks': 2000, 'timeout': 3000}),
        # 64 MiB boundary: each rapid case runs the sizes 64MiB-1, 64MiB, 64MiB+1 (3 evaluations);
        # one process, each evaluation moves several hundred MiB
        unit('boundary', 'keepstore_c01', '^TestVerifC01Boundary$',
             None, {'shards': 1, 'checks': 8, 'timeout': 1500}),
    ],
}
