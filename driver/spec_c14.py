from specs import KEYS, CHECKS, unit

# Part (a) of C14 (scheduler-level state machine). Parts (b)/(c) are appended by
# spec_c14_e2e.py, which is loaded after this file.
KEYS['scheduler_c14'] = {'pkg': 'lib/dispatchcloud/scheduler'}

CHECKS['C14'] = {
    'ready': True,
    'level': 'exploration',
    'rule': '(a) rapid state machine: a real Scheduler whose runQueue()/sync() are actions, over an environment model that is both '
            'WorkerPool (1-3 instances booting/idle/running/shutdown/unknown x run/hold/drain, process table starting -> running -> '
            'exited-unreported -> reported -> forgotten, unkillable flag, processes left on not-yet-probed instances) and ContainerQueue '
            '(API-side truth vs the dispatcher cache, Lock/Unlock/Cancel calls parked in flight until the machine completes them with a '
            'drawn answer, Update()); 1-4 containers, average ~50 steps per case (-rapid.steps=60). Other actions: instance boots / is probed / '
            'disappears / changes idle behaviour, process runs / exits with or without finalising / exit noticed / kill takes effect, API '
            'priority change, cancel, requeue behind the dispatcher, quota flag. Invariants after every step: <=1 live process per '
            'container; every StartContainer is for a container the queue has Locked with priority>0 and that Running() does not report; '
            'after sync() every cancelled/completed/held/re-queued/unknown container with a lingering process received KillContainer '
            '(unless an API call for it is still in flight). Non-trivial = some process exited without finalising, or a Lock call failed or '
            'was in flight across a runQueue, or a process existed on an instance the pool had not probed yet (dispatcher restart). '
            'distinct = fingerprint of the action sequence with all drawn parameters. '
            '(b) rapid state machine over a real worker.Pool with model cloud/executor (non-trivial: a --detach returned and a process '
            'exited or was killed); (c) PRNG-generated end-to-end scenarios over loopback SSH against test.StubDriver/test.Queue with '
            'restarts (non-trivial: a container started more than once, a failed Lock call, or a restart with live crunch-run processes); '
            'see notes/C14e2e.md.',
    'assumptions': [
        '(a) the queue cache (what the dispatcher can see) is the reference for "Locked with priority>0 at that moment"; API-side changes become visible only through Update() or the answer to the dispatcher\'s own call',
        '(a) a process on a not-yet-probed instance becomes known to the pool at the latest when the pool is asked to kill that container (a probe may complete at any time); without that the real code has a designed-in window covered only by fixStaleLocks, which is not part of runQueue/sync',
        '(a) API semantics of the model: lock needs Queued and priority>0, unlock needs Locked, cancel needs a non-final state; any call may also fail for no reason',
        '(a) waiting for scheduler goroutines uses the goroutine count (no sleep decides a verdict); the state space is sampled, not exhausted',
        '(c) a restarted dispatcher is simulated by cutting off the old generation\'s commands; a second process is excused only if the first one was inherited from the previous generation on a VM that has not answered any --list of the new one for >= min(StaleLockTimeout, TimeoutBooting)',
    ],
    'units': [
        unit('sched-sm', 'scheduler_c14', '^TestVerifC14aStateMachine$',
             {'shards': 8, 'checks': 400, 'steps': 60},
             {'shards': 16, 'checks': 15000, 'steps': 60, 'timeout': 1500}),
    ],
}
