from specs import KEYS, CHECKS, unit

KEYS['scheduler_c14'] = {'pkg': 'lib/dispatchcloud/scheduler'}

CHECKS['C14'] = {
    'ready': False,
    'level': 'exploration',
    'rule': 'TODO',
    'assumptions': [],
    'units': [
        unit('sched-sm', 'scheduler_c14', '^TestVerifC14aStateMachine$',
             {'shards': 8, 'checks': 400, 'steps': 60},
             {'shards': 16, 'checks': 10000, 'steps': 60, 'timeout': 1500}),
    ],
}
