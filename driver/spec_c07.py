from specs import KEYS, CHECKS, unit

KEYS['arvados'] = {'pkg': 'sdk/go/arvados'}

CHECKS['C07'] = {
    'ready': True,
    'level': 'exploration',
    'rule': 'rapid-generated (hash, hints, token, key, ttl, expiry) tuples; each case signs with the real code, '
            'compares with the blob.rb reference HMAC and applies ~35 single-field/single-character perturbations; '
            'every case is non-trivial (it contains perturbations); distinct = distinct tuple fingerprint',
    'assumptions': ['blob.rb algorithm transcribed (Ruby not installed)', 'expiry within +-5 s of now is not generated (wall clock not injectable)'],
    'units': [
        unit('sign', 'arvados', '^TestVerifC07', {'shards': 8, 'checks': 1500}, {'shards': 16, 'checks': 40000, 'timeout': 3000}),
    ],
}
