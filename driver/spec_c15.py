from specs import KEYS, CHECKS, unit

# shared with spec_c14_e2e.py (same harness binary: harness/dispatchcloud_c14)
KEYS.setdefault('dispatchcloud_c14', {
    'pkg': 'lib/dispatchcloud',
    'hooks': {'lib/dispatchcloud/test/verif_hooks.go': 'harness/dispatchcloud_c14/hooks/test_verif_hooks.go'},
})

CHECKS['C15'] = {
    'ready': True,
    'level': 'exploration',
    'rule': 'PRNG-generated (seeded from the shard seed) end-to-end scenarios run against the real dispatcher.run()+scheduler+'
            'worker.Pool+sshexecutor over loopback SSH to test.StubDriver VMs and test.Queue: 20-120 (quick) / 20-500 (thorough) '
            'containers with tied priorities incl. 0, per-VM fault plans by creation order (never boots, slow boot, broken-after, '
            'crunch-run missing, report-broken, crash/arv-mount-deadlock rates, detach delay), destroy error rate, create/list rate '
            'limits, quota errors, API-side cancels and priority changes, hung and unkillable processes, management-API '
            'hold/drain/run, 0-2 dispatcher restarts (plus one after each quota error). Premise: VMs created after the generated '
            'plan list are healthy. A case is non-trivial if it contained a dispatcher restart, or a VM that never boots was '
            'created, or a crunch-run crashed after setting state Running; distinct = distinct scenario seed. '
            'Verdict: VIOLATION only if container states, instance set and process tables are all unchanged for >=10 s '
            '(stretched to 5x the fault-free 50-container run time on a busy machine) while the scheduler keeps reading the queue, a harness '
            'heartbeat shows the process had the CPU (>=600 ticks/s) and probe round trips are shorter than SyncInterval/2 (else inconclusive); '
            'still changing at D=max(60 s, 100x fault-free time), capped at 120 s (quick) / 300 s (thorough) so that a shard stays inside its time-out, is reported as inconclusive (exit 2).',
    'assumptions': [
        'test.StubDriver/test.StubVM/test.Queue stand in for the cloud, the VMs and the API server; the real container.Queue (API client) is not exercised',
        'bounded liveness only: convergence within D on sampled fault schedules, no claim about unbounded "eventually"',
        'premise: destroy error rate <=0.6, VMs created after the fault-plan list are healthy (crash/deadlock rate <=0.1), every hung/unkillable process belongs to a container that is cancelled or put on hold through the API',
        'a quota error is followed by a dispatcher restart, except in at most one "slow" scenario per thorough shard that waits out worker.Pool\'s hard-coded 60 s quotaErrorTTL (no progress is demanded during that minute)',
        'a restart is simulated as process death: commands, cloud calls and queue writes of the old generation are cut off at the moment of death (generation-tagged crunch-run path)',
        'unsatisfiable containers are not generated (test.Queue has no handling for them); operator "hold" is not combined with unkillable processes (the pool does not drain a held instance after giving up on a process, also not after the hold is released - recorded in notes/C15.md)',
        'a dispatcher panic on any goroutine is reported as a violation (crash_is_violation); harness callbacks on foreign goroutines recover their own panics and report them as infrastructure errors',
    ],
    'level_note': 'wall-clock readings decide nothing except the stuck rule (>=10 s, i.e. >=66x the largest configured dispatcher timeout of 150 ms) and the inconclusive deadline',
    'technique': 'randomized end-to-end fault injection with an event-recording monitor; scenario JSON + event history + dispatcher log are the replay artifact (replayed up to 5 times)',
    'units': [
        unit('live', 'dispatchcloud_c14', '^TestVerifC15Liveness$',
             {'shards': 16, 'timeout': 500, 'env': {'VERIF_SCENARIOS': 4, 'VERIF_MAXN': 120}},
             {'shards': 16, 'timeout': 1700, 'env': {'VERIF_SCENARIOS': 30, 'VERIF_MAXN': 500, 'VERIF_SLOWQUOTA': 1, 'VERIF_DCAP_S': 300}},
             rapid=False, crash_is_violation=True, tolerate_infra=2),
    ],
}
