from specs import KEYS, CHECKS, unit

KEYS.setdefault('dispatchcloud_c14', {
    'pkg': 'lib/dispatchcloud',
    'hooks': {'lib/dispatchcloud/test/verif_hooks.go': 'harness/dispatchcloud_c14/hooks/test_verif_hooks.go'},
})

CHECKS['C15'] = {
    'ready': False,
    'level': 'exploration',
    'rule': 'PRNG-generated end-to-end scenarios',
    'assumptions': [],
    'units': [
        unit('live', 'dispatchcloud_c14', '^TestVerifC15Liveness$',
             {'shards': 10, 'timeout': 400, 'env': {'VERIF_SCENARIOS': 2, 'VERIF_MAXN': 120}},
             {'shards': 16, 'timeout': 1500, 'env': {'VERIF_SCENARIOS': 30, 'VERIF_MAXN': 500, 'VERIF_SLOWQUOTA': 1}},
             rapid=False, crash_is_violation=True),
    ],
}
