from specs import KEYS, CHECKS, unit

CHECKS['C08'] = {
    'ready': True,
    'level': 'exploration',
    'rule': 'rapid state machine (open with flag combinations / write / read / seek / truncate / mkdir / rename / remove / flush / '
            'readdir / save) against a byte-array-per-inode model, block limit 1..64 (and 64 MiB smoke); non-trivial = the history '
            'contains a write that crosses a segment boundary of a file that already has a stored (flushed) segment, or >=2 handles '
            'open on one file; distinct = fingerprint of the whole operation history',
    'assumptions': ['outcomes the property leaves open (O_TRUNC via read-only open, truncate via read-only handle, directory renamed '
                    'onto a file, O_SYNC) are adopted from the implementation'],
    'units': [
        unit('machine', 'arvados', '^TestVerifC08Machine$', {'shards': 14, 'checks': 500, 'steps': 60}, {'shards': 16, 'checks': 15000, 'steps': 200, 'timeout': 3600}, crash_is_violation=True),
        unit('prod', 'arvados', '^TestVerifC08Production$', {'shards': 2, 'checks': 100, 'steps': 40}, {'shards': 2, 'checks': 2000, 'steps': 100, 'timeout': 2400}),
    ],
}
