from specs import KEYS, CHECKS, unit

KEYS['keepclient_c03'] = {'pkg': 'sdk/go/keepclient'}

_RUN = {'timeout': 3000}

CHECKS['C03'] = {
    'ready': True,
    'level': 'exploration',
    'rule': 'real KeepClient (real http.Transport, fresh per case) against 1-4 scripted loopback Keep services (+ optional gateway reached '
            'through a +K@uuid hint) that write raw HTTP; per (service, n-th request) one of 22 behaviours: correct (Content-Length / '
            'with trailing junk outside the framing / chunked / until-close), bit flip, short body with honest or matching '
            'Content-Length, long body, Content-Length lie, chunked short/long/flipped/unterminated, no-length short/long/flipped, '
            '404, other 4xx, 408/429/5xx, reset or close before any byte, reset after the headers; Retries 0-3; block sizes '
            '{0,1,2-300,301-5000,65537,up to 1 MiB}; locators bare hash or hash+size(+A/+Z/+K hints). Access modes: Get streamed with '
            'generated read sizes, Get+WriteTo, Get+partial read+Close (unit get); ReadAt histories over 1-3 blocks through a fresh '
            'BlockCache (MaxBlocks default/1/2) with the services healed or broken between calls (units cache, cacheU = bare-hash '
            'locators); File.Read/Seek on a CollectionFileReader over a generated 1-2 stream manifest (unit file); 2-8 concurrent '
            'ReadAt / file readers of one block sharing the cache (units conc, race = same under -race in a child process; race '
            'reports are recorded as information only); one fixed scenario: bare-hash locator answered with Content-Length 64 MiB+1 '
            '(unit oversize); 2-5 distinct blocks read by 2-8 concurrent ReadAt callers through a cache of 1-2 blocks, all services correct '
            '(unit evict; non-trivial when a block had to be fetched again after eviction). Oracle: true content held by the harness + request log of the fakes. A case is non-trivial when at '
            'least one non-correct answer was actually served before the result. distinct = fingerprint of (mode, locator, '
            'requests actually served with their behaviours, operation history)',
    'assumptions': [
        'every connection carries one exchange (responses say Connection: close); keep-alive reuse is not exercised',
        'a 200 without Content-Length for a locator without size hint is refused by the client by design; the harness adopts that outcome (error allowed, success must still carry the right bytes)',
        'reset-after-headers is treated as ambiguous (the client may see a bad 200 or a connection failure); only the data oracle applies to it',
        'bare-hash locators through ReadAt make BlockCache allocate 64 MiB per fetch, so they are explored with a small case count (unit cacheU)',
        'TLS, proxies timeouts, and the Python/Ruby clients are not covered',
    ],
    'technique': 'property-based testing (rapid) with a scripted raw-HTTP fake Keep service and a request-log oracle',
    'units': [
        unit('get', 'keepclient_c03', '^TestVerifC03Get$', {'shards': 5, 'checks': 250}, dict(_RUN, shards=5, checks=36000)),
        unit('cache', 'keepclient_c03', '^TestVerifC03Cache$', {'shards': 4, 'checks': 120}, dict(_RUN, shards=4, checks=18000)),
        unit('cacheU', 'keepclient_c03', '^TestVerifC03Cache$', {'shards': 1, 'checks': 25}, dict(_RUN, shards=1, checks=300),
             env={'C03_UNSIZED_PCT': '40'}),
        unit('file', 'keepclient_c03', '^TestVerifC03File$', {'shards': 3, 'checks': 250}, dict(_RUN, shards=3, checks=30000)),
        unit('conc', 'keepclient_c03', '^TestVerifC03Concurrent$', {'shards': 2, 'checks': 100}, dict(_RUN, shards=2, checks=15000)),
        unit('evict', 'keepclient_c03', '^TestVerifC03Evict$', {'shards': 3, 'checks': 60}, dict(_RUN, shards=4, checks=7500)),
        unit('race', 'keepclient_c03', '^TestVerifC03Race$', {'shards': 1, 'checks': 12}, dict(_RUN, shards=1, checks=500),
             race=True),
        unit('oversize', 'keepclient_c03', '^TestVerifC03OversizeCL$', {'shards': 1}, {'shards': 1}, rapid=False),
    ],
}
