from specs import KEYS, CHECKS, unit

KEYS['keepclient_c03'] = {'pkg': 'sdk/go/keepclient'}

CHECKS['C03'] = {
    'ready': False,
    'level': 'exploration',
    'rule': 'todo',
    'assumptions': [],
    'units': [
        unit('get', 'keepclient_c03', '^TestVerifC03Get$', {'shards': 5, 'checks': 300}, {'shards': 5, 'checks': 15000, 'timeout': 1500}),
        unit('cache', 'keepclient_c03', '^TestVerifC03Cache$', {'shards': 4, 'checks': 200}, {'shards': 4, 'checks': 8000, 'timeout': 1500}),
        unit('cacheU', 'keepclient_c03', '^TestVerifC03Cache$', {'shards': 1, 'checks': 25}, {'shards': 1, 'checks': 400, 'timeout': 1500},
             env={'C03_UNSIZED_PCT': '40'}),
        unit('file', 'keepclient_c03', '^TestVerifC03File$', {'shards': 3, 'checks': 300}, {'shards': 3, 'checks': 10000, 'timeout': 1500}),
        unit('conc', 'keepclient_c03', '^TestVerifC03Concurrent$', {'shards': 2, 'checks': 150}, {'shards': 2, 'checks': 6000, 'timeout': 1500}),
        unit('race', 'keepclient_c03', '^TestVerifC03Race$', {'shards': 1, 'checks': 25}, {'shards': 1, 'checks': 600, 'timeout': 1500},
             race=True),
    ],
}
