from specs import KEYS, CHECKS, unit

KEYS['keepclient_c03'] = {'pkg': 'sdk/go/keepclient'}

CHECKS['C03'] = {
    'ready': False,
    'level': 'exploration',
    'rule': 'todo',
    'assumptions': [],
    'units': [
        unit('get', 'keepclient_c03', '^TestVerifC03Get$', {'shards': 5, 'checks': 300}, {'shards': 6, 'checks': 15000, 'timeout': 1500}),
        unit('cache', 'keepclient_c03', '^TestVerifC03Cache$', {'shards': 4, 'checks': 200}, {'shards': 4, 'checks': 8000, 'timeout': 1500}),
        unit('file', 'keepclient_c03', '^TestVerifC03File$', {'shards': 4, 'checks': 200}, {'shards': 4, 'checks': 8000, 'timeout': 1500}),
        unit('conc', 'keepclient_c03', '^TestVerifC03Concurrent$', {'shards': 2, 'checks': 200}, {'shards': 2, 'checks': 8000, 'timeout': 1500}),
    ],
}
