from specs import KEYS, CHECKS, unit

KEYS['keepstore_c07'] = {'pkg': 'services/keepstore'}

CHECKS['C07']['units'].append(
    unit('keepstore', 'keepstore_c07', '^TestVerifC07Keepstore',
         {'shards': 8, 'checks': 200}, {'shards': 16, 'checks': 5000, 'timeout': 1500}))
