from specs import KEYS, CHECKS, unit

# keepstore half of C07 (spec_c07.py is loaded first and defines CHECKS['C07']).
KEYS['keepstore_c07'] = {'pkg': 'services/keepstore'}

CHECKS['C07']['units'].append(
    unit('keepstore', 'keepstore_c07', '^TestVerifC07Keepstore',
         {'shards': 8, 'checks': 200}, {'shards': 16, 'checks': 4000, 'timeout': 3000}))

CHECKS['C07']['rule'] += (
    '; keepstore unit: one real handler with BlobSigning on and stored blocks of 0..70000 bytes, per case a generated '
    '(key, TTL, token, Authorization scheme, block, hints around the signature, expiry >=30 s ahead or >=5 s past) and '
    '~35 GET/HEAD requests (exact reference-signed locator, other/absent/extended token, signature for other key/TTL/block, '
    'extended expiry, single characters of signature and expiry, structural damage) plus a PUT whose reply locator is '
    'checked against the reference HMAC and re-presented with the caller\'s and another token')
CHECKS['C07']['assumptions'] = CHECKS['C07'].get('assumptions', []) + [
    'keepstore unit: locators with +R hints are not sent (remote proxy path, C19); future expiries are >=30 s away and '
    'past ones >=5 s back because keepstore reads the wall clock',
]
