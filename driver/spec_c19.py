from specs import KEYS, CHECKS, unit
import os
_DEV = {'VERIF_KNOWN': os.environ['C19_DEV_KNOWN']} if os.environ.get('C19_DEV_KNOWN') else {}  # DEV ONLY - remove

KEYS['auth_c19'] = {'pkg': 'sdk/go/auth'}
# lib/controller/localdb/login_pam.go needs cgo + <security/pam_appl.h> (not installed here);
# the overlay presents a PAM-free stand-in (PAM login is unrelated to C19). /repo is untouched.
C19_PAM_HOOKS = {'lib/controller/localdb/login_pam.go': 'harness/federation_c19/hooks/login_pam_nocgo.go'}
KEYS['federation_c19'] = {'pkg': 'lib/controller/federation', 'hooks': C19_PAM_HOOKS}
KEYS['controller_c19'] = {'pkg': 'lib/controller', 'hooks': {'lib/controller/localdb/login_pam.go': 'harness/controller_c19/hooks/login_pam_nocgo.go'}}
KEYS['keepstore_c19'] = {'pkg': 'services/keepstore'}

CHECKS['C19'] = {
    'ready': False,
    'level': 'exploration',
    'rule': 'TODO',
    'assumptions': [],
    'units': [
        unit('salt', 'auth_c19', '^TestVerifC19SaltToken$', {'shards': 4, 'checks': 4000}, {'shards': 8, 'checks': 100000, 'timeout': 900}, env=_DEV),
        unit('provider', 'federation_c19', '^TestVerifC19Provider$', {'shards': 4, 'checks': 3000}, {'shards': 8, 'checks': 60000, 'timeout': 900}, env=_DEV),
        unit('conn', 'federation_c19', '^TestVerifC19Conn$', {'shards': 4, 'checks': 1500}, {'shards': 8, 'checks': 30000, 'timeout': 900}, env=_DEV),
        unit('legacy', 'controller_c19', '^TestVerifC19LegacyHandler$', {'shards': 4, 'checks': 1500}, {'shards': 8, 'checks': 30000, 'timeout': 900}, env=_DEV),
        unit('keepstore', 'keepstore_c19', '^TestVerifC19KeepstoreRemoteProxy$', {'shards': 4, 'checks': 1500}, {'shards': 8, 'checks': 30000, 'timeout': 900}, env=_DEV),
    ],
}
