from specs import KEYS, CHECKS, unit

# C19 - a user's token secret never leaves the cluster unsalted.
# Notes: /verif/notes/C19.md. Shared generator/oracle/recorder: harness/vcommon/c19.

KEYS['auth_c19'] = {'pkg': 'sdk/go/auth'}
# lib/controller/localdb/login_pam.go needs cgo + <security/pam_appl.h> (not installed here);
# the overlay presents a PAM-free stand-in (PAM login is unrelated to C19). /repo is untouched.
# Each key carries its own copy of the stand-in so that it builds independently of other agents' keys.
KEYS['federation_c19'] = {'pkg': 'lib/controller/federation',
                          'hooks': {'lib/controller/localdb/login_pam.go': 'harness/federation_c19/hooks/login_pam_nocgo.go'}}
KEYS['controller_c19'] = {'pkg': 'lib/controller',
                          'hooks': {'lib/controller/localdb/login_pam.go': 'harness/controller_c19/hooks/login_pam_nocgo.go'}}
KEYS['keepstore_c19'] = {'pkg': 'services/keepstore'}

CHECKS['C19'] = {
    'ready': True,
    'level': 'exploration',
    'rule': 'rapid-generated contexts of 1-3 tokens (v2 with secret lengths 1-80 dense at 39/40/41 and 49-51, alphabets hex/base36/alnum/printable, '
            'uuid owned by the remote/the local cluster/a third cluster or malformed, extra path segments; legacy [0-9a-z]{41,} with local '
            'resolution found/401/500/remote-owned; opaque strings incl. JWT shape, "v2/x", bare 40 characters), remote ids, and per level: '
            'SaltToken; saltedTokenProvider with a stub local backend; 9 operations of a real federation.New Conn whose 2 remotes record raw '
            'request bytes; the legacy lib/controller path with tokens placed in Authorization OAuth2/Bearer/Basic, api_token query, form body '
            'and cookie over 5 resources x 6 request forms; keepstore remoteProxy.Get against a recording Keep service. A case is non-trivial when '
            'at least one token is in Arvados format (v2 or legacy) and, at the wire levels, at least one forwarded request was captured and '
            'scanned; distinct = fingerprint of (tokens, cluster ids, resolutions, operation/route). About 4 % of the cases lie in the region of '
            'the known finding c19-40char-nonhex-secret (secret of exactly 40 non-hex characters). Round 2: the local lookup of a bare token '
            'answers 200 / 401 / 403 (valid, scope-restricted) / 404 / 422 / 429 / 500 / 502 / 503 / connection error (stub backend, Rails '
            'stub dropping the connection, and ten behaviours of the in-memory database incl. restricted scopes, unparsable or NULL scopes, '
            'failing iteration, bad connection, no connection); only 401 may lead to pass-through. Legacy-handler requests arrive with '
            'Content-Length, chunked (generated chunk sizes, ContentLength -1), Content-Length 0, or as HTTP/1.0. '
            'Round 3: in 3 of 8 query/form placements of the legacy handler the parameter name is partly percent-encoded (api%5Ftoken, '
            'api_toke%6E, %61pi_token, ...), before or after the other parameters; one request in 4 also carries a reader_tokens parameter '
            '(labels param-name-percent-encoded/*).',
    'assumptions': [
        'reference salt = hex HMAC-SHA1(key=secret, msg=remote id); token grammar (v2/<uuid>/<secret>[/...], legacy [0-9a-z]{41,}) restated in vcommon/c19',
        'RailsAPI, PostgreSQL (one SELECT of validateAPItoken), the remote API server and the remote Keep service are loopback stubs; '
        'PAM login controller replaced by a stand-in at build time (cgo header missing)',
        'byte-level non-disclosure search uses the secret when it has >= 12 characters, "v2/<uuid>/<secret>" for shorter secrets with a uuid of >= 20 '
        'characters, and is skipped otherwise (about 4 % of token instances); hits are confirmed against a control request with rotated secrets',
        '40 hex digits with upper-case letters: either treatment (salt / not a salt) accepted',
        '"not forwarded" (fail closed) is accepted at the legacy-handler and keepstore levels except for tokens the property requires to be forwarded',
        'legacy handler: opaque tokens that the local database knows (or whose lookup fails) may be forwarded unchanged (property text) or salted from the resolved form (implementation), or refused',
        'after a failed lookup (neither 200 nor 401) anything forwarded that does not contain the raw token is accepted',
        'not driven: ContainerRequestCreate to a remote (hands over a runtime token by design), legacy collection-by-PDH fan-out, client-supplied reader_tokens in the legacy path',
    ],
    'technique': 'property-based testing (rapid) with an independent reference forwarding model and a raw-byte disclosure scanner',
    'units': [
        unit('salt', 'auth_c19', '^TestVerifC19SaltToken$', {'shards': 4, 'checks': 4000}, {'shards': 8, 'checks': 300000, 'timeout': 3000}),
        unit('provider', 'federation_c19', '^TestVerifC19Provider$', {'shards': 4, 'checks': 3000}, {'shards': 8, 'checks': 180000, 'timeout': 3000}),
        unit('conn', 'federation_c19', '^TestVerifC19Conn$', {'shards': 4, 'checks': 1500}, {'shards': 8, 'checks': 90000, 'timeout': 3000}),
        unit('legacy', 'controller_c19', '^TestVerifC19LegacyHandler$', {'shards': 4, 'checks': 1500}, {'shards': 8, 'checks': 90000, 'timeout': 3000}),
        unit('keepstore', 'keepstore_c19', '^TestVerifC19KeepstoreRemoteProxy$', {'shards': 4, 'checks': 1500}, {'shards': 8, 'checks': 90000, 'timeout': 3000}),
    ],
}
