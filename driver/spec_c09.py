from specs import KEYS, CHECKS, unit

CHECKS['C09'] = {
    'ready': True,
    'level': 'exploration',
    'rule': 'C08 state machine over names drawn from bytes 0x01-0xff, with a Keep write fault plan (k-th write, rate, background-only, '
            'save-only, healed before the final save); every successful MarshalManifest/Sync is checked for grammar validity, reload '
            'equality with the model and locator provenance; non-trivial = a save after >=1 injected write failure, or a saved tree with '
            'an empty directory (machine) / a manifest with a boundary-crossing file, zero-length block or escaped name (load-save); '
            'distinct = fingerprint of the operation history or manifest',
    'assumptions': ['reference grammar from doc/architecture/manifest-format; bytes >= 0x7f are accepted unescaped in names'],
    'units': [
        unit('machine', 'arvados', '^TestVerifC09Machine$', {'shards': 12, 'checks': 400, 'steps': 50}, {'shards': 14, 'checks': 12000, 'steps': 150, 'timeout': 3600}, crash_is_violation=True),
        unit('loadsave', 'arvados', '^TestVerifC09LoadSave$', {'shards': 4, 'checks': 1500}, {'shards': 2, 'checks': 100000, 'timeout': 2400}),
    ],
}
