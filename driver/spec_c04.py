from specs import KEYS, CHECKS, unit

# Built together with harness/keepstore_c02 (shared helpers, the hook file and
# the instrumented unix_volume.go come from that key).
KEYS['keepstore_c04'] = {'pkg': 'services/keepstore', 'with': ['keepstore_c02']}



def _cfg(d):
    return dict(d)


CHECKS['C04'] = {
    'ready': True,
    'level': 'exploration',
    'rule': '(A) histories: rapid draws a configuration (1-2 Directory volumes, each read-write / Volumes.ReadOnly / read-only for this server only through AccessViaHosts[this server].ReadOnly (volume.ReadOnly false) / read-write through AccessViaHosts while another server is listed read-only, BlobTrash on/off, TTL 5m/1h/2w, trash lifetime 0/1h and '
            'changed between steps, BlobDeleteConcurrency 0/1/4, BlobTrashConcurrency 1/4, Serialize), an initial state per (volume, 3 hashes) '
            '[absent | present with age 0 / <TTL / >TTL outside a 10 s guard band | trashed with past/future deadlines | both] and 1-40 steps of '
            'PUT, TOUCH, GET, PUT /trash (1-3 entries: timestamp = stored / stored+-1 ns / now / stale; mount "" / a uuid (then mostly with the timestamp stored on that mount) / unknown), DELETE, PUT /untrash, '
            'EmptyTrash on every writable mount, direct Volume.Trash/Untrash/Touch/Put/EmptyTrash on one mount, age-a-replica, expire-a-trash-file, change lifetime; '
            'after each step (trash queue drained) every change on disk must be permitted by the property for that step. '
            'Non-trivial (A) = the history contains an acknowledged PUT/TOUCH of a hash followed by a trash attempt (DELETE, trash-list entry, direct Trash) on the same hash. '
            '(B) interleavings: one TOUCH-or-PUT and one DELETE-or-TrashItem of the same old (trashable) block on two goroutines that park at every instrumented '
            'filesystem point; the schedule (which goroutine advances) is drawn by rapid (unit interleave) or enumerated exhaustively (unit exhaustive: all schedules of the small scenarios). '
            'Non-trivial (B) = the two goroutines overlap (a step of one lies between two steps of the other). distinct = distinct (configuration, initial state, history) resp. (scenario, released step sequence).',
    'assumptions': [
        'the clock is not injectable: ages/deadlines are generated >=10 s away from TTL/now boundaries and every verdict brackets the implementation\'s clock reading by readings before and after the step',
        'interleavings are controlled at filesystem-step granularity (statement boundaries found by the AST instrumenter); a goroutine that neither reaches a point nor finishes while a stack dump shows it in flock(2) or waiting for the Serialize mutex is treated as blocked',
        'all stored copies are intact (corruption is C01); one keepstore process per directory',
        'direct Volume.Trash/Untrash/Touch/Put/EmptyTrash calls are not issued on a mount that is read-only only through AccessViaHosts: keepstore reaches those methods only via AllWritable / NextWritable / Lookup(uuid, needWrite) and such a volume has no read-only check of its own',
        'the DELETE response body (copies_deleted) is not compared',
    ],
    'units': [
        unit('histories', 'keepstore_c04', '^TestVerifC04Histories$', _cfg({'shards': 12, 'checks': 80}), _cfg({'shards': 16, 'checks': 15000, 'timeout': 3000})),
        unit('interleave', 'keepstore_c04', '^TestVerifC04Interleave$', _cfg({'shards': 2, 'checks': 15}), _cfg({'shards': 8, 'checks': 1500, 'timeout': 3000})),
        unit('exhaustive', 'keepstore_c04', '^TestVerifC04Exhaustive$', _cfg({'shards': 2, 'env': {'VERIF_NSHARDS': 2}}), _cfg({'shards': 8, 'env': {'VERIF_NSHARDS': 8}, 'timeout': 1500}),
             rapid=False, shard_arg=True),
    ],
}
