from specs import KEYS, CHECKS, unit

_GEN = [{'dst': 'services/keepstore/unix_volume.go', 'out': 'unix_volume_instr.go',
         'cmd': ['go', 'run', '-C', '{verif}/tools/instrument', '.', '{repo}/services/keepstore/unix_volume.go', '{out}']}]
_HOOKS = {'services/keepstore/verif_points.go': 'harness/keepstore_c02/hooks/verif_points.go'}

# harness/keepstore_c02/*_test.go also holds the helpers shared with C04
# (handler set-up on scratch Directory volumes, the point controller).
KEYS['keepstore_c02'] = {'pkg': 'services/keepstore', 'hooks': _HOOKS, 'generated': _GEN}

CHECKS['C02'] = {
    'ready': False,
    'level': 'fault_enumeration',
    'rule': 'TODO',
    'assumptions': [],
    'units': [
        unit('crash', 'keepstore_c02', '^TestVerifC02Crash$', {'shards': 16, 'checks': 3}, {'shards': 16, 'checks': 40, 'timeout': 1500}),
    ],
}
