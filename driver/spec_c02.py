from specs import KEYS, CHECKS, unit

# unix_volume.go is replaced (in the build overlay only) by a copy that
# /verif/tools/instrument generates from the *current* working-tree file.
_GEN = [{'dst': 'services/keepstore/unix_volume.go', 'out': 'unix_volume_instr.go',
         'cmd': ['go', 'run', '-C', '{verif}/tools/instrument', '.', '{repo}/services/keepstore/unix_volume.go', '{out}']}]
_HOOKS = {'services/keepstore/verif_points.go': 'harness/keepstore_c02/hooks/verif_points.go'}

# harness/keepstore_c02/*_test.go also holds the helpers shared with C04
# (handler set-up on scratch Directory volumes, point classification).
KEYS['keepstore_c02'] = {'pkg': 'services/keepstore', 'hooks': _HOOKS, 'generated': _GEN}

CHECKS['C02'] = {
    'ready': True,
    'level': 'fault_enumeration',
    'exhaustive': False,
    'rule': 'rapid generates a case = (block size class relative to the write chunk, chunk size, pre-state of the target hash on each of '
            '1-2 Directory volumes [absent / empty dir / intact / truncated / bit-flipped / extended / other block / stale tmp file / intact+stale tmp], '
            'read-only flag, Serialize, volume order, round-robin start, bystander block in the same directory). An uninterrupted dry run of the PUT '
            'records every instrumented filesystem point reached; then EVERY point k x every action (die = runtime.Goexit of the goroutine at the point and of '
            'every goroutine that reaches a later point; cancel = client disconnect at the point [two variants in the thorough tier]; fail = the step returns EIO, sticky) '
            'is executed from the same pre-state and a fresh handler on the same directories is queried. One evaluation = one (case, point, action) execution. '
            'Non-trivial = the point lies in the temp-file-creation..rename window of WriteBlock, or some volume has a non-empty pre-state. '
            'distinct = distinct (size class, chunk, Serialize, pre-states, order, point label without line number, occurrence index, action). '
            'The enumeration of points is exhaustive per generated case only (cases themselves are sampled). '
            'Unit overlap (round 2): the same case generator (mostly one writable volume), TWO PUTs of the same block on one handler, each on its own goroutine, '
            'parked at every instrumented point; rapid draws the schedule (which PUT advances, with a drawn readiness to switch), the victim PUT, its target point '
            '(half of the time inside the temp-file..rename window of a solo run) and the way it is abandoned: die-one (all goroutines of the victim stop at their next point, '
            'its client goes away, the other PUT runs to completion), die-all (process death while both are in flight; a response of the other PUT counts only if it was complete '
            'at that instant), cancel / cancel-nw (client disconnect at the point), fail (EIO, sticky for the victim only) or none; then the same restart oracle. '
            'One evaluation = one overlapped execution; non-trivial = steps of the two PUTs interleave and the victim reached its target (or nobody was to be abandoned); '
            'distinct = distinct (case shape, victim, action, released step sequence).',
    'assumptions': [
        'process death is simulated by runtime.Goexit at an instrumented point; Go file writes are unbuffered, deferred unlock/Close calls that still run have no on-disk effect '
        '(cross-checked in the thorough tier by a re-executed child that is really SIGKILLed)',
        'kill points are the statement boundaries found by the AST instrumenter in unix_volume.go plus every data chunk and half-chunk of the block copy; finer instants (inside one syscall) are not separated',
        'power loss / fsync durability is not modelled (the property speaks of process death)',
        'unit overlap: the two PUTs are interleaved at filesystem-step granularity; goroutines are attributed to a PUT by goroutine ancestry (stack header "created by ... in goroutine N"); '
        'a PUT that neither reaches a point nor finishes while a stack dump shows a goroutine in flock(2) or waiting for the Serialize mutex is treated as blocked (a wrong guess only costs schedule control, never a verdict); '
        'die-one models a write that hangs for good at that step while its client gives up (deferred unlock/close calls of the stopped goroutine still run, they have no effect on file contents)',
    ],
    'units': [
        unit('crash', 'keepstore_c02', '^TestVerifC02Crash$', {'shards': 15, 'checks': 4}, {'shards': 16, 'checks': 80, 'timeout': 3000}),
        unit('overlap', 'keepstore_c02', '^TestVerifC02Overlap$', {'shards': 8, 'checks': 6}, {'shards': 16, 'checks': 60, 'timeout': 3000}),
        unit('realkill', 'keepstore_c02', '^TestVerifC02RealKill$', None, {'shards': 8, 'checks': 3, 'timeout': 1500}),
        unit('indexfault', 'keepstore_c02', '^TestVerifC02IndexFault$', {'shards': 1, 'checks': 40}, {'shards': 4, 'checks': 1500, 'timeout': 1500}),
    ],
}
