from specs import KEYS, CHECKS, unit

# same build-time stand-in as spec_c18.py (see the comment there): the PAM login
# file of lib/controller/localdb needs a C header that is not installed here.
PAM_HOOKS = {
    'lib/controller/localdb/login_pam.go': 'harness/federation_c18/hooks/login_pam_nocgo.go',
}

KEYS['federation_c20'] = {'pkg': 'lib/controller/federation', 'hooks': PAM_HOOKS}

CHECKS['C20'] = {
    'ready': False,
    'level': 'exploration',
    'rule': 'tbd',
    'assumptions': [],
    'units': [
        unit('list', 'federation_c20', '^TestVerifC20', {'shards': 8, 'checks': 2000}, {'shards': 16, 'checks': 100000, 'timeout': 1500}),
    ],
}
