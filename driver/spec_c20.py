from specs import KEYS, CHECKS, unit

# same build-time stand-in as spec_c18.py (see the comment there): the PAM login
# file of lib/controller/localdb needs a C header that is not installed here.
PAM_HOOKS = {
    'lib/controller/localdb/login_pam.go': 'harness/federation_c18/hooks/login_pam_nocgo.go',
}

KEYS['federation_c20'] = {'pkg': 'lib/controller/federation', 'hooks': PAM_HOOKS}

CHECKS['C20'] = {
    'ready': True,
    'level': 'exploration',
    'rule': 'local cluster + 1-3 remotes + an unknown prefix; 0-6 existing and 0-2 missing objects per cluster (backends also hold '
            'copies of foreign objects, every item is tagged with the backend that produced it); 1-3 uuid filters ("=", "in" with '
            '[]string / []interface{} incl. non-strings) with duplicates, malformed lengths and intersections that narrow; 30% of the '
            'cases perturb count/limit/offset/order/other filters/select/MaxItemsPerResponse/bypass/forwarded/ill-typed operand; '
            'per-backend paging plan (all at once, one at a time, random sizes, rotating order) and, in 40%, one fault at a generated '
            'call (error, no-progress page once or for ever, premature empty page, repeated item); 5 object types. Non-trivial = a '
            'federated query over >=2 clusters that needed several pages or met a fault, or an unsplittable multi-cluster query, or '
            'an unknown cluster; distinct = fingerprint of (type, filters, options, page limit, class, complete call log). Round 2: about 1.5% '
            'of the cases give one cluster (local or remote) 65-200 requested objects paged out 1 or 2 at a time (more than 64 / 100 / 128 '
            'pages from one backend; labels big:*); a third of the cases carry a select list ([uuid], [owner_uuid], [name,modified_by_user_uuid], '
            '[uuid,name], [], ...) and 70% of the backends honour it the way the API does (unselected fields zero, uuid included).',
    'assumptions': [
        'lib/controller/localdb/login_pam.go is replaced at build time by a PAM-free stand-in (missing C header in the sandbox)',
        'honest backends honour the uuid filter they are given; a premature empty page is undetectable by design (result only checked for soundness); a backend repeating already delivered items is outside the stated paging behaviours (termination only)',
        'single-remote queries with count/limit/offset/order are not "spanning several clusters": a rejection must precede any call, an answer must be sound',
        'ill-typed uuid operands: outcome adopted',
        'termination is judged by the number of recorded backend calls (bound n+1 per backend; stubs stop a runaway loop after 450 calls), never by the clock',
        'returned items are identified by uuid; when a backend honoured a select list without modified_by_client_uuid the per-item origin tag is absent and "from its home cluster" rests on the call log (each backend is only ever asked for its own uuids)',
        'an empty select list means "all fields" to the stub backends',
    ],
    'units': [
        unit('list', 'federation_c20', '^TestVerifC20', {'shards': 16, 'checks': 2500}, {'shards': 16, 'checks': 600000, 'timeout': 3000}),
    ],
}
