from specs import KEYS, CHECKS, unit

# lib/controller and lib/controller/federation import lib/controller/localdb, whose
# login_pam.go imports the cgo package github.com/msteinert/pam; <security/pam_appl.h>
# is not installed here, so neither package can be compiled as is (and go's module
# index ignores overlays of module-cache files, so the third-party package cannot be
# replaced). The overlay therefore presents a PAM-free login_pam.go (same types,
# Login/Logout copied, UserAuthenticate returns an error); /repo itself is untouched
# and PAM login is unrelated to C18/C20.
PAM_HOOKS = {
    'lib/controller/localdb/login_pam.go': 'harness/federation_c18/hooks/login_pam_nocgo.go',
}

KEYS['federation_c18'] = {'pkg': 'lib/controller/federation', 'hooks': PAM_HOOKS}
KEYS['controller_c18'] = {'pkg': 'lib/controller', 'hooks': PAM_HOOKS}

CHECKS['C18'] = {
    'ready': True,
    'level': 'exploration',
    'rule': 'grammar-directed signed manifests (vcommon/mgen) decorated with "+A" look-alikes in file/stream names, +R hints and doubly '
            'signed locators; requested id in {exact PDH, PDH+hints, one hex digit changed, size changed, hash length changed}; local '
            'backend and 1-4 remotes answer from {honest, one of 6 single-token tamperings, different collection, 404, 5xx/no status, '
            'hang until cancelled}; answers released in a generated order (sequenced / burst / pre-released). Validity of an answer is '
            'decided by the reference PDH only. Non-trivial = at least one 200 answer that does not hash to the request, or a remote '
            'answer relayed with rewritten signatures; distinct = fingerprint of (manifest, request id, every answer, release order). '
            'Units: fed = federation.Conn.CollectionGet by PDH and by UUID + rewriteManifest; legacy = rewriteSignatures on synthetic '
            'http.Responses; legacyfan = fetchRemoteCollectionByPDH through the real Handler (ForceLegacyAPI14) against loopback stubs. '
            'Round 2: about one case in 17-29 carries 1-3 stream lines of 50-280 KiB (600-3300 locators on one line, content derived from a '
            'drawn seed; labels big:*), and backends also answer with 201/202/203/206/299/301/400/401/403/410/422 (and 404/500) whose '
            'body/record carries an honest, tampered or different manifest (labels remote:status-*): whatever status a remote used, a '
            'manifest handed to the client must hash to the request and be the exact +A->+R rewrite of what that remote sent. '
            'Round 3: 3 of 8 requests (fed: GetOptions.Select, legacyfan: ?select=) carry a select list, 6 of 8 of them without '
            'manifest_text (["uuid","portable_data_hash"], ["uuid"], ["name","owner_uuid"], ...); the backends send a manifest_text anyway (labels select:*).',
    'assumptions': [
        'lib/controller/localdb/login_pam.go is replaced at build time by a PAM-free stand-in (missing C header in the sandbox)',
        'the answer of the LOCAL cluster is only required to be relayed unchanged (the property speaks about remote clusters)',
        'legacy path: "an honest remote wins" is asserted only for manifests whose locators are all singly signed (the legacy hash check rejects unsigned locators that carry hints; see notes/C18.md)',
        'release order is enforced by hand-shakes plus a short settle sleep; the oracle holds for every interleaving, so scheduling noise cannot cause a false alarm',
        'legacy fan-out: cancellation of hanging remotes is measured (label) but not judged, it is asynchronous on a real connection',
        'a non-200 answer is not an honest answer (never counted for "an honest remote wins"); whether the code treats it as an error or relays its verified, correctly rewritten content is adopted',
        'legacy fan-out: any response whose body is a record with a manifest_text counts as "handed to the client", whatever the status line',
        'stub backends of the new path express "status S with a record" as (Collection{ManifestText}, error with HTTPStatus S)',
    ],
    'units': [
        unit('fed', 'federation_c18', '^TestVerifC18', {'shards': 8, 'checks': 1500}, {'shards': 16, 'checks': 18000, 'timeout': 1500}),
        unit('legacy', 'controller_c18', '^TestVerifC18LegacyRewriteSignatures', {'shards': 4, 'checks': 1500}, {'shards': 8, 'checks': 28000, 'timeout': 1500}),
        # tolerate_infra: the fan-out is a real-HTTP scenario whose hand-shakes give up after 60 s (VERIF-INFRA,
        # never a verdict). One such give-up was seen once in ~400 000 fan-out cases on a machine at load 50
        # (not reproducible, same seed passes); a single inconclusive shard is reported in the evidence only.
        unit('legacyfan', 'controller_c18', '^TestVerifC18LegacyFanOut', {'shards': 4, 'checks': 300}, {'shards': 8, 'checks': 6000, 'timeout': 1500},
             tolerate_infra=1),
    ],
}
