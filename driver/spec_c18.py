from specs import KEYS, CHECKS, unit

# lib/controller and lib/controller/federation import lib/controller/localdb, whose
# login_pam.go imports the cgo package github.com/msteinert/pam; <security/pam_appl.h>
# is not installed here, so neither package can be compiled as is. The overlay
# presents a PAM-free login_pam.go (same types, UserAuthenticate returns an error);
# /repo itself is untouched and PAM login is unrelated to C18/C20.
PAM_HOOKS = {
    'lib/controller/localdb/login_pam.go': 'harness/federation_c18/hooks/login_pam_nocgo.go',
}

KEYS['federation_c18'] = {'pkg': 'lib/controller/federation', 'hooks': PAM_HOOKS}
KEYS['controller_c18'] = {'pkg': 'lib/controller', 'hooks': PAM_HOOKS}

CHECKS['C18'] = {
    'ready': False,
    'level': 'exploration',
    'rule': 'tbd',
    'assumptions': [],
    'units': [
        unit('legacy', 'controller_c18', '^TestVerifC18', {'shards': 4, 'checks': 1500}, {'shards': 1, 'checks': 10}),
        unit('fed', 'federation_c18', '^TestVerifC18', {'shards': 8, 'checks': 1500}, {'shards': 1, 'checks': 10}),
    ],
}
