from specs import KEYS, CHECKS, unit

# Two binaries only (each costs a link step): keep-balance hosts parts 1 and 3 and the
# reader side of part 2 (arvados.KeepService.Index/IndexMount and keepclient.GetIndex are
# exported API and are linked into keep-balance); keepstore hosts the producer side.
KEYS['keepbalance_c06'] = {'pkg': 'services/keep-balance'}
KEYS['keepstore_c06'] = {'pkg': 'services/keepstore'}

CHECKS['C06'] = {
    'ready': True,
    'level': 'fault_enumeration',
    'level_text': 'parts 2 and 3 enumerate faults exhaustively per generated case (every cut byte of an index body x 4 transports x 3 '
                  'readers; every request of a sweep x 7-8 fault kinds); part 1 explores generated scan histories',
    'technique': 'property-based testing (rapid) against a simulated collections table / stub keepstores, with exhaustive fault enumeration inside each case',
    'rule': 'paging: rapid-generated table (0-200 collections, tie groups incl. larger than the page, trashed/old-version rows), page size 0(max)/1..N+1, '
            'server-side page caps, and a schedule of modify/add/delete events applied between page requests; the real EachCollection scans a simulated list API; '
            'non-trivial = a page boundary fell inside a group of equal modified_at, or an event was applied mid-scan. '
            'index: generated well-formed index bodies (0-6 entries, second- and nanosecond mtimes), every cut point served over loopback HTTP in 4 transports to 3 readers; '
            'non-trivial = body has at least one entry. producer: real keepstore handler with 3 volumes, one of which fails IndexTo after j entries (optionally mid-line); '
            'non-trivial = a volume fails. sweep: generated world (2-4 keepstores, 1-2 mounts each, 3-8 blocks, 1-6 collections) for which a fault-free Balancer.Run sends '
            'non-empty trash/pull lists (checked; otherwise discarded and counted as trivial); every request of the fault-free run x {500, 500 with intact body, connection error, 3 truncations, '
            'malformed, interior blank line} is injected in a separate real Run. Round 3: additionally every index request of the sweep (ONE mount of ONE server, everything else healthy) '
            'is answered with each status of {204,301,400,401,403,404,410,500,502,503} and a drawn body class {empty, intact index, "\\n" (well-formed empty index), error text} '
            '(404 with all four classes), and every other fetch request with one drawn status of {400,...,503} x drawn body class; the index readers '
            '(Index, IndexMount, GetIndex) are given every one of these statuses x body classes over loopback HTTP and must return an error. distinct = fingerprint of the generated table+schedule / body / volume plan / world.',
    'assumptions': [
        'the collections list API is simulated from its documented contract (filters, order, limit, count, include_trash, include_old_versions, select); the Rails implementation is not executed',
        'modified_at only moves forward: a modification or addition gets a timestamp greater than every existing one (events of one batch may share one timestamp)',
        'part 3 uses an in-process http.RoundTripper (truncation = body reader ending in EOF or io.ErrUnexpectedEOF); real-socket truncation semantics are covered in part 2',
        'lossy-server variant (a counted row left out of every page, static table) is an extension beyond the stated quantifier, justified by the "or else the scan fails" clause',
        'zero collections => Run fails (CheckSanityLate) is taken from the property anchors / DESIGN, not from the statement text',
    ],
    'units': [
        unit('paging', 'keepbalance_c06', '^TestVerifC06Paging$', {'shards': 16, 'checks': 300}, {'shards': 16, 'checks': 6000, 'timeout': 3000}),
        unit('paging_lossy', 'keepbalance_c06', '^TestVerifC06PagingLossy$', {'shards': 4, 'checks': 100}, {'shards': 8, 'checks': 2000, 'timeout': 1500}),
        unit('sweep', 'keepbalance_c06', '^TestVerifC06SweepAbort$', {'shards': 16, 'checks': 2}, {'shards': 16, 'checks': 60, 'timeout': 3000}),
        unit('sweep_zero', 'keepbalance_c06', '^TestVerifC06SweepZeroCollections$', {'shards': 2, 'checks': 15}, {'shards': 4, 'checks': 200, 'timeout': 1500}),
        unit('index_readers', 'keepbalance_c06', '^TestVerifC06IndexTruncation$', {'shards': 16, 'checks': 2}, {'shards': 16, 'checks': 48, 'timeout': 3000}),
        unit('index_producer', 'keepstore_c06', '^TestVerifC06IndexProducer$', {'shards': 8, 'checks': 150}, {'shards': 16, 'checks': 3000, 'timeout': 1500}),
    ],
}
