from specs import KEYS, CHECKS, unit

KEYS['keepbalance_c06'] = {'pkg': 'services/keep-balance'}
KEYS['keepstore_c06'] = {'pkg': 'services/keepstore'}

CHECKS['C06'] = {
    'ready': False,
    'level': 'fault_enumeration',
    'rule': 'wip',
    'assumptions': [],
    'units': [
        unit('paging', 'keepbalance_c06', '^TestVerifC06Paging$', {'shards': 16, 'checks': 150}, {'shards': 16, 'checks': 4000, 'timeout': 1500}),
        unit('paging_lossy', 'keepbalance_c06', '^TestVerifC06PagingLossy$', {'shards': 4, 'checks': 100}, {'shards': 8, 'checks': 2000, 'timeout': 1500}),
        unit('sweep', 'keepbalance_c06', '^TestVerifC06SweepAbort$', {'shards': 16, 'checks': 3}, {'shards': 16, 'checks': 40, 'timeout': 1500}),
        unit('sweep_zero', 'keepbalance_c06', '^TestVerifC06SweepZeroCollections$', {'shards': 2, 'checks': 20}, {'shards': 4, 'checks': 200, 'timeout': 1500}),
        unit('index_readers', 'keepbalance_c06', '^TestVerifC06IndexTruncation$', {'shards': 16, 'checks': 2}, {'shards': 16, 'checks': 32, 'timeout': 1500}),
        unit('index_producer', 'keepstore_c06', '^TestVerifC06IndexProducer$', {'shards': 8, 'checks': 150}, {'shards': 16, 'checks': 3000, 'timeout': 1500}),
    ],
}
