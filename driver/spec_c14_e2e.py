from specs import KEYS, CHECKS, unit

KEYS.setdefault('dispatchcloud_c14', {
    'pkg': 'lib/dispatchcloud',
    'hooks': {'lib/dispatchcloud/test/verif_hooks.go': 'harness/dispatchcloud_c14/hooks/test_verif_hooks.go'},
})
KEYS['worker_c14'] = {'pkg': 'lib/dispatchcloud/worker'}

_units = [
    unit('pool', 'worker_c14', '^TestVerifC14bPool$',
         {'shards': 6, 'checks': 500, 'steps': 40},
         {'shards': 16, 'checks': 8000, 'steps': 60, 'timeout': 1500}),
    unit('e2e', 'dispatchcloud_c14', '^TestVerifC14E2E$',
         {'shards': 10, 'timeout': 400, 'env': {'VERIF_SCENARIOS': 2, 'VERIF_MAXN': 120}},
         {'shards': 16, 'timeout': 1500, 'env': {'VERIF_SCENARIOS': 36, 'VERIF_MAXN': 500}},
         rapid=False, crash_is_violation=True, tolerate_infra=2),
]

if 'C14' in CHECKS:
    CHECKS['C14']['units'].extend(_units)
else:
    # spec_c14.py (part (a), owned by another agent) is not there yet
    CHECKS['C14'] = {
        'ready': False,
        'level': 'exploration',
        'rule': 'parts (b),(c) only - placeholder until spec_c14.py defines the check',
        'assumptions': [],
        'units': list(_units),
    }
