import os

from specs import KEYS, CHECKS, unit

# Scheduler-level bounded-liveness unit of C15 (round-3 strengthening): harness/scheduler_c15.
# Loaded after spec_c15.py (file-name order), which defines CHECKS['C15'].
KEYS['scheduler_c15'] = {'pkg': 'lib/dispatchcloud/scheduler'}

_unit = unit('sched-live', 'scheduler_c15', '^TestVerifC15SchedLiveness$',
             {'shards': 8, 'checks': 1500},
             {'shards': 16, 'checks': 15000, 'timeout': 1500})

_rule = (' Unit sched-live (scheduler level): a real Scheduler over a model that is both container queue (API database + dispatcher '
         'cache with the Update/Forget/Lock/Unlock/Cancel semantics of container.Queue) and worker pool; 1-6 containers, 1-2 types; '
         'rapid-drawn operation sequences over {API hold (priority 0, aimed at still-Queued containers), release / re-prioritise, '
         'cancel, new container, Update, runQueue, sync, a direct lockContainer(uuid) call standing for a goroutine spawned by an '
         'earlier runQueue pass and scheduled late, worker boots / appears, crunch-run sets Running / finalizes / crashes, injected '
         'Lock/Unlock/StartContainer failures}; 40 % of the cases play "Queued and visible -> hold -> Update -> sync drops the entry -> '
         'delayed lockContainer -> priority>0 again" with random operations in between. Then API changes and failures stop, every type '
         'gets idle workers, and (Update; runQueue; sync) runs at most 12 times: every container that the database shows Queued/Locked '
         'with priority>0 and without a live process must get a successful StartContainer. Non-trivial (this unit) = at least one such '
         'container exists and the case contained a held entry dropped by sync and released later, a delayed lockContainer on a '
         'dropped or held container, or a crunch-run crash; distinct = fingerprint of the operation sequence.')

_assumptions = [
    'sched-live: a lockContainer goroutine may be delayed arbitrarily, but exists only for a container that the queue cache showed as Queued with priority>0 and without a process at some earlier moment of the case',
    'sched-live: API model: lock needs Queued and priority>0, unlock needs Locked, cancel needs a non-final state; the list requests and the merge of one Update() are atomic (races inside Update belong to the container.Queue unit of C14)',
    'sched-live: goroutines spawned by runQueue/sync are awaited through the goroutine count; hitting that bound (120 s) is reported as an infrastructure error (inconclusive), never as a violation',
]

if 'C15' in CHECKS:
    CHECKS['C15']['units'].append(_unit)
    CHECKS['C15']['rule'] += _rule
    CHECKS['C15']['assumptions'].extend(_assumptions)

# Development aid: `VERIF_C15_SCHED_ONLY=1 ./check C15S` runs only this unit (the
# end-to-end unit of C15 takes minutes). Never listed in the manifest.
if os.environ.get('VERIF_C15_SCHED_ONLY'):
    CHECKS['C15S'] = {
        'ready': False,
        'level': 'exploration',
        'rule': _rule,
        'assumptions': _assumptions,
        'units': [_unit],
    }
