from specs import KEYS, CHECKS, unit

KEYS['dispatchcloud_c16'] = {'pkg': 'lib/dispatchcloud'}
KEYS['scheduler_c16'] = {'pkg': 'lib/dispatchcloud/scheduler'}

CHECKS['C16'] = {
    'ready': True,
    'level': 'exploration',
    'rule': 'choose: rapid-generated instance-type tables (0-12 types; RAM/scratch drawn within a few bytes of 1-3 anchors, 1-4 '
            'distinct prices incl. 0 so ties are common, preemptible none/all/mixed) and a container constraint vector built at the '
            'boundary of a target type (RAM+KeepCacheRAM+ReserveExtraRAM at floor(0.95*RAM)+{-1,0,1,2} and at RAM+{-1,0,1}, VCPUs +-1, '
            'scratch need +-1 byte realised through tmp mounts and/or an image PDH whose size sits on the 42-byte block grid); the real '
            'ChooseInstanceType result is compared with a brute-force math/big oracle that is three-valued at the 100/95 rounding byte. '
            'Non-trivial = at least two types and the table offers a real choice (adequate and inadequate types coexist, or two adequate '
            'types differ in price). '
            'order: a queue snapshot of 1-8 containers (states, priorities with ties and 0, 1-3 types, leftover processes) against a '
            'consistent recording pool (idle/booting per type, at-quota flag, per-call transient StartContainer failures, per-call Create '
            'answers) drives one real runQueue() pass; the oracle reads the call log. Non-trivial = at least two waiting Locked containers '
            'of the same type with different priorities, or an at-quota pass that unlocked a waiting container while >= 2 were waiting. '
            'distinct = fingerprint of the full case description.',
    'assumptions': [
        'scratch reference is written from the heuristic documented in node_size.go comments (tmp capacities; image estimate ((n-80) div 42)*64MiB for PDH size n>=122, reserved twice)',
        'a type whose RAM equals floor(need*100/95) but with RAM*95 < need*100 may be accepted or rejected (rounding direction not fixed by the property)',
        'among equally priced adequate types any may be returned',
        'priority ties are unordered; "waiting" = Locked in the snapshot, priority>0, no process reported by the pool',
        'pool.Create may answer differently for successive calls within one pass (the WorkerPool contract allows it: throttling windows)',
        'PDH sizes above 10^12 and negative capacities are not generated',
    ],
    'units': [
        unit('choose', 'dispatchcloud_c16', '^TestVerifC16Choose$', {'shards': 8, 'checks': 6000}, {'shards': 16, 'checks': 450000, 'timeout': 3000}),
        unit('order', 'scheduler_c16', '^TestVerifC16Order', {'shards': 8, 'checks': 6000}, {'shards': 16, 'checks': 160000, 'timeout': 3000}),
    ],
}
