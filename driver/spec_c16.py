from specs import KEYS, CHECKS, unit

KEYS['dispatchcloud_c16'] = {'pkg': 'lib/dispatchcloud'}
KEYS['scheduler_c16'] = {'pkg': 'lib/dispatchcloud/scheduler'}

CHECKS['C16'] = {
    'ready': False,
    'level': 'exploration',
    'rule': 'TODO',
    'assumptions': [],
    'units': [
        unit('choose', 'dispatchcloud_c16', '^TestVerifC16Choose$', {'shards': 8, 'checks': 3000}, {'shards': 16, 'checks': 200000, 'timeout': 1500}),
        unit('order', 'scheduler_c16', '^TestVerifC16Order', {'shards': 8, 'checks': 3000}, {'shards': 16, 'checks': 200000, 'timeout': 1500}),
    ],
}
