from specs import KEYS, CHECKS, unit

KEYS['manifest'] = {'pkg': 'sdk/go/manifest'}

CHECKS['C10'] = {
    'ready': True,
    'level': 'exploration',
    'rule': 'grammar-directed manifests (1-4 streams, 1-5 blocks of 0-20 bytes incl. zero-length, file tokens at block-boundary '
            'alignments, escaped/backslash/non-ASCII names); non-trivial = a file token crosses a block boundary, or a zero-length '
            'block, or an escaped name; distinct = fingerprint of (manifest text, src, relocate)',
    'assumptions': ['reference interpreter written from doc/architecture/manifest-format', 'Python: _ranges.py and _normalize_stream.py are loaded by file path under a stub arvados package (Hypothesis, python3-vt)'],
    'units': [
        unit('gomanifest', 'manifest', '^TestVerifC10', {'shards': 6, 'checks': 600}, {'shards': 8, 'checks': 40000, 'timeout': 2400}, crash_is_violation=True),
        unit('loader', 'arvados', '^TestVerifC10', {'shards': 6, 'checks': 600}, {'shards': 8, 'checks': 40000, 'timeout': 2400}, crash_is_violation=True),
        unit('fuzzloader', 'arvados', None, {'shards': 1}, {'shards': 1, 'fuzztime': 150, 'parallel': 8}, kind='gofuzz', rapid=False, fuzz='FuzzVerifC10Loader'),
        unit('fuzzmanifest', 'manifest', None, {'shards': 1}, {'shards': 1, 'fuzztime': 150, 'parallel': 8}, kind='gofuzz', rapid=False, fuzz='FuzzVerifC10Manifest'),
        unit('python', 'py', None, {'shards': 2, 'checks': 1500}, {'shards': 8, 'checks': 12000, 'timeout': 2400}, kind='python', rapid=False, script='py/c10_ranges.py'),
    ],
}
