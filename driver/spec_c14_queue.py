from specs import KEYS, CHECKS, unit

# C14, extra unit: the real lib/dispatchcloud/container.Queue (not test.Queue) against an
# in-memory API stub whose answers the harness holds back (round 3). Loaded after spec_c14.py and
# spec_c14_e2e.py (file names are sorted), so the check already exists.
KEYS['container_c14'] = {'pkg': 'lib/dispatchcloud/container'}

_units = [
    unit('queue', 'container_c14', '^TestVerifC14Queue$',
         {'shards': 6, 'checks': 800, 'steps': 60},
         {'shards': 16, 'checks': 12000, 'steps': 80, 'timeout': 1500}),
]

if 'C14' in CHECKS:
    CHECKS['C14']['units'].extend(_units)
    CHECKS['C14']['rule'] += (
        ' (queue) rapid state machine over the real container.Queue with an in-memory API "database" that keeps the full '
        'version history of every record: Update() runs in its own goroutine and every request it makes (auth, each list page, '
        'the uuid-in query for entries that vanished) parks at the stub; separate actions take the snapshot and deliver it, so '
        'anything can happen in between: Lock/Unlock/Cancel called synchronously or with their own request parked (<=1 in flight '
        'per container), Forget, API-side priority changes incl. 0 and back, new containers, cancel, Locked->Running->Complete, '
        'record deleted, failed or lost answers, page size 1/2/3/unlimited, MaxDispatchAttempts 1-3 (unlock answers Cancelled); an '
        'aimed action walks into "snapshot shows X Locked -> local Unlock/Cancel completes (Queued/0 or Cancelled) -> Forget -> '
        'snapshot delivered". Non-trivial = a local call was answered, or an entry forgotten, while a poll was in progress.')
    CHECKS['C14']['assumptions'].append(
        '(queue) at most one Lock/Unlock/Cancel call per container is in flight (the scheduler\'s per-container latch); the API '
        'model is services/api container.rb (lock needs Queued and priority>0, unlock needs Locked by this token and answers '
        'Cancelled once lock_count reaches MaxDispatchAttempts, locked_by_uuid is cleared outside Locked/Running); chooseType '
        'never fails; nothing is asserted about an entry that is absent, except that an unchanged runnable container is present '
        'after a successful Update()')
else:
    CHECKS['C14'] = {
        'ready': False,
        'level': 'exploration',
        'rule': 'queue unit only - placeholder until spec_c14.py defines the check',
        'assumptions': [],
        'units': list(_units),
    }
