from specs import KEYS, CHECKS, unit

KEYS['crunchrun_c17'] = {
    'pkg': 'lib/crunchrun',
    'hooks': {'sdk/go/arvados/verif_hooks_c17.go': 'harness/crunchrun_c17/hooks/arvados_hooks.go'},
}

CHECKS['C17'] = {
    'ready': False,
    'level': 'exploration',
    'rule': 'TODO',
    'assumptions': [],
    'units': [
        unit('copier', 'crunchrun_c17', '^TestVerifC17', {'shards': 16, 'checks': 400}, {'shards': 16, 'checks': 8000, 'timeout': 1500},
             crash_is_violation=True, env={'GOTRACEBACK': 'single'}),
    ],
}
