from specs import KEYS, CHECKS, unit

KEYS['crunchrun_c17'] = {
    'pkg': 'lib/crunchrun',
    # exports VerifC17SetMaxBlockSize so that the collection filesystem's block limit can be reduced to 8/32/100 bytes
    'hooks': {'sdk/go/arvados/verif_hooks_c17.go': 'harness/crunchrun_c17/hooks/arvados_hooks.go'},
}

CHECKS['C17'] = {
    'ready': True,
    'level': 'exploration',
    'rule': 'each case is a real directory tree under /dev/shm (depth <=4, <=40 entries, files 0..3B bytes with block limit B in {8,32,100}, '
            'names with space/colon/backslash/non-ASCII incl. invalid UTF-8, empty dirs, rarely a fifo) with symlinks (absolute incl. '
            'non-canonical spellings, relative; to files, dirs, other links, chains of 2..13, cycles, into collection mounts (root/subdir/file), '
            'into secret mounts, outside every mount, dangling), 0-2 read-only collection mounts (manifests from the C10 generator, mounted '
            'beside or beneath the output path, whole/subdir/single file, with/without placeholder, optionally exclude_from_output or sharing '
            'one PDH), 0-2 secret mounts (beside or beneath the output path), fed to the real copier.Copy(); '
            'round 3: one case in 100 (thorough: 400) gives one directory (output root or a sub-directory, in half of those also reached '
            'through a symlink) exactly 1024/1025/2048/2049/2600/5000 entries - tiny files, some sub-directories, some symlinks (labels fanout:*); '
            'non-trivial = the tree contains a symlink or a collection is mounted beneath the output path; '
            'distinct = fingerprint of the full scenario listing (mounts, manifests, every entry with size/target)',
    'assumptions': [
        'expected tree computed by an independent in-memory walk that follows the copier doc comment; returned manifest read by the '
        'reference interpreter of the manifest format (vcommon/mgen) over the stub Keep contents plus the mounted collections\' blocks',
        'relative link targets never pass through a symlinked directory (lexical = physical resolution), as the design prescribes',
        'chains: <=10 nested links must be copied, a cycle must fail, a finite nesting of 11+ may do either',
        'links to a nonexistent path inside a collection mount, into an exclude_from_output mount: error or absence both accepted (property silent)',
        'a link into a second tmp mount must fail; a panic is tolerated there (and only where failure is required) and labelled',
        'a runaway walk (cycle followed forever) ends in a fatal stack overflow: crash_is_violation, the in-flight scenario JSON is the replay artifact',
    ],
    'technique': 'property-based testing (rapid) of the real copier against a model walk + reference manifest interpreter',
    'units': [
        unit('copier', 'crunchrun_c17', '^TestVerifC17', {'shards': 16, 'checks': 800}, {'shards': 16, 'checks': 50000, 'timeout': 3000},
             crash_is_violation=True, env={'GOTRACEBACK': 'single'}),
    ],
}
