#!/usr/bin/env python3
"""Regenerate /verif/MANIFEST.json from driver/specs.py."""
import json, os, sys
here = os.path.dirname(os.path.abspath(__file__))
sys.path.insert(0, here)
import specs
import levels
verif = os.path.dirname(here)
base = json.load(open('/root/.vp/BASELINE.json'))
props = [json.loads(l) for l in open(os.path.join(verif, 'properties.jsonl'))]
checks = []
READY = {k: v for k, v in specs.CHECKS.items() if v.get('ready')}
for pid in sorted(READY):
    s = READY[pid]
    checks.append({
        'property_id': pid,
        'quick_cmd': './check %s --tier quick' % pid,
        'thorough_cmd': './check %s --tier thorough' % pid,
        'evidence_file': '/verif/evidence/%s.json' % pid,
        'replay_cmd_template': './check %s --replay {path}' % pid,
        'engine': 'rapid-harness',
        'level_claimed': {
            'category': s['level'],
            'text': s.get('level_text') or levels.L[pid][0],
            'design_ref': 'DESIGN.md §4 ' + pid,
        },
        'level_note': levels.L[pid][2] + ((' | ' + s['level_note']) if s.get('level_note') else ''),
        'technique': levels.L[pid][1],
    })
na = []
for p in props:
    if p['id'] not in READY:
        na.append({'property_id': p['id'], 'reason': specs.NOT_APPLICABLE.get(p['id'], 'check not built yet in this round; the technique applies (plan in DESIGN.md §4), it is simply unfinished')})
m = {
    'version': 1,
    'setup_cmd': './check --setup',
    'hooks': {
        'guard': 'verif',
        'enable': 'go test -c -tags verif -modfile=/verif/build/<run>/go.mod -overlay=/verif/build/<run>/overlay.json (hook and harness files are injected by overlay; nothing is committed to /repo. Two overlays replace a file at build time only: the AST-instrumented copy of services/keepstore/unix_volume.go for C02/C04, regenerated from the working tree by tools/instrument, and a PAM-free stand-in of lib/controller/localdb/login_pam.go for C18-C20 because the PAM headers are absent)',
        'baseline_off_cmd': base['cmd'],
        'source_commits': specs.HOOK_COMMITS,
        'add_only': True,
    },
    'engines': [
        {'name': 'rapid-harness', 'path': '/verif/check', 'serves_properties': sorted(READY),
         'kind_free_text': 'python driver that compiles in-package rapid/Hypothesis property tests against /repo via go -overlay/-modfile, shards them over 16 cores, merges coverage statistics and writes evidence'},
    ],
    'checks': checks,
    'not_applicable': na,
    'notes': 'All checks are property-based tests / fuzzers with explicit oracles. Exit 2 = inconclusive (infrastructure). See DESIGN.md.',
}
json.dump(m, open(os.path.join(verif, 'MANIFEST.json'), 'w'), indent=1)
print('checks:', [c['property_id'] for c in checks], 'not_applicable:', len(na))
