from specs import KEYS, CHECKS, unit

KEYS['keepbalance_c05'] = {'pkg': 'services/keep-balance'}

# The harness allocates many small short-lived objects; with 16 processes on 16
# cores the default GC settings spend more time in the runtime than in the test.
_ENV = {'GOGC': '800', 'GOMAXPROCS': '2'}
_ENV1 = {'GOGC': '800', 'GOMAXPROCS': '1'}

CHECKS['C05'] = {
    'ready': True,
    'level': 'exploration',
    'rule': 'rapid unit: layouts of 1-16 keepstore services (random UUIDs and block hashes, so rendezvous rank varies) with 0-3 mounts each, '
            'read-only flags on mounts and services (incl. all-read-only plans), per-mount replication 1-3, DeviceID blank / own / shared '
            'between mounts on different servers (generator switch: label mode:noshared, ~40% of cases, never shares a device), storage '
            'classes subsets of {default,a,b} (~40% of cases default-only); block id (round 2) = random hash in half of the cases, else the '
            'well-known empty block d41d8cd98f00b204e9800998ecf8427e+0 (~12% of cases, label blkid:empty-block-d41d8cd9+0), hashes that '
            'start/end with runs of 0 or f or consist of one digit, sizes 0, 1, 2^26-1, 2^26, 2^26+k, 2^31, >2^32; '
            'block = per PHYSICAL device copy / no copy with mtime old, '
            'old-colliding, new or exactly at the MinMtime boundary, 0-3 referencing collections with desired replication 0-4 over class '
            'subsets. The state is fed as GetCurrentState does (real cleanupMounts first; every surviving mount of a device reports the '
            'copy with the same mtime; AddReplicas/IncreaseDesired in drawn order) into the real balanceBlock (twice, KeepServices is a map) '
            'and in 1/8 of the cases also through the real ComputeChangeSets with 1-3 blocks; the emitted ChangeSets, lost flag and '
            'Trash/Pull JSON are judged by a physical-device replication model, items (i)-(vii). '
            'enum unit: EXHAUSTIVE enumeration of the small scope - every layout of <=4 services (index = rendezvous rank) x 1-2 mounts with '
            '<=3 mounts in total in the quick tier and <=4 mounts in total in the thorough tier (1.58e8 (layout, block) cases), x every '
            'service and mount read-only flag x every device structure (blank / own / one or two devices shared across servers) x '
            'replication 1-2 per device x per-device copy state {none, old, old-colliding, new} x desired 0-4, default class only. '
            'enum-empty unit (round 2): the quick-tier enumeration (<=3 mounts) repeated with the empty block d41d8cd9...+0 as block id. '
            'pinned unit: the minimal layouts of the four defects this check found (three repaired in /repo, one listed as known finding). '
            'non-trivial = >=2 physical copies and at least one trash or pull emitted, or a class with desired>0 that is under-replicated '
            'while a copy exists; distinct = fingerprint of the canonical JSON of layout+blocks (rapid) or of (layout index, replication '
            'mask, copy-state index, desired) (enumeration).',
    'assumptions': [
        'physical model: a device is the DeviceID if non-blank, else the mount itself; all mounts reporting one DeviceID are views of one '
        'backend volume and report the same replication and storage classes; a device is not mounted twice on the same server',
        'every view of a device reports the same mtime for a block, because GetCurrentState fetches one index per device and applies it to '
        'all of its mounts (upstream unit tests that give views different mtimes are outside this domain)',
        'oracle failures matching the narrow classifier of the listed finding c05-other-server-copy-stands-in-for-class are counted, not '
        'reported (they need a mount outside the desired class and a server with two mounts of the class: impossible in default-only layouts)',
        'the bounded-exhaustive part covers the default storage class only; multi-class layouts are explored by the rapid unit',
    ],
    'level_note': 'exploration; the enum unit is exhaustive over the stated small scope only (not over the quantifier of the property)',
    'units': [
        unit('balance', 'keepbalance_c05', '^TestVerifC05Balance$',
             {'shards': 16, 'checks': 10000}, {'shards': 16, 'checks': 200000, 'timeout': 3000}, env=_ENV),
        unit('pinned', 'keepbalance_c05', '^TestVerifC05Pinned$',
             {'shards': 1}, {'shards': 1}, rapid=False, env=_ENV1),
        unit('enum', 'keepbalance_c05', '^TestVerifC05Enum$',
             {'shards': 16, 'env': {'C05_ENUM_MAXMOUNTS': 3, 'C05_ENUM_SHARDS': 16}},
             {'shards': 16, 'timeout': 2400, 'env': {'C05_ENUM_MAXMOUNTS': 4, 'C05_ENUM_SHARDS': 16}},
             rapid=False, shard_arg=True, env=_ENV1),
        # round 2: the same enumeration with the well-known empty block d41d8cd9...+0 as the block id
        unit('enum-empty', 'keepbalance_c05', '^TestVerifC05Enum$',
             {'shards': 16, 'env': {'C05_ENUM_MAXMOUNTS': 3, 'C05_ENUM_SHARDS': 16, 'C05_ENUM_BLKID': 'empty'}},
             {'shards': 16, 'timeout': 2400, 'env': {'C05_ENUM_MAXMOUNTS': 3, 'C05_ENUM_SHARDS': 16, 'C05_ENUM_BLKID': 'empty'}},
             rapid=False, shard_arg=True, env=_ENV1),
    ],
}
