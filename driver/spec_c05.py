from specs import KEYS, CHECKS, unit
import os
_DEV = {'VERIF_KNOWN': os.environ['C05_DEV_KNOWN']} if os.environ.get('C05_DEV_KNOWN') else {}  # DEV ONLY, removed before hand-over

KEYS['keepbalance_c05'] = {'pkg': 'services/keep-balance'}

CHECKS['C05'] = {
    'ready': False,
    'level': 'exploration',
    'rule': 'placeholder',
    'assumptions': [],
    'units': [
        unit('balance', 'keepbalance_c05', '^TestVerifC05Balance$',
             {'shards': 16, 'checks': 12500}, {'shards': 16, 'checks': 100000, 'timeout': 1500}, env=_DEV),
    ],
}
