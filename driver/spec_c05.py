from specs import KEYS, CHECKS, unit

KEYS['keepbalance_c05'] = {'pkg': 'services/keep-balance'}

# The harness allocates many small short-lived objects; with 16 processes on 16
# cores the default GC settings spend more time in the runtime than in the test.
_ENV = {'GOGC': '800', 'GOMAXPROCS': '2'}
_ENV1 = {'GOGC': '800', 'GOMAXPROCS': '1'}

CHECKS['C05'] = {
    'ready': False,
    'level': 'exploration',
    'rule': 'placeholder',
    'assumptions': [],
    'units': [
        unit('balance', 'keepbalance_c05', '^TestVerifC05Balance$',
             {'shards': 16, 'checks': 12500}, {'shards': 16, 'checks': 100000, 'timeout': 1500}, env=_ENV),
        unit('pinned', 'keepbalance_c05', '^TestVerifC05Pinned$',
             {'shards': 1}, {'shards': 1}, rapid=False, env=_ENV1),
        unit('enum', 'keepbalance_c05', '^TestVerifC05Enum$',
             {'shards': 16, 'env': {'C05_ENUM_MAXMOUNTS': 3, 'C05_ENUM_SHARDS': 16}},
             {'shards': 16, 'timeout': 2400, 'env': {'C05_ENUM_MAXMOUNTS': 4, 'C05_ENUM_SHARDS': 16}},
             rapid=False, shard_arg=True, env=_ENV1),
    ],
}
