from specs import KEYS, CHECKS, unit

CHECKS['C13'] = {
    'ready': True,
    'level': 'exploration',
    'rule': '2-8 worker goroutines with pre-drawn operation streams on their own files (moved between shared directories), 1-2 saver '
            'goroutines, block limit 2-16, every Keep write parked in a gate and released by a pre-drawn plan (order, failure, pacing); '
            'non-trivial = at least one background block write was released while workers were still running AND at least one save ran '
            'concurrently with the workers; distinct = fingerprint of the recorded event history',
    'assumptions': ['goroutine interleavings between foreground operations are sampled by the Go runtime; only Keep-write completion '
                    'order/failure is owned by the harness', 'a save is atomic with respect to single file operations (they hold the inode lock); '
                    'snapshot contents are compared with the states each file had during the save window'],
    'level_note': 'schedule coverage is sampled, not exhaustive; a race-detector report counts as a violation (the property names race freedom)',
    'units': [
        unit('plain', 'arvados', '^TestVerifC13Concurrent$', {'shards': 10, 'checks': 120}, {'shards': 12, 'checks': 5000, 'timeout': 3000}, timeout_is_violation=True, crash_is_violation=True),
        unit('regress', 'arvados', '^TestVerifC13Regress', {'shards': 1, 'timeout': 300}, {'shards': 1, 'timeout': 300}, rapid=False),
        unit('race', 'arvados', '^TestVerifC13Concurrent$', {'shards': 4, 'checks': 40}, {'shards': 4, 'checks': 2000, 'timeout': 3000}, race=True, timeout_is_violation=True, crash_is_violation=True),
    ],
}
