from specs import KEYS, CHECKS, unit

KEYS['keepclient_c11'] = {'pkg': 'sdk/go/keepclient'}

CHECKS['C11'] = {
    'ready': True,
    'level': 'exploration',
    'rule': 'real KeepClient.PutB/PutHB/PutHR/PutR against an in-memory HTTPClient stub; a case = service set (1-5 writable, 0-2 read-only, '
            'disk/proxy/mixed, via LoadKeepServicesFromJSON or SetServiceRoots) x want 1-3 x Retries 0-3 x outcome table (service x attempt) over '
            '{200 stored=1, 200 stored=2, 200 no header, 400, 403, 408, 429, 500, 502, 503, connection error} each optionally slow and with a '
            'release priority (completion order of concurrent uploads is chosen by the harness) x entry point/hash mode; oracle is recomputed from '
            'the service-side request/answer log. Unit "exhaustive" enumerates every outcome table for 1-2 writable services x 1-2 attempts '
            '(11^cells tables x want 1-3 x disk/proxy x 0-1 read-only x both completion orders; complete in the thorough tier, one-attempt tables '
            'complete and every 29th two-attempt table in the quick tier); unit "random" draws larger tables with rapid. '
            'non-trivial = at least one non-200 answer was sent before Put returned; distinct = fingerprint of the whole scenario text',
    'assumptions': [
        'services are simulated at the HTTPClient interface (no sockets): a request whose body cannot be read completely or whose length differs from Content-Length is failed at connection level, as net/http does',
        'InsufficientReplicasError is a named interface type, so the error class cannot be told from other errors by type; only err != nil and the returned count are checked',
        'a Put that has not returned 60 s after the last service answer, with no request pending anywhere, is reported as a violation (normal case duration is ~0.1 ms); no other wall-clock reading enters a verdict',
        'completion order is made reproducible through the public DebugPrintf hook of the package (the client announces how many uploads are in flight before it waits); if the announcement is missing the harness falls back to releasing pending answers after a pause (label sched-fallback) - the oracle does not depend on which path scheduled the answers',
        'PutHR with dataBytes=0 is not generated (64 MiB buffer per call, no body is sent)',
    ],
    'units': [
        unit('random', 'keepclient_c11', '^TestVerifC11PutReplicas$',
             {'shards': 16, 'checks': 2000}, {'shards': 16, 'checks': 300000, 'timeout': 3000}),
        unit('exhaustive', 'keepclient_c11', '^TestVerifC11Exhaustive$',
             {'shards': 8, 'env': {'VERIF_NSHARDS': 8}}, {'shards': 16, 'env': {'VERIF_NSHARDS': 16}, 'timeout': 1500},
             rapid=False, shard_arg=True),
    ],
}
