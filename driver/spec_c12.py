from specs import KEYS, CHECKS, unit

KEYS['keepclient_c12'] = {'pkg': 'sdk/go/keepclient'}
KEYS['keepbalance_c12'] = {'pkg': 'services/keep-balance'}

CHECKS['C12'] = {
    'ready': True,
    'level': 'exploration',
    'rule': 'a case = service set of 1-32 services (27-character UUIDs with arbitrary 12-char prefixes, other-length/arbitrary-string UUIDs, or mixed; '
            'pairwise distinct weight keys) x block hash x one removed and one added service x locator with 0-4 hints (+K@ 5-char, +K@ known/unknown '
            '27-char gateway, +K@ other lengths, +A/+R/+Z) x configuration route (LoadKeepServicesFromJSON or SetServiceRoots with separate gateways) '
            'x read-only flags. Each case compares with the documented order (descending hex MD5(hash+uuid[12:27])): NewRootSorter; request order of a '
            'real Get/Ask where every service misses (hinted roots first); request order of a real PutB with want=1 where every writable service '
            'refuses; relative order after remove/add; write-k-then-read (stored on the top-k, found at the first probe). Unit "balancer": N=2-32 '
            'single-mount servers, 1-3 hashes, one old replica on the last-ranked server, desired k=1..N-1, one real ComputeChangeSets run; pull '
            'targets must be the documented top-k for every k. Round 2 (both units): in ~45% (client) / ~40% (balancer) of the cases the set '
            'contains 2-3 services whose weights for the read hash / the hash of the data written / one of the balancer hashes share their '
            'first 4-8 hex digits and differ later (birthday search over splitmix64-derived candidates, a pure function of a drawn seed), or '
            'a precomputed pair sharing 10-16 hex digits (also as the block written); 27-character and other-length UUID classes; in 1/3 of the read-hash groups one '
            'member is the ADDED service. Labels *:longest-common-weight-prefix=... measure the set itself. non-trivial = at least 2 services; distinct = fingerprint of (uuids, hash, locator). '
            'Round 3, unit "stateful": ONE KeepClient over a history of 3-10 lookups of the SAME hash (getSortedRoots, Get, Ask all-miss, Ask with holders, PutB all-refuse) '
            'with the service set replaced between lookups through SetServiceRoots / LoadKeepServicesFromJSON: one uuid swapped for a new one (same or new address), '
            'the address of a uuid changed, two services exchanging addresses, the whole set replaced by another of the same size, gateway uuid swapped / re-addressed '
            '(hints to current and former gateways), read-only flag toggled, one service added/removed, configuration route switched; another hash is looked up in '
            'between in only ~1/8 of the steps. After every replacement the probe order must be the documented order of the CURRENT set; non-trivial = at least one '
            're-lookup of the hash after a replacement',
    'assumptions': [
        'service sets in which two services share the 15-character UUID suffix (equal weights, order undefined by the documentation) are not generated',
        'a usable hint that names a service which is also a local root: only the position of the hinted probe and the relative order of the other services are checked (whether the service is probed twice is unspecified)',
        'the same usable hint given twice is not generated',
        'Python/Ruby clients are not exercised',
    ],
    'units': [
        unit('client', 'keepclient_c12', '^TestVerifC12ClientProbeOrder$', {'shards': 10, 'checks': 1500}, {'shards': 16, 'checks': 48000, 'timeout': 3000}),
        unit('stateful', 'keepclient_c12', '^TestVerifC12ClientStateful$', {'shards': 6, 'checks': 500}, {'shards': 16, 'checks': 10000, 'timeout': 3000}),
        unit('balancer', 'keepbalance_c12', '^TestVerifC12BalancerRanking$', {'shards': 6, 'checks': 500}, {'shards': 16, 'checks': 24000, 'timeout': 3000}),
    ],
}
