package main

// C19 level (v): keepstore's remoteProxy.Get. The remote cluster is a TLS
// loopback API stub (discovery document + keep_services/accessible, as in the
// upstream ProxyRemoteSuite) whose only Keep service is a loopback server that
// records the raw bytes of every request.

import (
	"context"
	"crypto/md5"
	"encoding/json"
	"fmt"
	"net"
	"net/http"
	"net/http/httptest"
	"strconv"
	"strings"
	"sync"
	"testing"

	"git.arvados.org/arvados.git/sdk/go/arvados"
	"pgregory.net/rapid"
	"verif.local/vcommon/c19"
	"verif.local/vcommon/stats"
)

const c19KnownKey = "c19-40char-nonhex-secret"

var c19Remotes = []string{"z0000", "zzzzz", "aaaaa", "9tee4", "00000", "x1y2z", "c19aa", "qr5tu"}

type c19KeepEnv struct {
	api     *httptest.Server
	apiMu   sync.Mutex
	apiSeen []string // dump of every request the remote API stub received
	keep    *c19.Recorder
	rp      *remoteProxy
	cluster *arvados.Cluster
	data    []byte
}

func (e *c19KeepEnv) apiHandler(w http.ResponseWriter, r *http.Request) {
	e.apiMu.Lock()
	e.apiSeen = append(e.apiSeen, fmt.Sprintf("%s %s %v", r.Method, r.URL.String(), r.Header))
	e.apiMu.Unlock()
	host, port, _ := net.SplitHostPort(e.keep.Addr)
	portnum, _ := strconv.Atoi(port)
	switch r.URL.Path {
	case "/arvados/v1/discovery/v1/rest", "/discovery/v1/apis/arvados/v1/rest":
		json.NewEncoder(w).Encode(arvados.DiscoveryDocument{})
	case "/arvados/v1/keep_services/accessible":
		json.NewEncoder(w).Encode(arvados.KeepServiceList{Items: []arvados.KeepService{{
			UUID: "zzzzz-bi6l4-proxyproxyproxy", ServiceType: "proxy", ServiceHost: host, ServicePort: portnum, ServiceSSLFlag: false,
		}}})
	default:
		http.Error(w, "404", 404)
	}
}

func (e *c19KeepEnv) takeAPI() []string {
	e.apiMu.Lock()
	defer e.apiMu.Unlock()
	out := e.apiSeen
	e.apiSeen = nil
	return out
}

func (e *c19KeepEnv) drive(remote, scheme, token string, withSig bool) (caps []c19.Captured, api []string, status int) {
	hash := fmt.Sprintf("%x", md5.Sum(e.data))
	path := fmt.Sprintf("/%s+%d+R%s-%s@%08x", hash, len(e.data), remote, strings.Repeat("1a", 20), 0x7fffffff)
	if withSig {
		path += "+Zhint"
	}
	req := httptest.NewRequest("GET", "http://keep0.c19.example:25107"+path, nil)
	req.Header.Set("Authorization", scheme+" "+token)
	w := httptest.NewRecorder()
	e.keep.Take()
	e.takeAPI()
	e.rp.Get(context.Background(), w, req, e.cluster, nil)
	return e.keep.Take(), e.takeAPI(), w.Code
}

func TestVerifC19KeepstoreRemoteProxy(t *testing.T) {
	defer stats.Flush()
	env := &c19KeepEnv{rp: &remoteProxy{}, data: []byte("c19 remote block")}
	var err error
	hash := fmt.Sprintf("%x", md5.Sum(env.data))
	status := 200
	if env.keep, err = c19.NewRecorder(func(c *c19.Captured) (int, string, []byte) {
		if status == 200 && c.Method == "GET" && strings.HasPrefix(c.Target, "/"+hash) {
			return 200, "application/octet-stream", env.data
		}
		return 404, "text/plain", []byte("not found\n")
	}); err != nil {
		t.Fatalf("VERIF-INFRA: %v", err)
	}
	defer env.keep.Close()
	env.api = httptest.NewUnstartedServer(http.HandlerFunc(env.apiHandler))
	env.api.StartTLS()
	defer env.api.Close()
	env.cluster = &arvados.Cluster{ClusterID: "home0", RemoteClusters: map[string]arvados.RemoteCluster{}}
	for _, id := range c19Remotes {
		env.cluster.RemoteClusters[id] = arvados.RemoteCluster{Host: strings.TrimPrefix(env.api.URL, "https://"), Proxy: true, Scheme: "https", Insecure: true}
	}

	rapid.Check(t, func(t *rapid.T) {
		remote := rapid.SampledFrom(c19Remotes).Draw(t, "remote")
		other := rapid.SampledFrom(c19Remotes).Draw(t, "other")
		tk := c19.DrawToken(t, []string{remote, "home0", other}, "tok")
		scheme := rapid.SampledFrom([]string{"OAuth2", "Bearer"}).Draw(t, "scheme")
		status = rapid.SampledFrom([]int{200, 200, 404}).Draw(t, "remoteStatus")
		hint := rapid.Bool().Draw(t, "extraHint")

		caps, api, code := env.drive(remote, scheme, tk.Raw, hint)
		fw := c19.ForwardFor(tk, remote, c19.Resolution{Status: 500}) // keepstore resolves nothing: legacy tokens cannot be forwarded
		labels := []string{"tok:" + tk.Kind.String(), "fw:" + fw.Shape, "scheme=" + scheme, fmt.Sprintf("client-status=%d", code)}
		if tk.Kind == c19.KindV2 {
			labels = append(labels, "secret="+tk.SecretClass())
		}
		describe := func(c *c19.Captured) string {
			s := fmt.Sprintf("GET +R%s- with Authorization %q (client got %d)", remote, scheme+" "+tk.Raw, code)
			if c != nil {
				s += fmt.Sprintf(": request received by the remote Keep service:\n%q", c.Raw)
			}
			return s
		}
		known := false
		switch {
		case len(caps) > 1:
			t.Fatalf("VERIF-INFRA: %d requests for one GET\n%s", len(caps), describe(nil))
		case len(caps) == 0:
			labels = append(labels, "outcome=not-forwarded")
			if fw.Shape == "v2-salted" {
				t.Fatalf("nothing was forwarded for a plain v2 token\n%s", describe(nil))
			}
		default:
			labels = append(labels, "outcome=forwarded")
			c := &caps[0]
			if c.Err != "" {
				t.Fatalf("VERIF-INFRA: recorder could not parse request: %s\n%q", c.Err, c.Raw)
			}
			authz := c.Header["Authorization"]
			if len(authz) != 1 {
				t.Fatalf("want exactly one Authorization header, got %q\n%s", authz, describe(c))
			}
			parts := strings.SplitN(authz[0], " ", 2)
			if len(parts) != 2 || (parts[0] != "OAuth2" && parts[0] != "Bearer") {
				t.Fatalf("unexpected Authorization %q\n%s", authz[0], describe(c))
			}
			if fw.Error || !fw.Accepts(parts[1]) {
				msg := fmt.Sprintf("forwarded credential %q, want %q (%s)\n%s", parts[1], fw.Accept, fw.Shape, describe(c))
				if parts[1] == tk.Raw && tk.In40NonHexRegion() && stats.Known(c19KnownKey, msg) {
					known = true
				} else {
					t.Fatalf("%s", msg)
				}
			}
		}
		// non-disclosure: the Keep request, and whatever went to the remote API
		if needle, scan := c19.ScanNeedle(tk, fw.Protected); scan {
			legit := append([]string(nil), fw.Accept...)
			for _, c := range caps {
				n := c19.Occurrences(c.Raw, needle, legit)
				if n == 0 {
					continue
				}
				ctl := c19.Control(tk)
				ctlCaps, _, _ := env.drive(remote, scheme, ctl.Raw, hint)
				base := -1
				if len(ctlCaps) == 1 {
					base = c19.Occurrences(ctlCaps[0].Raw, needle, c19.ForwardFor(ctl, remote, c19.Resolution{Status: 500}).Accept)
				}
				if base >= n {
					labels = append(labels, "secret-occurs-in-fixed-parts")
					continue
				}
				msg := fmt.Sprintf("secret %q occurs %d time(s) in the forwarded bytes (control run: %d)\n%s", fw.Protected, n, base, describe(&caps[0]))
				if tk.In40NonHexRegion() && c.Header.Get("Authorization") == "OAuth2 "+tk.Raw && stats.Known(c19KnownKey, msg) {
					known = true
					continue
				}
				t.Fatalf("%s", msg)
			}
			for _, a := range api {
				if n := c19.Occurrences([]byte(a), needle, legit); n > 0 {
					t.Fatalf("secret %q was sent to the remote API server: %s\n%s", fw.Protected, a, describe(nil))
				}
			}
		} else if fw.Protected != "" {
			labels = append(labels, "scan-skipped(short-secret)")
		}
		if known {
			labels = append(labels, "known:"+c19KnownKey)
		}
		if len(api) > 0 {
			labels = append(labels, "remote-api-discovery")
		}
		stats.Case(stats.FP("keepstore", tk.Raw, remote, scheme, status, hint), tk.Kind != c19.KindOpaque && len(caps) > 0, labels...)
		stats.InfoAdd("raw_requests_scanned", int64(len(caps)))
		if len(caps) > 0 && stats.WantSample("keepstore/"+fw.Shape) {
			stats.Sample("keepstore/"+fw.Shape, map[string]interface{}{"token": tk.Raw, "remote": remote, "received": string(caps[0].Raw)})
		}
	})
}
