package worker

// C14 part (b): real worker.Pool bookkeeping under a rapid state machine.
//
// Drive: a real Pool (NewPool, its own tickers at one hour) over a model cloud
// (stub InstanceSet / Instance) and an in-process Executor whose answers to
// "true", "crunch-run --list/--detach/--kill" come from a model process table.
// Probes and syncs are invoked directly (wkr.ProbeAndUpdate(),
// wp.getInstancesAndSync()); "crunch-run --detach" calls are parked by the
// executor so that "arrived at the VM" and "returned to the pool" are separate
// steps that interleave with probes and process exits.
//
// Oracle (independent model; see notes/C14e2e.md):
//  R1  Running() contains every container the pool started or was shown by a
//      probe, until the pool learned of the exit AND ForgetContainer was called
//      (zero time while the process is alive);
//  R2  a container is only ever started on an instance that has answered a boot
//      probe and a --list to this pool, whose idle behaviour is "run", that the
//      pool has not asked the cloud to destroy and that still exists;
//  R3  no panic in the pool's bookkeeping.

import (
	"errors"
	"fmt"
	"io"
	"io/ioutil"
	"regexp"
	"sort"
	"strings"
	"sync"
	"testing"
	"time"

	"git.arvados.org/arvados.git/lib/cloud"
	"git.arvados.org/arvados.git/sdk/go/arvados"
	"github.com/prometheus/client_golang/prometheus"
	dto "github.com/prometheus/client_model/go"
	"github.com/sirupsen/logrus"
	"golang.org/x/crypto/ssh"
	"pgregory.net/rapid"
	"verif.local/vcommon/stats"
)

const bTagPrefix = "vt:"

type bProc struct {
	alive    bool // crunch-run running
	stale    bool // crunch-run gone, lock still held (arv-mount)
	killable bool
}

type bInst struct {
	h            *bHarness
	id           cloud.InstanceID
	it           arvados.InstanceType
	mu           sync.Mutex
	tags         cloud.InstanceTags
	exists       bool
	unlisted     bool // left the cloud's instance list but still answers ssh (e.g. shutting down)
	booted       bool // answers the boot probe
	responsive   bool // answers anything at all
	broken       bool // --list says "broken"
	procs        map[string]*bProc
	destroyCalls int
	// what the model knows the pool has been told
	bootAnswered bool
	listAnswered bool
	idle         IdleBehavior // model of the idle behaviour
	created      bool         // created by this pool (else found in the cloud)
	// dropOK: a list that the pool has received was computed at a moment when
	// this instance, already created, was absent from the cloud's list
	// (vanished / unlisted). Only then may the pool forget the instance.
	dropOK bool
}

func (i *bInst) ID() cloud.InstanceID                           { return i.id }
func (i *bInst) String() string                                 { return string(i.id) }
func (i *bInst) ProviderType() string                           { return i.it.ProviderType }
func (i *bInst) Address() string                                { return "10.0.0.1:22" }
func (i *bInst) RemoteUser() string                             { return "root" }
func (i *bInst) VerifyHostKey(ssh.PublicKey, *ssh.Client) error { return nil }
func (i *bInst) Tags() cloud.InstanceTags {
	i.mu.Lock()
	defer i.mu.Unlock()
	r := cloud.InstanceTags{}
	for k, v := range i.tags {
		r[k] = v
	}
	return r
}
func (i *bInst) SetTags(t cloud.InstanceTags) error {
	i.mu.Lock()
	defer i.mu.Unlock()
	i.tags = cloud.InstanceTags{}
	for k, v := range t {
		i.tags[k] = v
	}
	return nil
}
func (i *bInst) Destroy() error {
	i.mu.Lock()
	defer i.mu.Unlock()
	i.destroyCalls++
	return nil
}

type bPending struct {
	rr      *remoteRunner // the runner whose Start() issued this call (set by the "start" action)
	inst    *bInst
	uuid    string
	arrive  chan struct{}
	ret     chan struct{}
	arrived bool
	ok      bool
}

type bHarness struct {
	mu       sync.Mutex
	insts    []*bInst
	nextID   int
	pending  []*bPending
	createOK bool
	killGate map[string]*bGate // uuid -> gate that parks the next --kill for it
	listGate map[*bInst]*bGate // instance -> gate that parks the ANSWER of the next --list (computed on arrival, delivered on release)
	slow     []*bSlowProbe     // probes whose --list answer is parked
	instGate *bGate            // parks the ANSWER of the next Instances() call (computed on arrival, delivered on release)
	slowSync *bSlowSync        // the sync whose Instances() answer is parked
	hist     []string
	// R1 bookkeeping: uuid -> instance the pool started it on / saw it on
	expect map[string]*bExpect
	labels map[string]bool
}

type bSlowProbe struct {
	inst *bInst
	gate *bGate
	done chan struct{}
	pan  interface{}
}

// bSlowSync: a wp.getInstancesAndSync() running on its own goroutine whose
// Instances() answer was computed when the call arrived at the cloud and is
// delivered later: a slow, eventually consistent cloud API. Instances created
// after the arrival are not in the answer.
type bSlowSync struct {
	gate   *bGate
	done   chan struct{}
	pan    interface{}
	listed map[*bInst]bool // the answer
	absent []*bInst        // created before the answer was computed, but not listed in it
}

type bGate struct {
	arrived chan struct{}
	release chan struct{}
	once    sync.Once
}

type bExpect struct {
	inst    *bInst
	learned bool // the pool has been shown that the process is gone
}

func (h *bHarness) logf(format string, args ...interface{}) {
	h.mu.Lock()
	h.hist = append(h.hist, fmt.Sprintf(format, args...))
	h.mu.Unlock()
}

// ---- cloud.InstanceSet

func (h *bHarness) Create(it arvados.InstanceType, _ cloud.ImageID, tags cloud.InstanceTags, _ cloud.InitCommand, _ ssh.PublicKey) (cloud.Instance, error) {
	h.mu.Lock()
	defer h.mu.Unlock()
	if !h.createOK {
		return nil, errors.New("model: create fails")
	}
	h.nextID++
	inst := &bInst{h: h, id: cloud.InstanceID(fmt.Sprintf("i-%d", h.nextID)), it: it, tags: cloud.InstanceTags{}, exists: true,
		responsive: true, procs: map[string]*bProc{}, idle: IdleBehaviorRun, created: true}
	for k, v := range tags {
		inst.tags[k] = v
	}
	h.insts = append(h.insts, inst)
	return inst, nil
}

func (h *bHarness) Instances(cloud.InstanceTags) ([]cloud.Instance, error) {
	h.mu.Lock()
	gate := h.instGate
	h.instGate = nil
	var r []cloud.Instance
	listed := map[*bInst]bool{}
	var absent []*bInst
	for _, i := range h.insts {
		if i.exists && !i.unlisted {
			r = append(r, i)
			listed[i] = true
		} else {
			absent = append(absent, i)
		}
	}
	if gate == nil {
		// answered at once: the pool applies this list before anything else
		// happens in the model
		for _, i := range absent {
			i.dropOK = true
		}
		h.mu.Unlock()
		return r, nil
	}
	// Slow call: the answer is what the cloud knew when the call arrived; it
	// reaches the pool when the machine releases the gate. Instances created
	// in between are not in it.
	if h.slowSync != nil {
		h.slowSync.listed, h.slowSync.absent = listed, absent
	}
	h.mu.Unlock()
	gate.once.Do(func() { close(gate.arrived) })
	<-gate.release
	return r, nil
}

func (h *bHarness) Stop() {}

// ---- Executor

type bExec struct {
	h    *bHarness
	inst *bInst
}

var bUUIDRe = regexp.MustCompile(`zzzzz-dz642-[0-9a-z]{15}`)

func (e *bExec) SetTarget(cloud.ExecutorTarget) {}
func (e *bExec) Close()                         {}
func (e *bExec) Execute(env map[string]string, cmd string, stdin io.Reader) (stdout, stderr []byte, err error) {
	if stdin != nil {
		ioutil.ReadAll(stdin)
	}
	h, inst := e.h, e.inst
	fail := func(msg string) ([]byte, []byte, error) { return nil, []byte(msg + "\n"), errors.New(msg) }
	switch {
	case cmd == "true":
		h.mu.Lock()
		defer h.mu.Unlock()
		if !inst.exists || !inst.responsive || !inst.booted {
			return fail("not booted")
		}
		inst.bootAnswered = true
		return nil, nil, nil
	case cmd == "crunch-run --list":
		h.mu.Lock()
		gate := h.listGate[inst]
		delete(h.listGate, inst)
		h.mu.Unlock()
		// A parked answer may legitimately be discarded by the pool as stale
		// when it finally arrives, so it creates no obligation to report the
		// processes it shows (it may still relax obligations: dead ones).
		stdout, stderr, err = e.list(gate != nil)
		if gate != nil {
			// the answer was computed above; it is delivered when the
			// machine releases the gate (a slow probe)
			gate.once.Do(func() { close(gate.arrived) })
			<-gate.release
		}
		return
	case strings.HasPrefix(cmd, "crunch-run --detach "):
		uuid := bUUIDRe.FindString(cmd)
		p := &bPending{inst: inst, uuid: uuid, arrive: make(chan struct{}), ret: make(chan struct{})}
		h.mu.Lock()
		h.pending = append(h.pending, p)
		h.mu.Unlock()
		<-p.arrive
		<-p.ret
		if !p.ok {
			return fail("cannot start")
		}
		return nil, []byte("starting\n"), nil
	case strings.HasPrefix(cmd, "crunch-run --kill "):
		uuid := bUUIDRe.FindString(cmd)
		h.mu.Lock()
		gate := h.killGate[uuid]
		delete(h.killGate, uuid)
		h.mu.Unlock()
		if gate != nil {
			gate.once.Do(func() { close(gate.arrived) })
			<-gate.release
		}
		h.mu.Lock()
		defer h.mu.Unlock()
		if !inst.exists || !inst.responsive {
			return fail("no answer")
		}
		p := inst.procs[uuid]
		if p != nil && p.alive {
			if !p.killable {
				return fail(uuid + ": container is running")
			}
			delete(inst.procs, uuid)
		}
		if ex := h.expect[uuid]; ex != nil && ex.inst == inst {
			ex.learned = true
		}
		return nil, []byte(uuid + ": container is not running\n"), nil
	}
	return fail("command not found: " + cmd)
}

// list computes the answer to "crunch-run --list" from the model process table.
func (e *bExec) list(parked bool) (stdout, stderr []byte, err error) {
	h, inst := e.h, e.inst
	fail := func(msg string) ([]byte, []byte, error) { return nil, []byte(msg + "\n"), errors.New(msg) }
	h.mu.Lock()
	defer h.mu.Unlock()
	if !inst.exists || !inst.responsive || !inst.booted {
		return fail("no answer")
	}
	inst.listAnswered = true
	var out []string
	uuids := make([]string, 0, len(inst.procs))
	for u := range inst.procs {
		uuids = append(uuids, u)
	}
	sort.Strings(uuids)
	for _, u := range uuids {
		p := inst.procs[u]
		switch {
		case p.alive:
			out = append(out, u)
			if parked {
				// no new obligation
			} else if ex := h.expect[u]; ex == nil || ex.inst != inst {
				h.expect[u] = &bExpect{inst: inst}
			} else {
				ex.learned = false
			}
		case p.stale:
			out = append(out, u+" stale")
		}
	}
	for u, ex := range h.expect {
		if ex.inst == inst && (inst.procs[u] == nil || !inst.procs[u].alive) {
			ex.learned = true
		}
	}
	if inst.broken {
		out = append(out, "broken")
		if inst.idle == IdleBehaviorRun {
			inst.idle = IdleBehaviorDrain
		}
	}
	return []byte(strings.Join(out, "\n") + "\n"), nil, nil
}

// ---- the property

func bType(i int) arvados.InstanceType {
	return arvados.InstanceType{Name: fmt.Sprintf("type%d", i), ProviderType: fmt.Sprintf("p%d", i), VCPUs: i, RAM: arvados.ByteSize(i) << 30, Price: float64(i)}
}

func bSampleCount(s prometheus.Summary) uint64 {
	var mm dto.Metric
	if s.Write(&mm) != nil || mm.Summary == nil {
		return 0
	}
	return mm.Summary.GetSampleCount()
}

func bUUID(i int) string { return fmt.Sprintf("zzzzz-dz642-%015d", i) }

type bWorkerSnap struct {
	state State
	idle  IdleBehavior
	it    string
}

func TestVerifC14bPool(t *testing.T) {
	defer stats.Flush()
	logger := logrus.New()
	logger.Out = ioutil.Discard
	types := []arvados.InstanceType{bType(1), bType(2)}
	rapid.Check(t, func(t *rapid.T) {
		h := &bHarness{createOK: true, expect: map[string]*bExpect{}, labels: map[string]bool{}, killGate: map[string]*bGate{}, listGate: map[*bInst]*bGate{}}
		hour := arvados.Duration(time.Hour)
		cluster := &arvados.Cluster{
			Containers: arvados.ContainersConfig{
				CrunchRunCommand: "crunch-run",
				CloudVMs: arvados.CloudVMsConfig{
					SyncInterval: hour, ProbeInterval: hour, TimeoutIdle: hour, TimeoutBooting: hour, TimeoutProbe: hour,
					TimeoutShutdown: arvados.Duration(time.Nanosecond), TimeoutStaleRunLock: hour,
					TimeoutSignal: arvados.Duration(time.Millisecond), TimeoutTERM: arvados.Duration(6 * time.Millisecond),
					TagKeyPrefix: bTagPrefix, MaxProbesPerSecond: 1000,
				},
			},
			InstanceTypes: arvados.InstanceTypeMap{types[0].Name: types[0], types[1].Name: types[1]},
		}
		// instances left by a previous dispatcher (found in the cloud, state
		// unknown), some with processes and saved idle behaviour
		npre := rapid.IntRange(0, 2).Draw(t, "preexisting")
		for k := 0; k < npre; k++ {
			h.nextID++
			it := types[rapid.IntRange(0, 1).Draw(t, "preType")]
			ib := rapid.SampledFrom([]string{"run", "run", "hold", "drain", ""}).Draw(t, "preIdle")
			inst := &bInst{h: h, id: cloud.InstanceID(fmt.Sprintf("i-%d", h.nextID)), it: it, exists: true, booted: true, responsive: true,
				procs: map[string]*bProc{}, idle: IdleBehaviorRun,
				tags: cloud.InstanceTags{bTagPrefix + tagKeyInstanceType: it.Name, bTagPrefix + tagKeyInstanceSetID: "set"}}
			if ib != "" {
				inst.tags[bTagPrefix+tagKeyIdleBehavior] = ib
				inst.idle = IdleBehavior(ib)
			}
			if rapid.Bool().Draw(t, "preProc") {
				// distinct from each other and from the containers the
				// "start" action uses (which container the pool's map
				// iteration would pick for a kill must not matter)
				u := bUUID(10 + k)
				inst.procs[u] = &bProc{alive: true, killable: rapid.Bool().Draw(t, "preKillable")}
				h.labels["inherited-process"] = true
			}
			h.insts = append(h.insts, inst)
		}

		wp := NewPool(logger, &arvados.Client{APIHost: "verif.invalid", AuthToken: "tok"}, prometheus.NewRegistry(), "set", h,
			func(inst cloud.Instance) Executor {
				tv := inst.(TagVerifier)
				return &bExec{h: h, inst: tv.Instance.(*bInst)}
			}, nil, cluster)
		wp.CountWorkers() // returns once the initial instance list has been loaded
		defer func() {
			// release parked calls and stop kill loops so nothing outlives the case
			h.mu.Lock()
			pend := h.pending
			h.pending = nil
			h.mu.Unlock()
			for _, p := range pend {
				if !p.arrived {
					close(p.arrive)
				}
				close(p.ret)
			}
			h.mu.Lock()
			slow := h.slow
			h.slow = nil
			h.mu.Unlock()
			for _, sp := range slow {
				close(sp.gate.release)
				<-sp.done
			}
			h.mu.Lock()
			ss := h.slowSync
			h.slowSync, h.instGate = nil, nil
			h.mu.Unlock()
			if ss != nil {
				close(ss.gate.release)
				<-ss.done
			}
			wp.Stop()
			wp.mtx.Lock()
			wkrs := make([]*worker, 0, len(wp.workers))
			for _, w := range wp.workers {
				wkrs = append(wkrs, w)
			}
			wp.mtx.Unlock()
			for _, w := range wkrs {
				func() {
					defer func() { recover() }()
					w.Close()
				}()
			}
		}()

		nActions := 0
		// some workers that are already in service when the sequence starts
		nready := rapid.IntRange(0, 2).Draw(t, "readyWorkers")
		for k := 0; k < nready; k++ {
			it := types[rapid.IntRange(0, 1).Draw(t, "readyType")]
			wp.Create(it)
			for {
				wp.mtx.Lock()
				n := len(wp.creating)
				wp.mtx.Unlock()
				if n == 0 {
					break
				}
				time.Sleep(50 * time.Microsecond)
			}
			h.mu.Lock()
			inst := h.insts[len(h.insts)-1]
			inst.booted = true
			h.mu.Unlock()
			wp.mtx.Lock()
			wkr := wp.workers[inst.id]
			wp.mtx.Unlock()
			wkr.ProbeAndUpdate()
			h.logf("ready(%s,%s)", inst.id, it.Name)
		}
		workerOf := func(inst *bInst) *worker {
			wp.mtx.Lock()
			defer wp.mtx.Unlock()
			return wp.workers[inst.id]
		}
		existing := func() []*bInst {
			h.mu.Lock()
			defer h.mu.Unlock()
			var r []*bInst
			for _, i := range h.insts {
				if i.exists {
					r = append(r, i)
				}
			}
			return r
		}
		pickInst := func(t *rapid.T) *bInst {
			ex := existing()
			if len(ex) == 0 {
				t.Skip("no instance")
			}
			return ex[rapid.IntRange(0, len(ex)-1).Draw(t, "inst")]
		}
		waitFor := func(what string, cond func() bool) {
			deadline := time.Now().Add(20 * time.Second)
			for !cond() {
				if time.Now().After(deadline) {
					t.Fatalf("VERIF-INFRA: timed out waiting for %s\nhistory:\n%s", what, strings.Join(h.hist, "\n"))
				}
				time.Sleep(50 * time.Microsecond)
			}
		}
		// guarded runs f; a panic out of the pool's bookkeeping is a failure (R3)
		guarded := func(what string, f func()) {
			defer func() {
				if r := recover(); r != nil {
					t.Fatalf("R3: panic %q in %s\nhistory:\n%s", fmt.Sprint(r), what, strings.Join(h.hist, "\n"))
				}
			}()
			f()
		}
		// R3 stated as an invariant instead of waiting for the crash: the pool
		// must never keep a runner whose Close() has already been called (the
		// next closeRunner()/worker.Close() for it panics with "close of closed
		// channel", on a pool goroutine in production).
		var allWorkers []*worker
		checkPoison := func() {
			// only workers that are in the pool: a worker dropped by sync() is
			// closed exactly once and never looked at again
			wp.mtx.Lock()
			allWorkers = allWorkers[:0]
			for _, w := range wp.workers {
				allWorkers = append(allWorkers, w)
			}
			var poisoned []string
			for _, w := range allWorkers {
				for u, rr := range w.running {
					if rr.isClosed() {
						poisoned = append(poisoned, fmt.Sprintf("%s running[%s]", w.instance.ID(), u))
						delete(w.running, u) // repair (what the proposed fix does) so the case can go on
					}
				}
				for u, rr := range w.starting {
					if rr.isClosed() {
						poisoned = append(poisoned, fmt.Sprintf("%s starting[%s]", w.instance.ID(), u))
						delete(w.starting, u)
					}
				}
			}
			wp.mtx.Unlock()
			if len(poisoned) == 0 {
				return
			}
			sort.Strings(poisoned)
			t.Fatalf("R3: the pool keeps a remoteRunner that was already closed (the next closeRunner/worker.Close for it panics: close of closed channel): %v\nhistory:\n%s",
				poisoned, strings.Join(h.hist, "\n"))
		}
		// settle waits for the pool's fire-and-forget goroutines whose effect the
		// model looks at (Destroy calls of workers that were just shut down).
		settle := func() {
			wp.mtx.Lock()
			var down []*bInst
			for _, w := range wp.workers {
				if w.state == StateShutdown {
					down = append(down, w.instance.(TagVerifier).Instance.(*bInst))
				}
			}
			wp.mtx.Unlock()
			for _, inst := range down {
				inst := inst
				waitFor("Destroy call", func() bool {
					inst.mu.Lock()
					defer inst.mu.Unlock()
					return inst.destroyCalls > 0
				})
			}
		}

		checkRunning := func(where string) {
			running := wp.Running()
			h.mu.Lock()
			defer h.mu.Unlock()
			for u, ex := range h.expect {
				if !ex.inst.exists {
					continue
				}
				wp.mtx.Lock()
				_, inPool := wp.workers[ex.inst.id]
				wp.mtx.Unlock()
				p := ex.inst.procs[u]
				alive := p != nil && p.alive
				if !inPool {
					// The pool may forget an instance only after it received a
					// list that was computed while the instance (already
					// created) was absent from the cloud. A list requested
					// BEFORE the instance was created says nothing about it.
					if !ex.inst.dropOK && !ex.inst.unlisted {
						t.Fatalf("R1 (%s): the pool forgot instance %s, which exists, has been in every instance list computed since it was created, and on which %s was started/shown (process alive=%v); Running() therefore lacks %s\nRunning()=%v\nhistory:\n%s",
							where, ex.inst.id, u, alive, u, running, strings.Join(h.hist, "\n"))
					}
					continue
				}
				tm, ok := running[u]
				if !ok {
					t.Fatalf("R1 (%s): Running() lacks %s (on %s, alive=%v, pool-learned-exit=%v, not forgotten)\nRunning()=%v\nhistory:\n%s",
						where, u, ex.inst.id, alive, ex.learned, running, strings.Join(h.hist, "\n"))
				}
				if alive && !ex.learned && !tm.IsZero() {
					// reported as exited although it is alive and no
					// probe/kill told the pool otherwise
					t.Fatalf("R1 (%s): Running() reports %s as exited at %v but its process on %s is alive\nhistory:\n%s",
						where, u, tm, ex.inst.id, strings.Join(h.hist, "\n"))
				}
			}
		}

		actions := map[string]func(*rapid.T){
			"": func(t *rapid.T) {
				settle()
				checkPoison()
				checkRunning("after step")
			},
			"create": func(t *rapid.T) {
				if len(existing()) >= 4 {
					t.Skip()
				}
				it := types[rapid.IntRange(0, 1).Draw(t, "type")]
				luck := rapid.IntRange(0, 9).Draw(t, "createLuck") > 0
				h.mu.Lock()
				h.createOK = luck
				h.mu.Unlock()
				ok := wp.Create(it)
				h.logf("create(%s)=%v", it.Name, ok)
				waitFor("Create to finish", func() bool {
					wp.mtx.Lock()
					defer wp.mtx.Unlock()
					return len(wp.creating) == 0
				})
				nActions++
			},
			"boot": func(t *rapid.T) {
				inst := pickInst(t)
				h.mu.Lock()
				inst.booted = true
				h.mu.Unlock()
				h.logf("boot(%s)", inst.id)
			},
			"responsive": func(t *rapid.T) {
				inst := pickInst(t)
				v := rapid.Bool().Draw(t, "responsive")
				h.mu.Lock()
				inst.responsive = v
				h.mu.Unlock()
				h.logf("responsive(%s,%v)", inst.id, v)
			},
			"reportBroken": func(t *rapid.T) {
				inst := pickInst(t)
				if rapid.IntRange(0, 2).Draw(t, "really") > 0 {
					t.Skip()
				}
				h.mu.Lock()
				inst.broken = true
				h.mu.Unlock()
				h.labels["reports-broken"] = true
				h.logf("broken(%s)", inst.id)
			},
			"vanish": func(t *rapid.T) {
				inst := pickInst(t)
				// only instances the pool asked to destroy, or (rarely) any
				spont := rapid.IntRange(0, 3).Draw(t, "spontaneous") == 0
				inst.mu.Lock()
				asked := inst.destroyCalls > 0
				inst.mu.Unlock()
				if !asked && !spont {
					t.Skip()
				}
				h.mu.Lock()
				inst.exists = false
				h.mu.Unlock()
				h.logf("vanish(%s)", inst.id)
			},
			"sync": func(t *rapid.T) {
				guarded("sync", func() { wp.getInstancesAndSync() })
				h.logf("sync")
				nActions++
			},
			"probe": func(t *rapid.T) {
				inst := pickInst(t)
				wkr := workerOf(inst)
				if wkr == nil {
					t.Skip("not in pool")
				}
				guarded("probe("+string(inst.id)+")", func() { wkr.ProbeAndUpdate() })
				wp.mtx.Lock()
				st := wkr.state
				wp.mtx.Unlock()
				h.logf("probe(%s)->%s", inst.id, st)
				nActions++
			},
			"slowProbe": func(t *rapid.T) {
				// a run-probe whose "crunch-run --list" answer is computed now
				// but reaches the pool only after other actions
				// (slowProbeDeliver) - e.g. after a --detach has started the
				// process and Start() has returned
				inst := pickInst(t)
				wkr := workerOf(inst)
				if wkr == nil {
					t.Skip("not in pool")
				}
				h.mu.Lock()
				ok := inst.exists && inst.responsive && inst.booted && !inst.broken && h.listGate[inst] == nil // (a "broken" answer changes the model's idle behaviour when computed, so it is never parked)
				for _, sp := range h.slow {
					if sp.inst == inst {
						ok = false
					}
				}
				gate := &bGate{arrived: make(chan struct{}), release: make(chan struct{})}
				if ok {
					h.listGate[inst] = gate
				}
				h.mu.Unlock()
				if !ok {
					t.Skip("instance would not answer / already has a slow probe")
				}
				sp := &bSlowProbe{inst: inst, gate: gate, done: make(chan struct{})}
				go func() {
					defer close(sp.done)
					defer func() { sp.pan = recover() }()
					wkr.ProbeAndUpdate()
				}()
				select {
				case <-gate.arrived:
					h.mu.Lock()
					h.slow = append(h.slow, sp)
					h.mu.Unlock()
					h.labels["slow-probe-parked"] = true
					h.logf("slowProbe(%s): --list answered, delivery parked", inst.id)
				case <-sp.done:
					// the probe did not get as far as --list (boot probe failed, or another probe was running)
					h.mu.Lock()
					delete(h.listGate, inst)
					h.mu.Unlock()
					if sp.pan != nil {
						t.Fatalf("R3: panic %q in probe(%s)\nhistory:\n%s", fmt.Sprint(sp.pan), inst.id, strings.Join(h.hist, "\n"))
					}
					h.logf("slowProbe(%s): finished without --list", inst.id)
				}
				nActions++
			},
			"slowProbeDeliver": func(t *rapid.T) {
				h.mu.Lock()
				if len(h.slow) == 0 {
					h.mu.Unlock()
					t.Skip("no parked probe")
				}
				k := rapid.IntRange(0, len(h.slow)-1).Draw(t, "which")
				sp := h.slow[k]
				h.slow = append(h.slow[:k:k], h.slow[k+1:]...)
				h.mu.Unlock()
				close(sp.gate.release)
				<-sp.done
				if sp.pan != nil {
					t.Fatalf("R3: panic %q when the parked --list answer of %s was delivered\nhistory:\n%s", fmt.Sprint(sp.pan), sp.inst.id, strings.Join(h.hist, "\n"))
				}
				h.labels["slow-probe-delivered"] = true
				h.logf("slowProbeDeliver(%s)", sp.inst.id)
				nActions++
			},
			"slowSync": func(t *rapid.T) {
				// the pool's periodic sync, with a slow and eventually consistent
				// cloud: Instances() computes its answer now, the pool receives
				// it after other actions (slowSyncDeliver) - e.g. after an
				// instance was created, booted and given a container
				h.mu.Lock()
				busy := h.slowSync != nil
				var ss *bSlowSync
				if !busy {
					ss = &bSlowSync{gate: &bGate{arrived: make(chan struct{}), release: make(chan struct{})}, done: make(chan struct{})}
					h.slowSync, h.instGate = ss, ss.gate
				}
				h.mu.Unlock()
				if busy {
					t.Skip("a sync is already parked")
				}
				go func() {
					defer close(ss.done)
					defer func() { ss.pan = recover() }()
					wp.getInstancesAndSync()
				}()
				select {
				case <-ss.gate.arrived:
					h.labels["slow-sync-parked"] = true
					h.mu.Lock()
					n := len(ss.listed)
					h.mu.Unlock()
					h.logf("slowSync: Instances() answered with %d instance(s), delivery parked", n)
				case <-ss.done:
					// did not get as far as Instances() (rate limited)
					h.mu.Lock()
					h.slowSync, h.instGate = nil, nil
					h.mu.Unlock()
					if ss.pan != nil {
						t.Fatalf("R3: panic %q in sync\nhistory:\n%s", fmt.Sprint(ss.pan), strings.Join(h.hist, "\n"))
					}
					h.logf("slowSync: finished without calling Instances()")
				}
				nActions++
			},
			"slowSyncDeliver": func(t *rapid.T) {
				h.mu.Lock()
				ss := h.slowSync
				h.slowSync = nil
				var since, sinceBusy []string
				if ss != nil {
					for _, i := range ss.absent {
						i.dropOK = true
					}
					known := map[*bInst]bool{}
					for _, i := range ss.absent {
						known[i] = true
					}
					for _, i := range h.insts {
						if !ss.listed[i] && !known[i] && i.exists && !i.unlisted {
							since = append(since, string(i.id))
							for u, ex := range h.expect {
								if ex.inst == i {
									sinceBusy = append(sinceBusy, u+"@"+string(i.id))
								}
							}
						}
					}
				}
				h.mu.Unlock()
				if ss == nil {
					t.Skip("no parked sync")
				}
				close(ss.gate.release)
				<-ss.done
				if ss.pan != nil {
					t.Fatalf("R3: panic %q when the parked instance list was delivered\nhistory:\n%s", fmt.Sprint(ss.pan), strings.Join(h.hist, "\n"))
				}
				sort.Strings(since)
				sort.Strings(sinceBusy)
				h.labels["slow-sync-delivered"] = true
				if len(since) > 0 {
					h.labels["stale-list-lacks-instance-created-since"] = true
				}
				if len(sinceBusy) > 0 {
					h.labels["stale-list-lacks-instance-created-since-that-has-a-container"] = true
				}
				h.logf("slowSyncDeliver: stale list delivered; live instances created since it was computed: %v, containers on them: %v", since, sinceBusy)
				nActions++
			},
			"readyNew": func(t *rapid.T) {
				// create + boot + first probe in one step (a fast-booting VM),
				// so that a new instance can be in service - and be given a
				// container - while a slow sync is still in flight
				if len(existing()) >= 4 {
					t.Skip()
				}
				it := types[rapid.IntRange(0, 1).Draw(t, "type")]
				h.mu.Lock()
				h.createOK = true
				before := len(h.insts)
				h.mu.Unlock()
				if !wp.Create(it) {
					t.Skip("Create refused")
				}
				waitFor("Create to finish", func() bool {
					wp.mtx.Lock()
					defer wp.mtx.Unlock()
					return len(wp.creating) == 0
				})
				h.mu.Lock()
				var inst *bInst
				if len(h.insts) > before {
					inst = h.insts[len(h.insts)-1]
					inst.booted = true
				}
				h.mu.Unlock()
				if inst == nil {
					t.Fatalf("VERIF-INFRA: Create returned true but the model cloud has no new instance")
				}
				wkr := workerOf(inst)
				if wkr == nil {
					t.Fatalf("VERIF-INFRA: no worker for the instance just created (%s)", inst.id)
				}
				guarded("probe("+string(inst.id)+")", func() { wkr.ProbeAndUpdate() })
				wp.mtx.Lock()
				st := wkr.state
				wp.mtx.Unlock()
				h.logf("readyNew(%s,%s)->%s", inst.id, it.Name, st)
				nActions++
			},
			"age": func(t *rapid.T) {
				// make the boot/probe timeout expire for this worker
				inst := pickInst(t)
				wkr := workerOf(inst)
				if wkr == nil {
					t.Skip("not in pool")
				}
				wp.mtx.Lock()
				wkr.probed = time.Now().Add(-2 * time.Hour)
				wp.mtx.Unlock()
				h.logf("age(%s)", inst.id)
			},
			"idleBehavior": func(t *rapid.T) {
				inst := pickInst(t)
				ib := rapid.SampledFrom([]IdleBehavior{IdleBehaviorRun, IdleBehaviorHold, IdleBehaviorDrain}).Draw(t, "ib")
				err := wp.SetIdleBehavior(inst.id, ib)
				if err == nil {
					h.mu.Lock()
					inst.idle = ib
					h.mu.Unlock()
					if ib != IdleBehaviorRun {
						h.labels["hold-or-drain"] = true
					}
				}
				h.logf("idle(%s,%s) err=%v", inst.id, ib, err)
				nActions++
			},
			"start": func(t *rapid.T) {
				it := types[rapid.IntRange(0, 1).Draw(t, "type")]
				uuid := bUUID(rapid.IntRange(1, 4).Draw(t, "uuid"))
				// the scheduler never starts a container that Running() lists
				if _, busy := wp.Running()[uuid]; busy {
					t.Skip("listed by Running()")
				}
				pre := map[cloud.InstanceID]bWorkerSnap{}
				wp.mtx.Lock()
				base := time.Now().Add(-time.Minute)
				for id, w := range wp.workers {
					pre[id] = bWorkerSnap{w.state, w.idleBehavior, w.instType.Name}
					// StartContainer prefers the most recently busy eligible
					// worker; make that order a function of the instance
					// number instead of wall-clock readings / map order
					// (idle timeouts are an hour here, so nothing else
					// looks at busy)
					var n int
					fmt.Sscanf(string(id), "i-%d", &n)
					w.busy = base.Add(time.Duration(n) * time.Second)
				}
				wp.mtx.Unlock()
				ok := wp.StartContainer(it, arvados.Container{UUID: uuid, State: arvados.ContainerStateLocked, Priority: 1})
				h.logf("start(%s,%s)=%v", it.Name, uuid, ok)
				nActions++
				if !ok {
					return
				}
				// where did it go?
				var chosen *worker
				wp.mtx.Lock()
				for _, w := range wp.workers {
					if _, ok := w.starting[uuid]; ok {
						chosen = w
					}
				}
				wp.mtx.Unlock()
				if chosen == nil {
					t.Fatalf("VERIF-INFRA: StartContainer returned true but no worker has %s in starting", uuid)
				}
				inst := chosen.instance.(TagVerifier).Instance.(*bInst)
				h.mu.Lock()
				h.expect[uuid] = &bExpect{inst: inst}
				h.hist = append(h.hist, fmt.Sprintf("  -> chosen %s", inst.id))
				var bad []string
				// (an instance that vanished from the cloud without a sync
				// since is not something the pool can know about)
				if !inst.bootAnswered || !inst.listAnswered {
					bad = append(bad, fmt.Sprintf("instance has not answered a boot probe (%v) and a --list (%v) yet", inst.bootAnswered, inst.listAnswered))
				}
				if inst.idle != IdleBehaviorRun {
					bad = append(bad, fmt.Sprintf("idle behaviour is %q", inst.idle))
				}
				inst.mu.Lock()
				if inst.destroyCalls > 0 {
					bad = append(bad, "the pool has already asked the cloud to destroy it")
				}
				inst.mu.Unlock()
				if inst.it.Name != it.Name {
					bad = append(bad, "wrong instance type "+inst.it.Name)
				}
				if s := pre[inst.id]; s.state != StateIdle || s.idle != IdleBehaviorRun {
					bad = append(bad, fmt.Sprintf("pool's own record just before the call: state=%s idleBehavior=%s", s.state, s.idle))
				}
				hist := strings.Join(h.hist, "\n")
				h.mu.Unlock()
				if len(bad) > 0 {
					t.Fatalf("R2: StartContainer(%s,%s) chose %s: %s\nhistory:\n%s", it.Name, uuid, inst.id, strings.Join(bad, "; "), hist)
				}
				// the --detach call is now parked in the executor
				wp.mtx.Lock()
				startedRR := chosen.starting[uuid]
				wp.mtx.Unlock()
				waitFor("--detach to reach the executor", func() bool {
					h.mu.Lock()
					defer h.mu.Unlock()
					for _, p := range h.pending {
						if p.uuid == uuid && p.inst == inst && p.rr == nil {
							p.rr = startedRR
							return true
						}
					}
					return false
				})
			},
			"detachArrive": func(t *rapid.T) {
				h.mu.Lock()
				var cands []*bPending
				for _, p := range h.pending {
					if !p.arrived {
						cands = append(cands, p)
					}
				}
				h.mu.Unlock()
				if len(cands) == 0 {
					t.Skip()
				}
				p := cands[rapid.IntRange(0, len(cands)-1).Draw(t, "which")]
				killable := rapid.IntRange(0, 3).Draw(t, "killable") > 0
				h.mu.Lock()
				p.arrived = true
				p.ok = p.inst.exists && p.inst.responsive && p.inst.booted
				if p.ok {
					p.inst.procs[p.uuid] = &bProc{alive: true, killable: killable}
				}
				h.mu.Unlock()
				close(p.arrive)
				h.logf("detachArrive(%s,%s) ok=%v", p.inst.id, p.uuid, p.ok)
			},
			"detachReturn": func(t *rapid.T) {
				h.mu.Lock()
				var cands []*bPending
				for _, p := range h.pending {
					if p.arrived {
						cands = append(cands, p)
					}
				}
				h.mu.Unlock()
				if len(cands) == 0 {
					t.Skip()
				}
				p := cands[rapid.IntRange(0, len(cands)-1).Draw(t, "which")]
				wkr := workerOf(p.inst)
				// precondition of the double-Close defect: the runner was
				// moved to running by a probe and closed by a later probe
				// while its Start() call had not returned yet
				readded, moved := false, false
				var updatedBefore time.Time
				if wkr != nil {
					wp.mtx.Lock()
					inStarting := p.rr != nil && wkr.starting[p.uuid] == p.rr
					inRunning := p.rr != nil && wkr.running[p.uuid] == p.rr
					updatedBefore = wkr.updated
					wp.mtx.Unlock()
					moved = !inStarting
					readded = !inStarting && !inRunning
				}
				h.mu.Lock()
				for k, q := range h.pending {
					if q == p {
						h.pending = append(h.pending[:k], h.pending[k+1:]...)
						break
					}
				}
				h.mu.Unlock()
				startsBefore := bSampleCount(wp.mTimeFromQueueToCrunchRun)
				close(p.ret)
				// rr.Start() has returned once the pool has observed its
				// queue-to-crunch-run metric; the bookkeeping follows at once
				waitFor("Start() to return", func() bool { return bSampleCount(wp.mTimeFromQueueToCrunchRun) > startsBefore })
				if wkr != nil && !moved {
					// still in wkr.starting: it is promoted to wkr.running now
					waitFor("start bookkeeping", func() bool {
						wp.mtx.Lock()
						defer wp.mtx.Unlock()
						return wkr.starting[p.uuid] != p.rr
					})
				} else if wkr != nil {
					// A probe already took the runner out of wkr.starting.
					// Correct code has nothing left to do; the defective code
					// stamps wkr.updated and re-inserts the runner. Give that a
					// moment to happen so that the very next invariant check
					// sees it (if it is slower than this, a later check does).
					deadline := time.Now().Add(3 * time.Millisecond)
					for time.Now().Before(deadline) {
						wp.mtx.Lock()
						changed := wkr.updated != updatedBefore
						wp.mtx.Unlock()
						if changed {
							break
						}
						time.Sleep(20 * time.Microsecond)
					}
				}
				if readded {
					h.labels["runner-closed-while-start-in-flight"] = true
				}
				h.labels["detach-returned"] = true
				h.logf("detachReturn(%s,%s) readdedAfterClose=%v", p.inst.id, p.uuid, readded)
			},
			"procExit": func(t *rapid.T) {
				inst := pickInst(t)
				// (no Draw while h.mu is held: rapid aborts a case by panicking
				// out of Draw, and the cleanup needs the lock)
				h.mu.Lock()
				var us []string
				for u, p := range inst.procs {
					if p.alive {
						us = append(us, u)
					}
				}
				h.mu.Unlock()
				sort.Strings(us)
				if len(us) == 0 {
					t.Skip()
				}
				u := us[rapid.IntRange(0, len(us)-1).Draw(t, "which")]
				stale := rapid.IntRange(0, 3).Draw(t, "stale") == 0
				h.mu.Lock()
				if stale {
					inst.procs[u] = &bProc{stale: true}
				} else {
					delete(inst.procs, u)
				}
				h.mu.Unlock()
				h.labels["process-exited"] = true
				h.logf("procExit(%s,%s)", inst.id, u)
			},
			"kill": func(t *rapid.T) {
				uuid := bUUID(rapid.SampledFrom([]int{1, 2, 3, 4, 10, 11}).Draw(t, "uuid"))
				var rr *remoteRunner
				var wkr *worker
				var wasStopping bool
				unkillable := make(chan struct{})
				wp.mtx.Lock()
				for _, w := range wp.workers {
					r := w.running[uuid]
					if r == nil {
						r = w.starting[uuid]
					}
					if r != nil {
						rr, wkr, wasStopping = r, w, r.stopping
						if !wasStopping {
							// Whether the kill can succeed is known from the model.
							// If it can, never give up (so that machine load cannot
							// turn it into a give-up); if it cannot, give up after
							// 50 signal periods.
							inst := w.instance.(TagVerifier).Instance.(*bInst)
							h.mu.Lock()
							p := inst.procs[uuid]
							_, inRunning := w.running[uuid]
							canSucceed := inst.exists && inst.responsive && inRunning && (p == nil || !p.alive || p.killable)
							h.mu.Unlock()
							if canSucceed {
								r.timeoutTERM = time.Hour
							} else {
								r.timeoutTERM = 50 * time.Millisecond
							}
							// completion signal for the give-up path (no change of behaviour)
							orig := r.onUnkillable
							r.onUnkillable = func(u string) {
								orig(u)
								close(unkillable)
							}
						}
					}
				}
				wp.mtx.Unlock()
				ok := wp.KillContainer(uuid, "verif")
				h.logf("kill(%s)=%v", uuid, ok)
				nActions++
				if !ok || rr == nil || wasStopping {
					return
				}
				h.labels["kill"] = true
				// the kill loop ends when the runner is closed (process gone) or it gives up
				given := false
				waitFor("kill loop", func() bool {
					select {
					case <-unkillable:
						given = true
						return true
					default:
					}
					wp.mtx.Lock()
					defer wp.mtx.Unlock()
					return rr.isClosed()
				})
				if given {
					// onUnkillable drains the worker unless it is held
					inst := wkr.instance.(TagVerifier).Instance.(*bInst)
					h.mu.Lock()
					if inst.idle == IdleBehaviorRun {
						inst.idle = IdleBehaviorDrain
					}
					h.mu.Unlock()
					h.labels["unkillable"] = true
					h.logf("  -> gave up, %s drains unless held", inst.id)
				}
			},
			// A --kill is in flight when the instance leaves the cloud's list
			// (Pool.sync drops the worker and closes its runners) and then
			// succeeds: onKilled -> closeRunner must cope with a runner that
			// worker.Close() has already closed.
			"killWhileInstanceVanishes": func(t *rapid.T) {
				uuid := bUUID(rapid.SampledFrom([]int{1, 2, 3, 4, 10, 11}).Draw(t, "uuid"))
				var rr *remoteRunner
				var wkr *worker
				killed := make(chan string, 1)
				wp.mtx.Lock()
				for _, w := range wp.workers {
					if r := w.running[uuid]; r != nil && !r.stopping && w.state != StateShutdown {
						rr, wkr = r, w
						r.timeoutTERM = time.Hour
						orig := r.onKilled
						var once sync.Once
						r.onKilled = func(u string) {
							msg := ""
							defer func() {
								if p := recover(); p != nil {
									msg = fmt.Sprint(p)
								}
								once.Do(func() { killed <- msg })
							}()
							orig(u)
						}
					}
				}
				wp.mtx.Unlock()
				if rr == nil {
					t.Skip("not running anywhere")
				}
				inst := wkr.instance.(TagVerifier).Instance.(*bInst)
				h.mu.Lock()
				ok := inst.exists && inst.responsive
				gate := &bGate{arrived: make(chan struct{}), release: make(chan struct{})}
				if ok {
					h.killGate[uuid] = gate
					if p := inst.procs[uuid]; p != nil {
						p.killable = true // this --kill is going to succeed
					}
				}
				h.mu.Unlock()
				if !ok {
					t.Skip("instance does not answer")
				}
				wp.KillContainer(uuid, "verif")
				<-gate.arrived
				h.mu.Lock()
				inst.unlisted = true
				h.mu.Unlock()
				guarded("sync", func() { wp.getInstancesAndSync() })
				waitFor("worker.Close", func() bool {
					wp.mtx.Lock()
					defer wp.mtx.Unlock()
					return rr.isClosed()
				})
				close(gate.release)
				msg := <-killed
				h.mu.Lock()
				inst.exists = false
				h.mu.Unlock()
				h.labels["kill-in-flight-while-instance-vanishes"] = true
				h.logf("killWhileInstanceVanishes(%s on %s): --kill parked, instance unlisted, sync dropped+closed the worker, --kill returned 0", uuid, inst.id)
				if msg != "" {
					t.Fatalf("R3: panic %q in onKilled->closeRunner: worker.Close() (from Pool.sync) had already closed the runner but left it in wkr.running\nhistory:\n%s", msg, strings.Join(h.hist, "\n"))
				}
				nActions++
			},
			"forget": func(t *rapid.T) {
				uuid := bUUID(rapid.SampledFrom([]int{1, 2, 3, 4, 10, 11}).Draw(t, "uuid"))
				before := wp.Running()
				wp.ForgetContainer(uuid)
				h.mu.Lock()
				// ForgetContainer only drops the "exited" placeholder
				if tm, ok := before[uuid]; ok && !tm.IsZero() {
					if ex := h.expect[uuid]; ex != nil && ex.learned {
						delete(h.expect, uuid)
					}
				}
				h.mu.Unlock()
				h.logf("forget(%s)", uuid)
			},
		}
		// weight the actions that move the pool's bookkeeping
		for _, k := range []string{"start", "probe", "detachArrive", "detachReturn", "procExit", "sync", "slowProbe", "slowProbeDeliver", "slowSync", "slowSyncDeliver", "readyNew"} {
			actions[k+"2"] = actions[k]
		}
		actions["probe3"] = actions["probe"]
		t.Repeat(actions)
		labels := make([]string, 0, len(h.labels))
		for l := range h.labels {
			labels = append(labels, l)
		}
		sort.Strings(labels)
		nontrivial := h.labels["detach-returned"] && (h.labels["process-exited"] || h.labels["kill"])
		stats.Case(stats.FP(strings.Join(h.hist, "|")), nontrivial, labels...)
		if nontrivial && stats.WantSample("history") {
			stats.Sample("history", h.hist)
		}
	})
}
