package federation

// C20: federated list-by-UUID returns each requested object once, from its home
// cluster; faults and no-progress answers fail the request; unsplittable
// queries are rejected before any backend is called.
//
// A Conn is assembled from recording stub backends. Every stub answers purely
// from the filters it is given (plus a pre-drawn paging/fault plan), tags each
// item with its own cluster id and records every call. The oracle is computed
// from the generated request and the stubs' contents only.

import (
	"context"
	"errors"
	"fmt"
	"hash/fnv"
	"io/ioutil"
	"reflect"
	"sort"
	"strings"
	"sync"
	"testing"
	"time"

	"git.arvados.org/arvados.git/sdk/go/arvados"
	"git.arvados.org/arvados.git/sdk/go/arvadostest"
	"git.arvados.org/arvados.git/sdk/go/ctxlog"
	"github.com/sirupsen/logrus"
	"pgregory.net/rapid"
	"verif.local/vcommon/stats"
)

type c20httpErr struct {
	code int
}

func (e c20httpErr) Error() string   { return fmt.Sprintf("stub backend error %d", e.code) }
func (e c20httpErr) HTTPStatus() int { return e.code }

// c20filterSet is the reference reading of a filter list: the set of strings
// that satisfy every `uuid =` / `uuid in` filter (nil if there is none),
// whether there are filters of any other form, and whether a uuid filter has an
// operand of the wrong type.
func c20filterSet(filters []arvados.Filter) (set map[string]bool, other, malformed bool) {
	for _, f := range filters {
		if f.Attr != "uuid" || (f.Operator != "=" && f.Operator != "in") {
			other = true
			continue
		}
		this := map[string]bool{}
		switch op := f.Operand.(type) {
		case string:
			if f.Operator != "=" {
				malformed = true
				continue
			}
			this[op] = true
		case []string:
			if f.Operator != "in" {
				malformed = true
				continue
			}
			for _, s := range op {
				this[s] = true
			}
		case []interface{}:
			if f.Operator != "in" {
				malformed = true
				continue
			}
			for _, v := range op {
				if s, ok := v.(string); ok {
					this[s] = true
				}
			}
		default:
			malformed = true
			continue
		}
		if set == nil {
			set = this
		} else {
			for u := range set {
				if !this[u] {
					delete(set, u)
				}
			}
		}
	}
	return
}

func c20copyFilters(in []arvados.Filter) []arvados.Filter {
	if in == nil {
		return nil
	}
	out := make([]arvados.Filter, len(in))
	for i, f := range in {
		out[i] = f
		switch op := f.Operand.(type) {
		case []string:
			out[i].Operand = append([]string(nil), op...)
		case []interface{}:
			out[i].Operand = append([]interface{}(nil), op...)
		}
	}
	return out
}

const c20HardCallLimit = 450

const (
	c20FaultError      = "error"
	c20FaultNoProgress = "noprogress"
	c20FaultLyingEmpty = "lying-empty"
	c20FaultRepeat     = "repeat"
)

type c20call struct {
	opts     arvados.ListOptions
	set      map[string]bool // reference reading of the filters received (nil: no uuid filter)
	returned []string        // uuids as visible to the caller ("" when select hid them)
	matched  int             // number of items in the answer
	fault    string          // fault delivered at this call, if any

	selectApplied bool // the answer was reduced to the selected fields
}

type c20backend struct {
	arvadostest.APIStub
	id        string
	existing  []string       // uuids this backend can return (its own, plus copies of foreign ones)
	prio      map[string]int // paging order
	pageSizes []int
	faults    map[int]string
	foreverAt int // >= 0: every call from this index on is a no-progress answer
	errCode   int
	everAsked map[string]bool // all uuids this backend was ever asked for (for the "repeat" fault)
	// honourSelect: answer the way the API does when the request carries a
	// non-empty select list, i.e. return only the selected fields (zero values
	// for all others, including an empty uuid when "uuid" is not selected)
	honourSelect bool

	mu    sync.Mutex
	calls []c20call
}

// list answers one call. It is a pure function of the filters received, the
// call index and the pre-drawn plan.
func (b *c20backend) list(opts arvados.ListOptions) ([]c20row, error) {
	b.mu.Lock()
	defer b.mu.Unlock()
	idx := len(b.calls)
	set, _, _ := c20filterSet(opts.Filters)
	call := c20call{opts: opts, set: set}
	call.opts.Filters = c20copyFilters(opts.Filters)
	call.opts.Select = append([]string(nil), opts.Select...)
	call.opts.Order = append([]string(nil), opts.Order...)
	type keyed struct {
		p int
		u string
	}
	rot := idx * 7
	var keyedMatching []keyed
	for _, u := range b.existing {
		if set == nil || set[u] {
			keyedMatching = append(keyedMatching, keyed{(b.prio[u] + rot) % 101, u})
		}
	}
	sort.Slice(keyedMatching, func(i, j int) bool {
		if keyedMatching[i].p != keyedMatching[j].p {
			return keyedMatching[i].p < keyedMatching[j].p
		}
		return keyedMatching[i].u < keyedMatching[j].u
	})
	matching := make([]string, len(keyedMatching))
	for i, k := range keyedMatching {
		matching[i] = k.u
	}
	// uuids asked for earlier but not now (only the "repeat" fault needs them)
	var previously []string
	if b.faults[idx] == c20FaultRepeat && !(b.foreverAt >= 0 && idx >= b.foreverAt) {
		for u := range b.everAsked {
			if set != nil && !set[u] {
				previously = append(previously, u)
			}
		}
		sort.Strings(previously)
	}
	for u := range set {
		b.everAsked[u] = true
	}
	if idx >= c20HardCallLimit {
		// never reached by a terminating implementation (bound: n+1 calls)
		b.calls = append(b.calls, call)
		return nil, errors.New("stub backend: call limit reached (harness stops a runaway loop)")
	}
	fault := b.faults[idx]
	if b.foreverAt >= 0 && idx >= b.foreverAt {
		fault = c20FaultNoProgress
	}
	if fault == c20FaultRepeat && len(previously) == 0 {
		fault = ""
	}
	call.fault = fault
	var out []string
	var err error
	switch fault {
	case c20FaultError:
		if b.errCode == 0 {
			err = errors.New("stub backend: connection reset")
		} else {
			err = c20httpErr{b.errCode}
		}
	case c20FaultNoProgress:
		// items none of which was asked for
		for i := 0; i <= idx%3; i++ {
			out = append(out, fmt.Sprintf("%s-4zz18-notrequested%03d", b.id, i))
		}
	case c20FaultLyingEmpty:
	case c20FaultRepeat:
		out = append(out, previously[0])
		if len(matching) > 0 {
			out = append(out, matching[0])
		}
	default:
		n := len(matching)
		if n > 0 {
			want := b.pageSizes[idx%len(b.pageSizes)]
			if want < 1 {
				want = 1
			}
			if want < n {
				n = want
			}
		}
		if opts.Limit >= 0 && int64(n) > opts.Limit {
			n = int(opts.Limit)
		}
		out = append(out, matching[:n]...)
	}
	// what the caller gets to see of each item
	showUUID, showTag, showTime := true, true, true
	if b.honourSelect && len(opts.Select) > 0 {
		showUUID, showTag, showTime = false, false, false
		for _, f := range opts.Select {
			switch f {
			case "uuid":
				showUUID = true
			case "modified_by_client_uuid":
				showTag = true
			case "modified_at":
				showTime = true
			}
		}
		call.selectApplied = true
	}
	var rows []c20row
	for _, u := range out {
		var r c20row
		if showUUID {
			r.uuid = u
		}
		if showTag {
			r.tag = b.tag()
		}
		if showTime {
			r.mtime = c20mtime(u)
		}
		rows = append(rows, r)
		call.returned = append(call.returned, r.uuid)
	}
	call.matched = len(out)
	b.calls = append(b.calls, call)
	return rows, err
}

// c20row is one item as the backend hands it out (after applying select).
type c20row struct {
	uuid, tag string
	mtime     time.Time
}

func (b *c20backend) tag() string { return "from:" + b.id }

func c20mtime(u string) time.Time {
	// a few distinct and a few equal timestamps; the order of the result is not
	// part of the property
	var h int
	for i := 0; i < len(u); i++ {
		h = (h*31 + int(u[i])) % 5
	}
	return time.Unix(1600000000+int64(h)*3600, 0).UTC()
}

func (b *c20backend) CollectionList(ctx context.Context, opts arvados.ListOptions) (arvados.CollectionList, error) {
	us, err := b.list(opts)
	if err != nil {
		return arvados.CollectionList{}, err
	}
	var r arvados.CollectionList
	for _, u := range us {
		r.Items = append(r.Items, arvados.Collection{UUID: u.uuid, ModifiedByClientUUID: u.tag, ModifiedAt: u.mtime})
	}
	return r, nil
}

func (b *c20backend) ContainerList(ctx context.Context, opts arvados.ListOptions) (arvados.ContainerList, error) {
	us, err := b.list(opts)
	if err != nil {
		return arvados.ContainerList{}, err
	}
	var r arvados.ContainerList
	for _, u := range us {
		r.Items = append(r.Items, arvados.Container{UUID: u.uuid, ModifiedByClientUUID: u.tag, ModifiedAt: u.mtime})
	}
	return r, nil
}

func (b *c20backend) ContainerRequestList(ctx context.Context, opts arvados.ListOptions) (arvados.ContainerRequestList, error) {
	us, err := b.list(opts)
	if err != nil {
		return arvados.ContainerRequestList{}, err
	}
	var r arvados.ContainerRequestList
	for _, u := range us {
		r.Items = append(r.Items, arvados.ContainerRequest{UUID: u.uuid, ModifiedByClientUUID: u.tag, ModifiedAt: u.mtime})
	}
	return r, nil
}

func (b *c20backend) GroupList(ctx context.Context, opts arvados.ListOptions) (arvados.GroupList, error) {
	us, err := b.list(opts)
	if err != nil {
		return arvados.GroupList{}, err
	}
	var r arvados.GroupList
	for _, u := range us {
		r.Items = append(r.Items, arvados.Group{UUID: u.uuid, ModifiedByClientUUID: u.tag, ModifiedAt: u.mtime})
	}
	return r, nil
}

func (b *c20backend) SpecimenList(ctx context.Context, opts arvados.ListOptions) (arvados.SpecimenList, error) {
	us, err := b.list(opts)
	if err != nil {
		return arvados.SpecimenList{}, err
	}
	var r arvados.SpecimenList
	for _, u := range us {
		r.Items = append(r.Items, arvados.Specimen{UUID: u.uuid, ModifiedByClientUUID: u.tag, ModifiedAt: u.mtime})
	}
	return r, nil
}

type c20item struct{ uuid, tag string }

// c20run calls the list method for the chosen object type.
func c20run(conn *Conn, ctx context.Context, kind string, opts arvados.ListOptions) (items []c20item, nilItems bool, err error) {
	switch kind {
	case "collection":
		r, e := conn.CollectionList(ctx, opts)
		for _, it := range r.Items {
			items = append(items, c20item{it.UUID, it.ModifiedByClientUUID})
		}
		return items, r.Items == nil, e
	case "container":
		r, e := conn.ContainerList(ctx, opts)
		for _, it := range r.Items {
			items = append(items, c20item{it.UUID, it.ModifiedByClientUUID})
		}
		return items, r.Items == nil, e
	case "container_request":
		r, e := conn.ContainerRequestList(ctx, opts)
		for _, it := range r.Items {
			items = append(items, c20item{it.UUID, it.ModifiedByClientUUID})
		}
		return items, r.Items == nil, e
	case "group":
		r, e := conn.GroupList(ctx, opts)
		for _, it := range r.Items {
			items = append(items, c20item{it.UUID, it.ModifiedByClientUUID})
		}
		return items, r.Items == nil, e
	default:
		r, e := conn.SpecimenList(ctx, opts)
		for _, it := range r.Items {
			items = append(items, c20item{it.UUID, it.ModifiedByClientUUID})
		}
		return items, r.Items == nil, e
	}
}

var c20infix = map[string]string{"collection": "4zz18", "container": "dz642", "container_request": "xvhdp", "group": "j7d0g", "specimen": "j58dm"}

func c20ctx() context.Context {
	logger := logrus.New()
	logger.Out = ioutil.Discard
	return ctxlog.Context(context.Background(), logger)
}

func c20describeFilters(fs []arvados.Filter) string {
	var parts []string
	for _, f := range fs {
		parts = append(parts, fmt.Sprintf("[%q,%q,%#v]", f.Attr, f.Operator, f.Operand))
	}
	return "[" + strings.Join(parts, ", ") + "]"
}

// c20compactFilters is c20describeFilters for call logs: long uuid lists are
// abbreviated to their length, first and last element and a checksum (the
// full request is printed once, and a backend's answer names the uuids).
func c20compactFilters(fs []arvados.Filter) string {
	var parts []string
	for _, f := range fs {
		l, ok := f.Operand.([]string)
		if li, isI := f.Operand.([]interface{}); isI && len(li) > 8 {
			for _, v := range li {
				l = append(l, fmt.Sprintf("%v", v))
			}
			ok = true
		}
		if ok && len(l) > 8 {
			// order-independent digest: smallest, largest, sum of element hashes
			lo, hi := l[0], l[0]
			var sum uint64
			for _, u := range l {
				if u < lo {
					lo = u
				}
				if u > hi {
					hi = u
				}
				h := fnv.New64a()
				h.Write([]byte(u))
				sum += h.Sum64()
			}
			parts = append(parts, fmt.Sprintf("[%q,%q,<%d uuids %s..%s #%x>]", f.Attr, f.Operator, len(l), lo, hi, sum&0xffffffff))
			continue
		}
		parts = append(parts, fmt.Sprintf("[%q,%q,%#v]", f.Attr, f.Operator, f.Operand))
	}
	return "[" + strings.Join(parts, ", ") + "]"
}

func c20has(list []string, x string) bool {
	for _, s := range list {
		if s == x {
			return true
		}
	}
	return false
}

var c20selects = [][]string{{"uuid"}, {"owner_uuid"}, {"name", "modified_by_user_uuid"}, {"uuid", "name"}, {}, {"name", "uuid"}, {"modified_by_client_uuid"}, {"modified_at", "uuid", "modified_by_client_uuid"}}

func TestVerifC20ListByUUID(t *testing.T) {
	defer stats.Flush()
	rapid.Check(t, func(t *rapid.T) {
		kind := rapid.SampledFrom([]string{"collection", "collection", "container", "container", "container_request", "group", "specimen"}).Draw(t, "kind")
		infix := c20infix[kind]
		allIDs := rapid.Permutation([]string{"zaaaa", "zbbbb", "zcccc", "zdddd", "zeeee", "abcde"}).Draw(t, "ids")
		nrem := rapid.IntRange(1, 3).Draw(t, "nremotes")
		localID := allIDs[0]
		remoteIDs := allIDs[1 : 1+nrem]
		unknownID := allIDs[1+nrem]
		known := append([]string{localID}, remoteIDs...)

		// A small share of the cases has one cluster holding 65-200 of the
		// requested objects and paging them out one or two at a time, so that
		// one backend has to be asked for more than 64 / 100 / 128 pages.
		bigID, bigN := "", 0
		if rapid.IntRange(0, 79).Draw(t, "bigSet") == 41 {
			bigID = known[rapid.IntRange(0, len(known)-1).Draw(t, "bigCluster")]
			bigN = rapid.SampledFrom([]int{65, 66, 70, 90, 100, 101, 102, 110, 127, 128, 129, 130, 131, 150, 180, 200}).Draw(t, "bigN")
		}

		// universe
		mk := func(id string, n int) string { return fmt.Sprintf("%s-%s-%015d", id, infix, n) }
		existsAt := map[string]map[string]bool{} // backend id -> uuid -> true (home objects only)
		var candidates []string                  // what requests are drawn from
		for _, id := range known {
			existsAt[id] = map[string]bool{}
			ne := rapid.IntRange(0, 6).Draw(t, "nexist-"+id)
			if id == bigID {
				ne = bigN
			} else if bigID == localID && id == remoteIDs[0] && ne == 0 {
				ne = 1 // a big local set is only interesting in a federated query
			}
			for i := 0; i < ne; i++ {
				u := mk(id, i)
				existsAt[id][u] = true
				candidates = append(candidates, u)
			}
			nn := rapid.IntRange(0, 2).Draw(t, "nmissing-"+id)
			for i := 0; i < nn; i++ {
				candidates = append(candidates, mk(id, 900+i))
			}
		}
		if len(candidates) == 0 {
			u := mk(remoteIDs[0], 0)
			existsAt[remoteIDs[0]][u] = true
			candidates = append(candidates, u)
		}
		unknownUUIDs := []string{mk(unknownID, 1), mk(unknownID, 2)}
		malformed := []string{"", "zzzzz", mk(localID, 1)[:26], mk(remoteIDs[0], 1) + "0", "not a uuid", localID + "-" + infix}

		// backends
		backends := map[string]*c20backend{}
		for bi, id := range known {
			b := &c20backend{id: id, prio: map[string]int{}, faults: map[int]string{}, everAsked: map[string]bool{}, foreverAt: -1}
			for u := range existsAt[id] {
				b.existing = append(b.existing, u)
			}
			sort.Strings(b.existing)
			// copies of foreign objects (a misrouted request would find them here)
			for _, other := range known {
				if other == id {
					continue
				}
				var theirs []string
				for u := range existsAt[other] {
					theirs = append(theirs, u)
				}
				sort.Strings(theirs)
				for _, u := range theirs {
					if rapid.IntRange(0, 3).Draw(t, fmt.Sprintf("copy-%d", bi)) == 0 {
						b.existing = append(b.existing, u)
					}
				}
			}
			sort.Strings(b.existing)
			for _, u := range b.existing {
				b.prio[u] = rapid.IntRange(0, 100).Draw(t, "prio-"+id)
			}
			b.honourSelect = rapid.IntRange(0, 9).Draw(t, "honourSelect-"+id) < 7
			paging := rapid.SampledFrom([]string{"random", "one", "random", "all", "random", "one"}).Draw(t, "paging-"+id)
			if id == bigID {
				paging = rapid.SampledFrom([]string{"one", "one", "one", "two", "one-or-two"}).Draw(t, "bigPaging")
			}
			switch paging {
			case "two":
				b.pageSizes = []int{2}
			case "one-or-two":
				b.pageSizes = rapid.SliceOfN(rapid.IntRange(1, 2), 2, 6).Draw(t, "pageSizes-"+id)
			case "all":
				b.pageSizes = []int{1000}
			case "one":
				b.pageSizes = []int{1}
			default:
				b.pageSizes = rapid.SliceOfN(rapid.IntRange(1, 4), 1, 6).Draw(t, "pageSizes-"+id)
			}
			backends[id] = b
		}

		// requested uuids
		pickSome := func(label string, pool []string, min int) []string {
			if len(pool) == 0 {
				return nil
			}
			n := rapid.IntRange(min, len(pool)).Draw(t, label+"N")
			perm := rapid.Permutation(pool).Draw(t, label)
			return append([]string(nil), perm[:n]...)
		}
		shape := rapid.SampledFrom([]string{"multi", "multi", "with-unknown", "multi", "multi", "local-only", "multi", "multi", "one-remote", "multi", "multi", "multi", "multi", "multi", "multi", "all-malformed"}).Draw(t, "requestShape")
		if bigID != "" {
			shape = "multi"
		}
		var base []string
		byHome := func(id string) []string {
			var out []string
			for _, u := range candidates {
				if u[:5] == id {
					out = append(out, u)
				}
			}
			return out
		}
		switch shape {
		case "local-only":
			base = pickSome("reqLocal", byHome(localID), 0)
		case "one-remote":
			base = pickSome("reqRemote", byHome(remoteIDs[0]), 1)
		case "all-malformed":
			base = pickSome("reqMalformed", malformed, 1)
		default:
			min := 1
			if len(candidates) >= 4 {
				min = len(candidates) / 2
			}
			if bigID != "" {
				// (nearly) everything, so that the big cluster really is asked
				// for 65+ objects
				min = len(candidates) - rapid.IntRange(0, 2).Draw(t, "bigSlack")
			}
			base = pickSome("req", candidates, min)
			if shape == "with-unknown" {
				base = append(base, pickSome("reqUnknown", unknownUUIDs, 1)...)
			}
		}
		if shape != "all-malformed" && rapid.IntRange(0, 3).Draw(t, "addMalformed") == 0 {
			base = append(base, pickSome("reqMalformed", malformed, 1)...)
		}
		if len(base) > 0 && rapid.IntRange(0, 2).Draw(t, "addDup") == 0 {
			base = append(base, base[rapid.IntRange(0, len(base)-1).Draw(t, "dupIdx")])
		}
		base = rapid.Permutation(base).Draw(t, "reqOrder")

		asOperand := func(label string, us []string) (string, interface{}) {
			if len(us) == 1 && rapid.Bool().Draw(t, label+"Eq") {
				return "=", us[0]
			}
			if rapid.Bool().Draw(t, label+"Typed") {
				return "in", append([]string(nil), us...)
			}
			var l []interface{}
			for _, u := range us {
				l = append(l, u)
			}
			if rapid.IntRange(0, 4).Draw(t, label+"NonString") == 0 {
				l = append(l, rapid.SampledFrom([]interface{}{42, nil, true, 1.5, []interface{}{"x"}}).Draw(t, label+"NonStringVal"))
			}
			return "in", l
		}
		var filters []arvados.Filter
		noUUIDFilter := rapid.IntRange(0, 39).Draw(t, "noUUIDFilter") == 17
		if !noUUIDFilter {
			op, operand := asOperand("f0", base)
			filters = append(filters, arvados.Filter{Attr: "uuid", Operator: op, Operand: operand})
			nextra := rapid.SampledFrom([]int{0, 0, 0, 1, 1, 2}).Draw(t, "extraUUIDFilters")
			if bigID != "" {
				nextra = 0
			}
			for i := 0; i < nextra; i++ {
				// a second/third uuid filter: superset, subset or overlap
				label := fmt.Sprintf("f%d", i+1)
				var us []string
				switch rapid.IntRange(0, 2).Draw(t, label+"Rel") {
				case 0:
					us = append(append([]string(nil), base...), pickSome(label+"More", candidates, 0)...)
				case 1:
					if len(base) > 0 {
						us = pickSome(label+"Sub", base, 1)
					}
				default:
					us = pickSome(label+"Any", append(append([]string(nil), candidates...), unknownUUIDs...), 0)
					if len(base) > 0 {
						us = append(us, pickSome(label+"Keep", base, (len(base)+1)/2)...)
					}
				}
				op, operand := asOperand(label, us)
				filters = append(filters, arvados.Filter{Attr: "uuid", Operator: op, Operand: operand})
			}
			filters = rapid.Permutation(filters).Draw(t, "filterOrder")
		}

		// options
		opts := arvados.ListOptions{Count: "none", Limit: -1}
		var perturb []string
		if rapid.IntRange(0, 9).Draw(t, "perturbed") >= 7 && bigID == "" {
			n := rapid.SampledFrom([]int{1, 1, 1, 2, 3}).Draw(t, "nperturb")
			for i := 0; i < n; i++ {
				p := rapid.SampledFrom([]string{"count", "limit", "offset", "order", "otherfilter", "otheroperator", "maxitems", "bypass", "forwarded", "select", "badoperand"}).Draw(t, "perturb")
				perturb = append(perturb, p)
			}
		}
		has := func(p string) bool {
			for _, x := range perturb {
				if x == p {
					return true
				}
			}
			return false
		}
		if has("count") {
			opts.Count = rapid.SampledFrom([]string{"", "exact"}).Draw(t, "count")
		}
		if has("limit") {
			opts.Limit = int64(rapid.SampledFrom([]int{0, 1, 2, 100, 1000}).Draw(t, "limit"))
		}
		if has("offset") {
			opts.Offset = int64(rapid.SampledFrom([]int{1, 2, 10}).Draw(t, "offset"))
		}
		if has("order") {
			opts.Order = []string{rapid.SampledFrom([]string{"uuid", "modified_at desc", "uuid desc"}).Draw(t, "order")}
		}
		if has("otherfilter") {
			f := arvados.Filter{Attr: rapid.SampledFrom([]string{"name", "owner_uuid", "modified_at"}).Draw(t, "otherAttr"), Operator: "=", Operand: "x"}
			pos := rapid.IntRange(0, len(filters)).Draw(t, "otherPos")
			filters = append(filters[:pos], append([]arvados.Filter{f}, filters[pos:]...)...)
		}
		if has("otheroperator") {
			f := arvados.Filter{Attr: "uuid", Operator: rapid.SampledFrom([]string{"!=", "like", "not in", "<"}).Draw(t, "otherOp"), Operand: "zzzzz-zzzzz-zzzzzzzzzzzzzzz"}
			pos := rapid.IntRange(0, len(filters)).Draw(t, "otherOpPos")
			filters = append(filters[:pos], append([]arvados.Filter{f}, filters[pos:]...)...)
		}
		if has("badoperand") {
			f := arvados.Filter{Attr: "uuid", Operator: rapid.SampledFrom([]string{"=", "in"}).Draw(t, "badOp")}
			if f.Operator == "=" {
				f.Operand = rapid.SampledFrom([]interface{}{42, nil, []interface{}{"x"}}).Draw(t, "badEq")
			} else {
				f.Operand = rapid.SampledFrom([]interface{}{42, nil, map[string]interface{}{}}).Draw(t, "badIn")
			}
			filters = append(filters, f)
		}
		// select lists: as a perturbation, and on their own in a quarter of the
		// otherwise unperturbed cases
		if has("select") || rapid.IntRange(0, 3).Draw(t, "withSelect") == 0 {
			opts.Select = append([]string{}, rapid.SampledFrom(c20selects).Draw(t, "select")...)
		}
		var origSelect []string // the caller's select list (nil: none given)
		if opts.Select != nil {
			origSelect = append([]string{}, opts.Select...)
		}
		if has("bypass") {
			opts.BypassFederation = true
		}
		if has("forwarded") {
			opts.ForwardedFor = "zqqqq-"
		}
		opts.Filters = filters

		// reference reading of the request
		reqSet, otherFilters, badOperand := c20filterSet(filters)
		var r27 []string
		byPrefix := map[string][]string{}
		for u := range reqSet {
			if len(u) == 27 {
				r27 = append(r27, u)
				byPrefix[u[:5]] = append(byPrefix[u[:5]], u)
			}
		}
		sort.Strings(r27)
		maxItems := 1000
		if has("maxitems") && len(r27) >= 2 {
			maxItems = len(r27) - 1
		} else if rapid.Bool().Draw(t, "maxAround") {
			maxItems = len(r27) + rapid.IntRange(0, 1).Draw(t, "maxSlack")
			if maxItems < 1 {
				maxItems = 1
			}
		}
		involvesUnknown, involvesRemote := false, false
		for p := range byPrefix {
			if p == localID {
				continue
			}
			involvesRemote = true
			if _, ok := backends[p]; !ok {
				involvesUnknown = true
			}
		}
		unsplittable := otherFilters || opts.Count != "none" || opts.Limit >= 0 || opts.Offset != 0 || len(opts.Order) > 0 || len(r27) > maxItems

		class := ""
		switch {
		case opts.BypassFederation || opts.ForwardedFor != "":
			class = "bypass"
		case badOperand:
			class = "bad-operand"
		case reqSet == nil:
			class = "no-uuid-filter"
		case len(r27) == 0:
			class = "nothing-can-match"
		case !involvesRemote:
			class = "local-only"
		case unsplittable && len(byPrefix) >= 2:
			class = "unsplittable-multi"
		case unsplittable:
			class = "unsplittable-one-remote"
		case involvesUnknown:
			class = "federated-unknown-cluster"
		default:
			class = "federated"
		}

		// fault plan (only where a backend will be asked for pages)
		plannedFault := ""
		faultShare := 4
		if bigID != "" {
			faultShare = 2
		}
		if rapid.IntRange(0, 9).Draw(t, "withFault") < faultShare {
			// preferably a backend that the request involves
			var pool []string
			for _, id := range known {
				if len(byPrefix[id]) > 0 {
					pool = append(pool, id)
				}
			}
			if len(pool) == 0 || rapid.IntRange(0, 7).Draw(t, "faultAnyBackend") == 0 {
				pool = known
			}
			id := pool[rapid.IntRange(0, len(pool)-1).Draw(t, "faultBackend")]
			b := backends[id]
			plannedFault = rapid.SampledFrom([]string{c20FaultError, c20FaultNoProgress, c20FaultRepeat, c20FaultError, c20FaultNoProgress, c20FaultLyingEmpty, c20FaultRepeat}).Draw(t, "fault")
			at := rapid.IntRange(0, 3).Draw(t, "faultAt")
			if id == bigID {
				// anywhere in the long sequence of pages
				at = rapid.IntRange(0, len(byPrefix[id])).Draw(t, "bigFaultAt")
			}
			if n := len(byPrefix[id]); at > n {
				at = n
			}
			if plannedFault == c20FaultNoProgress && rapid.Bool().Draw(t, "faultForever") {
				b.foreverAt = at
			} else {
				b.faults[at] = plannedFault
			}
			b.errCode = rapid.SampledFrom([]int{0, 404, 500, 502, 503, 401}).Draw(t, "faultCode")
		}

		conn := &Conn{
			cluster: &arvados.Cluster{ClusterID: localID},
			local:   backends[localID],
			remotes: map[string]backend{},
		}
		conn.cluster.API.MaxItemsPerResponse = maxItems
		for _, id := range remoteIDs {
			conn.remotes[id] = backends[id]
		}
		origFilters := c20copyFilters(filters)

		// drive; a livelock in the code under test must not hang the harness
		type result struct {
			items    []c20item
			nilItems bool
			err      error
		}
		done := make(chan result, 1)
		go func() {
			items, nilItems, err := c20run(conn, c20ctx(), kind, opts)
			done <- result{items, nilItems, err}
		}()
		// Termination is judged by the number of backend calls, never by the
		// clock: the stubs stop answering after c20HardCallLimit calls, so a
		// runaway loop ends and is then reported by the call-count bound.
		var res result
		select {
		case res = <-done:
		case <-time.After(120 * time.Second):
			t.Fatalf("VERIF-INFRA: list request did not return within 120 s\nfilters=%s", c20describeFilters(origFilters))
		}

		// collect what happened
		ncalls := map[string]int{}
		total := 0
		delivered := map[string]bool{}
		multiPage := false
		selectApplied := false
		var callLog []string
		for _, id := range known {
			b := backends[id]
			b.mu.Lock()
			ncalls[id] = len(b.calls)
			total += len(b.calls)
			if len(b.calls) > 2 || (len(b.calls) == 2 && len(b.calls[1].returned) > 0) {
				multiPage = true
			}
			for i, c := range b.calls {
				if c.fault != "" {
					delivered[c.fault] = true
				}
				callLog = append(callLog, fmt.Sprintf("%s#%d filters=%s select=%v limit=%d -> %q fault=%q", id, i, c20compactFilters(c.opts.Filters), c.opts.Select, c.opts.Limit, c.returned, c.fault))
				if c.selectApplied {
					selectApplied = true
				}
			}
			b.mu.Unlock()
		}
		describe := func() string {
			var sb strings.Builder
			fmt.Fprintf(&sb, "%s list, local=%s remotes=%v unknown=%s MaxItemsPerResponse=%d class=%s\n", kind, localID, remoteIDs, unknownID, maxItems, class)
			fmt.Fprintf(&sb, "options: filters=%s count=%q limit=%d offset=%d order=%v select=%#v bypass=%v forwardedFor=%q\n", c20describeFilters(origFilters), opts.Count, opts.Limit, opts.Offset, opts.Order, origSelect, opts.BypassFederation, opts.ForwardedFor)
			for _, id := range known {
				b := backends[id]
				fmt.Fprintf(&sb, "backend %s: has %v pageSizes=%v faults=%v honourSelect=%v\n", id, b.existing, b.pageSizes, b.faults, b.honourSelect)
			}
			fmt.Fprintf(&sb, "requested (27-char, after intersecting the uuid filters): %v\n", r27)
			fmt.Fprintf(&sb, "calls:\n  %s\n", strings.Join(callLog, "\n  "))
			fmt.Fprintf(&sb, "result: err=%v items=%v\n", res.err, res.items)
			return sb.String()
		}

		// expected answer with honest backends
		expected := map[string]bool{}
		for _, u := range r27 {
			if home, ok := existsAt[u[:5]]; ok && home[u] {
				expected[u] = true
			}
		}
		checkItemsAgainst := func(exact bool) {
			seen := map[string]int{}
			for _, it := range res.items {
				seen[it.uuid]++
				if !expected[it.uuid] {
					t.Fatalf("C20 violated: returned item %s is not among the requested objects that exist\n%s", it.uuid, describe())
				}
				if seen[it.uuid] > 1 {
					t.Fatalf("C20 violated: object %s returned %d times\n%s", it.uuid, seen[it.uuid], describe())
				}
				if it.tag == "" && selectApplied && origSelect != nil && !c20has(origSelect, "modified_by_client_uuid") {
					// the backend honoured a select list that leaves out the field
					// the harness tags items with; that each backend is only asked
					// for its own uuids is checked through the call log
				} else if it.tag != "from:"+it.uuid[:5] {
					t.Fatalf("C20 violated: object %s was obtained %s, not from the cluster named by its prefix\n%s", it.uuid, it.tag, describe())
				}
			}
			if exact {
				for u := range expected {
					if seen[u] == 0 {
						t.Fatalf("C20 violated: requested object %s exists on %s but is missing from the result\n%s", u, u[:5], describe())
					}
				}
			}
		}
		checkCallScopes := func() {
			for _, id := range known {
				b := backends[id]
				mine := map[string]bool{}
				for _, u := range byPrefix[id] {
					mine[u] = true
				}
				for i, c := range b.calls {
					if c.set == nil {
						t.Fatalf("C20 violated: call #%d to backend %s carries no uuid filter in a federated query\n%s", i, id, describe())
					}
					for u := range c.set {
						if !mine[u] {
							t.Fatalf("C20 violated: call #%d to backend %s asks for %q, which is not one of that cluster's requested uuids\n%s", i, id, u, describe())
						}
					}
				}
				if len(b.calls) > len(byPrefix[id])+1 {
					t.Fatalf("C20 violated: backend %s was called %d times for %d requested uuids (bound: n+1)\n%s", id, len(b.calls), len(byPrefix[id]), describe())
				}
			}
		}
		checkSingleLocalCall := func() {
			for _, id := range remoteIDs {
				if ncalls[id] != 0 {
					t.Fatalf("C20 violated: %s query called remote backend %s\n%s", class, id, describe())
				}
			}
			if ncalls[localID] != 1 {
				t.Fatalf("C20 violated: %s query made %d calls to the local backend, want exactly 1\n%s", class, ncalls[localID], describe())
			}
			c := backends[localID].calls[0]
			if !reflect.DeepEqual(c.opts.Filters, origFilters) || c.opts.Limit != opts.Limit || c.opts.Offset != opts.Offset || c.opts.Count != opts.Count || !reflect.DeepEqual(c.opts.Order, append([]string(nil), opts.Order...)) {
				t.Fatalf("C20 violated: %s query was not passed to the local backend with its original filters/limit/offset/count/order\n%s", class, describe())
			}
			if res.err == nil {
				var got, want []string
				for _, it := range res.items {
					got = append(got, it.uuid)
				}
				want = append(want, c.returned...)
				sort.Strings(got)
				sort.Strings(want)
				if !reflect.DeepEqual(got, want) {
					t.Fatalf("C20 violated: %s query: result differs from what the local backend returned\n%s", class, describe())
				}
			}
		}

		labels := []string{"class:" + class, "kind:" + kind, "shape:" + shape, fmt.Sprintf("clusters-involved:%d", len(byPrefix))}
		if delivered[c20FaultError] && res.err == nil {
			t.Fatalf("C20 violated: a backend returned an error but the list request succeeded\n%s", describe())
		}
		if origSelect != nil {
			labels = append(labels, fmt.Sprintf("select:%q", origSelect))
			if !c20has(origSelect, "uuid") {
				labels = append(labels, "select-without-uuid")
			}
			if selectApplied {
				labels = append(labels, "select-honoured-by-a-backend")
				if class == "federated" {
					labels = append(labels, "select-honoured-in-federated-query")
					if !c20has(origSelect, "uuid") {
						labels = append(labels, "select-without-uuid-honoured-in-federated-query")
					}
				}
			}
		}
		if bigID != "" {
			labels = append(labels, "big:case", fmt.Sprintf("big:requested-from-one-cluster>=%d", len(byPrefix[bigID])/32*32))
			if bigID == localID {
				labels = append(labels, "big:cluster-is-local")
			} else {
				labels = append(labels, "big:cluster-is-remote")
			}
			for _, n := range []int{64, 100, 128} {
				if ncalls[bigID] > n {
					labels = append(labels, fmt.Sprintf("big:pages>%d", n))
				}
			}
		}
		switch class {
		case "bypass", "no-uuid-filter", "local-only":
			checkSingleLocalCall()
		case "bad-operand":
			// the property does not speak about ill-typed operands; adopt the
			// outcome, but nothing that does not exist may be returned
			if res.err == nil && !opts.BypassFederation {
				for _, it := range res.items {
					if len(it.uuid) != 27 {
						continue // uuid not selected by the caller
					}
					if h, ok := existsAt[it.uuid[:5]]; !ok || !h[it.uuid] {
						t.Fatalf("C20 violated: item %s returned but does not exist\n%s", it.uuid, describe())
					}
				}
			}
		case "nothing-can-match":
			if res.err == nil && len(res.items) != 0 {
				t.Fatalf("C20 violated: no well-formed uuid was requested but %d items were returned\n%s", len(res.items), describe())
			}
		case "unsplittable-multi":
			if res.err == nil {
				t.Fatalf("C20 violated: a query over several clusters that cannot be split safely was not rejected\n%s", describe())
			}
			if total != 0 {
				t.Fatalf("C20 violated: unsplittable query was rejected only after %d backend call(s)\n%s", total, describe())
			}
		case "unsplittable-one-remote":
			// one remote cluster only: the property names queries that span
			// several clusters. Rejection must still come before any call; a
			// successful answer must at least be sound.
			if res.err != nil && total != 0 && !delivered[c20FaultError] && !delivered[c20FaultNoProgress] {
				t.Fatalf("C20 violated: query was rejected (%v) after %d backend call(s)\n%s", res.err, total, describe())
			}
			if res.err == nil {
				checkItemsAgainst(false)
			}
		case "federated-unknown-cluster":
			if res.err == nil {
				t.Fatalf("C20 violated: a requested uuid names an unknown cluster but the request succeeded\n%s", describe())
			}
			checkCallScopes()
		case "federated":
			checkCallScopes()
			switch {
			case delivered[c20FaultError] || delivered[c20FaultNoProgress]:
				if res.err == nil {
					t.Fatalf("C20 violated: a backend failed or answered without progress, but the request succeeded with %d items\n%s", len(res.items), describe())
				}
			case delivered[c20FaultRepeat]:
				// outside the stated paging behaviours: termination only
			case delivered[c20FaultLyingEmpty]:
				// an empty page means "nothing more": undetectable; the result
				// must still be sound
				if res.err == nil {
					checkItemsAgainst(false)
				}
			default:
				if res.err != nil {
					t.Fatalf("C20 violated: all backends answered honestly but the request failed: %v\n%s", res.err, describe())
				}
				checkItemsAgainst(true)
				labels = append(labels, "honest-exactly-once-checked")
				if bigID != "" {
					labels = append(labels, "big:honest-exactly-once-checked")
				}
				if selectApplied {
					labels = append(labels, "select-honoured:honest-exactly-once-checked")
				}
			}
		}

		for f := range delivered {
			labels = append(labels, "fault-delivered:"+f)
		}
		if res.err != nil {
			labels = append(labels, "outcome:error")
		} else {
			labels = append(labels, "outcome:ok")
		}
		if multiPage {
			labels = append(labels, "multi-page")
		}
		if len(filters) > 1 {
			labels = append(labels, "several-filters")
		}
		if reqSet != nil && !noUUIDFilter {
			first, _, _ := c20filterSet(filters[:1])
			if first != nil && len(reqSet) < len(first) {
				labels = append(labels, "intersection-narrows")
			}
		}
		for _, u := range r27 {
			if !expected[u] {
				labels = append(labels, "requests-missing-object")
				break
			}
		}
		for _, p := range perturb {
			labels = append(labels, "opt:"+p)
		}
		if _, ok := byPrefix[localID]; ok && involvesRemote {
			labels = append(labels, "local-and-remote-mixed")
		}
		nontrivial := false
		switch class {
		case "federated":
			nontrivial = len(byPrefix) >= 2 && (multiPage || len(delivered) > 0)
		case "unsplittable-multi", "federated-unknown-cluster":
			nontrivial = true
		}
		stats.Case(stats.FP(kind, c20describeFilters(origFilters), opts.Count, opts.Limit, opts.Offset, opts.Order, fmt.Sprintf("%#v", origSelect), maxItems, class, callLog), nontrivial, labels...)
		if stats.WantSample("class:" + class) {
			sampleCalls := callLog
			if len(sampleCalls) > 12 {
				sampleCalls = append(append([]string(nil), callLog[:6]...), fmt.Sprintf("... %d more calls ...", len(callLog)-6))
			}
			stats.Sample("class:"+class, map[string]interface{}{"filters": c20compactFilters(origFilters), "select": origSelect, "maxItems": maxItems, "calls": sampleCalls, "err": fmt.Sprint(res.err), "nitems": len(res.items)})
		}
	})
}
