package auth

// C19 level (i): auth.SaltToken against the reference salt
// (hex HMAC-SHA1 keyed with the secret over the remote cluster id).

import (
	"fmt"
	"strings"
	"testing"

	"pgregory.net/rapid"
	"verif.local/vcommon/c19"
	"verif.local/vcommon/ref"
	"verif.local/vcommon/stats"
)

const c19KnownKey = "c19-40char-nonhex-secret"

func c19ErrName(err error) string {
	switch err {
	case nil:
		return "nil"
	case ErrSalted:
		return "ErrSalted"
	case ErrObsoleteToken:
		return "ErrObsoleteToken"
	case ErrTokenFormat:
		return "ErrTokenFormat"
	}
	return "other:" + err.Error()
}

func c19LenBand(n int) string {
	switch {
	case n < 39:
		return "len<39"
	case n > 41:
		return "len>41"
	}
	return fmt.Sprintf("len=%d", n)
}

// c19SaltedRule is what the property says about a token whose secret is
// already a salt: returned as it is when it belongs to r, ErrSalted otherwise.
func c19SaltedRule(t *rapid.T, what, tok, uuid, r string) {
	got, err := SaltToken(tok, r)
	if c19.BelongsTo(uuid, r) {
		if err != nil || got != tok {
			t.Fatalf("%s: SaltToken(%q, %q) = (%q, %s); the secret is already a salt and the token belongs to %q: want it back unchanged",
				what, tok, r, got, c19ErrName(err), r)
		}
	} else if err != ErrSalted || got != "" {
		t.Fatalf("%s: SaltToken(%q, %q) = (%q, %s); the secret is already a salt for another cluster: want (\"\", ErrSalted)",
			what, tok, r, got, c19ErrName(err))
	}
}

func TestVerifC19SaltToken(t *testing.T) {
	defer stats.Flush()
	rapid.Check(t, func(t *rapid.T) {
		ids := c19.DrawDistinctIDs(t, 3, "id")
		remote, other := ids[0], ids[1]
		tk := c19.DrawToken(t, ids, "tok")

		got, err := SaltToken(tk.Raw, remote)
		got2, err2 := SaltToken(tk.Raw, remote)
		if got != got2 || err != err2 {
			t.Fatalf("not deterministic: SaltToken(%q, %q) = (%q, %s) then (%q, %s)", tk.Raw, remote, got, c19ErrName(err), got2, c19ErrName(err2))
		}
		labels := []string{"kind=" + tk.Kind.String()}
		known := false

		switch tk.Kind {
		case c19.KindLegacy:
			if err != ErrObsoleteToken || got != "" {
				t.Fatalf("SaltToken(%q, %q) = (%q, %s); legacy-format token: want (\"\", ErrObsoleteToken)", tk.Raw, remote, got, c19ErrName(err))
			}
		case c19.KindOpaque:
			if err != ErrTokenFormat || got != "" {
				t.Fatalf("SaltToken(%q, %q) = (%q, %s); not an Arvados token: want (\"\", ErrTokenFormat)", tk.Raw, remote, got, c19ErrName(err))
			}
		case c19.KindV2:
			class := tk.SecretClass()
			belongs := c19.BelongsTo(tk.UUID, remote)
			labels = append(labels, "secret="+class, c19LenBand(len(tk.Secret)), fmt.Sprintf("belongs-to-remote=%v", belongs), fmt.Sprintf("extra-segments=%v", tk.Extra))
			want := c19.Salted(tk.UUID, tk.Secret, remote)
			saltedOutcome := func() bool { return err == nil && got == want }
			switch class {
			case "salt":
				c19SaltedRule(t, "presented salt", tk.Raw, tk.UUID, remote)
				c19SaltedRule(t, "presented salt, other remote", tk.Raw, tk.UUID, other)
			case "salt?":
				// 40 hex digits with upper-case letters: either reading is accepted.
				if !saltedOutcome() {
					c19SaltedRule(t, "upper-case 40-hex secret treated as a salt", tk.Raw, tk.UUID, remote)
					labels = append(labels, "upperhex40=as-salt")
				} else {
					labels = append(labels, "upperhex40=salted")
				}
			default:
				if !saltedOutcome() {
					msg := fmt.Sprintf("SaltToken(%q, %q) = (%q, %s); secret %q (%d chars) is not a 40-hex salt: want (%q, nil)",
						tk.Raw, remote, got, c19ErrName(err), tk.Secret, len(tk.Secret), want)
					// Narrow classifier: 40-character non-hex secret taken for a salt
					// (returned unchanged, or ErrSalted) – nothing else.
					treatedAsSalt := (err == nil && got == tk.Raw) || (err == ErrSalted && got == "")
					if tk.In40NonHexRegion() && treatedAsSalt && stats.Known(c19KnownKey, msg) {
						known = true
						labels = append(labels, "known:"+c19KnownKey)
						break
					}
					t.Fatalf("%s", msg)
				}
				// uuid kept, secret replaced by 40 lower-case hex digits, extra segments dropped
				seg := strings.Split(got, "/")
				if len(seg) != 3 || seg[0] != "v2" || seg[1] != tk.UUID || !ref.IsHex40(seg[2]) || seg[2] != strings.ToLower(seg[2]) {
					t.Fatalf("SaltToken(%q, %q) = %q: not of the form v2/<same uuid>/<40 hex>", tk.Raw, remote, got)
				}
				if strings.Contains(got, tk.Secret) && len(tk.Secret) >= 8 {
					t.Fatalf("SaltToken(%q, %q) = %q still contains the secret", tk.Raw, remote, got)
				}
				// never salted twice: the result is a salt for every cluster
				c19SaltedRule(t, "re-salting for the same remote", got, tk.UUID, remote)
				c19SaltedRule(t, "re-salting for another remote", got, tk.UUID, other)
				// a salt for R is not the salt for a third cluster
				gotOther, errOther := SaltToken(tk.Raw, other)
				if errOther != nil || gotOther != c19.Salted(tk.UUID, tk.Secret, other) {
					t.Fatalf("SaltToken(%q, %q) = (%q, %s), want %q", tk.Raw, other, gotOther, c19ErrName(errOther), c19.Salted(tk.UUID, tk.Secret, other))
				}
				if gotOther == got {
					t.Fatalf("salt for %q equals salt for %q: %q", remote, other, got)
				}
			}
		}
		nontrivial := tk.Kind != c19.KindOpaque
		stats.Case(stats.FP(tk.Raw, remote, other), nontrivial, labels...)
		lab := labels[0]
		if tk.Kind == c19.KindV2 {
			lab = "v2/" + tk.SecretClass()
		}
		if known {
			lab = "known"
		}
		if stats.WantSample(lab) {
			stats.Sample(lab, map[string]interface{}{"token": tk.Raw, "remote": remote, "result": got, "err": c19ErrName(err)})
		}
	})
}
