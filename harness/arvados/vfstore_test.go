package arvados

// In-memory Keep stub (keepClient + apiClient of the collection filesystem)
// with a fault plan, used by the C08/C09/C10/C13 harnesses.

import (
	"crypto/md5"
	"errors"
	"fmt"
	"io"
	"io/ioutil"
	"runtime"
	"sync"
	"time"
)

var errVfInjected = errors.New("verif: injected Keep write failure")

type vfPut struct {
	locator string
	n       int
	inSave  bool
	failed  bool
}

type vfStore struct {
	mu     sync.Mutex
	blocks map[string][]byte // 32-hex hash -> content
	issued map[string]bool   // locators returned by successful PutB
	puts   []vfPut
	// fault plan
	failNth     map[int]bool // 1-based index among all PutB calls
	failRatePct int          // 0..100, decided by failBits
	failBits    []bool       // pre-drawn decisions, consumed round-robin
	failBitIdx  int
	onlyBg      bool // inject only into writes started outside a save
	onlySave    bool // inject only into writes started during a save
	healed      bool
	failShape   int // what a failing PutB returns besides the error
	slowPuts    int // >0: every PutB yields this many times first, so that writes overlap
	inSave      bool
	nFailed     int
	nFailedSave int // failures injected into writes that started during the current save
	// apiClient capture
	syncTexts []string
	// optional gate (C13): when non-nil every PutB parks until released
	gate func(p []byte) error
}

func newVfStore() *vfStore {
	return &vfStore{blocks: map[string][]byte{}, issued: map[string]bool{}, failNth: map[int]bool{}}
}

func (s *vfStore) addBlocks(m map[string][]byte) {
	s.mu.Lock()
	defer s.mu.Unlock()
	for h, b := range m {
		s.blocks[h] = b
	}
}

func (s *vfStore) setInSave(v bool) {
	s.mu.Lock()
	defer s.mu.Unlock()
	s.inSave = v
	if v {
		s.nFailedSave = 0
	}
}

func (s *vfStore) heal() {
	s.mu.Lock()
	defer s.mu.Unlock()
	s.healed = true
}

func (s *vfStore) ReadAt(locator string, p []byte, off int) (int, error) {
	s.mu.Lock()
	defer s.mu.Unlock()
	if len(locator) < 32 {
		return 0, fmt.Errorf("verif store: bad locator %q", locator)
	}
	blk, ok := s.blocks[locator[:32]]
	if !ok {
		return 0, fmt.Errorf("verif store: block %q not found", locator)
	}
	if off > len(blk) {
		return 0, io.ErrUnexpectedEOF
	}
	n := copy(p, blk[off:])
	if n < len(p) {
		return n, io.ErrUnexpectedEOF
	}
	return n, nil
}

func (s *vfStore) PutB(p []byte) (string, int, error) {
	for i := 0; i < s.slowPuts; i++ {
		runtime.Gosched()
		if i%8 == 7 {
			time.Sleep(20 * time.Microsecond)
		}
	}
	if g := s.gate; g != nil {
		if err := g(p); err != nil {
			return "", 0, err
		}
	}
	s.mu.Lock()
	defer s.mu.Unlock()
	idx := len(s.puts) + 1
	inSave := s.inSave
	fail := false
	if !s.healed {
		if s.failNth[idx] {
			fail = true
		} else if s.failRatePct > 0 && len(s.failBits) > 0 {
			fail = s.failBits[s.failBitIdx%len(s.failBits)]
			s.failBitIdx++
		}
		if fail && s.onlyBg && inSave {
			fail = false
		}
		if fail && s.onlySave && !inSave {
			fail = false
		}
	}
	if fail {
		s.puts = append(s.puts, vfPut{n: len(p), inSave: inSave, failed: true})
		s.nFailed++
		if inSave {
			s.nFailedSave++
		}
		// A failed Keep write may still report some replicas and a
		// locator (keepclient returns the count actually stored together
		// with InsufficientReplicasError); the block is not stored here,
		// and the error is what counts.
		switch s.failShape % 3 {
		case 1:
			return "", 1, errVfInjected
		case 2:
			return fmt.Sprintf("%x+%d", md5.Sum(p), len(p)), 1, errVfInjected
		}
		return "", 0, errVfInjected
	}
	h := fmt.Sprintf("%x", md5.Sum(p))
	// a signature-like hint, as a real Keep service would return
	loc := fmt.Sprintf("%s+%d+A%s@6f000000", h, len(p), h[:20]+h[:20])
	s.blocks[h] = append([]byte(nil), p...)
	s.issued[loc] = true
	s.puts = append(s.puts, vfPut{locator: loc, n: len(p), inSave: inSave})
	return loc, 1, nil
}

func (s *vfStore) LocalLocator(locator string) (string, error) { return locator, nil }

// RequestAndDecode implements apiClient: it records collection updates sent
// by Sync().
func (s *vfStore) RequestAndDecode(dst interface{}, method, path string, body io.Reader, params interface{}) error {
	if body != nil {
		ioutil.ReadAll(body)
	}
	if m, ok := params.(map[string]interface{}); ok {
		if c, ok := m["collection"].(map[string]string); ok {
			s.mu.Lock()
			s.syncTexts = append(s.syncTexts, c["manifest_text"])
			s.mu.Unlock()
		}
	}
	return nil
}

func (s *vfStore) snapshotBlocks() map[string][]byte {
	s.mu.Lock()
	defer s.mu.Unlock()
	out := make(map[string][]byte, len(s.blocks))
	for h, b := range s.blocks {
		out[h] = b
	}
	return out
}

func (s *vfStore) wasIssued(loc string) bool {
	s.mu.Lock()
	defer s.mu.Unlock()
	return s.issued[loc]
}

func (s *vfStore) counts() (puts, failed, failedSave int) {
	s.mu.Lock()
	defer s.mu.Unlock()
	return len(s.puts), s.nFailed, s.nFailedSave
}
