package arvados

// C10 (collection-filesystem loader, PortableDataHash, SizedDigests):
// agreement with the reference interpreter, and rejection / no-panic on
// malformed input.

import (
	"bytes"
	"fmt"
	"os"
	"strings"
	"testing"

	"pgregory.net/rapid"
	"verif.local/vcommon/mgen"
	"verif.local/vcommon/ref"
	"verif.local/vcommon/stats"
)

type vfSeg struct {
	Loc      string
	Off, Len int64
}

func vfNormSegs(in []vfSeg) []vfSeg {
	var out []vfSeg
	for _, s := range in {
		if s.Len == 0 {
			continue
		}
		if n := len(out); n > 0 && out[n-1].Loc == s.Loc && out[n-1].Off+out[n-1].Len == s.Off {
			out[n-1].Len += s.Len
			continue
		}
		out = append(out, s)
	}
	return out
}

func TestVerifC10Loader(t *testing.T) {
	defer stats.Flush()
	rapid.Check(t, func(t *rapid.T) {
		m := mgen.Gen(t, mgen.GenOpts{Signed: rapid.Bool().Draw(t, "signed"), BigStreams: rapid.IntRange(0, 5).Draw(t, "bigStreams") == 0})
		txt := m.Text()
		refp, err := mgen.Interpret(txt, mgen.Options{})
		if err != nil {
			t.Fatalf("VERIF-INFRA: generator produced a manifest the reference rejects: %v\n%q", err, txt)
		}
		store := newVfStore()
		store.addBlocks(m.Store())
		fs, err := (&Collection{ManifestText: txt}).FileSystem(store, store)
		if err != nil {
			t.Fatalf("valid manifest rejected by the collection filesystem loader: %v\n%q", err, txt)
		}
		content := m.Content()
		for _, p := range refp.Paths {
			f, err := fs.OpenFile(p, os.O_RDONLY, 0)
			if err != nil {
				t.Fatalf("open %q: %v\n%q", p, err, txt)
			}
			fn, ok := f.(*filehandle).inode.(*filenode)
			if !ok {
				t.Fatalf("%q is not a regular file\n%q", p, txt)
			}
			var segs []vfSeg
			for _, s := range fn.segments {
				ss, ok := s.(storedSegment)
				if !ok {
					t.Fatalf("%q: unexpected segment type %T", p, s)
				}
				if ss.offset+ss.length > ss.size {
					t.Fatalf("%q: segment %+v exceeds its block", p, ss)
				}
				segs = append(segs, vfSeg{ss.locator, int64(ss.offset), int64(ss.length)})
			}
			var want []vfSeg
			for _, s := range refp.Segs[p] {
				want = append(want, vfSeg{s.Loc, s.Off, s.Len})
			}
			if g, w := vfNormSegs(segs), vfNormSegs(want); fmt.Sprint(g) != fmt.Sprint(w) {
				t.Fatalf("path %q: loader segments %v, reference %v\nmanifest %q", p, g, w, txt)
			}
			bufsize := rapid.IntRange(1, 9).Draw(t, "bufsize")
			got, err := vfReadAll(f, bufsize)
			if err != nil || !bytes.Equal(got, content[p]) {
				t.Fatalf("path %q read with %d-byte buffer: %q (err %v), want %q\nmanifest %q", p, bufsize, got, err, content[p], txt)
			}
			if f.Size() != int64(len(content[p])) {
				t.Fatalf("path %q: Size %d, want %d", p, f.Size(), len(content[p]))
			}
			f.Close()
		}
		// nothing else exists
		var count func(dir string) int
		count = func(dir string) int {
			f, err := fs.OpenFile(dir, os.O_RDONLY, 0)
			if err != nil {
				t.Fatalf("open dir %q: %v", dir, err)
			}
			defer f.Close()
			ents, err := f.Readdir(-1)
			if err != nil {
				t.Fatalf("readdir %q: %v", dir, err)
			}
			n := 0
			for _, e := range ents {
				if e.IsDir() {
					n += count(dir + "/" + e.Name())
				} else {
					n++
				}
			}
			return n
		}
		if n := count("."); n != len(refp.Paths) {
			t.Fatalf("loader created %d files, manifest has %d: %q", n, len(refp.Paths), txt)
		}
		// PDH and SizedDigests
		if got, want := PortableDataHash(txt), ref.PDH(txt); got != want {
			t.Fatalf("PortableDataHash = %q, reference %q\nmanifest %q", got, want, txt)
		}
		sds, err := (&Collection{ManifestText: txt}).SizedDigests()
		if err != nil {
			t.Fatalf("SizedDigests: %v\n%q", err, txt)
		}
		var wantSD []string
		for _, s := range refp.Streams {
			for _, l := range s.Locators {
				wantSD = append(wantSD, ref.StripHints(l))
			}
		}
		var gotSD []string
		for _, sd := range sds {
			gotSD = append(gotSD, string(sd))
		}
		if fmt.Sprint(gotSD) != fmt.Sprint(wantSD) {
			t.Fatalf("SizedDigests = %v, reference %v\nmanifest %q", gotSD, wantSD, txt)
		}
		f := m.Features()
		stats.Case(stats.FP("loader", txt), f.NonTrivial(), f.Labels()...)
		if f.NonTrivial() && stats.WantSample("loader") {
			stats.Sample("loader", txt)
		}
	})
}

// vfMutate applies one single-token mutation and says whether the result is
// in a class the loader is documented (TestBrokenManifests, loadManifest) to
// reject.
func vfMutate(t *rapid.T, m *mgen.Manifest) (string, string, bool) {
	txt := m.Text()
	lines := strings.Split(strings.TrimSuffix(txt, "\n"), "\n")
	li := rapid.IntRange(0, len(lines)-1).Draw(t, "mutLine")
	toks := strings.Split(lines[li], " ")
	nblk := len(m.Streams[li].Blocks)
	join := func() string {
		lines[li] = strings.Join(toks, " ")
		return strings.Join(lines, "\n") + "\n"
	}
	fileIdx := 1 + nblk + rapid.IntRange(0, len(toks)-nblk-2).Draw(t, "mutFile")
	blkIdx := 1 + rapid.IntRange(0, nblk-1).Draw(t, "mutBlk")
	kind := rapid.SampledFrom([]string{"no-locators", "no-file-tokens", "non-numeric-pos", "non-numeric-size", "past-end", "empty-past-end", "locator-without-size", "no-final-newline", "file-dir-conflict", "negative-pos", "drop-token", "dup-token", "swap-tokens", "change-char", "double-space", "blank-line", "empty-stream-name", "huge-number", "wraparound"}).Draw(t, "mutKind")
	switch kind {
	case "no-locators":
		toks = append(toks[:1], toks[1+nblk:]...)
		return join(), kind, true
	case "no-file-tokens":
		toks = toks[:1+nblk]
		return join(), kind, true
	case "non-numeric-pos":
		parts := strings.SplitN(toks[fileIdx], ":", 3)
		toks[fileIdx] = "x" + parts[0] + ":" + parts[1] + ":" + parts[2]
		return join(), kind, true
	case "non-numeric-size":
		parts := strings.SplitN(toks[fileIdx], ":", 3)
		toks[fileIdx] = parts[0] + ":" + parts[1] + "z:" + parts[2]
		return join(), kind, true
	case "negative-pos":
		parts := strings.SplitN(toks[fileIdx], ":", 3)
		toks[fileIdx] = "-1:" + parts[1] + ":" + parts[2]
		return join(), kind, true
	case "past-end":
		parts := strings.SplitN(toks[fileIdx], ":", 3)
		toks[fileIdx] = fmt.Sprintf("%d:%d:%s", m.Streams[li].Len(), 1+rapid.IntRange(0, 5).Draw(t, "pastBy"), parts[2])
		return join(), kind, true
	case "empty-past-end":
		// a zero-length file token that starts beyond the end of the stream
		parts := strings.SplitN(toks[fileIdx], ":", 3)
		toks[fileIdx] = fmt.Sprintf("%d:0:%s", m.Streams[li].Len()+1+int64(rapid.IntRange(0, 100).Draw(t, "pastBy0")), parts[2])
		return join(), kind, true
	case "wraparound":
		parts := strings.SplitN(toks[fileIdx], ":", 3)
		w := rapid.SampledFrom([]string{"18446744073709551615:1", "9223372036854775807:1", "9223372036854775807:9223372036854775807", "9223372036854775806:2", "1:9223372036854775807", "4611686018427387904:4611686018427387904"}).Draw(t, "wrap")
		toks[fileIdx] = w + ":" + parts[2]
		return join(), kind, true
	case "huge-number":
		parts := strings.SplitN(toks[fileIdx], ":", 3)
		toks[fileIdx] = "99999999999999999999999:" + parts[1] + ":" + parts[2]
		return join(), kind, true
	case "locator-without-size":
		toks[blkIdx] = toks[blkIdx][:32]
		return join(), kind, true
	case "no-final-newline":
		return strings.TrimSuffix(txt, "\n"), kind, true
	case "file-dir-conflict":
		// add a stream that uses an existing file path as a directory
		p := m.Paths()[rapid.IntRange(0, len(m.Paths())-1).Draw(t, "conflictPath")]
		return txt + mgen.EscapeStd(p) + " d41d8cd98f00b204e9800998ecf8427e+0 0:0:zz\n", kind, true
	case "drop-token":
		i := rapid.IntRange(0, len(toks)-1).Draw(t, "dropIdx")
		toks = append(toks[:i:i], toks[i+1:]...)
		return join(), kind, false
	case "dup-token":
		i := rapid.IntRange(0, len(toks)-1).Draw(t, "dupIdx")
		toks = append(toks[:i+1:i+1], toks[i:]...)
		return join(), kind, false
	case "swap-tokens":
		i := rapid.IntRange(0, len(toks)-1).Draw(t, "swapI")
		j := rapid.IntRange(0, len(toks)-1).Draw(t, "swapJ")
		toks[i], toks[j] = toks[j], toks[i]
		return join(), kind, false
	case "change-char":
		s := join()
		i := rapid.IntRange(0, len(s)-1).Draw(t, "charIdx")
		c := rapid.SampledFrom([]byte{' ', '\n', ':', '+', '\\', '/', '.', '0', 'x', 0, 0xff, '-'}).Draw(t, "char")
		return s[:i] + string([]byte{c}) + s[i+1:], kind, false
	case "double-space":
		i := rapid.IntRange(1, len(toks)-1).Draw(t, "dblIdx")
		toks[i] = " " + toks[i]
		return join(), kind, false
	case "blank-line":
		return txt + "\n", kind, false
	case "empty-stream-name":
		toks[0] = ""
		return join(), kind, true
	}
	return txt, "none", false
}

func TestVerifC10LoaderMalformed(t *testing.T) {
	defer stats.Flush()
	rapid.Check(t, func(t *rapid.T) {
		var txt, kind string
		var mustReject bool
		if rapid.IntRange(0, 3).Draw(t, "arbitrary") == 0 {
			alphabet := []rune(" \n:+\\/.0123456789abcdef-x\x00é")
			txt = rapid.StringOfN(rapid.RuneFrom(alphabet), 0, 60, -1).Draw(t, "bytes")
			if rapid.Bool().Draw(t, "withLocator") {
				txt = ". d41d8cd98f00b204e9800998ecf8427e+0 " + txt
			}
			kind = "arbitrary-bytes"
		} else {
			m := mgen.Gen(t, mgen.GenOpts{Signed: true})
			txt, kind, mustReject = vfMutate(t, m)
		}
		store := newVfStore()
		done := make(chan struct{})
		var fs CollectionFileSystem
		var err error
		var pdh string
		var sdErr error
		go func() {
			defer close(done)
			defer func() {
				if r := recover(); r != nil {
					err = fmt.Errorf("PANIC: %v", r)
				}
			}()
			fs, err = (&Collection{ManifestText: txt}).FileSystem(store, store)
			pdh = PortableDataHash(txt)
			_, sdErr = (&Collection{ManifestText: txt}).SizedDigests()
		}()
		<-done
		_ = sdErr
		if err != nil && strings.HasPrefix(err.Error(), "PANIC") {
			t.Fatalf("%s: parser panicked on %q: %v", kind, txt, err)
		}
		if pdh != ref.PDH(txt) && kind != "arbitrary-bytes" {
			// PDH is defined for any text made of space/newline separated tokens
			if _, perr := mgen.Interpret(txt, mgen.Options{DirMarkers: true, WideNames: true}); perr == nil {
				t.Fatalf("%s: PortableDataHash(%q) = %q, reference %q", kind, txt, pdh, ref.PDH(txt))
			}
		}
		if (err == nil) != (fs != nil) {
			t.Fatalf("%s: FileSystem(%q) returned fs=%v err=%v (partially applied?)", kind, txt, fs != nil, err)
		}
		if mustReject && err == nil {
			t.Fatalf("%s: malformed manifest accepted: %q", kind, txt)
		}
		if err == nil {
			// whatever was accepted must be usable without panicking
			if _, merr := fs.MarshalManifest("."); merr != nil {
				_ = merr
			}
		}
		stats.Case(stats.FP("malformed", txt), mustReject || kind == "arbitrary-bytes", "mutation:"+kind)
		if stats.WantSample("mutation:" + kind) {
			stats.Sample("mutation:"+kind, map[string]interface{}{"text": txt, "rejected": err != nil})
		}
	})
}
