package arvados

import (
	"fmt"
	"regexp"
	"strings"
	"testing"
	"time"

	"pgregory.net/rapid"
	"verif.local/vcommon/mgen"
	"verif.local/vcommon/ref"
	"verif.local/vcommon/stats"
)

var c07SigHint = regexp.MustCompile(`\+A[^+]*`)

// C07, last clause: signing a manifest replaces the signature on every block
// locator while leaving stream names, file tokens, other hints and whitespace
// unchanged.
func TestVerifC07SignManifest(t *testing.T) {
	defer stats.Flush()
	rapid.Check(t, func(t *rapid.T) {
		huge := rapid.IntRange(0, 59).Draw(t, "hugeLine") == 0
		m := mgen.Gen(t, mgen.GenOpts{Signed: true, HugeLine: huge, BigStreams: rapid.IntRange(0, 7).Draw(t, "bigStreams") == 0})
		txt := m.Text()
		token := c07Token(t, "token")
		key := c07Key(t, "key")
		ttl := c07TTL(t, "ttl")
		expiry := time.Now().Add(time.Duration(c07Delta(t, "delta", true)) * time.Second)
		expHex := fmt.Sprintf("%08x", expiry.Unix())
		out := SignManifest(txt, token, expiry, time.Duration(ttl)*time.Second, key)
		inToks, inSeps := mgen.Tokens(txt)
		outToks, outSeps := mgen.Tokens(out)
		if len(inToks) != len(outToks) || strings.Join(inSeps, "|") != strings.Join(outSeps, "|") {
			t.Fatalf("SignManifest changed token count or whitespace\nin  %q\nout %q", txt, out)
		}
		nloc, nresigned := 0, 0
		li, ti := 0, 0 // line index / token index within line, to tell stream names from the rest
		for i, tok := range inToks {
			isLoc := ti > 0 && ref.IsLocatorToken(tok) && !strings.Contains(tok, ":")
			if !isLoc {
				if outToks[i] != tok {
					t.Fatalf("SignManifest changed non-locator token %q to %q\nin  %q\nout %q", tok, outToks[i], txt, out)
				}
			} else {
				nloc++
				stripped := c07SigHint.ReplaceAllString(tok, "")
				if stripped != tok {
					nresigned++
				}
				hash := tok[:32]
				want := stripped + "+A" + ref.BlobSignature(key, hash, token, expHex, ref.TTLHex(ttl)) + "@" + expHex
				if outToks[i] != want {
					t.Fatalf("SignManifest: locator %q became %q, want %q (old signature removed, other hints kept in order, new signature appended)", tok, outToks[i], want)
				}
				if err := VerifySignature(outToks[i], token, time.Duration(ttl)*time.Second, key); err != nil {
					t.Fatalf("locator %q produced by SignManifest does not verify: %v", outToks[i], err)
				}
			}
			if strings.Contains(inSeps[i], "\n") {
				li++
				ti = 0
			} else {
				ti++
			}
		}
		f := m.Features()
		stats.Case(stats.FP("signmanifest", txt, token, string(key), ttl, expHex), true, "sign-manifest", fmt.Sprintf("resigned>0=%v", nresigned > 0), fmt.Sprintf("escaped-names=%v", f.EscapedName), fmt.Sprintf("line>64KiB=%v", huge))
		stats.InfoAdd("c07_manifest_locators_checked", int64(nloc))
		if stats.WantSample("sign-manifest") {
			stats.Sample("sign-manifest", map[string]string{"in": txt, "out": out, "token": token})
		}
	})
}
