package arvados

// Model-based state machine for the collection filesystem, shared by C08
// (behaves like an in-memory filesystem) and C09 (saved manifests reproduce
// the tree and reference only stored blocks).
//
// The model is a plain tree of byte slices; handles are bound to model inodes
// (not paths). The oracle asserts only what the properties state; outcomes the
// properties leave open are adopted from the implementation and then checked
// for consistency.

import (
	"bytes"
	"fmt"
	"io"
	"os"
	"runtime"
	"sort"
	"strings"
	"sync/atomic"
	"time"

	"pgregory.net/rapid"
	"verif.local/vcommon/mgen"
	"verif.local/vcommon/ref"
	"verif.local/vcommon/stats"
)

type vfNode struct {
	dir  bool
	data []byte
	kids map[string]*vfNode
}

func vfNewDir() *vfNode { return &vfNode{dir: true, kids: map[string]*vfNode{}} }

type vfHandle struct {
	node        *vfNode
	f           File
	off         int64
	rd, wr, app bool
	id          int
}

type vfCfg struct {
	prop        string // "C08" or "C09"
	blockSize   int
	writers     int
	names       []string
	settle      bool // wait for background writes after every step
	faults      bool
	checkSaves  bool // apply the C09 save oracle on every successful save
	initial     *mgen.Manifest
	uuid        string
	maxHandles  int
	unit        int // size unit for writes (== blockSize for small limits)
	knownRename bool
}

// vfGlobalBase is the goroutine count of the test process before the first
// case started anything; every case waits for the count to come back to it
// before taking its own baseline, so that goroutines left over from the
// previous case (its watchdog, a late background write) cannot inflate the
// baseline and make settle() return early.
var vfGlobalBase = -1

type vfMachine struct {
	t        *rapid.T
	cfg      vfCfg
	fs       CollectionFileSystem
	store    *vfStore
	root     *vfNode
	handles  []*vfHandle
	nextID   int
	seq      int
	origLocs map[string]bool
	labels   map[string]bool
	nontriv  bool
	history  []string
	baseGo   int
	saves    int
	failedSv int
	steps    int
	beat     int64
	noSettle bool // baseline could not be established: never claim "settled"
}

func (m *vfMachine) logf(format string, args ...interface{}) {
	s := fmt.Sprintf(format, args...)
	if len(m.history) < 400 {
		m.history = append(m.history, s)
	}
}

func (m *vfMachine) label(l string) { m.labels[l] = true }

// ---- model helpers

func vfSplit(p string) []string {
	if p == "" {
		return nil
	}
	return strings.Split(p, "/")
}

// lookup returns the node at path ("" = root), or nil.
func (m *vfMachine) lookup(p string) *vfNode {
	n := m.root
	for _, c := range vfSplit(p) {
		if n == nil || !n.dir {
			return nil
		}
		n = n.kids[c]
	}
	return n
}

// lookupParent returns the parent directory node of p and the last component.
func (m *vfMachine) lookupParent(p string) (*vfNode, string, bool) {
	parts := vfSplit(p)
	if len(parts) == 0 {
		return nil, "", false
	}
	par := m.lookup(strings.Join(parts[:len(parts)-1], "/"))
	if par == nil || !par.dir {
		return nil, "", false
	}
	return par, parts[len(parts)-1], true
}

func vfSortedKids(n *vfNode) []string {
	names := make([]string, 0, len(n.kids))
	for k := range n.kids {
		names = append(names, k)
	}
	sort.Strings(names)
	return names
}

// walk lists all paths (dirs and files) in deterministic order; root is "".
func (m *vfMachine) walk() (dirs, files []string) {
	var rec func(p string, n *vfNode)
	rec = func(p string, n *vfNode) {
		if n.dir {
			dirs = append(dirs, p)
			for _, k := range vfSortedKids(n) {
				cp := k
				if p != "" {
					cp = p + "/" + k
				}
				rec(cp, n.kids[k])
			}
		} else {
			files = append(files, p)
		}
	}
	rec("", m.root)
	return
}

func vfIsDescendantOrSelf(n, anc *vfNode) bool {
	if n == anc {
		return true
	}
	for _, k := range anc.kids {
		if k.dir && vfIsDescendantOrSelf(n, k) {
			return true
		}
	}
	return false
}

func vfJoin(dir, name string) string {
	if dir == "" {
		return name
	}
	return dir + "/" + name
}

// ---- generators

func (m *vfMachine) pickName(label string) string {
	return rapid.SampledFrom(m.cfg.names).Draw(m.t, label)
}

func (m *vfMachine) pickDir(label string) string {
	dirs, _ := m.walk()
	return rapid.SampledFrom(dirs).Draw(m.t, label)
}

// pickPath returns a path that may or may not exist; mostly inside an
// existing directory, sometimes below a missing directory or through a file.
func (m *vfMachine) pickPath(label string) string {
	dirs, files := m.walk()
	switch rapid.IntRange(0, 19).Draw(m.t, label+"Kind") {
	case 0:
		// below a missing directory
		return vfJoin(vfJoin(rapid.SampledFrom(dirs).Draw(m.t, label+"Dir"), "nonexistent"), m.pickName(label+"Name"))
	case 1:
		if len(files) > 0 {
			// through a regular file
			return vfJoin(rapid.SampledFrom(files).Draw(m.t, label+"File"), m.pickName(label+"Name"))
		}
	case 2, 3, 4, 5:
		if len(files) > 0 {
			return rapid.SampledFrom(files).Draw(m.t, label+"Existing")
		}
	case 6, 7:
		if len(dirs) > 1 {
			return rapid.SampledFrom(dirs[1:]).Draw(m.t, label+"ExistingDir")
		}
	}
	d := rapid.SampledFrom(dirs).Draw(m.t, label+"Dir")
	if strings.Count(d, "/") >= 2 {
		d = ""
	}
	return vfJoin(d, m.pickName(label+"Name"))
}

func (m *vfMachine) pickSize(label string, around int64) int64 {
	u := int64(m.cfg.unit)
	opts := []int64{0, 1, u - 1, u, u + 1, 2 * u, 2*u + 1, 3*u + 1}
	v := rapid.SampledFrom(opts).Draw(m.t, label)
	if rapid.IntRange(0, 3).Draw(m.t, label+"Rnd") == 0 {
		v = int64(rapid.IntRange(0, int(3*u+1)).Draw(m.t, label+"Val"))
	}
	if v < 0 {
		v = 0
	}
	return v
}

func (m *vfMachine) pattern(n int) []byte {
	m.seq++
	b := make([]byte, n)
	base := byte('a')
	if m.seq%2 == 0 {
		base = 'A'
	}
	for i := range b {
		b[i] = base + byte((m.seq*7+i)%26)
	}
	return b
}

func (m *vfMachine) pickHandle(label string) *vfHandle {
	if len(m.handles) == 0 {
		return nil
	}
	return m.handles[rapid.IntRange(0, len(m.handles)-1).Draw(m.t, label)]
}

// ---- real-side introspection (in-package)

func (m *vfMachine) allFileNodes() []*filenode {
	var out []*filenode
	seen := map[*filenode]bool{}
	var rec func(n inode)
	rec = func(n inode) {
		switch n := n.(type) {
		case *dirnode:
			n.RLock()
			kids := make([]inode, 0, len(n.inodes))
			for _, k := range n.inodes {
				kids = append(kids, k)
			}
			n.RUnlock()
			for _, k := range kids {
				rec(k)
			}
		case *filenode:
			if !seen[n] {
				seen[n] = true
				out = append(out, n)
			}
		}
	}
	rec(m.fs.(*collectionFileSystem).root)
	for _, h := range m.handles {
		if fh, ok := h.f.(*filehandle); ok {
			rec(fh.inode)
		}
	}
	return out
}

// settle waits until no background write goroutine is left. It returns false
// if that could not be established (never an error by itself).
func (m *vfMachine) settle() bool {
	if m.noSettle {
		for _, fn := range m.allFileNodes() {
			fn.waitPrune()
		}
		return false
	}
	for _, fn := range m.allFileNodes() {
		fn.waitPrune()
	}
	deadline := time.Now().Add(5 * time.Second)
	for runtime.NumGoroutine() > m.baseGo {
		if time.Now().After(deadline) {
			return false
		}
		runtime.Gosched()
		time.Sleep(50 * time.Microsecond)
	}
	return true
}

// writeShape inspects the real segment list of h's file before a write of n
// bytes at off, for labels and the non-triviality rule.
func (m *vfMachine) writeShape(h *vfHandle, off int64, n int) {
	fh, ok := h.f.(*filehandle)
	if !ok {
		return
	}
	fn, ok := fh.inode.(*filenode)
	if !ok {
		return
	}
	fn.RLock()
	defer fn.RUnlock()
	var pos int64
	hasStored := false
	crosses := false
	midStored := false
	for _, seg := range fn.segments {
		l := int64(seg.Len())
		_, stored := seg.(storedSegment)
		if stored {
			hasStored = true
		}
		end := pos + l
		if off < end && end < off+int64(n) {
			crosses = true
		}
		if stored && off > pos && off < end {
			midStored = true
		}
		pos = end
	}
	if hasStored {
		m.label("write-to-file-with-stored-segment")
	}
	if crosses {
		m.label("write-crosses-segment-boundary")
	}
	if midStored {
		m.label("write-into-middle-of-stored-segment")
	}
	if hasStored && crosses {
		m.nontriv = true
	}
	if off > fn.fileinfo.size {
		m.label("sparse-write")
	}
}

// ---- operations

func (m *vfMachine) fail(format string, args ...interface{}) {
	msg := fmt.Sprintf(format, args...)
	m.t.Fatalf("%s\nblocksize=%d settle=%v\nhistory:\n  %s", msg, m.cfg.blockSize, m.cfg.settle, strings.Join(m.history, "\n  "))
}

func (m *vfMachine) opOpen() {
	t := m.t
	if len(m.handles) >= m.cfg.maxHandles {
		m.opClose()
		return
	}
	p := m.pickPath("openPath")
	acc := rapid.SampledFrom([]int{os.O_RDONLY, os.O_WRONLY, os.O_RDWR, os.O_RDWR, os.O_RDWR}).Draw(t, "acc")
	flag := acc
	create := rapid.Bool().Draw(t, "create")
	excl := create && rapid.IntRange(0, 3).Draw(t, "excl") == 0
	trunc := rapid.IntRange(0, 3).Draw(t, "trunc") == 0
	app := rapid.IntRange(0, 3).Draw(t, "append") == 0
	mkdir := create && rapid.IntRange(0, 7).Draw(t, "permDir") == 0
	weird := rapid.IntRange(0, 39).Draw(t, "weirdFlag")
	existing := m.lookup(p)
	if existing != nil && existing.dir || (existing == nil && mkdir) {
		// directories are only opened read-only here (opening one writable is
		// not fixed by the property)
		acc, flag, trunc, app = os.O_RDONLY, os.O_RDONLY, false, false
	}
	if create {
		flag |= os.O_CREATE
	}
	if excl {
		flag |= os.O_EXCL
	}
	if trunc {
		flag |= os.O_TRUNC
	}
	if app {
		flag |= os.O_APPEND
	}
	perm := os.FileMode(0644)
	if mkdir {
		perm |= os.ModeDir
	}
	if weird == 0 && !create {
		// O_SYNC is documented as unsupported, RDWR|WRONLY as invalid; the
		// property does not list them, so only "no state change on error" is
		// checked.
		f, err := m.fs.OpenFile(p, flag|os.O_SYNC, perm)
		m.logf("open %q flag=%#x|O_SYNC -> err=%v", p, flag, err)
		if err == nil {
			f.Close()
		}
		return
	}
	if weird == 1 && !create && !trunc {
		f, err := m.fs.OpenFile(p, os.O_RDWR|os.O_WRONLY, perm)
		m.logf("open %q flag=RDWR|WRONLY -> err=%v", p, err)
		if err == nil {
			f.Close()
		}
		return
	}
	par, name, parOK := m.lookupParent(p)
	f, err := m.fs.OpenFile(p, flag, perm)
	m.logf("open %q flag=%#x perm=%v -> err=%v", p, flag, perm, err)
	mustFail := ""
	switch {
	case !parOK:
		mustFail = "missing path (parent directory missing or not a directory)"
	case existing == nil && !create:
		mustFail = "missing path"
	case existing != nil && excl:
		mustFail = "existing target with O_CREATE|O_EXCL"
	}
	if mustFail != "" {
		if err == nil {
			m.fail("OpenFile(%q, %#x) succeeded, model says it must fail: %s", p, flag, mustFail)
		}
		return
	}
	rdonlyTrunc := existing != nil && !existing.dir && trunc && acc == os.O_RDONLY
	if err != nil {
		if rdonlyTrunc {
			return // adopted: O_TRUNC through a read-only open is refused
		}
		m.fail("OpenFile(%q, %#x, %v) failed (%v), model says it must succeed", p, flag, perm, err)
	}
	node := existing
	if node == nil {
		if mkdir {
			node = vfNewDir()
		} else {
			node = &vfNode{}
		}
		par.kids[name] = node
		m.label("create-via-open")
	} else if trunc && !node.dir {
		node.data = nil
		m.label("open-trunc")
	}
	for _, h := range m.handles {
		if h.node == node && !node.dir {
			m.label("several-handles-on-one-file")
			m.nontriv = true
		}
	}
	m.nextID++
	h := &vfHandle{node: node, f: f, rd: acc == os.O_RDONLY || acc == os.O_RDWR, wr: acc == os.O_WRONLY || acc == os.O_RDWR, app: app, id: m.nextID}
	m.handles = append(m.handles, h)
	m.logf("  -> handle #%d", h.id)
}

func (m *vfMachine) opClose() {
	h := m.pickHandle("closeHandle")
	if h == nil {
		m.t.Skip("no handle")
	}
	if err := h.f.Close(); err != nil {
		m.fail("Close(#%d) = %v", h.id, err)
	}
	m.logf("close #%d", h.id)
	for i, x := range m.handles {
		if x == h {
			m.handles = append(m.handles[:i], m.handles[i+1:]...)
			break
		}
	}
}

func (m *vfMachine) opWrite() {
	h := m.pickHandle("writeHandle")
	if h == nil {
		m.t.Skip("no handle")
	}
	m.doWrite(h, int(m.pickSize("writeSize", 0)))
}

func (m *vfMachine) doWrite(h *vfHandle, n int) {
	data := m.pattern(n)
	if h.wr && !h.node.dir {
		off := h.off
		if h.app {
			off = int64(len(h.node.data))
		}
		m.writeShape(h, off, n)
	}
	got, err := h.f.Write(data)
	m.logf("write #%d off=%d len=%d append=%v -> n=%d err=%v", h.id, h.off, n, h.app, got, err)
	if !h.wr {
		if err == nil {
			m.fail("Write through read-only handle #%d succeeded", h.id)
		}
		if got != 0 {
			m.fail("Write through read-only handle #%d reported n=%d", h.id, got)
		}
		return
	}
	if h.node.dir {
		return // not generated (directories are opened read-only)
	}
	if err != nil || got != n {
		m.fail("Write(#%d, %d bytes) = %d, %v; want %d, nil", h.id, n, got, err, n)
	}
	if h.app {
		h.off = int64(len(h.node.data))
		m.label("append-write")
	}
	if h.off > int64(len(h.node.data)) {
		h.node.data = append(h.node.data, make([]byte, h.off-int64(len(h.node.data)))...)
	}
	end := h.off + int64(n)
	if end > int64(len(h.node.data)) {
		h.node.data = append(h.node.data, make([]byte, end-int64(len(h.node.data)))...)
	}
	copy(h.node.data[h.off:], data)
	h.off = end
}

func (m *vfMachine) opRead() {
	h := m.pickHandle("readHandle")
	if h == nil {
		m.t.Skip("no handle")
	}
	m.doRead(h, int(m.pickSize("readSize", 0)))
}

func (m *vfMachine) doRead(h *vfHandle, n int) {
	buf := make([]byte, n)
	for i := range buf {
		buf[i] = 0xEE
	}
	got, err := h.f.Read(buf)
	m.logf("read #%d off=%d buf=%d -> n=%d err=%v", h.id, h.off, n, got, err)
	if !h.rd {
		if err == nil {
			m.fail("Read through write-only handle #%d succeeded", h.id)
		}
		return
	}
	if h.node.dir {
		return // outcome not fixed by the property
	}
	m.checkRead(h, buf, got, err)
}

func (m *vfMachine) doSeekStart(h *vfHandle, target int64) {
	pos, err := h.f.Seek(target, io.SeekStart)
	m.logf("seek #%d off=%d whence=0 -> pos=%d err=%v", h.id, target, pos, err)
	if err != nil || pos != target {
		m.fail("Seek(#%d, %d, SeekStart) = %d, %v", h.id, target, pos, err)
	}
	h.off = target
}

// openExisting opens another handle on an existing regular file.
func (m *vfMachine) openExisting(p string, flag int) *vfHandle {
	node := m.lookup(p)
	f, err := m.fs.OpenFile(p, flag, 0644)
	m.logf("open %q flag=%#x -> err=%v", p, flag, err)
	if err != nil {
		m.fail("OpenFile(%q, %#x) of an existing file failed: %v", p, flag, err)
	}
	m.nextID++
	acc := flag & (os.O_RDONLY | os.O_WRONLY | os.O_RDWR)
	h := &vfHandle{node: node, f: f, rd: acc == os.O_RDONLY || acc == os.O_RDWR, wr: acc == os.O_WRONLY || acc == os.O_RDWR, id: m.nextID}
	m.handles = append(m.handles, h)
	m.logf("  -> handle #%d", h.id)
	return h
}

// opInterleave: two handles on one file; one reads (so its position is
// validated), the other writes somewhere inside the file (possibly splitting a
// stored segment), then the first reads on without seeking. Optionally a
// flush happens in between, so the write hits a stored segment.
func (m *vfMachine) opInterleave() {
	t := m.t
	_, files := m.walk()
	var cands []string
	for _, p := range files {
		if len(m.lookup(p).data) >= 2 {
			cands = append(cands, p)
		}
	}
	if len(cands) == 0 {
		t.Skip("no file with data")
	}
	p := rapid.SampledFrom(cands).Draw(t, "ilFile")
	node := m.lookup(p)
	var rdr, wtr *vfHandle
	for _, h := range m.handles {
		if h.node == node && h.rd && rdr == nil {
			rdr = h
		} else if h.node == node && h.wr && !h.app && wtr == nil {
			wtr = h
		}
	}
	for len(m.handles) >= m.cfg.maxHandles-1 {
		// make room, but keep the handles we are going to use
		victim := -1
		for i, h := range m.handles {
			if h != rdr && h != wtr {
				victim = i
				break
			}
		}
		if victim < 0 {
			break
		}
		m.handles[victim].f.Close()
		m.logf("close #%d", m.handles[victim].id)
		m.handles = append(m.handles[:victim], m.handles[victim+1:]...)
	}
	if rdr == nil {
		rdr = m.openExisting(p, os.O_RDONLY)
	}
	if wtr == nil {
		wtr = m.openExisting(p, os.O_RDWR)
	}
	m.label("several-handles-on-one-file")
	m.nontriv = true
	size := int64(len(node.data))
	if rapid.Bool().Draw(t, "ilFlushFirst") {
		dir := ""
		if i := strings.LastIndex(p, "/"); i >= 0 {
			dir = p[:i]
		}
		err := m.fs.Flush(dir, true)
		m.logf("flush %q short=true -> %v", dir, err)
		if m.cfg.settle || rapid.Bool().Draw(t, "ilSettle") {
			m.settle()
		}
	}
	if rapid.IntRange(0, 2).Draw(t, "ilSeekReader") > 0 {
		m.doSeekStart(rdr, rapid.Int64Range(0, size-1).Draw(t, "ilReaderPos"))
	}
	m.doRead(rdr, rapid.IntRange(1, 3).Draw(t, "ilRead1"))
	m.doSeekStart(wtr, rapid.Int64Range(0, size-1).Draw(t, "ilWriterPos"))
	m.doWrite(wtr, rapid.IntRange(1, m.cfg.unit+1).Draw(t, "ilWriteLen"))
	if rapid.IntRange(0, 3).Draw(t, "ilTruncate") == 0 {
		n := rapid.Int64Range(0, int64(len(node.data))).Draw(t, "ilTruncTo")
		if err := wtr.f.Truncate(n); err != nil {
			m.fail("Truncate(#%d, %d) failed: %v", wtr.id, n, err)
		}
		m.logf("truncate #%d -> %d", wtr.id, n)
		node.data = node.data[:n:n]
	}
	m.doRead(rdr, rapid.IntRange(1, 2*m.cfg.unit+1).Draw(t, "ilRead2"))
	m.doRead(rdr, rapid.IntRange(1, 3).Draw(t, "ilRead3"))
	m.label("interleaved-read-write-read")
}

func (m *vfMachine) checkRead(h *vfHandle, buf []byte, got int, err error) {
	size := int64(len(h.node.data))
	if err != nil && err != io.EOF {
		m.fail("Read(#%d) at %d/%d returned error %v", h.id, h.off, size, err)
	}
	if len(buf) == 0 {
		if got != 0 {
			m.fail("Read(#%d, empty buffer) returned n=%d", h.id, got)
		}
		return
	}
	if h.off >= size {
		if got != 0 || err != io.EOF {
			m.fail("Read(#%d) at EOF (%d/%d) returned n=%d err=%v, want 0, EOF", h.id, h.off, size, got, err)
		}
		return
	}
	if got < 1 || int64(got) > size-h.off || got > len(buf) {
		m.fail("Read(#%d) at %d/%d with %d-byte buffer returned n=%d err=%v", h.id, h.off, size, len(buf), got, err)
	}
	want := h.node.data[h.off : h.off+int64(got)]
	if !bytes.Equal(buf[:got], want) {
		m.fail("Read(#%d) at %d/%d returned %q, model has %q", h.id, h.off, size, buf[:got], want)
	}
	if err == io.EOF && h.off+int64(got) != size {
		m.fail("Read(#%d) returned EOF at %d, before end of file %d", h.id, h.off+int64(got), size)
	}
	h.off += int64(got)
}

func (m *vfMachine) opSeek() {
	h := m.pickHandle("seekHandle")
	if h == nil {
		m.t.Skip("no handle")
	}
	if h.node.dir {
		m.t.Skip("dir handle")
	}
	size := int64(len(h.node.data))
	whence := rapid.SampledFrom([]int{io.SeekStart, io.SeekCurrent, io.SeekEnd}).Draw(m.t, "whence")
	u := int64(m.cfg.unit)
	off := rapid.Int64Range(-size-2, size+2*u+1).Draw(m.t, "seekOff")
	var target int64
	switch whence {
	case io.SeekStart:
		target = off
	case io.SeekCurrent:
		target = h.off + off
	case io.SeekEnd:
		target = size + off
	}
	pos, err := h.f.Seek(off, whence)
	m.logf("seek #%d off=%d whence=%d -> pos=%d err=%v", h.id, off, whence, pos, err)
	if target < 0 {
		if err == nil {
			m.fail("Seek(#%d) to negative offset %d succeeded (pos %d)", h.id, target, pos)
		}
		return
	}
	if err != nil || pos != target {
		m.fail("Seek(#%d, %d, %d) = %d, %v; want %d", h.id, off, whence, pos, err, target)
	}
	if target > size {
		m.label("seek-beyond-eof")
	}
	h.off = target
}

func (m *vfMachine) opTruncate() {
	h := m.pickHandle("truncHandle")
	if h == nil {
		m.t.Skip("no handle")
	}
	if h.node.dir {
		m.t.Skip("dir handle")
	}
	size := int64(len(h.node.data))
	u := int64(m.cfg.unit)
	cands := []int64{0, size - 1, size, size + 1, size - u, size + u, size + 2*u + 1, u, 2 * u}
	n := rapid.SampledFrom(cands).Draw(m.t, "truncSize")
	if n < 0 {
		n = 0
	}
	err := h.f.Truncate(n)
	m.logf("truncate #%d %d -> %d err=%v", h.id, size, n, err)
	if err != nil {
		if h.wr {
			m.fail("Truncate(#%d, %d) through a writable handle failed: %v", h.id, n, err)
		}
		return // adopted: truncate through a read-only handle may be refused
	}
	if n < size {
		h.node.data = h.node.data[:n:n]
		m.label("truncate-shrink")
	} else if n > size {
		h.node.data = append(h.node.data, make([]byte, n-size)...)
		m.label("truncate-grow")
	}
}

func (m *vfMachine) opMkdir() {
	p := m.pickPath("mkdirPath")
	par, name, ok := m.lookupParent(p)
	existing := m.lookup(p)
	err := m.fs.Mkdir(p, 0755)
	m.logf("mkdir %q -> %v", p, err)
	if !ok || existing != nil {
		if err == nil {
			m.fail("Mkdir(%q) succeeded; model: parentOK=%v exists=%v", p, ok, existing != nil)
		}
		return
	}
	if err != nil {
		m.fail("Mkdir(%q) failed: %v", p, err)
	}
	par.kids[name] = vfNewDir()
}

func (m *vfMachine) opRename() {
	t := m.t
	oldp := m.pickPath("renameOld")
	newp := m.pickPath("renameNew")
	slashForm := false
	if rapid.IntRange(0, 5).Draw(t, "renameSlashForm") == 0 {
		// Rename(x, "dir/") means dir/<basename of x>
		newp = m.pickDir("renameIntoDir")
		slashForm = true
	}
	op, oname, ook := m.lookupParent(oldp)
	var src *vfNode
	if ook {
		src = op.kids[oname]
	}
	var np *vfNode
	var nname string
	var nok bool
	callNew := newp
	if slashForm {
		np = m.lookup(newp)
		nok = np != nil && np.dir
		nname = oname
		callNew = newp + "/"
		if newp == "" {
			// "/" alone would name the root; use "./" instead
			callNew = "./"
		}
	} else {
		np, nname, nok = m.lookupParent(newp)
	}
	err := m.fs.Rename(oldp, callNew)
	m.logf("rename %q -> %q : %v", oldp, callNew, err)
	mustFail := ""
	var dst *vfNode
	switch {
	case !ook || src == nil:
		mustFail = "missing source"
	case !nok:
		mustFail = "missing target directory"
	case src.dir && vfIsDescendantOrSelf(np, src):
		mustFail = "directory moved into itself"
	default:
		dst = np.kids[nname]
		if dst != nil && dst.dir && dst != src {
			mustFail = "rename onto an existing directory"
		}
	}
	if mustFail != "" {
		if err == nil {
			m.fail("Rename(%q, %q) succeeded, model says it must fail: %s", oldp, callNew, mustFail)
		}
		return
	}
	if dst == src {
		// renaming something onto itself: an ordinary filesystem leaves it
		// alone; refusing is harmless too. Either way nothing changes.
		m.label("rename-onto-itself")
		return
	}
	if dst != nil && src.dir {
		// directory renamed onto an existing file: not fixed by the property
		if err != nil {
			return
		}
	} else if err != nil {
		m.fail("Rename(%q, %q) failed: %v", oldp, callNew, err)
	}
	delete(op.kids, oname)
	np.kids[nname] = src
	for _, h := range m.handles {
		if h.node == src {
			m.label("rename-of-open-file")
		}
		if dst != nil && h.node == dst {
			m.label("rename-over-open-file")
		}
	}
	if dst != nil {
		m.label("rename-replaces-file")
	}
}

func (m *vfMachine) opRemove() {
	p := m.pickPath("removePath")
	if p == "" {
		m.t.Skip("root")
	}
	par, name, ok := m.lookupParent(p)
	var node *vfNode
	if ok {
		node = par.kids[name]
	}
	all := rapid.IntRange(0, 3).Draw(m.t, "removeAll") == 0
	if all {
		err := m.fs.RemoveAll(p)
		m.logf("removeall %q -> %v", p, err)
		if node == nil {
			return // nothing to remove; error or nil both leave the tree alone
		}
		if err != nil {
			m.fail("RemoveAll(%q) failed: %v", p, err)
		}
		delete(par.kids, name)
		return
	}
	err := m.fs.Remove(p)
	m.logf("remove %q -> %v", p, err)
	switch {
	case node == nil:
		if err == nil {
			m.fail("Remove(%q) of a missing path succeeded", p)
		}
	case node.dir && len(node.kids) > 0:
		if err == nil {
			m.fail("Remove(%q) of a non-empty directory succeeded", p)
		}
	default:
		if err != nil {
			m.fail("Remove(%q) failed: %v", p, err)
		}
		delete(par.kids, name)
		for _, h := range m.handles {
			if h.node == node {
				m.label("remove-of-open-file")
			}
		}
	}
}

func (m *vfMachine) opFlush() {
	d := m.pickDir("flushDir")
	short := rapid.Bool().Draw(m.t, "shortBlocks")
	err := m.fs.Flush(d, short)
	m.logf("flush %q short=%v -> %v", d, short, err)
	if err != nil && !m.cfg.faults {
		m.fail("Flush(%q, %v) failed: %v", d, short, err)
	}
	m.label("explicit-flush")
}

// ---- verification of the whole state

func (m *vfMachine) realPath(p string) string {
	if p == "" {
		return "."
	}
	return p
}

func (m *vfMachine) verifyTree(fs FileSystem, what string, full bool) {
	dirs, files := m.walk()
	for _, d := range dirs {
		node := m.lookup(d)
		fi, err := fs.Stat(m.realPath(d))
		if err != nil || !fi.IsDir() {
			m.fail("%s: Stat(%q) = %v, %v; model has a directory", what, d, fi, err)
		}
		f, err := fs.OpenFile(m.realPath(d), os.O_RDONLY, 0)
		if err != nil {
			m.fail("%s: open dir %q: %v", what, d, err)
		}
		ents, err := f.Readdir(-1)
		f.Close()
		if err != nil {
			m.fail("%s: Readdir(%q): %v", what, d, err)
		}
		var got []string
		for _, e := range ents {
			s := fmt.Sprintf("%q dir=%v", e.Name(), e.IsDir())
			if !e.IsDir() {
				s += fmt.Sprintf(" size=%d", e.Size())
			}
			got = append(got, s)
		}
		sort.Strings(got)
		var want []string
		for _, k := range vfSortedKids(node) {
			c := node.kids[k]
			s := fmt.Sprintf("%q dir=%v", k, c.dir)
			if !c.dir {
				s += fmt.Sprintf(" size=%d", len(c.data))
			}
			want = append(want, s)
		}
		sort.Strings(want)
		if strings.Join(got, "|") != strings.Join(want, "|") {
			m.fail("%s: directory %q lists [%s], model has [%s]", what, d, strings.Join(got, ", "), strings.Join(want, ", "))
		}
	}
	for _, p := range files {
		node := m.lookup(p)
		fi, err := fs.Stat(p)
		if err != nil || fi.IsDir() || fi.Size() != int64(len(node.data)) {
			m.fail("%s: Stat(%q) = %+v, %v; model has a file of %d bytes", what, p, fi, err, len(node.data))
		}
		if base := p[strings.LastIndex(p, "/")+1:]; fi.Name() != base {
			m.fail("%s: Stat(%q).Name() = %q", what, p, fi.Name())
		}
		if !full {
			continue
		}
		f, err := fs.OpenFile(p, os.O_RDONLY, 0)
		if err != nil {
			m.fail("%s: open %q: %v", what, p, err)
		}
		got, err := vfReadAll(f, 1+m.steps%7)
		f.Close()
		if err != nil || !bytes.Equal(got, node.data) {
			m.fail("%s: file %q reads %q (err %v), model has %q", what, p, got, err, node.data)
		}
	}
	// a few paths that must not exist
	for _, d := range dirs {
		p := vfJoin(d, "verif-no-such-entry")
		if _, err := fs.Stat(p); err == nil {
			m.fail("%s: Stat(%q) succeeded for a path that never existed", what, p)
		}
	}
}

func vfReadAll(f File, bufsize int) ([]byte, error) {
	var out []byte
	buf := make([]byte, bufsize)
	for i := 0; i < 1<<20; i++ {
		n, err := f.Read(buf)
		out = append(out, buf[:n]...)
		if err == io.EOF {
			return out, nil
		}
		if err != nil {
			return out, err
		}
		if n == 0 {
			return out, fmt.Errorf("Read returned 0, nil")
		}
	}
	return out, fmt.Errorf("no EOF")
}

func (m *vfMachine) verifyHandles() {
	for _, h := range m.handles {
		if h.node.dir {
			continue
		}
		if sz := h.f.Size(); sz != int64(len(h.node.data)) {
			m.fail("handle #%d Size() = %d, model %d", h.id, sz, len(h.node.data))
		}
		fi, err := h.f.Stat()
		if err != nil || fi.Size() != int64(len(h.node.data)) || fi.IsDir() {
			m.fail("handle #%d Stat() = %+v, %v; model size %d", h.id, fi, err, len(h.node.data))
		}
	}
}

// opReaddirPaged reads a directory a few entries at a time.
func (m *vfMachine) opReaddirPaged() {
	d := m.pickDir("readdirDir")
	node := m.lookup(d)
	k := rapid.IntRange(1, 3).Draw(m.t, "readdirCount")
	f, err := m.fs.OpenFile(m.realPath(d), os.O_RDONLY, 0)
	if err != nil {
		m.fail("open dir %q: %v", d, err)
	}
	defer f.Close()
	seen := map[string]bool{}
	for i := 0; i < 1000; i++ {
		ents, err := f.Readdir(k)
		if err == io.EOF {
			break
		}
		if err != nil {
			m.fail("Readdir(%q, %d): %v", d, k, err)
		}
		if len(ents) == 0 || len(ents) > k {
			m.fail("Readdir(%q, %d) returned %d entries", d, k, len(ents))
		}
		for _, e := range ents {
			if seen[e.Name()] {
				m.fail("Readdir(%q, %d) returned %q twice", d, k, e.Name())
			}
			seen[e.Name()] = true
		}
	}
	if len(seen) != len(node.kids) {
		m.fail("paged Readdir(%q) returned %d entries, model has %d", d, len(seen), len(node.kids))
	}
	for name := range node.kids {
		if !seen[name] {
			m.fail("paged Readdir(%q) missed %q", d, name)
		}
	}
	m.logf("readdir %q by %d", d, k)
}

// ---- saving (C09 oracle)

// opSave runs MarshalManifest (or Sync) and, for C09, applies the save oracle.
func (m *vfMachine) opSave(final bool) {
	useSync := m.cfg.uuid != "" && rapid.IntRange(0, 2).Draw(m.t, "saveViaSync") == 0
	flushFirst := rapid.IntRange(0, 3).Draw(m.t, "flushBeforeSave") == 0
	if flushFirst {
		m.fs.Flush("", rapid.Bool().Draw(m.t, "flushShort"))
	}
	settled := m.settle()
	if final && m.cfg.faults {
		m.store.heal()
	}
	putsBefore, _, _ := m.store.counts()
	m.store.setInSave(true)
	var txt string
	var err error
	if useSync {
		nb := len(m.store.syncTexts)
		err = m.fs.Sync()
		if err == nil {
			if len(m.store.syncTexts) != nb+1 {
				m.store.setInSave(false)
				m.fail("Sync() returned nil but sent %d collection updates", len(m.store.syncTexts)-nb)
			}
			txt = m.store.syncTexts[nb]
		}
	} else {
		txt, err = m.fs.MarshalManifest(".")
	}
	m.store.setInSave(false)
	putsAfter, _, failedSave := m.store.counts()
	m.saves++
	m.logf("save sync=%v flushFirst=%v -> err=%v puts=%d failedDuringSave=%d len=%d", useSync, flushFirst, err, putsAfter-putsBefore, failedSave, len(txt))
	m.label("save")
	if err != nil {
		m.failedSv++
		if !m.cfg.faults {
			m.fail("save failed without any injected fault: %v", err)
		}
		if settled && failedSave == 0 {
			m.fail("save failed (%v) although no Keep write failed during it", err)
		}
		if final {
			m.fail("final save after the faults were healed failed: %v", err)
		}
		m.label("save-failed-after-injected-write-failure")
		m.nontriv = m.nontriv || m.cfg.prop == "C09"
		// buffered data must stay intact and readable
		m.verifyHandles()
		m.verifyTree(m.fs, "after failed save", true)
		return
	}
	if settled && failedSave > 0 {
		m.fail("save returned nil although %d Keep write(s) issued during it failed", failedSave)
	}
	// saving must not change anything observable
	m.verifyHandles()
	m.verifyTree(m.fs, "after save", final)
	if !m.cfg.checkSaves {
		return
	}
	if _, f, _ := m.store.counts(); f > 0 {
		m.label("save-succeeded-after-earlier-write-failure")
		m.nontriv = true
	}
	m.checkManifest(txt)
}

func (m *vfMachine) checkManifest(txt string) {
	// (i) valid under the published grammar
	parsed, err := mgen.Interpret(txt, mgen.Options{DirMarkers: true, WideNames: true})
	if err != nil {
		m.fail("saved manifest is not valid: %v\nmanifest %q", err, txt)
	}
	// (iii) locator provenance and content
	blocks := m.store.snapshotBlocks()
	for _, st := range parsed.Streams {
		for i, loc := range st.Locators {
			if loc == "d41d8cd98f00b204e9800998ecf8427e+0" {
				// the well-known empty block: the grammar needs at least one
				// locator per stream and this one names zero bytes, which
				// need no Keep write
				continue
			}
			if !m.origLocs[loc] && !m.store.wasIssued(loc) {
				m.fail("saved manifest references %q, which is neither from the original manifest nor returned by a successful PutB\nmanifest %q", loc, txt)
			}
			blk, ok := blocks[loc[:32]]
			if !ok || ref.MD5Hex(blk) != loc[:32] || int64(len(blk)) != st.Sizes[i] {
				m.fail("saved manifest references %q but the store holds %d bytes (present=%v) for it", loc, len(blk), ok)
			}
		}
	}
	// (ii) reload equals the model
	fs2, err := (&Collection{ManifestText: txt}).FileSystem(m.store, m.store)
	if err != nil {
		m.fail("saved manifest does not load: %v\nmanifest %q", err, txt)
	}
	saved := m.fs
	_ = saved
	m.verifyTree(fs2, "reloaded manifest "+fmt.Sprintf("%q", txt), true)
	// the reference interpreter agrees with the model byte for byte
	_, files := m.walk()
	for _, p := range files {
		got, err := parsed.Bytes("./"+p, blocks)
		if err != nil || !bytes.Equal(got, m.lookup(p).data) {
			m.fail("reference reading of saved manifest: file %q = %q (err %v), model %q\nmanifest %q", p, got, err, m.lookup(p).data, txt)
		}
	}
	if len(parsed.Paths) != len(files) {
		m.fail("saved manifest has %d files %q, model has %d\nmanifest %q", len(parsed.Paths), parsed.Paths, len(files), txt)
	}
	dirs, _ := m.walk()
	for _, d := range dirs {
		if d != "" && len(m.lookup(d).kids) == 0 {
			m.label("empty-directory-saved")
			if m.cfg.prop == "C09" {
				m.nontriv = true
			}
		}
	}
}

// ---- driver

func vfBuildModel(man *mgen.Manifest) *vfNode {
	root := vfNewDir()
	if man == nil {
		return root
	}
	for p, data := range man.Content() {
		parts := strings.Split(p, "/")[1:]
		n := root
		for _, c := range parts[:len(parts)-1] {
			if n.kids[c] == nil {
				n.kids[c] = vfNewDir()
			}
			n = n.kids[c]
		}
		n.kids[parts[len(parts)-1]] = &vfNode{data: append([]byte(nil), data...)}
	}
	for _, s := range man.Streams {
		n := root
		for _, c := range strings.Split(s.Name, "/")[1:] {
			if n.kids[c] == nil {
				n.kids[c] = vfNewDir()
			}
			n = n.kids[c]
		}
	}
	return root
}

func vfRunMachine(t *rapid.T, cfg vfCfg) {
	oldBS, oldCW := maxBlockSize, concurrentWriters
	maxBlockSize, concurrentWriters = cfg.blockSize, cfg.writers
	defer func() { maxBlockSize, concurrentWriters = oldBS, oldCW }()

	store := newVfStore()
	m := &vfMachine{t: t, cfg: cfg, store: store, labels: map[string]bool{}, origLocs: map[string]bool{}}
	txt := ""
	if cfg.initial != nil {
		txt = cfg.initial.Text()
		store.addBlocks(cfg.initial.Store())
		for _, s := range cfg.initial.Streams {
			for _, b := range s.Blocks {
				m.origLocs[b.Locator()] = true
			}
		}
		m.label("starts-from-generated-manifest")
	} else {
		m.label("starts-empty")
	}
	if cfg.faults {
		store.failShape = rapid.IntRange(0, 2).Draw(t, "failShape")
		store.slowPuts = rapid.SampledFrom([]int{0, 0, 4, 16}).Draw(t, "slowPuts")
		n := rapid.IntRange(0, 3).Draw(t, "faultKind")
		switch n {
		case 0:
			k := rapid.IntRange(1, 12).Draw(t, "failNth")
			store.failNth[k] = true
			if rapid.Bool().Draw(t, "failNth2") {
				store.failNth[k+rapid.IntRange(1, 6).Draw(t, "failNthGap")] = true
			}
			m.label("fault-kth-write")
		case 1:
			store.failRatePct = 30
			store.failBits = rapid.SliceOfN(rapid.Bool(), 8, 8).Draw(t, "failBits")
			m.label("fault-rate")
		case 2:
			store.failRatePct = 50
			store.failBits = rapid.SliceOfN(rapid.Bool(), 6, 6).Draw(t, "failBits")
			store.onlyBg = true
			m.label("fault-only-background")
		case 3:
			store.failRatePct = 50
			store.failBits = rapid.SliceOfN(rapid.Bool(), 6, 6).Draw(t, "failBits")
			store.onlySave = true
			m.label("fault-only-during-save")
		}
	}
	fs, err := (&Collection{ManifestText: txt, UUID: cfg.uuid}).FileSystem(store, store)
	if err != nil {
		t.Fatalf("VERIF-INFRA: generated manifest does not load: %v\n%q", err, txt)
	}
	m.fs = fs
	m.root = vfBuildModel(cfg.initial)
	m.verifyTree(m.fs, "initial", true)

	// watchdog: an in-memory filesystem call that does not return within two
	// minutes is a hang (e.g. a lock taken twice), not slowness.
	if vfGlobalBase < 0 {
		vfGlobalBase = runtime.NumGoroutine()
	} else {
		deadline := time.Now().Add(5 * time.Second)
		for runtime.NumGoroutine() > vfGlobalBase && time.Now().Before(deadline) {
			time.Sleep(200 * time.Microsecond)
		}
		if runtime.NumGoroutine() > vfGlobalBase {
			m.noSettle = true
			m.label("baseline-not-established")
		}
	}
	stopDog := make(chan struct{})
	dogDone := make(chan struct{})
	defer func() {
		close(stopDog)
		<-dogDone
	}()
	go func() {
		defer close(dogDone)
		last, lastChange := int64(-1), time.Now()
		for {
			select {
			case <-stopDog:
				return
			case <-time.After(time.Second):
			}
			if b := atomic.LoadInt64(&m.beat); b != last {
				last, lastChange = b, time.Now()
			} else if time.Since(lastChange) > 120*time.Second {
				buf := make([]byte, 1<<20)
				buf = buf[:runtime.Stack(buf, true)]
				path := os.Getenv("VERIF_WORK") + "/fs-hang.txt"
				os.WriteFile(path, []byte(fmt.Sprintf("blocksize=%d\nhistory (the call after the last line did not return):\n  %s\n\n%s", cfg.blockSize, strings.Join(m.history, "\n  "), buf)), 0644)
				fmt.Printf("VERIF-REPLAY: %s\nVERIF-HANG: a collection filesystem call did not return within 120 s; history:\n  %s\n", path, strings.Join(m.history, "\n  "))
				os.Exit(1)
			}
		}
	}()
	m.baseGo = vfGlobalBase + 1 // the watchdog
	after := func() {
		atomic.AddInt64(&m.beat, 1)
		m.steps++
		if m.cfg.settle {
			m.settle()
		}
		m.verifyHandles()
		if m.steps%5 == 0 {
			m.verifyTree(m.fs, fmt.Sprintf("after step %d", m.steps), m.steps%20 == 0)
		}
	}
	wrap := func(f func()) func(*rapid.T) {
		return func(rt *rapid.T) {
			m.t = rt
			f()
			after()
		}
	}
	actions := map[string]func(*rapid.T){
		"open":        wrap(m.opOpen),
		"open2":       wrap(m.opOpen),
		"close":       wrap(m.opClose),
		"write":       wrap(m.opWrite),
		"write2":      wrap(m.opWrite),
		"write3":      wrap(m.opWrite),
		"read":        wrap(m.opRead),
		"read2":       wrap(m.opRead),
		"seek":        wrap(m.opSeek),
		"truncate":    wrap(m.opTruncate),
		"mkdir":       wrap(m.opMkdir),
		"rename":      wrap(m.opRename),
		"remove":      wrap(m.opRemove),
		"flush":       wrap(m.opFlush),
		"interleave":  wrap(m.opInterleave),
		"interleave2": wrap(m.opInterleave),
		"readdir":     wrap(m.opReaddirPaged),
		"save":        wrap(func() { m.opSave(false) }),
	}
	t.Repeat(actions)
	m.t = t
	// final: everything settles, faults heal, one more save must succeed
	m.settle()
	m.verifyHandles()
	m.verifyTree(m.fs, "final", true)
	m.opSave(true)
	// orphaned (removed or replaced) files stay readable through their handles
	for _, h := range m.handles {
		if h.node.dir || !h.rd {
			continue
		}
		if _, err := h.f.Seek(0, io.SeekStart); err != nil {
			m.fail("final Seek(#%d): %v", h.id, err)
		}
		got, err := vfReadAll(h.f, 3)
		if err != nil || !bytes.Equal(got, h.node.data) {
			m.fail("final read through handle #%d: %q (err %v), model %q", h.id, got, err, h.node.data)
		}
	}
	if !m.settle() {
		m.label("unsettled-at-end")
	}
	var labels []string
	for l := range m.labels {
		labels = append(labels, cfg.prop+":"+l)
	}
	sort.Strings(labels)
	labels = append(labels, fmt.Sprintf("%s:blocksize=%d", cfg.prop, cfg.blockSize))
	stats.Case(stats.FP(cfg.prop, cfg.blockSize, strings.Join(m.history, "\n")), m.nontriv, labels...)
	if m.nontriv && stats.WantSample(cfg.prop+"-history") {
		h := m.history
		if len(h) > 40 {
			h = h[:40]
		}
		stats.Sample(cfg.prop+"-history", map[string]interface{}{"blocksize": cfg.blockSize, "initial_manifest": txt, "first_steps": h, "steps": m.steps})
	}
}
