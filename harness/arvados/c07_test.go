package arvados

// C07: block signatures verify only for the exact hash, token, expiry and key.
// Oracle: independent HMAC reference transcribed from blob.rb (vcommon/ref).

import (
	"fmt"
	"strings"
	"testing"
	"time"

	"pgregory.net/rapid"
	"verif.local/vcommon/ref"
	"verif.local/vcommon/stats"
)

const c07hex = "0123456789abcdef"

const c07printable = "!\"#$%&'()*+,-./0123456789:;<=>?@ABCDEFGHIJKLMNOPQRSTUVWXYZ[\\]^_`abcdefghijklmnopqrstuvwxyz{|}~"

func c07Hash(t *rapid.T, label string) string {
	return rapid.StringOfN(rapid.RuneFrom([]rune(c07hex)), 32, 32, 32).Draw(t, label)
}

func c07Token(t *rapid.T, label string) string {
	switch rapid.IntRange(0, 5).Draw(t, label+"Class") {
	case 0:
		return "v2/zzzzz-gj3su-" + rapid.StringMatching(`[0-9a-z]{15}`).Draw(t, label) + "/" + rapid.StringMatching(`[0-9a-z]{40,60}`).Draw(t, label+"S")
	case 1:
		return rapid.StringMatching(`[0-9a-z]{40,60}`).Draw(t, label)
	case 2:
		return rapid.StringMatching(`[0-9a-z@+/ ]{1,30}`).Draw(t, label)
	case 3:
		return rapid.StringMatching(`[a-z]{1,4}@[0-9a-f]{8}@[0-9a-f]{1,4}`).Draw(t, label)
	case 4:
		return rapid.StringN(1, 40, 80).Draw(t, label)
	default:
		return rapid.StringMatching(`[0-9a-zA-Z]{1,12}`).Draw(t, label)
	}
}

func c07Key(t *rapid.T, label string) []byte {
	// printable, no trailing NUL (HMAC zero-pads short keys, which would make
	// "k" and "k\x00" the same key by construction of HMAC, not of arvados).
	n := rapid.SampledFrom([]int{1, 2, 8, 40, 63, 64, 65, 128}).Draw(t, label+"Len")
	return []byte(rapid.StringOfN(rapid.RuneFrom([]rune(c07printable)), n, n, n).Draw(t, label))
}

func c07Hints(t *rapid.T, label string) string {
	n := rapid.IntRange(0, 3).Draw(t, label+"N")
	s := ""
	for i := 0; i < n; i++ {
		s += rapid.SampledFrom([]string{"+Zx", "+K@abcde", "+Bfoo_-@", "+K@zzzzz-bi6l4-0123456789abcde", "+Rzzzzz", "+C", "+Z0-9"}).Draw(t, label)
	}
	return s
}

// c07Delta draws an expiry offset in seconds with a ±5 s guard band around
// now. The whole range of 8-hex-digit expiry fields is covered: besides
// offsets of seconds to years there are absolute timestamps around 2^31 and
// up to 0xffffffff (future) and down to 0x10000000 (past; below that the
// Rails reference does not zero-pad, so it is outside the common domain).
func c07Delta(t *rapid.T, label string, future bool) int64 {
	now := time.Now().Unix()
	if rapid.IntRange(0, 4).Draw(t, label+"Absolute") == 0 {
		var abs int64
		if future {
			abs = rapid.SampledFrom([]int64{0x7ffffffe, 0x7fffffff, 0x80000000, 0x80000001, 0x8fffffff, 0x90000000, 0xa0000000, 0xc0de0000, 0xf0000000, 0xfffffffe, 0xffffffff}).Draw(t, label+"Abs")
			if rapid.Bool().Draw(t, label+"AbsRnd") {
				abs = rapid.Int64Range(now+10, 0xffffffff).Draw(t, label+"AbsVal")
			}
		} else {
			abs = rapid.SampledFrom([]int64{0x10000000, 0x10000001, 0x1fffffff, 0x20000000, 0x50000000, 0x5fffffff, 0x60000000}).Draw(t, label+"Abs")
			if rapid.Bool().Draw(t, label+"AbsRnd") {
				abs = rapid.Int64Range(0x10000000, now-10).Draw(t, label+"AbsVal")
			}
		}
		return abs - now
	}
	d := rapid.SampledFrom([]int64{5, 6, 60, 3600, 86400, 14 * 86400, 365 * 86400, 5 * 365 * 86400}).Draw(t, label)
	d += rapid.Int64Range(0, 3600).Draw(t, label+"Jitter") % (d/2 + 1)
	if !future {
		return -d
	}
	return d
}

func c07TTL(t *rapid.T, label string) int64 {
	return rapid.SampledFrom([]int64{1, 2, 15, 16, 17, 300, 3600, 1209600, 1209601, 31536000, 315360000}).Draw(t, label)
}

// refVerdict is the reference decision for a well-formed signed locator.
// 0 = ok, 1 = expired, 2 = invalid/missing.
func c07RefVerdict(hash, presentedToken, sig, expHex string, ttl int64, key []byte, now time.Time) int {
	var exp int64
	fmt.Sscanf(expHex, "%x", &exp)
	good := sig == ref.BlobSignature(key, hash, presentedToken, expHex, ref.TTLHex(ttl))
	expired := exp < now.Unix()
	switch {
	case good && !expired:
		return 0
	case expired:
		return 1
	default:
		return 2
	}
}

func c07Class(err error) int {
	switch err {
	case nil:
		return 0
	case ErrSignatureExpired:
		return 1
	case ErrSignatureInvalid, ErrSignatureMissing:
		return 2
	}
	return 3
}

func TestVerifC07SignVerify(t *testing.T) {
	defer stats.Flush()
	rapid.Check(t, func(t *rapid.T) {
		hash := c07Hash(t, "hash")
		size := ""
		if rapid.Bool().Draw(t, "hasSize") {
			size = fmt.Sprintf("+%d", rapid.IntRange(0, 1<<26).Draw(t, "size"))
		}
		pre := c07Hints(t, "pre")
		post := c07Hints(t, "post")
		token := c07Token(t, "token")
		key := c07Key(t, "key")
		ttl := c07TTL(t, "ttl")
		future := rapid.IntRange(0, 3).Draw(t, "future") > 0
		now := time.Now()
		expiry := now.Add(time.Duration(c07Delta(t, "delta", future)) * time.Second)
		expHex := fmt.Sprintf("%08x", expiry.Unix())
		ttlDur := time.Duration(ttl) * time.Second

		base := hash + size + pre
		signed := SignLocator(base, token, expiry, ttlDur, key)
		wantSig := ref.BlobSignature(key, hash, token, expHex, ref.TTLHex(ttl))
		want := base + "+A" + wantSig + "@" + expHex
		if signed != want {
			t.Fatalf("SignLocator(%q, %q, %v, %v, %q) = %q, reference %q", base, token, expiry.Unix(), ttl, key, signed, want)
		}
		if got := SignLocator(base, "", expiry, ttlDur, key); got != base {
			t.Fatalf("SignLocator with empty token changed locator: %q", got)
		}
		if got := SignLocator(base, token, expiry, ttlDur, nil); got != base {
			t.Fatalf("SignLocator with empty key changed locator: %q", got)
		}
		full := signed + post

		check := func(what, loc, tok string, ttlS int64, k []byte, wantClass int, alsoOK int) {
			err := VerifySignature(loc, tok, time.Duration(ttlS)*time.Second, k)
			got := c07Class(err)
			if got != wantClass && got != alsoOK {
				t.Fatalf("%s: VerifySignature(%q, token=%q, ttl=%d, key=%q) = %v (class %d), want class %d (0 ok, 1 expired, 2 invalid/missing); original signed locator %q token %q ttl %d key %q",
					what, loc, tok, ttlS, k, err, got, wantClass, full, token, ttl, key)
			}
		}

		// iff: the exact locator verifies (or is Expired) per the reference.
		v := c07RefVerdict(hash, token, wantSig, expHex, ttl, key, now)
		check("exact", full, token, ttl, key, v, v)

		nperturb := 0
		mustFail := func(what, loc, tok string, ttlS int64, k []byte, expiredOK bool) {
			nperturb++
			err := VerifySignature(loc, tok, time.Duration(ttlS)*time.Second, k)
			if err == nil {
				t.Fatalf("perturbation %q accepted: VerifySignature(%q, token=%q, ttl=%d, key=%q) = nil; original %q token %q ttl %d key %q",
					what, loc, tok, ttlS, k, full, token, ttl, key)
			}
			if err == ErrSignatureExpired && !expiredOK {
				t.Fatalf("perturbation %q reported as expired although expiry is in the future: %q", what, loc)
			}
			if c07Class(err) == 3 {
				t.Fatalf("perturbation %q: unexpected error value %v", what, err)
			}
		}
		expiredOK := !future

		// other token / key / ttl / hash
		tok2 := c07Token(t, "token2")
		if tok2 != token {
			mustFail("token", full, tok2, ttl, key, expiredOK)
		}
		mustFail("token+suffix", full, token+"x", ttl, key, expiredOK)
		mustFail("token-empty", full, "", ttl, key, expiredOK)
		key2 := c07Key(t, "key2")
		if string(key2) != string(key) {
			mustFail("key", full, token, ttl, key2, expiredOK)
		}
		for _, ttl2 := range []int64{ttl + 1, ttl - 1, ttl * 16, ttl + 16} {
			if ttl2 != ttl && ttl2 >= 0 {
				mustFail(fmt.Sprintf("ttl%d", ttl2), full, token, ttl2, key, expiredOK)
			}
		}
		hash2 := c07Hash(t, "hash2")
		if hash2 != hash {
			mustFail("hash", hash2+full[32:], token, ttl, key, expiredOK)
		}
		hp := rapid.IntRange(0, 31).Draw(t, "hashPos")
		hc := c07hex[(strings.IndexByte(c07hex, hash[hp])+1+rapid.IntRange(0, 14).Draw(t, "hashRot"))%16]
		mustFail("hash1char", full[:hp]+string(hc)+full[hp+1:], token, ttl, key, expiredOK)

		// single characters of signature and expiry
		sigStart := len(base) + 2
		expStart := sigStart + 41
		pos := rapid.IntRange(0, 39).Draw(t, "sigPos")
		orig := full[sigStart+pos]
		repl := []byte{c07hex[(strings.IndexByte(c07hex, orig)+1+rapid.IntRange(0, 14).Draw(t, "sigRot"))%16], 'g', 'G', '+', '@', ' '}
		if orig >= 'a' && orig <= 'f' {
			repl = append(repl, orig-32)
		}
		for _, r := range repl {
			mustFail(fmt.Sprintf("sig[%d]=%q", pos, r), full[:sigStart+pos]+string(r)+full[sigStart+pos+1:], token, ttl, key, expiredOK)
		}
		epos := rapid.IntRange(0, 7).Draw(t, "expPos")
		eorig := full[expStart+epos]
		erepl := []byte{c07hex[(strings.IndexByte(c07hex, eorig)+1+rapid.IntRange(0, 14).Draw(t, "expRot"))%16], 'g', 'x', '-', '+'}
		if eorig >= 'a' && eorig <= 'f' {
			erepl = append(erepl, eorig-32)
		}
		for _, r := range erepl {
			// a changed expiry digit may move the expiry into the past
			mustFail(fmt.Sprintf("exp[%d]=%q", epos, r), full[:expStart+epos]+string(r)+full[expStart+epos+1:], token, ttl, key, true)
		}
		// structural perturbations
		sigHint := full[len(base) : expStart+8]
		mustFail("sig-removed", base+post, token, ttl, key, false)
		mustFail("sig-truncated", base+sigHint[:len(sigHint)-1]+post, token, ttl, key, expiredOK)
		mustFail("sig-short", base+"+A"+wantSig[:39]+"@"+expHex+post, token, ttl, key, expiredOK)
		mustFail("sig-long", base+"+A"+wantSig+"0@"+expHex+post, token, ttl, key, expiredOK)
		mustFail("exp-long", base+"+A"+wantSig+"@0"+expHex+post, token, ttl, key, true)
		mustFail("exp-short", base+"+A"+wantSig+"@"+expHex[1:]+post, token, ttl, key, true)
		mustFail("no-at", base+"+A"+wantSig+expHex+post, token, ttl, key, expiredOK)
		mustFail("lower-a", base+"+a"+wantSig+"@"+expHex+post, token, ttl, key, expiredOK)
		// a signature computed for the stripped token etc.
		otherSig := ref.BlobSignature(key, hash, token, expHex, ref.TTLHex(ttl+1))
		mustFail("sig-for-other-ttl", base+"+A"+otherSig+"@"+expHex+post, token, ttl, key, expiredOK)
		// extended expiry with the old signature (the classic forgery)
		later := fmt.Sprintf("%08x", expiry.Unix()+int64(rapid.IntRange(1, 1<<20).Draw(t, "extend")))
		mustFail("expiry-extended", base+"+A"+wantSig+"@"+later+post, token, ttl, key, expiredOK)

		// hints may be reordered around the signature: the verdict must not change
		if pre != "" || post != "" {
			moved := hash + size + post + "+A" + wantSig + "@" + expHex + pre
			check("hints-reordered", moved, token, ttl, key, v, v)
		}
		// a locator signed (by the reference) for the presented token verifies
		refSigned := hash + size + pre + "+A" + ref.BlobSignature(key, hash, tok2, expHex, ref.TTLHex(ttl)) + "@" + expHex + post
		v2 := c07RefVerdict(hash, tok2, ref.BlobSignature(key, hash, tok2, expHex, ref.TTLHex(ttl)), expHex, ttl, key, now)
		check("reference-signed", refSigned, tok2, ttl, key, v2, v2)

		label := "future"
		if !future {
			label = "expired"
		}
		tl := "token-plain"
		if strings.ContainsAny(token, "@+") {
			tl = "token-with-@-or-+"
		}
		stats.Case(stats.FP(hash, size, pre, post, token, key, ttl, expHex), true, label, tl, fmt.Sprintf("pre-hints=%d", strings.Count(pre, "+")), fmt.Sprintf("post-hints=%d", strings.Count(post, "+")))
		stats.InfoAdd("c07_perturbations_checked", int64(nperturb))
		if stats.WantSample("signverify/" + label) {
			stats.Sample("signverify/"+label, map[string]interface{}{"locator": full, "token": token, "ttl_s": ttl, "key": string(key), "perturbations": nperturb})
		}
	})
}
