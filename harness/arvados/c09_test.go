package arvados

import (
	"bytes"
	"testing"

	"pgregory.net/rapid"
	"verif.local/vcommon/mgen"
	"verif.local/vcommon/stats"
)

func vfWideName(t *rapid.T, label string) string {
	switch rapid.IntRange(0, 9).Draw(t, label+"Class") {
	case 0, 1:
		return rapid.SampledFrom(vfPlainNames).Draw(t, label)
	case 2:
		return rapid.SampledFrom([]string{" lead", "trail ", "a b", "new\nline", "tab\t", "\x01", "\x7f"}).Draw(t, label)
	case 3:
		return rapid.SampledFrom([]string{`a\b`, `\`, `\\`, `a\101`, `\040`, `\134`, `\056`, `x\0401`, `\12`}).Draw(t, label)
	case 4:
		return rapid.SampledFrom([]string{"a:b", ":", "0:0:a", "é", "日本", "\xff", "\xc3", "a\xfe\xffb", "..."}).Draw(t, label)
	case 5:
		return rapid.SampledFrom([]string{"d41d8cd98f00b204e9800998ecf8427e+0", ".keep", "..x", ". ", " ."}).Draw(t, label)
	default:
		n := rapid.IntRange(1, 4).Draw(t, label+"Len")
		b := make([]byte, n)
		for i := range b {
			c := byte(rapid.IntRange(1, 255).Draw(t, label+"Byte"))
			if c == '/' {
				c = '_'
			}
			b[i] = c
		}
		s := string(b)
		if s == "." || s == ".." {
			return "dot"
		}
		return s
	}
}

// C09: saved manifests reproduce the tree and reference only stored blocks.
func TestVerifC09Machine(t *testing.T) {
	defer stats.Flush()
	rapid.Check(t, func(t *rapid.T) {
		bs := rapid.SampledFrom([]int{1, 2, 3, 5, 8, 13, 32, 64}).Draw(t, "blockSize")
		var names []string
		seen := map[string]bool{}
		for len(names) < 5 {
			n := vfWideName(t, "name")
			if !seen[n] && n != ".arvados#collection" {
				seen[n] = true
				names = append(names, n)
			}
		}
		uuid := ""
		if rapid.Bool().Draw(t, "hasUUID") {
			uuid = "zzzzz-4zz18-verifverifverif"
		}
		vfRunMachine(t, vfCfg{
			prop:       "C09",
			blockSize:  bs,
			unit:       bs,
			writers:    rapid.IntRange(1, 4).Draw(t, "writers"),
			names:      names,
			settle:     rapid.IntRange(0, 3).Draw(t, "settle") > 0,
			faults:     rapid.IntRange(0, 3).Draw(t, "faults") > 0,
			checkSaves: true,
			initial:    vfDrawInitial(t, false),
			uuid:       uuid,
			maxHandles: 8,
		})
	})
}

// C09, last clause: loading any valid manifest and saving it unchanged
// preserves every file's content and the total size.
func TestVerifC09LoadSave(t *testing.T) {
	defer stats.Flush()
	rapid.Check(t, func(t *rapid.T) {
		bs := rapid.SampledFrom([]int{1, 3, 8, 64, 1 << 26}).Draw(t, "blockSize")
		oldBS := maxBlockSize
		maxBlockSize = bs
		defer func() { maxBlockSize = oldBS }()
		m := mgen.Gen(t, mgen.GenOpts{Signed: rapid.Bool().Draw(t, "signed"), WideBytes: rapid.Bool().Draw(t, "wide")})
		txt := m.Text()
		store := newVfStore()
		store.addBlocks(m.Store())
		fs, err := (&Collection{ManifestText: txt}).FileSystem(store, store)
		if err != nil {
			t.Fatalf("valid manifest does not load: %v\n%q", err, txt)
		}
		want := m.Content()
		var total int64
		for _, d := range want {
			total += int64(len(d))
		}
		if fs.Size() != total {
			t.Fatalf("loaded filesystem Size() = %d, manifest holds %d bytes\n%q", fs.Size(), total, txt)
		}
		out, err := fs.MarshalManifest(".")
		if err != nil {
			t.Fatalf("MarshalManifest of an unchanged loaded manifest failed: %v\n%q", err, txt)
		}
		if puts, _, _ := store.counts(); puts != 0 {
			t.Fatalf("saving an unchanged manifest wrote %d blocks\n%q", puts, txt)
		}
		parsed, err := mgen.Interpret(out, mgen.Options{DirMarkers: true, WideNames: true})
		if err != nil {
			t.Fatalf("re-saved manifest is not valid: %v\ninput %q\noutput %q", err, txt, out)
		}
		if len(parsed.Paths) != len(want) {
			t.Fatalf("re-saved manifest has %d files, input has %d\ninput %q\noutput %q", len(parsed.Paths), len(want), txt, out)
		}
		blocks := store.snapshotBlocks()
		var total2 int64
		for p, w := range want {
			g, err := parsed.Bytes(p, blocks)
			if err != nil || !bytes.Equal(g, w) {
				t.Fatalf("file %q: %q (err %v) after load+save, want %q\ninput %q\noutput %q", p, g, err, w, txt, out)
			}
			total2 += parsed.Size[p]
		}
		if total2 != total {
			t.Fatalf("total size %d after load+save, was %d", total2, total)
		}
		// every locator token of the output is a token of the input
		in := map[string]bool{}
		for _, s := range m.Streams {
			for _, b := range s.Blocks {
				in[b.Locator()] = true
			}
		}
		for _, s := range parsed.Streams {
			for _, l := range s.Locators {
				if !in[l] && l != "d41d8cd98f00b204e9800998ecf8427e+0" {
					t.Fatalf("re-saved manifest has locator %q that the input does not have\ninput %q\noutput %q", l, txt, out)
				}
			}
		}
		f := m.Features()
		stats.Case(stats.FP("loadsave", bs, txt), f.NonTrivial(), append(f.Labels(), "C09:load-save")...)
		if f.NonTrivial() && stats.WantSample("C09-load-save") {
			stats.Sample("C09-load-save", map[string]string{"input": txt, "output": out})
		}
	})
}
