package arvados

// Deterministic reproduction of a deadlock first seen by the randomized C13
// check (thorough tier): an asynchronous Flush packs segments of two files of
// one directory into a single block; while that Keep write is in flight one
// file is written to (copy-on-write clears its "flushing" mark) and the other
// is renamed into a subdirectory; MarshalManifest then locks the first file,
// its subdirectory pass waits for the moved file's pending flush, and the
// flush goroutine waits for the first file's lock.

import (
	"os"
	"runtime"
	"testing"
	"time"

	"verif.local/vcommon/stats"
)

func TestVerifC13RegressRenameDuringFlush(t *testing.T) {
	defer stats.Flush()
	oldBS, oldCW := maxBlockSize, concurrentWriters
	maxBlockSize, concurrentWriters = 64, 4
	defer func() { maxBlockSize, concurrentWriters = oldBS, oldCW }()

	store := newVfStore()
	arrived := make(chan struct{}, 16)
	release := make(chan struct{})
	gated := int32(1)
	store.gate = func(p []byte) error {
		if gated == 1 {
			gated = 0 // only the first write (the asynchronous flush) is parked
			arrived <- struct{}{}
			<-release
		}
		return nil
	}
	fs, err := (&Collection{}).FileSystem(store, store)
	if err != nil {
		t.Fatal(err)
	}
	write := func(name, data string) File {
		f, err := fs.OpenFile(name, os.O_CREATE|os.O_RDWR, 0644)
		if err != nil {
			t.Fatal(err)
		}
		if _, err := f.Write([]byte(data)); err != nil {
			t.Fatal(err)
		}
		return f
	}
	fx := write("x", "xx")
	write("y", "yy")
	if err := fs.Mkdir("d", 0755); err != nil {
		t.Fatal(err)
	}
	if err := fs.Flush("", true); err != nil {
		t.Fatal(err)
	}
	select {
	case <-arrived:
	case <-time.After(20 * time.Second):
		t.Fatal("VERIF-INFRA: the asynchronous flush never reached the Keep stub")
	}
	// overwrite one byte of x: its buffer is copied and its flushing mark cleared
	if _, err := fx.Seek(0, 0); err != nil {
		t.Fatal(err)
	}
	if _, err := fx.Write([]byte("X")); err != nil {
		t.Fatal(err)
	}
	renamed := make(chan error, 1)
	go func() { renamed <- fs.Rename("y", "d/y") }()
	// A correct Rename may either move the file at once or wait for the
	// pending flush; give it a moment, then let the Keep write finish.
	select {
	case err := <-renamed:
		if err != nil {
			t.Fatal(err)
		}
		renamed = nil
	case <-time.After(200 * time.Millisecond):
	}
	type res struct {
		txt string
		err error
	}
	saved := make(chan res, 1)
	go func() {
		if renamed != nil {
			if err := <-renamed; err != nil {
				saved <- res{"", err}
				return
			}
		}
		txt, err := fs.MarshalManifest(".")
		saved <- res{txt, err}
	}()
	time.Sleep(100 * time.Millisecond) // let MarshalManifest take its locks (not an oracle)
	close(release)
	select {
	case r := <-saved:
		if r.err != nil {
			t.Fatalf("MarshalManifest: %v", r.err)
		}
		fs2, err := (&Collection{ManifestText: r.txt}).FileSystem(store, store)
		if err != nil {
			t.Fatalf("saved manifest does not load: %v\n%q", err, r.txt)
		}
		for name, want := range map[string]string{"x": "Xx", "d/y": "yy"} {
			f, err := fs2.OpenFile(name, os.O_RDONLY, 0)
			if err != nil {
				t.Fatalf("open %q in saved manifest: %v\n%q", name, err, r.txt)
			}
			got, err := vfReadAll(f, 3)
			if err != nil || string(got) != want {
				t.Fatalf("%q = %q (err %v), want %q\n%q", name, got, err, want, r.txt)
			}
		}
	case <-time.After(60 * time.Second):
		buf := make([]byte, 1<<18)
		buf = buf[:runtime.Stack(buf, true)]
		t.Fatalf("deadlock: MarshalManifest did not return within 60 s after the pending Keep write completed (async Flush of x+y in flight, x overwritten, y renamed into d/)\n%s", buf)
	}
	stats.Case(stats.FP("c13-regress-rename-during-flush"), true, "regress:rename-during-async-flush")
	stats.Case(stats.FP("c13-regress-rename-during-flush-2"), true, "regress:rename-during-async-flush")
	stats.Sample("regress", "Flush(async, x+y in one block, PutB parked); Write(x,1 byte); Rename(y,d/y); MarshalManifest; release PutB")
}
