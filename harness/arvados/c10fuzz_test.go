package arvados

import (
	"fmt"
	"os"
	"testing"

	"verif.local/vcommon/mgen"
	"verif.local/vcommon/ref"
)

// Native fuzz target (thorough tier only): differential oracle against the
// reference interpreter. Whatever the bytes: no panic, all-or-nothing result;
// if the reference accepts the text as a valid manifest, the loader must
// accept it too and map every path to the same segments; the PDH must match.
func FuzzVerifC10Loader(f *testing.F) {
	for _, s := range vfFuzzSeeds {
		f.Add(s)
	}
	f.Fuzz(func(t *testing.T, txt string) {
		store := newVfStore()
		fs, err := (&Collection{ManifestText: txt}).FileSystem(store, store)
		if (err == nil) != (fs != nil) {
			t.Fatalf("FileSystem(%q): fs=%v err=%v", txt, fs != nil, err)
		}
		pdh := PortableDataHash(txt)
		(&Collection{ManifestText: txt}).SizedDigests()
		refp, rerr := mgen.Interpret(txt, mgen.Options{})
		if rerr != nil {
			return
		}
		for _, st := range refp.Streams {
			for _, sz := range st.Sizes {
				if sz > 1<<31-1 {
					return // block sizes beyond the 32-bit limit the loader documents
				}
			}
		}
		if pdh != ref.PDH(txt) {
			t.Fatalf("PortableDataHash(%q) = %q, reference %q", txt, pdh, ref.PDH(txt))
		}
		if err != nil {
			t.Fatalf("valid manifest rejected by the loader: %v\n%q", err, txt)
		}
		for _, p := range refp.Paths {
			fh, err := fs.OpenFile(p, os.O_RDONLY, 0)
			if err != nil {
				t.Fatalf("open %q: %v\n%q", p, err, txt)
			}
			fn, ok := fh.(*filehandle).inode.(*filenode)
			if !ok {
				t.Fatalf("%q is not a file\n%q", p, txt)
			}
			var segs, want []vfSeg
			for _, s := range fn.segments {
				ss := s.(storedSegment)
				segs = append(segs, vfSeg{ss.locator, int64(ss.offset), int64(ss.length)})
			}
			for _, s := range refp.Segs[p] {
				want = append(want, vfSeg{s.Loc, s.Off, s.Len})
			}
			if g, w := vfNormSegs(segs), vfNormSegs(want); fmt.Sprint(g) != fmt.Sprint(w) {
				t.Fatalf("path %q: loader %v, reference %v\n%q", p, g, w, txt)
			}
		}
	})
}

var vfFuzzSeeds = []string{
	"",
	". d41d8cd98f00b204e9800998ecf8427e+0 0:0:a\n",
	". 930625b054ce894ac40596c3f5a0d947+33 0:0:a 0:0:b 0:33:output.txt\n./c d41d8cd98f00b204e9800998ecf8427e+0 0:0:d\n",
	". d41d8cd98f00b204e9800998ecf8427e+0 d41d8cd98f00b204e9800998ecf8427e+0 acbd18db4cc2f85cedef654fccc4a4d8+3 0:1:a 1:0:a 1:2:a\\040b 3:0:c/d\n",
	"./a\\040b acbd18db4cc2f85cedef654fccc4a4d8+3+Afoo@bar+Zx 37b51d194a7513e45b56f6524f2d51f2+3 2:3:x\\\\101 0:6:y\\134z 6:0:\\056\n",
	". acbd18db4cc2f85cedef654fccc4a4d8+3 0:3:a\n. acbd18db4cc2f85cedef654fccc4a4d8+3 0:3:a/b\n",
	". acbd18db4cc2f85cedef654fccc4a4d8+3 0:4:a\n",
	". acbd18db4cc2f85cedef654fccc4a4d8+3 99999999999999999999:1:a\n",
	". acbd18db4cc2f85cedef654fccc4a4d8 0:0:a\n",
	". 0:0:a\n",
	". acbd18db4cc2f85cedef654fccc4a4d8+3\n",
	". acbd18db4cc2f85cedef654fccc4a4d8+3 0:3:a",
	"  \n\n",
	". acbd18db4cc2f85cedef654fccc4a4d8+3 0:3:a 0:3:a/../b\n",
	". acbd18db4cc2f85cedef654fccc4a4d8+3 -1:3:a\n",
	". acbd18db4cc2f85cedef654fccc4a4d8+2147483648 0:0:a\n",
}
