package arvados

// C13: concurrent use of a collection filesystem never loses or mixes file
// data. Several workers run pre-drawn operation streams on their own files
// (moving them between shared directories), savers call Flush /
// MarshalManifest concurrently, and every Keep write parks in a gate whose
// release order, failures and pacing come from a pre-drawn plan.

import (
	"bytes"
	"fmt"
	"io"
	"os"
	"runtime"
	"sort"
	"strings"
	"sync"
	"sync/atomic"
	"testing"
	"time"

	"pgregory.net/rapid"
	"verif.local/vcommon/stats"
)

type c13Op struct {
	kind   string
	file   int
	n      int
	off    int64
	whence int
	dir    int
	flag   int
}

type c13State struct {
	content []byte
	from    int64 // tick before the operation that produced it started
	until   int64 // tick after the next mutating operation finished (0 = still current)
}

type c13Life struct {
	createT0, createT1 int64
	removeT0, removeT1 int64 // 0 = not removed
}

type c13File struct {
	base   string
	path   string
	exists bool
	data   []byte
	h      File
	off    int64
	app    bool
	states []c13State
	lives  []c13Life
}

type c13Save struct {
	s, e int64
	txt  string
	err  error
}

type c13Release struct {
	mode    int // 0 oldest, 1 newest, 2 k-th
	k       int
	fail    bool
	waitOps int
}

type c13Parked struct {
	id      int
	n       int
	verdict chan error
	inSave  bool
}

const c13LogPath = "shared/log"

// c13CheckLog verifies that the shared append-only file consists of whole
// records and that each worker's records appear in order without gaps: the
// first min[w] records of worker w must be there, and no more than max[w].
func c13CheckLog(data []byte, min, max []int) error {
	if len(data)%5 != 0 {
		return fmt.Errorf("length %d is not a multiple of the record size", len(data))
	}
	next := make([]int, len(max))
	for i := 0; i < len(data); i += 5 {
		rec := data[i : i+5]
		w := int(rec[0] - 'A')
		if w < 0 || w >= len(max) || rec[4] != '|' {
			return fmt.Errorf("malformed record %q at offset %d", rec, i)
		}
		var k int
		if _, err := fmt.Sscanf(string(rec[1:4]), "%03d", &k); err != nil {
			return fmt.Errorf("malformed record %q at offset %d", rec, i)
		}
		if k != next[w]%1000 {
			return fmt.Errorf("record %q at offset %d: worker %c's record #%d expected next (a record was lost, duplicated or reordered)", rec, i, rec[0], next[w])
		}
		next[w]++
	}
	for w := range max {
		if next[w] < min[w] || next[w] > max[w] {
			return fmt.Errorf("worker %c has %d records in the log, expected between %d and %d", 'A'+w, next[w], min[w], max[w])
		}
	}
	return nil
}

type c13Run struct {
	logCount    []int // records appended so far, per worker (each entry written by its worker only)
	fs          CollectionFileSystem
	store       *vfStore
	clock       int64
	fgOps       int64 // completed foreground operations
	saving      int32 // savers currently inside MarshalManifest
	mu          sync.Mutex
	parked      []*c13Parked
	nextID      int
	plan        []c13Release
	planIdx     int
	released    int
	bgWhileFg   int
	reordered   int
	failedPut   int
	failedSv    int
	stopGate    chan struct{}
	wake        chan struct{}
	workersUp   int32
	passThrough int32
	events      []string
	evMu        sync.Mutex
	errs        chan string
}

func (r *c13Run) tick() int64 { return atomic.AddInt64(&r.clock, 1) }

func (r *c13Run) event(format string, a ...interface{}) {
	r.evMu.Lock()
	if len(r.events) < 3000 {
		r.events = append(r.events, fmt.Sprintf("t%d ", atomic.LoadInt64(&r.clock))+fmt.Sprintf(format, a...))
	}
	r.evMu.Unlock()
}

func (r *c13Run) failf(format string, a ...interface{}) {
	select {
	case r.errs <- fmt.Sprintf(format, a...):
	default:
	}
}

// gate is installed as vfStore.gate: every PutB parks here.
func (r *c13Run) gate(p []byte) error {
	if atomic.LoadInt32(&r.passThrough) == 1 {
		return nil
	}
	pk := &c13Parked{n: len(p), verdict: make(chan error, 1), inSave: atomic.LoadInt32(&r.saving) > 0}
	r.mu.Lock()
	r.nextID++
	pk.id = r.nextID
	r.parked = append(r.parked, pk)
	r.mu.Unlock()
	if atomic.LoadInt32(&r.passThrough) == 1 {
		// the controller may already have drained and left
		r.mu.Lock()
		for i, x := range r.parked {
			if x == pk {
				r.parked = append(r.parked[:i], r.parked[i+1:]...)
				r.mu.Unlock()
				return nil
			}
		}
		r.mu.Unlock()
	}
	select {
	case r.wake <- struct{}{}:
	default:
	}
	return <-pk.verdict
}

// controller releases parked writes according to the plan.
func (r *c13Run) controller(done chan struct{}) {
	defer close(done)
	lastFg := atomic.LoadInt64(&r.fgOps)
	lastProgress := time.Now()
	opsAtLastRelease := lastFg
	for {
		select {
		case <-r.stopGate:
			// release everything that is left, successfully
			r.mu.Lock()
			for _, pk := range r.parked {
				pk.verdict <- nil
			}
			r.parked = nil
			r.mu.Unlock()
			// keep serving late arrivals until told twice
			select {
			case <-r.wake:
				continue
			case <-time.After(2 * time.Millisecond):
			}
			r.mu.Lock()
			n := len(r.parked)
			r.mu.Unlock()
			if n == 0 {
				return
			}
			continue
		case <-r.wake:
		case <-time.After(500 * time.Microsecond):
		}
		fg := atomic.LoadInt64(&r.fgOps)
		if fg != lastFg {
			lastFg = fg
			lastProgress = time.Now()
		}
		r.mu.Lock()
		if len(r.parked) == 0 {
			r.mu.Unlock()
			continue
		}
		rel := c13Release{}
		if r.planIdx < len(r.plan) {
			rel = r.plan[r.planIdx]
		}
		saving := atomic.LoadInt32(&r.saving) > 0
		stalled := time.Since(lastProgress) > 20*time.Millisecond
		ready := saving || stalled || fg-opsAtLastRelease >= int64(rel.waitOps)
		if !ready {
			r.mu.Unlock()
			continue
		}
		idx := 0
		switch rel.mode {
		case 1:
			idx = len(r.parked) - 1
		case 2:
			idx = rel.k % len(r.parked)
		}
		if stalled && !saving {
			idx = 0 // progress rule: oldest
		}
		pk := r.parked[idx]
		r.parked = append(r.parked[:idx], r.parked[idx+1:]...)
		if idx != 0 {
			r.reordered++
		}
		r.planIdx++
		r.released++
		if !pk.inSave && atomic.LoadInt32(&r.workersUp) > 0 {
			r.bgWhileFg++
		}
		var verdict error
		if rel.fail {
			verdict = errVfInjected
			r.failedPut++
			if pk.inSave {
				r.failedSv++
			}
		}
		r.mu.Unlock()
		r.event("gate: release write #%d (%d bytes, inSave=%v) fail=%v", pk.id, pk.n, pk.inSave, rel.fail)
		pk.verdict <- verdict
		opsAtLastRelease = fg
		lastProgress = time.Now()
	}
}

// c13PickStored returns offset and length of the choice-th stored segment of
// the file behind h (or a 1-byte range in its middle).
func c13PickStored(h File, choice int, middle bool) (int64, int) {
	fh, ok := h.(*filehandle)
	if !ok {
		return 0, 0
	}
	fn, ok := fh.inode.(*filenode)
	if !ok {
		return 0, 0
	}
	fn.RLock()
	defer fn.RUnlock()
	type rng struct {
		off int64
		n   int
	}
	var stored []rng
	var pos int64
	for _, seg := range fn.segments {
		if _, ok := seg.(storedSegment); ok && seg.Len() > 0 && (!middle || seg.Len() >= 3) {
			stored = append(stored, rng{pos, seg.Len()})
		}
		pos += int64(seg.Len())
	}
	if len(stored) == 0 {
		return 0, 0
	}
	c := stored[choice%len(stored)]
	if middle {
		return c.off + int64(1+choice%(c.n-2)), 1
	}
	return c.off, c.n
}

func c13Pattern(w, seq, n int) []byte {
	b := make([]byte, n)
	for i := range b {
		b[i] = byte('a'+w) + byte(0) // worker letter
		if i%2 == 1 {
			b[i] = byte('0' + (seq+i)%10)
		}
	}
	return b
}

func (r *c13Run) worker(w int, files []*c13File, ops []c13Op, dirs []string, wg *sync.WaitGroup) {
	defer wg.Done()
	defer atomic.AddInt32(&r.workersUp, -1)
	seq := 0
	mutate := func(f *c13File, t0 int64, newData []byte) {
		t1 := r.tick()
		if n := len(f.states); n > 0 {
			f.states[n-1].until = t1
		}
		f.data = newData
		f.states = append(f.states, c13State{content: append([]byte(nil), newData...), from: t0})
	}
	// every worker also appends fixed-size records to one shared file through
	// its own O_APPEND handle
	logh, err := r.fs.OpenFile(c13LogPath, os.O_WRONLY|os.O_APPEND, 0644)
	if err != nil {
		r.failf("worker %d: open shared log: %v", w, err)
		return
	}
	defer logh.Close()
	for i, op := range ops {
		f := files[op.file]
		switch op.kind {
		case "logappend":
			rec := fmt.Sprintf("%c%03d|", 'A'+w, r.logCount[w]%1000)
			n, err := logh.Write([]byte(rec))
			if err != nil || n != len(rec) {
				r.failf("worker %d op %d: append to shared log = %d, %v", w, i, n, err)
				return
			}
			r.logCount[w]++
			r.event("w%d logappend %s", w, rec)
		case "open":
			if f.h != nil {
				f.h.Close()
				f.h = nil
			}
			flag := os.O_RDWR
			if !f.exists {
				flag |= os.O_CREATE
			} else {
				flag |= op.flag & (os.O_TRUNC | os.O_APPEND)
			}
			t0 := r.tick()
			h, err := r.fs.OpenFile(f.path, flag, 0644)
			if err != nil {
				r.failf("worker %d op %d: OpenFile(%q, %#x): %v", w, i, f.path, flag, err)
				return
			}
			f.h, f.off, f.app = h, 0, flag&os.O_APPEND != 0
			if !f.exists {
				f.exists = true
				t1 := r.tick()
				f.lives = append(f.lives, c13Life{createT0: t0, createT1: t1})
				if n := len(f.states); n > 0 {
					f.states[n-1].until = t1
				}
				f.data = nil
				f.states = append(f.states, c13State{from: t0})
			} else if flag&os.O_TRUNC != 0 {
				mutate(f, t0, nil)
			}
			r.event("w%d open %q flag=%#x", w, f.path, flag)
		case "overseg", "poke":
			// Aimed writes: "overseg" overwrites exactly one stored (flushed)
			// segment of the file, "poke" writes one byte into the middle of
			// one. The choice looks at the real segment list, the oracle does
			// not.
			if f.h == nil || !f.exists || f.app {
				continue
			}
			off, n := c13PickStored(f.h, op.n, op.kind == "poke")
			if n == 0 {
				continue
			}
			if pos, err := f.h.Seek(off, io.SeekStart); err != nil || pos != off {
				r.failf("worker %d op %d: Seek(%q, %d) = %d, %v", w, i, f.path, off, pos, err)
				return
			}
			f.off = off
			op.n = n
			fallthrough
		case "write":
			if f.h == nil || !f.exists {
				continue
			}
			seq++
			data := c13Pattern(w, seq, op.n)
			t0 := r.tick()
			n, err := f.h.Write(data)
			if err != nil || n != len(data) {
				r.failf("worker %d op %d: Write(%q, %d bytes at %d) = %d, %v", w, i, f.path, len(data), f.off, n, err)
				return
			}
			off := f.off
			if f.app {
				off = int64(len(f.data))
			}
			nd := append([]byte(nil), f.data...)
			if end := off + int64(len(data)); end > int64(len(nd)) {
				nd = append(nd, make([]byte, end-int64(len(nd)))...)
			}
			copy(nd[off:], data)
			f.off = off + int64(len(data))
			mutate(f, t0, nd)
			r.event("w%d write %q off=%d len=%d", w, f.path, off, len(data))
		case "truncate":
			if f.h == nil || !f.exists {
				continue
			}
			size := int64(op.n)
			t0 := r.tick()
			if err := f.h.Truncate(size); err != nil {
				r.failf("worker %d op %d: Truncate(%q, %d): %v", w, i, f.path, size, err)
				return
			}
			nd := append([]byte(nil), f.data...)
			if size < int64(len(nd)) {
				nd = nd[:size]
			} else {
				nd = append(nd, make([]byte, size-int64(len(nd)))...)
			}
			mutate(f, t0, nd)
			r.event("w%d truncate %q -> %d", w, f.path, size)
		case "seek":
			if f.h == nil || !f.exists {
				continue
			}
			target := op.off
			if target > int64(len(f.data))+8 {
				target = int64(len(f.data)) + 8
			}
			pos, err := f.h.Seek(target, io.SeekStart)
			if err != nil || pos != target {
				r.failf("worker %d op %d: Seek(%q, %d) = %d, %v", w, i, f.path, target, pos, err)
				return
			}
			f.off = target
		case "read":
			if f.h == nil || !f.exists {
				continue
			}
			buf := make([]byte, op.n)
			n, err := f.h.Read(buf)
			size := int64(len(f.data))
			if err != nil && err != io.EOF {
				r.failf("worker %d op %d: Read(%q at %d/%d): %v", w, i, f.path, f.off, size, err)
				return
			}
			if len(buf) > 0 {
				if f.off >= size {
					if n != 0 || err != io.EOF {
						r.failf("worker %d op %d: Read(%q) at EOF %d/%d returned %d, %v", w, i, f.path, f.off, size, n, err)
						return
					}
				} else {
					if n < 1 || int64(n) > size-f.off {
						r.failf("worker %d op %d: Read(%q at %d/%d, buf %d) returned n=%d err=%v", w, i, f.path, f.off, size, len(buf), n, err)
						return
					}
					if want := f.data[f.off : f.off+int64(n)]; !bytes.Equal(buf[:n], want) {
						r.failf("worker %d op %d: Read(%q at %d/%d) returned %q, the owner's model has %q", w, i, f.path, f.off, size, buf[:n], want)
						return
					}
					f.off += int64(n)
				}
			}
		case "readall":
			if !f.exists {
				continue
			}
			h, err := r.fs.OpenFile(f.path, os.O_RDONLY, 0)
			if err != nil {
				r.failf("worker %d op %d: open %q for reading: %v", w, i, f.path, err)
				return
			}
			got, err := vfReadAll(h, 1+op.n%5)
			h.Close()
			if err != nil || !bytes.Equal(got, f.data) {
				r.failf("worker %d op %d: file %q reads %q (err %v), the owner's model has %q", w, i, f.path, got, err, f.data)
				return
			}
		case "move":
			if !f.exists {
				continue
			}
			np := vfJoin(dirs[op.dir%len(dirs)], f.base)
			if np == f.path {
				continue
			}
			if err := r.fs.Rename(f.path, np); err != nil {
				r.failf("worker %d op %d: Rename(%q, %q): %v", w, i, f.path, np, err)
				return
			}
			r.event("w%d move %q -> %q", w, f.path, np)
			f.path = np
		case "remove":
			if !f.exists {
				continue
			}
			t0 := r.tick()
			if err := r.fs.Remove(f.path); err != nil {
				r.failf("worker %d op %d: Remove(%q): %v", w, i, f.path, err)
				return
			}
			t1 := r.tick()
			f.exists = false
			f.lives[len(f.lives)-1].removeT0, f.lives[len(f.lives)-1].removeT1 = t0, t1
			if n := len(f.states); n > 0 {
				f.states[n-1].until = t1
			}
			if f.h != nil {
				f.h.Close()
				f.h = nil
			}
			r.event("w%d remove %q", w, f.path)
		}
		atomic.AddInt64(&r.fgOps, 1)
		if i%3 == 0 {
			runtime.Gosched()
		}
	}
}

func (r *c13Run) saver(id int, nsaves int, gaps []int, flushPlan []bool, saves *[]c13Save, mu *sync.Mutex, stop *int32, wg *sync.WaitGroup) {
	defer wg.Done()
	for k := 0; k < nsaves && atomic.LoadInt32(stop) == 0; k++ {
		// wait for a few foreground operations
		target := atomic.LoadInt64(&r.fgOps) + int64(gaps[k%len(gaps)])
		deadline := time.Now().Add(5 * time.Millisecond)
		for atomic.LoadInt64(&r.fgOps) < target && time.Now().Before(deadline) && atomic.LoadInt32(stop) == 0 {
			runtime.Gosched()
		}
		if flushPlan[(2*k)%len(flushPlan)] {
			if err := r.fs.Flush("", flushPlan[(2*k+1)%len(flushPlan)]); err != nil {
				r.failf("saver %d: Flush: %v", id, err)
				return
			}
			r.event("saver%d flush", id)
		}
		s := r.tick()
		atomic.AddInt32(&r.saving, 1)
		txt, err := r.fs.MarshalManifest(".")
		atomic.AddInt32(&r.saving, -1)
		e := r.tick()
		r.event("saver%d save [%d,%d] err=%v len=%d", id, s, e, err, len(txt))
		mu.Lock()
		*saves = append(*saves, c13Save{s: s, e: e, txt: txt, err: err})
		mu.Unlock()
	}
}

func c13Walk(fs FileSystem, dir string, out map[string][]string) error {
	f, err := fs.OpenFile(dir, os.O_RDONLY, 0)
	if err != nil {
		return err
	}
	ents, err := f.Readdir(-1)
	f.Close()
	if err != nil {
		return err
	}
	for _, e := range ents {
		p := dir + "/" + e.Name()
		if e.IsDir() {
			if err := c13Walk(fs, p, out); err != nil {
				return err
			}
		} else {
			out[e.Name()] = append(out[e.Name()], p)
		}
	}
	return nil
}

func c13Case(t *rapid.T) {
	oldBS, oldCW := maxBlockSize, concurrentWriters
	bs := rapid.IntRange(2, 16).Draw(t, "blockSize")
	unit := bs
	if rapid.IntRange(0, 3).Draw(t, "largeLimit") == 0 {
		// a block limit far above the data size: nothing is flushed by the
		// writes themselves, only the savers' asynchronous Flush calls pack
		// several small segments into shared blocks
		bs = rapid.SampledFrom([]int{64, 1 << 26}).Draw(t, "largeBlockSize")
		unit = rapid.SampledFrom([]int{3, 4, 8}).Draw(t, "unit")
	}
	cw := rapid.IntRange(1, 4).Draw(t, "concurrentWriters")
	maxBlockSize, concurrentWriters = bs, cw
	defer func() { maxBlockSize, concurrentWriters = oldBS, oldCW }()

	nworkers := rapid.IntRange(2, 8).Draw(t, "workers")
	nsavers := rapid.IntRange(1, 2).Draw(t, "savers")
	dirs := []string{"", "shared", "shared2"}
	allFiles := make([][]*c13File, nworkers)
	allOps := make([][]c13Op, nworkers)
	kinds := []string{"open", "write", "write", "write", "write", "truncate", "seek", "read", "read", "readall", "move", "remove", "overseg", "overseg", "poke", "poke", "logappend", "logappend"}
	for w := 0; w < nworkers; w++ {
		nf := rapid.IntRange(1, 3).Draw(t, "files")
		for j := 0; j < nf; j++ {
			base := fmt.Sprintf("w%d_f%d", w, j)
			allFiles[w] = append(allFiles[w], &c13File{base: base, path: vfJoin(dirs[(w+j)%len(dirs)], base)})
		}
		nops := rapid.IntRange(5, 40).Draw(t, "nops")
		for i := 0; i < nops; i++ {
			op := c13Op{kind: rapid.SampledFrom(kinds).Draw(t, "op"), file: rapid.IntRange(0, nf-1).Draw(t, "file")}
			if i < nf {
				op = c13Op{kind: "open", file: i}
			}
			switch op.kind {
			case "open":
				op.flag = rapid.SampledFrom([]int{0, 0, os.O_TRUNC, os.O_APPEND}).Draw(t, "flag")
			case "write":
				op.n = rapid.SampledFrom([]int{1, unit - 1, unit, unit + 1, 2 * unit, 3*unit + 1, rapid.IntRange(0, 3*unit).Draw(t, "wn")}).Draw(t, "writeLen")
			case "truncate":
				op.n = rapid.IntRange(0, 4*unit).Draw(t, "truncTo")
			case "seek":
				op.off = int64(rapid.IntRange(0, 4*unit).Draw(t, "seekTo"))
			case "overseg", "poke":
				op.n = rapid.IntRange(0, 1000).Draw(t, "segChoice")
			case "read", "readall":
				op.n = rapid.IntRange(1, 2*unit+1).Draw(t, "readLen")
			case "move":
				op.dir = rapid.IntRange(0, len(dirs)-1).Draw(t, "toDir")
			}
			allOps[w] = append(allOps[w], op)
		}
	}
	nplan := rapid.IntRange(8, 60).Draw(t, "planLen")
	failPct := rapid.SampledFrom([]int{0, 0, 10, 30}).Draw(t, "failPct")
	var plan []c13Release
	for i := 0; i < nplan; i++ {
		plan = append(plan, c13Release{
			mode:    rapid.IntRange(0, 2).Draw(t, "relMode"),
			k:       rapid.IntRange(0, 7).Draw(t, "relK"),
			fail:    rapid.IntRange(0, 99).Draw(t, "relFail") < failPct,
			waitOps: rapid.IntRange(0, 6).Draw(t, "relWait"),
		})
	}
	saveGaps := rapid.SliceOfN(rapid.IntRange(0, 12), 3, 3).Draw(t, "saveGaps")
	nsaves := rapid.IntRange(1, 6).Draw(t, "nsaves")
	flushPlan := rapid.SliceOfN(rapid.Bool(), 12, 12).Draw(t, "flushPlan")

	store := newVfStore()
	r := &c13Run{store: store, plan: plan, stopGate: make(chan struct{}), wake: make(chan struct{}, 1), errs: make(chan string, 1)}
	store.gate = r.gate
	fs, err := (&Collection{}).FileSystem(store, store)
	if err != nil {
		t.Fatalf("VERIF-INFRA: %v", err)
	}
	r.fs = fs
	for _, d := range dirs[1:] {
		if err := fs.Mkdir(d, 0755); err != nil {
			t.Fatalf("VERIF-INFRA: mkdir %q: %v", d, err)
		}
	}
	r.logCount = make([]int, nworkers)
	if lf, err := fs.OpenFile(c13LogPath, os.O_CREATE|os.O_WRONLY, 0644); err != nil {
		t.Fatalf("VERIF-INFRA: create shared log: %v", err)
	} else {
		lf.Close()
	}
	finished := make(chan struct{})
	var saves []c13Save
	var savesMu sync.Mutex
	go func() {
		defer close(finished)
		ctlDone := make(chan struct{})
		go r.controller(ctlDone)
		var wg, swg sync.WaitGroup
		var stop int32
		atomic.StoreInt32(&r.workersUp, int32(nworkers))
		for w := 0; w < nworkers; w++ {
			wg.Add(1)
			go r.worker(w, allFiles[w], allOps[w], dirs, &wg)
		}
		for s := 0; s < nsavers; s++ {
			swg.Add(1)
			go r.saver(s, nsaves, saveGaps, flushPlan, &saves, &savesMu, &stop, &swg)
		}
		wg.Wait()
		atomic.StoreInt32(&stop, 1)
		swg.Wait()
		atomic.StoreInt32(&r.passThrough, 1)
		close(r.stopGate)
		<-ctlDone
	}()
	select {
	case <-finished:
	case <-time.After(90 * time.Second):
		buf := make([]byte, 1<<20)
		buf = buf[:runtime.Stack(buf, true)]
		r.mu.Lock()
		np := len(r.parked)
		r.mu.Unlock()
		path := os.Getenv("VERIF_WORK") + "/c13-deadlock.txt"
		os.WriteFile(path, append([]byte(strings.Join(r.events, "\n")+"\n\n"), buf...), 0644)
		fmt.Printf("VERIF-REPLAY: %s\n", path)
		t.Fatalf("no progress for 90 s with %d Keep writes parked (workers/savers blocked): deadlock; goroutine dump in %s", np, path)
	}
	select {
	case msg := <-r.errs:
		ev := r.events
		if len(ev) > 150 {
			ev = ev[len(ev)-150:]
		}
		t.Fatalf("%s\nblockSize=%d concurrentWriters=%d workers=%d\nlast events:\n  %s", msg, bs, cw, nworkers, strings.Join(ev, "\n  "))
	default:
	}
	// quiescence: let background goroutines finish
	for _, fl := range allFiles {
		for _, f := range fl {
			if f.h != nil {
				if fh, ok := f.h.(*filehandle); ok {
					if fn, ok := fh.inode.(*filenode); ok {
						fn.waitPrune()
					}
				}
			}
		}
	}
	// (ii) final tree equals the union of the owners' models
	found := map[string][]string{}
	if err := c13Walk(fs, ".", found); err != nil {
		t.Fatalf("walking the final tree: %v", err)
	}
	nfiles := 0
	for _, fl := range allFiles {
		for _, f := range fl {
			paths := found[f.base]
			if !f.exists {
				if len(paths) != 0 {
					t.Fatalf("file %q was removed by its owner but exists at %v", f.base, paths)
				}
				continue
			}
			nfiles++
			if len(paths) != 1 || paths[0] != "./"+f.path {
				t.Fatalf("file %q should be at %q, found at %v", f.base, "./"+f.path, paths)
			}
			h, err := fs.OpenFile(f.path, os.O_RDONLY, 0)
			if err != nil {
				t.Fatalf("open %q: %v", f.path, err)
			}
			got, err := vfReadAll(h, 4)
			h.Close()
			if err != nil || !bytes.Equal(got, f.data) {
				t.Fatalf("final content of %q is %q (err %v); applying the owner's operations in order gives %q\nevents:\n  %s", f.path, got, err, f.data, strings.Join(r.events, "\n  "))
			}
		}
	}
	if lp := found["log"]; len(lp) != 1 || lp[0] != "./"+c13LogPath {
		t.Fatalf("shared log should be at %q, found at %v", "./"+c13LogPath, lp)
	}
	delete(found, "log")
	if len(found) != nfiles {
		t.Fatalf("final tree has %d distinct file names, models have %d: %v", len(found), nfiles, found)
	}
	{
		h, err := fs.OpenFile(c13LogPath, os.O_RDONLY, 0)
		if err != nil {
			t.Fatalf("open shared log: %v", err)
		}
		data, err := vfReadAll(h, 7)
		h.Close()
		if err != nil {
			t.Fatalf("read shared log: %v", err)
		}
		if err := c13CheckLog(data, r.logCount, r.logCount); err != nil {
			t.Fatalf("shared append-only log (each worker appends through its own O_APPEND handle): %v\nlog %q\nevents:\n  %s", err, data, strings.Join(r.events, "\n  "))
		}
	}
	// final save must succeed (no more injected failures) and reproduce the tree
	finalTxt, err := fs.MarshalManifest(".")
	if err != nil {
		t.Fatalf("final MarshalManifest failed: %v", err)
	}
	saves = append(saves, c13Save{s: r.tick(), e: r.tick(), txt: finalTxt})
	// (iii) every manifest obtained by a saver loads and holds contents the files passed through
	byBase := map[string]*c13File{}
	for _, fl := range allFiles {
		for _, f := range fl {
			byBase[f.base] = f
		}
	}
	overlapped := 0
	for si, sv := range saves {
		if sv.err != nil {
			if r.failedPut == 0 {
				t.Fatalf("save #%d failed (%v) although no Keep write failure was injected", si, sv.err)
			}
			continue
		}
		fs2, err := (&Collection{ManifestText: sv.txt}).FileSystem(store, store)
		if err != nil {
			t.Fatalf("manifest from save #%d does not load: %v\n%q", si, err, sv.txt)
		}
		snap := map[string][]string{}
		if err := c13Walk(fs2, ".", snap); err != nil {
			t.Fatalf("walking save #%d: %v", si, err)
		}
		if lp := snap["log"]; len(lp) == 1 {
			h, err := fs2.OpenFile(lp[0], os.O_RDONLY, 0)
			if err != nil {
				t.Fatalf("save #%d: open shared log: %v", si, err)
			}
			data, err := vfReadAll(h, 5)
			h.Close()
			if err != nil {
				t.Fatalf("save #%d: read shared log: %v", si, err)
			}
			if err := c13CheckLog(data, make([]int, nworkers), r.logCount); err != nil {
				t.Fatalf("save #%d: shared log in the saved manifest: %v\nlog %q", si, err, data)
			}
		} else {
			t.Fatalf("save #%d: shared log appears %d times in the saved manifest", si, len(lp))
		}
		delete(snap, "log")
		for base, paths := range snap {
			f := byBase[base]
			if f == nil {
				t.Fatalf("save #%d contains %v, a file nobody created", si, paths)
			}
			if len(paths) != 1 {
				t.Fatalf("save #%d contains file %q %d times: %v", si, base, len(paths), paths)
			}
			may := false
			for _, l := range f.lives {
				if l.createT0 <= sv.e && (l.removeT1 == 0 || l.removeT1 >= sv.s) {
					may = true
				}
			}
			if !may {
				t.Fatalf("save #%d [%d,%d] contains %q, which did not exist at any time during the save (lives %+v)", si, sv.s, sv.e, paths[0], f.lives)
			}
			h, err := fs2.OpenFile(paths[0], os.O_RDONLY, 0)
			if err != nil {
				t.Fatalf("save #%d: open %q: %v", si, paths[0], err)
			}
			got, err := vfReadAll(h, 5)
			h.Close()
			if err != nil {
				t.Fatalf("save #%d: reading %q: %v", si, paths[0], err)
			}
			ok := false
			var allowed []string
			for _, st := range f.states {
				if st.from <= sv.e && (st.until == 0 || st.until >= sv.s) {
					allowed = append(allowed, fmt.Sprintf("%q", st.content))
					if bytes.Equal(st.content, got) {
						ok = true
					}
				}
			}
			if !ok {
				t.Fatalf("save #%d [%d,%d]: file %q holds %q, which is none of the contents it had during the save: %s\nevents:\n  %s", si, sv.s, sv.e, paths[0], got, strings.Join(allowed, ", "), strings.Join(r.events, "\n  "))
			}
		}
		for base, f := range byBase {
			for _, l := range f.lives {
				if l.createT1 <= sv.s && (l.removeT0 == 0 || l.removeT0 >= sv.e) && len(snap[base]) == 0 {
					t.Fatalf("save #%d [%d,%d] misses file %q, which existed throughout the save (life %+v)\nmanifest %q", si, sv.s, sv.e, base, l, sv.txt)
				}
			}
		}
		if si < len(saves)-1 {
			overlapped++
		}
	}
	nontrivial := r.bgWhileFg > 0 && overlapped > 0
	labels := []string{
		fmt.Sprintf("workers=%d", nworkers),
		fmt.Sprintf("large-block-limit=%v", bs > 16),
		"bg-writes-released-while-workers-ran>0=" + fmt.Sprint(r.bgWhileFg > 0),
		"out-of-order-release>0=" + fmt.Sprint(r.reordered > 0),
		"injected-write-failure>0=" + fmt.Sprint(r.failedPut > 0),
		"failed-save>0=" + fmt.Sprint(r.failedSv > 0),
		"concurrent-saves>0=" + fmt.Sprint(overlapped > 0),
	}
	sort.Strings(labels)
	stats.Case(stats.FP("c13", bs, cw, strings.Join(r.events, "\n")), nontrivial, labels...)
	stats.InfoAdd("c13_keep_writes_released", int64(r.released))
	stats.InfoAdd("c13_bg_writes_released_while_workers_ran", int64(r.bgWhileFg))
	stats.InfoAdd("c13_saves_checked", int64(len(saves)))
	if nontrivial && stats.WantSample("c13-events") {
		ev := r.events
		if len(ev) > 60 {
			ev = ev[:60]
		}
		stats.Sample("c13-events", map[string]interface{}{"blockSize": bs, "concurrentWriters": cw, "workers": nworkers, "first_events": ev})
	}
}

func TestVerifC13Concurrent(t *testing.T) {
	defer stats.Flush()
	rapid.Check(t, c13Case)
}
