package arvados

import (
	"testing"

	"pgregory.net/rapid"
	"verif.local/vcommon/mgen"
	"verif.local/vcommon/stats"
)

var vfPlainNames = []string{"a", "b", "c", "d e", ".x"}

func vfDrawInitial(t *rapid.T, plain bool) *mgen.Manifest {
	if rapid.IntRange(0, 2).Draw(t, "startEmpty") == 0 {
		return nil
	}
	return mgen.Gen(t, mgen.GenOpts{PlainNames: plain, WideBytes: !plain, MaxStreams: 3, MaxFiles: 4})
}

// C08: the collection filesystem behaves like an in-memory filesystem.
func TestVerifC08Machine(t *testing.T) {
	defer stats.Flush()
	rapid.Check(t, func(t *rapid.T) {
		bs := rapid.SampledFrom([]int{1, 2, 3, 5, 8, 13, 32, 64}).Draw(t, "blockSize")
		names := append([]string(nil), vfPlainNames...)
		initial := vfDrawInitial(t, true)
		if initial != nil {
			// make some loaded names reachable by the operation generator
			names = append(names, "foo", "bar.txt", "x1")
		}
		vfRunMachine(t, vfCfg{
			prop:       "C08",
			blockSize:  bs,
			unit:       bs,
			writers:    rapid.IntRange(1, 4).Draw(t, "writers"),
			names:      names,
			settle:     rapid.IntRange(0, 3).Draw(t, "settle") > 0,
			initial:    initial,
			maxHandles: 10,
		})
	})
}

// C08 smoke run at the production block size limit (64 MiB).
func TestVerifC08Production(t *testing.T) {
	defer stats.Flush()
	rapid.Check(t, func(t *rapid.T) {
		vfRunMachine(t, vfCfg{
			prop:       "C08",
			blockSize:  1 << 26,
			unit:       rapid.SampledFrom([]int{7, 64, 1000, 5000, 70000}).Draw(t, "unit"),
			writers:    4,
			names:      vfPlainNames,
			settle:     true,
			initial:    vfDrawInitial(t, true),
			maxHandles: 10,
		})
	})
}
