//go:build verif
// +build verif

package arvados

// VerifC17SetMaxBlockSize changes the collection filesystem's block size
// limit (unexported package variable maxBlockSize) and returns the previous
// value. Only compiled into verification binaries (build tag verif).
func VerifC17SetMaxBlockSize(n int) (old int) {
	old = maxBlockSize
	maxBlockSize = n
	return old
}
