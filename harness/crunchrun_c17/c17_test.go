package crunchrun

// C17: a container's saved output is exactly what it left in its output
// directory.
//
// Drive: the real (&copier{...}).Copy() over a real directory tree under
// /dev/shm, an in-memory Keep stub and a stub API client that serves the
// manifests of the mounted collections.
//
// Oracle: an in-memory model of the generated tree is resolved "the
// documented way" (copier doc comment) by c17Exp.walk, which shares no code
// with copier.go; the returned manifest is read by the reference interpreter
// of the manifest format (vcommon/mgen) over the stub Keep contents plus the
// mounted collections' block stores.

import (
	"bytes"
	"crypto/md5"
	"encoding/json"
	"errors"
	"fmt"
	"io"
	"os"
	"path"
	"runtime/debug"
	"sort"
	"strings"
	"sync"
	"syscall"
	"testing"
	"time"

	"git.arvados.org/arvados.git/sdk/go/arvados"
	"git.arvados.org/arvados.git/sdk/go/arvadosclient"
	"git.arvados.org/arvados.git/sdk/go/manifest"
	"pgregory.net/rapid"
	"verif.local/vcommon/mgen"
	"verif.local/vcommon/ref"
	"verif.local/vcommon/stats"
)

// ---------------------------------------------------------------- stubs

type c17Keep struct {
	mu     sync.Mutex
	blocks map[string][]byte // md5 hex -> data (PutB'd by the code under test)
	extra  map[string][]byte // blocks of the mounted collections (never PutB'd)
	puts   [][]byte
	issued map[string]bool // locators returned by PutB
	reads  int
}

func c17NewKeep() *c17Keep {
	return &c17Keep{blocks: map[string][]byte{}, extra: map[string][]byte{}, issued: map[string]bool{}}
}

func (k *c17Keep) PutB(buf []byte) (string, int, error) {
	k.mu.Lock()
	defer k.mu.Unlock()
	data := append([]byte(nil), buf...)
	sum := md5.Sum(data)
	h := fmt.Sprintf("%x", sum)
	k.blocks[h] = data
	k.puts = append(k.puts, data)
	// a signed locator, as a real Keep service returns
	loc := fmt.Sprintf("%s+%d+A%x%x@%08x", h, len(data), sum, sum[:4], 0x7fff0000+len(k.puts))
	k.issued[loc] = true
	return loc, 2, nil
}

func (k *c17Keep) ReadAt(locator string, p []byte, off int) (int, error) {
	k.mu.Lock()
	defer k.mu.Unlock()
	k.reads++
	if len(locator) < 32 {
		return 0, errors.New("stub keep: bad locator " + locator)
	}
	data, ok := k.blocks[locator[:32]]
	if !ok {
		data, ok = k.extra[locator[:32]]
	}
	if !ok {
		return 0, os.ErrNotExist
	}
	if off > len(data) {
		return 0, io.EOF
	}
	n := copy(p, data[off:])
	if n < len(p) {
		return n, io.EOF
	}
	return n, nil
}

func (k *c17Keep) LocalLocator(locator string) (string, error) { return locator, nil }
func (k *c17Keep) ClearBlockCache()                            {}
func (k *c17Keep) ManifestFileReader(m manifest.Manifest, filename string) (arvados.File, error) {
	return nil, errors.New("stub keep: ManifestFileReader not implemented")
}

type c17API struct {
	mu        sync.Mutex
	manifests map[string]string // portable data hash -> manifest text
	gets      []string
}

func (a *c17API) Get(resourceType string, uuid string, parameters arvadosclient.Dict, output interface{}) error {
	a.mu.Lock()
	defer a.mu.Unlock()
	a.gets = append(a.gets, resourceType+"/"+uuid)
	if resourceType != "collections" {
		return fmt.Errorf("stub api: unexpected Get(%q, %q)", resourceType, uuid)
	}
	txt, ok := a.manifests[uuid]
	if !ok {
		return fmt.Errorf("stub api: 404 collection %q not found", uuid)
	}
	coll, ok := output.(*arvados.Collection)
	if !ok {
		return fmt.Errorf("stub api: unexpected output type %T", output)
	}
	coll.PortableDataHash = uuid
	coll.ManifestText = txt
	return nil
}
func (a *c17API) Create(string, arvadosclient.Dict, interface{}) error {
	return errors.New("stub api: Create not expected")
}
func (a *c17API) Update(string, string, arvadosclient.Dict, interface{}) error {
	return errors.New("stub api: Update not expected")
}
func (a *c17API) Call(method, resourceType, uuid, action string, parameters arvadosclient.Dict, output interface{}) error {
	return errors.New("stub api: Call not expected")
}
func (a *c17API) CallRaw(method string, resourceType string, uuid string, action string, parameters arvadosclient.Dict) (io.ReadCloser, error) {
	return nil, errors.New("stub api: CallRaw not expected")
}
func (a *c17API) Discovery(key string) (interface{}, error) {
	return nil, errors.New("stub api: Discovery not expected")
}

type c17Logger struct{ lines []string }

func (l *c17Logger) Printf(f string, a ...interface{}) {
	if len(l.lines) < 200 {
		l.lines = append(l.lines, fmt.Sprintf(f, a...))
	}
}

// ---------------------------------------------------------------- scenario model

const (
	c17Dir = iota
	c17File
	c17Link
	c17Fifo
)

// c17HostAlpha: bytes used in host files. Disjoint from the bytes mgen puts
// into collection blocks ('A'..'z') and from the secrets (letters), so that a
// PutB of mounted or secret data is recognisable.
const c17HostAlpha = "0123456789!#$%&()*+,-.{|}~"

type c17Node struct {
	Name     string
	Kind     int
	Parent   *c17Node `json:"-"`
	Children []*c17Node
	// file
	Size int
	Salt int
	Data []byte // explicit content (secrets, staged text mounts); else derived from Size/Salt
	// link
	Target    string // as written on disk
	CtrTarget string // intended absolute container path (canonical)
	Lkind     string // label
	Noncanon  bool   // Target is an absolute path spelled with "//", "/./" or a trailing "/"
	// flags
	Placeholder bool
	Gen         bool // generated by the fan-out branch (elided from describe())

	index map[string]*c17Node // lazily built name index of a large directory
}

func (n *c17Node) content() []byte {
	if n.Data != nil {
		return n.Data
	}
	b := make([]byte, n.Size)
	for i := range b {
		b[i] = c17HostAlpha[(i*7+n.Salt*3+i/11)%len(c17HostAlpha)]
	}
	return b
}

// rel returns the path of n below the output root: "" for the root, else "/a/b".
func (n *c17Node) rel() string {
	if n.Parent == nil {
		return ""
	}
	return n.Parent.rel() + "/" + n.Name
}

func (n *c17Node) child(name string) *c17Node {
	if len(n.Children) > 64 {
		// names are unique within a directory and children are only ever
		// appended, so the index is stale exactly when the sizes differ
		if len(n.index) != len(n.Children) {
			n.index = make(map[string]*c17Node, len(n.Children))
			for _, c := range n.Children {
				n.index[c.Name] = c
			}
		}
		return n.index[name]
	}
	for _, c := range n.Children {
		if c.Name == name {
			return c
		}
	}
	return nil
}

func (n *c17Node) depth() int {
	d := 0
	for p := n; p.Parent != nil; p = p.Parent {
		d++
	}
	return d
}

type c17Mount struct {
	Ctr     string // mount point (container path)
	Below   bool   // beneath the output path
	Pdh     string
	Text    string
	Mpath   string // arvados.Mount.Path as crunch-run leaves it after SetupMounts
	Exclude bool
	IsFile  bool
	// files visible at the mount point: key "" when the mount is a single
	// file, else "a/b" relative to the mount point.
	Files map[string][]byte
	Locs  map[string]bool   // original locator tokens
	Store map[string][]byte // md5 -> block content
	Gen   *mgen.Manifest    `json:"-"`
	Idx   int
}

type c17Secret struct {
	Ctr     string
	Kind    string
	Content interface{}
	Below   bool
}

type c17Scenario struct {
	B        int
	CtrOut   string
	Root     *c17Node
	Mounts   []*c17Mount
	Secrets  []*c17Secret
	OtherTmp string // a second tmp mount ("" if none)
	// Noncanonical: absolute link targets may be spelled non-canonically
	Noncanonical bool
	TextMnts     map[string]string // staged text mounts below the output path: ctr path -> content
	Entries      int
	Serial       int
	Labels       map[string]bool
	Fanout       *c17Fanout // nil in most cases: one directory with 1024..5000 entries
}

// c17Fanout describes the one large directory of a fan-out case. Its entries
// are derived from Seed (splitmix64), not drawn one by one from rapid.
type c17Fanout struct {
	N       int    // number of entries of the directory on the host
	Seed    uint64 //
	Dir     string // path below the output root ("" = the output root itself)
	Via     string // path of a symlink elsewhere in the tree that leads to Dir ("" = none)
	Files   int
	Subdirs int
	Links   int
}

func c17SetParents(n *c17Node) {
	for _, c := range n.Children {
		c.Parent = n
		c17SetParents(c)
	}
}

// c17TB is what c17Check needs from *rapid.T (search) or *testing.T (replay
// of a saved scenario).
type c17TB interface {
	Fatalf(format string, args ...interface{})
	Skip(args ...interface{})
}

func (sc *c17Scenario) label(l string) { sc.Labels[l] = true }

func (sc *c17Scenario) allNodes(kind int) []*c17Node {
	var out []*c17Node
	var rec func(n *c17Node)
	rec = func(n *c17Node) {
		if n.Kind == kind {
			out = append(out, n)
		}
		for _, c := range n.Children {
			rec(c)
		}
	}
	rec(sc.Root)
	return out
}

func (sc *c17Scenario) lookup(rel string) *c17Node {
	n := sc.Root
	if rel == "" {
		return n
	}
	for _, comp := range strings.Split(rel[1:], "/") {
		if n.Kind != c17Dir {
			return nil
		}
		n = n.child(comp)
		if n == nil {
			return nil
		}
	}
	return n
}

func (sc *c17Scenario) describe() string {
	var sb strings.Builder
	fmt.Fprintf(&sb, "B=%d ctrOutputDir=%q\n", sc.B, sc.CtrOut)
	for _, m := range sc.Mounts {
		fmt.Fprintf(&sb, "mount %q collection pdh=%s path=%q exclude=%v manifest=%q\n", m.Ctr, m.Pdh, m.Mpath, m.Exclude, m.Text)
	}
	for _, s := range sc.Secrets {
		fmt.Fprintf(&sb, "secret %q kind=%s content=%q\n", s.Ctr, s.Kind, fmt.Sprint(s.Content))
	}
	if sc.OtherTmp != "" {
		fmt.Fprintf(&sb, "mount %q tmp\n", sc.OtherTmp)
	}
	var tm []string
	for p := range sc.TextMnts {
		tm = append(tm, p)
	}
	sort.Strings(tm)
	for _, p := range tm {
		fmt.Fprintf(&sb, "mount %q text content=%q\n", p, sc.TextMnts[p])
	}
	if f := sc.Fanout; f != nil {
		fmt.Fprintf(&sb, "fanout dir=%q entries=%d seed=%d via-link=%q (generated: %d files, %d sub-directories, %d symlinks; names e<5 digits>, \"e <i>\", \"e:<i>\", \"e\\<i>\", \"\u00e9<i>\")\n",
			"."+f.Dir, f.N, f.Seed, f.Via, f.Files, f.Subdirs, f.Links)
	}
	var rec func(n *c17Node)
	rec = func(n *c17Node) {
		p := "." + n.rel()
		switch n.Kind {
		case c17Dir:
			fmt.Fprintf(&sb, "  dir  %q%s\n", p, map[bool]string{true: " (placeholder)", false: ""}[n.Placeholder])
		case c17File:
			c := n.content()
			if len(c) > 24 {
				c = append(append([]byte(nil), c[:24]...), "..."...)
			}
			fmt.Fprintf(&sb, "  file %q %d bytes %q%s\n", p, len(n.content()), c, map[bool]string{true: " (placeholder)", false: ""}[n.Placeholder])
		case c17Link:
			fmt.Fprintf(&sb, "  link %q -> %q  [%s, means %q]\n", p, n.Target, n.Lkind, n.CtrTarget)
		case c17Fifo:
			fmt.Fprintf(&sb, "  fifo %q\n", p)
		}
		shown, hidden := 0, 0
		for _, c := range n.Children {
			if c.Gen {
				// the generated entries of a fan-out directory are a
				// function of the "fanout" line; list only the first few
				if shown >= 8 {
					hidden++
					continue
				}
				shown++
			}
			rec(c)
		}
		if hidden > 0 {
			fmt.Fprintf(&sb, "  ... %d more generated entries in %q\n", hidden, p)
		}
	}
	rec(sc.Root)
	return sb.String()
}

// ---------------------------------------------------------------- generator

var (
	c17NamePlain     = []string{"a", "b", "c", "d", "foo", "bar.txt", "x1", "out.dat", "log", ".hidden", "...", ".keep"}
	c17NameSpace     = []string{"a b", " lead", "trail ", "two  sp"}
	c17NameColon     = []string{"a:b", ":", "0:0:x", "c:"}
	c17NameBackslash = []string{`a\b`, `\`, `\\`, `\056`, `a\040b`, `x\134`, `\101`}
	c17NameNonASCII  = []string{"é", "日本", "ü.txt", "na\xefve", "\xff"}
)

func (sc *c17Scenario) freshName(t *rapid.T, d *c17Node, label string) string {
	var name string
	switch rapid.IntRange(0, 9).Draw(t, label+"Class") {
	case 0, 1, 2, 3, 4:
		name = rapid.SampledFrom(c17NamePlain).Draw(t, label)
	case 5:
		name = rapid.SampledFrom(c17NameSpace).Draw(t, label)
		sc.label("name:space")
	case 6:
		name = rapid.SampledFrom(c17NameColon).Draw(t, label)
		sc.label("name:colon")
	case 7, 8:
		name = rapid.SampledFrom(c17NameBackslash).Draw(t, label)
		sc.label("name:backslash")
	default:
		name = rapid.SampledFrom(c17NameNonASCII).Draw(t, label)
		sc.label("name:non-ascii")
	}
	for d.child(name) != nil {
		sc.Serial++
		name = fmt.Sprintf("%s%d", name, sc.Serial)
	}
	return name
}

func (sc *c17Scenario) add(parent *c17Node, n *c17Node) *c17Node {
	n.Parent = parent
	if parent.index != nil && len(parent.index) == len(parent.Children) {
		parent.index[n.Name] = n
	}
	parent.Children = append(parent.Children, n)
	sc.Entries++
	return n
}

func (sc *c17Scenario) genSize(t *rapid.T) int {
	B := sc.B
	switch rapid.IntRange(0, 9).Draw(t, "sizeClass") {
	case 0:
		return 0
	case 1:
		return 1
	case 2:
		return B - 1
	case 3:
		return B
	case 4:
		return B + 1
	case 5:
		return 2 * B
	case 6:
		return 2*B + 1
	case 7:
		return 3 * B
	default:
		return rapid.IntRange(0, 3*B).Draw(t, "size")
	}
}

func (sc *c17Scenario) genDir(t *rapid.T, d *c17Node, depth int) {
	n := rapid.IntRange(0, 5).Draw(t, "nchildren")
	for i := 0; i < n && sc.Entries < 24; i++ {
		if depth < 4 && rapid.IntRange(0, 2).Draw(t, "isDir") == 0 {
			c := sc.add(d, &c17Node{Name: sc.freshName(t, d, "dname"), Kind: c17Dir})
			sc.genDir(t, c, depth+1)
		} else {
			sc.Serial++
			sc.add(d, &c17Node{Name: sc.freshName(t, d, "fname"), Kind: c17File, Size: sc.genSize(t), Salt: sc.Serial})
		}
	}
}

// c17Rel writes the absolute container path `to` relative to directory `from`.
func c17Rel(from, to string) string {
	f := strings.Split(strings.Trim(from, "/"), "/")
	g := strings.Split(strings.Trim(to, "/"), "/")
	if from == "/" {
		f = nil
	}
	if to == "/" {
		g = nil
	}
	i := 0
	for i < len(f) && i < len(g) && f[i] == g[i] {
		i++
	}
	var parts []string
	for j := i; j < len(f); j++ {
		parts = append(parts, "..")
	}
	parts = append(parts, g[i:]...)
	if len(parts) == 0 {
		return "."
	}
	return strings.Join(parts, "/")
}

// addLink creates a symlink in directory d that means container path ctrTarget.
func (sc *c17Scenario) addLink(t *rapid.T, d *c17Node, ctrTarget, lkind string) *c17Node {
	name := "l_" + sc.freshName(t, d, "lname")
	for d.child(name) != nil {
		sc.Serial++
		name = fmt.Sprintf("%s%d", name, sc.Serial)
	}
	n := &c17Node{Name: name, Kind: c17Link, CtrTarget: ctrTarget, Lkind: lkind}
	dirCtr := sc.CtrOut + d.rel()
	switch rapid.IntRange(0, 4).Draw(t, "linkForm") {
	case 0, 1:
		n.Target = ctrTarget
		sc.label("link-form:absolute")
		if sc.Noncanonical && rapid.IntRange(0, 3).Draw(t, "noncanonical") == 0 && len(ctrTarget) > 1 {
			// the same path, spelled the way a program that concatenates
			// path pieces may spell it
			var slashes []int
			for i := 1; i < len(ctrTarget); i++ {
				if ctrTarget[i] == '/' {
					slashes = append(slashes, i)
				}
			}
			dirLike := lkind == "dir" || lkind == "mount-root" || lkind == "mount-subdir" || lkind == "cycle-ancestor"
			k := rapid.IntRange(0, 2).Draw(t, "noncanonicalKind")
			switch {
			case k == 0 && len(slashes) > 0:
				i := rapid.SampledFrom(slashes).Draw(t, "dslashAt")
				n.Target = ctrTarget[:i] + "/" + ctrTarget[i:]
			case k == 1 && len(slashes) > 0:
				i := rapid.SampledFrom(slashes).Draw(t, "dotAt")
				n.Target = ctrTarget[:i] + "/." + ctrTarget[i:]
			case dirLike:
				n.Target = ctrTarget + "/"
			}
			if n.Target != ctrTarget {
				n.Noncanon = true
				sc.label("link-form:absolute-noncanonical")
			}
		}
	case 2:
		n.Target = "./" + c17Rel(dirCtr, ctrTarget)
		sc.label("link-form:relative")
	default:
		n.Target = c17Rel(dirCtr, ctrTarget)
		sc.label("link-form:relative")
	}
	if !strings.HasPrefix(n.Target, "/") {
		if got := path.Join(dirCtr, n.Target); got != ctrTarget {
			t.Fatalf("VERIF-INFRA: relative target %q from %q resolves to %q, intended %q", n.Target, dirCtr, got, ctrTarget)
		}
		if strings.HasPrefix(c17Rel(dirCtr, ctrTarget), "../") && !strings.HasPrefix(ctrTarget, sc.CtrOut+"/") && ctrTarget != sc.CtrOut {
			sc.label("link-form:relative-climbs-out-of-output")
		}
	}
	sc.label("link:" + lkind)
	return sc.add(d, n)
}

func c17IsAncestorOrSelf(a, n *c17Node) bool {
	for p := n; p != nil; p = p.Parent {
		if p == a {
			return true
		}
	}
	return false
}

// mountTarget picks a path inside collection mount m.
func (sc *c17Scenario) mountTarget(t *rapid.T, m *c17Mount) (string, string) {
	if m.IsFile {
		return m.Ctr, "mount-file"
	}
	var files, dirs []string
	seen := map[string]bool{}
	for f := range m.Files {
		files = append(files, f)
		parts := strings.Split(f, "/")
		for i := 1; i < len(parts); i++ {
			d := strings.Join(parts[:i], "/")
			if !seen[d] {
				seen[d] = true
				dirs = append(dirs, d)
			}
		}
	}
	sort.Strings(files)
	sort.Strings(dirs)
	switch k := rapid.IntRange(0, 3).Draw(t, "mntTargetKind"); {
	case k == 0 || (k == 1 && len(dirs) == 0):
		return m.Ctr, "mount-root"
	case k == 1:
		return m.Ctr + "/" + rapid.SampledFrom(dirs).Draw(t, "mntDir"), "mount-subdir"
	default:
		return m.Ctr + "/" + rapid.SampledFrom(files).Draw(t, "mntFile"), "mount-file"
	}
}

var c17GoodKinds = []string{"file", "file", "dir", "dir", "link", "mount", "mount", "mount", "secret", "chain-short"}
var c17BadKinds = []string{"outside", "dangling", "cycle-self", "cycle-two", "cycle-ancestor", "chain-long", "mount-missing", "excluded", "other-tmp", "chain-short"}

func (sc *c17Scenario) baseTarget(t *rapid.T, d *c17Node, allowBad bool) (string, string) {
	files := sc.allNodes(c17File)
	var usableFiles []*c17Node
	for _, f := range files {
		// secrets, staged text mounts and placeholders are never link targets
		if f.Data == nil && !f.Placeholder {
			usableFiles = append(usableFiles, f)
		}
	}
	var dirs []*c17Node
	for _, x := range sc.allNodes(c17Dir) {
		if x.Parent != nil && !x.Placeholder && !c17IsAncestorOrSelf(x, d) {
			dirs = append(dirs, x)
		}
	}
	var collMounts []*c17Mount
	for _, m := range sc.Mounts {
		if !m.Exclude {
			collMounts = append(collMounts, m)
		}
	}
	for tries := 0; tries < 6; tries++ {
		switch rapid.SampledFrom([]string{"file", "file", "dir", "dir", "mount", "mount", "secret"}).Draw(t, "baseKind") {
		case "file":
			if len(usableFiles) > 0 {
				return sc.CtrOut + rapid.SampledFrom(usableFiles).Draw(t, "tfile").rel(), "file"
			}
		case "dir":
			if len(dirs) > 0 {
				return sc.CtrOut + rapid.SampledFrom(dirs).Draw(t, "tdir").rel(), "dir"
			}
		case "mount":
			if len(collMounts) > 0 {
				return sc.mountTarget(t, rapid.SampledFrom(collMounts).Draw(t, "tmount"))
			}
		case "secret":
			if len(sc.Secrets) > 0 {
				return rapid.SampledFrom(sc.Secrets).Draw(t, "tsecret").Ctr, "secret"
			}
		}
	}
	return "", ""
}

func (sc *c17Scenario) genLinks(t *rapid.T, bad bool) {
	nl := rapid.IntRange(0, 6).Draw(t, "nlinks")
	kinds := c17GoodKinds
	if bad {
		kinds = append(append([]string(nil), c17GoodKinds...), c17BadKinds...)
		kinds = append(kinds, c17BadKinds...)
	}
	for i := 0; i < nl && sc.Entries < 38; i++ {
		alldirs := sc.allNodes(c17Dir)
		var dirs []*c17Node
		for _, x := range alldirs {
			if !x.Placeholder {
				dirs = append(dirs, x)
			}
		}
		pickDir := func(label string) *c17Node { return rapid.SampledFrom(dirs).Draw(t, label) }
		d := pickDir("linkDir")
		kind := rapid.SampledFrom(kinds).Draw(t, "linkKind")
		switch kind {
		case "file", "dir", "mount", "secret":
			// retry a few times for this specific kind via baseTarget's sampling
			ctr, k := sc.baseTarget(t, d, false)
			if ctr != "" {
				sc.addLink(t, d, ctr, k)
			}
		case "link":
			links := sc.allNodes(c17Link)
			if len(links) > 0 {
				l := rapid.SampledFrom(links).Draw(t, "tlink")
				sc.addLink(t, d, sc.CtrOut+l.rel(), "to-link")
			}
		case "chain-short", "chain-long":
			ctr, k := sc.baseTarget(t, d, false)
			if ctr == "" {
				continue
			}
			var n int
			if kind == "chain-short" {
				n = rapid.SampledFrom([]int{2, 3, 5, 9, 10}).Draw(t, "chainLen")
			} else {
				n = rapid.SampledFrom([]int{11, 12, 13}).Draw(t, "chainLen")
			}
			if sc.Entries+n > 40 {
				continue
			}
			for j := 0; j < n; j++ {
				dd := d
				if j > 0 {
					dd = pickDir("chainDir")
				}
				lk := fmt.Sprintf("chain-%d-to-%s", n, k)
				if j < n-1 {
					lk = "chain-interior"
				}
				l := sc.addLink(t, dd, ctr, lk)
				ctr = sc.CtrOut + l.rel()
			}
		case "outside":
			cands := []string{"/etc/passwd", "/ctr", "/", sc.CtrOut + "x", path.Join(path.Dir(sc.CtrOut), "boop"), "/mnt"}
			for _, m := range sc.Mounts {
				if !m.Below {
					cands = append(cands, m.Ctr+"2", path.Dir(m.Ctr))
				}
			}
			for _, s := range sc.Secrets {
				if !s.Below {
					cands = append(cands, s.Ctr+"x")
				}
			}
			c := rapid.SampledFrom(cands).Draw(t, "outside")
			if c == "" || c == "." {
				c = "/"
			}
			// the parent of a mount may coincide with something mounted
			if k, _, _ := sc.innermost(c); k != c17InNone {
				continue
			}
			sc.addLink(t, d, c, "outside")
		case "dangling":
			dd := pickDir("danglingDir")
			sc.Serial++
			sc.addLink(t, d, sc.CtrOut+dd.rel()+fmt.Sprintf("/missing%d", sc.Serial), "dangling")
		case "cycle-self":
			// the link's own path: create with a placeholder target, then fix
			l := sc.addLink(t, d, sc.CtrOut, "cycle-self")
			self := sc.CtrOut + l.rel()
			l.CtrTarget, l.Noncanon = self, false
			if strings.HasPrefix(l.Target, "/") {
				l.Target = self
			} else {
				l.Target = l.Name
			}
		case "cycle-two":
			d2 := pickDir("cycleDir2")
			l1 := sc.addLink(t, d, sc.CtrOut, "cycle-two")
			l2 := sc.addLink(t, d2, sc.CtrOut+l1.rel(), "cycle-two")
			l1.CtrTarget, l1.Noncanon = sc.CtrOut+l2.rel(), false
			if strings.HasPrefix(l1.Target, "/") {
				l1.Target = l1.CtrTarget
			} else {
				l1.Target = c17Rel(sc.CtrOut+d.rel(), l1.CtrTarget)
			}
		case "cycle-ancestor":
			var anc []*c17Node
			for p := d; p != nil; p = p.Parent {
				anc = append(anc, p)
			}
			a := rapid.SampledFrom(anc).Draw(t, "ancestor")
			sc.addLink(t, d, sc.CtrOut+a.rel(), "cycle-ancestor")
		case "mount-missing":
			var ms []*c17Mount
			for _, m := range sc.Mounts {
				if !m.Exclude {
					ms = append(ms, m)
				}
			}
			if len(ms) > 0 {
				m := rapid.SampledFrom(ms).Draw(t, "mmMount")
				sc.addLink(t, d, m.Ctr+"/no such entry", "mount-missing")
			}
		case "excluded":
			for _, m := range sc.Mounts {
				if m.Exclude {
					sc.addLink(t, d, m.Ctr, "excluded-mount")
					break
				}
			}
		case "other-tmp":
			if sc.OtherTmp != "" {
				sc.addLink(t, d, sc.OtherTmp+rapid.SampledFrom([]string{"", "/x", "/some/longer/path/to/a/file.txt"}).Draw(t, "otherTmpPath"), "other-tmp-mount")
			}
		}
	}
}

func (sc *c17Scenario) genMounts(t *rapid.T) {
	nm := rapid.SampledFrom([]int{0, 1, 1, 2, 2}).Draw(t, "nmounts")
	besides := []string{"/mnt/c0", "/keep/in put", path.Join(path.Dir(sc.CtrOut), "in1"), sc.CtrOut + "2", sc.CtrOut + "-in", "/mnt/c1"}
	used := map[string]bool{}
	for i := 0; i < nm; i++ {
		m := &c17Mount{Idx: i}
		// manifest: sometimes the same collection as the previous mount
		if i > 0 && rapid.IntRange(0, 3).Draw(t, "samePDH") == 0 {
			m.Gen = sc.Mounts[0].Gen
			sc.label("mounts-share-pdh")
		} else {
			m.Gen = mgen.Gen(t, mgen.GenOpts{Signed: rapid.Bool().Draw(t, "signed"), MaxStreams: 3, MaxFiles: 4})
		}
		m.Text = m.Gen.Text()
		m.Store = m.Gen.Store()
		m.Pdh = ref.PDH(m.Text)
		m.Locs = map[string]bool{}
		for _, s := range m.Gen.Streams {
			for _, b := range s.Blocks {
				m.Locs[b.Locator()] = true
			}
		}
		content := m.Gen.Content()
		// Mount.Path: whole collection, a subdirectory, or a single file
		var subdirs, cfiles []string
		for _, d := range m.Gen.Dirs() {
			if d != "." {
				subdirs = append(subdirs, strings.TrimPrefix(d, "./"))
			}
		}
		for p := range content {
			cfiles = append(cfiles, strings.TrimPrefix(p, "./"))
		}
		sort.Strings(cfiles)
		prefix := "./"
		switch k := rapid.IntRange(0, 7).Draw(t, "mountPathKind"); {
		case k == 0 && len(subdirs) > 0:
			m.Mpath = rapid.SampledFrom(subdirs).Draw(t, "mountSubdir")
			prefix = "./" + m.Mpath + "/"
			sc.label("mount-path:subdir")
		case k == 1:
			m.Mpath = rapid.SampledFrom(cfiles).Draw(t, "mountFile")
			m.IsFile = true
			sc.label("mount-path:single-file")
		case k == 2:
			m.Mpath = "."
		default:
			m.Mpath = ""
		}
		m.Files = map[string][]byte{}
		if m.IsFile {
			m.Files[""] = content["./"+m.Mpath]
		} else {
			for p, data := range content {
				if strings.HasPrefix(p, prefix) {
					m.Files[p[len(prefix):]] = data
				}
			}
		}
		if len(m.Files) == 0 {
			t.Fatalf("VERIF-INFRA: mount with path %q selects nothing from %q", m.Mpath, m.Text)
		}
		// mount point
		if rapid.IntRange(0, 2).Draw(t, "mountBelow") == 0 {
			m.Below = true
			var dirs []*c17Node
			for _, x := range sc.allNodes(c17Dir) {
				if !x.Placeholder && x.depth() < 3 {
					dirs = append(dirs, x)
				}
			}
			d := rapid.SampledFrom(dirs).Draw(t, "mountParent")
			name := fmt.Sprintf("mnt%d", i)
			if rapid.Bool().Draw(t, "mountNameSpecial") {
				name = fmt.Sprintf("m:nt %d", i)
			}
			switch rapid.IntRange(0, 3).Draw(t, "mountPlaceholder") {
			case 0:
				// parent directories missing on the host
				m.Ctr = sc.CtrOut + d.rel() + fmt.Sprintf("/nodir%d/", i) + name
				sc.label("mount-below:host-parents-missing")
			case 1:
				m.Ctr = sc.CtrOut + d.rel() + "/" + name
				sc.label("mount-below:no-placeholder")
			default:
				m.Ctr = sc.CtrOut + d.rel() + "/" + name
				if m.IsFile {
					sc.add(d, &c17Node{Name: name, Kind: c17File, Data: []byte{}, Placeholder: true})
				} else {
					sc.add(d, &c17Node{Name: name, Kind: c17Dir, Placeholder: true})
				}
				sc.label("mount-below:placeholder")
			}
			if rapid.IntRange(0, 5).Draw(t, "mountExclude") == 0 {
				m.Exclude = true
				sc.label("mount-below:exclude-from-output")
			}
			sc.label("mount-below-output")
		} else {
			for tries := 0; ; tries++ {
				m.Ctr = rapid.SampledFrom(besides).Draw(t, "mountBeside")
				if !used[m.Ctr] {
					break
				}
				if tries > 10 {
					m.Ctr = fmt.Sprintf("/mnt/extra%d", i)
					break
				}
			}
			if rapid.IntRange(0, 7).Draw(t, "mountExclude") == 0 {
				m.Exclude = true
				sc.label("mount-beside:exclude-from-output")
			}
			sc.label("mount-beside-output")
		}
		used[m.Ctr] = true
		sc.Mounts = append(sc.Mounts, m)
	}
}

func (sc *c17Scenario) genSecrets(t *rapid.T) {
	ns := rapid.SampledFrom([]int{0, 1, 1, 2}).Draw(t, "nsecrets")
	used := map[string]bool{}
	for i := 0; i < ns; i++ {
		s := &c17Secret{Kind: "text", Content: fmt.Sprintf("SECRETxyzzy%d", i)}
		if rapid.Bool().Draw(t, "secretJSON") {
			s.Kind = "json"
			s.Content = map[string]interface{}{"password": fmt.Sprintf("SECRETplugh%d", i)}
		}
		if rapid.IntRange(0, 1).Draw(t, "secretBelow") == 0 {
			s.Below = true
			var dirs []*c17Node
			for _, x := range sc.allNodes(c17Dir) {
				if !x.Placeholder {
					dirs = append(dirs, x)
				}
			}
			d := rapid.SampledFrom(dirs).Draw(t, "secretDir")
			name := sc.freshName(t, d, "secretName")
			var data []byte
			if s.Kind == "json" {
				data = []byte(fmt.Sprintf(`{"password":"SECRETplugh%d"}`, i))
			} else {
				data = []byte(s.Content.(string))
			}
			sc.add(d, &c17Node{Name: name, Kind: c17File, Data: data})
			s.Ctr = sc.CtrOut + d.rel() + "/" + name
			sc.label("secret-below-output")
			if rapid.IntRange(0, 2).Draw(t, "secretSibling") == 0 && d.child(name+"2") == nil {
				// a regular file whose name extends the secret's name must be kept
				sc.Serial++
				sc.add(d, &c17Node{Name: name + "2", Kind: c17File, Size: sc.genSize(t), Salt: sc.Serial})
				sc.label("secret-below-output:prefix-sibling")
			}
		} else {
			cands := []string{"/secret_text", "/run/secrets/tok.json", path.Join(path.Dir(sc.CtrOut), "secret")}
			s.Ctr = rapid.SampledFrom(cands).Draw(t, "secretBeside")
			if used[s.Ctr] {
				s.Ctr = fmt.Sprintf("/secret%d", i)
			}
			sc.label("secret-beside-output")
		}
		used[s.Ctr] = true
		sc.Secrets = append(sc.Secrets, s)
	}
}

// c17Fair draws an unbiased value in [0,n) (rapid's IntRange/SampledFrom
// favour small values and the bounds).
func c17Fair(t *rapid.T, label string, n int) int {
	v := 0
	for _, b := range rapid.SliceOfN(rapid.Bool(), 12, 12).Draw(t, label) {
		v <<= 1
		if b {
			v |= 1
		}
	}
	return v % n
}

// the sizes around the first boundary are drawn three times as often as the
// two largest (cost grows with the number of entries)
var c17FanoutSizes = []int{1024, 1024, 1024, 1025, 1025, 1025, 2048, 2048, 2049, 2049, 2600, 5000}

var c17FanoutOneIn = func() int {
	if os.Getenv("VERIF_TIER") == "thorough" {
		return 400
	}
	return 100
}()

// genFanout makes one directory of the tree (the output root or a fresh
// sub-directory) hold exactly N entries: mostly tiny files, about 1 in 48 a
// sub-directory (empty, or holding one file), about 1 in 16 a symlink to an
// earlier file or sub-directory of the same directory; optionally a symlink
// elsewhere in the tree leads to the large directory. The entries are
// derived from a drawn seed.
func (sc *c17Scenario) genFanout(t *rapid.T) {
	fo := &c17Fanout{N: c17FanoutSizes[c17Fair(t, "fanoutN", len(c17FanoutSizes))]}
	fo.Seed = uint64(c17Fair(t, "fanoutSeedHi", 4096))<<12 | uint64(c17Fair(t, "fanoutSeedLo", 4096))
	big := sc.Root
	if c17Fair(t, "fanoutWhere", 3) != 0 {
		var dirs []*c17Node
		for _, x := range sc.allNodes(c17Dir) {
			if !x.Placeholder && x.depth() < 3 {
				dirs = append(dirs, x)
			}
		}
		parent := rapid.SampledFrom(dirs).Draw(t, "fanoutParent")
		sc.Serial++
		name := fmt.Sprintf("fan%d", sc.Serial)
		if rapid.Bool().Draw(t, "fanoutNameSpecial") {
			name = fmt.Sprintf("f:an out%d", sc.Serial)
		}
		for parent.child(name) != nil {
			name += "_"
		}
		big = sc.add(parent, &c17Node{Name: name, Kind: c17Dir})
		sc.label("fanout:in-subdir")
	} else {
		sc.label("fanout:in-output-root")
	}
	fo.Dir = big.rel()
	bigCtr := sc.CtrOut + fo.Dir
	state := fo.Seed
	next := func() uint64 {
		state += 0x9e3779b97f4a7c15
		z := state
		z = (z ^ (z >> 30)) * 0xbf58476d1ce4e5b9
		z = (z ^ (z >> 27)) * 0x94d049bb133111eb
		return z ^ (z >> 31)
	}
	var plain, full []*c17Node
	for i := 0; len(big.Children) < fo.N; i++ {
		r := next()
		var name string
		switch (r >> 20) % 12 {
		case 0:
			name = fmt.Sprintf("e %d", i)
		case 1:
			name = fmt.Sprintf("e:%d", i)
		case 2:
			name = fmt.Sprintf(`e\%d`, i)
		case 3:
			name = fmt.Sprintf("é%d", i)
		default:
			name = fmt.Sprintf("e%05d", i)
		}
		for big.child(name) != nil {
			name += "_"
		}
		kind := r % 48
		if kind >= 1 && kind <= 3 && len(plain) == 0 {
			kind = 4
		}
		switch kind {
		case 0:
			d := sc.add(big, &c17Node{Name: name, Kind: c17Dir, Gen: true})
			if (r>>4)%2 == 0 {
				sc.Serial++
				sc.add(d, &c17Node{Name: "x", Kind: c17File, Size: 1 + int((r>>5)%3), Salt: sc.Serial, Gen: true})
				full = append(full, d)
			}
			fo.Subdirs++
		case 1, 2, 3:
			l := &c17Node{Name: name, Kind: c17Link, Gen: true}
			var tgt *c17Node
			if (r>>4)%3 == 0 && len(full) > 0 {
				tgt = full[int((r>>8)%uint64(len(full)))]
				l.Lkind = "fanout-sibling-dir"
			} else {
				tgt = plain[int((r>>8)%uint64(len(plain)))]
				l.Lkind = "fanout-sibling-file"
			}
			l.CtrTarget = bigCtr + "/" + tgt.Name
			switch (r >> 40) % 3 {
			case 0:
				l.Target = l.CtrTarget
			case 1:
				l.Target = tgt.Name
			default:
				l.Target = "./" + tgt.Name
			}
			sc.add(big, l)
			fo.Links++
		default:
			size := 0
			switch (r >> 4) % 8 {
			case 0, 1, 2:
				size = 1
			case 3:
				size = 2
			case 4:
				size = 3
			case 5:
				if (r>>12)%8 == 0 {
					size = sc.B + 1
				}
			}
			sc.Serial++
			plain = append(plain, sc.add(big, &c17Node{Name: name, Kind: c17File, Size: size, Salt: sc.Serial, Gen: true}))
			fo.Files++
		}
	}
	if len(big.Children) != fo.N {
		t.Fatalf("VERIF-INFRA: fan-out directory has %d entries, wanted %d", len(big.Children), fo.N)
	}
	if big != sc.Root && rapid.Bool().Draw(t, "fanoutVia") {
		var dirs []*c17Node
		for _, x := range sc.allNodes(c17Dir) {
			if !x.Placeholder && !x.Gen && !c17IsAncestorOrSelf(big, x) {
				dirs = append(dirs, x)
			}
		}
		d := rapid.SampledFrom(dirs).Draw(t, "fanoutViaDir")
		l := sc.addLink(t, d, bigCtr, "fanout-dir")
		fo.Via = l.rel()
		sc.label("fanout:also-through-symlink")
	}
	sc.label(fmt.Sprintf("fanout:entries=%d", fo.N))
	if fo.Subdirs > 0 {
		sc.label("fanout:with-subdirs")
	}
	if fo.Links > 0 {
		sc.label("fanout:with-symlinks")
	}
	sc.Fanout = fo
}

func c17Gen(t *rapid.T) *c17Scenario {
	sc := &c17Scenario{Labels: map[string]bool{}, TextMnts: map[string]string{}}
	sc.B = rapid.SampledFrom([]int{8, 32, 100}).Draw(t, "B")
	sc.CtrOut = rapid.SampledFrom([]string{"/ctr/outdir", "/var/spool/cwl", "/out"}).Draw(t, "ctrOut")
	sc.Root = &c17Node{Kind: c17Dir}
	bad := rapid.IntRange(0, 9).Draw(t, "badMode") < 3
	// About one case in 100 (quick tier; one in 400 in the thorough tier,
	// which runs 60 times as many cases) has one directory with a large
	// fan-out; those trees are otherwise free of links that must fail, so
	// that the copy is really compared. A fan-out case costs 0.3-2 CPU-s
	// (the copier allocates a 32 KiB buffer per file and flushes the
	// collection at every change of directory).
	fanout := c17Fair(t, "fanoutMode", c17FanoutOneIn) == 17
	if fanout {
		bad = false
	}
	sc.Noncanonical = rapid.IntRange(0, 9).Draw(t, "noncanonicalMode") == 0
	sc.genDir(t, sc.Root, 1)
	sc.genMounts(t)
	sc.genSecrets(t)
	if rapid.IntRange(0, 5).Draw(t, "otherTmp") == 0 {
		sc.OtherTmp = "/tmp"
	}
	if rapid.IntRange(0, 7).Draw(t, "textMount") == 0 {
		// a non-secret text mount below the output path is staged as a
		// regular file by crunch-run and copied as such
		sc.Serial++
		content := fmt.Sprintf("0.%d-(%d)", sc.Serial, sc.B)
		name := fmt.Sprintf("staged%d.txt", sc.Serial)
		sc.add(sc.Root, &c17Node{Name: name, Kind: c17File, Data: []byte(content)})
		sc.TextMnts[sc.CtrOut+"/"+name] = content
		sc.label("text-mount-below-output")
	}
	sc.genLinks(t, bad)
	if fanout {
		sc.genFanout(t)
	}
	if bad && rapid.IntRange(0, 5).Draw(t, "fifo") == 0 {
		dirs := sc.allNodes(c17Dir)
		var ok []*c17Node
		for _, d := range dirs {
			if !d.Placeholder {
				ok = append(ok, d)
			}
		}
		d := rapid.SampledFrom(ok).Draw(t, "fifoDir")
		sc.add(d, &c17Node{Name: sc.freshName(t, d, "fifoName"), Kind: c17Fifo})
		sc.label("fifo")
	}
	return sc
}

// ---------------------------------------------------------------- materialise

func (sc *c17Scenario) materialise(hostOut string) error {
	var rec func(n *c17Node, p string) error
	rec = func(n *c17Node, p string) error {
		switch n.Kind {
		case c17Dir:
			if err := os.Mkdir(p, 0755); err != nil {
				return err
			}
			for _, c := range n.Children {
				if err := rec(c, p+"/"+c.Name); err != nil {
					return err
				}
			}
		case c17File:
			return os.WriteFile(p, n.content(), 0644)
		case c17Link:
			return os.Symlink(n.Target, p)
		case c17Fifo:
			return syscall.Mkfifo(p, 0644)
		}
		return nil
	}
	return rec(sc.Root, hostOut)
}

// ---------------------------------------------------------------- reference walk

const (
	c17InNone = iota
	c17InOut
	c17InColl
	c17InSecret
	c17InOtherTmp
)

// innermost returns the kind of the innermost mount containing container
// path p, its index (collection mounts) and the remainder of p below the
// mount point ("" or "/x/y").
func (sc *c17Scenario) innermost(p string) (kind int, idx int, rest string) {
	best := ""
	consider := func(root string, k, i int) {
		if (p == root || strings.HasPrefix(p, root+"/")) && len(root) > len(best) {
			best, kind, idx = root, k, i
		}
	}
	consider(sc.CtrOut, c17InOut, 0)
	for i, m := range sc.Mounts {
		consider(m.Ctr, c17InColl, i)
	}
	for i, s := range sc.Secrets {
		consider(s.Ctr, c17InSecret, i)
	}
	if sc.OtherTmp != "" {
		consider(sc.OtherTmp, c17InOtherTmp, 0)
	}
	if best == "" {
		return c17InNone, 0, ""
	}
	return kind, idx, p[len(best):]
}

type c17ExpFile struct {
	Data  []byte
	mount *c17Mount // nil: bytes come from the host output directory
}

type c17Exp struct {
	sc        *c17Scenario
	Files     map[string]c17ExpFile // "./a/b"
	Dirs      map[string]bool       // "./a": directories that exist as such in the host tree
	hostEmpty map[string]bool       // subset of dirs: no entry at all in the host directory
	mustFail  []string
	mayFail   []string
	maxDepth  int
	visits    int
	tooBig    bool
	usedLink  bool
	labels    map[string]bool
	usedMnt   bool
}

func (e *c17Exp) addMount(dest string, m *c17Mount, rest string, viaLink bool) {
	rest = strings.TrimPrefix(rest, "/")
	if m.Exclude {
		if viaLink {
			// The property does not say what a link into an excluded
			// mount does; the content is absent if the copy succeeds.
			e.mayFail = append(e.mayFail, "link into an exclude_from_output mount: "+dest)
		}
		return
	}
	e.usedMnt = true
	if data, ok := m.Files[rest]; ok {
		e.Files["."+dest] = c17ExpFile{data, m}
		return
	}
	if m.IsFile {
		e.mayFail = append(e.mayFail, "link below a single-file mount: "+dest)
		return
	}
	found := false
	for f, data := range m.Files {
		if rest == "" {
			e.Files["."+dest+"/"+f] = c17ExpFile{data, m}
			found = true
		} else if strings.HasPrefix(f, rest+"/") {
			e.Files["."+dest+f[len(rest):]] = c17ExpFile{data, m}
			found = true
		}
	}
	if !found {
		e.mayFail = append(e.mayFail, "link to a nonexistent path inside a collection mount: "+dest)
	}
}

func (e *c17Exp) mountsBelow(dest, ctr string, depth int) {
	for _, m := range e.sc.Mounts {
		if strings.HasPrefix(m.Ctr, ctr+"/") {
			if depth > 0 && !m.Exclude {
				e.labels["via-link:collection-mounted-beneath-link-target"] = true
			}
			e.addMount(dest+m.Ctr[len(ctr):], m, "", false)
		}
	}
}

func (e *c17Exp) walk(dest, ctr string, depth int, stack []string, below bool) {
	e.visits++
	if e.visits > 4000 && (e.sc.Fanout == nil || e.visits > 60000) {
		e.tooBig = true
		return
	}
	if depth > e.maxDepth {
		e.maxDepth = depth
	}
	kind, idx, rest := e.sc.innermost(ctr)
	switch kind {
	case c17InNone:
		e.mustFail = append(e.mustFail, fmt.Sprintf("%q leads to %q, outside every mount", "."+dest, ctr))
	case c17InSecret:
		// secrets and links to secrets are absent
	case c17InOtherTmp:
		e.mustFail = append(e.mustFail, fmt.Sprintf("%q leads to %q in another tmp mount (neither the output directory nor a collection)", "."+dest, ctr))
	case c17InColl:
		e.addMount(dest, e.sc.Mounts[idx], rest, depth > 0)
		if below {
			e.mountsBelow(dest, ctr, depth)
		}
	case c17InOut:
		if below {
			e.mountsBelow(dest, ctr, depth)
		}
		n := e.sc.lookup(rest)
		if n == nil {
			e.mustFail = append(e.mustFail, fmt.Sprintf("%q leads to %q which does not exist (dangling)", "."+dest, ctr))
			return
		}
		switch n.Kind {
		case c17Link:
			e.usedLink = true
			for _, s := range stack {
				if s == ctr {
					e.mustFail = append(e.mustFail, fmt.Sprintf("symlink cycle through %q", ctr))
					return
				}
			}
			e.walk(dest, n.CtrTarget, depth+1, append(append([]string(nil), stack...), ctr), true)
		case c17Dir:
			if dest != "" {
				e.Dirs["."+dest] = true
				if len(n.Children) == 0 {
					e.hostEmpty["."+dest] = true
				}
			}
			for _, c := range n.Children {
				cctr := ctr + "/" + c.Name
				skip := false
				for _, s := range e.sc.Secrets {
					if s.Ctr == cctr {
						skip = true
						if depth > 0 {
							e.labels["via-link:secret-inside-link-target-dir"] = true
						}
					}
				}
				for _, m := range e.sc.Mounts {
					if m.Ctr == cctr {
						skip = true // placeholder left at a mount point
					}
				}
				if !skip {
					e.walk(dest+"/"+c.Name, cctr, depth, stack, false)
				}
			}
		case c17File:
			e.Files["."+dest] = c17ExpFile{n.content(), nil}
		case c17Fifo:
			e.mustFail = append(e.mustFail, fmt.Sprintf("special file (fifo) at %q", ctr))
		}
	}
}

func c17Expect(sc *c17Scenario) *c17Exp {
	e := &c17Exp{sc: sc, Files: map[string]c17ExpFile{}, Dirs: map[string]bool{}, hostEmpty: map[string]bool{}, labels: map[string]bool{}}
	e.walk("", sc.CtrOut, 0, nil, true)
	if e.maxDepth > limitFollowSymlinksDocumented && len(e.mustFail) == 0 {
		e.mayFail = append(e.mayFail, fmt.Sprintf("finite chain of %d nested links (more than %d)", e.maxDepth, limitFollowSymlinksDocumented))
	}
	return e
}

// The property fixes: at most 10 nested links must work.
const limitFollowSymlinksDocumented = 10

func c17ImpliedDirs(paths []string, into map[string]bool) {
	for _, p := range paths {
		parts := strings.Split(p, "/")
		for i := 2; i < len(parts); i++ {
			into[strings.Join(parts[:i], "/")] = true
		}
	}
}

func c17HasBelow(prefix string, files map[string]c17ExpFile, dirs map[string]bool) bool {
	for p := range files {
		if strings.HasPrefix(p, prefix+"/") {
			return true
		}
	}
	for p := range dirs {
		if strings.HasPrefix(p, prefix+"/") {
			return true
		}
	}
	return false
}

func c17AHints(tok string) string {
	var a []string
	for _, h := range strings.Split(tok, "+")[2:] {
		if strings.HasPrefix(h, "A") {
			a = append(a, h)
		}
	}
	sort.Strings(a)
	return strings.Join(a, "+")
}

// ---------------------------------------------------------------- the property

type c17Result struct {
	text     string
	err      error
	panicked interface{}
}

func c17Run(cp *copier) (res c17Result) {
	defer func() {
		if r := recover(); r != nil {
			res.panicked = r
		}
	}()
	res.text, res.err = cp.Copy()
	return
}

// c17Failure is how the oracle reports a property failure inside c17Evaluate.
type c17Failure string

type c17Verdict struct {
	skip    bool
	infra   string
	failure string // "" = the property held on this scenario
	outcome string
	res     c17Result
	exp     *c17Exp
}

// c17Evaluate materialises the scenario, runs the real Copy and applies the
// oracle.
func c17Evaluate(sc *c17Scenario) (v c17Verdict) {
	exp := c17Expect(sc)
	v.exp = exp
	if exp.tooBig {
		v.skip = true
		return
	}
	tmp, err := os.MkdirTemp("/dev/shm", "verif-c17-")
	if err != nil {
		v.infra = err.Error()
		return
	}
	defer os.RemoveAll(tmp)
	hostOut := tmp + "/out"
	if err := sc.materialise(hostOut); err != nil {
		v.infra = fmt.Sprintf("cannot create the tree: %v\n%s", err, sc.describe())
		return
	}

	keep := c17NewKeep()
	api := &c17API{manifests: map[string]string{}}
	mounts := map[string]arvados.Mount{sc.CtrOut: {Kind: "tmp"}}
	for _, m := range sc.Mounts {
		api.manifests[m.Pdh] = m.Text
		for h, data := range m.Store {
			keep.extra[h] = data
		}
		mounts[m.Ctr] = arvados.Mount{Kind: "collection", PortableDataHash: m.Pdh, Path: m.Mpath, ExcludeFromOutput: m.Exclude}
	}
	if sc.OtherTmp != "" {
		mounts[sc.OtherTmp] = arvados.Mount{Kind: "tmp"}
	}
	for p, content := range sc.TextMnts {
		mounts[p] = arvados.Mount{Kind: "text", Content: content}
	}
	secrets := map[string]arvados.Mount{}
	for _, s := range sc.Secrets {
		secrets[s.Ctr] = arvados.Mount{Kind: s.Kind, Content: s.Content}
	}
	logger := &c17Logger{}
	old := arvados.VerifC17SetMaxBlockSize(sc.B)
	defer arvados.VerifC17SetMaxBlockSize(old)
	binds := []string{hostOut + ":" + sc.CtrOut}
	c17InflightWrite(sc)
	res := c17Run(&copier{
		client:        &arvados.Client{APIHost: "verif.invalid"},
		arvClient:     api,
		keepClient:    keep,
		hostOutputDir: hostOut,
		ctrOutputDir:  sc.CtrOut,
		binds:         binds,
		mounts:        mounts,
		secretMounts:  secrets,
		logger:        logger,
	})
	c17InflightClear()
	v.res = res

	fail := func(format string, a ...interface{}) {
		panic(c17Failure(fmt.Sprintf("%s\n--- scenario\n%s--- returned manifest\n%q\n--- returned error\n%v", fmt.Sprintf(format, a...), sc.describe(), res.text, res.err)))
	}
	defer func() {
		if r := recover(); r != nil {
			f, ok := r.(c17Failure)
			if !ok {
				panic(r)
			}
			v.failure = string(f)
		}
	}()

	switch {
	case res.panicked != nil:
		// A panic is not a clean failure; it is tolerated only where the
		// copy had to fail anyway (noted in notes/C17.md), never on a tree
		// that must be copied.
		if len(exp.mustFail) == 0 {
			fail("Copy panicked on a tree that must be copied: %v", res.panicked)
		}
		v.outcome = "outcome:panic-where-failure-required"
	case res.err != nil:
		if res.text != "" {
			fail("Copy returned both an error and a manifest")
		}
		if len(exp.mustFail) == 0 && len(exp.mayFail) == 0 {
			fail("Copy failed on a tree in which every link resolves inside the mounts (deepest link nesting %d)", exp.maxDepth)
		}
		if len(exp.mustFail) > 0 {
			v.outcome = "outcome:failed-as-required"
		} else {
			v.outcome = "outcome:failed-where-allowed"
		}
	default:
		if len(exp.mustFail) > 0 {
			fail("Copy succeeded although it must fail: %s", strings.Join(exp.mustFail, "; "))
		}
		c17Compare(sc, exp, keep, res.text, fail)
		v.outcome = "outcome:copied-and-compared"
		if len(exp.mayFail) > 0 {
			v.outcome = "outcome:copied-where-failure-allowed"
		}
	}
	return
}

// c17Canonical returns a deep copy of sc in which every non-canonically
// spelled absolute link target is replaced by its canonical spelling.
func c17Canonical(sc *c17Scenario) (*c17Scenario, int) {
	buf, err := json.Marshal(sc)
	if err != nil {
		panic("VERIF-INFRA: " + err.Error())
	}
	cp := &c17Scenario{}
	if err := json.Unmarshal(buf, cp); err != nil {
		panic("VERIF-INFRA: " + err.Error())
	}
	c17SetParents(cp.Root)
	n := 0
	for _, l := range cp.allNodes(c17Link) {
		if l.Noncanon {
			l.Target, l.Noncanon = l.CtrTarget, false
			n++
		}
	}
	return cp, n
}

// c17KnownNoncanonical is the classifier key proposed for the finding written
// up in notes/C17.md: the copier compares container paths as strings, so an
// absolute symlink target spelled with "//", "/./" or a trailing "/" is not
// recognised as the secret / mount / output path it names.
const c17KnownNoncanonical = "c17-noncanonical-abs-symlink-target"

func c17Check(t c17TB, sc *c17Scenario) {
	t0 := time.Now()
	v := c17Evaluate(sc)
	if sc.Fanout != nil {
		// informational only (how much of the budget the rare large cases take)
		stats.InfoAdd("fanout_evaluate_ms_total", time.Since(t0).Milliseconds())
	}
	if v.skip {
		t.Skip("expected tree too large")
	}
	if v.infra != "" {
		t.Fatalf("VERIF-INFRA: %s", v.infra)
	}
	exp, res, outcome := v.exp, v.res, v.outcome
	if v.failure != "" {
		// Narrow classifier: the failure disappears when nothing but the
		// spelling of the non-canonical absolute link targets is changed.
		if canon, n := c17Canonical(sc); n > 0 {
			if v2 := c17Evaluate(canon); v2.failure == "" && v2.infra == "" && !v2.skip {
				first := v.failure
				if i := strings.Index(first, "\n"); i > 0 {
					first = first[:i]
				}
				var spelled []string
				for _, l := range sc.allNodes(c17Link) {
					if l.Noncanon {
						spelled = append(spelled, fmt.Sprintf("%q (means %q)", l.Target, l.CtrTarget))
					}
				}
				if stats.Known(c17KnownNoncanonical, first+" | non-canonical targets: "+strings.Join(spelled, ", ")) {
					stats.Case(stats.FP(sc.describe()), true, "known:noncanonical-abs-symlink-target")
					return
				}
				t.Fatalf("[holds when the link targets %s are spelled canonically] %s", strings.Join(spelled, ", "), v.failure)
			}
		}
		t.Fatalf("%s", v.failure)
	}

	var labels []string
	for l := range sc.Labels {
		labels = append(labels, l)
	}
	for l := range exp.labels {
		labels = append(labels, l)
	}
	labels = append(labels, outcome)
	if len(exp.mustFail) > 0 {
		labels = append(labels, "expect:must-fail")
	} else if len(exp.mayFail) > 0 {
		labels = append(labels, "expect:may-fail")
	} else {
		labels = append(labels, "expect:must-succeed")
	}
	switch {
	case exp.maxDepth == 0:
	case exp.maxDepth == 1:
		labels = append(labels, "link-nesting:1")
	case exp.maxDepth <= 4:
		labels = append(labels, "link-nesting:2-4")
	case exp.maxDepth <= 9:
		labels = append(labels, "link-nesting:5-9")
	case exp.maxDepth == 10:
		labels = append(labels, "link-nesting:10")
	case exp.maxDepth == 11:
		labels = append(labels, "link-nesting:11")
	default:
		labels = append(labels, "link-nesting:12+")
	}
	nMountFiles, nHostFiles, multi, emptyDirs := 0, 0, false, 0
	for _, f := range exp.Files {
		if f.mount != nil {
			nMountFiles++
		} else {
			nHostFiles++
			if len(f.Data) > sc.B {
				multi = true
			}
		}
	}
	for d := range exp.Dirs {
		if !c17HasBelow(d, exp.Files, exp.Dirs) {
			emptyDirs++
		}
	}
	if res.err == nil && res.panicked == nil {
		if nMountFiles > 0 {
			labels = append(labels, "compared:files-from-mounts")
		}
		if nHostFiles > 0 {
			labels = append(labels, "compared:files-from-host")
		}
		if multi {
			labels = append(labels, "compared:multi-block-file")
		}
		if emptyDirs > 0 {
			labels = append(labels, "compared:empty-dir")
		}
		if len(sc.Secrets) > 0 {
			labels = append(labels, "compared:with-secret-mounts")
		}
	}
	labels = append(labels, fmt.Sprintf("mounts:%d", len(sc.Mounts)), fmt.Sprintf("secrets:%d", len(sc.Secrets)))
	if sc.Fanout != nil && res.err == nil && res.panicked == nil {
		labels = append(labels, "fanout:copied-and-compared", fmt.Sprintf("fanout:copied-and-compared:entries=%d", sc.Fanout.N))
		if sc.Fanout.Via != "" {
			labels = append(labels, "fanout:copied-and-compared:also-through-symlink")
		}
	}
	sort.Strings(labels)
	nlinks := len(sc.allNodes(c17Link))
	below := false
	for _, m := range sc.Mounts {
		if m.Below {
			below = true
		}
	}
	nontrivial := nlinks > 0 || below
	desc := sc.describe()
	stats.Case(stats.FP(desc), nontrivial, labels...)
	stats.InfoAdd("host_entries_total", int64(sc.Entries))
	stats.InfoAdd("symlinks_total", int64(nlinks))
	stats.InfoAdd("expected_files_compared_total", int64(len(exp.Files)))
	if sc.Fanout != nil {
		stats.InfoAdd("fanout_cases", 1)
		stats.InfoAdd("fanout_expected_files_compared_total", int64(len(exp.Files)))
		if stats.WantSample("fanout") {
			stats.Sample("fanout", map[string]interface{}{"scenario": desc, "outcome": outcome, "expected_files": len(exp.Files), "manifest_bytes": len(res.text), "error": fmt.Sprint(res.err)})
		}
	} else if nontrivial && stats.WantSample(outcome) {
		stats.Sample(outcome, map[string]interface{}{"scenario": desc, "manifest": res.text, "error": fmt.Sprint(res.err), "panic": fmt.Sprint(res.panicked), "must_fail": exp.mustFail, "may_fail": exp.mayFail})
	}
}

func c17Compare(sc *c17Scenario, exp *c17Exp, keep *c17Keep, text string, fail func(string, ...interface{})) {
	parsed, err := mgen.Interpret(text, mgen.Options{DirMarkers: true, WideNames: true})
	if err != nil {
		fail("returned manifest is not valid under the published format: %v", err)
	}
	store := map[string][]byte{}
	for h, d := range keep.extra {
		store[h] = d
	}
	for h, d := range keep.blocks {
		store[h] = d
	}
	// paths
	got := map[string]bool{}
	for _, p := range parsed.Paths {
		got[p] = true
	}
	for p := range exp.Files {
		if !got[p] {
			fail("path %q is missing from the saved output", p)
		}
	}
	var extra []string
	for _, p := range parsed.Paths {
		if _, ok := exp.Files[p]; ok {
			continue
		}
		// exactly one thing is tolerated: a zero-length ".keep" in a
		// directory that is empty on the host (the documented
		// representation) or has nothing in it in the expected output
		if strings.HasSuffix(p, "/.keep") && parsed.Size[p] == 0 {
			d := strings.TrimSuffix(p, "/.keep")
			if exp.hostEmpty[d] || (exp.Dirs[d] && !c17HasBelow(d, exp.Files, exp.Dirs)) {
				continue
			}
		}
		extra = append(extra, p)
	}
	if len(extra) > 0 {
		fail("saved output contains paths that are not in the output directory: %q", extra)
	}
	// directories
	gotDirs := map[string]bool{}
	c17ImpliedDirs(parsed.Paths, gotDirs)
	for _, d := range parsed.EmptyDirs {
		if d != "." {
			gotDirs[d] = true
			c17ImpliedDirs([]string{d + "/x"}, gotDirs)
		}
	}
	expDirs := map[string]bool{}
	var expPaths []string
	for p := range exp.Files {
		expPaths = append(expPaths, p)
	}
	c17ImpliedDirs(expPaths, expDirs)
	for d := range exp.Dirs {
		expDirs[d] = true
		c17ImpliedDirs([]string{d + "/x"}, expDirs)
	}
	for d := range expDirs {
		if !gotDirs[d] {
			fail("directory %q is missing from the saved output", d)
		}
		if got[d] {
			fail("%q is a directory in the output directory but a file in the saved output", d)
		}
	}
	for d := range gotDirs {
		if !expDirs[d] {
			fail("saved output contains directory %q that is not in the output directory", d)
		}
	}
	// bytes and block provenance
	for p, want := range exp.Files {
		data, err := parsed.Bytes(p, store)
		if err != nil {
			fail("file %q cannot be read back: %v", p, err)
		}
		if !bytes.Equal(data, want.Data) {
			fail("file %q reads back as %q (%d bytes), the output directory has %q (%d bytes)", p, data, len(data), want.Data, len(want.Data))
		}
		for _, seg := range parsed.Segs[p] {
			if want.mount != nil {
				ok := false
				for o := range want.mount.Locs {
					if ref.StripHints(o) == ref.StripHints(seg.Loc) && c17AHints(o) == c17AHints(seg.Loc) {
						ok = true
					}
				}
				if !ok {
					fail("file %q comes from the collection mounted at %q but references block %q, which is not one of that collection's block locators", p, want.mount.Ctr, seg.Loc)
				}
			} else if !keep.issued[seg.Loc] {
				fail("file %q comes from the output directory but references block %q, which was not written by this copy", p, seg.Loc)
			}
		}
	}
	// no mounted-collection or secret bytes were uploaded
	for _, b := range keep.puts {
		for _, c := range b {
			if strings.IndexByte(c17HostAlpha, c) < 0 {
				fail("a block written to Keep contains byte %q, which occurs only in mounted collections and secrets (block %q)", c, b)
			}
		}
	}
	if strings.Contains(text, "SECRET") {
		fail("the returned manifest mentions a secret")
	}
}

// A runaway walk (a symlink cycle followed forever) ends in a fatal stack
// overflow, which cannot be caught in-process. So that such a crash still
// names its input, the scenario about to be copied is kept in
// $VERIF_WORK/c17-inflight.json while Copy runs (removed as soon as Copy
// returns); the driver saves that file as the replay artifact, and
// "./check C17 --replay <that file>" re-runs exactly that scenario.
var c17InflightPath string

func c17InflightWrite(sc *c17Scenario) {
	if c17InflightPath == "" {
		return
	}
	buf, err := json.Marshal(sc)
	if err == nil {
		err = os.WriteFile(c17InflightPath, buf, 0644)
	}
	if err != nil {
		panic("VERIF-INFRA: cannot write in-flight scenario: " + err.Error())
	}
}

func c17InflightClear() {
	if c17InflightPath != "" {
		os.Remove(c17InflightPath)
	}
}

// c17SweepStale removes scratch trees left in /dev/shm by an earlier process
// that crashed (a stack overflow runs no deferred cleanup).
func c17SweepStale() {
	ents, err := os.ReadDir("/dev/shm")
	if err != nil {
		return
	}
	for _, e := range ents {
		if !strings.HasPrefix(e.Name(), "verif-c17-") {
			continue
		}
		if fi, err := e.Info(); err == nil && time.Since(fi.ModTime()) > time.Hour {
			os.RemoveAll("/dev/shm/" + e.Name())
		}
	}
}

func TestVerifC17CopyOutput(t *testing.T) {
	defer stats.Flush()
	// Legitimate walks nest a few dozen frames; a small stack limit makes a
	// runaway recursion die quickly instead of eating memory first.
	debug.SetMaxStack(8 << 20)
	c17SweepStale()
	if rp := os.Getenv("VERIF_REPLAY"); strings.HasSuffix(rp, ".json") {
		buf, err := os.ReadFile(rp)
		if err != nil {
			t.Fatalf("VERIF-INFRA: %v", err)
		}
		sc := &c17Scenario{}
		if err := json.Unmarshal(buf, sc); err != nil {
			t.Fatalf("VERIF-INFRA: cannot parse %s: %v", rp, err)
		}
		c17SetParents(sc.Root)
		t.Logf("replaying saved scenario\n%s", sc.describe())
		c17Check(t, sc)
		return
	}
	if w := os.Getenv("VERIF_WORK"); w != "" {
		c17InflightPath = w + "/c17-inflight.json"
		fmt.Printf("VERIF-REPLAY: %s\n", c17InflightPath)
		defer c17InflightClear()
	}
	rapid.Check(t, func(t *rapid.T) {
		sc := c17Gen(t)
		c17Check(t, sc)
	})
}
