package controller

// C18 (legacy path, lib/controller/fed_collections.go): rewriteSignatures on
// synthetic http.Responses. Oracle: vcommon/ref.PDH and fedgen.RefRewrite.

import (
	"bytes"
	"encoding/json"
	"fmt"
	"io/ioutil"
	"net/http"
	"strings"
	"testing"

	"pgregory.net/rapid"
	"verif.local/vcommon/fedgen"
	"verif.local/vcommon/mgen"
	"verif.local/vcommon/ref"
	"verif.local/vcommon/stats"
)

func c18resp(status int, body []byte) *http.Response {
	return &http.Response{
		Status:        fmt.Sprintf("%d %s", status, http.StatusText(status)),
		StatusCode:    status,
		Proto:         "HTTP/1.1",
		ProtoMajor:    1,
		ProtoMinor:    1,
		Header:        http.Header{"Content-Type": {"application/json"}, "Content-Length": {fmt.Sprint(len(body))}},
		Body:          ioutil.NopCloser(bytes.NewReader(body)),
		ContentLength: int64(len(body)),
	}
}

// c18normalise is the line-ending repair that the classifier of the (fixed,
// hence inactive) finding "c18-legacy-line-ending-normalised" recognises: CR before LF
// removed, missing final LF added. Nothing else.
func c18normalise(s string) string {
	s = strings.Replace(s, "\r\n", "\n", -1)
	if !strings.HasSuffix(s, "\n") {
		s += "\n"
	}
	return s
}

func TestVerifC18LegacyRewriteSignatures(t *testing.T) {
	defer stats.Flush()
	rapid.Check(t, func(t *rapid.T) {
		m := mgen.Gen(t, mgen.GenOpts{Signed: true, MaxStreams: 3, MaxBlocks: 4, MaxFiles: 4})
		allowDoubleA := rapid.IntRange(0, 3).Draw(t, "allowDoubleA") == 0
		decoLabels := fedgen.Decorate(t, m, allowDoubleA)
		signAll := rapid.IntRange(0, 9).Draw(t, "signAll") < 6
		if signAll {
			// the usual real-world shape: every locator signed by the remote
			fedgen.SignAll(t, m)
			decoLabels = append(decoLabels, "all-locators-signed")
		}
		var big fedgen.BigInfo
		if rapid.IntRange(0, 29).Draw(t, "big")%15 == 7 {
			// 1-3 stream lines of 50-280 KiB
			big = fedgen.Inflate(t, m, signAll)
			decoLabels = append(decoLabels, big.Labels()...)
		}
		honest := m.Text()
		other := mgen.Gen(t, mgen.GenOpts{Signed: true, MaxStreams: 2, MaxBlocks: 3, MaxFiles: 3}).Text()
		truePDH := ref.PDH(honest)
		clusterID := fedgen.ClusterIDs(t, 1)[1]

		// what is asked for: by PDH (expectHash set; the URL pattern admits no
		// hints) or by UUID (expectHash empty)
		byUUID := rapid.IntRange(0, 4).Draw(t, "byUUID") == 0
		expect, reqKind := "", "by-uuid"
		if !byUUID {
			expect, reqKind = fedgen.ReqID(t, truePDH, false)
		}

		// what the remote sends
		sent, ansKind, detail := honest, "honest", ""
		switch k := rapid.IntRange(0, 9).Draw(t, "answer"); {
		case k <= 3:
		case k <= 8:
			tk := rapid.SampledFrom(append([]string{"whitespace"}, fedgen.TamperKinds...)).Draw(t, "tamper")
			if tt, d := fedgen.Tamper(t, honest, tk); d != "" {
				sent, ansKind, detail = tt, "tamper-"+tk, d
			}
		default:
			sent, ansKind = other, "different"
		}
		// portable_data_hash field of the record: truthful about the text sent,
		// or claiming whatever was asked for, or the stored collection's
		field := ref.PDH(sent)
		fieldKind := "field-true"
		switch rapid.IntRange(0, 5).Draw(t, "pdhField") {
		case 0, 1, 2:
			// what a remote that wants its answer accepted would claim
			if expect != "" {
				field, fieldKind = expect, "field-as-requested"
			} else {
				field, fieldKind = truePDH, "field-of-stored"
			}
		case 3:
			field, fieldKind = truePDH, "field-of-stored"
		}
		body, err := json.Marshal(map[string]interface{}{
			"kind":               "arvados#collection",
			"uuid":               clusterID + "-4zz18-0123456789abcde",
			"portable_data_hash": field,
			"manifest_text":      sent,
		})
		if err != nil {
			t.Fatalf("VERIF-INFRA: %v", err)
		}
		var sentCheck struct {
			ManifestText string `json:"manifest_text"`
		}
		if json.Unmarshal(body, &sentCheck) != nil || sentCheck.ManifestText != sent {
			t.Fatalf("VERIF-INFRA: JSON round trip of the generated manifest is lossy: %q", sent)
		}

		resp, rerr := rewriteSignatures(clusterID, expect, c18resp(http.StatusOK, body), nil)

		describe := func() string {
			return fmt.Sprintf("cluster=%s expectHash=%q (%s; true PDH %s)\nanswer: %s (%s), portable_data_hash field %q (%s)\n%s\nsent: %q", clusterID, expect, reqKind, truePDH, ansKind, detail, field, fieldKind, big, fedgen.Abbrev(sent))
		}
		validSent := expect == "" || ref.PDH(sent) == expect
		labels := append([]string{"legacy", "req:" + reqKind, "answer:" + ansKind, fieldKind}, decoLabels...)
		if validSent {
			labels = append(labels, "sent-valid")
		} else {
			labels = append(labels, "sent-invalid")
		}
		if rerr == nil && resp != nil && resp.StatusCode == http.StatusOK {
			rb, err := ioutil.ReadAll(resp.Body)
			if err != nil {
				t.Fatalf("C18: reading rewritten body: %v\n%s", err, describe())
			}
			var out struct {
				ManifestText string `json:"manifest_text"`
			}
			if err := json.Unmarshal(rb, &out); err != nil {
				t.Fatalf("C18: rewritten body is not JSON: %v\n%s", err, describe())
			}
			got := out.ManifestText
			want := fedgen.RefRewrite(sent, clusterID)
			var problems []string
			if expect != "" {
				if p := ref.PDH(got); p != expect {
					problems = append(problems, fmt.Sprintf("returned manifest has reference PDH %s, requested %s", p, expect))
				}
				if !validSent {
					problems = append(problems, fmt.Sprintf("the manifest received hashes to %s, not to the requested %s, yet a response was produced", ref.PDH(sent), expect))
				}
			}
			if got != want {
				problems = append(problems, "relayed text differs from what was sent in more than +A -> +R"+clusterID+"-: "+fedgen.DiffTokens(got, want))
			}
			if len(problems) > 0 {
				// Narrow classifier of a finding that was reported and then
				// FIXED in /repo (dfaf52c): the text sent differs from a text
				// that does satisfy everything only in CR before LF / a missing
				// final LF, and exactly that repaired text is what was relayed.
				// The key is not listed in known_findings.txt, so Known()
				// returns false and a recurrence is a VIOLATION.
				norm := c18normalise(sent)
				isNorm := norm != sent &&
					got == fedgen.RefRewrite(norm, clusterID) &&
					(expect == "" || ref.PDH(norm) == expect)
				if isNorm && stats.Known("c18-legacy-line-ending-normalised", fmt.Sprintf("%s: sent %q relayed %q", detail, fedgen.Abbrev(sent), fedgen.Abbrev(got))) {
					labels = append(labels, "known:line-ending-normalised")
				} else {
					t.Fatalf("C18 violated (legacy rewriteSignatures): %s\nreturned: %q\n%s", strings.Join(problems, "; "), fedgen.Abbrev(got), describe())
				}
			}
			labels = append(labels, "outcome:success")
			if big.Streams > 0 {
				labels = append(labels, "big:outcome:success")
			}
			if strings.Contains(got, "+R"+clusterID+"-") {
				labels = append(labels, "relayed-with-rewritten-signatures")
			}
		} else {
			labels = append(labels, "outcome:error")
			// "never wins over an honest remote": as in the fan-out unit, an
			// honest answer to exactly the request, of the shape the legacy
			// check is known to handle (every locator singly signed), must be
			// accepted whatever its size.
			if ansKind == "honest" && signAll && !allowDoubleA && (byUUID || reqKind == "exact") {
				t.Fatalf("C18 violated (legacy rewriteSignatures): the honest, fully signed answer to the request was refused: %v\n%s", rerr, describe())
			}
			if validSent && (ansKind == "honest" || ansKind == "tamper-sigonly") {
				// not asserted by the property for this path; measured
				why := "other"
				switch es := fmt.Sprint(rerr); {
				case strings.Contains(es, "on returned record did not match"):
					why = "record-field-differs-from-request"
				case strings.Contains(es, "Computed manifest_text hash"):
					why = "computed-hash-differs"
				}
				labels = append(labels, "valid-answer-rejected:"+why)
			}
		}
		nontrivial := !validSent || fedgen.CountSigned(sent) > 0
		for i := range labels {
			if labels[i] != "legacy" {
				labels[i] = "legacy:" + labels[i]
			}
		}
		stats.Case(stats.FP("legacy", sent, expect, field, clusterID), nontrivial, labels...)
		if stats.WantSample("legacy") {
			stats.Sample("legacy", map[string]interface{}{"expect": expect, "answer": ansKind, "detail": detail, "sent": fedgen.Abbrev(sent), "err": fmt.Sprint(rerr)})
		}
	})
}
