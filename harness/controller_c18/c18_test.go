package controller

import "testing"

func TestVerifC18Probe(t *testing.T) {
	_, err := rewriteSignatures("zzzzz", "x", nil, nil)
	_ = err
}
