package controller

// C18 (legacy path): fetchRemoteCollectionByPDH fan-out, driven through the
// real Handler (ForceLegacyAPI14) against loopback stub clusters whose answers
// are scripted per case and released in a generated order. No database is
// needed: the request carries a v2 token, which is salted without a lookup.

import (
	"context"
	"encoding/json"
	"fmt"
	"net/http"
	"net/http/httptest"
	"net/url"
	"runtime"
	"sort"
	"strings"
	"sync"
	"testing"
	"time"

	"git.arvados.org/arvados.git/sdk/go/arvados"
	"git.arvados.org/arvados.git/sdk/go/arvadostest"
	"git.arvados.org/arvados.git/sdk/go/ctxlog"
	"github.com/sirupsen/logrus"
	"io/ioutil"
	"pgregory.net/rapid"
	"verif.local/vcommon/fedgen"
	"verif.local/vcommon/mgen"
	"verif.local/vcommon/ref"
	"verif.local/vcommon/stats"
)

type c18fAnswer struct {
	kind    string // honest, tamper-<k>, different, 404, 5xx, hang, status-<code>
	carries string // status-<code> only: honest, tamper-<k>, different, nothing
	hasText bool   // the body is a collection record (whatever the status)
	detail  string
	status  int
	text    string
	field   string // portable_data_hash of the record
	valid   bool   // 200 and the text's reference PDH equals the request
	certain bool   // valid, and of a shape the legacy code is known to accept (every locator singly signed)
}

// c18fSlot is the per-case script of one stub cluster.
type c18fSlot struct {
	id       string
	ans      c18fAnswer
	release  chan struct{}
	released bool
	abort    chan struct{}

	mu        sync.Mutex
	entered   chan struct{}
	returned  chan struct{}
	nenter    int
	sawCancel bool
	paths     []string
}

type c18fServer struct {
	srv *httptest.Server
	mu  sync.Mutex
	cur *c18fSlot
}

func (s *c18fServer) set(slot *c18fSlot) {
	s.mu.Lock()
	s.cur = slot
	s.mu.Unlock()
}

func (s *c18fServer) ServeHTTP(w http.ResponseWriter, r *http.Request) {
	s.mu.Lock()
	slot := s.cur
	s.mu.Unlock()
	if slot == nil {
		http.Error(w, `{"errors":["stub has no script"]}`, http.StatusServiceUnavailable)
		return
	}
	slot.mu.Lock()
	slot.nenter++
	first := slot.nenter == 1
	slot.paths = append(slot.paths, r.URL.Path)
	slot.mu.Unlock()
	if first {
		close(slot.entered)
		defer close(slot.returned)
	}
	cancelled := func() {
		slot.mu.Lock()
		slot.sawCancel = true
		slot.mu.Unlock()
	}
	if slot.ans.kind == "hang" {
		select {
		case <-r.Context().Done():
			cancelled()
		case <-slot.abort:
		}
		return
	}
	select {
	case <-slot.release:
	case <-r.Context().Done():
		cancelled()
		return
	case <-slot.abort:
		return
	}
	w.Header().Set("Content-Type", "application/json")
	if !slot.ans.hasText {
		w.WriteHeader(slot.ans.status)
		fmt.Fprintf(w, `{"errors":["stub %d"]}`, slot.ans.status)
		return
	}
	// a collection record, with status 200 or with any other status
	w.WriteHeader(slot.ans.status)
	json.NewEncoder(w).Encode(map[string]interface{}{
		"kind":               "arvados#collection",
		"uuid":               slot.id + "-4zz18-0123456789abcde",
		"portable_data_hash": slot.ans.field,
		"manifest_text":      slot.ans.text,
	})
}

var (
	c18fOnce    sync.Once
	c18fLocal   *c18fServer
	c18fRemotes []*c18fServer
)

func c18fServers() {
	c18fOnce.Do(func() {
		mk := func() *c18fServer {
			s := &c18fServer{}
			s.srv = httptest.NewServer(s)
			return s
		}
		c18fLocal = mk()
		for i := 0; i < 4; i++ {
			c18fRemotes = append(c18fRemotes, mk())
		}
	})
}

func c18fNewSlot(id string, ans c18fAnswer, abort chan struct{}) *c18fSlot {
	return &c18fSlot{id: id, ans: ans, release: make(chan struct{}), abort: abort, entered: make(chan struct{}), returned: make(chan struct{})}
}

func TestVerifC18LegacyFanOut(t *testing.T) {
	defer stats.Flush()
	c18fServers()
	logger := logrus.New()
	logger.Out = ioutil.Discard
	rapid.Check(t, func(t *rapid.T) {
		m := mgen.Gen(t, mgen.GenOpts{Signed: true, MaxStreams: 3, MaxBlocks: 4, MaxFiles: 4})
		decoLabels := fedgen.Decorate(t, m, false)
		allSigned := rapid.IntRange(0, 9).Draw(t, "signAll") < 7
		if allSigned {
			fedgen.SignAll(t, m)
			decoLabels = append(decoLabels, "all-locators-signed")
		}
		var big fedgen.BigInfo
		if rapid.IntRange(0, 29).Draw(t, "big")%15 == 7 {
			// 1-3 stream lines of 50-280 KiB
			big = fedgen.Inflate(t, m, allSigned)
			decoLabels = append(decoLabels, big.Labels()...)
		}
		honest := m.Text()
		other := mgen.Gen(t, mgen.GenOpts{Signed: true, MaxStreams: 2, MaxBlocks: 3, MaxFiles: 3}).Text()
		truePDH := ref.PDH(honest)
		req, reqKind := fedgen.ReqID(t, truePDH, false)

		nrem := rapid.SampledFrom([]int{1, 2, 2, 3, 3, 4, 4}).Draw(t, "nremotes")
		ids := fedgen.ClusterIDs(t, nrem)
		abort := make(chan struct{})
		defer close(abort)

		drawAnswer := func(label string, allowHang bool) c18fAnswer {
			kinds := []string{"tamper", "tamper", "tamper", "different", "404", "404", "5xx", "honest", "honest", "honest", "status", "status", "status"}
			if allowHang {
				kinds = append(kinds, "hang")
			}
			a := c18fAnswer{kind: rapid.SampledFrom(kinds).Draw(t, label+"Kind"), status: http.StatusOK}
			switch a.kind {
			case "honest":
				a.text = honest
			case "tamper":
				tk := rapid.SampledFrom(fedgen.TamperKinds).Draw(t, label+"Tamper")
				var d string
				a.text, d = fedgen.Tamper(t, honest, tk)
				if d == "" {
					a.kind, a.text = "different", other
				} else {
					a.kind, a.detail = "tamper-"+tk, d
				}
			case "different":
				a.text = other
			case "404":
				a.status = http.StatusNotFound
			case "5xx":
				a.status = rapid.SampledFrom([]int{500, 502, 503}).Draw(t, label+"Status")
			case "status":
				// another 2xx, a 3xx or a 4xx (occasionally 404/500) whose
				// body nevertheless is a collection record
				a.status = rapid.SampledFrom([]int{201, 202, 203, 206, 299, 301, 400, 401, 403, 410, 422, 404, 500}).Draw(t, label+"Status")
				a.kind = fmt.Sprintf("status-%d", a.status)
				a.carries = rapid.SampledFrom([]string{"honest", "honest", "tamper", "tamper", "different", "nothing"}).Draw(t, label+"Carries")
				switch a.carries {
				case "honest":
					a.text = honest
				case "tamper":
					tk := rapid.SampledFrom(fedgen.TamperKinds).Draw(t, label+"Tamper")
					var d string
					a.text, d = fedgen.Tamper(t, honest, tk)
					if d == "" {
						a.carries, a.text = "different", other
					} else {
						a.carries, a.detail = "tamper-"+tk, d
					}
				case "different":
					a.text = other
				}
			}
			a.hasText = (a.status == http.StatusOK || a.carries != "" && a.carries != "nothing") && a.kind != "hang"
			if a.hasText {
				// the record's own portable_data_hash: what was asked for
				// (a remote that wants to be believed), or the truth
				if rapid.IntRange(0, 3).Draw(t, label+"Field") < 3 {
					a.field = req
				} else {
					a.field = ref.PDH(a.text)
				}
				a.valid = ref.PDH(a.text) == req // (of the text; only a 200 answer is an honest answer)
				a.certain = a.valid && a.field == req && a.kind == "honest" && allSigned
			}
			return a
		}

		// local cluster: mostly 404
		var localAns c18fAnswer
		if rapid.IntRange(0, 9).Draw(t, "localIs404") < 8 {
			localAns = c18fAnswer{kind: "404", status: http.StatusNotFound}
		} else {
			localAns = drawAnswer("local", false)
		}
		localSlot := c18fNewSlot(ids[0], localAns, abort)
		close(localSlot.release)
		localSlot.released = true
		c18fLocal.set(localSlot)

		cluster := &arvados.Cluster{ClusterID: ids[0], ForceLegacyAPI14: true}
		cluster.TLS.Insecure = true
		cluster.API.MaxItemsPerResponse = 1000
		cluster.API.MaxRequestAmplification = 4
		arvadostest.SetServiceURL(&cluster.Services.RailsAPI, c18fLocal.srv.URL)
		arvadostest.SetServiceURL(&cluster.Services.Controller, "http://localhost:/")
		cluster.RemoteClusters = map[string]arvados.RemoteCluster{"*": {Scheme: "https"}}
		var slots []*c18fSlot
		for i := 1; i <= nrem; i++ {
			slot := c18fNewSlot(ids[i], drawAnswer(fmt.Sprintf("remote%d", i), true), abort)
			slots = append(slots, slot)
			c18fRemotes[i-1].set(slot)
			cluster.RemoteClusters[ids[i]] = arvados.RemoteCluster{
				Host:   strings.TrimPrefix(c18fRemotes[i-1].srv.URL, "http://"),
				Scheme: "http",
				Proxy:  true,
			}
		}
		if rapid.Bool().Draw(t, "listLocalAsRemote") {
			// the local cluster may be listed too; it must not be asked twice
			cluster.RemoteClusters[ids[0]] = arvados.RemoteCluster{Host: strings.TrimPrefix(c18fLocal.srv.URL, "http://"), Scheme: "http", Proxy: true}
		}
		h := &Handler{Cluster: cluster}

		order := rapid.Permutation(slots).Draw(t, "releaseOrder")
		mode := rapid.SampledFrom([]string{"sequenced", "sequenced", "sequenced", "burst", "prereleased"}).Draw(t, "releaseMode")
		settle := time.Duration(rapid.SampledFrom([]int{0, 50, 200, 500}).Draw(t, "settleMicros")) * time.Microsecond

		anyCertain, anyHang := false, false
		for _, s := range slots {
			anyCertain = anyCertain || s.ans.certain
			anyHang = anyHang || s.ans.kind == "hang"
		}
		remotesConsulted := localAns.status == http.StatusNotFound
		expectSuccess := remotesConsulted && anyCertain
		if mode == "prereleased" {
			for _, s := range slots {
				close(s.release)
				s.released = true
			}
		}

		parent, cancelParent := context.WithCancel(ctxlog.Context(context.Background(), logger))
		defer cancelParent()
		// Round 3: about a third of the requests carry a select parameter,
		// mostly one that does not name manifest_text; the stub clusters
		// answer with a manifest_text anyway (honest or not).
		selKind, selQuery := "none", ""
		if sb := rapid.SliceOfN(rapid.Bool(), 4, 4).Draw(t, "selectBits"); sb[0] && (sb[1] || sb[2]) {
			k := 0
			for _, b := range rapid.SliceOfN(rapid.Bool(), 3, 3).Draw(t, "selectWhich") {
				k <<= 1
				if b {
					k |= 1
				}
			}
			sel := []string{
				`["uuid","portable_data_hash"]`,
				`["uuid"]`,
				`["name","owner_uuid"]`,
				`["portable_data_hash"]`,
				`["uuid","portable_data_hash","name","modified_at"]`,
				`["manifest_text"]`,
				`["uuid","manifest_text","portable_data_hash"]`,
				`["unsigned_manifest_text"]`,
			}[k]
			selKind = "without-manifest_text"
			if strings.Contains(sel, `"manifest_text"`) {
				selKind = "with-manifest_text"
			}
			selQuery = "?select=" + url.QueryEscape(sel)
			if sb[3] {
				selQuery = "?include_trash=false&select=" + url.QueryEscape(sel)
			}
		}
		hreq := httptest.NewRequest("GET", "/arvados/v1/collections/"+req+selQuery, nil).WithContext(parent)
		hreq.Header.Set("Authorization", "Bearer v2/"+ids[0]+"-gj3su-000000000000000/abcdefghijklmnopqrstuvwxyz0123456789abcdefghijklmn")
		rec := httptest.NewRecorder()
		done := make(chan struct{})
		go func() {
			defer close(done)
			h.ServeHTTP(rec, hreq)
		}()

		finished := false
		infraTimeout := 60 * time.Second
		waitFor := func(ch <-chan struct{}, what string) bool {
			if finished {
				return false
			}
			select {
			case <-ch:
				return true
			case <-done:
				finished = true
				return false
			case <-time.After(infraTimeout):
				t.Fatalf("VERIF-INFRA: timed out waiting for %s (req=%q mode=%s)", what, req, mode)
				return false
			}
		}
		allEntered := true
		if mode == "sequenced" && remotesConsulted {
			for _, s := range slots {
				if !waitFor(s.entered, "remote "+s.id+" to be asked") {
					allEntered = false
					break
				}
			}
		}
		var releasedOrder []string
		if mode != "prereleased" {
			for _, s := range order {
				if finished {
					break
				}
				close(s.release)
				s.released = true
				releasedOrder = append(releasedOrder, s.id+":"+s.ans.kind)
				if mode == "sequenced" && s.ans.kind != "hang" && remotesConsulted {
					if waitFor(s.returned, "remote "+s.id+" to answer") {
						runtime.Gosched()
						if settle > 0 {
							time.Sleep(settle)
						}
					}
				}
			}
		}
		if !finished && !expectSuccess && remotesConsulted && anyHang {
			// nothing is certain to win and a hanging remote keeps the request
			// open: give the other answers time to be processed, then behave
			// like a client that gives up
			for _, s := range slots {
				if s.ans.kind != "hang" {
					waitFor(s.returned, "remote "+s.id+" to answer")
				} else {
					waitFor(s.entered, "remote "+s.id+" to be asked")
				}
			}
			if !finished {
				select {
				case <-done:
					finished = true
				case <-time.After(2 * time.Millisecond):
					cancelParent()
				}
			}
		}
		if !finished {
			select {
			case <-done:
			case <-time.After(infraTimeout):
				t.Fatalf("VERIF-INFRA: request did not finish within %v (req=%q %s expectSuccess=%v released=%v)", infraTimeout, req, reqKind, expectSuccess, releasedOrder)
			}
		}
		resp := rec.Result()
		body, _ := ioutil.ReadAll(resp.Body)

		describe := func() string {
			var sb strings.Builder
			fmt.Fprintf(&sb, "GET /arvados/v1/collections/%s%s (%s; true PDH %s) mode=%s settle=%v\n", req, selQuery, reqKind, truePDH, mode, settle)
			if big.Streams > 0 {
				fmt.Fprintf(&sb, "%s\n", big)
			}
			fmt.Fprintf(&sb, "honest text: %q\n", fedgen.Abbrev(honest))
			fmt.Fprintf(&sb, "local %s: %s carries=%q status=%d text-valid=%v text=%q\n", ids[0], localAns.kind, localAns.carries, localAns.status, localAns.valid, fedgen.Abbrev(localAns.text))
			for _, s := range slots {
				fmt.Fprintf(&sb, "remote %s: %s (%s) carries=%q status=%d field=%q text-valid=%v certain=%v text=%q\n", s.id, s.ans.kind, s.ans.detail, s.ans.carries, s.ans.status, s.ans.field, s.ans.valid, s.ans.certain, fedgen.Abbrev(s.ans.text))
			}
			fmt.Fprintf(&sb, "release order: %v\nresponse: %d %s\n", releasedOrder, resp.StatusCode, fedgen.Abbrev(string(body)))
			return sb.String()
		}

		labels := append([]string{"cases", "req:" + reqKind, "local:" + localAns.kind, fmt.Sprintf("remotes:%d", nrem), "mode:" + mode, "select:" + selKind}, decoLabels...)
		winner := ""
		// Is the client handed a manifest? Whatever the status line says: a
		// response whose body is a record with a manifest_text is one (API
		// clients differ in which statuses they take for success).
		var out struct {
			ManifestText *string `json:"manifest_text"`
		}
		handed := json.Unmarshal(body, &out) == nil && out.ManifestText != nil
		if resp.StatusCode == http.StatusOK && !handed {
			t.Fatalf("C18 violated (legacy fan-out): 200 response is not a collection record\n%s", describe())
		}
		if handed {
			got := *out.ManifestText
			// The local cluster's own answer is passed through as is (it is
			// not "fetched from a remote cluster"); the property only wants it
			// unchanged.
			var diffs []string
			if localAns.hasText && got == localAns.text {
				winner = "local"
			}
			if p := ref.PDH(got); p != req && winner != "local" {
				t.Fatalf("C18 violated (legacy fan-out): the %d response for %s carries a manifest with reference PDH %s\n%s", resp.StatusCode, req, p, describe())
			}
			byStatus := append([]*c18fSlot(nil), slots...)
			sort.SliceStable(byStatus, func(i, j int) bool {
				return byStatus[i].ans.status == http.StatusOK && byStatus[j].ans.status != http.StatusOK
			})
			if winner == "" {
				for _, s := range byStatus {
					if !s.ans.hasText {
						continue
					}
					want := fedgen.RefRewrite(s.ans.text, s.id)
					if got == want {
						winner = s.id
						if !s.ans.valid {
							t.Fatalf("C18 violated (legacy fan-out): the answer of remote %s (%s) was relayed although it does not hash to the request\n%s", s.id, s.ans.kind, describe())
						}
						if s.ans.carries != "" {
							labels = append(labels, "winner:remote-non-200-status")
						} else {
							labels = append(labels, "winner:remote-"+s.ans.kind)
						}
						break
					}
					diffs = append(diffs, "vs remote "+s.id+": "+fedgen.DiffTokens(got, want))
				}
			}
			if winner == "" {
				t.Fatalf("C18 violated (legacy fan-out): relayed manifest is not what any cluster sent with only +A -> +R<id>-\nreturned: %q\n%s\n%s", fedgen.Abbrev(got), strings.Join(diffs, "\n"), describe())
			}
			if winner == "local" {
				labels = append(labels, "winner:local")
			}
			labels = append(labels, fmt.Sprintf("outcome:%d-with-manifest", resp.StatusCode))
			if selKind != "none" {
				if winner == "local" {
					labels = append(labels, "select:"+selKind+"/manifest-from-local")
				} else {
					labels = append(labels, "select:"+selKind+"/manifest-relayed-from-remote")
				}
			}
			if big.Streams > 0 && winner != "local" {
				labels = append(labels, "big:relayed-from-remote")
			}
		} else {
			if expectSuccess {
				t.Fatalf("C18 violated (legacy fan-out): the local cluster answered 404 and a remote holds the requested collection (fully signed), but the response is %d\n%s", resp.StatusCode, describe())
			}
			labels = append(labels, fmt.Sprintf("outcome:%d", resp.StatusCode))
		}
		// cancellation of outstanding requests is asynchronous on a real
		// connection, so it is only measured, never judged
		if handed && winner != "local" {
			for _, s := range slots {
				if s.ans.kind == "hang" {
					s.mu.Lock()
					entered := s.nenter > 0
					s.mu.Unlock()
					if entered {
						select {
						case <-s.returned:
							labels = append(labels, "hang-cancelled-after-winner")
						case <-time.After(2 * time.Second):
							labels = append(labels, "hang-cancel-not-observed-in-2s")
						}
					}
				}
			}
		}

		invalid200 := 0
		seen := map[string]bool{}
		for _, s := range slots {
			if s.ans.hasText && !s.ans.valid {
				invalid200++
			}
			l := "remote:" + s.ans.kind
			if s.ans.carries != "" {
				cl := "4xx(not-404)"
				switch {
				case s.ans.status == 404 || s.ans.status >= 500:
					cl = "404/5xx"
				case s.ans.status < 300:
					cl = "2xx(not-200)"
				case s.ans.status < 400:
					cl = "3xx"
				}
				switch {
				case !s.ans.hasText:
					cl += "/no-record"
				case s.ans.valid:
					cl += "/carrying-valid-manifest"
				default:
					cl += "/carrying-invalid-manifest"
				}
				if !seen["remote:status-"+cl] {
					seen["remote:status-"+cl] = true
					labels = append(labels, "remote:status-"+cl)
				}
			}
			if !seen[l] {
				seen[l] = true
				labels = append(labels, l)
			}
		}
		if remotesConsulted && selKind != "none" {
			if invalid200 > 0 {
				labels = append(labels, "select:"+selKind+"/remote-sends-invalid-manifest")
			}
			if anyCertain {
				labels = append(labels, "select:"+selKind+"/remote-sends-valid-manifest")
			}
			if !handed {
				labels = append(labels, "select:"+selKind+"/no-manifest-relayed")
			}
		}
		if remotesConsulted {
			labels = append(labels, "remotes-consulted")
			if anyCertain && invalid200 > 0 {
				labels = append(labels, "valid-and-invalid-remotes-compete")
				if mode == "sequenced" && allEntered {
					for _, s := range order {
						if s.ans.certain {
							break
						}
						if s.ans.kind != "hang" {
							labels = append(labels, "bad-answer-released-before-valid")
							break
						}
					}
				}
			}
			if anyCertain && anyHang {
				labels = append(labels, "valid-with-hanging-remote")
			}
		}
		var ks []string
		for _, s := range slots {
			ks = append(ks, s.id+s.ans.kind+s.ans.carries+s.ans.detail+s.ans.field)
		}
		for i := range labels {
			labels[i] = "fan:" + labels[i]
		}
		stats.Case(stats.FP("fanout", honest, req, selQuery, localAns.kind, ks, releasedOrder, mode), invalid200 > 0 || (winner != "" && winner != "local"), labels...)
		if stats.WantSample("fanout") {
			stats.Sample("fanout", map[string]interface{}{"req": req, "remotes": ks, "order": releasedOrder, "status": resp.StatusCode, "winner": winner})
		}
	})
}
