package main

// C01: keepstore never serves or accepts a block whose content mismatches its
// hash.
//
// The real handler (handler.setup, Directory volumes in scratch directories,
// requests through the handler's ServeHTTP or an httptest server) is driven
// with a generated script of GET / HEAD / PUT requests interleaved with
// corruptions applied by writing files directly under the volume roots.
//
// Oracle (independent of keepstore): the harness knows the true block b and
// H = md5(b); "an intact copy exists" is decided by reading the files under
// the volume roots and comparing them byte for byte with b.

import (
	"bytes"
	"context"
	"encoding/json"
	"fmt"
	"io"
	"io/ioutil"
	"net/http"
	"net/http/httptest"
	"os"
	"path/filepath"
	"runtime/debug"
	"strconv"
	"strings"
	"sync"
	"testing"
	"time"

	"git.arvados.org/arvados.git/lib/config"
	"git.arvados.org/arvados.git/sdk/go/arvados"
	"git.arvados.org/arvados.git/sdk/go/ctxlog"
	"github.com/prometheus/client_golang/prometheus"
	"github.com/sirupsen/logrus"
	"pgregory.net/rapid"
	"verif.local/vcommon/ref"
	"verif.local/vcommon/stats"
)

// ---------------------------------------------------------------- environment

var c01ServiceURL = arvados.URL{Scheme: "http", Host: "localhost:12345"}
var c01OtherURL = arvados.URL{Scheme: "http", Host: "otherhost:12345"}

type c01Env struct {
	base    string // per-process scratch dir
	cluster *arvados.Cluster
	ncase   int
	// One buffer pool for the life of the process, as in a running
	// keepstore (handler.setup makes a fresh pool of 64 MiB buffers; with a
	// handler per case nearly all CPU time went into zeroing new buffers).
	// Reused buffers also hold stale bytes of earlier blocks, which is the
	// state production code reads into.
	bufs *bufferPool
}

var (
	c01EnvOnce sync.Once
	c01EnvVal  *c01Env
	c01EnvErr  error
)

func c01DiscardLogger() *logrus.Logger {
	lg := logrus.New()
	lg.Out = ioutil.Discard
	return lg
}

func c01GetEnv() (*c01Env, error) {
	c01EnvOnce.Do(func() {
		ctxlog.SetLevel("panic") // handlers log through the root logger (context.TODO())
		root := "/dev/shm"
		if fi, err := os.Stat(root); err != nil || !fi.IsDir() {
			root = os.Getenv("VERIF_WORK")
			if root == "" {
				root = os.TempDir()
			}
		}
		// remove leftovers of killed runs (housekeeping only, no verdict depends on it)
		if ents, err := ioutil.ReadDir(root); err == nil {
			for _, e := range ents {
				if strings.HasPrefix(e.Name(), "verif-c01-") && time.Since(e.ModTime()) > 3*time.Hour {
					os.RemoveAll(filepath.Join(root, e.Name()))
				}
			}
		}
		base, err := ioutil.TempDir(root, "verif-c01-")
		if err != nil {
			c01EnvErr = err
			return
		}
		ldr := config.NewLoader(bytes.NewBufferString(`
Clusters:
  zzzzz:
    SystemRootToken: verifsystemroottokenverifsystemroottokenverif
    ManagementToken: verifmanagementtokenverifmanagementtokenverif
    Services:
      Controller:
        ExternalURL: "https://zzzzz.verif.invalid"
`), c01DiscardLogger())
		ldr.Path = "-"
		cfg, err := ldr.Load()
		if err != nil {
			c01EnvErr = err
			return
		}
		cluster, err := cfg.GetCluster("")
		if err != nil {
			c01EnvErr = err
			return
		}
		cluster.Collections.BlobSigning = false
		cluster.Collections.BlobSigningKey = ""
		cluster.API.MaxKeepBlobBuffers = 4
		cluster.Collections.BlobTrashCheckInterval = 0
		// UnixVolume.GetDeviceID execs findmnt twice per volume (~100 ms each on a
		// loaded machine); without findmnt in PATH it takes its documented
		// "blank DeviceID" path, which is irrelevant to this property.
		os.Setenv("PATH", "/nonexistent-verif")
		debug.SetGCPercent(400) // sync.Pool drops its buffers at every GC cycle
		c01EnvVal = &c01Env{base: base, cluster: cluster, bufs: newBufferPool(c01DiscardLogger(), cluster.API.MaxKeepBlobBuffers, BlockSize)}
	})
	return c01EnvVal, c01EnvErr
}

// ---------------------------------------------------------------- content

// c01Expand deterministically expands a drawn seed into n bytes (splitmix64);
// drawing megabytes byte by byte from rapid would dominate the run time.
func c01Expand(seed uint64, n int) []byte {
	out := make([]byte, n)
	x := seed
	for i := 0; i < n; i += 8 {
		x += 0x9e3779b97f4a7c15
		z := x
		z = (z ^ (z >> 30)) * 0xbf58476d1ce4e5b9
		z = (z ^ (z >> 27)) * 0x94d049bb133111eb
		z ^= z >> 31
		for j := 0; j < 8 && i+j < n; j++ {
			out[i+j] = byte(z >> (8 * uint(j)))
		}
	}
	return out
}

func c01Content(t *rapid.T, label string, n int) []byte {
	switch rapid.IntRange(0, 9).Draw(t, label+"Pattern") {
	case 0:
		return make([]byte, n) // all zero (interacts with sparse growth / zero padding)
	case 1:
		return bytes.Repeat([]byte{0xff}, n)
	default:
		return c01Expand(rapid.Uint64().Draw(t, label+"Seed"), n)
	}
}

// c01Pos draws an index in [0,n), n >= 1, biased to ends and buffer boundaries.
func c01Pos(t *rapid.T, label string, n int) int {
	var p int
	switch rapid.IntRange(0, 6).Draw(t, label+"Class") {
	case 0:
		p = 0
	case 1:
		p = n - 1
	case 2:
		p = n / 2
	case 3:
		p = rapid.SampledFrom([]int{4095, 4096, 1<<16 - 1, 1 << 16, 1<<18 - 1, 1 << 18, 1<<20 - 1, 1 << 20}).Draw(t, label+"Edge")
	default:
		p = rapid.IntRange(0, n-1).Draw(t, label)
	}
	if p >= n {
		p = n - 1
	}
	if p < 0 {
		p = 0
	}
	return p
}

// ---------------------------------------------------------------- stored-copy states

type c01State struct {
	Kind     string // absent intact bitflip truncate zerolen append subst-same subst-other sparse-big
	Desc     string
	data     []byte
	sparseTo int64 // >0: the file is extended (sparse) to this size after writing data
}

func (s c01State) corrupt() bool { return s.Kind != "absent" && s.Kind != "intact" }

func c01Corruption(t *rapid.T, label string, b []byte, heavy bool) c01State {
	n := len(b)
	kinds := []string{"append", "subst-other", "sparse-big"}
	if n > 0 {
		kinds = append(kinds, "bitflip", "bitflip", "truncate", "truncate", "zerolen", "subst-same")
	}
	k := rapid.SampledFrom(kinds).Draw(t, label+"Kind")
	switch k {
	case "bitflip":
		pos := c01Pos(t, label+"Pos", n)
		bit := rapid.IntRange(0, 7).Draw(t, label+"Bit")
		d := append([]byte(nil), b...)
		d[pos] ^= 1 << uint(bit)
		return c01State{Kind: k, Desc: fmt.Sprintf("bitflip@%d.%d", pos, bit), data: d}
	case "truncate":
		tl := c01Pos(t, label+"Len", n)
		if tl == 0 {
			return c01State{Kind: "zerolen", Desc: "zerolen", data: []byte{}}
		}
		return c01State{Kind: k, Desc: fmt.Sprintf("truncate->%d", tl), data: append([]byte(nil), b[:tl]...)}
	case "zerolen":
		return c01State{Kind: k, Desc: "zerolen", data: []byte{}}
	case "append":
		ms := []int{1, 1, 2, 16, 4096, 70000}
		if heavy {
			ms = []int{1, 2}
		}
		m := rapid.SampledFrom(ms).Draw(t, label+"Extra")
		var extra []byte
		if rapid.Bool().Draw(t, label+"ExtraZero") {
			extra = make([]byte, m)
		} else {
			extra = c01Expand(rapid.Uint64().Draw(t, label+"ExtraSeed"), m)
		}
		d := append(append(make([]byte, 0, n+m), b...), extra...)
		return c01State{Kind: k, Desc: fmt.Sprintf("append+%d", m), data: d}
	case "subst-same":
		d := c01Expand(rapid.Uint64().Draw(t, label+"SubstSeed"), n)
		if bytes.Equal(d, b) {
			d[0] ^= 0xff
		}
		return c01State{Kind: k, Desc: "other-block-same-length", data: d}
	case "subst-other":
		ns := []int{0, 1, 3, 100, 4096, n - 1, n + 1, 2 * n}
		if heavy {
			ns = []int{0, 1, 100}
		}
		n2 := rapid.SampledFrom(ns).Draw(t, label+"SubstLen")
		if n2 < 0 {
			n2 = 0
		}
		if n2 == n {
			n2 = n + 7
		}
		d := c01Expand(rapid.Uint64().Draw(t, label+"SubstSeed"), n2)
		return c01State{Kind: k, Desc: fmt.Sprintf("other-block-length-%d", n2), data: d}
	default: // sparse-big
		extra := rapid.SampledFrom([]int64{1, 4096, 1 << 20}).Draw(t, label+"SparseExtra")
		return c01State{Kind: "sparse-big", Desc: fmt.Sprintf("true-content-then-sparse-to-64MiB+%d", extra), data: b, sparseTo: BlockSize + extra}
	}
}

func c01DrawState(t *rapid.T, label string, b []byte, heavy bool) c01State {
	switch rapid.IntRange(0, 9).Draw(t, label+"State") {
	case 0, 1, 2:
		return c01State{Kind: "absent", Desc: "absent"}
	case 3, 4, 5:
		return c01State{Kind: "intact", Desc: "intact", data: b}
	default:
		return c01Corruption(t, label, b, heavy)
	}
}

// ---------------------------------------------------------------- volumes

type c01Vol struct {
	UUID      string
	Mode      string // rw | rw-via-host | ro-config | ro-host
	Serialize bool
	root      string
}

func (v c01Vol) readonly() bool { return v.Mode == "ro-config" || v.Mode == "ro-host" }

func c01BlockPath(root, hash string) string { return filepath.Join(root, hash[:3], hash) }

func c01Apply(root, hash string, s c01State) error {
	p := c01BlockPath(root, hash)
	if s.Kind == "absent" {
		err := os.Remove(p)
		if err != nil && !os.IsNotExist(err) {
			return err
		}
		return nil
	}
	if err := os.MkdirAll(filepath.Dir(p), 0755); err != nil {
		return err
	}
	// replace rather than rewrite in place: never leave a half-written state
	tmp := p + ".verif-tmp"
	if err := ioutil.WriteFile(tmp, s.data, 0644); err != nil {
		return err
	}
	if s.sparseTo > 0 {
		if err := os.Truncate(tmp, s.sparseTo); err != nil {
			return err
		}
	}
	return os.Rename(tmp, p)
}

type c01Snap struct {
	Exists bool
	Size   int64
	Sum    string
}

func c01Snapshot(path string) (c01Snap, []byte, error) {
	fi, err := os.Stat(path)
	if os.IsNotExist(err) {
		return c01Snap{}, nil, nil
	} else if err != nil {
		return c01Snap{}, nil, err
	}
	s := c01Snap{Exists: true, Size: fi.Size()}
	if fi.Size() > BlockSize {
		s.Sum = "sparse-big"
		return s, nil, nil
	}
	data, err := ioutil.ReadFile(path)
	if err != nil {
		return s, nil, err
	}
	s.Sum = ref.MD5Hex(data)
	return s, data, nil
}

// c01Fair draws an unbiased value in [0,n) (rapid's own integer generators
// favour small values and the bounds).
func c01Fair(t *rapid.T, label string, n int) int {
	z := rapid.Uint64().Draw(t, label)
	z = (z ^ (z >> 30)) * 0xbf58476d1ce4e5b9
	z = (z ^ (z >> 27)) * 0x94d049bb133111eb
	z ^= z >> 31
	return int(z % uint64(n))
}

// c01InPlace rewrites bytes of the stored file IN PLACE (same inode, same
// size) and, if keepMtime, puts the exact modification time back with
// os.Chtimes, so that neither stat size nor mtime betrays the change.
// kind: flip-bit | flip-bytes | overwrite-same-length | restore.
func (c *c01Case) inPlace(vi int, kind string, keepMtime bool, lbl string) bool {
	t := c.t
	p := c01BlockPath(c.vols[vi].root, c.hash)
	fi, err := os.Stat(p)
	if err != nil || fi.Size() == 0 || fi.Size() > BlockSize {
		return false
	}
	size := int(fi.Size())
	var off int
	var patch []byte
	var desc string
	switch kind {
	case "flip-bit":
		off = c01Pos(t, lbl+"Pos", size)
		old := make([]byte, 1)
		f, err := os.Open(p)
		if err != nil {
			c.infra("in-place: %v", err)
		}
		_, err = f.ReadAt(old, int64(off))
		f.Close()
		if err != nil {
			c.infra("in-place: %v", err)
		}
		bit := rapid.IntRange(0, 7).Draw(t, lbl+"Bit")
		patch = []byte{old[0] ^ (1 << uint(bit))}
		desc = fmt.Sprintf("bit %d of byte %d flipped", bit, off)
	case "flip-bytes":
		off = c01Pos(t, lbl+"Pos", size)
		k := rapid.SampledFrom([]int{2, 8, 512, 4096}).Draw(t, lbl+"Run")
		if off+k > size {
			k = size - off
		}
		old := make([]byte, k)
		f, err := os.Open(p)
		if err != nil {
			c.infra("in-place: %v", err)
		}
		_, err = f.ReadAt(old, int64(off))
		f.Close()
		if err != nil {
			c.infra("in-place: %v", err)
		}
		patch = make([]byte, k)
		for i := range old {
			patch[i] = ^old[i]
		}
		desc = fmt.Sprintf("%d bytes from offset %d inverted", k, off)
	case "overwrite-same-length":
		patch = c01Expand(rapid.Uint64().Draw(t, lbl+"Seed"), size)
		if size == len(c.b) && bytes.Equal(patch, c.b) {
			patch[0] ^= 0xff
		}
		desc = "overwritten with another block of the same length"
	case "restore":
		if size != len(c.b) {
			return false
		}
		patch = c.b
		desc = "true content written back"
	}
	f, err := os.OpenFile(p, os.O_WRONLY, 0)
	if err != nil {
		c.infra("in-place: %v", err)
	}
	_, err = f.WriteAt(patch, int64(off))
	if cerr := f.Close(); err == nil {
		err = cerr
	}
	if err != nil {
		c.infra("in-place: %v", err)
	}
	if keepMtime {
		if err := os.Chtimes(p, fi.ModTime(), fi.ModTime()); err != nil {
			c.infra("in-place: chtimes: %v", err)
		}
	}
	fi2, err := os.Stat(p)
	if err != nil || fi2.Size() != fi.Size() || (keepMtime && !fi2.ModTime().Equal(fi.ModTime())) || !os.SameFile(fi, fi2) {
		c.infra("in-place change did not preserve file identity/size/mtime: before %v %d %v, after %v %d %v", fi.Name(), fi.Size(), fi.ModTime(), err, fi2.Size(), fi2.ModTime())
	}
	mt := "mtime put back"
	if !keepMtime {
		mt = "mtime left to change"
	}
	c.hist = append(c.hist, fmt.Sprintf("harness changes the copy on volume[%d] IN PLACE (same file, same size %d, %s): %s", vi, size, mt, desc))
	what := "corrupt"
	if kind == "restore" {
		what = "restore"
	}
	if keepMtime {
		what += ",same-mtime"
	} else {
		what += ",new-mtime"
	}
	c.inplace[vi] = what
	c.label("inplace:" + kind)
	if kind != "restore" {
		c.label("corrupted-between-requests")
		if c.served[vi] {
			c.label("inplace-corruption-of-a-copy-that-was-served-before/" + what[len("corrupt,"):])
		}
	} else if c.rejected[vi] {
		c.label("inplace-restore-of-a-copy-that-was-rejected-before")
	}
	c.script = append(c.script, "inplace:"+kind)
	return true
}

// ---------------------------------------------------------------- requests

type c01Resp struct {
	Status  int
	CLen    int64 // reported Content-Length, -1 if none
	Body    []byte
	BodyErr error
}

// c01Direct calls the handler's ServeHTTP with a hand-built request, so that
// the declared Content-Length can differ from the bytes actually available.
func c01Direct(h http.Handler, method, path string, stream []byte, contentLength int64, token string) c01Resp {
	var body io.Reader
	if stream != nil {
		body = bytes.NewReader(stream)
	}
	req := httptest.NewRequest(method, path, body)
	if stream != nil {
		req.ContentLength = contentLength
	}
	if token != "" {
		req.Header.Set("Authorization", "OAuth2 "+token)
	}
	rec := httptest.NewRecorder()
	h.ServeHTTP(rec, req)
	r := c01Resp{Status: rec.Code, CLen: -1, Body: rec.Body.Bytes()}
	if cl := rec.Header().Get("Content-Length"); cl != "" {
		n, err := strconv.ParseInt(cl, 10, 64)
		if err != nil {
			r.CLen = -2
		} else {
			r.CLen = n
		}
	}
	return r
}

// c01Wire sends the request through a real net/http client and server.
func c01Wire(srv *httptest.Server, method, path string, body []byte, token string) (c01Resp, error) {
	var rdr io.Reader
	if body != nil {
		rdr = bytes.NewReader(body)
	}
	req, err := http.NewRequest(method, srv.URL+path, rdr)
	if err != nil {
		return c01Resp{}, err
	}
	if token != "" {
		req.Header.Set("Authorization", "OAuth2 "+token)
	}
	resp, err := srv.Client().Do(req)
	if err != nil {
		return c01Resp{}, err
	}
	defer resp.Body.Close()
	data, rerr := ioutil.ReadAll(resp.Body)
	return c01Resp{Status: resp.StatusCode, CLen: resp.ContentLength, Body: data, BodyErr: rerr}, nil
}

// ---------------------------------------------------------------- the case

type c01Case struct {
	t       *rapid.T
	heavy   bool
	b       []byte
	hash    string
	vols    []c01Vol // in the order keepstore probes them
	states  []c01State
	h       *handler
	srv     *httptest.Server
	hist    []string
	labels  map[string]bool
	nontriv bool
	script  []string
	// round 3: in-place corruption (same inode, size and mtime) of copies that
	// the handler has already read successfully in this process
	served   map[int]bool   // volume index -> a successful GET/HEAD was answered from this copy
	rejected map[int]bool   // volume index -> a read failed while this copy was the corrupt one
	inplace  map[int]string // volume index -> in-place change applied since the last read
}

func (c *c01Case) label(l string) { c.labels[l] = true }

func (c *c01Case) describe() string {
	var sb strings.Builder
	fmt.Fprintf(&sb, "block: %d bytes, hash %s\n", len(c.b), c.hash)
	for i, v := range c.vols {
		fmt.Fprintf(&sb, "volume[%d] (probe order) %s mode=%s serialize=%v\n", i, v.UUID, v.Mode, v.Serialize)
	}
	sb.WriteString("history:\n")
	for _, h := range c.hist {
		sb.WriteString("  " + h + "\n")
	}
	return sb.String()
}

func (c *c01Case) fatalf(format string, args ...interface{}) {
	c.t.Fatalf("%s\n%s", fmt.Sprintf(format, args...), c.describe())
}

func (c *c01Case) infra(format string, args ...interface{}) {
	c.t.Fatalf("VERIF-INFRA: %s\n%s", fmt.Sprintf(format, args...), c.describe())
}

// disk reports, from the files alone, which volumes (probe order) hold an
// intact copy, and which hold something else under the block's name.
func (c *c01Case) disk() (intact []int, bad []int, badData [][]byte, snaps []c01Snap) {
	for i, v := range c.vols {
		s, data, err := c01Snapshot(c01BlockPath(v.root, c.hash))
		if err != nil {
			c.infra("snapshot: %v", err)
		}
		snaps = append(snaps, s)
		if !s.Exists {
			continue
		}
		if s.Size == int64(len(c.b)) && data != nil && bytes.Equal(data, c.b) {
			intact = append(intact, i)
		} else {
			bad = append(bad, i)
			if data != nil && !c.heavy {
				badData = append(badData, data)
			}
		}
	}
	return
}

func (c *c01Case) request(method, path string, stream []byte, cl int64, wire bool) c01Resp {
	if wire {
		r, err := c01Wire(c.srv, method, path, stream, "")
		if err != nil {
			c.infra("%s %s over the wire: %v", method, path, err)
		}
		return r
	}
	return c01Direct(c.h, method, path, stream, cl, "")
}

// read performs a GET or HEAD and applies oracle clauses (i)-(iii).
func (c *c01Case) read(method, hint string, wire bool, why string) int {
	intact, bad, badData, _ := c.disk()
	path := "/" + c.hash + hint
	r := c.request(method, path, nil, 0, wire)
	tr := "direct"
	if wire {
		tr = "wire"
	}
	c.hist = append(c.hist, fmt.Sprintf("%s %s (%s, %s) -> %d, Content-Length %d, %d body bytes; on disk before: intact on %v, not-intact on %v",
		method, path, tr, why, r.Status, r.CLen, len(r.Body), intact, bad))
	c.label(fmt.Sprintf("%s:%d", strings.ToLower(method), r.Status))
	if len(bad) > 0 {
		c.nontriv = true
	}
	ok := r.Status >= 200 && r.Status < 300
	for vi, what := range c.inplace {
		// the first read after an in-place change of volume vi
		first := len(intact) == 0 || vi <= intact[0] // the handler reaches this copy before any intact one
		if strings.HasPrefix(what, "corrupt") && c.served[vi] {
			out := "refused"
			if ok {
				out = "served-from-another-volume"
			}
			l := "reread-after-inplace-corruption-of-served-copy(" + what[len("corrupt,"):] + "):" + out
			c.label(l)
			if first {
				c.label("reread-after-inplace-corruption-of-served-copy,it-is-consulted-first")
			}
			if c.rejected[vi] {
				c.label("served->corrupted->rejected->restored->served->corrupted-again->reread")
			}
		}
		if strings.HasPrefix(what, "restore") && c.rejected[vi] {
			c.label("reread-after-inplace-restore-of-rejected-copy(" + what[len("restore,"):] + ")")
		}
	}
	c.inplace = map[int]string{}
	if ok && len(intact) > 0 {
		c.served[intact[0]] = true
	}
	if !ok {
		for _, vi := range bad {
			c.rejected[vi] = true
		}
	}
	if r.Status >= 200 && r.Status < 300 {
		// (i) a success carries exactly the block
		if r.Status != 200 {
			c.fatalf("%s succeeded with unexpected status %d", method, r.Status)
		}
		if method == "GET" {
			if r.BodyErr != nil {
				c.fatalf("GET 200 but reading the body failed: %v", r.BodyErr)
			}
			if got := ref.MD5Hex(r.Body); got != c.hash || !bytes.Equal(r.Body, c.b) {
				c.fatalf("GET %s returned 200 with a body of %d bytes whose MD5 is %s, not the requested hash", path, len(r.Body), got)
			}
			if r.CLen != -1 && r.CLen != int64(len(r.Body)) {
				c.fatalf("GET %s returned 200 with Content-Length %d but %d body bytes", path, r.CLen, len(r.Body))
			}
		} else {
			if r.CLen != int64(len(c.b)) {
				c.fatalf("HEAD %s returned 200 with Content-Length %d, true block length is %d", path, r.CLen, len(c.b))
			}
			if len(r.Body) != 0 && wire {
				c.fatalf("HEAD %s returned a body of %d bytes over the wire", path, len(r.Body))
			}
		}
		// success without any intact copy on disk means corrupt data was vouched for
		if len(intact) == 0 {
			c.fatalf("%s %s returned 200 although no volume holds an intact copy", method, path)
		}
		if len(bad) > 0 {
			c.label("served-despite-corrupt-copy")
			if bad[0] < intact[0] {
				c.label(fmt.Sprintf("passed-over-corrupt/intact-at-index=%d", intact[0]))
			}
		}
		c.label(fmt.Sprintf("served/intact-at-index=%d", intact[0]))
		return r.Status
	}
	// not a success
	if r.Status < 400 {
		c.fatalf("%s %s returned status %d (neither success nor error)", method, path, r.Status)
	}
	// (ii) an intact copy on a mounted volume must be found, whatever else is stored
	if len(intact) > 0 {
		c.fatalf("%s %s returned %d although volume(s) %v hold an intact copy (volumes %v hold other bytes under that name)", method, path, r.Status, intact, bad)
	}
	// (iii) no intact copy: error status, and the body is not block data
	if method == "GET" {
		if len(c.b) > 0 && bytes.Equal(r.Body, c.b) {
			c.fatalf("GET %s returned status %d with the block as body", path, r.Status)
		}
		for _, d := range badData {
			if len(d) > 0 && bytes.Equal(r.Body, d) {
				c.fatalf("GET %s returned status %d with the %d corrupt bytes stored on disk as body", path, r.Status, len(d))
			}
			if len(d) >= 64 && bytes.Contains(r.Body, d[:64]) {
				c.fatalf("GET %s returned status %d and a body containing the start of the corrupt bytes stored on disk", path, r.Status)
			}
		}
	}
	if len(bad) > 0 {
		c.label("refused-only-corrupt-copies")
	} else {
		c.label("refused-no-copy")
	}
	return r.Status
}

// put sends a PUT and applies clause (iv).
func (c *c01Case) put(kind string, stream []byte, cl int64, wire bool) {
	path := "/" + c.hash
	intact, bad, _, before := c.disk()
	var r c01Resp
	if wire {
		// A refusal sent before the body was read can race with the client
		// still writing the body; such a transport error decides nothing, the
		// request is then repeated without the network in between.
		var err error
		r, err = c01Wire(c.srv, "PUT", path, stream, "")
		if err != nil {
			c.hist = append(c.hist, fmt.Sprintf("PUT %s [%s] over the wire: transport error %v (not judged; repeated directly)", path, kind, err))
			c.label("put-wire-transport-error")
			wire = false
			intact, bad, _, before = c.disk()
		}
	}
	if !wire {
		r = c01Direct(c.h, "PUT", path, stream, cl, "")
	}
	complete := cl >= 0 && int64(len(stream)) >= cl
	bodyOK := complete && ref.MD5Hex(stream[:cl]) == c.hash
	tr := "direct"
	if wire {
		tr = "wire"
	}
	c.hist = append(c.hist, fmt.Sprintf("PUT %s [%s] (%s) Content-Length %d, %d bytes available, md5(body)==hash: %v -> %d %q; on disk before: intact on %v, not-intact on %v",
		path, kind, tr, cl, len(stream), bodyOK, r.Status, c01Short(r.Body), intact, bad))
	c.label(fmt.Sprintf("%s:%d", kind, r.Status))
	if len(bad) > 0 || len(intact) > 0 {
		c.nontriv = true
	}
	acked := r.Status >= 200 && r.Status < 300
	if acked {
		if !bodyOK {
			c.fatalf("PUT %s was acknowledged (%d) although the MD5 of the request body is not the hash in the URL", path, r.Status)
		}
		if len(bad) > 0 {
			ro := false
			rw := false
			for _, i := range bad {
				if c.vols[i].readonly() {
					ro = true
				} else {
					rw = true
				}
			}
			if ro {
				c.label("put-acked-over-corrupt-on-readonly")
			}
			if rw {
				c.label("put-acked-over-corrupt-on-writable")
			}
			if len(intact) == 0 {
				c.label("put-acked-with-only-corrupt-copies-before")
			}
		}
		if len(intact) > 0 {
			c.label("put-acked-over-intact")
		}
		// once acknowledged, an intact copy is retrievable
		if st := c.read("GET", "", false, "verification after acknowledged PUT"); st != 200 {
			c.fatalf("PUT %s was acknowledged (%d) but the block is not retrievable afterwards (GET -> %d)", path, r.Status, st)
		}
		return
	}
	if r.Status < 400 {
		c.fatalf("PUT %s returned status %d (neither success nor error)", path, r.Status)
	}
	if !bodyOK {
		// refused mismatching body: nothing named H may have been created or modified
		_, _, _, after := c.disk()
		for i := range before {
			if before[i] != after[i] {
				c.fatalf("PUT %s with a mismatching body was refused (%d) but the file named %s on volume[%d] changed: before %+v after %+v", path, r.Status, c.hash, i, before[i], after[i])
			}
		}
	}
}

func c01Short(b []byte) string {
	if len(b) > 80 {
		return string(b[:80]) + "..."
	}
	return string(b)
}

func c01SizeClass(n int) string {
	switch {
	case n == 0:
		return "size=0"
	case n <= 33:
		return "size=1..33"
	case n >= 4095 && n <= 4097:
		return "size=4KiB+-1"
	case n >= 65535 && n <= 65537:
		return "size=64KiB+-1"
	case n >= 1<<18-1 && n <= 1<<18+1:
		return "size=256KiB+-1"
	case n >= 1<<20-1 && n <= 1<<20+1:
		return "size=1MiB+-1"
	case n == BlockSize-1:
		return "size=64MiB-1"
	case n == BlockSize:
		return "size=64MiB"
	case n > BlockSize:
		return "size>64MiB"
	case n < 1<<20:
		return "size=other<1MiB"
	default:
		return "size=other>1MiB"
	}
}

func c01RunCase(t *rapid.T, fixedSize int) {
	heavy := fixedSize > 0
	env, err := c01GetEnv()
	if err != nil {
		t.Fatalf("VERIF-INFRA: environment: %v", err)
	}
	c := &c01Case{t: t, heavy: heavy, labels: map[string]bool{}, served: map[int]bool{}, rejected: map[int]bool{}, inplace: map[int]string{}}

	// ---- block
	var n int
	if heavy {
		n = fixedSize
	} else {
		n = rapid.SampledFrom([]int{0, 1, 2, 31, 32, 33, 4095, 4096, 4097, 65535, 65536, 65537,
			1<<18 - 1, 1 << 18, 1<<18 + 1, 1<<20 - 1, 1 << 20, 1<<20 + 1, -1, -1, -1, -1, -2}).Draw(t, "size")
		if n == -1 {
			n = rapid.IntRange(0, 1<<20).Draw(t, "sizeRandom")
		} else if n == -2 {
			n = rapid.IntRange(1<<20+2, 3<<20).Draw(t, "sizeLarge")
		}
	}
	c.b = c01Content(t, "content", n)
	c.hash = ref.MD5Hex(c.b)
	oversize := n > BlockSize

	// ---- volumes, in the order keepstore will probe them
	env.ncase++
	caseDir := filepath.Join(env.base, fmt.Sprintf("case%d", env.ncase))
	defer os.RemoveAll(caseDir)
	nvol := rapid.IntRange(1, 3).Draw(t, "nvol")
	if heavy {
		nvol = rapid.IntRange(1, 2).Draw(t, "nvolHeavy")
	}
	ids := rapid.Permutation([]int{0, 1, 2}).Draw(t, "uuidOrder")
	for i := 0; i < nvol; i++ {
		v := c01Vol{
			UUID:      fmt.Sprintf("zzzzz-nyw5e-%015d", ids[i]),
			Mode:      rapid.SampledFrom([]string{"rw", "rw", "rw", "rw-via-host", "ro-config", "ro-host"}).Draw(t, fmt.Sprintf("vol%dMode", i)),
			Serialize: rapid.IntRange(0, 3).Draw(t, fmt.Sprintf("vol%dSerialize", i)) == 0,
		}
		v.root = filepath.Join(caseDir, fmt.Sprintf("vol%d", i))
		if err := os.MkdirAll(v.root, 0755); err != nil {
			t.Fatalf("VERIF-INFRA: %v", err)
		}
		c.vols = append(c.vols, v)
	}
	if heavy {
		// few boundary cases are run: each must be able to store and read back
		c.vols[rapid.IntRange(0, nvol-1).Draw(t, "heavyWritable")].Mode = rapid.SampledFrom([]string{"rw", "rw-via-host"}).Draw(t, "heavyWritableMode")
	}
	nro := 0
	for _, v := range c.vols {
		if v.readonly() {
			nro++
		}
		c.label("volmode=" + v.Mode)
	}
	c.label(fmt.Sprintf("volumes=%d", nvol))
	if nro == nvol {
		c.label("all-volumes-readonly")
	} else if nro > 0 {
		c.label("mixed-readonly-writable")
	}

	// ---- initial placement
	// Round 3, aimed branch (3 cases in 10): one volume holds an intact copy
	// that is read first, then changed in place (see the script below).
	aimed := !heavy && !oversize && n > 0 && c01Fair(t, "aimedInPlace", 10) < 3
	aimedVol, aimedAlone := -1, false
	if aimed {
		aimedVol = c01Fair(t, "aimedVol", nvol)
		aimedAlone = c01Fair(t, "aimedAlone", 2) == 0
		c.label("aimed-inplace-script")
	}
	c.states = make([]c01State, nvol)
	for i := range c.vols {
		if oversize {
			c.states[i] = c01State{Kind: "absent", Desc: "absent"}
		} else {
			c.states[i] = c01DrawState(t, fmt.Sprintf("vol%d", i), c.b, heavy)
		}
		if i == aimedVol {
			c.states[i] = c01State{Kind: "intact", Desc: "intact", data: c.b}
		} else if aimed && aimedAlone {
			// no other volume holds anything: the aimed copy is the only one consulted
			c.states[i] = c01State{Kind: "absent", Desc: "absent"}
		}
		if err := c01Apply(c.vols[i].root, c.hash, c.states[i]); err != nil {
			t.Fatalf("VERIF-INFRA: placing copy: %v", err)
		}
		c.states[i].data = nil
		c.hist = append(c.hist, fmt.Sprintf("initial volume[%d]: %s", i, c.states[i].Desc))
		if c.states[i].corrupt() {
			c.label("corruption=" + c.states[i].Kind)
		}
	}
	// files of other hashes: a valid block under its own name and a sibling
	// in the same directory as H
	decoyData := c01Expand(rapid.Uint64().Draw(t, "decoySeed"), rapid.IntRange(0, 200).Draw(t, "decoyLen"))
	decoyHash := ref.MD5Hex(decoyData)
	sibHash := c.hash[:31] + string("0123456789abcdef"[(strings.IndexByte("0123456789abcdef", c.hash[31])+1)%16])
	sibData := c01Expand(rapid.Uint64().Draw(t, "siblingSeed"), rapid.IntRange(0, 64).Draw(t, "siblingLen"))
	decoyVol := rapid.IntRange(0, nvol-1).Draw(t, "decoyVol")
	type other struct {
		path string
		data []byte
	}
	others := []other{
		{c01BlockPath(c.vols[decoyVol].root, decoyHash), decoyData},
		{c01BlockPath(c.vols[nvol-1-decoyVol].root, sibHash), sibData},
	}
	if decoyHash != c.hash {
		for _, o := range others {
			os.MkdirAll(filepath.Dir(o.path), 0755)
			if err := ioutil.WriteFile(o.path, o.data, 0644); err != nil {
				t.Fatalf("VERIF-INFRA: %v", err)
			}
		}
	} else {
		others = nil
	}

	// ---- the real handler
	cluster := *env.cluster
	cluster.Volumes = map[string]arvados.Volume{}
	for _, v := range c.vols {
		params, _ := json.Marshal(map[string]interface{}{"Root": v.root, "Serialize": v.Serialize})
		cv := arvados.Volume{Driver: "Directory", Replication: 1, DriverParameters: params}
		switch v.Mode {
		case "ro-config":
			cv.ReadOnly = true
		case "ro-host":
			cv.AccessViaHosts = map[arvados.URL]arvados.VolumeAccess{c01ServiceURL: {ReadOnly: true}, c01OtherURL: {}}
		case "rw-via-host":
			cv.AccessViaHosts = map[arvados.URL]arvados.VolumeAccess{c01ServiceURL: {}, c01OtherURL: {ReadOnly: true}}
		}
		cluster.Volumes[v.UUID] = cv
	}
	c.h = &handler{}
	ctx := ctxlog.Context(context.Background(), c01DiscardLogger())
	if err := c.h.setup(ctx, &cluster, "", prometheus.NewRegistry(), c01ServiceURL); err != nil {
		t.Fatalf("VERIF-INFRA: handler.setup: %v", err)
	}
	bufs = env.bufs
	defer func() {
		c.h.pullq.Close()
		c.h.trashq.Close()
	}()
	// keepstore probes volumes in the (random) iteration order of the config
	// map; fix that order to the generated one so every order is reachable
	// and a failing case replays. Every order is a state setup() can produce.
	vm := c.h.volmgr
	if len(vm.readables) != nvol {
		t.Fatalf("VERIF-INFRA: %d volumes mounted, want %d", len(vm.readables), nvol)
	}
	byUUID := map[string]*VolumeMount{}
	for _, m := range vm.readables {
		byUUID[m.UUID] = m
	}
	vm.readables, vm.writables, vm.mounts = nil, nil, nil
	for _, v := range c.vols {
		m := byUUID[v.UUID]
		if m == nil {
			t.Fatalf("VERIF-INFRA: volume %s not mounted", v.UUID)
		}
		if m.ReadOnly != v.readonly() {
			t.Fatalf("VERIF-INFRA: volume %s mounted with ReadOnly=%v, harness expects %v", v.UUID, m.ReadOnly, v.readonly())
		}
		vm.readables = append(vm.readables, m)
		vm.mounts = append(vm.mounts, m)
		if !m.ReadOnly {
			vm.writables = append(vm.writables, m)
		}
	}
	c.srv = httptest.NewServer(c.h)
	defer func() {
		c.srv.CloseClientConnections()
		c.srv.Close()
	}()

	// ---- script
	hints := []string{"", "", fmt.Sprintf("+%d", n), fmt.Sprintf("+%d+Zverif", n), "+Kzzzzz"}
	if oversize {
		c.put("put-correct-oversize", c.b, int64(n), false)
		c.read("GET", "", false, "script")
		c.script = append(c.script, "oversize")
	} else {
		nsteps := rapid.IntRange(3, 7).Draw(t, "nsteps")
		if heavy {
			nsteps = rapid.IntRange(1, 3).Draw(t, "nstepsHeavy")
		}
		if heavy {
			// fixed core of every boundary case: read the generated layout,
			// store the block, read it back both ways; generated steps follow
			c.read("GET", "", false, "core")
			c.put("put-correct", c.b, int64(n), rapid.Bool().Draw(t, "corePutWire"))
			c.read("GET", fmt.Sprintf("+%d", n), rapid.Bool().Draw(t, "coreGetWire"), "core")
			c.script = append(c.script, "core")
		}
		if aimed {
			// read -> corrupt in place -> read -> (read) -> restore in place -> read -> corrupt again -> read
			rd := func(lbl string) {
				method := "GET"
				if c01Fair(t, lbl+"Head", 3) == 0 {
					method = "HEAD"
				}
				hint := hints[c01Fair(t, lbl+"Hint", len(hints))]
				c.read(method, hint, method == "HEAD" || c01Fair(t, lbl+"Wire", 4) == 0, "aimed")
				c.script = append(c.script, strings.ToLower(method))
			}
			corrupt := func(lbl string) {
				// the copy the handler reads from: the first intact one in probe
				// order (sometimes every intact copy)
				intact, _, _, _ := c.disk()
				all := c01Fair(t, lbl+"All", 4) == 0
				kind := []string{"flip-bit", "flip-bit", "flip-bytes", "overwrite-same-length"}[c01Fair(t, lbl+"Kind", 4)]
				keep := c01Fair(t, lbl+"KeepMtime", 8) > 0
				for k, vi := range intact {
					if k == 0 || all {
						c.inPlace(vi, kind, keep, fmt.Sprintf("%sv%d", lbl, vi))
					}
				}
			}
			restore := func(lbl string) {
				_, bad, _, _ := c.disk()
				keep := c01Fair(t, lbl+"KeepMtime", 8) > 0
				for _, vi := range bad {
					if c.rejected[vi] || c.served[vi] {
						c.inPlace(vi, "restore", keep, fmt.Sprintf("%sv%d", lbl, vi))
					}
				}
			}
			if c01Fair(t, "aimedSkipFirstRead", 5) > 0 {
				rd("a1")
				if c01Fair(t, "aimedReadTwice", 3) == 0 {
					rd("a1b")
				}
			}
			corrupt("a2")
			rd("a3")
			if c01Fair(t, "aimedRereadCorrupt", 3) == 0 {
				rd("a3b")
			}
			if c01Fair(t, "aimedRestore", 4) > 0 {
				restore("a4")
				rd("a5")
				corrupt("a6")
				rd("a7")
			}
			nsteps = rapid.IntRange(0, 3).Draw(t, "nstepsAfterAimed")
		}
		for s := 0; s < nsteps; s++ {
			lbl := fmt.Sprintf("step%d", s)
			op := rapid.SampledFrom([]string{"get", "get", "get", "head", "head", "put-correct", "put-correct", "put-wrong", "put-wrong", "put-clmismatch", "mutate", "mutate", "mutate-inplace", "mutate-inplace"}).Draw(t, lbl)
			wire := rapid.IntRange(0, 3).Draw(t, lbl+"Wire") == 0
			switch op {
			case "get":
				hint := rapid.SampledFrom(hints).Draw(t, lbl+"Hint")
				c.read("GET", hint, wire, "script")
				c.script = append(c.script, "get")
			case "head":
				hint := rapid.SampledFrom(hints).Draw(t, lbl+"Hint")
				c.read("HEAD", hint, true, "script") // HEAD semantics are net/http's: always over the wire
				c.script = append(c.script, "head")
			case "put-correct":
				c.put("put-correct", c.b, int64(n), wire)
				c.script = append(c.script, "put-correct")
			case "put-wrong":
				kinds := []string{"other-same-length", "other-length", "extended"}
				if n > 0 {
					kinds = append(kinds, "bitflip", "truncated", "empty")
				}
				_, _, badData, _ := c.disk()
				if len(badData) > 0 {
					kinds = append(kinds, "stored-corrupt-bytes", "stored-corrupt-bytes")
				}
				k := rapid.SampledFrom(kinds).Draw(t, lbl+"Wrong")
				var body []byte
				switch k {
				case "other-same-length":
					body = c01Expand(rapid.Uint64().Draw(t, lbl+"Seed"), n)
				case "other-length":
					body = c01Expand(rapid.Uint64().Draw(t, lbl+"Seed"), rapid.IntRange(1, 5000).Draw(t, lbl+"Len"))
				case "extended":
					body = append(append([]byte(nil), c.b...), c01Expand(rapid.Uint64().Draw(t, lbl+"Seed"), rapid.IntRange(1, 9).Draw(t, lbl+"Len"))...)
				case "bitflip":
					body = append([]byte(nil), c.b...)
					body[c01Pos(t, lbl+"Pos", n)] ^= 1 << uint(rapid.IntRange(0, 7).Draw(t, lbl+"Bit"))
				case "truncated":
					body = append([]byte{}, c.b[:c01Pos(t, lbl+"Len", n)]...)
				case "empty":
					body = []byte{}
				case "stored-corrupt-bytes":
					body = badData[rapid.IntRange(0, len(badData)-1).Draw(t, lbl+"Which")]
				}
				if ref.MD5Hex(body) == c.hash {
					// (all-zero / all-0xff content can coincide with the expansion only by accident)
					body = append(body, 'x')
				}
				c.put("put-wrong/"+k, body, int64(len(body)), wire)
				c.script = append(c.script, "put-wrong/"+k)
			case "put-clmismatch":
				// only expressible with a hand-built request
				k := rapid.SampledFrom([]string{"declared-longer", "declared-shorter", "stream-longer-than-declared", "no-length"}).Draw(t, lbl+"CL")
				switch k {
				case "declared-longer":
					c.put("put-clmismatch/"+k, c.b, int64(n+rapid.IntRange(1, 9).Draw(t, lbl+"D")), false)
				case "declared-shorter":
					if n == 0 {
						c.put("put-clmismatch/no-length", c.b, -1, false)
					} else {
						d := rapid.IntRange(1, 9).Draw(t, lbl+"D")
						if d > n {
							d = n
						}
						c.put("put-clmismatch/"+k, c.b, int64(n-d), false)
					}
				case "stream-longer-than-declared":
					// per HTTP the request body is the first Content-Length bytes: the true block
					stream := append(append([]byte(nil), c.b...), c01Expand(rapid.Uint64().Draw(t, lbl+"Seed"), rapid.IntRange(1, 9).Draw(t, lbl+"D"))...)
					c.put("put-clmismatch/"+k, stream, int64(n), false)
				case "no-length":
					c.put("put-clmismatch/"+k, c.b, -1, false)
				}
				c.script = append(c.script, "put-clmismatch/"+k)
			case "mutate-inplace":
				vi := c01Fair(t, lbl+"Vol", nvol)
				kind := []string{"flip-bit", "flip-bit", "flip-bytes", "overwrite-same-length", "restore"}[c01Fair(t, lbl+"Kind", 5)]
				if heavy && kind == "overwrite-same-length" {
					kind = "flip-bytes"
				}
				if !c.inPlace(vi, kind, c01Fair(t, lbl+"KeepMtime", 4) > 0, lbl) {
					c.script = append(c.script, "inplace:not-applicable")
				}
			case "mutate":
				vi := rapid.IntRange(0, nvol-1).Draw(t, lbl+"Vol")
				st := c01DrawState(t, lbl, c.b, heavy)
				if err := c01Apply(c.vols[vi].root, c.hash, st); err != nil {
					t.Fatalf("VERIF-INFRA: mutate: %v", err)
				}
				c.hist = append(c.hist, fmt.Sprintf("harness sets volume[%d] copy to: %s", vi, st.Desc))
				if st.corrupt() {
					c.label("corruption=" + st.Kind)
					c.label("corrupted-between-requests")
				}
				c.script = append(c.script, "mutate:"+st.Kind)
			}
		}
		// always finish by reading the block back both ways
		c.read("GET", "", false, "final")
		c.read("HEAD", "", true, "final")
	}

	// (v) files of other hashes are untouched
	for _, o := range others {
		got, err := ioutil.ReadFile(o.path)
		if err != nil || !bytes.Equal(got, o.data) {
			c.fatalf("file of another hash %s changed during the script (read error %v, %d bytes, expected %d)", o.path, err, len(got), len(o.data))
		}
	}

	// ---- evidence
	labels := []string{c01SizeClass(n)}
	for l := range c.labels {
		labels = append(labels, l)
	}
	if c.nontriv {
		labels = append(labels, "nontrivial")
	}
	var layout []string
	for i, v := range c.vols {
		layout = append(layout, v.Mode+"/"+c.states[i].Kind)
	}
	stats.Case(stats.FP(c01SizeClass(n), strings.Join(layout, ","), strings.Join(c.script, ",")), c.nontriv, labels...)
	for _, want := range []string{"passed-over-corrupt", "put-acked-with-only-corrupt-copies-before", "refused-only-corrupt-copies"} {
		for l := range c.labels {
			if strings.HasPrefix(l, want) && stats.WantSample(want) {
				stats.Sample(want, map[string]interface{}{"size": n, "volumes": layout, "history": c.hist})
			}
		}
	}
}

// TestVerifC01Script is the main C01 search (all sizes up to a few MiB).
func TestVerifC01Script(t *testing.T) {
	defer stats.Flush()
	defer c01Cleanup()
	rapid.Check(t, func(t *rapid.T) { c01RunCase(t, 0) })
}

// TestVerifC01Boundary runs the same script around the 64 MiB block size
// limit (thorough tier only; a handful of cases, one shard). One rapid case =
// three recorded evaluations.
func TestVerifC01Boundary(t *testing.T) {
	defer stats.Flush()
	defer c01Cleanup()
	rapid.Check(t, func(t *rapid.T) {
		// every generated case visits all three boundary sizes (with
		// independently drawn layouts and scripts): with a handful of cases a
		// random choice of size left one of them out at some seeds
		for _, n := range []int{BlockSize - 1, BlockSize, BlockSize + 1} {
			c01RunCase(t, n)
		}
	})
}

func c01Cleanup() {
	if c01EnvVal != nil {
		os.RemoveAll(c01EnvVal.base)
	}
}
