package dispatchcloud

// C16 (first clause): ChooseInstanceType returns an adequate instance type such
// that no other adequate type is cheaper; unsatisfiable => error listing the
// available types; empty table => ErrInstanceTypesNotConfigured.
//
// Oracle: brute force over the table with exact arithmetic (math/big). The
// property does not fix the rounding direction of the 100/95 RAM scaling, so the
// RAM verdict per type is three-valued:
//   must  : RAM*95 >= need*100             (type offers >= need after the 5% discount, exactly)
//   mustnot: RAM < floor(need*100/95)
//   may   : the one integer in between
// The scratch need is computed by a reference written from the documented
// heuristic (tmp mount capacities; image size estimate from the manifest size in
// the PDH: ((n-80) div 42) * 64 MiB for n >= 122, reserved twice - once as load
// buffer that tmp space may overlap with, once for the extracted image).

import (
	"fmt"
	"math/big"
	"sort"
	"strings"
	"testing"

	"git.arvados.org/arvados.git/sdk/go/arvados"
	"pgregory.net/rapid"
	"verif.local/vcommon/stats"
)

const vc16MiB = int64(1) << 20

type vc16Verdict int

const (
	vc16MustNot vc16Verdict = iota
	vc16May
	vc16Must
)

// vc16RefImageSize is the reference estimate of docker image size from a PDH.
func vc16RefImageSize(pdh string) *big.Int {
	zero := big.NewInt(0)
	if len(pdh) < 34 {
		return zero
	}
	for i := 0; i < 32; i++ {
		ch := pdh[i]
		if !(ch >= '0' && ch <= '9' || ch >= 'a' && ch <= 'f') {
			return zero
		}
	}
	if pdh[32] != '+' {
		return zero
	}
	digits := pdh[33:]
	for i := 0; i < len(digits); i++ {
		if digits[i] < '0' || digits[i] > '9' {
			return zero
		}
	}
	n, ok := new(big.Int).SetString(digits, 10)
	if !ok || n.Cmp(big.NewInt(122)) < 0 {
		return zero
	}
	blocks := new(big.Int).Sub(n, big.NewInt(80))
	blocks.Quo(blocks, big.NewInt(42))
	return blocks.Mul(blocks, big.NewInt(64*vc16MiB))
}

// vc16RefScratch is the reference scratch requirement.
func vc16RefScratch(ctr *arvados.Container) *big.Int {
	tmp := big.NewInt(0)
	for _, m := range ctr.Mounts {
		if m.Kind == "tmp" {
			tmp.Add(tmp, big.NewInt(m.Capacity))
		}
	}
	img := vc16RefImageSize(ctr.ContainerImage)
	need := new(big.Int).Set(tmp)
	if need.Cmp(img) < 0 {
		need.Set(img)
	}
	return need.Add(need, img)
}

func vc16RAMVerdict(typeRAM int64, need *big.Int) vc16Verdict {
	lhs := new(big.Int).Mul(big.NewInt(typeRAM), big.NewInt(95))
	rhs := new(big.Int).Mul(need, big.NewInt(100))
	if lhs.Cmp(rhs) >= 0 {
		return vc16Must
	}
	fl := new(big.Int).Quo(rhs, big.NewInt(95)) // floor, operands non-negative
	if big.NewInt(typeRAM).Cmp(fl) < 0 {
		return vc16MustNot
	}
	return vc16May
}

type vc16Need struct {
	vcpus       int
	ram         *big.Int // RAM + KeepCacheRAM + ReserveExtraRAM (before discount scaling)
	scratch     *big.Int
	preemptible bool
}

// vc16TypeVerdict combines all constraints for one type.
func vc16TypeVerdict(it arvados.InstanceType, need vc16Need) (v vc16Verdict, why string) {
	if it.VCPUs < need.vcpus {
		return vc16MustNot, "vcpus"
	}
	if big.NewInt(int64(it.Scratch)).Cmp(need.scratch) < 0 {
		return vc16MustNot, "scratch"
	}
	if it.Preemptible != need.preemptible {
		return vc16MustNot, "preemptible"
	}
	switch vc16RAMVerdict(int64(it.RAM), need.ram) {
	case vc16MustNot:
		return vc16MustNot, "ram"
	case vc16May:
		return vc16May, "ram-rounding"
	}
	return vc16Must, ""
}

func vc16Around(t *rapid.T, label string, anchors []int64) int64 {
	a := rapid.SampledFrom(anchors).Draw(t, label+"Anchor")
	d := rapid.SampledFrom([]int64{0, 0, 0, 0, -1, 1, -2, 2, -19, 19, 20, -20, 21, 95, 100}).Draw(t, label+"Delta")
	if a+d < 0 {
		return a
	}
	return a + d
}

func vc16Anchors(t *rapid.T, label string, units []int64, maxMult int64) []int64 {
	n := rapid.IntRange(1, 3).Draw(t, label+"N")
	out := make([]int64, 0, n)
	for i := 0; i < n; i++ {
		u := rapid.SampledFrom(units).Draw(t, label+"Unit")
		k := rapid.Int64Range(1, maxMult).Draw(t, label+"Mult")
		out = append(out, u*k)
	}
	return out
}

var vc16Prices = []float64{0, 0.05, 0.1, 0.123, 0.246, 0.5, 1.1, 2.2, 2.2000000000000006, 4.4}

func vc16GenTable(t *rapid.T) []arvados.InstanceType {
	n := 0
	if rapid.IntRange(0, 39).Draw(t, "emptyTable") != 17 {
		n = rapid.IntRange(1, 12).Draw(t, "nTypes")
	}
	if n == 0 {
		return nil
	}
	ramAnchors := vc16Anchors(t, "ram", []int64{20, 100, 1000, 5 * vc16MiB, vc16MiB, 1000000000, 1 << 30}, 64)
	scrAnchors := vc16Anchors(t, "scratch", []int64{1, 1000, 64 * vc16MiB, 128 * vc16MiB, 1000000000, 1 << 30}, 16)
	nPrices := rapid.IntRange(1, 4).Draw(t, "nPrices")
	prices := make([]float64, nPrices)
	for i := range prices {
		prices[i] = rapid.SampledFrom(vc16Prices).Draw(t, "pricePool")
	}
	maxCPU := rapid.IntRange(1, 8).Draw(t, "maxCPU")
	noScratch := rapid.IntRange(0, 5).Draw(t, "noScratchTable") == 0
	preemptMode := rapid.IntRange(0, 3).Draw(t, "preemptMode") // 0: none, 1: all, 2,3: mixed
	types := make([]arvados.InstanceType, n)
	for i := range types {
		it := arvados.InstanceType{
			Name:         fmt.Sprintf("t%02d", i),
			ProviderType: fmt.Sprintf("p%d", i%3),
			VCPUs:        rapid.IntRange(1, maxCPU).Draw(t, "vcpus"),
			RAM:          arvados.ByteSize(vc16Around(t, "ram", ramAnchors)),
			Price:        rapid.SampledFrom(prices).Draw(t, "price"),
		}
		if !noScratch {
			it.Scratch = arvados.ByteSize(vc16Around(t, "scratch", scrAnchors))
			it.IncludedScratch = it.Scratch
		}
		switch preemptMode {
		case 1:
			it.Preemptible = true
		case 2, 3:
			it.Preemptible = rapid.Bool().Draw(t, "preemptible")
		}
		types[i] = it
	}
	return types
}

func vc16Hash32(t *rapid.T) string {
	return rapid.StringMatching(`[0-9a-f]{32}`).Draw(t, "imgHash")
}

// vc16GenImage returns a container image string and the label of its class.
func vc16GenImage(t *rapid.T, targetEst int64, safe bool) (string, string) {
	cls := rapid.IntRange(0, 9).Draw(t, "imgClass")
	if safe && (cls == 5 || cls == 6 || cls == 9) {
		cls = 7 // keep the image estimate within the intended scratch need
	}
	if safe && (cls == 7 || cls == 8) && targetEst < 64*vc16MiB {
		cls = 0
	}
	switch cls {
	case 0, 1, 2:
		return "", "img-none"
	case 3:
		return rapid.SampledFrom([]string{
			"arvados/jobs:latest",
			"D5025C0F29F6EEF304A7358AFA82A822+342",
			"d5025c0f29f6eef304a7358afa82a822+-342",
			"d5025c0f29f6eef304a7358afa82a822+342+Afoo",
			"d5025c0f29f6eef304a7358afa82a82+342",
			"d5025c0f29f6eef304a7358afa82a822+",
			"d5025c0f29f6eef304a7358afa82a822 +342",
			"xd5025c0f29f6eef304a7358afa82a822+342",
		}).Draw(t, "imgBad"), "img-nonpdh"
	case 4:
		n := rapid.SampledFrom([]int64{0, 1, 79, 80, 81, 120, 121}).Draw(t, "imgSmall")
		return fmt.Sprintf("%s+%d", vc16Hash32(t), n), "img-below122"
	case 5, 6:
		// manifest sizes at the 42-byte block boundaries
		k := rapid.Int64Range(1, 40).Draw(t, "imgBlocks")
		d := rapid.SampledFrom([]int64{-1, 0, 0, 1, 41}).Draw(t, "imgBlockDelta")
		n := 80 + 42*k + d
		return fmt.Sprintf("%s+%d", vc16Hash32(t), n), "img-blockboundary"
	case 7, 8:
		// aim the estimate at targetEst (a multiple of 64 MiB when possible)
		k := targetEst / (64 * vc16MiB)
		if k < 1 {
			k = 1
		}
		if k > 4000 {
			k = 4000
		}
		n := 80 + 42*k + rapid.Int64Range(0, 41).Draw(t, "imgSlack")
		return fmt.Sprintf("%s+%d", vc16Hash32(t), n), "img-targeted"
	default:
		n := rapid.Int64Range(122, 200000).Draw(t, "imgAny")
		lead := rapid.SampledFrom([]string{"", "", "0", "00"}).Draw(t, "imgLeadingZeros")
		return fmt.Sprintf("%s+%s%d", vc16Hash32(t), lead, n), "img-random"
	}
}

func vc16SplitMounts(t *rapid.T, total int64) map[string]arvados.Mount {
	mounts := map[string]arvados.Mount{}
	if total < 0 {
		total = 0
	}
	k := rapid.IntRange(0, 3).Draw(t, "nTmp")
	if k == 0 && total > 0 {
		k = 1
	}
	rest := total
	for i := 0; i < k; i++ {
		c := rest
		if i < k-1 {
			c = rapid.Int64Range(0, rest).Draw(t, "tmpCap")
		}
		rest -= c
		mounts[fmt.Sprintf("/tmp%d", i)] = arvados.Mount{Kind: "tmp", Capacity: c}
	}
	// decoys: non-tmp mounts must not count, whatever their capacity says
	nd := rapid.IntRange(0, 2).Draw(t, "nDecoy")
	for i := 0; i < nd; i++ {
		kind := rapid.SampledFrom([]string{"collection", "json", "file", "git_tree", "", "TMP", "tmp ", "text"}).Draw(t, "decoyKind")
		mounts[fmt.Sprintf("/decoy%d", i)] = arvados.Mount{Kind: kind, Capacity: rapid.SampledFrom([]int64{0, 1, 1 << 30, 1 << 40}).Draw(t, "decoyCap")}
	}
	return mounts
}

func vc16Clamp(v, lo int64) int64 {
	if v < lo {
		return lo
	}
	return v
}

type vc16Case struct {
	types   []arvados.InstanceType
	reserve int64
	ctr     arvados.Container
	labels  []string
}

func vc16GenCase(t *rapid.T) vc16Case {
	var cs vc16Case
	cs.types = vc16GenTable(t)
	target := arvados.InstanceType{VCPUs: 2, RAM: 4000000000, Scratch: 1 << 30}
	if len(cs.types) > 0 {
		target = rapid.SampledFrom(cs.types).Draw(t, "targetType")
	}
	tram := int64(target.RAM)

	// One dimension is put at (or just beyond) the target type's boundary; the
	// others are satisfied by the target type, so the focused one decides.
	// focus 5 = every dimension drawn around its boundary independently.
	focus := rapid.SampledFrom([]int{0, 0, 0, 1, 2, 2, 3, 4, 5, 5}).Draw(t, "focus")
	cs.labels = append(cs.labels, "focus:"+[]string{"ram", "vcpus", "scratch", "preemptible", "none", "all"}[focus])
	ramFocus := focus == 0 || focus == 5
	cpuFocus := focus == 1 || focus == 5
	scrFocus := focus == 2 || focus == 5
	preFocus := focus == 3 || focus == 5

	// --- RAM need (total, before scaling) ---
	var need int64
	ramClass := rapid.IntRange(0, 9).Draw(t, "ramClass")
	if !ramFocus {
		ramClass = []int{0, 7}[ramClass%2]
	}
	switch ramClass {
	case 0, 1, 2, 3:
		n0 := new(big.Int).Mul(big.NewInt(tram), big.NewInt(95))
		n0.Quo(n0, big.NewInt(100))
		deltas := []int64{-1, 0, 0, 1, 1, 2}
		if !ramFocus {
			deltas = []int64{-1, 0, 0}
		}
		need = n0.Int64() + rapid.SampledFrom(deltas).Draw(t, "ramScaledDelta")
		cs.labels = append(cs.labels, "ram:at-discounted-boundary")
	case 4, 5:
		need = tram + rapid.SampledFrom([]int64{-1, 0, 1}).Draw(t, "ramRawDelta")
		cs.labels = append(cs.labels, "ram:at-configured-size")
	case 6:
		lo := tram * 95 / 100
		if lo > tram {
			lo = tram
		}
		need = rapid.Int64Range(lo, tram).Draw(t, "ramInDiscountGap")
		cs.labels = append(cs.labels, "ram:inside-discount-gap")
	case 7, 8:
		need = tram * int64(rapid.IntRange(10, 94).Draw(t, "ramPct")) / 100
		cs.labels = append(cs.labels, "ram:well-below")
	default:
		need = tram*2 + 1
		cs.labels = append(cs.labels, "ram:well-above")
	}
	need = vc16Clamp(need, 0)
	resChoices := []int64{0, 0, 1, 1000, 256 * vc16MiB, 1 << 30}
	cs.reserve = rapid.SampledFrom(resChoices).Draw(t, "reserve")
	if cs.reserve > need {
		if rapid.Bool().Draw(t, "reserveShrink") {
			cs.reserve = rapid.Int64Range(0, need).Draw(t, "reserveFit")
		} else {
			need = cs.reserve // reserve alone exceeds the intended need
			cs.labels = append(cs.labels, "ram:reserve-dominates")
		}
	}
	rest := need - cs.reserve
	var kc int64
	switch rapid.IntRange(0, 2).Draw(t, "keepCacheClass") {
	case 1:
		kc = 256 * vc16MiB
		if kc > rest {
			kc = rest
		}
	case 2:
		kc = rapid.Int64Range(0, rest).Draw(t, "keepCache")
	}
	cs.ctr.RuntimeConstraints.KeepCacheRAM = kc
	cs.ctr.RuntimeConstraints.RAM = rest - kc

	// --- VCPUs ---
	cpuDeltas := []int{-1, 0, 0, 1, 1}
	if !cpuFocus {
		cpuDeltas = []int{-1, 0, 0}
	}
	cs.ctr.RuntimeConstraints.VCPUs = int(vc16Clamp(int64(target.VCPUs+rapid.SampledFrom(cpuDeltas).Draw(t, "vcpuDelta")), 1))

	// --- scratch: tmp mounts + image ---
	tscr := int64(target.Scratch)
	scrDeltas := []int64{-1, 0, 0, 1, 1, -64 * vc16MiB, 64 * vc16MiB}
	if !scrFocus {
		scrDeltas = []int64{-1, 0, 0, -64 * vc16MiB}
	}
	want := tscr + rapid.SampledFrom(scrDeltas).Draw(t, "scratchDelta")
	if rapid.IntRange(0, 7).Draw(t, "scratchZero") == 3 {
		want = 0
	}
	want = vc16Clamp(want, 0)
	img, imgLabel := vc16GenImage(t, want/2, !scrFocus)
	cs.ctr.ContainerImage = img
	cs.labels = append(cs.labels, imgLabel)
	est := vc16RefImageSize(img)
	tmpTotal := want
	if est.Sign() > 0 && est.IsInt64() {
		e := est.Int64()
		if want >= 2*e {
			tmpTotal = want - e // need = tmp + est = want
		} else {
			// image dominates: need = 2*est whatever tmp (< est) is
			tmpTotal = rapid.Int64Range(0, e).Draw(t, "tmpUnderImage")
		}
	}
	cs.ctr.Mounts = vc16SplitMounts(t, tmpTotal)

	// --- preemptible ---
	cs.ctr.SchedulingParameters.Preemptible = target.Preemptible
	if preFocus && rapid.IntRange(0, 3).Draw(t, "flipPreempt") >= 2 {
		cs.ctr.SchedulingParameters.Preemptible = !target.Preemptible
	}
	return cs
}

func vc16TypeString(it arvados.InstanceType) string {
	return fmt.Sprintf("{%s cpu=%d ram=%d scratch=%d price=%v pre=%v}", it.Name, it.VCPUs, int64(it.RAM), int64(it.Scratch), it.Price, it.Preemptible)
}

func vc16Describe(cs vc16Case, need vc16Need) string {
	var sb strings.Builder
	fmt.Fprintf(&sb, "types=[")
	for _, it := range cs.types {
		sb.WriteString(vc16TypeString(it))
	}
	mk := make([]string, 0, len(cs.ctr.Mounts))
	for k := range cs.ctr.Mounts {
		mk = append(mk, k)
	}
	sort.Strings(mk)
	fmt.Fprintf(&sb, "] reserve=%d ctr={vcpus=%d ram=%d keepcache=%d preemptible=%v image=%q mounts=[", cs.reserve,
		cs.ctr.RuntimeConstraints.VCPUs, cs.ctr.RuntimeConstraints.RAM, cs.ctr.RuntimeConstraints.KeepCacheRAM,
		cs.ctr.SchedulingParameters.Preemptible, cs.ctr.ContainerImage)
	for _, k := range mk {
		fmt.Fprintf(&sb, "%s:%s:%d ", k, cs.ctr.Mounts[k].Kind, cs.ctr.Mounts[k].Capacity)
	}
	fmt.Fprintf(&sb, "]} need={vcpus=%d ram=%s scratch=%s pre=%v}", need.vcpus, need.ram, need.scratch, need.preemptible)
	return sb.String()
}

func TestVerifC16Choose(t *testing.T) {
	defer stats.Flush()
	rapid.Check(t, func(t *rapid.T) {
		cs := vc16GenCase(t)
		cluster := &arvados.Cluster{}
		cluster.Containers.ReserveExtraRAM = arvados.ByteSize(cs.reserve)
		if len(cs.types) > 0 || rapid.Bool().Draw(t, "emptyMapNotNil") {
			cluster.InstanceTypes = arvados.InstanceTypeMap{}
			for _, it := range cs.types {
				cluster.InstanceTypes[it.Name] = it
			}
		}

		need := vc16Need{
			vcpus:       cs.ctr.RuntimeConstraints.VCPUs,
			preemptible: cs.ctr.SchedulingParameters.Preemptible,
			scratch:     vc16RefScratch(&cs.ctr),
		}
		need.ram = big.NewInt(cs.ctr.RuntimeConstraints.RAM)
		need.ram.Add(need.ram, big.NewInt(cs.ctr.RuntimeConstraints.KeepCacheRAM))
		need.ram.Add(need.ram, big.NewInt(cs.reserve))
		desc := vc16Describe(cs, need)

		// scratch estimate itself
		if got := EstimateScratchSpace(&cs.ctr); big.NewInt(got).Cmp(need.scratch) != 0 {
			t.Fatalf("EstimateScratchSpace=%d, reference=%s; case %s", got, need.scratch, desc)
		}

		// brute force
		verdicts := make([]vc16Verdict, len(cs.types))
		nMust, nMay, nNot := 0, 0, 0
		cheapestMust := -1
		reasons := map[string]int{}
		for i, it := range cs.types {
			v, why := vc16TypeVerdict(it, need)
			verdicts[i] = v
			switch v {
			case vc16Must:
				nMust++
				if cheapestMust < 0 || it.Price < cs.types[cheapestMust].Price {
					cheapestMust = i
				}
			case vc16May:
				nMay++
			default:
				nNot++
				reasons[why]++
			}
		}

		labels := append([]string{}, cs.labels...)
		outcome := ""
		// Run the real code a few times: InstanceTypes is a map, iteration order varies.
		for rep := 0; rep < 3; rep++ {
			ctrCopy := cs.ctr
			best, err := ChooseInstanceType(cluster, &ctrCopy)
			switch {
			case len(cs.types) == 0:
				if err != ErrInstanceTypesNotConfigured {
					t.Fatalf("empty table: got (%v, %v), want ErrInstanceTypesNotConfigured; case %s", best, err, desc)
				}
				outcome = "out:not-configured"
			case err != nil:
				cerr, ok := err.(ConstraintsNotSatisfiableError)
				if !ok {
					t.Fatalf("unexpected error type %T (%v); case %s", err, err, desc)
				}
				if nMust > 0 {
					t.Fatalf("unsatisfiable error although type %s is adequate; case %s", vc16TypeString(cs.types[cheapestMust]), desc)
				}
				if best != (arvados.InstanceType{}) {
					t.Fatalf("error returned together with a type %s; case %s", vc16TypeString(best), desc)
				}
				// the error lists exactly the configured types, cheapest first
				if len(cerr.AvailableTypes) != len(cs.types) {
					t.Fatalf("error lists %d types, table has %d; case %s", len(cerr.AvailableTypes), len(cs.types), desc)
				}
				seen := map[string]bool{}
				for j, at := range cerr.AvailableTypes {
					want, ok := cluster.InstanceTypes[at.Name]
					if !ok || want != at || seen[at.Name] {
						t.Fatalf("error lists %s which is not (exactly once) in the table; case %s", vc16TypeString(at), desc)
					}
					seen[at.Name] = true
					if j > 0 && cerr.AvailableTypes[j-1].Price > at.Price {
						t.Fatalf("available types not sorted by price: %v before %v; case %s", cerr.AvailableTypes[j-1].Price, at.Price, desc)
					}
				}
				outcome = "out:unsatisfiable"
			default:
				idx := -1
				for i, it := range cs.types {
					if it == best {
						idx = i
					}
				}
				if idx < 0 {
					t.Fatalf("returned type %s is not in the table; case %s", vc16TypeString(best), desc)
				}
				if verdicts[idx] == vc16MustNot {
					_, why := vc16TypeVerdict(best, need)
					t.Fatalf("returned type %s is inadequate (%s); case %s", vc16TypeString(best), why, desc)
				}
				if cheapestMust >= 0 && cs.types[cheapestMust].Price < best.Price {
					t.Fatalf("returned type %s but adequate type %s is cheaper; case %s", vc16TypeString(best), vc16TypeString(cs.types[cheapestMust]), desc)
				}
				outcome = "out:chosen"
				if rep == 0 {
					if verdicts[idx] == vc16May {
						labels = append(labels, "chosen-is-rounding-boundary-type")
					}
					// shape labels
					ties, cheaperInadequate := 0, 0
					for i, it := range cs.types {
						if i != idx && verdicts[i] != vc16MustNot && it.Price == best.Price {
							ties++
						}
						if verdicts[i] == vc16MustNot && it.Price < best.Price {
							cheaperInadequate++
						}
					}
					if ties > 0 {
						labels = append(labels, "price-tie-among-adequate")
					}
					if cheaperInadequate > 0 {
						labels = append(labels, "cheaper-type-rejected")
					}
					if best.VCPUs == need.vcpus {
						labels = append(labels, "exact-fit:vcpus")
					}
					if big.NewInt(int64(best.Scratch)).Cmp(need.scratch) == 0 && need.scratch.Sign() > 0 {
						labels = append(labels, "exact-fit:scratch")
					}
					lhs := new(big.Int).Mul(big.NewInt(int64(best.RAM)), big.NewInt(95))
					rhs := new(big.Int).Mul(need.ram, big.NewInt(100))
					if lhs.Cmp(rhs) == 0 {
						labels = append(labels, "exact-fit:ram")
					}
				}
			}
		}
		labels = append(labels, outcome)
		if nMay > 0 {
			labels = append(labels, "has-rounding-boundary-type")
		}
		for why := range reasons {
			labels = append(labels, "rejects-by:"+why)
		}
		if need.scratch.Sign() > 0 {
			if img := vc16RefImageSize(cs.ctr.ContainerImage); img.Sign() > 0 {
				if new(big.Int).Mul(img, big.NewInt(2)).Cmp(need.scratch) == 0 {
					labels = append(labels, "scratch:image-dominates")
				} else {
					labels = append(labels, "scratch:tmp+image")
				}
			} else {
				labels = append(labels, "scratch:tmp-only")
			}
		}
		labels = append(labels, fmt.Sprintf("ntypes:%s", vc16Bucket(len(cs.types))))
		// Non-trivial: the table offers a real choice - at least two types, and either
		// adequate and inadequate types coexist, or two adequate types differ in price.
		nontrivial := false
		if len(cs.types) >= 2 {
			if (nMust+nMay) > 0 && nNot > 0 {
				nontrivial = true
			}
			var p0 float64
			first := true
			for i, it := range cs.types {
				if verdicts[i] == vc16MustNot {
					continue
				}
				if first {
					p0, first = it.Price, false
				} else if it.Price != p0 {
					nontrivial = true
				}
			}
		}
		stats.Case(stats.FP(desc), nontrivial, labels...)
		if stats.WantSample(outcome) {
			stats.Sample(outcome, desc)
		}
	})
}

func vc16Bucket(n int) string {
	switch {
	case n == 0:
		return "0"
	case n == 1:
		return "1"
	case n <= 4:
		return "2-4"
	case n <= 8:
		return "5-8"
	}
	return "9-12"
}
