package main

import (
	"encoding/json"
	"fmt"
	"sort"
	"testing"

	"pgregory.net/rapid"
	"verif.local/vcommon/ref"
	"verif.local/vcommon/stats"
)


var c05ClassSetsMulti = [][]string{
	nil, {"default"}, {"a"}, {"b"}, {"default", "a"}, {"a", "b"}, {"default", "b"}, {"default", "a", "b"},
}
var c05ClassSetsSingle = [][]string{nil, {"default"}}

type c05SharedDev struct {
	id      string
	repl    int
	classes []string
}

// c05Gen draws a layout and 1–3 blocks. mode "noshared" never produces a
// DeviceID used by two mounts; mode "shared" offers a pool of 1–3 device IDs
// that mounts on different servers may share.
func c05Gen(t *rapid.T) (*c05Case, string) {
	mode := rapid.SampledFrom([]string{"noshared", "shared", "noshared", "shared", "shared"}).Draw(t, "mode")
	multiClass := rapid.IntRange(0, 9).Draw(t, "multiclass") >= 4
	classSets := c05ClassSetsSingle
	if multiClass {
		classSets = c05ClassSetsMulti
	}
	var nsrv int
	switch rapid.SampledFrom([]int{0, 0, 0, 0, 0, 1, 1, 1, 2, 2}).Draw(t, "nsrvBucket") {
	case 0:
		nsrv = rapid.IntRange(1, 4).Draw(t, "nsrv")
	case 1:
		nsrv = rapid.IntRange(5, 8).Draw(t, "nsrv")
	default:
		nsrv = rapid.IntRange(9, 16).Draw(t, "nsrv")
	}
	roPlan := rapid.SampledFrom([]string{"mixed", "mixed", "mixed", "mixed", "mixed", "mixed", "none", "none", "allsrv", "allmnt"}).Draw(t, "roPlan")

	var pool []c05SharedDev
	if mode == "shared" {
		np := rapid.IntRange(1, 3).Draw(t, "npool")
		for i := 0; i < np; i++ {
			pool = append(pool, c05SharedDev{
				id:      fmt.Sprintf("shared-%d", i),
				repl:    rapid.SampledFrom([]int{1, 1, 1, 2, 3}).Draw(t, "poolRepl"),
				classes: rapid.SampledFrom(classSets).Draw(t, "poolClasses"),
			})
		}
	}

	cs := &c05Case{MinMtime: c05MinMtime}
	mountSeq := 0
	for si := 0; si < nsrv; si++ {
		r := rapid.Uint64Range(0, 1<<56-1).Draw(t, "srvUUID")
		s := c05Srv{
			UUID: fmt.Sprintf("zzzzz-bi6l4-%015x", r<<4|uint64(si)),
			Host: fmt.Sprintf("keep%d.zzzzz.example", si),
			Port: 25107 + si,
			SSL:  rapid.IntRange(0, 3).Draw(t, "ssl") == 3,
		}
		switch roPlan {
		case "mixed":
			s.RO = rapid.IntRange(0, 5).Draw(t, "srvRO") == 5
		case "allsrv":
			s.RO = true
		}
		nm := rapid.SampledFrom([]int{1, 1, 1, 2, 2, 0, 3}).Draw(t, "nmounts")
		used := map[string]bool{}
		for mi := 0; mi < nm; mi++ {
			m := c05Mount{UUID: fmt.Sprintf("zzzzz-nyw5e-%015x", mountSeq)}
			mountSeq++
			switch roPlan {
			case "mixed":
				m.RO = rapid.IntRange(0, 4).Draw(t, "mntRO") == 4
			case "allmnt":
				m.RO = true
			}
			kinds := []string{"unique", "blank", "unique"}
			if mode == "shared" {
				kinds = []string{"unique", "blank", "shared", "shared", "shared"}
			}
			kind := rapid.SampledFrom(kinds).Draw(t, "devKind")
			if kind == "shared" {
				d := pool[rapid.IntRange(0, len(pool)-1).Draw(t, "poolIdx")]
				if used[d.id] {
					kind = "unique"
				} else {
					used[d.id] = true
					m.Dev, m.Repl, m.Classes = d.id, d.repl, d.classes
				}
			}
			if kind != "shared" {
				m.Repl = rapid.SampledFrom([]int{1, 1, 1, 2, 3}).Draw(t, "repl")
				m.Classes = rapid.SampledFrom(classSets).Draw(t, "classes")
				if kind == "unique" {
					m.Dev = fmt.Sprintf("dev-%d-%d", si, mi)
				}
			}
			s.Mounts = append(s.Mounts, m)
		}
		cs.Srvs = append(cs.Srvs, s)
	}

	// physical devices, in a fixed order
	var devs []string
	seen := map[string]bool{}
	nMounts := 0
	for si := range cs.Srvs {
		for mi := range cs.Srvs[si].Mounts {
			nMounts++
			k := c05DevKey(&cs.Srvs[si].Mounts[mi])
			if !seen[k] {
				seen[k] = true
				devs = append(devs, k)
			}
		}
	}

	cs.ViaCCS = rapid.IntRange(0, 7).Draw(t, "viaCCS") == 7
	nblk := 1
	if cs.ViaCCS {
		nblk = rapid.IntRange(1, 3).Draw(t, "nblk")
	}
	wantClassSets := classSets
	for bi := 0; bi < nblk; bi++ {
		b := c05Block{
			Hash: fmt.Sprintf("%016x%015x%x", rapid.Uint64().Draw(t, "hashHi"), rapid.Uint64Range(0, 1<<60-1).Draw(t, "hashLo"), bi),
			Size: rapid.IntRange(0, 64).Draw(t, "size"),
		}
		nw := rapid.SampledFrom([]int{1, 1, 1, 2, 3, 0}).Draw(t, "nwants")
		for i := 0; i < nw; i++ {
			b.Wants = append(b.Wants, c05Want{
				Classes: rapid.SampledFrom(wantClassSets).Draw(t, "wantClasses"),
				N:       rapid.SampledFrom([]int{2, 1, 3, 2, 1, 2, 0, 3, 4}).Draw(t, "wantN"),
			})
		}
		density := rapid.SampledFrom([]int{2, 1, 3, 2, 4, 3, 0}).Draw(t, "density") // copies on ≈ density/4 of the devices
		b.Copies = map[string]int64{}
		for di, dev := range devs {
			if rapid.IntRange(0, 3).Draw(t, "hasCopy") >= density {
				continue
			}
			var mt int64
			switch rapid.SampledFrom([]string{"old", "old", "oldC", "oldC2", "new", "oldEdge", "newEdge", "newC"}).Draw(t, "mtimeKind") {
			case "old":
				mt = c05MinMtime - 86400e9 - int64(di)*1000 - int64(rapid.IntRange(0, 9).Draw(t, "mtJitter"))
			case "oldC":
				mt = c05MinMtime - 7200e9
			case "oldC2":
				mt = c05MinMtime - 7300e9
			case "new":
				mt = c05MinMtime + 1e9 + int64(di)
			case "oldEdge":
				mt = c05MinMtime - 1
			case "newEdge":
				mt = c05MinMtime
			case "newC":
				mt = c05MinMtime + 5
			}
			b.Copies[dev] = mt
		}
		idx := make([]int, nMounts)
		for i := range idx {
			idx[i] = i
		}
		if nMounts > 1 && rapid.Bool().Draw(t, "shuffle") {
			idx = rapid.Permutation(idx).Draw(t, "order")
		}
		b.Order = idx
		b.WantsFirst = rapid.Bool().Draw(t, "wantsFirst")
		cs.Blocks = append(cs.Blocks, b)
	}
	return cs, mode
}

type c05Fataler interface {
	Fatalf(string, ...interface{})
}

// c05Judge runs the oracle on one output; the one known finding is counted and
// excused through its narrow classifier, anything else fails the case.
// It returns the labels describing what happened.
func c05Judge(t c05Fataler, w *c05World, b *c05Block, out *c05Out, path string) (labels []string, f *c05Facts) {
	viols, f := w.oracle(b, out)
	if len(viols) == 0 {
		return nil, f
	}
	desc := fmt.Sprintf("violations: %v\nblock: %s\noutput: %s\nlayout: %s", viols, c05JSON(b), c05JSON(out), c05JSON(w.cs.Srvs))
	if ok, why := w.explainedByStandIn(b, out, viols, f); ok {
		if stats.Known(c05KnownStandIn, why+"; "+desc) {
			return []string{"known:" + c05KnownStandIn}, f
		}
		t.Fatalf("C05 violated via %s [matches classifier %s: %s]\n%s\nfull case: %s", path, c05KnownStandIn, why, desc, w.cs.JSON())
	}
	t.Fatalf("C05 violated via %s\n%s\nfull case: %s", path, desc, w.cs.JSON())
	return nil, f
}

func c05JSON(v interface{}) string {
	buf, _ := json.Marshal(v)
	return string(buf)
}

// c05Labels describes one (layout, block, output) for the evidence histogram.
func (w *c05World) c05Labels(b *c05Block, out *c05Out, f *c05Facts) (labels []string, nontrivial bool) {
	if len(out.Trashes) > 0 {
		labels = append(labels, "trash-emitted")
	}
	if len(out.Pulls) > 0 {
		labels = append(labels, "pull-emitted")
	}
	if out.Lost {
		labels = append(labels, "lost")
	}
	if len(f.under) > 0 {
		labels = append(labels, "underreplicated-class")
	}
	over := false
	for _, c := range f.classes {
		if f.before[c] > f.desired[c] {
			over = true
		}
	}
	if over {
		labels = append(labels, "overreplicated-class")
	}
	if len(b.Wants) == 0 {
		labels = append(labels, "unreferenced")
	}
	if len(w.c05SharedCounted(b)) > 0 {
		labels = append(labels, "copy-on-device-with-2+-views")
	}
	mt := map[int64]int{}
	for _, m := range b.Copies {
		mt[m]++
		if m >= w.cs.MinMtime {
			labels = append(labels, "new-replica")
		}
		if m == w.cs.MinMtime || m == w.cs.MinMtime-1 {
			labels = append(labels, "boundary-mtime")
		}
	}
	for _, n := range mt {
		if n > 1 {
			labels = append(labels, "mtime-collision")
		}
	}
	// an empty, writable mount on a server that ranks better (rendezvous) than
	// some server holding a copy
	if len(b.Copies) > 0 {
		uuids := make([]string, len(w.cs.Srvs))
		for i := range w.cs.Srvs {
			uuids[i] = w.cs.Srvs[i].UUID
		}
		rank := map[string]int{}
		for i, u := range ref.RendezvousOrder(b.Hash, uuids) {
			rank[u] = i
		}
		worstCopy, bestEmpty := -1, 1<<30
		for _, mi := range w.minfo {
			r := rank[w.cs.Srvs[mi.srv].UUID]
			if _, has := b.Copies[mi.dev]; has {
				if r > worstCopy {
					worstCopy = r
				}
			} else if !mi.ro && r < bestEmpty {
				bestEmpty = r
			}
		}
		if bestEmpty < worstCopy {
			labels = append(labels, "empty-better-ranked-writable-slot")
		}
	}
	labels = c05Uniq(labels)
	nontrivial = (len(b.Copies) >= 2 && (len(out.Trashes) > 0 || len(out.Pulls) > 0)) || (len(f.under) > 0 && len(b.Copies) > 0)
	return
}

func c05Uniq(in []string) []string {
	sort.Strings(in)
	var out []string
	for i, s := range in {
		if i == 0 || in[i-1] != s {
			out = append(out, s)
		}
	}
	return out
}

func (w *c05World) layoutLabels(mode string) []string {
	labels := []string{"mode:" + mode}
	n := len(w.cs.Srvs)
	switch {
	case n <= 4:
		labels = append(labels, "nsrv:1-4")
	case n <= 8:
		labels = append(labels, "nsrv:5-8")
	default:
		labels = append(labels, "nsrv:9-16")
	}
	shared, dropped, allRO, multi, repl, two, svcRO := false, false, len(w.minfo) > 0, false, false, false, false
	for _, dev := range w.devKeys {
		if len(w.devMounts[dev]) > 1 {
			shared = true
		}
	}
	for gi, mi := range w.minfo {
		if !w.alive[gi] {
			dropped = true
		}
		if !mi.ro {
			allRO = false
		}
		if len(mi.classes) > 1 || !mi.classes["default"] {
			multi = true
		}
		if mi.m.Repl > 1 {
			repl = true
		}
	}
	for i := range w.cs.Srvs {
		if len(w.cs.Srvs[i].Mounts) > 1 {
			two = true
		}
		if w.cs.Srvs[i].RO {
			svcRO = true
		}
	}
	for _, x := range []struct {
		on bool
		l  string
	}{{shared, "shared-device-in-layout"}, {!shared, "no-shared-device-in-layout"}, {dropped, "cleanupMounts-dropped-a-view"}, {allRO, "all-read-only"},
		{multi, "non-default-storage-class"}, {repl, "mount-replication>1"}, {two, "server-with-2+-mounts"}, {svcRO, "read-only-service"}} {
		if x.on {
			labels = append(labels, x.l)
		}
	}
	return labels
}

func TestVerifC05Balance(t *testing.T) {
	defer stats.Flush()
	rapid.Check(t, func(t *rapid.T) {
		cs, mode := c05Gen(t)
		w, err := c05Build(cs)
		if err != nil {
			t.Fatalf("VERIF-INFRA: generator produced an invalid case: %v\n%s", err, cs.JSON())
		}
		if mode == "noshared" {
			for _, dev := range w.devKeys {
				if len(w.devMounts[dev]) > 1 {
					t.Fatalf("VERIF-INFRA: noshared mode produced a shared device\n%s", cs.JSON())
				}
			}
		}
		labels := w.layoutLabels(mode)
		nontrivial := false
		for bi := range cs.Blocks {
			b := &cs.Blocks[bi]
			// twice: KeepServices is a map, so slot order (and with it the
			// outcome of ties) may differ between calls
			for rep := 0; rep < 2; rep++ {
				out, err := w.balanceDirect(b)
				if err != nil {
					t.Fatalf("VERIF-INFRA: %v", err)
				}
				kl, f := c05Judge(t, w, b, &out, "balanceBlock")
				if rep == 0 {
					bl, nt := w.c05Labels(b, &out, f)
					labels = append(labels, bl...)
					labels = append(labels, kl...)
					nontrivial = nontrivial || nt
					for _, l := range []string{"trash-emitted", "pull-emitted", "lost"} {
						for _, have := range bl {
							if have == l && stats.WantSample(l) {
								stats.Sample(l, map[string]interface{}{"layout": cs.Srvs, "block": b, "output": out})
							}
						}
					}
				}
			}
		}
		if cs.ViaCCS {
			outs, err := w.balanceViaCCS(cs.Blocks)
			if err != nil {
				t.Fatalf("VERIF-INFRA: %v", err)
			}
			for bi := range cs.Blocks {
				kl, _ := c05Judge(t, w, &cs.Blocks[bi], &outs[bi], "ComputeChangeSets")
				labels = append(labels, kl...)
			}
			labels = append(labels, "via-ComputeChangeSets")
		}
		stats.Case(stats.FP(cs.JSON()), nontrivial, c05Uniq(labels)...)
	})
}
