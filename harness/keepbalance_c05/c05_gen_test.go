package main

import (
	"encoding/json"
	"fmt"
	"sort"
	"strings"
	"testing"

	"pgregory.net/rapid"
	"verif.local/vcommon/ref"
	"verif.local/vcommon/stats"
)


var c05ClassSetsMulti = [][]string{
	nil, {"default"}, {"a"}, {"b"}, {"default", "a"}, {"a", "b"}, {"default", "b"}, {"default", "a", "b"},
}
var c05ClassSetsSingle = [][]string{nil, {"default"}}

type c05SharedDev struct {
	id      string
	repl    int
	classes []string
}

// c05Gen draws a layout and 1–3 blocks. mode "noshared" never produces a
// DeviceID used by two mounts; mode "shared" offers a pool of 1–3 device IDs
// that mounts on different servers may share.
func c05Gen(t *rapid.T) (*c05Case, string) {
	mode := rapid.SampledFrom([]string{"noshared", "shared", "noshared", "shared", "shared"}).Draw(t, "mode")
	multiClass := rapid.IntRange(0, 9).Draw(t, "multiclass") >= 4
	classSets := c05ClassSetsSingle
	if multiClass {
		classSets = c05ClassSetsMulti
	}
	var nsrv int
	switch rapid.SampledFrom([]int{0, 0, 0, 0, 0, 1, 1, 1, 2, 2}).Draw(t, "nsrvBucket") {
	case 0:
		nsrv = rapid.IntRange(1, 4).Draw(t, "nsrv")
	case 1:
		nsrv = rapid.IntRange(5, 8).Draw(t, "nsrv")
	default:
		nsrv = rapid.IntRange(9, 16).Draw(t, "nsrv")
	}
	roPlan := rapid.SampledFrom([]string{"mixed", "mixed", "mixed", "mixed", "mixed", "mixed", "none", "none", "allsrv", "allmnt"}).Draw(t, "roPlan")

	var pool []c05SharedDev
	if mode == "shared" {
		np := rapid.IntRange(1, 3).Draw(t, "npool")
		for i := 0; i < np; i++ {
			pool = append(pool, c05SharedDev{
				id:      fmt.Sprintf("shared-%d", i),
				repl:    rapid.SampledFrom([]int{1, 1, 1, 2, 3}).Draw(t, "poolRepl"),
				classes: rapid.SampledFrom(classSets).Draw(t, "poolClasses"),
			})
		}
	}

	cs := &c05Case{MinMtime: c05MinMtime}
	mountSeq := 0
	for si := 0; si < nsrv; si++ {
		r := rapid.Uint64Range(0, 1<<56-1).Draw(t, "srvUUID")
		s := c05Srv{
			UUID: fmt.Sprintf("zzzzz-bi6l4-%015x", r<<4|uint64(si)),
			Host: fmt.Sprintf("keep%d.zzzzz.example", si),
			Port: 25107 + si,
			SSL:  rapid.IntRange(0, 3).Draw(t, "ssl") == 3,
		}
		switch roPlan {
		case "mixed":
			s.RO = rapid.IntRange(0, 5).Draw(t, "srvRO") == 5
		case "allsrv":
			s.RO = true
		}
		nm := rapid.SampledFrom([]int{1, 1, 1, 2, 2, 0, 3}).Draw(t, "nmounts")
		used := map[string]bool{}
		for mi := 0; mi < nm; mi++ {
			m := c05Mount{UUID: fmt.Sprintf("zzzzz-nyw5e-%015x", mountSeq)}
			mountSeq++
			switch roPlan {
			case "mixed":
				m.RO = rapid.IntRange(0, 4).Draw(t, "mntRO") == 4
			case "allmnt":
				m.RO = true
			}
			kinds := []string{"unique", "blank", "unique"}
			if mode == "shared" {
				kinds = []string{"unique", "blank", "shared", "shared", "shared"}
			}
			kind := rapid.SampledFrom(kinds).Draw(t, "devKind")
			if kind == "shared" {
				d := pool[rapid.IntRange(0, len(pool)-1).Draw(t, "poolIdx")]
				if used[d.id] {
					kind = "unique"
				} else {
					used[d.id] = true
					m.Dev, m.Repl, m.Classes = d.id, d.repl, d.classes
				}
			}
			if kind != "shared" {
				m.Repl = rapid.SampledFrom([]int{1, 1, 1, 2, 3}).Draw(t, "repl")
				m.Classes = rapid.SampledFrom(classSets).Draw(t, "classes")
				if kind == "unique" {
					m.Dev = fmt.Sprintf("dev-%d-%d", si, mi)
				}
			}
			s.Mounts = append(s.Mounts, m)
		}
		cs.Srvs = append(cs.Srvs, s)
	}

	// physical devices, in a fixed order
	var devs []string
	seen := map[string]bool{}
	nMounts := 0
	for si := range cs.Srvs {
		for mi := range cs.Srvs[si].Mounts {
			nMounts++
			k := c05DevKey(&cs.Srvs[si].Mounts[mi])
			if !seen[k] {
				seen[k] = true
				devs = append(devs, k)
			}
		}
	}

	cs.ViaCCS = rapid.IntRange(0, 7).Draw(t, "viaCCS") == 7
	nblk := 1
	if cs.ViaCCS {
		nblk = rapid.IntRange(1, 3).Draw(t, "nblk")
	}
	wantClassSets := classSets
	usedHash := map[string]bool{}
	for bi := 0; bi < nblk; bi++ {
		b := c05Block{}
		b.Hash, b.Size = c05GenBlkid(t, bi, usedHash)
		nw := rapid.SampledFrom([]int{1, 1, 1, 2, 3, 0}).Draw(t, "nwants")
		for i := 0; i < nw; i++ {
			b.Wants = append(b.Wants, c05Want{
				Classes: rapid.SampledFrom(wantClassSets).Draw(t, "wantClasses"),
				N:       rapid.SampledFrom([]int{2, 1, 3, 2, 1, 2, 0, 3, 4}).Draw(t, "wantN"),
			})
		}
		density := rapid.SampledFrom([]int{2, 1, 3, 2, 4, 3, 0}).Draw(t, "density") // copies on ≈ density/4 of the devices
		b.Copies = map[string]int64{}
		for di, dev := range devs {
			if rapid.IntRange(0, 3).Draw(t, "hasCopy") >= density {
				continue
			}
			var mt int64
			switch rapid.SampledFrom([]string{"old", "old", "oldC", "oldC2", "new", "oldEdge", "newEdge", "newC"}).Draw(t, "mtimeKind") {
			case "old":
				mt = c05MinMtime - 86400e9 - int64(di)*1000 - int64(rapid.IntRange(0, 9).Draw(t, "mtJitter"))
			case "oldC":
				mt = c05MinMtime - 7200e9
			case "oldC2":
				mt = c05MinMtime - 7300e9
			case "new":
				mt = c05MinMtime + 1e9 + int64(di)
			case "oldEdge":
				mt = c05MinMtime - 1
			case "newEdge":
				mt = c05MinMtime
			case "newC":
				mt = c05MinMtime + 5
			}
			b.Copies[dev] = mt
		}
		idx := make([]int, nMounts)
		for i := range idx {
			idx[i] = i
		}
		if nMounts > 1 && rapid.Bool().Draw(t, "shuffle") {
			idx = rapid.Permutation(idx).Draw(t, "order")
		}
		b.Order = idx
		b.WantsFirst = rapid.Bool().Draw(t, "wantsFirst")
		cs.Blocks = append(cs.Blocks, b)
	}
	return cs, mode
}

// ---------------------------------------------------------------- block ids (round 2)

const c05EmptyHash = "d41d8cd98f00b204e9800998ecf8427e" // md5 of the empty string: the one real zero-size block

// c05GenBlkid draws the block id (hash, size). Half of the ids are plain random;
// the rest are the special regions of the SizedDigest domain: the well-known
// empty block d41d8cd98f00b204e9800998ecf8427e+0, other hashes with size 0,
// hashes that start / end with a run of 0 or f digits (or consist of one digit
// only), and sizes 1, 2^26-1, 2^26, 2^26+k, 2^31 and beyond. Hashes are unique
// within a case (the lost-block report and the ChangeSets name the bare hash).
func c05GenBlkid(t *rapid.T, bi int, used map[string]bool) (string, int) {
	random := fmt.Sprintf("%016x%015x%x", rapid.Uint64().Draw(t, "hashHi"), rapid.Uint64Range(0, 1<<60-1).Draw(t, "hashLo"), bi)
	kind := rapid.SampledFrom([]string{
		"random", "random", "random", "random", "random", "random", "random", "random",
		"empty", "empty", "empty",
		"lead0", "leadf", "trail0", "trailf", "all",
	}).Draw(t, "hashKind")
	hash := random
	switch kind {
	case "empty":
		hash = c05EmptyHash
	case "lead0", "leadf", "trail0", "trailf":
		n := rapid.SampledFrom([]int{1, 2, 4, 8, 15, 16, 17, 24, 31}).Draw(t, "runLen")
		d := "0"
		if kind == "leadf" || kind == "trailf" {
			d = "f"
		}
		run := strings.Repeat(d, n)
		if kind == "lead0" || kind == "leadf" {
			hash = run + random[n:]
		} else {
			// keep the distinguishing digit (bi) in front of the run
			hash = random[:31-n] + random[31:] + run
		}
	case "all":
		hash = strings.Repeat(rapid.SampledFrom([]string{"0", "f", "0", "f", "1", "8"}).Draw(t, "allDigit"), 32)
	}
	if used[hash] {
		hash = random
	}
	if used[hash] {
		t.Skip("duplicate block hash (only reachable while shrinking)")
	}
	used[hash] = true

	var size int
	sizeKind := rapid.SampledFrom([]string{"small", "small", "small", "small", "zero", "one", "max-1", "max", "max+1", "max+k", "2^31", "huge"}).Draw(t, "sizeKind")
	if hash == c05EmptyHash && rapid.IntRange(0, 7).Draw(t, "emptyKeepsZero") != 0 {
		sizeKind = "zero" // the real empty block; 1/8 keep the drawn size (an id no keepstore can produce, still an id)
	}
	switch sizeKind {
	case "small":
		size = rapid.IntRange(0, 64).Draw(t, "size")
	case "zero":
		size = 0
	case "one":
		size = 1
	case "max-1":
		size = 1<<26 - 1
	case "max":
		size = 1 << 26
	case "max+1":
		size = 1<<26 + 1
	case "max+k":
		size = 1<<26 + rapid.IntRange(2, 1<<26).Draw(t, "sizeOver")
	case "2^31":
		size = 1<<31 - 1 + rapid.IntRange(0, 2).Draw(t, "sizeAround31")
	case "huge":
		size = 1<<32 + rapid.IntRange(0, 1<<40).Draw(t, "sizeHuge")
	}
	return hash, size
}

// c05BlkidLabels measures the block-id regions for the evidence.
func c05BlkidLabels(b *c05Block) (labels []string) {
	if b.Hash == c05EmptyHash && b.Size == 0 {
		labels = append(labels, "blkid:empty-block-d41d8cd9+0")
	} else if b.Hash == c05EmptyHash {
		labels = append(labels, "blkid:empty-hash-nonzero-size")
	} else if b.Size == 0 {
		labels = append(labels, "blkid:zero-size-other-hash")
	}
	run := func(s string, fromEnd bool) (byte, int) {
		if fromEnd {
			n := 0
			for n < len(s) && s[len(s)-1-n] == s[len(s)-1] {
				n++
			}
			return s[len(s)-1], n
		}
		n := 0
		for n < len(s) && s[n] == s[0] {
			n++
		}
		return s[0], n
	}
	if d, n := run(b.Hash, false); (d == '0' || d == 'f') && n < 32 {
		labels = append(labels, "blkid:hash-starts-with-"+string(d))
		if n >= 8 {
			labels = append(labels, "blkid:hash-starts-with-run>=8-of-"+string(d))
		}
	}
	if d, n := run(b.Hash, true); (d == '0' || d == 'f') && n < 32 {
		labels = append(labels, "blkid:hash-ends-with-"+string(d))
		if n >= 8 {
			labels = append(labels, "blkid:hash-ends-with-run>=8-of-"+string(d))
		}
	}
	if _, n := run(b.Hash, false); n == 32 {
		labels = append(labels, "blkid:hash-single-digit-x32")
	}
	switch {
	case b.Size == 0:
	case b.Size == 1:
		labels = append(labels, "blkid:size=1")
	case b.Size < 1<<26-1:
		labels = append(labels, "blkid:size-ordinary")
	case b.Size == 1<<26-1:
		labels = append(labels, "blkid:size=2^26-1")
	case b.Size == 1<<26:
		labels = append(labels, "blkid:size=2^26")
	case b.Size < 1<<31-1:
		labels = append(labels, "blkid:size>2^26")
	default:
		labels = append(labels, "blkid:size>=2^31-1")
	}
	return labels
}

type c05Fataler interface {
	Fatalf(string, ...interface{})
}

// c05Judge runs the oracle on one output; the one known finding is counted and
// excused through its narrow classifier, anything else fails the case.
// It returns the labels describing what happened.
func c05Judge(t c05Fataler, w *c05World, b *c05Block, out *c05Out, path string) (labels []string, f *c05Facts) {
	viols, f := w.oracle(b, out)
	if len(viols) == 0 {
		return nil, f
	}
	desc := fmt.Sprintf("violations: %v\nblock: %s\noutput: %s\nlayout: %s", viols, c05JSON(b), c05JSON(out), c05JSON(w.cs.Srvs))
	if ok, why := w.explainedByStandIn(b, out, viols, f); ok {
		if stats.Known(c05KnownStandIn, why+"; "+desc) {
			return []string{"known:" + c05KnownStandIn}, f
		}
		t.Fatalf("C05 violated via %s [matches classifier %s: %s]\n%s\nfull case: %s", path, c05KnownStandIn, why, desc, w.cs.JSON())
	}
	t.Fatalf("C05 violated via %s\n%s\nfull case: %s", path, desc, w.cs.JSON())
	return nil, f
}

func c05JSON(v interface{}) string {
	buf, _ := json.Marshal(v)
	return string(buf)
}

// c05Labels describes one (layout, block, output) for the evidence histogram.
func (w *c05World) c05Labels(b *c05Block, out *c05Out, f *c05Facts) (labels []string, nontrivial bool) {
	if len(out.Trashes) > 0 {
		labels = append(labels, "trash-emitted")
	}
	if len(out.Pulls) > 0 {
		labels = append(labels, "pull-emitted")
	}
	if out.Lost {
		labels = append(labels, "lost")
	}
	if len(f.under) > 0 {
		labels = append(labels, "underreplicated-class")
	}
	over := false
	for _, c := range f.classes {
		if f.before[c] > f.desired[c] {
			over = true
		}
	}
	if over {
		labels = append(labels, "overreplicated-class")
	}
	if len(b.Wants) == 0 {
		labels = append(labels, "unreferenced")
	}
	if len(w.c05SharedCounted(b)) > 0 {
		labels = append(labels, "copy-on-device-with-2+-views")
	}
	mt := map[int64]int{}
	for _, m := range b.Copies {
		mt[m]++
		if m >= w.cs.MinMtime {
			labels = append(labels, "new-replica")
		}
		if m == w.cs.MinMtime || m == w.cs.MinMtime-1 {
			labels = append(labels, "boundary-mtime")
		}
	}
	for _, n := range mt {
		if n > 1 {
			labels = append(labels, "mtime-collision")
		}
	}
	// an empty, writable mount on a server that ranks better (rendezvous) than
	// some server holding a copy
	if len(b.Copies) > 0 {
		uuids := make([]string, len(w.cs.Srvs))
		for i := range w.cs.Srvs {
			uuids[i] = w.cs.Srvs[i].UUID
		}
		rank := map[string]int{}
		for i, u := range ref.RendezvousOrder(b.Hash, uuids) {
			rank[u] = i
		}
		worstCopy, bestEmpty := -1, 1<<30
		for _, mi := range w.minfo {
			r := rank[w.cs.Srvs[mi.srv].UUID]
			if _, has := b.Copies[mi.dev]; has {
				if r > worstCopy {
					worstCopy = r
				}
			} else if !mi.ro && r < bestEmpty {
				bestEmpty = r
			}
		}
		if bestEmpty < worstCopy {
			labels = append(labels, "empty-better-ranked-writable-slot")
		}
	}
	labels = c05Uniq(labels)
	nontrivial = (len(b.Copies) >= 2 && (len(out.Trashes) > 0 || len(out.Pulls) > 0)) || (len(f.under) > 0 && len(b.Copies) > 0)
	return
}

func c05Uniq(in []string) []string {
	sort.Strings(in)
	var out []string
	for i, s := range in {
		if i == 0 || in[i-1] != s {
			out = append(out, s)
		}
	}
	return out
}

func (w *c05World) layoutLabels(mode string) []string {
	labels := []string{"mode:" + mode}
	n := len(w.cs.Srvs)
	switch {
	case n <= 4:
		labels = append(labels, "nsrv:1-4")
	case n <= 8:
		labels = append(labels, "nsrv:5-8")
	default:
		labels = append(labels, "nsrv:9-16")
	}
	shared, dropped, allRO, multi, repl, two, svcRO := false, false, len(w.minfo) > 0, false, false, false, false
	for _, dev := range w.devKeys {
		if len(w.devMounts[dev]) > 1 {
			shared = true
		}
	}
	for gi, mi := range w.minfo {
		if !w.alive[gi] {
			dropped = true
		}
		if !mi.ro {
			allRO = false
		}
		if len(mi.classes) > 1 || !mi.classes["default"] {
			multi = true
		}
		if mi.m.Repl > 1 {
			repl = true
		}
	}
	for i := range w.cs.Srvs {
		if len(w.cs.Srvs[i].Mounts) > 1 {
			two = true
		}
		if w.cs.Srvs[i].RO {
			svcRO = true
		}
	}
	for _, x := range []struct {
		on bool
		l  string
	}{{shared, "shared-device-in-layout"}, {!shared, "no-shared-device-in-layout"}, {dropped, "cleanupMounts-dropped-a-view"}, {allRO, "all-read-only"},
		{multi, "non-default-storage-class"}, {repl, "mount-replication>1"}, {two, "server-with-2+-mounts"}, {svcRO, "read-only-service"}} {
		if x.on {
			labels = append(labels, x.l)
		}
	}
	return labels
}

func TestVerifC05Balance(t *testing.T) {
	defer stats.Flush()
	rapid.Check(t, func(t *rapid.T) {
		cs, mode := c05Gen(t)
		w, err := c05Build(cs)
		if err != nil {
			t.Fatalf("VERIF-INFRA: generator produced an invalid case: %v\n%s", err, cs.JSON())
		}
		if mode == "noshared" {
			for _, dev := range w.devKeys {
				if len(w.devMounts[dev]) > 1 {
					t.Fatalf("VERIF-INFRA: noshared mode produced a shared device\n%s", cs.JSON())
				}
			}
		}
		labels := w.layoutLabels(mode)
		nontrivial := false
		for bi := range cs.Blocks {
			b := &cs.Blocks[bi]
			// twice: KeepServices is a map, so slot order (and with it the
			// outcome of ties) may differ between calls
			for rep := 0; rep < 2; rep++ {
				out, err := w.balanceDirect(b)
				if err != nil {
					t.Fatalf("VERIF-INFRA: %v", err)
				}
				kl, f := c05Judge(t, w, b, &out, "balanceBlock")
				if rep == 0 {
					bl, nt := w.c05Labels(b, &out, f)
					labels = append(labels, bl...)
					idl := c05BlkidLabels(b)
					labels = append(labels, idl...)
					if b.Hash == c05EmptyHash && b.Size == 0 {
						// what happened to the empty block, for the evidence
						for _, l := range bl {
							if l == "trash-emitted" || l == "pull-emitted" || l == "lost" || l == "underreplicated-class" {
								labels = append(labels, "empty-block:"+l)
							}
						}
						if nt {
							labels = append(labels, "empty-block:nontrivial")
						}
						if len(out.Trashes) > 0 && stats.WantSample("empty-block-trash") {
							stats.Sample("empty-block-trash", map[string]interface{}{"layout": cs.Srvs, "block": b, "output": out})
						}
					}
					labels = append(labels, kl...)
					nontrivial = nontrivial || nt
					for _, l := range []string{"trash-emitted", "pull-emitted", "lost"} {
						for _, have := range bl {
							if have == l && stats.WantSample(l) {
								stats.Sample(l, map[string]interface{}{"layout": cs.Srvs, "block": b, "output": out})
							}
						}
					}
				}
			}
		}
		if cs.ViaCCS {
			outs, err := w.balanceViaCCS(cs.Blocks)
			if err != nil {
				t.Fatalf("VERIF-INFRA: %v", err)
			}
			for bi := range cs.Blocks {
				kl, _ := c05Judge(t, w, &cs.Blocks[bi], &outs[bi], "ComputeChangeSets")
				labels = append(labels, kl...)
			}
			labels = append(labels, "via-ComputeChangeSets")
		}
		stats.Case(stats.FP(cs.JSON()), nontrivial, c05Uniq(labels)...)
	})
}
