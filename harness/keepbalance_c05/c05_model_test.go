package main

// C05 – keep-balance never trashes a replica that is still needed or too new.
//
// This file holds the case description (plain data, JSON-able), the code that
// turns a case into a real Balancer (real cleanupMounts, setupLookupTables,
// BlockStateMap.AddReplicas / IncreaseDesired, balanceBlock, ComputeChangeSets)
// and the oracle: a physical-device replication model that shares no code with
// balance.go and is evaluated on the emitted ChangeSets only.

import (
	"bytes"
	"encoding/json"
	"fmt"
	"io/ioutil"
	"sort"
	"strconv"
	"strings"

	"git.arvados.org/arvados.git/sdk/go/arvados"
	"github.com/prometheus/client_golang/prometheus"
	"github.com/sirupsen/logrus"
)

const c05MinMtime int64 = 1600000000000000000

// ---------------------------------------------------------------- case description

type c05Mount struct {
	UUID    string   `json:"uuid"`
	RO      bool     `json:"ro,omitempty"`
	Repl    int      `json:"repl"`
	Dev     string   `json:"dev"`               // DeviceID as reported by keepstore; "" = blank
	Classes []string `json:"classes,omitempty"` // empty = no storage_classes reported (= "default")
}

type c05Srv struct {
	UUID   string     `json:"uuid"`
	Host   string     `json:"host"`
	Port   int        `json:"port"`
	SSL    bool       `json:"ssl,omitempty"`
	RO     bool       `json:"ro,omitempty"`
	Mounts []c05Mount `json:"mounts"`
}

// c05Want is one collection referencing the block (one IncreaseDesired call).
type c05Want struct {
	Classes []string `json:"classes,omitempty"` // empty = default
	N       int      `json:"n"`
}

type c05Block struct {
	Hash string `json:"hash"` // 32 hex
	Size int    `json:"size"`
	// Copies: physical device key -> mtime of the copy on that device. The
	// device key is the DeviceID, or "mnt:<mount uuid>" for a blank DeviceID.
	Copies map[string]int64 `json:"copies"`
	Wants  []c05Want        `json:"wants"`
	// Order in which the mounts' index responses arrive (global mount
	// indices); WantsFirst: the collections were processed before the indexes.
	Order      []int `json:"order,omitempty"`
	WantsFirst bool  `json:"wants_first,omitempty"`
}

type c05Case struct {
	Srvs     []c05Srv   `json:"srvs"`
	MinMtime int64      `json:"min_mtime"`
	Blocks   []c05Block `json:"blocks"`
	ViaCCS   bool       `json:"via_compute_change_sets,omitempty"`
}

func (cs *c05Case) JSON() string {
	buf, _ := json.Marshal(cs)
	return string(buf)
}

func c05DevKey(m *c05Mount) string {
	if m.Dev != "" {
		return m.Dev
	}
	return "mnt:" + m.UUID
}

func c05ClassList(cl []string) []string {
	if len(cl) == 0 {
		return []string{"default"}
	}
	return cl
}

// c05Desired: desired replication per class = max over the referencing
// collections that name the class.
func c05Desired(b *c05Block) map[string]int {
	d := map[string]int{}
	for _, w := range b.Wants {
		for _, c := range c05ClassList(w.Classes) {
			if cur, ok := d[c]; !ok || cur < w.N {
				d[c] = w.N
			}
		}
	}
	return d
}

// ---------------------------------------------------------------- world (real objects)

type c05MountInfo struct {
	srv     int
	m       *c05Mount
	dev     string
	ro      bool // mount read-only flag or service read-only flag
	classes map[string]bool
}

type c05World struct {
	cs        *c05Case
	bal       *Balancer
	srvs      []*KeepService
	mnts      []*KeepMount
	minfo     []c05MountInfo
	alive     []bool // survived the REAL cleanupMounts
	survivor  []bool // survives per the model (used by the classifier / labels only)
	byUUID    map[string]int
	srvByUUID map[string]int
	devMounts map[string][]int
	devKeys   []string // sorted
}

var c05Logger = func() *logrus.Logger {
	l := logrus.New()
	l.Out = ioutil.Discard
	l.Level = logrus.ErrorLevel
	return l
}()

func c05URL(s *c05Srv) string {
	scheme := "http"
	if s.SSL {
		scheme = "https"
	}
	return fmt.Sprintf("%s://%s:%d", scheme, s.Host, s.Port)
}

// c05Build constructs the real Balancer for the layout and runs the real
// cleanupMounts and setupLookupTables, as Balancer.Run does before
// GetCurrentState / ComputeChangeSets. It returns an error (harness problem)
// when the case description itself is malformed.
func c05Build(cs *c05Case) (*c05World, error) {
	w := &c05World{
		cs:        cs,
		byUUID:    map[string]int{},
		srvByUUID: map[string]int{},
		devMounts: map[string][]int{},
	}
	bal := &Balancer{
		Logger:       c05Logger,
		KeepServices: map[string]*KeepService{},
		MinMtime:     cs.MinMtime,
		lostBlocks:   ioutil.Discard,
	}
	idxOf := map[*KeepMount]int{}
	for si := range cs.Srvs {
		s := &cs.Srvs[si]
		if _, dup := w.srvByUUID[s.UUID]; dup {
			return nil, fmt.Errorf("duplicate service uuid %s", s.UUID)
		}
		w.srvByUUID[s.UUID] = si
		srv := &KeepService{
			KeepService: arvados.KeepService{
				UUID:           s.UUID,
				ServiceHost:    s.Host,
				ServicePort:    s.Port,
				ServiceSSLFlag: s.SSL,
				ServiceType:    "disk",
				ReadOnly:       s.RO,
			},
			ChangeSet: &ChangeSet{},
		}
		devHere := map[string]bool{}
		for mi := range s.Mounts {
			m := &s.Mounts[mi]
			if _, dup := w.byUUID[m.UUID]; dup {
				return nil, fmt.Errorf("duplicate mount uuid %s", m.UUID)
			}
			if m.Repl < 1 {
				return nil, fmt.Errorf("mount %s replication %d", m.UUID, m.Repl)
			}
			if m.Dev != "" && devHere[m.Dev] {
				return nil, fmt.Errorf("device %s mounted twice on one server (outside the quantified domain)", m.Dev)
			}
			devHere[m.Dev] = true
			var sc map[string]bool
			cl := map[string]bool{}
			if len(m.Classes) > 0 {
				sc = map[string]bool{}
				for _, c := range m.Classes {
					sc[c] = true
					cl[c] = true
				}
			} else {
				cl["default"] = true
			}
			km := &KeepMount{
				KeepMount: arvados.KeepMount{
					UUID:           m.UUID,
					DeviceID:       m.Dev,
					ReadOnly:       m.RO,
					Replication:    m.Repl,
					StorageClasses: sc,
				},
				KeepService: srv,
			}
			srv.mounts = append(srv.mounts, km)
			gi := len(w.mnts)
			idxOf[km] = gi
			w.byUUID[m.UUID] = gi
			w.mnts = append(w.mnts, km)
			dev := c05DevKey(m)
			w.minfo = append(w.minfo, c05MountInfo{srv: si, m: m, dev: dev, ro: m.RO || s.RO, classes: cl})
			w.devMounts[dev] = append(w.devMounts[dev], gi)
		}
		bal.KeepServices[s.UUID] = srv
		w.srvs = append(w.srvs, srv)
	}
	// all views of one device describe the same backend volume
	for dev, ms := range w.devMounts {
		w.devKeys = append(w.devKeys, dev)
		for _, gi := range ms[1:] {
			a, b := w.minfo[ms[0]], w.minfo[gi]
			if a.m.Repl != b.m.Repl || fmt.Sprint(c05SortedKeys(a.classes)) != fmt.Sprint(c05SortedKeys(b.classes)) {
				return nil, fmt.Errorf("device %s reported with different replication/classes by two mounts", dev)
			}
		}
	}
	sort.Strings(w.devKeys)

	// model of "read-only views of a device that is writable elsewhere disappear"
	rw := map[string]bool{}
	for _, mi := range w.minfo {
		if !mi.m.RO && mi.m.Dev != "" {
			rw[mi.m.Dev] = true
		}
	}
	w.survivor = make([]bool, len(w.mnts))
	for gi, mi := range w.minfo {
		w.survivor[gi] = !(mi.m.RO && mi.m.Dev != "" && rw[mi.m.Dev])
	}

	w.bal = bal
	bal.cleanupMounts()
	w.alive = make([]bool, len(w.mnts))
	for _, srv := range w.srvs {
		for _, km := range srv.mounts {
			gi, ok := idxOf[km]
			if !ok {
				return nil, fmt.Errorf("cleanupMounts produced a mount that was not in the layout")
			}
			w.alive[gi] = true
		}
	}
	bal.setupLookupTables()
	return w, nil
}

func c05SortedKeys(m map[string]bool) []string {
	var out []string
	for k := range m {
		out = append(out, k)
	}
	sort.Strings(out)
	return out
}

func c05Blkid(b *c05Block) arvados.SizedDigest {
	return arvados.SizedDigest(fmt.Sprintf("%s+%d", b.Hash, b.Size))
}

// addBlock feeds the block's state into the BlockStateMap the way
// GetCurrentState does: every mount (that survived cleanupMounts) of a device
// holding a copy reports the copy with the device's mtime.
func (w *c05World) addBlock(bsm *BlockStateMap, b *c05Block, blkid arvados.SizedDigest, pdh string) {
	wants := func() {
		for _, wt := range b.Wants {
			bsm.IncreaseDesired(pdh, wt.Classes, wt.N, []arvados.SizedDigest{blkid})
		}
	}
	if b.WantsFirst {
		wants()
	}
	add := func(gi int) {
		if gi < 0 || gi >= len(w.mnts) || !w.alive[gi] {
			return
		}
		if mt, ok := b.Copies[w.minfo[gi].dev]; ok {
			bsm.AddReplicas(w.mnts[gi], []arvados.KeepServiceIndexEntry{{SizedDigest: blkid, Mtime: mt}})
		}
	}
	if len(b.Order) == len(w.mnts) {
		for _, gi := range b.Order {
			add(gi)
		}
	} else {
		for gi := range w.mnts {
			add(gi)
		}
	}
	if !b.WantsFirst {
		wants()
	}
}

// ---------------------------------------------------------------- observed output

type c05Trash struct {
	ListSrv string `json:"list_of"` // service whose trash list contains the entry
	Mount   string `json:"mount"`   // Trash.From mount uuid
	Mtime   int64  `json:"mtime"`
	JSON    string `json:"json"`
}

type c05Pull struct {
	ListSrv string `json:"list_of"`
	To      string `json:"to"`
	From    string `json:"from"`
	JSON    string `json:"json"`
}

type c05Out struct {
	Absent  bool       `json:"absent,omitempty"` // block neither stored nor referenced: never balanced
	Trashes []c05Trash `json:"trashes"`
	Pulls   []c05Pull  `json:"pulls"`
	Lost    bool       `json:"lost"`
}

func (w *c05World) resetChangeSets() {
	for _, srv := range w.srvs {
		srv.ChangeSet.Pulls, srv.ChangeSet.Trashes = nil, nil
	}
}

func (w *c05World) collect(blkid arvados.SizedDigest, lost bool) (c05Out, error) {
	out := c05Out{Lost: lost}
	for si, srv := range w.srvs {
		for _, tr := range srv.ChangeSet.Trashes {
			if tr.SizedDigest != blkid {
				continue
			}
			if tr.From == nil {
				return out, fmt.Errorf("trash with nil From")
			}
			js, err := json.Marshal(tr)
			if err != nil {
				return out, err
			}
			out.Trashes = append(out.Trashes, c05Trash{ListSrv: w.cs.Srvs[si].UUID, Mount: tr.From.UUID, Mtime: tr.Mtime, JSON: string(js)})
		}
		for _, pl := range srv.ChangeSet.Pulls {
			if pl.SizedDigest != blkid {
				continue
			}
			if pl.To == nil || pl.From == nil {
				return out, fmt.Errorf("pull with nil To/From")
			}
			js, err := json.Marshal(pl)
			if err != nil {
				return out, err
			}
			out.Pulls = append(out.Pulls, c05Pull{ListSrv: w.cs.Srvs[si].UUID, To: pl.To.UUID, From: pl.From.UUID, JSON: string(js)})
		}
	}
	return out, nil
}

// balanceDirect: one block through the real balanceBlock.
func (w *c05World) balanceDirect(b *c05Block) (c05Out, error) {
	blkid := c05Blkid(b)
	bsm := NewBlockStateMap()
	w.addBlock(bsm, b, blkid, "")
	blk := bsm.entries[blkid]
	if blk == nil {
		return c05Out{Absent: true}, nil
	}
	w.resetChangeSets()
	w.bal.BlockStateMap = bsm
	res := w.bal.balanceBlock(blkid, blk)
	return w.collect(blkid, res.lost)
}

// balanceViaCCS: all blocks of the case through the real ComputeChangeSets;
// "lost" is read from the lost-blocks report.
func (w *c05World) balanceViaCCS(blocks []c05Block) ([]c05Out, error) {
	bsm := NewBlockStateMap()
	seen := map[string]bool{}
	for i := range blocks {
		if seen[blocks[i].Hash] {
			return nil, fmt.Errorf("duplicate block hash in case")
		}
		seen[blocks[i].Hash] = true
		w.addBlock(bsm, &blocks[i], c05Blkid(&blocks[i]), fmt.Sprintf("pdh%d+1", i))
	}
	w.resetChangeSets()
	var lostBuf bytes.Buffer
	w.bal.BlockStateMap = bsm
	w.bal.lostBlocks = &lostBuf
	w.bal.Metrics = newMetrics(prometheus.NewRegistry())
	w.bal.ComputeChangeSets()
	w.bal.lostBlocks = ioutil.Discard
	lost := map[string]bool{}
	for _, line := range strings.Split(lostBuf.String(), "\n") {
		if f := strings.Fields(line); len(f) > 0 {
			lost[f[0]] = true
		}
	}
	outs := make([]c05Out, len(blocks))
	for i := range blocks {
		blkid := c05Blkid(&blocks[i])
		if bsm.entries[blkid] == nil {
			outs[i] = c05Out{Absent: true}
			continue
		}
		o, err := w.collect(blkid, lost[blocks[i].Hash])
		if err != nil {
			return nil, err
		}
		outs[i] = o
	}
	return outs, nil
}

// ---------------------------------------------------------------- oracle

type c05Viol struct {
	Item string // "i" .. "vii"
	Msg  string
	Code string // machine-readable sub-case, where a classifier needs one
}

// repl counts the replication of class c in the physical model: Σ replication
// over DISTINCT devices that hold a copy, offer the class and are not trashed.
func (w *c05World) repl(b *c05Block, class string, trashed map[string]bool) int {
	n := 0
	for _, dev := range w.devKeys {
		if _, has := b.Copies[dev]; !has || trashed[dev] {
			continue
		}
		if gi := w.devMounts[dev][0]; w.minfo[gi].classes[class] {
			n += w.minfo[gi].m.Repl
		}
	}
	return n
}

type c05Facts struct {
	desired    map[string]int
	classes    []string // sorted classes with an entry in desired
	trashedDev map[string]bool
	before     map[string]int
	after      map[string]int
	under      []string // classes with desired>0 and physical replication < desired
	copies     int
}

func c05Min(a, b int) int {
	if a < b {
		return a
	}
	return b
}

func c05DecodeObj(js string) (map[string]interface{}, error) {
	dec := json.NewDecoder(strings.NewReader(js))
	dec.UseNumber()
	var m map[string]interface{}
	err := dec.Decode(&m)
	return m, err
}

// oracle applies items (i)–(vii) of the design to the output for one block.
func (w *c05World) oracle(b *c05Block, out *c05Out) ([]c05Viol, *c05Facts) {
	var v []c05Viol
	bad := func(item, f string, a ...interface{}) { v = append(v, c05Viol{Item: item, Msg: fmt.Sprintf(f, a...)}) }
	f := &c05Facts{desired: c05Desired(b), trashedDev: map[string]bool{}, before: map[string]int{}, after: map[string]int{}, copies: len(b.Copies)}
	for c := range f.desired {
		f.classes = append(f.classes, c)
	}
	sort.Strings(f.classes)

	if out.Absent {
		if len(b.Copies) > 0 || len(b.Wants) > 0 {
			bad("vi", "block with copies/references was not balanced at all")
		}
		return v, f
	}

	for _, tr := range out.Trashes {
		gi, ok := w.byUUID[tr.Mount]
		if !ok {
			bad("vii", "trash names unknown mount %s", tr.Mount)
			continue
		}
		mi := w.minfo[gi]
		if w.cs.Srvs[mi.srv].UUID != tr.ListSrv {
			bad("vii", "trash for mount %s is in the list of service %s, which does not own the mount", tr.Mount, tr.ListSrv)
		}
		mt, has := b.Copies[mi.dev]
		if !has {
			bad("vii", "trash on mount %s whose device %s holds no replica", tr.Mount, mi.dev)
			continue
		}
		// fast path: the canonical rendering; otherwise compare field by field
		if tr.JSON != `{"locator":"`+b.Hash+`","block_mtime":`+strconv.FormatInt(mt, 10)+`,"mount_uuid":"`+tr.Mount+`"}` {
			obj, err := c05DecodeObj(tr.JSON)
			if err != nil || len(obj) != 3 || obj["locator"] != interface{}(b.Hash) ||
				fmt.Sprint(obj["block_mtime"]) != fmt.Sprint(mt) || obj["mount_uuid"] != interface{}(tr.Mount) {
				bad("vii", "trash JSON %s, want locator %s block_mtime %d mount_uuid %s", tr.JSON, b.Hash, mt, tr.Mount)
			}
		}
		if tr.Mtime != mt {
			bad("vii", "trash mtime %d differs from the replica's mtime %d", tr.Mtime, mt)
		}
		if mt >= w.cs.MinMtime {
			bad("i", "trash of a replica on %s with mtime %d >= MinMtime %d", tr.Mount, mt, w.cs.MinMtime)
		}
		if mi.ro {
			bad("ii", "trash on read-only mount %s (mount ro=%v, service ro=%v)", tr.Mount, mi.m.RO, w.cs.Srvs[mi.srv].RO)
		}
		f.trashedDev[mi.dev] = true
	}

	for _, c := range f.classes {
		f.before[c] = w.repl(b, c, nil)
		f.after[c] = w.repl(b, c, f.trashedDev)
		if f.desired[c] > 0 && f.before[c] < f.desired[c] {
			f.under = append(f.under, c)
		}
	}
	if len(f.under) > 0 && len(out.Trashes) > 0 {
		bad("iii", "%d trash request(s) although class(es) %v are under-replicated (physical replication %v, desired %v)", len(out.Trashes), f.under, f.before, f.desired)
	}
	for _, c := range f.classes {
		if need := c05Min(f.desired[c], f.before[c]); f.after[c] < need {
			bad("iv", "class %s: carrying out all trashes leaves physical replication %d < min(desired %d, before %d)", c, f.after[c], f.desired[c], f.before[c])
		}
	}

	for _, pl := range out.Pulls {
		gi, ok := w.byUUID[pl.To]
		if !ok {
			bad("vii", "pull names unknown mount %s", pl.To)
			continue
		}
		mi := w.minfo[gi]
		if w.cs.Srvs[mi.srv].UUID != pl.ListSrv {
			bad("vii", "pull to mount %s is in the list of service %s, which does not own the mount", pl.To, pl.ListSrv)
		}
		if mi.ro {
			bad("v", "pull targets read-only mount %s", pl.To)
		}
		if _, has := b.Copies[mi.dev]; has {
			bad("v", "pull targets mount %s whose device %s already holds the block", pl.To, mi.dev)
		}
		si, ok := w.srvByUUID[pl.From]
		if !ok {
			bad("v", "pull names unknown source service %s", pl.From)
			continue
		}
		srcHas := false
		for mj := range w.cs.Srvs[si].Mounts {
			if _, has := b.Copies[c05DevKey(&w.cs.Srvs[si].Mounts[mj])]; has {
				srcHas = true
			}
		}
		if !srcHas {
			bad("v", "pull source %s has no mount holding the block", pl.From)
		}
		if url := c05URL(&w.cs.Srvs[si]); pl.JSON != `{"locator":"`+b.Hash+`","servers":["`+url+`"],"mount_uuid":"`+pl.To+`"}` {
			obj, err := c05DecodeObj(pl.JSON)
			okJSON := err == nil && len(obj) == 3 && obj["locator"] == interface{}(b.Hash) && obj["mount_uuid"] == interface{}(pl.To)
			if okJSON {
				sv, _ := obj["servers"].([]interface{})
				okJSON = len(sv) == 1 && sv[0] == interface{}(url)
			}
			if !okJSON {
				bad("vii", "pull JSON %s, want locator %s servers [%s] mount_uuid %s", pl.JSON, b.Hash, url, pl.To)
			}
		}
	}

	wanted := false
	for _, c := range f.classes {
		if f.desired[c] > 0 {
			wanted = true
		}
	}
	if wanted && len(b.Copies) == 0 && !out.Lost {
		v = append(v, c05Viol{Item: "vi", Code: "not-lost", Msg: fmt.Sprintf("block is referenced (desired %v) and has no replica anywhere, but is not reported lost", f.desired)})
	}
	if len(b.Copies) > 0 && out.Lost {
		bad("vi", "block reported lost although %d device(s) hold a replica", len(b.Copies))
	}
	return v, f
}

// ---------------------------------------------------------------- classifier for the one known finding

const c05KnownStandIn = "c05-other-server-copy-stands-in-for-class"

// c05SharedCounted reports the devices that hold a copy of the block and are
// seen through two or more surviving mount views (label only).
func (w *c05World) c05SharedCounted(b *c05Block) []string {
	var out []string
	for _, dev := range w.devKeys {
		if _, has := b.Copies[dev]; !has {
			continue
		}
		n := 0
		for _, gi := range w.devMounts[dev] {
			if w.survivor[gi] {
				n++
			}
		}
		if n >= 2 {
			out = append(out, dev)
		}
	}
	return out
}

// Known finding c05-other-server-copy-stands-in-for-class (not repaired in
// /repo): balanceBlock's "distinct servers first" pass skips a class-c copy on
// a server where another class-c mount is already in use and gives the
// protection to a copy OUTSIDE class c on another server; the class-c copy is
// trashed and class c drops below min(desired, existing).
//
// The classifier is a counterfactual re-evaluation of item (iv) only. It
// matches iff
//   - the only failed oracle item is (iv), and for every class c that fails it
//   - (a) every trashed class-c copy sits on a server where another class-c
//     mount is in use after the changes (a kept class-c copy or a class-c
//     pull target) – the "same server twice" situation, and
//   - (b) the kept class-c replication plus the replication of the kept copies
//     outside c (the stand-ins the distinct-server pass can have protected
//     instead) reaches min(desired_c, before_c).
// Everything else – any (i),(ii),(iii),(v),(vi),(vii) failure, a trashed
// class copy on a server with no other class mount in use, a total that is
// short even with the stand-ins – is reported as a violation. The finding
// needs a mount outside class c, so it cannot occur (and nothing is excused)
// in layouts where every mount offers every desired class, e.g. all
// default-class layouts.

// classSrvInUse: servers on which the balancer uses a class-c mount after its
// changes: a kept class-c copy (through any surviving view of its device) or
// a class-c pull target.
func (w *c05World) classSrvInUse(b *c05Block, out *c05Out, class string, trashed map[string]bool) map[int]bool {
	use := map[int]bool{}
	for _, dev := range w.devKeys {
		if _, has := b.Copies[dev]; !has || trashed[dev] || !w.minfo[w.devMounts[dev][0]].classes[class] {
			continue
		}
		for _, gi := range w.devMounts[dev] {
			if w.survivor[gi] {
				use[w.minfo[gi].srv] = true
			}
		}
	}
	for _, pl := range out.Pulls {
		if gi, ok := w.byUUID[pl.To]; ok && w.minfo[gi].classes[class] {
			use[w.minfo[gi].srv] = true
		}
	}
	return use
}

// keptOutsideClass: replication of kept copies on devices that do not offer
// class c (each device once).
func (w *c05World) keptOutsideClass(b *c05Block, class string, trashed map[string]bool) int {
	n := 0
	for _, dev := range w.devKeys {
		if _, has := b.Copies[dev]; !has || trashed[dev] {
			continue
		}
		if gi := w.devMounts[dev][0]; !w.minfo[gi].classes[class] {
			n += w.minfo[gi].m.Repl
		}
	}
	return n
}

// sameServerClassMountInUse: condition (a).
func (w *c05World) sameServerClassMountInUse(b *c05Block, out *c05Out, class string, trashed map[string]bool) bool {
	use := w.classSrvInUse(b, out, class, trashed)
	any := false
	for dev := range trashed {
		ms := w.devMounts[dev]
		if !w.minfo[ms[0]].classes[class] {
			continue
		}
		any = true
		ok := false
		for _, gi := range ms {
			if use[w.minfo[gi].srv] {
				ok = true
			}
		}
		if !ok {
			return false
		}
	}
	return any
}

// explainedByStandIn: see the comment block above.
func (w *c05World) explainedByStandIn(b *c05Block, out *c05Out, viols []c05Viol, f *c05Facts) (bool, string) {
	for _, x := range viols {
		if x.Item != "iv" {
			return false, ""
		}
	}
	var failing []string
	for _, c := range f.classes {
		need := c05Min(f.desired[c], f.before[c])
		if f.after[c] >= need {
			continue
		}
		failing = append(failing, c)
		if !w.sameServerClassMountInUse(b, out, c, f.trashedDev) {
			return false, ""
		}
		if f.after[c]+w.keptOutsideClass(b, c, f.trashedDev) < need {
			return false, ""
		}
	}
	if len(failing) == 0 {
		return false, ""
	}
	return true, fmt.Sprintf("class(es) %v: class copy trashed on a server where another mount of the class is in use; copies outside the class on other servers counted instead", failing)
}
