package main

// Bounded-exhaustive part of C05 and replay of a single scenario (JSON).

import (
	"encoding/json"
	"flag"
	"fmt"
	"io/ioutil"
	"os"
	"path/filepath"
	"strconv"
	"strings"
	"testing"

	"github.com/sirupsen/logrus"
	"verif.local/vcommon/ref"
	"verif.local/vcommon/stats"
)

var c05Shard = flag.Int("verif.shard", 0, "shard index for the C05 enumeration")

type c05T struct {
	t      *testing.T
	failed bool
	msg    string
}

func (x *c05T) Fatalf(f string, a ...interface{}) {
	x.failed = true
	x.msg = fmt.Sprintf(f, a...)
	panic(x)
}

// c05RunScenario judges every block of one scenario; returns "" or the
// failure text.
func c05RunScenario(w *c05World, b *c05Block) (msg string, labels []string, out c05Out, f *c05Facts) {
	x := &c05T{}
	defer func() {
		if r := recover(); r != nil {
			if r == interface{}(x) {
				msg = x.msg
				return
			}
			panic(r)
		}
	}()
	out, err := w.balanceDirect(b)
	if err != nil {
		return "VERIF-INFRA: " + err.Error(), nil, out, nil
	}
	labels, f = c05Judge(x, w, b, &out, "balanceBlock")
	return "", labels, out, f
}

// c05ReplayJSON runs one saved scenario verbosely.
func c05ReplayJSON(t *testing.T, path string) {
	buf, err := ioutil.ReadFile(path)
	if err != nil {
		t.Fatalf("VERIF-INFRA: %v", err)
	}
	var cs c05Case
	if err := json.Unmarshal(buf, &cs); err != nil {
		t.Fatalf("VERIF-INFRA: %v", err)
	}
	w, err := c05Build(&cs)
	if err != nil {
		t.Fatalf("VERIF-INFRA: %v", err)
	}
	dump := logrus.New()
	dump.Out = os.Stdout
	w.bal.Dumper = dump
	for bi := range cs.Blocks {
		b := &cs.Blocks[bi]
		uuids := make([]string, len(cs.Srvs))
		for i := range cs.Srvs {
			uuids[i] = cs.Srvs[i].UUID
		}
		t.Logf("block %s rendezvous order: %v", b.Hash, ref.RendezvousOrder(b.Hash, uuids))
		for rep := 0; rep < 3; rep++ {
			msg, labels, out, _ := c05RunScenario(w, b)
			t.Logf("output: %s labels %v", c05JSON(out), labels)
			if msg != "" {
				t.Errorf("%s", msg)
			}
		}
	}
	if cs.ViaCCS {
		outs, err := w.balanceViaCCS(cs.Blocks)
		if err != nil {
			t.Fatalf("VERIF-INFRA: %v", err)
		}
		for bi := range cs.Blocks {
			c05Judge(t, w, &cs.Blocks[bi], &outs[bi], "ComputeChangeSets")
		}
	}
}

func c05SaveScenario(t *testing.T, cs *c05Case) {
	dir := os.Getenv("VERIF_WORK")
	if dir == "" {
		dir = "."
	}
	path := filepath.Join(dir, "c05-scenario.json")
	if err := ioutil.WriteFile(path, []byte(cs.JSON()), 0644); err == nil {
		fmt.Printf("VERIF-REPLAY: %s\n", path)
	}
}

func c05EnvInt(name string, def int) int {
	if v, err := strconv.Atoi(os.Getenv(name)); err == nil {
		return v
	}
	return def
}

// ---------------------------------------------------------------- pinned scenarios

// c05PinnedF1 is the minimal layout for finding F1 (shared device counted
// twice): X is an empty writable mount with replication 2 on the best-ranked
// server, device D is mounted on A and B, E is the only other copy; desired 2.
func c05PinnedF1() *c05Case {
	cs := &c05Case{MinMtime: c05MinMtime}
	for i := 0; i < 4; i++ {
		cs.Srvs = append(cs.Srvs, c05Srv{UUID: c05EnumUUIDs[i], Host: fmt.Sprintf("keep%d.zzzzz.example", i), Port: 25107 + i})
	}
	cs.Srvs[0].Mounts = []c05Mount{{UUID: "zzzzz-nyw5e-00000000000000x", Repl: 2, Dev: "X"}}
	cs.Srvs[1].Mounts = []c05Mount{{UUID: "zzzzz-nyw5e-00000000000000a", Repl: 1, Dev: "D"}}
	cs.Srvs[2].Mounts = []c05Mount{{UUID: "zzzzz-nyw5e-00000000000000b", Repl: 1, Dev: "D"}}
	cs.Srvs[3].Mounts = []c05Mount{{UUID: "zzzzz-nyw5e-00000000000000e", Repl: 1, Dev: "E"}}
	cs.Blocks = []c05Block{{
		Hash:   c05EnumHash,
		Size:   1,
		Copies: map[string]int64{"D": c05MinMtime - 86400e9, "E": c05MinMtime - 86401e9},
		Wants:  []c05Want{{N: 2}},
	}}
	return cs
}

func TestVerifC05Pinned(t *testing.T) {
	defer stats.Flush()
	if err := c05CheckEnumRanks(); err != nil {
		t.Fatalf("VERIF-INFRA: %v", err)
	}
	cs := c05PinnedF1()
	w, err := c05Build(cs)
	if err != nil {
		t.Fatalf("VERIF-INFRA: %v", err)
	}
	b := &cs.Blocks[0]
	msg, labels, out, f := c05RunScenario(w, b)
	if msg != "" {
		c05SaveScenario(t, cs)
		t.Fatalf("%s", msg)
	}
	bl, nt := w.c05Labels(b, &out, f)
	stats.Case(stats.FP("pinned-F1"), nt, append(append(bl, labels...), "pinned:F1-minimal-layout")...)
}

// ---------------------------------------------------------------- enumeration

// Fixed block and service UUIDs, listed in the rendezvous order of the block
// (computed with the independent reference sort), so that service index =
// rendezvous rank.
const c05EnumHash = "37b51d194a7513e45b56f6524f2d51f2"

var c05EnumUUIDs = ref.RendezvousOrder(c05EnumHash, []string{
	"zzzzz-bi6l4-000000000000000",
	"zzzzz-bi6l4-000000000000001",
	"zzzzz-bi6l4-000000000000002",
	"zzzzz-bi6l4-000000000000003",
})

func c05CheckEnumRanks() error {
	got := ref.RendezvousOrder(c05EnumHash, c05EnumUUIDs)
	if fmt.Sprint(got) != fmt.Sprint(c05EnumUUIDs) {
		return fmt.Errorf("enumeration UUIDs are not in rendezvous order for %s: %v", c05EnumHash, got)
	}
	return nil
}

func TestVerifC05Enum(t *testing.T) {
	defer stats.Flush()
	if rp := os.Getenv("VERIF_REPLAY"); strings.HasSuffix(rp, ".json") {
		c05ReplayJSON(t, rp)
		return
	}
	t.Skip("enumeration not built yet")
}
