package main

// Bounded-exhaustive part of C05 and replay of a single scenario (JSON).

import (
	"encoding/json"
	"flag"
	"fmt"
	"io/ioutil"
	"os"
	"path/filepath"
	"strconv"
	"strings"
	"testing"

	"github.com/sirupsen/logrus"
	"verif.local/vcommon/ref"
	"verif.local/vcommon/stats"
)

var c05Shard = flag.Int("verif.shard", 0, "shard index for the C05 enumeration")

type c05T struct {
	t      *testing.T
	failed bool
	msg    string
}

func (x *c05T) Fatalf(f string, a ...interface{}) {
	x.failed = true
	x.msg = fmt.Sprintf(f, a...)
	panic(x)
}

// c05RunScenario judges every block of one scenario; returns "" or the
// failure text.
func c05RunScenario(w *c05World, b *c05Block) (msg string, labels []string, out c05Out, f *c05Facts) {
	x := &c05T{}
	defer func() {
		if r := recover(); r != nil {
			if r == interface{}(x) {
				msg = x.msg
				return
			}
			panic(r)
		}
	}()
	out, err := w.balanceDirect(b)
	if err != nil {
		return "VERIF-INFRA: " + err.Error(), nil, out, nil
	}
	labels, f = c05Judge(x, w, b, &out, "balanceBlock")
	return "", labels, out, f
}

// c05ReplayJSON runs one saved scenario verbosely.
func c05ReplayJSON(t *testing.T, path string) {
	buf, err := ioutil.ReadFile(path)
	if err != nil {
		t.Fatalf("VERIF-INFRA: %v", err)
	}
	var cs c05Case
	if err := json.Unmarshal(buf, &cs); err != nil {
		t.Fatalf("VERIF-INFRA: %v", err)
	}
	w, err := c05Build(&cs)
	if err != nil {
		t.Fatalf("VERIF-INFRA: %v", err)
	}
	dump := logrus.New()
	dump.Out = os.Stdout
	w.bal.Dumper = dump
	for bi := range cs.Blocks {
		b := &cs.Blocks[bi]
		uuids := make([]string, len(cs.Srvs))
		for i := range cs.Srvs {
			uuids[i] = cs.Srvs[i].UUID
		}
		t.Logf("block %s rendezvous order: %v", b.Hash, ref.RendezvousOrder(b.Hash, uuids))
		for rep := 0; rep < 3; rep++ {
			msg, labels, out, _ := c05RunScenario(w, b)
			t.Logf("output: %s labels %v", c05JSON(out), labels)
			if msg != "" {
				t.Errorf("%s", msg)
			}
		}
	}
	if cs.ViaCCS {
		outs, err := w.balanceViaCCS(cs.Blocks)
		if err != nil {
			t.Fatalf("VERIF-INFRA: %v", err)
		}
		for bi := range cs.Blocks {
			c05Judge(t, w, &cs.Blocks[bi], &outs[bi], "ComputeChangeSets")
		}
	}
}

// c05SaveScenario writes the failing scenario as the replay artifact. It also
// prints a marker line: the driver's failure summary starts at the first
// "[rapid] " or "--- FAIL" in the output, and for these plain (non-rapid)
// tests the message would otherwise be cut off.
func c05SaveScenario(t *testing.T, cs *c05Case) {
	fmt.Printf("[rapid] (plain go test, not a rapid property) C05 scenario failed; message follows\n")
	dir := os.Getenv("VERIF_WORK")
	if dir == "" {
		dir = "."
	}
	path := filepath.Join(dir, "c05-scenario.json")
	if err := ioutil.WriteFile(path, []byte(cs.JSON()), 0644); err == nil {
		fmt.Printf("VERIF-REPLAY: %s\n", path)
	}
}

func c05EnvInt(name string, def int) int {
	if v, err := strconv.Atoi(os.Getenv(name)); err == nil {
		return v
	}
	return def
}

// ---------------------------------------------------------------- pinned scenarios

func c05PinnedSrvs(n int) []c05Srv {
	var out []c05Srv
	for i := 0; i < n; i++ {
		out = append(out, c05Srv{UUID: c05EnumUUIDs[i], Host: fmt.Sprintf("keep%d.zzzzz.example", i), Port: 25107 + i})
	}
	return out
}

const (
	c05Old1 = c05MinMtime - 86400e9
	c05Old2 = c05MinMtime - 86401e9
	c05Old3 = c05MinMtime - 86402e9
	c05Old4 = c05MinMtime - 86403e9
)

// c05Pinned returns the minimal layouts of the four defects this check found
// on the tree it was developed against (service index = rendezvous rank).
// A, B and C were repaired in /repo and must now satisfy the oracle; D is the
// listed known finding and must be matched by its classifier (or satisfy the
// oracle, should it get repaired).
func c05Pinned() map[string]*c05Case {
	out := map[string]*c05Case{}

	// A: shared device counted once per mount. X is an empty writable mount
	// with replication 2 on the best-ranked server, device D is mounted on
	// srv1 and srv2, E is the only other copy; desired 2. Defect: E trashed.
	a := &c05Case{MinMtime: c05MinMtime, Srvs: c05PinnedSrvs(4)}
	a.Srvs[0].Mounts = []c05Mount{{UUID: "zzzzz-nyw5e-00000000000000x", Repl: 2, Dev: "X"}}
	a.Srvs[1].Mounts = []c05Mount{{UUID: "zzzzz-nyw5e-00000000000000a", Repl: 1, Dev: "D"}}
	a.Srvs[2].Mounts = []c05Mount{{UUID: "zzzzz-nyw5e-00000000000000b", Repl: 1, Dev: "D"}}
	a.Srvs[3].Mounts = []c05Mount{{UUID: "zzzzz-nyw5e-00000000000000e", Repl: 1, Dev: "E"}}
	a.Blocks = []c05Block{{Hash: c05EnumHash, Size: 1, Copies: map[string]int64{"D": c05Old1, "E": c05Old2}, Wants: []c05Want{{N: 2}}}}
	out["A-shared-device-double-count"] = a

	// B: referenced, no replica, no writable mount. Defect: not reported lost.
	b := &c05Case{MinMtime: c05MinMtime, Srvs: c05PinnedSrvs(1)}
	b.Srvs[0].Mounts = []c05Mount{{UUID: "zzzzz-nyw5e-000000000000000", Repl: 1, Dev: "d0", RO: true}}
	b.Blocks = []c05Block{{Hash: c05EnumHash, Size: 1, Copies: map[string]int64{}, Wants: []c05Want{{N: 2}}}}
	out["B-lost-without-writable-mount"] = b

	// C: desired class "a" offered by no mount. Defect: only copy trashed.
	c := &c05Case{MinMtime: c05MinMtime, Srvs: c05PinnedSrvs(1)}
	c.Srvs[0].Mounts = []c05Mount{{UUID: "zzzzz-nyw5e-000000000000000", Repl: 1, Dev: "d0"}}
	c.Blocks = []c05Block{{Hash: c05EnumHash, Size: 1, Copies: map[string]int64{"d0": c05Old1}, Wants: []c05Want{{Classes: []string{"a"}, N: 2}}}}
	out["C-desired-class-without-mounts"] = c

	// D: srv0 has two class-b mounts and a default mount, all with copies;
	// srv1 has a default copy; desired b=2. Defect: one class-b copy trashed,
	// class b left with 1 (the default copy on srv1 "stands in").
	d := &c05Case{MinMtime: c05MinMtime, Srvs: c05PinnedSrvs(2)}
	d.Srvs[0].Mounts = []c05Mount{
		{UUID: "zzzzz-nyw5e-000000000000000", Repl: 1, Dev: "b0", Classes: []string{"b"}},
		{UUID: "zzzzz-nyw5e-000000000000001", Repl: 1, Dev: "d1"},
		{UUID: "zzzzz-nyw5e-000000000000002", Repl: 1, Dev: "b2", Classes: []string{"b"}},
	}
	d.Srvs[1].Mounts = []c05Mount{{UUID: "zzzzz-nyw5e-000000000000003", Repl: 1, Dev: "d3"}}
	d.Blocks = []c05Block{{Hash: c05EnumHash, Size: 1, Copies: map[string]int64{"b0": c05Old1, "d1": c05Old2, "b2": c05Old3, "d3": c05Old4}, Wants: []c05Want{{Classes: []string{"b"}, N: 2}}}}
	out["D-other-server-copy-stands-in-for-class"] = d
	return out
}

func TestVerifC05Pinned(t *testing.T) {
	defer stats.Flush()
	if err := c05CheckEnumRanks(); err != nil {
		t.Fatalf("VERIF-INFRA: %v", err)
	}
	pinned := c05Pinned()
	for _, name := range []string{"A-shared-device-double-count", "B-lost-without-writable-mount", "C-desired-class-without-mounts", "D-other-server-copy-stands-in-for-class"} {
		cs := pinned[name]
		w, err := c05Build(cs)
		if err != nil {
			t.Fatalf("VERIF-INFRA: %s: %v", name, err)
		}
		b := &cs.Blocks[0]
		for rep := 0; rep < 4; rep++ {
			msg, labels, out, f := c05RunScenario(w, b)
			if msg != "" {
				c05SaveScenario(t, cs)
				t.Errorf("pinned scenario %s: %s", name, msg)
				break
			}
			if rep == 0 {
				bl, nt := w.c05Labels(b, &out, f)
				stats.Case(stats.FP("pinned", name), nt, append(append(bl, labels...), "pinned:"+name)...)
				t.Logf("%s: output %s labels %v", name, c05JSON(out), labels)
			}
		}
	}
}

// ---------------------------------------------------------------- enumeration

// Fixed block and service UUIDs, listed in the rendezvous order of the block
// (computed with the independent reference sort), so that service index =
// rendezvous rank.
const c05EnumHash = "37b51d194a7513e45b56f6524f2d51f2"

var c05EnumUUIDs = ref.RendezvousOrder(c05EnumHash, []string{
	"zzzzz-bi6l4-000000000000000",
	"zzzzz-bi6l4-000000000000001",
	"zzzzz-bi6l4-000000000000002",
	"zzzzz-bi6l4-000000000000003",
})

func c05CheckEnumRanks() error {
	got := ref.RendezvousOrder(c05EnumHash, c05EnumUUIDs)
	if fmt.Sprint(got) != fmt.Sprint(c05EnumUUIDs) {
		return fmt.Errorf("enumeration UUIDs are not in rendezvous order for %s: %v", c05EnumHash, got)
	}
	return nil
}

// c05Shapes: mounts per service, 1..maxSrv services with 1..2 mounts each and
// at most maxMounts mounts in total.
func c05Shapes(maxSrv, maxMounts int) [][]int {
	var out [][]int
	var rec func(cur []int, sum int)
	rec = func(cur []int, sum int) {
		if len(cur) > 0 {
			out = append(out, append([]int(nil), cur...))
		}
		if len(cur) == maxSrv {
			return
		}
		for k := 1; k <= 2; k++ {
			if sum+k <= maxMounts {
				rec(append(cur, k), sum+k)
			}
		}
	}
	rec(nil, 0)
	return out
}

// c05DevStructs: every assignment of a device kind to the mounts:
// 0 = blank DeviceID, 1 = own DeviceID, 2 = shared device S, 3 = shared device T.
// A shared device has >= 2 member mounts, at most one per server; T is used
// only together with S and after it (symmetry).
func c05DevStructs(srvOf []int) [][]int {
	var out [][]int
	m := len(srvOf)
	cur := make([]int, m)
	var rec func(i int)
	rec = func(i int) {
		if i == m {
			cnt := map[int]int{}
			first := map[int]int{}
			srvSeen := map[[2]int]bool{}
			for j, k := range cur {
				if k >= 2 {
					if cnt[k] == 0 {
						first[k] = j
					}
					cnt[k]++
					if srvSeen[[2]int{k, srvOf[j]}] {
						return
					}
					srvSeen[[2]int{k, srvOf[j]}] = true
				}
			}
			if cnt[2] == 1 || cnt[3] == 1 || (cnt[3] > 0 && (cnt[2] == 0 || first[3] < first[2])) {
				return
			}
			out = append(out, append([]int(nil), cur...))
			return
		}
		for k := 0; k <= 3; k++ {
			cur[i] = k
			rec(i + 1)
		}
	}
	rec(0)
	return out
}

// TestVerifC05Enum enumerates the small scope completely:
//   layouts: 1..4 services (index = rendezvous rank), 1..2 mounts each, at
//   most C05_ENUM_MAXMOUNTS mounts; every service read-only flag; every mount
//   read-only flag; every device structure (blank / own / shared S / shared T);
//   every per-device replication in {1,2};
//   blocks: per device no copy / old / old with the colliding mtime / new
//   (assignments with exactly one colliding copy are skipped: same as old),
//   desired replication 0..4 in the default class (mounts report no classes).
// Layouts are dealt round-robin to C05_ENUM_SHARDS processes.
func TestVerifC05Enum(t *testing.T) {
	defer stats.Flush()
	if rp := os.Getenv("VERIF_REPLAY"); strings.HasSuffix(rp, ".json") {
		c05ReplayJSON(t, rp)
		return
	}
	if err := c05CheckEnumRanks(); err != nil {
		t.Fatalf("VERIF-INFRA: %v", err)
	}
	// Round 2: C05_ENUM_BLKID=empty repeats the enumeration with the well-known
	// empty block d41d8cd98f00b204e9800998ecf8427e+0 as the block id. The set of
	// layouts is closed under permuting the services, so it stays complete
	// whatever the rendezvous order of the four UUIDs for that hash is; the
	// UUIDs are re-sorted anyway so that "service index = rank" keeps holding.
	hash, size, uuids, fpTag, pfx := c05EnumHash, 1, c05EnumUUIDs, uint64(0), "enum"
	if os.Getenv("C05_ENUM_BLKID") == "empty" {
		hash, size, fpTag, pfx = c05EmptyHash, 0, 1<<63, "enum-empty-block"
		uuids = ref.RendezvousOrder(hash, append([]string(nil), c05EnumUUIDs...))
	}
	maxMounts := c05EnvInt("C05_ENUM_MAXMOUNTS", 3)
	nsh := c05EnvInt("C05_ENUM_SHARDS", 1)
	shard := *c05Shard
	if shard < 0 || shard >= nsh {
		t.Fatalf("VERIF-INFRA: shard %d of %d", shard, nsh)
	}
	var layouts, cases, knownHits int64
	layoutIdx := 0
	for _, shape := range c05Shapes(4, maxMounts) {
		var srvOf []int
		for si, k := range shape {
			for j := 0; j < k; j++ {
				srvOf = append(srvOf, si)
			}
		}
		m := len(srvOf)
		for _, ds := range c05DevStructs(srvOf) {
			for roBits := 0; roBits < 1<<uint(len(shape)+m); roBits++ {
				layoutIdx++
				if layoutIdx%nsh != shard {
					continue
				}
				layouts++
				cs := &c05Case{MinMtime: c05MinMtime}
				gi := 0
				for si, k := range shape {
					srv := c05Srv{UUID: uuids[si], Host: fmt.Sprintf("keep%d.zzzzz.example", si), Port: 25107 + si, RO: roBits>>uint(si)&1 == 1}
					for j := 0; j < k; j++ {
						mt := c05Mount{UUID: fmt.Sprintf("zzzzz-nyw5e-%015x", gi), Repl: 1, RO: roBits>>uint(len(shape)+gi)&1 == 1}
						switch ds[gi] {
						case 1:
							mt.Dev = fmt.Sprintf("own-%d", gi)
						case 2:
							mt.Dev = "S"
						case 3:
							mt.Dev = "T"
						}
						srv.Mounts = append(srv.Mounts, mt)
						gi++
					}
					cs.Srvs = append(cs.Srvs, srv)
				}
				w, err := c05Build(cs)
				if err != nil {
					t.Fatalf("VERIF-INFRA: %v\n%s", err, cs.JSON())
				}
				c, k, fail := c05EnumBlocks(w, layoutIdx, hash, size, fpTag, pfx)
				cases += c
				knownHits += k
				if fail != "" {
					c05SaveScenario(t, w.cs)
					t.Fatalf("%s", fail)
				}
			}
		}
	}
	stats.InfoAdd(pfx+"_layouts", layouts)
	stats.InfoAdd(pfx+"_cases", cases)
	stats.Info(pfx+"_blkid", fmt.Sprintf("%s+%d", hash, size))
	stats.Info("enum_scope", fmt.Sprintf("<=4 services x <=2 mounts, <=%d mounts in total", maxMounts))
	t.Logf("enumerated %d layouts, %d (layout, block) cases, %d known-finding hits (shard %d/%d, <=%d mounts)", layouts, cases, knownHits, shard, nsh, maxMounts)
}

var c05EnumMtimes = [4]int64{0, c05MinMtime - 86400e9, c05MinMtime - 7200e9, c05MinMtime + 1e9}

// c05EnumBlocks runs every (replication, copy state, desired) combination on
// one built layout.
func c05EnumBlocks(w *c05World, layoutIdx int, hash string, size int, fpTag uint64, pfx string) (cases, known int64, fail string) {
	nd := len(w.devKeys)
	layoutLabels := []string{pfx}
	for _, dev := range w.devKeys {
		if len(w.devMounts[dev]) > 1 {
			layoutLabels = append(layoutLabels, pfx+":shared-device-in-layout")
			break
		}
	}
	if len(layoutLabels) == 1 {
		layoutLabels = append(layoutLabels, pfx+":no-shared-device-in-layout")
	}
	for replBits := 0; replBits < 1<<uint(nd); replBits++ {
		for di, dev := range w.devKeys {
			r := 1 + replBits>>uint(di)&1
			for _, gi := range w.devMounts[dev] {
				w.minfo[gi].m.Repl = r
				w.mnts[gi].Replication = r
			}
		}
		total := 1
		for i := 0; i < nd; i++ {
			total *= 4
		}
		for st := 0; st < total; st++ {
			copies := map[string]int64{}
			nColl := 0
			x := st
			for _, dev := range w.devKeys {
				k := x % 4
				x /= 4
				if k == 2 {
					nColl++
				}
				if k != 0 {
					copies[dev] = c05EnumMtimes[k] - int64(len(copies))*1000*int64(k&1) // old copies get distinct mtimes; colliding/new as is
				}
			}
			if nColl == 1 {
				continue
			}
			for desired := 0; desired <= 4; desired++ {
				b := &c05Block{Hash: hash, Size: size, Copies: copies, Wants: []c05Want{{N: desired}}}
				msg, kl, out, f := c05RunScenario(w, b)
				if msg != "" {
					w.cs.Blocks = []c05Block{*b}
					return cases, known, msg
				}
				cases++
				labels := layoutLabels
				if len(kl) > 0 {
					known++
					labels = append(append([]string(nil), labels...), kl...)
				}
				nt := (len(copies) >= 2 && (len(out.Trashes) > 0 || len(out.Pulls) > 0)) || (len(f.under) > 0 && len(copies) > 0)
				if len(out.Trashes) > 0 {
					labels = append(append([]string(nil), labels...), pfx+":trash-emitted")
				}
				stats.Case(fpTag|uint64(layoutIdx)<<32|uint64(replBits)<<24|uint64(st)<<4|uint64(desired), nt, labels...)
			}
		}
	}
	return
}
