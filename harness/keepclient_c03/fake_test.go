package keepclient

// Scripted fake Keep service for C03.
//
// A handful of loopback listeners are shared by all cases of one test
// process. Each accepted connection serves exactly ONE request: the handler
// reads the request with http.ReadRequest, asks the current case's script
// which behaviour to play, logs the request, writes a RAW response (so that
// Content-Length lies, truncation, chunked framing and resets reach the real
// net/http client code unchanged) and closes the connection. Because every
// connection carries one exchange and every case uses a fresh http.Transport
// and waits for all handlers to finish, nothing of one case can be seen by
// the next.

import (
	"bufio"
	"bytes"
	"fmt"
	"net"
	"net/http"
	"strings"
	"sync"
	"sync/atomic"
)

type c03Kind int

const (
	kOK            c03Kind = iota // 200, Content-Length = len, body = content
	kOKJunk                       // 200, Content-Length = len, body = content followed by junk the framing excludes
	kOKChunked                    // 200, chunked, content, proper terminator
	kOKClose                      // 200, no length, body = content, then FIN
	kFlip                         // 200, Content-Length = len, one bit flipped
	kShortHonest                  // 200, Content-Length = len, body cut short, FIN
	kShortMatch                   // 200, Content-Length = k < len, body = content[:k]
	kLongMatch                    // 200, Content-Length = len+x, body = content+junk
	kCLLie                        // 200, Content-Length = len+-d, body = content in full
	kChunkedShort                 // 200, chunked, content[:k], terminated
	kChunkedLong                  // 200, chunked, content+junk, terminated
	kChunkedFlip                  // 200, chunked, bit flipped, terminated
	kChunkedTrunc                 // 200, chunked, content, NO terminator, FIN
	kCloseShort                   // 200, no length, content[:k], FIN
	kCloseLong                    // 200, no length, content+junk, FIN
	kCloseFlip                    // 200, no length, bit flipped, FIN
	k404                          // 404
	kPermStatus                   // other non-retryable status (400, 401, 403, 410, 422)
	kRetryStatus                  // 408, 429, 500, 502, 503, 504
	kResetBefore                  // RST without any response byte
	kCloseBefore                  // FIN without any response byte
	kResetAfterHdr                // 200 + headers (+ part of the body), then RST
	kNumKinds
)

var c03KindName = [...]string{
	"ok", "ok+junk", "ok-chunked", "ok-nolength", "flip", "short-honestCL", "short-matchCL", "long-matchCL", "CL-lie",
	"chunked-short", "chunked-long", "chunked-flip", "chunked-trunc", "nolength-short", "nolength-long", "nolength-flip",
	"404", "perm-status", "retry-status", "reset-before", "close-before", "reset-after-headers",
}

func (k c03Kind) String() string { return c03KindName[k] }

// Response classes as the oracle sees them.
type c03Class int

const (
	clsOK      c03Class = iota // well framed 200 whose body is exactly the content, with Content-Length
	clsOKNoLen                 // same, but without Content-Length (chunked / until close)
	clsBad200                  // 200 whose body (as HTTP frames it) is not the content, or ends uncleanly
	clsPerm                    // non-retryable failure status
	clsRetry                   // retryable status or connection failure before any response
	clsAmbig                   // reset after headers: client sees either a bad 200 or a connection failure
)

var c03ClassName = [...]string{"OK", "OK-nolen", "BAD200", "PERM", "RETRY", "AMBIG"}

func (c c03Class) String() string { return c03ClassName[c] }

func (k c03Kind) class() c03Class {
	switch k {
	case kOK, kOKJunk:
		return clsOK
	case kOKChunked, kOKClose:
		return clsOKNoLen
	case k404, kPermStatus:
		return clsPerm
	case kRetryStatus, kResetBefore, kCloseBefore:
		return clsRetry
	case kResetAfterHdr:
		return clsAmbig
	}
	return clsBad200
}

// c03Beh is one scripted behaviour. The numeric parameters are interpreted
// relative to the requested block when the response is built.
type c03Beh struct {
	Kind   c03Kind
	P      int // position parameter (flip position / cut position), reduced modulo the length
	X      int // amount parameter (extra bytes, CL delta), >= 1
	Code   int // status for kPermStatus / kRetryStatus
	Split  int // where to split the TCP writes (0 = single write), reduced modulo total
	Chunk  int // chunk size for chunked bodies, >= 1
	Bit    uint
	HdrCut bool // kResetAfterHdr: true = reset right after the header block, false = after part of the body
}

func (b c03Beh) String() string {
	switch b.Kind {
	case kPermStatus, kRetryStatus:
		return fmt.Sprintf("%s(%d)", b.Kind, b.Code)
	case kOK, k404, kResetBefore, kCloseBefore, kOKClose:
		return b.Kind.String()
	}
	return fmt.Sprintf("%s(p=%d,x=%d)", b.Kind, b.P, b.X)
}

type c03Req struct {
	Svc    int // index into fake.svcs
	N      int // per-service request index (0-based)
	Method string
	Hash   string
	Path   string
	Beh    c03Beh
	Class  c03Class
}

func (r c03Req) String() string {
	return fmt.Sprintf("svc%d#%d %s %s.. -> %s [%s]", r.Svc, r.N, r.Method, r.Hash[:6], r.Beh, r.Class)
}

type c03Svc struct {
	script []c03Beh // consumed one per request
	deflt  c03Beh   // served once the script is exhausted
	served int
}

// c03Fake is the state of the fake services for ONE case.
type c03Fake struct {
	mu     sync.Mutex
	svcs   []*c03Svc
	store  map[string][]byte // md5 hex -> true content
	log    []c03Req
	infra  []string
	conns  map[net.Conn]struct{}
	wg     sync.WaitGroup
	closed bool
}

const c03MaxSvcs = 5

type c03Listener struct {
	ln  net.Listener
	url string
	idx int
}

var (
	c03Listeners   []*c03Listener
	c03ListenOnce  sync.Once
	c03ListenErr   error
	c03Current     atomic.Value // *c03Fake (possibly nil pointer)
	c03StrayReqs   int64
	c03DialCounter uint32
)

func c03StartListeners() error {
	c03ListenOnce.Do(func() {
		c03Current.Store((*c03Fake)(nil))
		for i := 0; i < c03MaxSvcs; i++ {
			ln, err := net.Listen("tcp", "127.0.0.1:0")
			if err != nil {
				c03ListenErr = err
				return
			}
			l := &c03Listener{ln: ln, url: "http://" + ln.Addr().String(), idx: i}
			c03Listeners = append(c03Listeners, l)
			go l.acceptLoop()
		}
	})
	return c03ListenErr
}

func (l *c03Listener) acceptLoop() {
	for {
		conn, err := l.ln.Accept()
		if err != nil {
			return
		}
		f, _ := c03Current.Load().(*c03Fake)
		if f == nil || !f.register(conn) {
			atomic.AddInt64(&c03StrayReqs, 1)
			c03Reset(conn)
			continue
		}
		go f.serve(l.idx, conn)
	}
}

func c03Reset(conn net.Conn) {
	if tc, ok := conn.(*net.TCPConn); ok {
		tc.SetLinger(0)
	}
	conn.Close()
}

func (f *c03Fake) register(conn net.Conn) bool {
	f.mu.Lock()
	defer f.mu.Unlock()
	if f.closed {
		return false
	}
	f.conns[conn] = struct{}{}
	f.wg.Add(1)
	return true
}

func c03NewFake(nsvc int, store map[string][]byte) *c03Fake {
	f := &c03Fake{store: store, conns: map[net.Conn]struct{}{}}
	for i := 0; i < nsvc; i++ {
		f.svcs = append(f.svcs, &c03Svc{deflt: c03Beh{Kind: kOK}})
	}
	c03Current.Store(f)
	return f
}

// finish detaches the fake from the listeners, closes whatever is still
// open and waits for all handlers.
func (f *c03Fake) finish() {
	c03Current.Store((*c03Fake)(nil))
	f.mu.Lock()
	f.closed = true
	for c := range f.conns {
		c.Close()
	}
	f.mu.Unlock()
	f.wg.Wait()
}

func (f *c03Fake) infraf(format string, args ...interface{}) {
	f.mu.Lock()
	f.infra = append(f.infra, fmt.Sprintf(format, args...))
	f.mu.Unlock()
}

func (f *c03Fake) logLen() int {
	f.mu.Lock()
	defer f.mu.Unlock()
	return len(f.log)
}

func (f *c03Fake) logFrom(i int) []c03Req {
	f.mu.Lock()
	defer f.mu.Unlock()
	return append([]c03Req(nil), f.log[i:]...)
}

// peekClass says which class the next answer of service i would have.
func (f *c03Fake) peekClass(i int) c03Class {
	f.mu.Lock()
	defer f.mu.Unlock()
	s := f.svcs[i]
	if s.served < len(s.script) {
		return s.script[s.served].Kind.class()
	}
	return s.deflt.Kind.class()
}

// heal makes every service answer correctly from now on.
func (f *c03Fake) setAll(b c03Beh) {
	f.mu.Lock()
	defer f.mu.Unlock()
	for _, s := range f.svcs {
		s.script = s.script[:c03min(s.served, len(s.script))]
		s.deflt = b
	}
}

func c03min(a, b int) int {
	if a < b {
		return a
	}
	return b
}

func (f *c03Fake) serve(svc int, conn net.Conn) {
	defer f.wg.Done()
	defer func() {
		f.mu.Lock()
		delete(f.conns, conn)
		f.mu.Unlock()
	}()
	req, err := http.ReadRequest(bufio.NewReader(conn))
	if err != nil {
		// client went away before sending a request (never expected)
		f.infraf("svc%d: cannot read request: %v", svc, err)
		conn.Close()
		return
	}
	path := strings.TrimPrefix(req.URL.Path, "/")
	hash := path
	if len(hash) > 32 {
		hash = hash[:32]
	}
	f.mu.Lock()
	if svc >= len(f.svcs) {
		f.infra = append(f.infra, fmt.Sprintf("request to unconfigured service %d: %s", svc, path))
		f.mu.Unlock()
		c03Reset(conn)
		return
	}
	content, known := f.store[hash]
	if !known {
		f.infra = append(f.infra, fmt.Sprintf("request for unknown block %q", path))
		f.mu.Unlock()
		c03Reset(conn)
		return
	}
	s := f.svcs[svc]
	var beh c03Beh
	if s.served < len(s.script) {
		beh = s.script[s.served]
	} else {
		beh = s.deflt
	}
	n := s.served
	s.served++
	if req.Method != "GET" {
		f.infra = append(f.infra, fmt.Sprintf("unexpected method %s", req.Method))
	}
	eff := c03Effective(beh, len(content))
	f.log = append(f.log, c03Req{Svc: svc, N: n, Method: req.Method, Hash: hash, Path: path, Beh: beh, Class: eff.class()})
	f.mu.Unlock()

	head, body, reset := c03Build(beh, content)
	if head == nil {
		if reset {
			c03Reset(conn)
		} else {
			conn.Close()
		}
		return
	}
	all := append(head, body...)
	if eff == kResetAfterHdr && beh.HdrCut {
		all = head
	}
	if beh.Split > 0 && len(all) > 1 {
		k := 1 + beh.Split%(len(all)-1)
		if _, err := conn.Write(all[:k]); err == nil {
			conn.Write(all[k:])
		}
	} else {
		conn.Write(all)
	}
	if reset {
		c03Reset(conn)
	} else {
		conn.Close()
	}
}

var c03Junk = []byte("JUNKjunkJUNKjunk0123456789abcdefJUNKjunkJUNKjunk0123456789abcdef")

func c03JunkBytes(n int) []byte {
	out := make([]byte, n)
	for i := range out {
		out[i] = c03Junk[i%len(c03Junk)]
	}
	return out
}

func c03Flipped(content []byte, p int, bit uint) []byte {
	out := append([]byte(nil), content...)
	out[p%len(out)] ^= 1 << (bit % 8)
	return out
}

func c03Chunked(body []byte, chunk int, terminate bool) []byte {
	var buf bytes.Buffer
	if chunk < 1 {
		chunk = 1
	}
	// keep the number of chunks bounded for large bodies
	if len(body)/chunk > 64 {
		chunk = len(body)/64 + 1
	}
	for len(body) > 0 {
		n := chunk
		if n > len(body) {
			n = len(body)
		}
		fmt.Fprintf(&buf, "%x\r\n", n)
		buf.Write(body[:n])
		buf.WriteString("\r\n")
		body = body[n:]
	}
	if terminate {
		buf.WriteString("0\r\n\r\n")
	}
	return buf.Bytes()
}

// c03Effective resolves a behaviour whose precondition the block cannot meet
// (flip / cut of an empty block) to one of the same class.
func c03Effective(beh c03Beh, n int) c03Kind {
	if n > 0 {
		return beh.Kind
	}
	switch beh.Kind {
	case kFlip, kShortHonest, kShortMatch:
		return kLongMatch
	case kCLLie:
		return kCLLie // only the +d form is possible, handled in build
	case kChunkedShort, kChunkedFlip:
		return kChunkedLong
	case kCloseShort, kCloseFlip:
		return kCloseLong
	case kResetAfterHdr:
		// headers + complete (empty) body would be a correct answer
		return kResetBefore
	}
	return beh.Kind
}

// c03Build returns the raw header block and body bytes for a behaviour; a
// nil head means "no response bytes at all".
func c03Build(beh c03Beh, content []byte) (head, body []byte, reset bool) {
	n := len(content)
	x := beh.X
	if x < 1 {
		x = 1
	}
	hdr := func(status string, lines ...string) []byte {
		s := "HTTP/1.1 " + status + "\r\nContent-Type: application/octet-stream\r\nConnection: close\r\n"
		for _, l := range lines {
			s += l + "\r\n"
		}
		return []byte(s + "\r\n")
	}
	cl := func(v int) string { return fmt.Sprintf("Content-Length: %d", v) }
	cut := 0
	if n > 0 {
		cut = beh.P % n // 0 <= cut < n
	}
	switch c03Effective(beh, n) {
	case kOK:
		return hdr("200 OK", cl(n)), content, false
	case kOKJunk:
		return hdr("200 OK", cl(n)), append(append([]byte(nil), content...), c03JunkBytes(x)...), false
	case kOKChunked:
		return hdr("200 OK", "Transfer-Encoding: chunked"), c03Chunked(content, beh.Chunk, true), false
	case kOKClose:
		return hdr("200 OK"), content, false
	case kFlip:
		return hdr("200 OK", cl(n)), c03Flipped(content, beh.P, beh.Bit), false
	case kShortHonest:
		return hdr("200 OK", cl(n)), content[:cut], false
	case kShortMatch:
		return hdr("200 OK", cl(cut)), content[:cut], false
	case kLongMatch:
		return hdr("200 OK", cl(n+x)), append(append([]byte(nil), content...), c03JunkBytes(x)...), false
	case kCLLie:
		v := n + x
		if n > 0 && beh.P%2 == 0 {
			v = n - 1 - (x-1)%n // 0 <= v < n
		}
		return hdr("200 OK", cl(v)), content, false
	case kChunkedShort:
		return hdr("200 OK", "Transfer-Encoding: chunked"), c03Chunked(content[:cut], beh.Chunk, true), false
	case kChunkedLong:
		return hdr("200 OK", "Transfer-Encoding: chunked"), c03Chunked(append(append([]byte(nil), content...), c03JunkBytes(x)...), beh.Chunk, true), false
	case kChunkedFlip:
		return hdr("200 OK", "Transfer-Encoding: chunked"), c03Chunked(c03Flipped(content, beh.P, beh.Bit), beh.Chunk, true), false
	case kChunkedTrunc:
		return hdr("200 OK", "Transfer-Encoding: chunked"), c03Chunked(content, beh.Chunk, false), false
	case kCloseShort:
		return hdr("200 OK"), content[:cut], false
	case kCloseLong:
		return hdr("200 OK"), append(append([]byte(nil), content...), c03JunkBytes(x)...), false
	case kCloseFlip:
		return hdr("200 OK"), c03Flipped(content, beh.P, beh.Bit), false
	case k404:
		msg := []byte("Not Found\n")
		return hdr("404 Not Found", cl(len(msg))), msg, false
	case kPermStatus, kRetryStatus:
		msg := []byte(fmt.Sprintf("scripted status %d\n", beh.Code))
		return hdr(fmt.Sprintf("%d %s", beh.Code, http.StatusText(beh.Code)), cl(len(msg))), msg, false
	case kResetBefore:
		return nil, nil, true
	case kCloseBefore:
		return nil, nil, false
	case kResetAfterHdr:
		return hdr("200 OK", cl(n)), content[:cut], true
	}
	panic("unknown behaviour kind")
}
