package keepclient

// C03, cache clause under eviction: several blocks, a BlockCache smaller than
// the working set, concurrent ReadAt callers. Every service answers
// correctly, so every read must succeed with exactly the block's bytes – a
// cache that hands out a buffer it later recycles for another block would
// deliver bytes that mismatch the locator. (Added by the lead after a seeded
// "reuse evicted buffers" defect was missed by the single-block units.)

import (
	"bytes"
	"fmt"
	"strings"
	"sync"
	"testing"

	"pgregory.net/rapid"
	"verif.local/vcommon/stats"
)

func TestVerifC03Evict(t *testing.T) {
	defer stats.Flush()
	defer c03ReportStray()
	rapid.Check(t, func(t *rapid.T) {
		env := c03Setup(t)
		defer env.finish(t)
		env.f.setAll(c03Beh{Kind: kOK})
		nblocks := c03UR(t, "nBlocks", 2, 5)
		var blks []*c03Block
		seen := map[string]bool{}
		for i := 0; len(blks) < nblocks && i < 20; i++ {
			b := c03GenBlock(t, env, fmt.Sprintf("blk%d", i), true, 0)
			if len(b.content) == 0 || seen[b.hash] {
				continue
			}
			seen[b.hash] = true
			blks = append(blks, b)
		}
		if len(blks) < 2 {
			t.Skip("need two distinct blocks")
		}
		env.kc.BlockCache.MaxBlocks = c03UR(t, "maxBlocks", 1, 2)
		nreaders := c03UR(t, "nReaders", 2, 8)
		type step struct{ blk, off, plen int }
		plans := make([][]step, nreaders)
		for i := range plans {
			k := c03UR(t, fmt.Sprintf("r%dSteps", i), 2, 8)
			for j := 0; j < k; j++ {
				b := c03U(t, fmt.Sprintf("r%dBlk%d", i, j), len(blks))
				n := len(blks[b].content)
				off := 0
				plen := n
				if c03U(t, fmt.Sprintf("r%dWhole%d", i, j), 3) == 0 {
					off = rapid.IntRange(0, n).Draw(t, fmt.Sprintf("r%dOff%d", i, j))
					plen = rapid.IntRange(0, n-off).Draw(t, fmt.Sprintf("r%dLen%d", i, j))
				}
				plans[i] = append(plans[i], step{b, off, plen})
			}
		}
		type result struct {
			step
			n    int
			err  error
			diff int
		}
		results := make([][]result, nreaders)
		var wg sync.WaitGroup
		start := make(chan struct{})
		for i := range plans {
			wg.Add(1)
			go func(i int) {
				defer wg.Done()
				<-start
				for _, s := range plans[i] {
					buf := make([]byte, s.plen)
					n, err := env.kc.ReadAt(blks[s.blk].loc, buf, s.off)
					r := result{step: s, n: n, err: err, diff: -1}
					if err == nil && n <= len(buf) {
						want := blks[s.blk].content[s.off : s.off+n]
						if !bytes.Equal(buf[:n], want) {
							r.diff = c03FirstDiff(buf[:n], want)
						}
					}
					results[i] = append(results[i], r)
				}
			}(i)
		}
		close(start)
		wg.Wait()
		var lines []string
		for i, rr := range results {
			for _, r := range rr {
				lines = append(lines, fmt.Sprintf("reader%d block%d(%d bytes) off=%d len=%d -> n=%d err=%v diff@%d", i, r.blk, len(blks[r.blk].content), r.off, r.plen, r.n, r.err, r.diff))
			}
		}
		desc := fmt.Sprintf("maxBlocks=%d blocks=%d readers=%d\n  %s", env.kc.BlockCache.MaxBlocks, len(blks), nreaders, strings.Join(lines, "\n  "))
		for i, rr := range results {
			for _, r := range rr {
				if r.err != nil {
					t.Fatalf("reader %d: ReadAt failed (%v) although every service answers correctly\n%s", i, r.err, desc)
				}
				if r.n != r.plen {
					t.Fatalf("reader %d: ReadAt returned n=%d, want %d\n%s", i, r.n, r.plen, desc)
				}
				if r.diff >= 0 {
					t.Fatalf("reader %d: ReadAt of block %d returned bytes that mismatch the locator (first difference at +%d)\n%s", i, r.blk, r.diff, desc)
				}
			}
		}
		fetches := len(env.f.logFrom(0))
		labels := []string{"evict", fmt.Sprintf("evict-maxBlocks:%d", env.kc.BlockCache.MaxBlocks), fmt.Sprintf("evict-blocks:%d", len(blks)), fmt.Sprintf("evict-readers:%d", nreaders)}
		refetched := fetches > len(blks)
		if refetched {
			labels = append(labels, "evict-refetch-happened")
		}
		stats.Case(stats.FP("evict", desc), refetched, labels...)
		stats.InfoAdd("c03_evict_fetches", int64(fetches))
		if refetched && stats.WantSample("evict") {
			stats.Sample("evict", desc)
		}
	})
}
