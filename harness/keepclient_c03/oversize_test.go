package keepclient

// C03, one fixed scenario that cannot live inside the generated cases because
// today it kills the process: a service answers a hint-less (bare hash)
// locator with "200, Content-Length: 64 MiB + 1". KeepClient.ReadAt must end
// with an error. The scenario runs in a child process so that a crash is
// observed instead of suffered.

import (
	"bufio"
	"bytes"
	"fmt"
	"net"
	"net/http"
	"os"
	"os/exec"
	"strings"
	"testing"

	"git.arvados.org/arvados.git/sdk/go/arvadosclient"
	"verif.local/vcommon/stats"
)

const c03OversizeKey = "c03-oversize-content-length-panic"

func TestVerifC03OversizeCLChild(t *testing.T) {
	if os.Getenv("C03_OVERSIZE_CHILD") == "" {
		t.Skip("only runs as a child of TestVerifC03OversizeCL")
	}
	ln, err := net.Listen("tcp", "127.0.0.1:0")
	if err != nil {
		t.Fatalf("VERIF-INFRA: %v", err)
	}
	defer ln.Close()
	go func() {
		for {
			c, err := ln.Accept()
			if err != nil {
				return
			}
			http.ReadRequest(bufio.NewReader(c))
			fmt.Fprintf(c, "HTTP/1.1 200 OK\r\nContent-Length: %d\r\nConnection: close\r\n\r\nabc", BLOCKSIZE+1)
			c.Close()
		}
	}()
	kc := &KeepClient{Arvados: &arvadosclient.ArvadosClient{ApiToken: "x"}, HTTPClient: &http.Client{Transport: &http.Transport{}}, BlockCache: &BlockCache{}}
	kc.SetServiceRoots(map[string]string{"zzzzz-bi6l4-000000000000000": "http://" + ln.Addr().String()}, nil, nil)
	p := make([]byte, 3)
	n, rerr := kc.ReadAt("900150983cd24fb0d6963f7d28e17f72", p, 0) // md5("abc"), no size hint
	fmt.Printf("C03-OVERSIZE-RESULT n=%d err=%v\n", n, rerr)
	if rerr == nil {
		fmt.Println("C03-OVERSIZE-SUCCESS")
	}
}

func TestVerifC03OversizeCL(t *testing.T) {
	defer stats.Flush()
	cmd := exec.Command(os.Args[0], "-test.run", "^TestVerifC03OversizeCLChild$", "-test.v", "-test.count=1")
	cmd.Env = append(os.Environ(), "C03_OVERSIZE_CHILD=1", "VERIF_STATS=")
	var out bytes.Buffer
	cmd.Stdout = &out
	cmd.Stderr = &out
	err := cmd.Run()
	text := out.String()
	switch {
	case strings.Contains(text, "C03-OVERSIZE-SUCCESS"):
		t.Fatalf("ReadAt reported success for an answer whose Content-Length (64 MiB + 1) cannot be the block\n%s", text)
	case err == nil && strings.Contains(text, "C03-OVERSIZE-RESULT"):
		stats.Case(stats.FP("oversize-cl"), true, "oversize-content-length:error-returned")
	case strings.Contains(text, "makeslice") || strings.Contains(text, "panic:"):
		i := strings.Index(text, "panic:")
		j := i + 600
		if i < 0 {
			i = 0
		}
		if j > len(text) {
			j = len(text)
		}
		detail := "bare-hash locator, answer '200 Content-Length: 67108865': client process dies: " + strings.Replace(text[i:j], "\n", " | ", -1)
		if stats.Known(c03OversizeKey, detail) {
			stats.Case(stats.FP("oversize-cl"), true, "oversize-content-length:process-crash(known)")
			return
		}
		t.Fatalf("KeepClient.ReadAt of a hint-less locator answered with Content-Length 64 MiB+1 does not end with an error: the process crashes (panic on BlockCache's fetch goroutine, block_cache.go make([]byte, size, bufsize) with size > bufsize)\n%s", text)
	default:
		t.Fatalf("VERIF-INFRA: child process gave no result: %v\n%s", err, text)
	}
}
