package keepclient

// Race-detector unit for C03. For this property a race report is
// information, not a verdict (DESIGN.md §2.1): the verdict is the data
// oracle. The testing package fails a test when the detector reported
// anything, whatever GORACE says, so the -race binary runs the concurrent and
// cache properties in a CHILD process (same binary, same rapid flags) and this
// wrapper turns "failed only because of race reports" into a pass that is
// recorded in the evidence (info.race_reports), while oracle failures of the
// child are passed on unchanged.

import (
	"bytes"
	"encoding/json"
	"fmt"
	"io/ioutil"
	"os"
	"os/exec"
	"strings"
	"testing"
)

func TestVerifC03Race(t *testing.T) {
	if os.Getenv("C03_RACE_CHILD") != "" {
		t.Skip("child process")
	}
	var args []string
	for i := 1; i < len(os.Args); i++ {
		a := os.Args[i]
		if a == "-test.run" && i+1 < len(os.Args) {
			args = append(args, a, "^TestVerifC03(Concurrent|Cache)$")
			i++
			continue
		}
		if strings.HasPrefix(a, "-test.run=") {
			args = append(args, "-test.run=^TestVerifC03(Concurrent|Cache)$")
			continue
		}
		args = append(args, a)
	}
	cmd := exec.Command(os.Args[0], args...)
	env := []string{"C03_RACE_CHILD=1", "GORACE=halt_on_error=0"}
	for _, e := range os.Environ() {
		if !strings.HasPrefix(e, "GORACE=") {
			env = append(env, e)
		}
	}
	cmd.Env = env
	var out bytes.Buffer
	cmd.Stdout = &out
	cmd.Stderr = &out
	err := cmd.Run()
	text := out.String()
	fmt.Println(text)
	races := strings.Count(text, "WARNING: DATA RACE")
	// record in the stats file the child has written
	if path := os.Getenv("VERIF_STATS"); path != "" {
		if buf, rerr := ioutil.ReadFile(path); rerr == nil {
			var st map[string]interface{}
			if json.Unmarshal(buf, &st) == nil {
				info, _ := st["info"].(map[string]interface{})
				if info == nil {
					info = map[string]interface{}{}
				}
				info["race_detector_reports"] = races
				if races > 0 {
					i := strings.Index(text, "WARNING: DATA RACE")
					j := i + 1500
					if j > len(text) {
						j = len(text)
					}
					info["race_detector_first_report"] = []string{text[i:j]}
				}
				st["info"] = info
				if nb, merr := json.Marshal(st); merr == nil {
					ioutil.WriteFile(path, nb, 0644)
				}
			}
		}
	}
	oracleFailed := strings.Contains(text, "[rapid] failed") || strings.Contains(text, "[rapid] panic") ||
		strings.Contains(text, "[rapid] flaky") || strings.Contains(text, "VERIF-INFRA:")
	switch {
	case oracleFailed:
		t.Fatalf("child process reported a property failure (see output above)")
	case err == nil:
	case races > 0 || strings.Contains(text, "race detected during execution of test"):
		t.Logf("race detector reported %d race(s); informational for C03, recorded in the evidence", races)
	default:
		t.Fatalf("VERIF-INFRA: child process failed without a property failure: %v", err)
	}
}
