package keepclient

// C03 – data obtained through the Keep client (streaming Get, cached ReadAt)
// or by reading a file of a collection filesystem backed by it is exactly the
// content named by the locator; a corrupted / truncated / over-long / wrongly
// sized answer ends in an error and is not kept in the block cache.
//
// Drive: the real KeepClient (real http.Transport) against scripted loopback
// services (fake_test.go). Oracle: the true content held by the harness, the
// request log of the fake services, and the classes of the scripted answers.

import (
	"bytes"
	"context"
	"crypto/md5"
	"fmt"
	"io"
	"net"
	"net/http"
	"os"
	"sort"
	"strconv"
	"strings"
	"sync"
	"sync/atomic"
	"testing"

	"git.arvados.org/arvados.git/sdk/go/arvadosclient"
	"pgregory.net/rapid"
	"verif.local/vcommon/stats"
)

// ---------------------------------------------------------------- environment

type c03Env struct {
	f       *c03Fake
	kc      *KeepClient
	tr      *http.Transport
	nLocal  int
	gwIdx   int    // service index of the gateway, -1 if none
	gwUUID  string // its uuid
	retries int
	store   map[string][]byte
}

func c03Dial(ctx context.Context, network, addr string) (net.Conn, error) {
	// spread source addresses over 127/8 so that many short connections to
	// the same few listeners never run out of (addr,port) tuples
	c := atomic.AddUint32(&c03DialCounter, 1)
	d := net.Dialer{LocalAddr: &net.TCPAddr{IP: net.IPv4(127, byte(1+os.Getpid()%200), byte(c>>8), byte(c))}}
	conn, err := d.DialContext(ctx, network, addr)
	if err != nil {
		var d2 net.Dialer
		return d2.DialContext(ctx, network, addr)
	}
	return conn, nil
}

const c03UUIDChars = "0123456789abcdefghijklmnopqrstuvwxyz"

func c03GenUUID(t *rapid.T, label string) string {
	return "zzzzz-bi6l4-" + rapid.StringOfN(rapid.RuneFrom([]rune(c03UUIDChars)), 15, 15, 15).Draw(t, label)
}

func c03Setup(t *rapid.T) *c03Env {
	if err := c03StartListeners(); err != nil {
		t.Fatalf("VERIF-INFRA: cannot listen on loopback: %v", err)
	}
	env := &c03Env{gwIdx: -1, store: map[string][]byte{}}
	env.nLocal = c03UR(t, "nLocal", 1, 4)
	env.retries = c03UR(t, "retries", 0, 3)
	withGW := c03U(t, "gateway", 4) == 0
	n := env.nLocal
	if withGW {
		env.gwIdx = n
		n++
	}
	env.f = c03NewFake(n, env.store)
	locals := map[string]string{}
	for i := 0; i < env.nLocal; i++ {
		// last character = index, so uuids stay distinct whatever is drawn
		u := c03GenUUID(t, fmt.Sprintf("uuid%d", i))[:26] + string(c03UUIDChars[i])
		locals[u] = c03Listeners[i].url
	}
	gws := map[string]string{}
	for u, r := range locals {
		gws[u] = r
	}
	if withGW {
		u := "zzzzz-bi6l4-gw" + rapid.StringOfN(rapid.RuneFrom([]rune(c03UUIDChars)), 13, 13, 13).Draw(t, "gwuuid")
		env.gwUUID = u
		gws[u] = c03Listeners[env.gwIdx].url
	}
	env.tr = &http.Transport{DialContext: c03Dial, MaxIdleConns: 10}
	env.kc = &KeepClient{
		Arvados:       &arvadosclient.ArvadosClient{ApiToken: "c03token"},
		Want_replicas: 1,
		Retries:       env.retries,
		HTTPClient:    &http.Client{Transport: env.tr},
		BlockCache:    &BlockCache{},
	}
	env.kc.SetServiceRoots(locals, locals, gws)
	return env
}

func (env *c03Env) finish(t *rapid.T) {
	env.tr.CloseIdleConnections()
	env.f.finish()
	if len(env.f.infra) > 0 {
		t.Fatalf("VERIF-INFRA: fake keep service: %v", env.f.infra)
	}
}

// services a request for this locator may legitimately be sent to
func (env *c03Env) svcsFor(usesGW bool) []int {
	var out []int
	for i := 0; i < env.nLocal; i++ {
		out = append(out, i)
	}
	if usesGW && env.gwIdx >= 0 {
		out = append(out, env.gwIdx)
	}
	return out
}

// ---------------------------------------------------------------- generators

// c03U draws an integer uniformly from [0,n). rapid's own integer generators
// are deliberately biased towards small values and the bounds, which is what
// we want for magnitudes but not for choosing between categories.
func c03U(t *rapid.T, label string, n int) int {
	bits := rapid.SliceOfN(rapid.Bool(), 12, 12).Draw(t, label)
	v := 0
	for _, b := range bits {
		v <<= 1
		if b {
			v |= 1
		}
	}
	return v % n
}

func c03UR(t *rapid.T, label string, lo, hi int) int { return lo + c03U(t, label, hi-lo+1) }

func c03Fill(n int, seed uint64) []byte {
	out := make([]byte, n)
	x := seed*2862933555777941757 + 3037000493
	for i := 0; i < n; i += 8 {
		x ^= x << 13
		x ^= x >> 7
		x ^= x << 17
		v := x
		for j := 0; j < 8 && i+j < n; j++ {
			out[i+j] = byte(v)
			v >>= 8
		}
	}
	return out
}

func c03SizeLabel(n int) string {
	switch {
	case n == 0:
		return "size:0"
	case n == 1:
		return "size:1"
	case n <= 300:
		return "size:2-300"
	case n <= 5000:
		return "size:301-5000"
	case n == 65537:
		return "size:65537"
	}
	return "size:>65537"
}

// c03GenContent draws a block. big=false keeps blocks small (multi-block cases).
func c03GenContent(t *rapid.T, label string, big bool) []byte {
	cls := c03U(t, label+"SizeClass", 20)
	var n int
	switch {
	case cls == 0:
		n = 0
	case cls <= 2:
		n = 1
	case cls <= 13:
		n = rapid.IntRange(2, 300).Draw(t, label+"Size")
	case cls <= 16:
		n = rapid.IntRange(301, 5000).Draw(t, label+"Size")
	case cls <= 18 || !big:
		n = 65537
	default:
		n = rapid.IntRange(65538, 1<<20).Draw(t, label+"Size")
	}
	if n <= 16 {
		return rapid.SliceOfN(rapid.Byte(), n, n).Draw(t, label+"Bytes")
	}
	return c03Fill(n, rapid.Uint64().Draw(t, label+"Seed"))
}

type c03Block struct {
	content []byte
	hash    string
	loc     string
	sized   bool
	usesGW  bool
}

func c03GenBlock(t *rapid.T, env *c03Env, label string, big bool, unsizedPct int) *c03Block {
	b := &c03Block{content: c03GenContent(t, label, big)}
	b.hash = fmt.Sprintf("%x", md5.Sum(b.content))
	env.store[b.hash] = b.content
	b.loc = b.hash
	form := c03U(t, label+"LocForm", 10)
	if unsizedPct > 0 && c03U(t, label+"Unsized", 100) < unsizedPct {
		return b
	}
	b.sized = true
	b.loc += fmt.Sprintf("+%d", len(b.content))
	var hints []string
	if form >= 6 {
		hints = append(hints, "+A"+rapid.StringMatching(`[0-9a-f]{40}`).Draw(t, label+"Sig")+"@"+rapid.StringMatching(`[67][0-9a-f]{7}`).Draw(t, label+"Exp"))
	}
	if form == 9 {
		hints = append(hints, "+Zfoo")
	}
	if env.gwIdx >= 0 && rapid.Bool().Draw(t, label+"UseGW") {
		hints = append(hints, "+K@"+env.gwUUID)
		b.usesGW = true
	}
	if len(hints) == 2 && rapid.Bool().Draw(t, label+"HintSwap") {
		hints[0], hints[1] = hints[1], hints[0]
	}
	b.loc += strings.Join(hints, "")
	return b
}

var (
	c03OKKinds    = []c03Kind{kOK, kOK, kOK, kOKJunk, kOKChunked, kOKClose}
	c03BadKinds   = []c03Kind{kFlip, kFlip, kShortHonest, kShortMatch, kLongMatch, kCLLie, kChunkedShort, kChunkedLong, kChunkedFlip, kChunkedTrunc, kCloseShort, kCloseLong, kCloseFlip}
	c03PermKinds  = []c03Kind{k404, k404, kPermStatus}
	c03RetryKinds = []c03Kind{kRetryStatus, kRetryStatus, kRetryStatus, kResetBefore, kCloseBefore, kResetAfterHdr}
	c03PermCodes  = []int{400, 401, 403, 410, 422}
	c03RetryCodes = []int{408, 429, 500, 502, 503, 504}
)

func c03GenBeh(t *rapid.T, label string, okWeight int) c03Beh {
	cat := c03U(t, label+"Cat", 100)
	var b c03Beh
	switch {
	case cat < okWeight:
		b.Kind = c03OKKinds[c03U(t, label+"Kind", len(c03OKKinds))]
	case cat < okWeight+(100-okWeight)*5/10:
		b.Kind = c03BadKinds[c03U(t, label+"Kind", len(c03BadKinds))]
	case cat < okWeight+(100-okWeight)*65/100:
		b.Kind = c03PermKinds[c03U(t, label+"Kind", len(c03PermKinds))]
	default:
		b.Kind = c03RetryKinds[c03U(t, label+"Kind", len(c03RetryKinds))]
	}
	switch b.Kind {
	case kOK, k404, kResetBefore, kCloseBefore, kOKClose:
	case kPermStatus:
		b.Code = c03PermCodes[c03U(t, label+"Code", len(c03PermCodes))]
	case kRetryStatus:
		b.Code = c03RetryCodes[c03U(t, label+"Code", len(c03RetryCodes))]
	default:
		switch c03U(t, label+"PClass", 4) {
		case 0:
			b.P = 0
		case 1:
			b.P = (1 << 21) - 1 // reduces to a position near the end for most sizes; exact end handled below
		default:
			b.P = rapid.IntRange(0, 1<<21).Draw(t, label+"P")
		}
		b.X = rapid.IntRange(1, 40).Draw(t, label+"X")
		b.Bit = uint(rapid.IntRange(0, 7).Draw(t, label+"Bit"))
		b.Chunk = rapid.IntRange(1, 70).Draw(t, label+"Chunk")
		b.HdrCut = rapid.Bool().Draw(t, label+"HdrCut")
	}
	if b.Kind.class() != clsRetry || b.Kind == kRetryStatus {
		b.Split = c03U(t, label+"Split", 3) * rapid.IntRange(1, 5000).Draw(t, label+"SplitAt")
	}
	return b
}

// c03GenScripts fills the per-service scripts and defaults.
func c03GenScripts(t *rapid.T, env *c03Env, okWeight int) {
	for i, s := range env.f.svcs {
		n := c03U(t, fmt.Sprintf("svc%dScriptLen", i), env.retries+3)
		for j := 0; j < n; j++ {
			s.script = append(s.script, c03GenBeh(t, fmt.Sprintf("svc%d_%d", i, j), okWeight))
		}
		s.deflt = c03GenBeh(t, fmt.Sprintf("svc%dDefault", i), 60)
	}
}

func (env *c03Env) scriptString() string {
	var sb strings.Builder
	for i, s := range env.f.svcs {
		fmt.Fprintf(&sb, "svc%d%s: %v then %v; ", i, map[bool]string{true: "(gateway)", false: ""}[i == env.gwIdx], s.script, s.deflt)
	}
	return sb.String()
}

// c03ReportStray records connections that reached a listener while no case
// was active (would indicate leakage between cases; expected to stay 0).
func c03ReportStray() {
	stats.InfoAdd("stray_connections_between_cases", atomic.SwapInt64(&c03StrayReqs, 0))
}

// ---------------------------------------------------------------- oracle

func c03IsOK(c c03Class, sized bool) bool {
	return c == clsOK || (c == clsOKNoLen && sized)
}

// judge compares the reported outcome of ONE sequential operation with the
// requests it caused (delta). It returns "" or a description of the
// violation. mayUseCache: the operation may legitimately need no request.
func (env *c03Env) judge(svcs []int, sized bool, delta []c03Req, success, mayUseCache bool) string {
	if len(delta) == 0 {
		if success {
			if mayUseCache {
				return ""
			}
			return "operation reported success without contacting any service"
		}
		return "operation failed without contacting any service (an error was served from the cache, or invented)"
	}
	last := delta[len(delta)-1]
	if success {
		if c03IsOK(last.Class, sized) || last.Class == clsOKNoLen {
			return ""
		}
		return fmt.Sprintf("operation reported success although the last (accepted) answer was %v", last)
	}
	if c03IsOK(last.Class, sized) {
		return fmt.Sprintf("operation failed although the last answer received was correct: %v", last)
	}
	if last.Class == clsBad200 || last.Class == clsOKNoLen || last.Class == clsAmbig {
		// a faulty (or, without size hint, unsized) 200 justifies the error; a
		// reset after the headers is either that or a connection failure, and
		// the log cannot tell which the client saw
		return ""
	}
	// no 200 accepted: the client gave up. That is justified unless some
	// service would still have answered correctly within the retry budget.
	for _, svc := range svcs {
		tries, perm := 0, false
		for _, r := range delta {
			if r.Svc == svc {
				tries++
				if r.Class == clsPerm {
					perm = true
				}
			}
		}
		if perm || tries > env.retries {
			continue
		}
		if c03IsOK(env.f.peekClass(svc), sized) {
			return fmt.Sprintf("client gave up after %d request(s) to service %d (Retries=%d) although its next answer would have been correct", tries, svc, env.retries)
		}
	}
	return ""
}

func c03NonTrivial(delta []c03Req, sized bool) bool {
	for _, r := range delta {
		if !c03IsOK(r.Class, sized) {
			return true
		}
	}
	return false
}

func c03BehLabels(delta []c03Req, set map[string]bool) {
	for _, r := range delta {
		set["beh:"+c03Effective(r.Beh, 1).String()] = true
	}
}

func c03Labels(set map[string]bool) []string {
	var out []string
	for l := range set {
		out = append(out, l)
	}
	sort.Strings(out)
	return out
}

func c03LogString(delta []c03Req) string {
	var parts []string
	for _, r := range delta {
		parts = append(parts, r.String())
	}
	return strings.Join(parts, " | ")
}

func c03Short(b []byte) string {
	if len(b) <= 24 {
		return fmt.Sprintf("%x", b)
	}
	return fmt.Sprintf("%x..(%d bytes)", b[:24], len(b))
}

func c03FirstDiff(a, b []byte) int {
	n := len(a)
	if len(b) < n {
		n = len(b)
	}
	for i := 0; i < n; i++ {
		if a[i] != b[i] {
			return i
		}
	}
	if len(a) != len(b) {
		return n
	}
	return -1
}

func c03OutcomeLabels(delta []c03Req, sized, success bool, set map[string]bool) {
	if success {
		set["outcome:success"] = true
		for _, r := range delta[:c03max(0, len(delta)-1)] {
			if r.Class == clsRetry || r.Class == clsAmbig {
				set["success-after-retryable-failure"] = true
			}
			if r.Class == clsPerm {
				set["success-after-404-elsewhere"] = true
			}
		}
		if len(delta) == 0 {
			set["no-request"] = true
		}
		return
	}
	set["outcome:error"] = true
	if len(delta) > 0 {
		switch delta[len(delta)-1].Class {
		case clsBad200:
			set["error-from-bad-200"] = true
		case clsOKNoLen:
			set["error-unsized-locator-unsized-answer"] = true
		default:
			set["error-all-services-failed"] = true
		}
	}
}

func c03max(a, b int) int {
	if a > b {
		return a
	}
	return b
}

// ---------------------------------------------------------------- property 1: Get

func TestVerifC03Get(t *testing.T) {
	defer stats.Flush()
	defer c03ReportStray()
	rapid.Check(t, func(t *rapid.T) {
		env := c03Setup(t)
		defer env.finish(t)
		blk := c03GenBlock(t, env, "blk", true, 20)
		c03GenScripts(t, env, 35)
		mode := []string{"stream", "stream", "writeto", "earlyclose"}[c03U(t, "mode", 4)]
		content := blk.content
		script := env.scriptString()
		shortcut := strings.HasPrefix(blk.loc, "d41d8cd98f00b204e9800998ecf8427e+0")

		rdr, size, _, getErr := env.kc.Get(blk.loc)
		var delivered []byte
		var success bool
		var readErr, closeErr error
		sawEOF := false
		if getErr == nil {
			switch mode {
			case "stream":
				for i := 0; i < 1<<22; i++ {
					var bs int
					switch c03U(t, "readSizeClass", 4) {
					case 0:
						bs = 1
					case 1:
						bs = rapid.IntRange(1, 64).Draw(t, "readSize")
					case 2:
						bs = rapid.IntRange(65, 70000).Draw(t, "readSize")
					default:
						bs = 1 << 20
					}
					if len(content) > 4096 && bs < 512 {
						bs += 4096 // keep the number of draws bounded for big blocks
					}
					buf := make([]byte, bs)
					n, err := rdr.Read(buf)
					delivered = append(delivered, buf[:n]...)
					if err == io.EOF {
						sawEOF = true
						break
					}
					if err != nil {
						readErr = err
						break
					}
					if len(delivered) > len(content)+1<<16 {
						readErr = fmt.Errorf("harness: gave up, reader keeps producing data")
						break
					}
				}
				closeErr = rdr.Close()
				success = sawEOF
			case "writeto":
				wt, ok := rdr.(io.WriterTo)
				if !ok {
					t.Fatalf("VERIF-INFRA: reader returned by Get is not an io.WriterTo (%T)", rdr)
				}
				var buf bytes.Buffer
				_, readErr = wt.WriteTo(&buf)
				delivered = buf.Bytes()
				closeErr = rdr.Close()
				success = readErr == nil
			case "earlyclose":
				want := 0
				if len(content) > 0 {
					switch c03U(t, "prefixClass", 4) {
					case 0:
						want = 0
					case 1:
						want = len(content)
					default:
						want = rapid.IntRange(0, len(content)).Draw(t, "prefix")
					}
				}
				for len(delivered) < want && readErr == nil && !sawEOF {
					bs := rapid.IntRange(1, 70000).Draw(t, "readSize")
					if bs > want-len(delivered) {
						bs = want - len(delivered)
					}
					buf := make([]byte, bs)
					n, err := rdr.Read(buf)
					delivered = append(delivered, buf[:n]...)
					if err == io.EOF {
						sawEOF = true
					} else if err != nil {
						readErr = err
					}
				}
				closeErr = rdr.Close()
				success = readErr == nil && closeErr == nil
			}
		}
		delta := env.f.logFrom(0)
		desc := fmt.Sprintf("mode=%s locator=%s len=%d retries=%d nLocal=%d gw=%d\n script: %s\n requests: %s\n result: getErr=%v readErr=%v sawEOF=%v closeErr=%v delivered=%d bytes size=%d",
			mode, blk.loc, len(content), env.retries, env.nLocal, env.gwIdx, script, c03LogString(delta), getErr, readErr, sawEOF, closeErr, len(delivered), size)

		// (i) data oracle
		if success {
			switch mode {
			case "stream", "writeto":
				if !bytes.Equal(delivered, content) {
					t.Fatalf("successful %s read delivered bytes that are not the block content (first difference at %d; got %s want %s)\n%s",
						mode, c03FirstDiff(delivered, content), c03Short(delivered), c03Short(content), desc)
				}
			case "earlyclose":
				if len(delivered) > len(content) || !bytes.Equal(delivered, content[:len(delivered)]) {
					t.Fatalf("read+Close()==nil delivered bytes that are not a prefix of the block content (first difference at %d)\n%s",
						c03FirstDiff(delivered, content), desc)
				}
			}
			if size != int64(len(content)) {
				t.Fatalf("successful read, but Get reported size %d for a block of %d bytes\n%s", size, len(content), desc)
			}
		}
		// (ii)/(iv) outcome against the answers actually given
		if shortcut {
			if !success || len(delta) != 0 {
				t.Fatalf("empty-block locator: expected success without requests\n%s", desc)
			}
		} else if msg := env.judge(env.svcsFor(blk.usesGW), blk.sized, delta, success, false); msg != "" {
			t.Fatalf("%s\n%s", msg, desc)
		}

		labels := map[string]bool{"mode:" + mode: true, c03SizeLabel(len(content)): true,
			fmt.Sprintf("nLocal:%d", env.nLocal): true, fmt.Sprintf("retries:%d", env.retries): true}
		if blk.sized {
			labels["locator:sized"] = true
		} else {
			labels["locator:bare-hash"] = true
		}
		if blk.usesGW {
			labels["locator:+K@gateway"] = true
		}
		if getErr != nil {
			labels["error-at:Get"] = true
		} else if readErr != nil {
			labels["error-at:Read"] = true
		} else if closeErr != nil && !success {
			labels["error-at:Close"] = true
		}
		c03BehLabels(delta, labels)
		c03OutcomeLabels(delta, blk.sized, success, labels)
		nt := c03NonTrivial(delta, blk.sized)
		stats.Case(stats.FP("get", mode, blk.loc, env.retries, env.nLocal, c03LogString(delta), len(delivered)), nt, c03Labels(labels)...)
		for _, l := range []string{"error-from-bad-200", "success-after-retryable-failure", "error-at:Close"} {
			if labels[l] && stats.WantSample("get/"+l) {
				stats.Sample("get/"+l, map[string]interface{}{"mode": mode, "locator": blk.loc, "len": len(content), "retries": env.retries,
					"requests": c03LogString(delta), "getErr": fmt.Sprint(getErr), "readErr": fmt.Sprint(readErr), "closeErr": fmt.Sprint(closeErr), "delivered": len(delivered)})
			}
		}
	})
}

// ---------------------------------------------------------------- property 2: ReadAt / cache histories

// c03CheckReadAt verifies one sequential ReadAt and returns whether it succeeded.
func c03CheckReadAt(t *rapid.T, env *c03Env, blk *c03Block, off, plen int, hist *[]string, labels map[string]bool) (bool, []c03Req) {
	before := env.f.logLen()
	p := make([]byte, plen)
	for i := range p {
		p[i] = 0xA5
	}
	n, err := env.kc.ReadAt(blk.loc, p, off)
	delta := env.f.logFrom(before)
	*hist = append(*hist, fmt.Sprintf("ReadAt(%s.., len=%d, off=%d) = %d, %v  [requests: %s]", blk.loc[:8], plen, off, n, err, c03LogString(delta)))
	fail := func(format string, args ...interface{}) {
		t.Fatalf("%s\nblock %s (%d bytes)\nhistory:\n  %s\n scripts now: %s", fmt.Sprintf(format, args...), blk.loc, len(blk.content), strings.Join(*hist, "\n  "), env.scriptString())
	}
	success := err == nil
	if success {
		want := len(blk.content) - off
		if want > plen {
			want = plen
		}
		if want < 0 {
			want = 0
		}
		if n != want {
			fail("ReadAt returned n=%d with nil error; the block holds %d bytes at offset %d for a %d-byte buffer", n, want, off, plen)
		}
		if n > 0 && !bytes.Equal(p[:n], blk.content[off:off+n]) {
			fail("ReadAt returned bytes that are not content[%d:%d] (first difference at +%d): got %s want %s", off, off+n, c03FirstDiff(p[:n], blk.content[off:off+n]), c03Short(p[:n]), c03Short(blk.content[off:off+n]))
		}
	} else if n != 0 && !bytes.Equal(p[:n], blk.content[c03min(off, len(blk.content)):c03min(off+n, len(blk.content))]) {
		// not claimed by the property (an error was reported); recorded only
		labels["note:error-with-nonmatching-bytes-in-buffer"] = true
	}
	if !blk.sized {
		stats.InfoAdd("readat_unsized_calls", 1)
		stats.InfoAdd("readat_unsized_requests", int64(len(delta)))
	}
	for _, r := range delta {
		if r.Hash != blk.hash {
			fail("VERIF-INFRA: ReadAt of %s caused a request for another block %s", blk.hash, r.Hash)
		}
	}
	shortcut := strings.HasPrefix(blk.loc, "d41d8cd98f00b204e9800998ecf8427e+0")
	switch {
	case shortcut:
		if len(delta) != 0 || (!success && off <= 0) {
			fail("empty-block locator: expected success without requests")
		}
	case !success && off > len(blk.content) && len(delta) == 0:
		// offset beyond the cached block: error without request is the documented outcome
		labels["offset-beyond-block"] = true
	case !success && off > len(blk.content):
		// fetched and then out of range, or fetch failed: judge the fetch as failed only if the answer was not correct
		last := delta[len(delta)-1]
		if !c03IsOK(last.Class, blk.sized) {
			if msg := env.judge(env.svcsFor(blk.usesGW), blk.sized, delta, false, true); msg != "" {
				fail("%s", msg)
			}
		}
		labels["offset-beyond-block"] = true
	default:
		if msg := env.judge(env.svcsFor(blk.usesGW), blk.sized, delta, success, true); msg != "" {
			fail("%s", msg)
		}
	}
	return success, delta
}

func TestVerifC03Cache(t *testing.T) {
	defer stats.Flush()
	defer c03ReportStray()
	// BlockCache allocates a 64 MiB buffer per fetch when the locator has no
	// size hint; in this sandbox first-touch of that much fresh memory can
	// take seconds, so bare-hash locators are exercised by a separate unit
	// with a small case count (C03_UNSIZED_PCT set) instead of everywhere.
	unsizedPct, _ := strconv.Atoi(os.Getenv("C03_UNSIZED_PCT"))
	rapid.Check(t, func(t *rapid.T) {
		env := c03Setup(t)
		defer env.finish(t)
		env.kc.BlockCache.MaxBlocks = []int{0, 0, 1, 2}[c03U(t, "maxBlocks", 4)]
		nblk := c03UR(t, "nBlocks", 1, 3)
		var blks []*c03Block
		for i := 0; i < nblk; i++ {
			b := c03GenBlock(t, env, fmt.Sprintf("blk%d", i), i == 0 && unsizedPct == 0, unsizedPct)
			dup := false
			for _, o := range blks {
				if o.hash == b.hash {
					dup = true
				}
			}
			if !dup {
				blks = append(blks, b)
			}
		}
		c03GenScripts(t, env, 30)
		anyUnsized := false
		for _, b := range blks {
			if !b.sized {
				anyUnsized = true
			}
		}
		labels := map[string]bool{fmt.Sprintf("blocks:%d", len(blks)): true, fmt.Sprintf("bare-hash-locator:%v", anyUnsized): true, fmt.Sprintf("maxBlocks:%d", env.kc.BlockCache.MaxBlocks): true,
			fmt.Sprintf("retries:%d", env.retries): true}
		var hist []string
		lastErr := map[string]bool{} // block -> its most recent ReadAt failed
		everOK := map[string]bool{}  // block -> some ReadAt succeeded before
		var all []c03Req
		nsteps := c03UR(t, "nSteps", 2, 10)
		readat := func(b *c03Block, label string) {
			var off, plen int
			n := len(b.content)
			switch c03U(t, label+"OffClass", 6) {
			case 0:
				off = 0
			case 1:
				off = n
			case 2:
				off = c03max(0, n-1)
			case 3:
				off = n + rapid.IntRange(1, 3).Draw(t, label+"Beyond")
			default:
				off = rapid.IntRange(0, n).Draw(t, label+"Off")
			}
			switch c03U(t, label+"LenClass", 5) {
			case 0:
				plen = n
			case 1:
				plen = c03max(0, n-off)
			case 2:
				plen = rapid.IntRange(0, 3).Draw(t, label+"Len")
			case 3:
				plen = n + rapid.IntRange(1, 100).Draw(t, label+"Len")
			default:
				plen = rapid.IntRange(0, n+1).Draw(t, label+"Len")
			}
			ok, delta := c03CheckReadAt(t, env, b, off, plen, &hist, labels)
			all = append(all, delta...)
			c03BehLabels(delta, labels)
			if ok {
				if lastErr[b.hash] {
					labels["success-after-errored-ReadAt"] = true
					if len(delta) > 0 {
						labels["refetch-after-error"] = true
					}
				}
				if everOK[b.hash] && len(delta) == 0 {
					labels["served-from-cache"] = true
				}
				if everOK[b.hash] && len(delta) > 0 {
					labels["refetch-after-eviction"] = true
				}
				everOK[b.hash] = true
				lastErr[b.hash] = false
			} else if off <= len(b.content) {
				if everOK[b.hash] {
					labels["error-after-earlier-success(evicted)"] = true
				}
				lastErr[b.hash] = true
			} else if len(delta) == 0 || c03IsOK(delta[len(delta)-1].Class, b.sized) {
				// offset beyond the block: the error says nothing about the fetch,
				// which was served from the cache or answered correctly
				lastErr[b.hash] = false
			} else {
				lastErr[b.hash] = true
			}
		}
		for s := 0; s < nsteps; s++ {
			lbl := fmt.Sprintf("step%d", s)
			switch c03U(t, lbl+"Op", 10) {
			case 0:
				env.f.setAll(c03Beh{Kind: kOK})
				hist = append(hist, "-- all services answer correctly from now on")
			case 1:
				b := c03GenBeh(t, lbl+"Break", 0)
				env.f.setAll(b)
				hist = append(hist, fmt.Sprintf("-- all services answer %v from now on", b))
			default:
				readat(blks[c03U(t, lbl+"Blk", len(blks))], lbl)
			}
		}
		// (iii) heal, then every block must be readable, and with a new request if its last read failed
		env.f.setAll(c03Beh{Kind: kOK})
		hist = append(hist, "-- all services answer correctly from now on (final)")
		for i, b := range blks {
			before := env.f.logLen()
			hadErr := lastErr[b.hash]
			ok, delta := c03CheckReadAt(t, env, b, 0, len(b.content), &hist, labels)
			all = append(all, delta...)
			if !ok {
				t.Fatalf("block %d (%s) unreadable although every service now answers correctly\nhistory:\n  %s", i, b.loc, strings.Join(hist, "\n  "))
			}
			if hadErr && len(b.content) > 0 && env.f.logLen() == before {
				t.Fatalf("block %d (%s): the previous ReadAt failed, the next one succeeded without any new request\nhistory:\n  %s", i, b.loc, strings.Join(hist, "\n  "))
			}
			if hadErr {
				labels["final-refetch-after-error"] = true
			}
		}
		nt := false
		for _, r := range all {
			if r.Class != clsOK && r.Class != clsOKNoLen {
				nt = true
			}
		}
		stats.Case(stats.FP("cache", strings.Join(hist, ";")), nt, c03Labels(labels)...)
		for _, l := range []string{"refetch-after-error", "refetch-after-eviction"} {
			if labels[l] && stats.WantSample("cache/"+l) {
				stats.Sample("cache/"+l, hist)
			}
		}
	})
}

// ---------------------------------------------------------------- property 3: collection file reads

type c03FileSpec struct {
	path    string
	content []byte
	tokens  int
}

// c03GenManifest draws a small manifest over freshly generated blocks. It
// returns the text, the files (expected bytes computed from the generator's
// own structure) and for every file the list of (fileOffset -> block hash)
// boundaries is not needed: the oracle only needs bytes.
func c03GenManifest(t *rapid.T, env *c03Env) (string, []c03FileSpec, []*c03Block) {
	var sb strings.Builder
	var files []c03FileSpec
	var blocks []*c03Block
	nstreams := c03UR(t, "nStreams", 1, 2)
	for si := 0; si < nstreams; si++ {
		dir := "."
		if si > 0 {
			dir = fmt.Sprintf("./d%d", si)
		}
		sb.WriteString(dir)
		var data []byte
		bounds := []int{0}
		nblocks := c03UR(t, fmt.Sprintf("s%dBlocks", si), 1, 3)
		for bi := 0; bi < nblocks; bi++ {
			b := c03GenBlock(t, env, fmt.Sprintf("s%db%d", si, bi), false, 0)
			blocks = append(blocks, b)
			sb.WriteString(" " + b.loc)
			data = append(data, b.content...)
			bounds = append(bounds, len(data))
		}
		total := len(data)
		pick := func(label string, lo int) int {
			var v int
			switch c03U(t, label+"Kind", 3) {
			case 0:
				v = bounds[c03U(t, label+"B", len(bounds))]
			case 1:
				v = bounds[c03U(t, label+"B", len(bounds))] + rapid.IntRange(-2, 2).Draw(t, label+"D")
			default:
				v = rapid.IntRange(0, total).Draw(t, label)
			}
			if v < lo {
				v = lo
			}
			if v > total {
				v = total
			}
			return v
		}
		ntok := c03UR(t, fmt.Sprintf("s%dTokens", si), 1, 3)
		idx := map[string]int{}
		prev := ""
		for ti := 0; ti < ntok; ti++ {
			pos := pick(fmt.Sprintf("s%dt%dPos", si, ti), 0)
			end := pick(fmt.Sprintf("s%dt%dEnd", si, ti), pos)
			name := fmt.Sprintf("f%d", ti)
			if prev != "" && c03U(t, fmt.Sprintf("s%dt%dSame", si, ti), 4) == 0 {
				name = prev
			}
			prev = name
			fmt.Fprintf(&sb, " %d:%d:%s", pos, end-pos, name)
			path := strings.TrimPrefix(dir+"/"+name, "./")
			if i, ok := idx[path]; ok {
				files[i].content = append(files[i].content, data[pos:end]...)
				files[i].tokens++
			} else {
				idx[path] = len(files)
				files = append(files, c03FileSpec{path: path, content: append([]byte(nil), data[pos:end]...), tokens: 1})
			}
		}
		sb.WriteString("\n")
	}
	return sb.String(), files, blocks
}

func TestVerifC03File(t *testing.T) {
	defer stats.Flush()
	defer c03ReportStray()
	rapid.Check(t, func(t *rapid.T) {
		env := c03Setup(t)
		defer env.finish(t)
		mtext, files, mblocks := c03GenManifest(t, env)
		gwFor := func(delta []c03Req) bool {
			for _, r := range delta {
				for _, b := range mblocks {
					if b.loc == r.Path {
						return b.usesGW
					}
				}
			}
			return false
		}
		c03GenScripts(t, env, 45)
		file := files[c03U(t, "file", len(files))]
		F := file.content
		var hist []string
		fail := func(format string, args ...interface{}) {
			t.Fatalf("%s\nmanifest %q file %q (%d bytes) retries=%d\nhistory:\n  %s\n scripts now: %s", fmt.Sprintf(format, args...), mtext, file.path, len(F), env.retries, strings.Join(hist, "\n  "), env.scriptString())
		}
		useMFR := rapid.Bool().Draw(t, "leadingSlash")
		name := file.path
		if useMFR {
			name = "/" + name
		}
		f, err := env.kc.CollectionFileReader(map[string]interface{}{"manifest_text": mtext}, name)
		if err != nil {
			fail("VERIF-INFRA: cannot open generated file: %v", err)
		}
		defer f.Close()
		labels := map[string]bool{fmt.Sprintf("retries:%d", env.retries): true}
		if st, err := f.Stat(); err != nil || st.Size() != int64(len(F)) {
			fail("Stat size = %v, %v; the manifest says %d", st, err, len(F))
		}
		pos := 0
		var all []c03Req
		anyErr := false
		doRead := func(bs int) (stop bool) {
			before := env.f.logLen()
			p := make([]byte, bs)
			n, err := f.Read(p)
			delta := env.f.logFrom(before)
			all = append(all, delta...)
			c03BehLabels(delta, labels)
			hist = append(hist, fmt.Sprintf("Read(%d) at %d = %d, %v [requests: %s]", bs, pos, n, err, c03LogString(delta)))
			success := err == nil || err == io.EOF
			if success {
				if (pos >= len(F) && n > 0) || (pos < len(F) && (pos+n > len(F) || !bytes.Equal(p[:n], F[pos:pos+n]))) {
					fail("File.Read returned %d bytes at position %d that are not the file content there (first difference at +%d)", n, pos, c03FirstDiff(p[:n], F[c03min(pos, len(F)):c03min(pos+n, len(F))]))
				}
				if err == io.EOF && pos+n < len(F) {
					fail("File.Read returned io.EOF at position %d of a %d-byte file", pos+n, len(F))
				}
				if len(delta) == 0 && n > 0 {
					labels["read-from-cache"] = true
				}
				if n > 0 && n < bs && pos+n < len(F) {
					labels["short-read-at-segment-end"] = true
				}
			} else {
				anyErr = true
				labels["read-error"] = true
			}
			if pos >= len(F) && success && len(delta) == 0 {
				// nothing to fetch
			} else if msg := env.judge(env.svcsFor(gwFor(delta)), true, delta, success, true); msg != "" {
				fail("%s", msg)
			}
			if success {
				pos += n
				return err == io.EOF || (n == 0 && bs > 0)
			}
			return false
		}
		genBS := func(label string) int {
			switch c03U(t, label+"Class", 5) {
			case 0:
				return 1
			case 1:
				return rapid.IntRange(1, 40).Draw(t, label)
			case 2:
				return len(F) + rapid.IntRange(0, 10).Draw(t, label)
			case 3:
				return 70000
			}
			return rapid.IntRange(1, 1000).Draw(t, label)
		}
		nops := c03UR(t, "nOps", 1, 8)
		for i := 0; i < nops; i++ {
			lbl := fmt.Sprintf("op%d", i)
			switch c03U(t, lbl, 10) {
			case 0, 1, 2:
				var off int64
				whence := []int{io.SeekStart, io.SeekStart, io.SeekCurrent, io.SeekEnd}[c03U(t, lbl+"Whence", 4)]
				target := rapid.IntRange(0, len(F)+2).Draw(t, lbl+"Target")
				switch whence {
				case io.SeekStart:
					off = int64(target)
				case io.SeekCurrent:
					off = int64(target - pos)
				case io.SeekEnd:
					off = int64(target - len(F))
				}
				np, err := f.Seek(off, whence)
				hist = append(hist, fmt.Sprintf("Seek(%d, %d) = %d, %v", off, whence, np, err))
				if err != nil || np != int64(target) {
					fail("Seek to %d returned %d, %v", target, np, err)
				}
				pos = target
				labels["seek"] = true
			case 3:
				env.f.setAll(c03Beh{Kind: kOK})
				hist = append(hist, "-- all services answer correctly from now on")
			default:
				doRead(genBS(lbl + "Size"))
			}
		}
		// finally: heal, rewind, read the whole file; it must come out complete
		env.f.setAll(c03Beh{Kind: kOK})
		hist = append(hist, "-- all services answer correctly from now on (final)")
		if _, err := f.Seek(0, io.SeekStart); err != nil {
			fail("Seek(0) failed: %v", err)
		}
		pos = 0
		bs := genBS("finalSize")
		for i := 0; ; i++ {
			errsBefore := anyErr
			anyErr = false
			stop := doRead(bs)
			if anyErr {
				fail("read failed although every service answers correctly")
			}
			anyErr = errsBefore
			if stop {
				break
			}
			if i > len(F)+10 {
				fail("File.Read makes no progress")
			}
			if len(F) > 5000 && bs < 4096 {
				bs = 4096
			}
		}
		if pos != len(F) {
			fail("reading to EOF delivered %d bytes, the file has %d", pos, len(F))
		}
		nt := false
		for _, r := range all {
			if r.Class != clsOK && r.Class != clsOKNoLen {
				nt = true
			}
		}
		if file.tokens > 1 {
			labels["file-of-several-tokens"] = true
		}
		if anyErr {
			labels["recovered-after-read-error"] = true
		}
		stats.Case(stats.FP("file", mtext, file.path, strings.Join(hist, ";")), nt, c03Labels(labels)...)
		if anyErr && stats.WantSample("file/recovered-after-read-error") {
			stats.Sample("file/recovered-after-read-error", map[string]interface{}{"manifest": mtext, "file": file.path, "history": hist})
		}
	})
}

// ---------------------------------------------------------------- property 4: concurrent readers of one block

type c03ConcResult struct {
	kind string
	off  int
	plen int
	n    int
	data []byte
	err  error
}

func TestVerifC03Concurrent(t *testing.T) {
	defer stats.Flush()
	defer c03ReportStray()
	rapid.Check(t, func(t *rapid.T) {
		env := c03Setup(t)
		defer env.finish(t)
		var blk *c03Block
		for i := 0; ; i++ {
			blk = c03GenBlock(t, env, fmt.Sprintf("blk%d", i), true, 0)
			if len(blk.content) > 0 {
				break
			}
		}
		content := blk.content
		c03GenScripts(t, env, 40)
		script := env.scriptString()
		mtext := fmt.Sprintf(". %s 0:%d:f\n", blk.loc, len(content))
		nreaders := c03UR(t, "nReaders", 2, 8)
		type plan struct {
			kind      string
			off, plen []int
			bs        int
		}
		plans := make([]plan, nreaders)
		for i := range plans {
			p := &plans[i]
			p.kind = []string{"readat", "readat", "file"}[c03U(t, fmt.Sprintf("r%dKind", i), 3)]
			if p.kind == "readat" {
				k := c03UR(t, fmt.Sprintf("r%dCount", i), 1, 3)
				for j := 0; j < k; j++ {
					off := rapid.IntRange(0, len(content)).Draw(t, fmt.Sprintf("r%dOff%d", i, j))
					p.off = append(p.off, off)
					p.plen = append(p.plen, rapid.IntRange(0, len(content)-off+2).Draw(t, fmt.Sprintf("r%dLen%d", i, j)))
				}
			} else {
				p.bs = []int{1 << 20, 70000, 4096}[c03U(t, fmt.Sprintf("r%dBuf", i), 3)]
			}
		}
		results := make([][]c03ConcResult, nreaders)
		var wg sync.WaitGroup
		start := make(chan struct{})
		for i := range plans {
			wg.Add(1)
			go func(i int) {
				defer wg.Done()
				p := plans[i]
				<-start
				if p.kind == "readat" {
					for j := range p.off {
						buf := make([]byte, p.plen[j])
						n, err := env.kc.ReadAt(blk.loc, buf, p.off[j])
						results[i] = append(results[i], c03ConcResult{kind: "readat", off: p.off[j], plen: p.plen[j], n: n, data: buf, err: err})
					}
					return
				}
				f, err := env.kc.CollectionFileReader(map[string]interface{}{"manifest_text": mtext}, "f")
				if err != nil {
					results[i] = append(results[i], c03ConcResult{kind: "open", err: err})
					return
				}
				defer f.Close()
				var got []byte
				buf := make([]byte, p.bs)
				for k := 0; k < len(content)+10; k++ {
					n, err := f.Read(buf)
					got = append(got, buf[:n]...)
					if err != nil {
						if err == io.EOF {
							err = nil
						}
						results[i] = append(results[i], c03ConcResult{kind: "file", n: len(got), data: got, err: err})
						return
					}
				}
				results[i] = append(results[i], c03ConcResult{kind: "file", n: len(got), data: got, err: fmt.Errorf("harness: no EOF")})
			}(i)
		}
		close(start)
		wg.Wait()
		delta := env.f.logFrom(0)
		var rs []string
		nOK, nErr := 0, 0
		for i, rr := range results {
			for _, r := range rr {
				rs = append(rs, fmt.Sprintf("reader%d %s off=%d len=%d -> n=%d err=%v", i, r.kind, r.off, r.plen, r.n, r.err))
				if r.err == nil {
					nOK++
				} else {
					nErr++
				}
			}
		}
		desc := fmt.Sprintf("locator=%s len=%d retries=%d\n script: %s\n requests: %s\n results:\n  %s", blk.loc, len(content), env.retries, script, c03LogString(delta), strings.Join(rs, "\n  "))
		acceptable, faulty := 0, 0
		for _, r := range delta {
			if r.Class == clsOK || r.Class == clsOKNoLen {
				acceptable++
			} else {
				faulty++
			}
		}
		for i, rr := range results {
			for _, r := range rr {
				if r.kind == "open" {
					t.Fatalf("VERIF-INFRA: reader %d cannot open the generated collection: %v", i, r.err)
				}
				if r.err != nil {
					if faulty == 0 {
						t.Fatalf("reader %d failed although every answer given by the services was correct\n%s", i, desc)
					}
					continue
				}
				if acceptable == 0 {
					t.Fatalf("reader %d succeeded although no service ever gave a correct answer\n%s", i, desc)
				}
				switch r.kind {
				case "readat":
					want := len(content) - r.off
					if want > r.plen {
						want = r.plen
					}
					if r.n != want || !bytes.Equal(r.data[:r.n], content[r.off:r.off+r.n]) {
						t.Fatalf("reader %d: ReadAt returned n=%d (expected %d) / bytes differing from the content at +%d\n%s", i, r.n, want, c03FirstDiff(r.data[:c03min(r.n, len(r.data))], content[r.off:c03min(len(content), r.off+r.n)]), desc)
					}
				case "file":
					if !bytes.Equal(r.data, content) {
						t.Fatalf("reader %d: file read to EOF delivered %d bytes differing from the %d-byte content at %d\n%s", i, len(r.data), len(content), c03FirstDiff(r.data, content), desc)
					}
				}
			}
		}
		// afterwards, with healthy services, the shared cache must serve / refetch the right bytes
		env.f.setAll(c03Beh{Kind: kOK})
		labels := map[string]bool{fmt.Sprintf("readers:%d", nreaders): true, fmt.Sprintf("retries:%d", env.retries): true, c03SizeLabel(len(content)): true}
		var hist []string
		hist = append(hist, "(after concurrent phase) "+desc)
		ok, _ := c03CheckReadAt(t, env, blk, 0, len(content), &hist, labels)
		if !ok {
			t.Fatalf("block unreadable after the concurrent phase although every service now answers correctly\n%s", strings.Join(hist, "\n"))
		}
		c03BehLabels(delta, labels)
		if nOK > 0 && nErr > 0 {
			labels["mixed-outcomes"] = true
		} else if nOK > 0 {
			labels["all-readers-succeeded"] = true
		} else {
			labels["all-readers-failed"] = true
		}
		if len(delta) > 1 {
			labels["several-fetches"] = true
		}
		if len(delta) == 1 && nOK > 1 {
			labels["one-fetch-shared-by-readers"] = true
		}
		stats.Case(stats.FP("conc", blk.loc, script, strings.Join(rs, ";")), faulty > 0, c03Labels(labels)...)
		if labels["mixed-outcomes"] && stats.WantSample("conc/mixed-outcomes") {
			stats.Sample("conc/mixed-outcomes", map[string]interface{}{"locator": blk.loc, "requests": c03LogString(delta), "results": rs})
		}
	})
}
