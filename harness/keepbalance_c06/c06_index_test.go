package main

// C06 part 2 (reader side): an index response cut short at ANY byte is reported
// as an error by arvados.KeepService.Index, .IndexMount and
// keepclient.KeepClient.GetIndex. Served over real loopback HTTP so that
// Content-Length lies / aborted connections have genuine net/http semantics.
// (The readers are exported API; they are exercised from this binary, which
// links sdk/go/arvados and sdk/go/keepclient, to avoid two more test binaries.)

import (
	"context"
	"crypto/md5"
	"fmt"
	"io/ioutil"
	"net"
	"net/http"
	"net/http/httptest"
	"net/url"
	"strconv"
	"strings"
	"sync"
	"testing"

	"git.arvados.org/arvados.git/sdk/go/arvados"
	"git.arvados.org/arvados.git/sdk/go/arvadosclient"
	"git.arvados.org/arvados.git/sdk/go/keepclient"
	"pgregory.net/rapid"
	"verif.local/vcommon/stats"
)

const (
	c06ModeSilentCL   = iota // Content-Length = number of bytes actually sent
	c06ModeHonestCL          // Content-Length = full length, connection closed after the cut
	c06ModeChunkedCut        // chunked transfer, aborted without the terminating chunk
	c06ModeEOFDelim          // no length at all: body ends when the connection closes
	c06NModes
)

var c06ModeNames = []string{"content_length_truncated", "content_length_honest", "chunked_aborted", "eof_delimited"}

type c06IndexServer struct {
	mu     sync.Mutex
	body   []byte
	cut    int
	mode   int
	status int // round 3: != 0 => answer with this status and the whole body
	paths  []string
	srv    *httptest.Server
}

func (s *c06IndexServer) ServeHTTP(w http.ResponseWriter, r *http.Request) {
	s.mu.Lock()
	body, cut, mode, status := s.body, s.cut, s.mode, s.status
	s.paths = append(s.paths, r.URL.Path)
	s.mu.Unlock()
	w.Header().Set("Content-Type", "text/plain")
	if status != 0 {
		// (no Location header with 301: the client has nowhere to go and must
		// judge the response itself; net/http drops the body of a 204)
		w.Header().Set("Content-Length", strconv.Itoa(len(body)))
		if status == 204 {
			w.Header().Del("Content-Length")
		}
		w.WriteHeader(status)
		w.Write(body)
		return
	}
	switch mode {
	case c06ModeSilentCL:
		w.Header().Set("Content-Length", strconv.Itoa(cut))
		w.Write(body[:cut])
	case c06ModeHonestCL:
		w.Header().Set("Content-Length", strconv.Itoa(len(body)))
		w.WriteHeader(200)
		w.Write(body[:cut])
		if cut < len(body) {
			// short write: net/http closes the connection, the client
			// sees an unexpected EOF
			panic(http.ErrAbortHandler)
		}
	case c06ModeChunkedCut:
		w.WriteHeader(200)
		w.Write(body[:cut])
		w.(http.Flusher).Flush()
		if cut < len(body) {
			panic(http.ErrAbortHandler)
		}
	case c06ModeEOFDelim:
		conn, buf, err := w.(http.Hijacker).Hijack()
		if err != nil {
			panic(err)
		}
		buf.WriteString("HTTP/1.1 200 OK\r\nContent-Type: text/plain\r\nConnection: close\r\n\r\n")
		buf.Write(body[:cut])
		buf.Flush()
		conn.Close()
	}
}

func (s *c06IndexServer) set(body []byte, cut, mode int) {
	s.mu.Lock()
	s.body, s.cut, s.mode, s.status = body, cut, mode, 0
	s.mu.Unlock()
}

func (s *c06IndexServer) setStatus(status int, body []byte) {
	s.mu.Lock()
	s.body, s.cut, s.mode, s.status = body, len(body), c06ModeSilentCL, status
	s.mu.Unlock()
}

type c06Reader struct {
	name string
	read func() (int, error)
}

func c06Readers(t *testing.T, s *c06IndexServer) []c06Reader {
	u, err := url.Parse(s.srv.URL)
	if err != nil {
		t.Fatal(err)
	}
	host, portS, _ := net.SplitHostPort(u.Host)
	port, _ := strconv.Atoi(portS)
	ks := &arvados.KeepService{UUID: "zzzzz-bi6l4-c06c06c06c06c06", ServiceHost: host, ServicePort: port, ServiceType: "disk"}
	ac := &arvados.Client{APIHost: "unused.invalid", AuthToken: "xyzzy"}
	kc := &keepclient.KeepClient{Arvados: &arvadosclient.ArvadosClient{ApiToken: "xyzzy"}, Want_replicas: 1,
		// same logic as the default client, minus its wall-clock timeouts (2 s connect / 20 s request)
		HTTPClient: &http.Client{Transport: &http.Transport{}}}
	kc.SetServiceRoots(map[string]string{ks.UUID: s.srv.URL}, nil, nil)
	return []c06Reader{
		{"arvados.KeepService.IndexMount", func() (int, error) {
			ents, err := ks.IndexMount(context.Background(), ac, "zzzzz-ivpuk-c06c06c06c06c06", "")
			return len(ents), err
		}},
		{"arvados.KeepService.Index", func() (int, error) {
			ents, err := ks.Index(context.Background(), ac, "")
			return len(ents), err
		}},
		{"keepclient.KeepClient.GetIndex", func() (int, error) {
			rdr, err := kc.GetIndex(ks.UUID, "")
			if err != nil {
				return 0, err
			}
			buf, err := ioutil.ReadAll(rdr)
			if err != nil {
				return 0, err
			}
			return strings.Count(string(buf), "\n"), nil
		}},
	}
}

func c06DrawIndexBody(t *rapid.T) (string, int) {
	n := rapid.IntRange(0, 6).Draw(t, "entries")
	seed := rapid.IntRange(0, 1<<20).Draw(t, "seed")
	var sb strings.Builder
	for i := 0; i < n; i++ {
		h := md5.Sum([]byte(fmt.Sprintf("c06-idx-%d-%d", seed, i)))
		size := rapid.SampledFrom([]int{0, 1, 3, 44, 65536, 67108864}).Draw(t, "size")
		var mtime int64
		switch rapid.IntRange(0, 2).Draw(t, "mtimeClass") {
		case 0: // old keepstore: whole seconds
			mtime = int64(1443559274 + rapid.IntRange(0, 1000).Draw(t, "sec"))
		case 1:
			mtime = int64(1443559274)*1e9 + int64(rapid.IntRange(0, 999999999).Draw(t, "ns"))
		default:
			mtime = int64(1443559274) * 1e9
		}
		fmt.Fprintf(&sb, "%x+%d %d\n", h, size, mtime)
	}
	sb.WriteString("\n")
	return sb.String(), n
}

func TestVerifC06IndexTruncation(t *testing.T) {
	defer stats.Flush()
	s := &c06IndexServer{}
	s.srv = httptest.NewServer(s)
	defer s.srv.Close()
	readers := c06Readers(t, s)
	rapid.Check(t, func(t *rapid.T) {
		body, n := c06DrawIndexBody(t)
		cuts, calls := 0, 0
		for cut := 0; cut <= len(body); cut++ {
			for mode := 0; mode < c06NModes; mode++ {
				if mode >= c06ModeChunkedCut && len(body) > 120 && !c06InterestingCut(body, cut) {
					// the two Content-Length modes cover every cut of every
					// body; the other two transports cover every cut of short
					// bodies and the structurally interesting cuts of long ones
					continue
				}
				s.set([]byte(body), cut, mode)
				for _, rd := range readers {
					got, err := rd.read()
					calls++
					if cut < len(body) {
						if err == nil {
							t.Fatalf("%s accepted an index response cut short at byte %d of %d (%s): returned %d entries, no error\nfull body %q\nserved   %q",
								rd.name, cut, len(body), c06ModeNames[mode], got, body, body[:cut])
						}
					} else if err != nil || got != n {
						t.Fatalf("VERIF-INFRA: %s did not accept the complete well-formed index (%s): entries=%d want %d err=%v\nbody %q", rd.name, c06ModeNames[mode], got, n, err, body)
					}
				}
			}
			cuts++
		}
		// malformed complete responses (arvados reader only: the anchor for
		// GetIndex checks the terminator only)
		var bad []string
		lines := strings.SplitAfter(strings.TrimSuffix(body, "\n"), "\n")
		if n > 0 {
			k := rapid.IntRange(0, n-1).Draw(t, "badLine")
			mk := func(repl string) string {
				cp := append([]string(nil), lines[:n]...)
				cp[k] = repl
				return strings.Join(cp, "") + "\n"
			}
			orig := strings.TrimSuffix(lines[k], "\n")
			f := strings.Split(orig, " ")
			bad = append(bad,
				mk("\n"+lines[k]),                         // interior blank line before entry k
				mk(orig+" extra\n"),                       // three fields
				mk(f[0]+"\n"),                             // one field
				mk(f[0]+" 12345x\n"),                      // non-numeric mtime
				mk(f[0]+"  "+f[1]+"\n"),                   // double space = three fields
				strings.Join(lines[:n], "")+"\n"+lines[k], // data after the terminator
			)
		} else {
			bad = append(bad, "\n\n", "\nx 1\n", "x\n\n")
		}
		for i, b := range bad {
			s.set([]byte(b), len(b), c06ModeSilentCL)
			for _, rd := range readers[:2] {
				if _, err := rd.read(); err == nil {
					t.Fatalf("%s accepted a malformed index response (variant %d): %q", rd.name, i, b)
				}
				calls++
			}
		}
		// Round 3: a non-200 status with an empty or plausible body is a failed
		// fetch for every reader, whatever the body looks like.
		statusCalls := 0
		for _, status := range c06IndexStatuses {
			for bc, b := range []string{"", body, "\n", http.StatusText(status) + "\n"} {
				if status == 204 && b != "" {
					continue
				}
				s.setStatus(status, []byte(b))
				for _, rd := range readers {
					got, err := rd.read()
					calls++
					statusCalls++
					if err == nil {
						t.Fatalf("%s accepted an index response with HTTP status %d (%s): returned %d entries, no error\nbody served %q",
							rd.name, status, c06BodyNames[bc], got, b)
					}
				}
			}
		}
		// harness self-check: the server is back to normal afterwards
		s.set([]byte(body), len(body), c06ModeSilentCL)
		if got, err := readers[0].read(); err != nil || got != n {
			t.Fatalf("VERIF-INFRA: %s failed on the complete index after the status round: %d entries, %v", readers[0].name, got, err)
		}
		stats.InfoAdd("index_status_reader_calls", int64(statusCalls))
		labels := []string{"index_body", fmt.Sprintf("index_entries=%d", n), "index_readers_given_every_non200_status"}
		if strings.Contains(body, " 14435") && n > 0 {
			labels = append(labels, "index_has_mtime")
		}
		stats.Case(stats.FP("idx", body), n > 0, labels...)
		stats.InfoAdd("index_cut_points", int64(cuts))
		stats.InfoAdd("index_reader_calls", int64(calls))
		if stats.WantSample("index_body") {
			stats.Sample("index_body", map[string]interface{}{"body": body, "cut_points": cuts, "modes": c06ModeNames, "readers": []string{readers[0].name, readers[1].name, readers[2].name}})
		}
	})
}

// c06InterestingCut: first/last bytes and everything within one byte of a
// line boundary or of the hash/mtime separator.
func c06InterestingCut(body string, cut int) bool {
	if cut <= 1 || cut >= len(body)-3 {
		return true
	}
	for d := -1; d <= 1; d++ {
		if i := cut + d; i >= 0 && i < len(body) && (body[i] == '\n' || body[i] == ' ') {
			return true
		}
	}
	return false
}
