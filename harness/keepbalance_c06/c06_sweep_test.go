package main

// C06 part 3: a failure of any collection-page / count / index / mounts /
// services / current-user / discovery request makes the real Balancer.Run
// return an error without any non-empty trash or pull list reaching a
// keepstore. Faults are enumerated exhaustively over the requests of a sweep.

import (
	"crypto/md5"
	"encoding/json"
	"errors"
	"fmt"
	"io"
	"io/ioutil"
	"net/http"
	"sort"
	"strings"
	"sync"
	"testing"
	"time"

	"git.arvados.org/arvados.git/sdk/go/arvados"
	"github.com/prometheus/client_golang/prometheus"
	"github.com/sirupsen/logrus"
	"pgregory.net/rapid"
	"verif.local/vcommon/stats"
)

const (
	c06APIHost   = "api.c06.invalid"
	c06OldMtime  = int64(1400000000) * 1e9 // 2014: far older than any signature TTL
	c06NewMtime  = int64(4102444800) * 1e9 // 2100: always newer than now - TTL
	c06TTLSecond = int64(1209600)
)

type c06Mount struct {
	UUID     string
	DeviceID string
	Blocks   map[string]int64 // "hash+size" -> mtime (ns)
}

type c06Keep struct {
	UUID   string
	Host   string // host:port
	Name   string
	Port   int
	Mounts []*c06Mount
}

type c06World struct {
	table       *c06Table
	keeps       []*c06Keep
	withProxy   bool
	svcPageCap  int // 0 = all services in one page
	defaultRepl int
	pageSize    int
	bufs        int
	desc        []string
}

const (
	c06F500 = iota
	c06FConn
	c06FTruncSilent
	c06FTruncHonest
	c06FTruncLast
	c06FMalformed
	c06FBlankLine // index responses only
	c06F500Body   // status 500 with the otherwise intact, well-formed body
	c06NFaults
)

var c06FaultNames = []string{"http500", "conn_error", "trunc_silent", "trunc_honest_length", "trunc_last_byte", "malformed", "interior_blank_line", "http500_with_intact_body"}

type c06Fault struct {
	key  string
	ord  int
	kind int
	frac int // cut position in per-mille of the cuttable length
	// kind == c06FStatus (round 3): the request is answered with this HTTP
	// status and a body of the given class
	status int
	body   int
}

// Round 3: a fetch answered with a specific non-200 status and an empty or
// plausible body, for ONE request of the sweep while everything else is healthy.
const c06FStatus = 100

var c06IndexStatuses = []int{204, 301, 400, 401, 403, 404, 410, 500, 502, 503}
var c06ErrStatuses = []int{400, 401, 403, 404, 410, 500, 502, 503}

const (
	c06BodyEmpty      = iota // no body at all
	c06BodyIntact            // the complete well-formed body a healthy server would send
	c06BodyEmptyIndex        // "\n": a well-formed index of an empty volume (JSON requests: "{}\n")
	c06BodyErrorText         // what a keepstore / API server sends with an error status
	c06NBodies
)

var c06BodyNames = []string{"empty_body", "intact_body", "wellformed_empty_answer", "error_text_body"}

func (f *c06Fault) name() string {
	if f.kind == c06FStatus {
		return fmt.Sprintf("http%d_%s", f.status, c06BodyNames[f.body])
	}
	return c06FaultNames[f.kind]
}

type c06ReqRec struct {
	Key  string
	Ord  int
	Sub  string // for collections: "count" or "page"
	Kind string // fetch class for the oracle, "" for PUT
}

type c06Put struct {
	Host string
	Path string
	N    int
}

type c06WorldTransport struct {
	w        *c06World
	mu       sync.Mutex
	counts   map[string]int
	log      []c06ReqRec
	fault    *c06Fault
	faultHit bool
	faultRec c06ReqRec
	puts     []c06Put
	infra    string
}

type c06TruncBody struct {
	data []byte
	off  int
}

func (b *c06TruncBody) Read(p []byte) (int, error) {
	if b.off >= len(b.data) {
		return 0, io.ErrUnexpectedEOF
	}
	n := copy(p, b.data[b.off:])
	b.off += n
	return n, nil
}
func (b *c06TruncBody) Close() error { return nil }

func (tr *c06WorldTransport) setInfra(s string) {
	tr.mu.Lock()
	if tr.infra == "" {
		tr.infra = s
	}
	tr.mu.Unlock()
}

func (tr *c06WorldTransport) RoundTrip(req *http.Request) (*http.Response, error) {
	var key, sub, kind string
	var body []byte
	isIndex := false
	status := 200
	host := req.URL.Host
	path := req.URL.Path
	var putBody []byte
	if req.Method == "PUT" {
		if req.Body != nil {
			putBody, _ = ioutil.ReadAll(req.Body)
			req.Body.Close()
		}
	}
	if host == c06APIHost {
		switch {
		case path == "/arvados/v1/keep_services":
			key, kind = "api keep_services", "services"
			q := req.URL.Query()
			off := 0
			fmt.Sscanf(q.Get("offset"), "%d", &off)
			var items []map[string]interface{}
			for _, k := range tr.w.keeps {
				items = append(items, map[string]interface{}{"uuid": k.UUID, "service_host": k.Name, "service_port": k.Port, "service_ssl_flag": false, "service_type": "disk"})
			}
			if tr.w.withProxy {
				items = append(items, map[string]interface{}{"uuid": "zzzzz-bi6l4-proxyproxyproxy", "service_host": "proxy.c06.invalid", "service_port": 443, "service_ssl_flag": true, "service_type": "proxy"})
			}
			total := len(items)
			if off > total {
				off = total
			}
			page := items[off:]
			if tr.w.svcPageCap > 0 && len(page) > tr.w.svcPageCap {
				page = page[:tr.w.svcPageCap]
			}
			body, _ = json.Marshal(map[string]interface{}{"items": page, "items_available": total, "offset": off})
			body = append(body, '\n')
		case path == "/arvados/v1/users/current":
			key, kind = "api users/current", "current_user"
			body = []byte(`{"uuid":"zzzzz-tpzed-000000000000000","is_admin":true,"is_active":true}` + "\n")
		case path == "/discovery/v1/apis/arvados/v1/rest":
			key, kind = "api discovery", "discovery"
			body = []byte(fmt.Sprintf(`{"defaultCollectionReplication":%d,"blobSignatureTtl":%d}`+"\n", tr.w.defaultRepl, c06TTLSecond))
		case path == "/arvados/v1/collections":
			key = "api collections"
			resp, isPage := tr.w.table.serveCollections(req)
			body, _ = ioutil.ReadAll(resp.Body)
			status = resp.StatusCode
			if isPage {
				sub, kind = "page", "collection_page"
			} else {
				sub, kind = "count", "collection_count"
			}
		default:
			tr.setInfra("unexpected API request " + req.Method + " " + path)
			return c06JSONError(404, "not found"), nil
		}
	} else {
		var ks *c06Keep
		for _, k := range tr.w.keeps {
			if k.Host == host {
				ks = k
			}
		}
		if ks == nil {
			tr.setInfra("request to unknown host " + host)
			return nil, errors.New("c06: no such host " + host)
		}
		switch {
		case req.Method == "GET" && path == "/mounts":
			key, kind = ks.Name+" mounts", "mounts"
			var ms []map[string]interface{}
			for _, m := range ks.Mounts {
				ms = append(ms, map[string]interface{}{"uuid": m.UUID, "device_id": m.DeviceID, "read_only": false, "replication": 1, "storage_classes": map[string]bool{"default": true}})
			}
			body, _ = json.Marshal(ms)
			body = append(body, '\n')
		case req.Method == "GET" && strings.HasPrefix(path, "/mounts/") && strings.HasSuffix(path, "/blocks"):
			mu := strings.TrimSuffix(strings.TrimPrefix(path, "/mounts/"), "/blocks")
			var mnt *c06Mount
			for _, m := range ks.Mounts {
				if m.UUID == mu {
					mnt = m
				}
			}
			if mnt == nil {
				tr.setInfra("index request for unknown mount " + path)
				return c06JSONError(404, "mount not found"), nil
			}
			key, kind = ks.Name+" index "+mu, "index"
			isIndex = true
			var locs []string
			for l := range mnt.Blocks {
				locs = append(locs, l)
			}
			sort.Strings(locs)
			var sb strings.Builder
			for _, l := range locs {
				fmt.Fprintf(&sb, "%s %d\n", l, mnt.Blocks[l])
			}
			sb.WriteString("\n")
			body = []byte(sb.String())
		case req.Method == "PUT" && (path == "/trash" || path == "/pull"):
			key = ks.Name + " PUT " + path
			var list []interface{}
			if err := json.Unmarshal(putBody, &list); err != nil {
				tr.setInfra(fmt.Sprintf("PUT %s body is not a JSON list: %q", path, putBody))
			}
			tr.mu.Lock()
			tr.puts = append(tr.puts, c06Put{ks.Name, path, len(list)})
			tr.mu.Unlock()
			body = []byte("{}\n")
		default:
			tr.setInfra("unexpected keepstore request " + req.Method + " " + path)
			return c06JSONError(404, "not found"), nil
		}
	}

	tr.mu.Lock()
	tr.counts[key]++
	rec := c06ReqRec{Key: key, Ord: tr.counts[key], Sub: sub, Kind: kind}
	tr.log = append(tr.log, rec)
	f := tr.fault
	hit := f != nil && f.key == key && f.ord == rec.Ord
	if hit {
		tr.faultHit = true
		tr.faultRec = rec
	}
	tr.mu.Unlock()

	mk := func(code int, b []byte) *http.Response {
		r := c06Response(code, b)
		r.Request = req
		if isIndex {
			r.Header = http.Header{"Content-Type": {"text/plain"}}
		}
		return r
	}
	if !hit {
		return mk(status, body), nil
	}
	cuttable := len(strings.TrimRight(string(body), "\n")) // JSON: cutting only the trailing newline is no fault
	if isIndex {
		cuttable = len(body)
	}
	cut := 0
	if cuttable > 0 {
		cut = f.frac * cuttable / 1000
		if cut >= cuttable {
			cut = cuttable - 1
		}
	}
	switch f.kind {
	case c06FStatus:
		var b []byte
		switch f.body {
		case c06BodyIntact:
			b = body
		case c06BodyEmptyIndex:
			b = []byte("\n")
			if !isIndex {
				b = []byte("{}\n")
			}
		case c06BodyErrorText:
			b = []byte(http.StatusText(f.status) + "\n")
			if !isIndex {
				b = []byte(fmt.Sprintf(`{"errors":[%q]}`+"\n", http.StatusText(f.status)))
			}
		}
		if f.status == 204 {
			b = nil // a 204 response cannot carry a body
		}
		return mk(f.status, b), nil
	case c06F500:
		return mk(500, []byte(`{"errors":["c06 injected failure"]}`+"\n")), nil
	case c06FConn:
		return nil, errors.New("c06: injected connection failure")
	case c06FTruncSilent:
		return mk(status, body[:cut]), nil
	case c06FTruncLast:
		if cuttable == 0 {
			return mk(status, nil), nil
		}
		return mk(status, body[:cuttable-1]), nil
	case c06FTruncHonest:
		r := mk(status, nil)
		r.Body = &c06TruncBody{data: body[:cut]}
		r.ContentLength = int64(len(body))
		return r, nil
	case c06FMalformed:
		if isIndex {
			return mk(status, append([]byte("37b51d194a7513e45b56f6524f2d51f2+3 12345678 extra\n"), body...)), nil
		}
		s := string(body)
		i := strings.IndexAny(s, ":,")
		if i < 0 {
			i = 0
		}
		return mk(status, []byte(s[:i]+";"+s[i+1:])), nil
	case c06FBlankLine:
		return mk(status, append([]byte("\n"), body...)), nil
	case c06F500Body:
		return mk(500, body), nil
	}
	return mk(status, body), nil
}

func (tr *c06WorldTransport) nonEmptyPuts() []c06Put {
	tr.mu.Lock()
	defer tr.mu.Unlock()
	var out []c06Put
	for _, p := range tr.puts {
		if p.N > 0 {
			out = append(out, p)
		}
	}
	return out
}

func c06RunSweep(w *c06World, fault *c06Fault, safeState string) (RunOptions, error, *c06WorldTransport) {
	// the table's per-run state (request counter, log) starts afresh
	w.table.reqNo, w.table.pagedReq, w.table.reqLog, w.table.infra = 0, 0, nil, ""
	w.table.maxReq = 500 // a paging loop that never ends must not hang the harness
	tr := &c06WorldTransport{w: w, counts: map[string]int{}, fault: fault}
	client := &arvados.Client{APIHost: c06APIHost, AuthToken: "xyzzy", Client: &http.Client{Transport: tr}}
	cluster := &arvados.Cluster{}
	cluster.Collections.BalanceTimeout = arvados.Duration(time.Hour)
	cluster.Collections.BalanceCollectionBatch = w.pageSize
	cluster.Collections.BalanceCollectionBuffers = w.bufs
	logger := logrus.New()
	logger.Out = ioutil.Discard
	bal := &Balancer{Logger: logger, Metrics: newMetrics(prometheus.NewRegistry())}
	next, err := bal.Run(client, cluster, RunOptions{CommitPulls: true, CommitTrash: true, Logger: logger, SafeRendezvousState: safeState})
	return next, err, tr
}

func c06BlockLoc(i, seed int) string {
	data := fmt.Sprintf("c06-block-%d-%d", seed, i)
	return fmt.Sprintf("%x+%d", md5.Sum([]byte(data)), len(data))
}

func c06DrawWorld(t *rapid.T, wantCollections bool) *c06World {
	w := &c06World{table: c06NewTable()}
	nsrv := rapid.IntRange(2, 4).Draw(t, "nsrv")
	var mounts []*c06Mount
	for i := 0; i < nsrv; i++ {
		k := &c06Keep{
			UUID: fmt.Sprintf("zzzzz-bi6l4-%015d", i),
			Name: fmt.Sprintf("keep%d.c06.invalid", i),
			Port: 25107,
		}
		k.Host = fmt.Sprintf("%s:%d", k.Name, k.Port)
		nm := rapid.IntRange(1, 2).Draw(t, "nmounts")
		for j := 0; j < nm; j++ {
			m := &c06Mount{UUID: fmt.Sprintf("zzzzz-ivpuk-%d%014d", i, j), DeviceID: fmt.Sprintf("dev-%d-%d", i, j), Blocks: map[string]int64{}}
			k.Mounts = append(k.Mounts, m)
			mounts = append(mounts, m)
		}
		w.keeps = append(w.keeps, k)
	}
	w.withProxy = rapid.Bool().Draw(t, "withProxy")
	w.svcPageCap = rapid.SampledFrom([]int{0, 0, 1, 2}).Draw(t, "svcPageCap")
	w.defaultRepl = rapid.IntRange(1, 2).Draw(t, "defaultRepl")
	w.pageSize = rapid.SampledFrom([]int{0, 1, 2, 3, 50}).Draw(t, "pageSize")
	w.bufs = rapid.SampledFrom([]int{0, 1, 4}).Draw(t, "bufs")
	seed := rapid.IntRange(0, 1<<20).Draw(t, "blockSeed")

	ncoll := 0
	if wantCollections {
		ncoll = rapid.IntRange(1, 6).Draw(t, "ncoll")
	}
	nblk := rapid.IntRange(3, 8).Draw(t, "nblk")
	refs := make([][]string, ncoll) // per collection: locators
	repl := make([]*int, ncoll)
	for c := 0; c < ncoll; c++ {
		switch rapid.IntRange(0, 2).Draw(t, "replClass") {
		case 0:
		case 1:
			v := 1
			repl[c] = &v
		default:
			v := 2
			repl[c] = &v
		}
	}
	if ncoll > 0 {
		// collection 0 wants two replicas: block 1 below is stored once -> pull
		v := 2
		repl[0] = &v
	}
	for b := 0; b < nblk; b++ {
		loc := c06BlockLoc(b, seed)
		var on []int
		referenced := false
		mtime := c06OldMtime + int64(b)*1e9
		switch {
		case b == 0: // unreferenced and old, stored -> trash
			on = []int{rapid.IntRange(0, len(mounts)-1).Draw(t, "b0mount")}
		case b == 1 && ncoll > 0: // referenced x2, stored once -> pull
			on = []int{rapid.IntRange(0, len(mounts)-1).Draw(t, "b1mount")}
			refs[0] = append(refs[0], loc)
			referenced = true
		default:
			for m := range mounts {
				if rapid.IntRange(0, 2).Draw(t, "place") == 0 {
					on = append(on, m)
				}
			}
			for c := 0; c < ncoll; c++ {
				if rapid.IntRange(0, 2).Draw(t, "ref") == 0 {
					refs[c] = append(refs[c], loc)
					referenced = true
				}
			}
			if rapid.IntRange(0, 3).Draw(t, "fresh") == 0 {
				mtime = c06NewMtime
			}
		}
		for _, m := range on {
			mounts[m].Blocks[loc] = mtime + int64(m) // replicas need not share one mtime
		}
		w.desc = append(w.desc, fmt.Sprintf("block %s on=%v referenced=%v mtime=%d", loc, on, referenced, mtime))
	}
	groups := rapid.IntRange(1, 3).Draw(t, "tgroups")
	for c := 0; c < ncoll; c++ {
		man := ""
		if len(refs[c]) > 0 {
			man = ". " + strings.Join(refs[c], " ") + " 0:1:f\n"
		}
		row := &c06Row{
			UUID:     c06UUID(rapid.IntRange(0, 1000).Draw(t, "cuuid"), c, false),
			Mtime:    int64(1609459200)*1e9 + int64(rapid.IntRange(0, groups-1).Draw(t, "cgroup"))*1000,
			Manifest: man,
			PDH:      arvados.PortableDataHash(man),
			Repl:     repl[c],
		}
		if c > 0 {
			fl := rapid.IntRange(0, 5).Draw(t, "cflags")
			row.Trashed = fl == 0
			row.OldVersion = fl == 1
		}
		w.table.insert(row)
		r := "default"
		if repl[c] != nil {
			r = fmt.Sprint(*repl[c])
		}
		w.desc = append(w.desc, fmt.Sprintf("collection %s mtime=%d repl=%s trashed=%v old=%v blocks=%v", row.UUID, row.Mtime, r, row.Trashed, row.OldVersion, refs[c]))
	}
	w.desc = append(w.desc, fmt.Sprintf("nsrv=%d mounts=%d proxy=%v svcPageCap=%d defaultRepl=%d pageSize=%d bufs=%d", nsrv, len(mounts), w.withProxy, w.svcPageCap, w.defaultRepl, w.pageSize, w.bufs))
	return w
}

func c06LogString(log []c06ReqRec) string {
	var b strings.Builder
	for i, r := range log {
		fmt.Fprintf(&b, "  %2d %s #%d %s\n", i, r.Key, r.Ord, r.Sub)
	}
	return b.String()
}

func TestVerifC06SweepAbort(t *testing.T) {
	defer stats.Flush()
	rapid.Check(t, func(t *rapid.T) {
		w := c06DrawWorld(t, true)
		useSafe := rapid.Bool().Draw(t, "safeRendezvousStateKnown")
		frac := rapid.IntRange(0, 999).Draw(t, "cutPermille")

		next, err, dry := c06RunSweep(w, nil, "")
		if dry.infra != "" || w.table.infra != "" {
			t.Fatalf("VERIF-INFRA: stub could not serve a request: %s %s\n%s", dry.infra, w.table.infra, strings.Join(w.desc, "\n"))
		}
		if err != nil {
			t.Fatalf("VERIF-INFRA: fault-free sweep failed (%v); generator promise broken\n%s\n%s", err, strings.Join(w.desc, "\n"), c06LogString(dry.log))
		}
		ne := dry.nonEmptyPuts()
		if len(ne) == 0 {
			// trivial scenario: a fault-free sweep asks for nothing
			stats.Case(stats.FP("trivial", strings.Join(w.desc, "|")), false, "sweep_discarded_trivial")
			return
		}
		safe := ""
		if useSafe {
			safe = next.SafeRendezvousState
			_, err, dry = c06RunSweep(w, nil, safe)
			if err != nil || len(dry.nonEmptyPuts()) == 0 {
				t.Fatalf("VERIF-INFRA: second fault-free sweep (SafeRendezvousState known) err=%v nonEmpty=%v", err, dry.nonEmptyPuts())
			}
		}
		// number the requests of the fault-free sweep
		targets := append([]c06ReqRec(nil), dry.log...)
		sort.SliceStable(targets, func(i, j int) bool {
			if targets[i].Key != targets[j].Key {
				return targets[i].Key < targets[j].Key
			}
			return targets[i].Ord < targets[j].Ord
		})
		labels := map[string]bool{}
		injected, asserted := 0, 0
		statusIdx, statusOther := 0, 0
		// Round 3: per index request every status of c06IndexStatuses with one
		// drawn body class, and 404 with every body class; per other fetch
		// request one drawn error status with a drawn body class.
		statusBody := make([]int, len(c06IndexStatuses))
		for i := range statusBody {
			statusBody[i] = int(rapid.Uint64().Draw(t, fmt.Sprintf("bodyClassFor%d", c06IndexStatuses[i])) >> 7 % c06NBodies)
		}
		otherPick := rapid.Uint64().Draw(t, "otherStatusPick") >> 5
		for ti, tg := range targets {
			var faults []*c06Fault
			for kind := 0; kind < c06NFaults; kind++ {
				if kind == c06FBlankLine && tg.Kind != "index" {
					continue
				}
				faults = append(faults, &c06Fault{key: tg.Key, ord: tg.Ord, kind: kind, frac: frac})
			}
			switch tg.Kind {
			case "index":
				for i, st := range c06IndexStatuses {
					faults = append(faults, &c06Fault{key: tg.Key, ord: tg.Ord, kind: c06FStatus, status: st, body: statusBody[i]})
					if st == 404 {
						for b := 0; b < c06NBodies; b++ {
							if b != statusBody[i] {
								faults = append(faults, &c06Fault{key: tg.Key, ord: tg.Ord, kind: c06FStatus, status: st, body: b})
							}
						}
					}
				}
			case "":
			default:
				x := otherPick + uint64(ti)*7
				faults = append(faults, &c06Fault{key: tg.Key, ord: tg.Ord, kind: c06FStatus,
					status: c06ErrStatuses[x%uint64(len(c06ErrStatuses))], body: int(x / 8 % c06NBodies)})
			}
			for _, f := range faults {
				kind := f.kind
				_, err, tr := c06RunSweep(w, f, safe)
				ctx := func() string {
					return fmt.Sprintf("fault %s at request %q #%d (%s %s)\nRun error: %v\nPUTs seen: %+v\nworld:\n  %s\nfault-free request list:\n%sfaulted run request list:\n%s",
						f.name(), tg.Key, tg.Ord, tg.Kind, tg.Sub, err, tr.puts, strings.Join(w.desc, "\n  "), c06LogString(dry.log), c06LogString(tr.log))
				}
				if tr.infra != "" {
					t.Fatalf("VERIF-INFRA: stub could not serve a request: %s\n%s", tr.infra, ctx())
				}
				if !tr.faultHit {
					t.Fatalf("VERIF-INFRA: the request chosen for fault injection did not occur in the faulted run\n%s", ctx())
				}
				injected++
				if tg.Kind == "" {
					labels["fault_on_put(not_asserted)"] = true
					continue
				}
				asserted++
				if kind == c06FStatus {
					if tg.Kind == "index" {
						labels[fmt.Sprintf("index_fetch_answered_with_status_%d", f.status)] = true
						labels["index_fetch_status_fault_"+c06BodyNames[f.body]] = true
						if f.status == 404 {
							labels["index_fetch_404_"+c06BodyNames[f.body]] = true
						}
						statusIdx++
					} else {
						labels[fmt.Sprintf("other_fetch_answered_with_status_%d", f.status)] = true
						statusOther++
					}
				} else {
					labels["fault_"+c06FaultNames[kind]] = true
				}
				labels["failed_"+tg.Kind] = true
				if err == nil {
					t.Fatalf("Balancer.Run returned nil although a %s request failed\n%s", tg.Kind, ctx())
				}
				if bad := tr.nonEmptyPuts(); len(bad) > 0 {
					t.Fatalf("a non-empty trash/pull list was sent although a %s request failed: %+v\n%s", tg.Kind, bad, ctx())
				}
			}
		}
		ls := []string{"sweep_scenario"}
		for l := range labels {
			ls = append(ls, l)
		}
		sort.Strings(ls)
		nTrash, nPull := 0, 0
		for _, p := range ne {
			if p.Path == "/trash" {
				nTrash++
			} else {
				nPull++
			}
		}
		if nTrash > 0 {
			ls = append(ls, "faultfree_sends_trash")
		}
		if nPull > 0 {
			ls = append(ls, "faultfree_sends_pull")
		}
		if useSafe {
			ls = append(ls, "no_clear_trash_lists")
		} else {
			ls = append(ls, "clears_trash_lists_first")
		}
		if w.table.ops["uuid>"] > 0 {
			ls = append(ls, "sweep_paging_exact_mode")
		}
		stats.Case(stats.FP("sweep", strings.Join(w.desc, "|"), useSafe, frac), true, ls...)
		stats.InfoAdd("sweep_faults_injected", int64(injected))
		stats.InfoAdd("sweep_faults_asserted", int64(asserted))
		stats.InfoAdd("sweep_requests_numbered", int64(len(targets)))
		stats.InfoAdd("sweep_index_status_faults_asserted", int64(statusIdx))
		stats.InfoAdd("sweep_other_fetch_status_faults_asserted", int64(statusOther))
		if stats.WantSample("sweep_scenario") {
			stats.Sample("sweep_scenario", map[string]interface{}{
				"world": w.desc, "requests": strings.Split(strings.TrimSpace(c06LogString(dry.log)), "\n"),
				"faultfree_nonempty_puts": fmt.Sprintf("%+v", ne), "faults_injected": injected,
			})
		}
	})
}

// TestVerifC06SweepZeroCollections: an empty collection scan is refused
// (CheckSanityLate), i.e. Run fails and no non-empty list is sent.
func TestVerifC06SweepZeroCollections(t *testing.T) {
	defer stats.Flush()
	rapid.Check(t, func(t *rapid.T) {
		w := c06DrawWorld(t, false)
		_, err, tr := c06RunSweep(w, nil, "")
		if tr.infra != "" || w.table.infra != "" {
			t.Fatalf("VERIF-INFRA: stub could not serve a request: %s %s", tr.infra, w.table.infra)
		}
		if err == nil {
			t.Fatalf("Balancer.Run returned nil although the collection scan returned zero collections\nworld:\n  %s\nPUTs: %+v", strings.Join(w.desc, "\n  "), tr.puts)
		}
		if bad := tr.nonEmptyPuts(); len(bad) > 0 {
			t.Fatalf("non-empty trash/pull list sent after an empty collection scan: %+v\nworld:\n  %s", bad, strings.Join(w.desc, "\n  "))
		}
		stats.Case(stats.FP("zero", strings.Join(w.desc, "|")), true, "sweep_zero_collections")
	})
}
