package main

// C06 shared machinery: a simulated "collections" table served through an
// in-process http.RoundTripper. It implements the part of the Arvados list API
// contract that keep-balance relies on (filters, order, limit, count,
// include_trash / include_old_versions, select) and shares no code with
// services/keep-balance/collection.go.

import (
	"encoding/json"
	"fmt"
	"io/ioutil"
	"net/http"
	"net/url"
	"sort"
	"strconv"
	"strings"
	"sync"
	"time"
)

// One fixed rendering for every timestamp the simulated API emits (UTC,
// nine fractional digits), as Rails renders one fixed precision.
const c06TimeFmt = "2006-01-02T15:04:05.000000000Z"

type c06Row struct {
	UUID       string
	Mtime      int64 // ns since the Unix epoch
	Manifest   string
	PDH        string
	Repl       *int
	Trashed    bool
	OldVersion bool
}

type c06Event struct {
	AtReq   int  // applied just before the AtReq-th request (1-based) is answered
	Kind    int  // 0 modify, 1 add, 2 delete
	Sel     int  // selects the target among the current rows (sorted by uuid), mod len
	SameNow bool // reuse the "now" of the previous event of the same batch
	Delta   int64
	NewUUID string // for adds
}

type c06Table struct {
	mu          sync.Mutex
	rows        map[string]*c06Row
	everExisted map[string]bool
	deleted     map[string]bool
	clock       int64 // always >= every Mtime in rows
	events      []c06Event
	nextEvent   int
	applied     int
	batchNow    int64
	lastBatch   int

	// hideFromPages names a row that the (deliberately misbehaving) server
	// leaves out of every page while still counting it. Only used by the
	// "lossy server" variant.
	hideFromPages string

	caps     []int // server-side page cap for the i-th paged request (cycled); 0 = no cap
	pagedReq int

	reqNo  int
	maxReq int // 0 = unlimited
	reqLog []string

	// observations for labels
	sawPost          bool
	sawGet           bool
	ops              map[string]int
	boundaryInTie    bool
	cappedBelowLimit bool
	exceeded         bool
	infra            string
	modifiedMidScan  int
	addedMidScan     int
	deletedMidScan   int
}

func c06NewTable() *c06Table {
	return &c06Table{
		rows:        map[string]*c06Row{},
		everExisted: map[string]bool{},
		deleted:     map[string]bool{},
		ops:         map[string]int{},
		lastBatch:   -1,
	}
}

func (tb *c06Table) insert(r *c06Row) {
	tb.rows[r.UUID] = r
	tb.everExisted[r.UUID] = true
	if r.Mtime > tb.clock {
		tb.clock = r.Mtime
	}
}

func (tb *c06Table) sortedUUIDs() []string {
	us := make([]string, 0, len(tb.rows))
	for u := range tb.rows {
		us = append(us, u)
	}
	sort.Strings(us)
	return us
}

// applyEvents applies every event scheduled at or before request number n.
func (tb *c06Table) applyEvents(n int) {
	for tb.nextEvent < len(tb.events) && tb.events[tb.nextEvent].AtReq <= n {
		ev := tb.events[tb.nextEvent]
		tb.nextEvent++
		// "now" is strictly greater than every existing modified_at, except
		// that events of one batch may share one "now" (SameNow).
		now := tb.batchNow
		if !(ev.SameNow && tb.lastBatch == ev.AtReq) {
			d := ev.Delta
			if d < 1 {
				d = 1
			}
			tb.clock += d
			now = tb.clock
		}
		tb.batchNow, tb.lastBatch = now, ev.AtReq
		us := tb.sortedUUIDs()
		switch ev.Kind {
		case 0:
			if len(us) == 0 {
				continue
			}
			r := tb.rows[us[ev.Sel%len(us)]]
			r.Mtime = now
			tb.modifiedMidScan++
		case 1:
			if tb.everExisted[ev.NewUUID] {
				continue
			}
			tb.insert(&c06Row{UUID: ev.NewUUID, Mtime: now, Manifest: ". d41d8cd98f00b204e9800998ecf8427e+0 0:0:added\n", PDH: "x"})
			tb.addedMidScan++
		case 2:
			if len(us) == 0 {
				continue
			}
			u := us[ev.Sel%len(us)]
			delete(tb.rows, u)
			tb.deleted[u] = true
			tb.deletedMidScan++
		}
		tb.applied++
	}
}

type c06Filter struct {
	attr, op string
	operand  interface{}
}

func c06Cmp(op string, c int) (bool, bool) {
	switch op {
	case "=":
		return c == 0, true
	case "!=":
		return c != 0, true
	case "<":
		return c < 0, true
	case "<=":
		return c <= 0, true
	case ">":
		return c > 0, true
	case ">=":
		return c >= 0, true
	}
	return false, false
}

func (tb *c06Table) match(r *c06Row, fs []c06Filter) (bool, error) {
	for _, f := range fs {
		switch f.attr {
		case "modified_at":
			if f.operand == nil {
				// no row of the simulated table has a null modified_at
				switch f.op {
				case "=":
					return false, nil
				case "!=":
					continue
				}
				return false, fmt.Errorf("unsupported null comparison %q", f.op)
			}
			s, ok := f.operand.(string)
			if !ok {
				return false, fmt.Errorf("modified_at operand %v is not a string", f.operand)
			}
			tm, err := time.Parse(time.RFC3339Nano, s)
			if err != nil {
				return false, fmt.Errorf("modified_at operand %q: %v", s, err)
			}
			want := time.Unix(0, r.Mtime).UTC()
			c := 0
			if want.Before(tm) {
				c = -1
			} else if want.After(tm) {
				c = 1
			}
			ok2, known := c06Cmp(f.op, c)
			if !known {
				return false, fmt.Errorf("unsupported operator %q", f.op)
			}
			if !ok2 {
				return false, nil
			}
		case "uuid":
			s, ok := f.operand.(string)
			if !ok {
				return false, fmt.Errorf("uuid operand %v is not a string", f.operand)
			}
			ok2, known := c06Cmp(f.op, strings.Compare(r.UUID, s))
			if !known {
				return false, fmt.Errorf("unsupported operator %q", f.op)
			}
			if !ok2 {
				return false, nil
			}
		default:
			return false, fmt.Errorf("unsupported filter attribute %q", f.attr)
		}
	}
	return true, nil
}

type c06OrderKey struct {
	attr string
	desc bool
}

func c06ParseOrder(s string) ([]c06OrderKey, error) {
	var keys []c06OrderKey
	if strings.TrimSpace(s) == "" {
		// Rails default for collections
		return []c06OrderKey{{"modified_at", true}, {"uuid", false}}, nil
	}
	for _, part := range strings.Split(s, ",") {
		fs := strings.Fields(part)
		if len(fs) == 0 || len(fs) > 2 {
			return nil, fmt.Errorf("bad order clause %q", part)
		}
		k := c06OrderKey{attr: fs[0]}
		if len(fs) == 2 {
			switch strings.ToLower(fs[1]) {
			case "asc":
			case "desc":
				k.desc = true
			default:
				return nil, fmt.Errorf("bad order direction %q", part)
			}
		}
		if k.attr != "modified_at" && k.attr != "uuid" {
			return nil, fmt.Errorf("unsupported order attribute %q", k.attr)
		}
		keys = append(keys, k)
	}
	return keys, nil
}

func c06JSONError(code int, msg string) *http.Response {
	body, _ := json.Marshal(map[string]interface{}{"errors": []string{msg}})
	return c06Response(code, body)
}

func c06Response(code int, body []byte) *http.Response {
	return &http.Response{
		StatusCode:    code,
		Status:        fmt.Sprintf("%d %s", code, http.StatusText(code)),
		Proto:         "HTTP/1.1",
		ProtoMajor:    1,
		ProtoMinor:    1,
		Header:        http.Header{"Content-Type": {"application/json"}},
		Body:          ioutil.NopCloser(strings.NewReader(string(body))),
		ContentLength: int64(len(body)),
	}
}

// c06Params extracts the list parameters the way the API server does: from
// the query string of a GET, or from the form-encoded body of a POST that
// carries X-Http-Method-Override: GET.
func c06Params(req *http.Request) (url.Values, string, error) {
	switch req.Method {
	case "GET":
		if req.Body != nil {
			ioutil.ReadAll(req.Body)
			req.Body.Close()
		}
		return req.URL.Query(), "GET", nil
	case "POST":
		if req.Header.Get("X-Http-Method-Override") != "GET" {
			return nil, "", fmt.Errorf("POST without X-Http-Method-Override: GET")
		}
		if ct := req.Header.Get("Content-Type"); !strings.HasPrefix(ct, "application/x-www-form-urlencoded") {
			return nil, "", fmt.Errorf("POST with content type %q", ct)
		}
		if req.Body == nil {
			return nil, "", fmt.Errorf("POST without body")
		}
		buf, err := ioutil.ReadAll(req.Body)
		req.Body.Close()
		if err != nil {
			return nil, "", err
		}
		v, err := url.ParseQuery(string(buf))
		if err != nil {
			return nil, "", err
		}
		for k, vs := range req.URL.Query() {
			for _, x := range vs {
				v.Add(k, x)
			}
		}
		return v, "POST", nil
	}
	return nil, "", fmt.Errorf("unsupported method %s", req.Method)
}

func c06Bool(v url.Values, k string) bool {
	s := v.Get(k)
	return s != "" && s != "false" && s != "0"
}

// serveCollections answers one list request. isPage reports whether it was a
// request for rows (limit != 0) as opposed to a pure count.
func (tb *c06Table) serveCollections(req *http.Request) (resp *http.Response, isPage bool) {
	tb.mu.Lock()
	defer tb.mu.Unlock()
	tb.reqNo++
	if tb.maxReq > 0 && tb.reqNo > tb.maxReq {
		tb.exceeded = true
		return c06JSONError(503, "c06: request budget exceeded"), false
	}
	tb.applyEvents(tb.reqNo)

	v, how, err := c06Params(req)
	if err != nil {
		tb.infra = err.Error()
		return c06JSONError(422, err.Error()), false
	}
	if how == "POST" {
		tb.sawPost = true
	} else {
		tb.sawGet = true
	}
	var fs []c06Filter
	if s := v.Get("filters"); s != "" {
		var raw [][]interface{}
		if err := json.Unmarshal([]byte(s), &raw); err != nil {
			tb.infra = "filters: " + err.Error()
			return c06JSONError(422, tb.infra), false
		}
		for _, f := range raw {
			if len(f) != 3 {
				tb.infra = fmt.Sprintf("filter %v: not 3 elements", f)
				return c06JSONError(422, tb.infra), false
			}
			a, ok1 := f[0].(string)
			o, ok2 := f[1].(string)
			if !ok1 || !ok2 {
				tb.infra = fmt.Sprintf("filter %v: attr/op not strings", f)
				return c06JSONError(422, tb.infra), false
			}
			fs = append(fs, c06Filter{a, o, f[2]})
			tb.ops[a+o]++
		}
	}
	order, err := c06ParseOrder(v.Get("order"))
	if err != nil {
		tb.infra = err.Error()
		return c06JSONError(422, err.Error()), false
	}
	limit := 100 // API default
	if s := v.Get("limit"); s != "" {
		limit, err = strconv.Atoi(s)
		if err != nil || limit < 0 {
			tb.infra = "bad limit " + s
			return c06JSONError(422, tb.infra), false
		}
	}
	offset := 0
	if s := v.Get("offset"); s != "" {
		offset, err = strconv.Atoi(s)
		if err != nil || offset < 0 {
			tb.infra = "bad offset " + s
			return c06JSONError(422, tb.infra), false
		}
	}
	count := v.Get("count")
	if count == "" {
		count = "exact"
	}
	if count != "exact" && count != "none" {
		tb.infra = "bad count " + count
		return c06JSONError(422, tb.infra), false
	}
	incTrash := c06Bool(v, "include_trash")
	incOld := c06Bool(v, "include_old_versions")
	var sel []string
	if s := v.Get("select"); s != "" {
		if err := json.Unmarshal([]byte(s), &sel); err != nil {
			tb.infra = "select: " + err.Error()
			return c06JSONError(422, tb.infra), false
		}
	}

	var hits []*c06Row
	for _, r := range tb.rows {
		if r.Trashed && !incTrash {
			continue
		}
		if r.OldVersion && !incOld {
			continue
		}
		ok, err := tb.match(r, fs)
		if err != nil {
			tb.infra = err.Error()
			return c06JSONError(422, err.Error()), false
		}
		if ok {
			hits = append(hits, r)
		}
	}
	nAvail := len(hits)
	if tb.hideFromPages != "" && limit > 0 {
		kept := hits[:0]
		for _, r := range hits {
			if r.UUID != tb.hideFromPages {
				kept = append(kept, r)
			}
		}
		hits = kept
	}
	sort.Slice(hits, func(i, j int) bool {
		a, b := hits[i], hits[j]
		for _, k := range order {
			c := 0
			switch k.attr {
			case "modified_at":
				if a.Mtime < b.Mtime {
					c = -1
				} else if a.Mtime > b.Mtime {
					c = 1
				}
			case "uuid":
				c = strings.Compare(a.UUID, b.UUID)
			}
			if k.desc {
				c = -c
			}
			if c != 0 {
				return c < 0
			}
		}
		return a.UUID < b.UUID // unspecified by the request; any stable choice
	})
	out := map[string]interface{}{"kind": "arvados#collectionList", "offset": offset}
	if count == "exact" {
		out["items_available"] = nAvail
	}
	eff := limit
	if limit > 0 {
		isPage = true
		if len(tb.caps) > 0 {
			c := tb.caps[tb.pagedReq%len(tb.caps)]
			if c > 0 && c < eff {
				eff = c
			}
		}
		tb.pagedReq++
	}
	if offset > len(hits) {
		offset = len(hits)
	}
	rest := hits[offset:]
	if eff < len(rest) {
		if eff < limit && limit > 0 {
			tb.cappedBelowLimit = true
		}
		if eff > 0 && rest[eff-1].Mtime == rest[eff].Mtime {
			tb.boundaryInTie = true
		}
		rest = rest[:eff]
	}
	out["limit"] = eff
	items := make([]map[string]interface{}, 0, len(rest))
	for _, r := range rest {
		full := map[string]interface{}{
			"uuid":                   r.UUID,
			"modified_at":            time.Unix(0, r.Mtime).UTC().Format(c06TimeFmt),
			"portable_data_hash":     r.PDH,
			"manifest_text":          r.Manifest,
			"unsigned_manifest_text": r.Manifest,
			"is_trashed":             r.Trashed,
			"replication_desired":    nil,
		}
		if r.Repl != nil {
			full["replication_desired"] = *r.Repl
		}
		it := full
		if sel != nil {
			it = map[string]interface{}{}
			for _, k := range sel {
				if x, ok := full[k]; ok {
					it[k] = x
				}
			}
		} else {
			delete(it, "unsigned_manifest_text")
		}
		it["kind"] = "arvados#collection"
		items = append(items, it)
	}
	out["items"] = items
	if len(tb.reqLog) < 400 {
		first, last := "", ""
		if len(rest) > 0 {
			first, last = rest[0].UUID, rest[len(rest)-1].UUID
		}
		tb.reqLog = append(tb.reqLog, c06Squash(fmt.Sprintf("#%d %s filters=%s limit=%d(eff %d) count=%s -> %d rows [%s .. %s] avail=%v",
			tb.reqNo, how, v.Get("filters"), limit, eff, count, len(rest), first, last, out["items_available"])))
	}
	body, _ := json.Marshal(out)
	return c06Response(200, append(body, '\n')), isPage
}

// c06TableTransport serves only the collections endpoint (part 1).
type c06TableTransport struct{ tb *c06Table }

func (tr *c06TableTransport) RoundTrip(req *http.Request) (*http.Response, error) {
	if req.URL.Path != "/arvados/v1/collections" {
		tr.tb.mu.Lock()
		tr.tb.infra = "unexpected path " + req.URL.Path
		tr.tb.mu.Unlock()
		return c06JSONError(404, "not found"), nil
	}
	resp, _ := tr.tb.serveCollections(req)
	resp.Request = req
	return resp, nil
}

// c06Squash shortens the padding of the artificially long uuids in log lines.
func c06Squash(s string) string {
	return strings.Replace(s, strings.Repeat("x", 700), "+x*700", -1)
}
