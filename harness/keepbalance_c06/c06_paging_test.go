package main

// C06 part 1: EachCollection hands every collection that exists throughout the
// scan to the callback at least once, or returns an error – for any page size,
// any tie multiplicity, any server-side page cap and any schedule of
// modifications / additions / deletions between page requests.

import (
	"context"
	"fmt"
	"net/http"
	"sort"
	"strconv"
	"strings"
	"testing"

	"git.arvados.org/arvados.git/sdk/go/arvados"
	"pgregory.net/rapid"
	"verif.local/vcommon/stats"
)

func c06Base36(v, width int) string {
	s := strconv.FormatInt(int64(v), 36)
	for len(s) < width {
		s = "0" + s
	}
	return s
}

func c06UUID(r, i int, long bool) string {
	u := "zzzzz-4zz18-" + c06Base36(r, 7) + c06Base36(i, 8)
	if long {
		// not a real-world uuid: only used to push the encoded request
		// parameters over arvados.Client's 1000-byte GET limit
		u += strings.Repeat("x", 700)
	}
	return u
}

type c06PagingCase struct {
	rows     []*c06Row
	pageSize int
	caps     []int
	events   []c06Event
	longUUID bool
}

func c06DrawPagingCase(t *rapid.T) c06PagingCase {
	var pc c06PagingCase
	var n int
	switch rapid.IntRange(0, 9).Draw(t, "sizeClass") {
	case 0:
		n = rapid.IntRange(0, 3).Draw(t, "n")
	case 1, 2, 3, 4, 5:
		n = rapid.IntRange(2, 12).Draw(t, "n")
	case 6, 7, 8:
		n = rapid.IntRange(8, 40).Draw(t, "n")
	default:
		n = rapid.IntRange(41, 200).Draw(t, "n")
	}
	pc.longUUID = rapid.IntRange(0, 9).Draw(t, "longUUID") == 0 && n <= 40
	groups := 1
	if n > 0 {
		switch rapid.IntRange(0, 4).Draw(t, "tieClass") {
		case 0:
			groups = 1
		case 1:
			groups = rapid.IntRange(1, 3).Draw(t, "groups")
		case 2:
			groups = rapid.IntRange(1, n/2+1).Draw(t, "groups")
		case 3:
			groups = rapid.IntRange(1, n).Draw(t, "groups")
		default:
			groups = n * 4 // mostly distinct
		}
	}
	step := rapid.SampledFrom([]int64{1, 1000, 1000000, 1000000000, 1000000001, 86400000000000}).Draw(t, "step")
	base := int64(1609459200)*1e9 + rapid.SampledFrom([]int64{0, 123456789, 999999999, 500000000, 120000000}).Draw(t, "baseFrac")
	seen := map[string]bool{}
	for i := 0; i < n; i++ {
		g := rapid.IntRange(0, groups-1).Draw(t, "group")
		r := rapid.IntRange(0, 46655).Draw(t, "uuidRand")
		row := &c06Row{
			UUID:     c06UUID(r, i, pc.longUUID),
			Mtime:    base + int64(g)*step,
			Manifest: ". d41d8cd98f00b204e9800998ecf8427e+0 0:0:f\n",
			PDH:      "x",
		}
		fl := rapid.IntRange(0, 9).Draw(t, "flags")
		row.Trashed = fl == 0
		row.OldVersion = fl == 1
		if seen[row.UUID] {
			t.Fatalf("VERIF-INFRA: duplicate generated uuid")
		}
		seen[row.UUID] = true
		pc.rows = append(pc.rows, row)
	}
	switch rapid.IntRange(0, 5).Draw(t, "pageClass") {
	case 0:
		pc.pageSize = 0 // "maximum allowed page size"
	case 1:
		pc.pageSize = 1
	case 2:
		pc.pageSize = rapid.IntRange(2, 3).Draw(t, "pageSize")
	case 3:
		pc.pageSize = rapid.IntRange(1, 6).Draw(t, "pageSize")
	default:
		pc.pageSize = rapid.IntRange(1, n+1).Draw(t, "pageSize")
	}
	switch rapid.IntRange(0, 3).Draw(t, "capClass") {
	case 0, 1:
	case 2:
		pc.caps = []int{rapid.IntRange(1, n/2+2).Draw(t, "cap")}
	default:
		k := rapid.IntRange(2, 5).Draw(t, "ncaps")
		for i := 0; i < k; i++ {
			pc.caps = append(pc.caps, rapid.IntRange(0, 5).Draw(t, "cap"))
		}
	}
	// rough estimate of how many requests an undisturbed scan needs, so the
	// events land while the scan is running
	eff := pc.pageSize
	if eff == 0 || eff > n {
		eff = n + 1
	}
	for _, c := range pc.caps {
		if c > 0 && c < eff {
			eff = c
		}
	}
	est := n/eff + 6
	nev := 0
	switch rapid.IntRange(0, 3).Draw(t, "eventClass") {
	case 0:
	case 1:
		nev = rapid.IntRange(1, 3).Draw(t, "nev")
	default:
		max := 2*n + 5
		if max > 40 {
			max = 40
		}
		nev = rapid.IntRange(1, max).Draw(t, "nev")
	}
	for i := 0; i < nev; i++ {
		ev := c06Event{
			AtReq:   rapid.IntRange(2, est+i/2).Draw(t, "atReq"),
			Kind:    rapid.SampledFrom([]int{0, 0, 0, 1, 2, 2}).Draw(t, "kind"),
			Sel:     rapid.IntRange(0, 1<<20).Draw(t, "sel"),
			SameNow: rapid.Bool().Draw(t, "sameNow"),
			Delta:   rapid.SampledFrom([]int64{1, 1, 999, 1000, 1000000000}).Draw(t, "delta"),
		}
		ev.NewUUID = c06UUID(rapid.IntRange(0, 46655).Draw(t, "newRand"), 1000+i, pc.longUUID)
		pc.events = append(pc.events, ev)
	}
	sort.SliceStable(pc.events, func(i, j int) bool { return pc.events[i].AtReq < pc.events[j].AtReq })
	return pc
}

func (pc *c06PagingCase) describe() string {
	var b strings.Builder
	fmt.Fprintf(&b, "pageSize=%d caps=%v longUUID=%v\nrows (uuid mtime flags):\n", pc.pageSize, pc.caps, pc.longUUID)
	for _, r := range pc.rows {
		u := r.UUID
		if len(u) > 27 {
			u = u[:27] + "+x*700"
		}
		fmt.Fprintf(&b, "  %s %d trashed=%v old=%v\n", u, r.Mtime, r.Trashed, r.OldVersion)
	}
	fmt.Fprintf(&b, "events:\n")
	for _, e := range pc.events {
		fmt.Fprintf(&b, "  atReq=%d kind=%d sel=%d sameNow=%v delta=%d new=%.27s\n", e.AtReq, e.Kind, e.Sel, e.SameNow, e.Delta, e.NewUUID)
	}
	return b.String()
}

func c06Short(u string) string {
	if len(u) > 27 {
		return u[:27]
	}
	return u
}

func TestVerifC06Paging(t *testing.T) {
	defer stats.Flush()
	rapid.Check(t, func(t *rapid.T) {
		pc := c06DrawPagingCase(t)
		tb := c06NewTable()
		initial := map[string]bool{}
		fpParts := []interface{}{pc.pageSize, fmt.Sprint(pc.caps)}
		for _, r := range pc.rows {
			cp := *r
			tb.insert(&cp)
			initial[r.UUID] = true
			fpParts = append(fpParts, r.UUID, r.Mtime, r.Trashed, r.OldVersion)
		}
		for _, e := range pc.events {
			fpParts = append(fpParts, e.AtReq, e.Kind, e.Sel, e.SameNow, e.Delta)
		}
		tb.events = pc.events
		tb.caps = pc.caps
		n0 := len(pc.rows)
		// "no progress" guard: evaluated against the number of events applied
		// so far, see budget check in the wrapper below
		tr := &c06BudgetTransport{tb: tb, n0: n0}
		client := &arvados.Client{APIHost: "c06.sim.invalid", AuthToken: "xyzzy", Client: &http.Client{Transport: tr}}

		delivered := map[string]int{}
		var seq []string
		err := EachCollection(context.Background(), client, pc.pageSize, func(c arvados.Collection) error {
			delivered[c.UUID]++
			if len(seq) < 2000 {
				seq = append(seq, c06Short(c.UUID))
			}
			return nil
		}, nil)

		fail := func(msg string) {
			t.Fatalf("%s\nscan error: %v\n%s\nrequests:\n  %s\ndelivered: %v", msg, err, pc.describe(), strings.Join(tb.reqLog, "\n  "), seq)
		}
		if tb.infra != "" {
			t.Fatalf("VERIF-INFRA: simulated API could not interpret a request: %s\n%s\nrequests:\n  %s", tb.infra, pc.describe(), strings.Join(tb.reqLog, "\n  "))
		}
		if tb.exceeded {
			fail(fmt.Sprintf("no progress: scan issued more than 3*(N+events)+10 = %d requests (N=%d, events applied=%d)", 3*(n0+tb.applied)+10, n0, tb.applied))
		}
		for u := range delivered {
			if !tb.everExisted[u] {
				fail(fmt.Sprintf("callback received uuid %q which never existed", c06Short(u)))
			}
		}
		required := 0
		if err == nil {
			var missing []string
			for u := range initial {
				if tb.deleted[u] {
					continue
				}
				required++
				if delivered[u] == 0 {
					missing = append(missing, c06Short(u))
				}
			}
			if len(missing) > 0 {
				sort.Strings(missing)
				fail(fmt.Sprintf("scan returned nil but %d collection(s) that existed before the first request and were never deleted were not passed to the callback: %v", len(missing), missing))
			}
		}

		// ---- evidence
		maxTie := 0
		ties := map[int64]int{}
		anyTrashed, anyOld := false, false
		for _, r := range pc.rows {
			ties[r.Mtime]++
			if ties[r.Mtime] > maxTie {
				maxTie = ties[r.Mtime]
			}
			anyTrashed = anyTrashed || r.Trashed
			anyOld = anyOld || r.OldVersion
		}
		effPage := pc.pageSize
		if effPage == 0 {
			effPage = 1 << 30
		}
		for _, c := range pc.caps {
			if c > 0 && c < effPage {
				effPage = c
			}
		}
		labels := []string{}
		add := func(c bool, l string) {
			if c {
				labels = append(labels, l)
			}
		}
		add(err == nil, "scan_ok")
		add(err != nil, "scan_error")
		add(n0 == 0, "empty_table")
		add(n0 > 40, "n_gt_40")
		add(maxTie > effPage, "tie_group_gt_page")
		add(maxTie >= 2, "has_ties")
		add(tb.boundaryInTie, "page_boundary_inside_tie")
		add(tb.applied > 0, "mutated_mid_scan")
		add(tb.modifiedMidScan > 0, "ev_modify")
		add(tb.addedMidScan > 0, "ev_add")
		add(tb.deletedMidScan > 0, "ev_delete")
		add(tb.cappedBelowLimit, "server_capped_page")
		add(pc.pageSize == 0, "limit_max")
		add(pc.pageSize == 1, "page_size_1")
		add(tb.sawPost, "post_method_override")
		add(tb.sawGet, "get_query")
		add(tb.ops["modified_at="] > 0, "mode_exact_timestamp")
		add(tb.ops["modified_at>"] > 0, "mode_newer_than")
		add(tb.ops["modified_at>="] > 0, "mode_overlap")
		add(anyTrashed, "has_trashed")
		add(anyOld, "has_old_version")
		dup := false
		for _, c := range delivered {
			if c > 1 {
				dup = true
			}
		}
		add(dup, "redelivered")
		nontrivial := tb.boundaryInTie || tb.applied > 0
		stats.Case(stats.FP(fpParts...), nontrivial, labels...)
		stats.InfoAdd("paging_requests", int64(tb.reqNo))
		stats.InfoAdd("paging_required_checked", int64(required))
		stats.Label(fmt.Sprintf("budget_margin<=%d", c06Bucket(3*(n0+tb.applied)+10-tb.reqNo)))
		for _, l := range []string{"page_boundary_inside_tie", "mutated_mid_scan", "scan_error"} {
			for _, have := range labels {
				if have == l && stats.WantSample(l) {
					stats.Sample(l, map[string]interface{}{
						"n": n0, "page_size": pc.pageSize, "caps": pc.caps, "max_tie": maxTie, "events_applied": tb.applied,
						"requests": tb.reqNo, "err": fmt.Sprint(err), "first_requests": c06Head(tb.reqLog, 8),
					})
				}
			}
		}
	})
}

func c06Bucket(v int) int {
	for _, b := range []int{0, 2, 4, 6, 8, 16} {
		if v <= b {
			return b
		}
	}
	return 999
}

func c06Head(xs []string, n int) []string {
	if len(xs) > n {
		xs = xs[:n]
	}
	out := make([]string, len(xs))
	for i, x := range xs {
		if len(x) > 300 {
			x = x[:300] + "..."
		}
		out[i] = x
	}
	return out
}

// c06BudgetTransport enforces the dynamic request budget 3*(N+events)+10.
type c06BudgetTransport struct {
	tb *c06Table
	n0 int
}

func (tr *c06BudgetTransport) RoundTrip(req *http.Request) (*http.Response, error) {
	tr.tb.mu.Lock()
	tr.tb.maxReq = 3*(tr.n0+tr.tb.applied+c06Pending(tr.tb)) + 10
	tr.tb.mu.Unlock()
	return (&c06TableTransport{tr.tb}).RoundTrip(req)
}

// c06Pending counts events that will be applied at the next request, so that
// the budget test (made before they are applied) already includes them.
func c06Pending(tb *c06Table) int {
	n := 0
	for i := tb.nextEvent; i < len(tb.events) && tb.events[i].AtReq <= tb.reqNo+1; i++ {
		n++
	}
	return n
}

// TestVerifC06PagingLossy is the "or else the scan fails" clause against a
// server that loses a row: a static table in which one collection is left out
// of every page although it is counted. The collection exists throughout the
// scan and cannot be delivered, so the scan must return an error. (The hidden
// row is never newer than every visible row: a server that loses only the
// newest rows is indistinguishable from one on which they do not exist yet.)
func TestVerifC06PagingLossy(t *testing.T) {
	defer stats.Flush()
	rapid.Check(t, func(t *rapid.T) {
		pc := c06DrawPagingCase(t)
		pc.events = nil
		if len(pc.rows) < 2 {
			pc.rows = append(pc.rows,
				&c06Row{UUID: c06UUID(1, 900, pc.longUUID), Mtime: 1609459200000000000, Manifest: ". d41d8cd98f00b204e9800998ecf8427e+0 0:0:f\n", PDH: "x"},
				&c06Row{UUID: c06UUID(2, 901, pc.longUUID), Mtime: 1609459200000000000 + int64(rapid.IntRange(0, 1).Draw(t, "extraStep")), Manifest: ". d41d8cd98f00b204e9800998ecf8427e+0 0:0:f\n", PDH: "x"})
		}
		tb := c06NewTable()
		var maxM int64
		for _, r := range pc.rows {
			cp := *r
			tb.insert(&cp)
			if r.Mtime > maxM {
				maxM = r.Mtime
			}
		}
		// hidden row: any row that is not strictly the single newest one
		var cands []*c06Row
		for _, r := range pc.rows {
			others := false
			for _, o := range pc.rows {
				if o != r && o.Mtime >= r.Mtime {
					others = true
				}
			}
			if others {
				cands = append(cands, r)
			}
		}
		if len(cands) == 0 {
			t.Fatalf("VERIF-INFRA: no candidate row to hide")
		}
		hidden := cands[rapid.IntRange(0, len(cands)-1).Draw(t, "hidden")]
		tb.hideFromPages = hidden.UUID
		tb.caps = pc.caps
		tr := &c06BudgetTransport{tb: tb, n0: len(pc.rows)}
		client := &arvados.Client{APIHost: "c06.sim.invalid", AuthToken: "xyzzy", Client: &http.Client{Transport: tr}}
		delivered := map[string]int{}
		err := EachCollection(context.Background(), client, pc.pageSize, func(c arvados.Collection) error {
			delivered[c.UUID]++
			return nil
		}, nil)
		if tb.infra != "" {
			t.Fatalf("VERIF-INFRA: simulated API could not interpret a request: %s", tb.infra)
		}
		if tb.exceeded {
			t.Fatalf("no progress (lossy server): more than %d requests\n%s\nrequests:\n  %s", tb.maxReq, pc.describe(), strings.Join(tb.reqLog, "\n  "))
		}
		if err == nil && delivered[hidden.UUID] == 0 {
			t.Fatalf("scan returned nil although collection %s (counted by the server, present throughout) was never passed to the callback\n%s\nrequests:\n  %s",
				c06Short(hidden.UUID), pc.describe(), strings.Join(tb.reqLog, "\n  "))
		}
		labels := []string{"lossy_server_static"}
		if err != nil {
			labels = append(labels, "lossy_scan_error")
		}
		if hidden.Mtime == maxM {
			labels = append(labels, "lossy_hidden_in_newest_group")
		}
		stats.Case(stats.FP("lossy", pc.describe(), hidden.UUID), true, labels...)
	})
}
