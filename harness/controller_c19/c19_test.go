package controller

// C19 level (iv): the legacy federation path of lib/controller
// (setupProxyRemoteCluster -> genericFederatedRequestHandler / collection
// delegate -> remoteClusterRequest -> saltAuthToken -> proxy.Do), driven with
// server-side requests that carry 0-3 tokens in every placement, forwarding to
// a loopback server that records raw bytes. The api_client_authorizations
// lookup of validateAPItoken is answered by an in-memory database/sql driver
// (no PostgreSQL here), so the legacy-token branch is reachable too.

import (
	"bufio"
	"bytes"
	"context"
	"database/sql"
	"database/sql/driver"
	"errors"
	"fmt"
	"io"
	"net/http"
	"net/http/httptest"
	"net/url"
	"strings"
	"sync"
	"testing"

	"git.arvados.org/arvados.git/sdk/go/arvados"
	"git.arvados.org/arvados.git/sdk/go/auth"
	"github.com/jmoiron/sqlx"
	"pgregory.net/rapid"
	"verif.local/vcommon/c19"
	"verif.local/vcommon/stats"
)

const (
	c19KnownKey       = "c19-40char-nonhex-secret"
	c19KnownKeyForm   = "c19-legacy-form-body-token-not-salted"
	c19KnownKeyCookie = "c19-legacy-cookie-token-forwarded"
	c19KnownKeyPanic  = "c19-legacy-v2-two-segment-token-panics"
)

// ---------------------------------------------------------------- fake database

// c19DB answers the one SELECT of validateAPItoken from a per-case table. How
// each c19.Resolution.Status is expressed by a database:
//
//	200  one row, scopes ["all"]
//	401  no rows (the explicit "unknown token" answer)
//	403  one row with restricted scopes (a valid token of a local user)
//	404  the result set fails while it is iterated (rows.Err)
//	422  one row whose scopes column is not valid JSON
//	429  the query fails (too many connections)
//	500  the query fails
//	502  one row whose scopes column is NULL (Scan fails)
//	503  the connection turns out to be bad (driver.ErrBadConn)
//	StatusConnError  no connection can be opened
type c19DB struct {
	mu    sync.Mutex
	table map[string]c19.Resolution
	asked []string
	down  bool // refuse new connections (set while a StatusConnError token is in the table)
}

func (db *c19DB) set(table map[string]c19.Resolution) {
	db.mu.Lock()
	db.table, db.asked, db.down = table, nil, false
	for _, r := range table {
		if r.Status == c19.StatusConnError {
			db.down = true
		}
	}
	db.mu.Unlock()
}

type c19Connector struct{ db *c19DB }

func (c c19Connector) Connect(context.Context) (driver.Conn, error) {
	c.db.mu.Lock()
	down := c.db.down
	c.db.mu.Unlock()
	if down {
		return nil, errors.New("c19 fake database: dial tcp 192.0.2.19:5432: connect: connection refused")
	}
	return &c19DBConn{c.db}, nil
}
func (c c19Connector) Driver() driver.Driver { return c19Drv{} }

type c19Drv struct{}

func (c19Drv) Open(string) (driver.Conn, error) {
	return nil, errors.New("VERIF-INFRA: use the connector")
}

type c19DBConn struct{ db *c19DB }

func (c *c19DBConn) Prepare(q string) (driver.Stmt, error) { return &c19Stmt{c.db, q}, nil }
func (c *c19DBConn) Close() error                          { return nil }
func (c *c19DBConn) Begin() (driver.Tx, error) {
	return nil, errors.New("VERIF-INFRA: fake database has no transactions")
}

type c19Stmt struct {
	db *c19DB
	q  string
}

func (s *c19Stmt) Close() error  { return nil }
func (s *c19Stmt) NumInput() int { return -1 }
func (s *c19Stmt) Exec([]driver.Value) (driver.Result, error) {
	return nil, errors.New("VERIF-INFRA: fake database is read-only: " + s.q)
}
func (s *c19Stmt) Query(args []driver.Value) (driver.Rows, error) {
	if !strings.Contains(s.q, "FROM api_client_authorizations JOIN users") || len(args) != 1 {
		return nil, errors.New("VERIF-INFRA: unexpected query: " + s.q)
	}
	tok, _ := args[0].(string)
	s.db.mu.Lock()
	defer s.db.mu.Unlock()
	s.db.asked = append(s.db.asked, tok)
	res, ok := s.db.table[tok]
	user := ""
	if len(res.UUID) >= 12 {
		user = res.UUID[:5] + "-tpzed-" + res.UUID[12:]
	}
	// a row for rows that only exist to fail: the token of a local user
	anyRow := func(scopes driver.Value) [][]driver.Value {
		return [][]driver.Value{{"zzzzz-gj3su-c19lookupfailure", scopes, "zzzzz-tpzed-c19lookupfailure"}}
	}
	switch {
	case !ok || res.Status == 401:
		return &c19Rows{}, nil
	case res.Status == 200:
		return &c19Rows{rows: [][]driver.Value{{res.UUID, `["all"]`, user}}}, nil
	case res.Status == 403:
		return &c19Rows{rows: [][]driver.Value{{res.UUID, `["GET /arvados/v1/users/current","GET /arvados/v1/collections/"]`, user}}}, nil
	case res.Status == 404:
		return &c19Rows{failNext: errors.New("c19 fake database: connection reset while reading the result")}, nil
	case res.Status == 422:
		return &c19Rows{rows: anyRow(`["all"`)}, nil
	case res.Status == 429:
		return nil, errors.New("c19 fake database: sorry, too many clients already")
	case res.Status == 502:
		return &c19Rows{rows: anyRow(nil)}, nil
	case res.Status == 503:
		return nil, driver.ErrBadConn
	}
	return nil, errors.New("c19 fake database: lookup failed")
}

type c19Rows struct {
	rows     [][]driver.Value
	failNext error
}

func (r *c19Rows) Columns() []string { return []string{"uuid", "scopes", "uuid"} }
func (r *c19Rows) Close() error      { return nil }
func (r *c19Rows) Next(dest []driver.Value) error {
	if r.failNext != nil {
		return r.failNext
	}
	if len(r.rows) == 0 {
		return io.EOF
	}
	copy(dest, r.rows[0])
	r.rows = r.rows[1:]
	return nil
}

// ---------------------------------------------------------------- request construction

var c19Placements = []string{"hdr-OAuth2", "hdr-Bearer", "hdr-Basic", "query", "form", "cookie"}

type c19Placed struct {
	tok   c19.Token
	place string
	// query / form placements: how the parameter NAME is spelled on the wire
	// ("" = api_token; else a partly percent-encoded spelling of it), and
	// whether the parameter goes before the other parameters.
	name  string
	first bool
}

// c19ParamSpellings: the name api_token as a client (or a URL-rewriting
// middlebox) may percent-encode it; every HTTP server decodes them alike.
var c19ParamSpellings = []string{"api%5Ftoken", "api_toke%6E", "%61pi_token", "api%5ftoken", "a%70i_t%6Fken", "%61%70%69%5F%74%6F%6B%65%6E"}

// c19Join adds the specially spelled parameters to an encoded query / form.
func c19Join(encoded string, front, back []string) string {
	parts := append([]string(nil), front...)
	if encoded != "" {
		parts = append(parts, encoded)
	}
	parts = append(parts, back...)
	return strings.Join(parts, "&")
}

type c19Route struct {
	name, method, path string
	form               url.Values // non-token parameters; sent in the body when the method has one, else in the query
	hasBody            bool
	// framing of the request as it reaches the handler:
	//   "content-length"  HTTP/1.1, body with Content-Length (the default)
	//   "chunked"         HTTP/1.1, Transfer-Encoding: chunked (ContentLength -1), body cut into chunks of the given sizes
	//   "empty-body"      HTTP/1.1, a method with a body, Content-Type form-urlencoded, Content-Length: 0 (parameters in the query)
	//   "http/1.0"        HTTP/1.0 request line, body (if any) with Content-Length
	framing string
	chunks  []int
}

// c19Pieces hands out data in pieces of the given sizes (cyclically); the
// chunked writer of net/http emits one chunk per Read.
type c19Pieces struct {
	data  []byte
	sizes []int
	i     int
}

func (p *c19Pieces) Read(b []byte) (int, error) {
	if len(p.data) == 0 {
		return 0, io.EOF
	}
	n := p.sizes[p.i%len(p.sizes)]
	p.i++
	if n > len(p.data) {
		n = len(p.data)
	}
	if n > len(b) {
		n = len(b)
	}
	copy(b, p.data[:n])
	p.data = p.data[n:]
	return n, nil
}

func c19DrawRoute(t *rapid.T, remote string) c19Route {
	tail := rapid.StringMatching(`[0-9a-z]{15}`).Draw(t, "objTail")
	type rsc struct{ name, infix string }
	rs := rapid.SampledFrom([]rsc{{"workflows", "7fd4e"}, {"containers", "dz642"}, {"links", "o0j2j"}, {"container_requests", "xvhdp"}, {"collections", "4zz18"}}).Draw(t, "resource")
	uuidPath := "/arvados/v1/" + rs.name + "/" + remote + "-" + rs.infix + "-" + tail
	one := strings.TrimSuffix(rs.name, "s")
	switch k := rapid.IntRange(0, 6).Draw(t, "method"); {
	case k <= 1:
		return c19Route{name: "GET " + rs.name + "/uuid", method: "GET", path: uuidPath, form: url.Values{"select": {`["uuid","name"]`}}}
	case k == 2:
		return c19Route{name: "PATCH " + rs.name + "/uuid", method: "PATCH", path: uuidPath, form: url.Values{one: {`{"name":"c19 ` + tail + `"}`}}, hasBody: true}
	case k == 3:
		return c19Route{name: "PUT " + rs.name + "/uuid", method: "PUT", path: uuidPath, form: url.Values{one: {`{"name":"c19 ` + tail + `"}`}}, hasBody: true}
	case k == 4:
		return c19Route{name: "DELETE " + rs.name + "/uuid", method: "DELETE", path: uuidPath, form: url.Values{}}
	case k == 5 && rs.name != "container_requests":
		// create at the remote (container_requests POST hands the remote a
		// runtime token by design and is not part of this property)
		return c19Route{name: "POST " + rs.name + "?cluster_id", method: "POST", path: "/arvados/v1/" + rs.name,
			form: url.Values{"cluster_id": {remote}, one: {`{"name":"c19 ` + tail + `"}`}}, hasBody: true}
	}
	return c19Route{name: "POST(_method=GET) " + rs.name + "/uuid", method: "POST", path: uuidPath, form: url.Values{"_method": {"GET"}, "select": {`["uuid"]`}}, hasBody: true}
}

// c19Build produces the request as net/http's server would hand it to the
// handler (written to the wire format and read back with http.ReadRequest).
func c19Build(route c19Route, placed []c19Placed, reqid string) (*http.Request, error) {
	query := url.Values{}
	form := url.Values{}
	inBody := route.hasBody && route.framing != "empty-body"
	for k, v := range route.form {
		if inBody {
			form[k] = v
		} else {
			query[k] = v
		}
	}
	hdr := http.Header{}
	var cookies []*http.Cookie
	var qFront, qBack, fFront, fBack []string
	for _, p := range placed {
		if p.name != "" && (p.place == "query" || p.place == "form") {
			if dec, err := url.QueryUnescape(p.name); err != nil || dec != "api_token" {
				return nil, fmt.Errorf("VERIF-INFRA: parameter spelling %q does not decode to api_token", p.name)
			}
			kv := p.name + "=" + url.QueryEscape(p.tok.Raw)
			switch {
			case p.place == "query" && p.first:
				qFront = append(qFront, kv)
			case p.place == "query":
				qBack = append(qBack, kv)
			case p.first:
				fFront = append(fFront, kv)
			default:
				fBack = append(fBack, kv)
			}
			continue
		}
		switch p.place {
		case "hdr-OAuth2":
			hdr.Set("Authorization", "OAuth2 "+p.tok.Raw)
		case "hdr-Bearer":
			hdr.Set("Authorization", "Bearer "+p.tok.Raw)
		case "hdr-Basic":
			r, _ := http.NewRequest("GET", "/", nil)
			r.SetBasicAuth("none", p.tok.Raw)
			hdr.Set("Authorization", r.Header.Get("Authorization"))
		case "query":
			query.Add("api_token", p.tok.Raw)
		case "form":
			form.Add("api_token", p.tok.Raw)
		case "cookie":
			cookies = append(cookies, &http.Cookie{Name: "arvados_api_token", Value: auth.EncodeTokenCookie([]byte(p.tok.Raw))})
		}
	}
	target := "http://controller.c19.example" + route.path
	if q := c19Join(query.Encode(), qFront, qBack); q != "" {
		target += "?" + q
	}
	formEnc := c19Join(form.Encode(), fFront, fBack)
	var body io.Reader
	switch {
	case !route.hasBody:
	case route.framing == "empty-body":
		if formEnc != "" {
			return nil, errors.New("VERIF-INFRA: form parameters in an empty-body request")
		}
		body = strings.NewReader("")
	case route.framing == "chunked":
		body = &c19Pieces{data: []byte(formEnc), sizes: route.chunks}
	default:
		body = strings.NewReader(formEnc)
	}
	out, err := http.NewRequest(route.method, target, body)
	if err != nil {
		return nil, err
	}
	if route.hasBody && route.framing == "chunked" {
		out.ContentLength = -1
		out.TransferEncoding = []string{"chunked"}
	}
	for k, v := range hdr {
		out.Header[k] = v
	}
	if route.hasBody {
		out.Header.Set("Content-Type", "application/x-www-form-urlencoded")
	}
	out.Header.Set("X-Request-Id", reqid)
	for _, c := range cookies {
		out.AddCookie(c)
	}
	var wire bytes.Buffer
	if err := out.Write(&wire); err != nil {
		return nil, err
	}
	if route.framing == "http/1.0" {
		// the request as an HTTP/1.0 client writes it (Content-Length framing)
		w := wire.Bytes()
		eol := bytes.Index(w, []byte("\r\n"))
		if eol < 0 || !bytes.HasSuffix(w[:eol], []byte(" HTTP/1.1")) {
			return nil, errors.New("VERIF-INFRA: unexpected request line")
		}
		w[eol-1] = '0'
	}
	in, err := http.ReadRequest(bufio.NewReader(&wire))
	if err != nil {
		return nil, err
	}
	// the framing really is what was asked for
	switch {
	case route.framing == "http/1.0" && !(in.ProtoMajor == 1 && in.ProtoMinor == 0):
		return nil, fmt.Errorf("VERIF-INFRA: request was read as %s, want HTTP/1.0", in.Proto)
	case route.framing == "chunked" && route.hasBody && !(in.ContentLength == -1 && len(in.TransferEncoding) == 1 && in.TransferEncoding[0] == "chunked"):
		return nil, fmt.Errorf("VERIF-INFRA: request was read with ContentLength %d TransferEncoding %v, want chunked", in.ContentLength, in.TransferEncoding)
	case route.framing == "empty-body" && route.hasBody && in.ContentLength != 0:
		return nil, fmt.Errorf("VERIF-INFRA: request was read with ContentLength %d, want 0", in.ContentLength)
	}
	in.RemoteAddr = "192.0.2.19:4444"
	return in, nil
}

type c19Env struct {
	db  *c19DB
	rec *c19.Recorder
	seq int
}

type c19Panic struct{ v interface{} }

func (p c19Panic) Error() string { return fmt.Sprintf("handler panicked: %v", p.v) }

func (e *c19Env) drive(localID, remote string, route c19Route, placed []c19Placed, table map[string]c19.Resolution, reqid string) (caps []c19.Captured, wentLocal bool, status int, err error) {
	e.db.set(table)
	cluster := &arvados.Cluster{ClusterID: localID, RemoteClusters: map[string]arvados.RemoteCluster{
		remote: {Host: e.rec.Addr, Scheme: "http", Proxy: true},
	}}
	cluster.API.MaxItemsPerResponse = 1000
	cluster.API.MaxRequestAmplification = 4
	h := &Handler{Cluster: cluster}
	h.pgdb = sqlx.NewDb(sql.OpenDB(c19Connector{e.db}), "postgres")
	defer h.pgdb.Close()
	h.proxy = &proxy{Name: "arvados-controller"}
	client := &http.Client{CheckRedirect: neverRedirect}
	h.secureClient, h.insecureClient = client, client
	next := http.HandlerFunc(func(w http.ResponseWriter, r *http.Request) {
		wentLocal = true
		w.WriteHeader(http.StatusTeapot)
	})
	req, err := c19Build(route, placed, reqid)
	if err != nil {
		return nil, false, 0, err
	}
	e.rec.Take()
	w := httptest.NewRecorder()
	func() {
		// net/http's server recovers handler panics (the client sees an aborted
		// connection); report them to the caller instead of dying here.
		defer func() {
			if v := recover(); v != nil {
				err = c19Panic{v}
			}
		}()
		h.setupProxyRemoteCluster(next).ServeHTTP(w, req)
	}()
	for _, c := range e.rec.Take() {
		if c.Header.Get("X-Request-Id") == reqid {
			caps = append(caps, c)
		}
	}
	return caps, wentLocal, w.Code, err
}

func TestVerifC19LegacyHandler(t *testing.T) {
	defer stats.Flush()
	env := &c19Env{db: &c19DB{}}
	var err error
	if env.rec, err = c19.NewRecorder(func(*c19.Captured) (int, string, []byte) {
		return 200, "application/json", []byte(`{}`)
	}); err != nil {
		t.Fatalf("VERIF-INFRA: %v", err)
	}
	defer env.rec.Close()
	rapid.Check(t, func(t *rapid.T) {
		ids := c19.DrawDistinctIDs(t, 3, "id")
		localID, remote := ids[0], ids[1]
		owners := []string{remote, localID, ids[2]}
		route := c19DrawRoute(t, remote)
		route.framing = "content-length"
		switch k := rapid.IntRange(0, 15).Draw(t, "framing"); {
		case (k == 3 || k == 7 || k == 9 || k == 12) && route.hasBody:
			route.framing = "chunked"
			route.chunks = rapid.SliceOfN(rapid.SampledFrom([]int{1, 2, 3, 5, 7, 8, 9, 10, 16, 33, 64, 200, 4096}), 1, 5).Draw(t, "chunks")
		case (k == 5 || k == 10) && route.hasBody:
			route.framing = "empty-body"
		case k == 6 || k == 11 || k == 13:
			route.framing = "http/1.0"
		}
		places := []string{"hdr-OAuth2", "hdr-Bearer", "hdr-Basic", "query", "cookie"}
		if route.hasBody && route.framing != "empty-body" {
			places = append(places, "form")
			if route.framing == "chunked" {
				// chunked framing matters most for what rides in the body
				places = append(places, "form", "form", "form")
			}
		}
		// Round 3: some requests also carry a reader_tokens parameter (a JSON
		// list; its content here is no user secret: a token of the remote's own,
		// already salted). It rides in the query, or in the body when there is one.
		readerTokens := false
		if rb := rapid.SliceOfN(rapid.Bool(), 2, 2).Draw(t, "readerTokens"); rb[0] && rb[1] {
			readerTokens = true
			route.form["reader_tokens"] = []string{`["v2/` + remote + `-gj3su-readertoken0000/0123456789abcdef0123456789abcdef01234567"]`}
		}
		var tokens []c19.Token
		if rapid.IntRange(0, 19).Draw(t, "noToken") != 0 {
			tokens = c19.DrawTokens(t, owners, "tok")
		}
		var placed, ctlPlaced []c19Placed
		table := map[string]c19.Resolution{}
		ctlTable := map[string]c19.Resolution{}
		res := make([]c19.Resolution, len(tokens))
		hdrUsed := false
		for i, tk := range tokens {
			var place string
			for try := 0; ; try++ {
				place = rapid.SampledFrom(places).Draw(t, fmt.Sprintf("place%d.%d", i, try))
				if !(strings.HasPrefix(place, "hdr-") && hdrUsed) {
					break
				}
				if try > 20 {
					place = "query"
					break
				}
			}
			hdrUsed = hdrUsed || strings.HasPrefix(place, "hdr-")
			if place == "cookie" {
				for _, p := range placed {
					if p.place == "cookie" {
						place = "query" // one token cookie per request
					}
				}
			}
			ctl := c19.Control(tk)
			if tk.Kind == c19.KindLegacy {
				res[i] = c19.DrawResolution(t, owners, fmt.Sprintf("res%d", i))
				table[tk.Raw] = res[i]
				ctlTable[ctl.Raw] = res[i]
			}
			// This path asks the database about opaque tokens as well. Some of
			// them get an answer other than "no such token" (an admin-chosen
			// secret in no standard format; a failing lookup).
			if tk.Kind == c19.KindOpaque && !strings.Contains(tk.Raw, "/") && rapid.IntRange(0, 2).Draw(t, fmt.Sprintf("opaqueKnown%d", i)) == 1 {
				res[i] = c19.DrawResolution(t, owners, fmt.Sprintf("res%d", i))
				table[tk.Raw] = res[i]
				ctlTable[ctl.Raw] = res[i]
			}
			// Round 3: in the query string / form body the parameter name is
			// partly percent-encoded in about 3 of 8 such placements
			spelled, first := "", false
			if place == "query" || place == "form" {
				sb := rapid.SliceOfN(rapid.Bool(), 6, 6).Draw(t, fmt.Sprintf("paramName%d", i))
				if sb[0] && (sb[1] || sb[2]) {
					k := 0
					for _, b := range sb[3:] {
						k <<= 1
						if b {
							k |= 1
						}
					}
					spelled = c19ParamSpellings[k%len(c19ParamSpellings)]
					first = rapid.Bool().Draw(t, fmt.Sprintf("paramFirst%d", i))
				}
			}
			placed = append(placed, c19Placed{tk, place, spelled, first})
			ctlPlaced = append(ctlPlaced, c19Placed{ctl, place, spelled, first})
		}
		env.seq++
		reqid := fmt.Sprintf("req-c19verif%09d", env.seq)
		caps, wentLocal, status, derr := env.drive(localID, remote, route, placed, table, reqid)
		panicked := false
		if pe, ok := derr.(c19Panic); ok {
			// Narrow classifier: the token the legacy path picks is "v2/<one segment>".
			twoSeg := false
			var desc []string
			for _, p := range placed {
				desc = append(desc, p.place+":"+p.tok.Raw)
				seg := strings.Split(p.tok.Raw, "/")
				twoSeg = twoSeg || (len(seg) == 2 && seg[0] == "v2")
			}
			msg := fmt.Sprintf("%s with tokens %q: %v (tokens not in Arvados format are to be passed through unchanged)", route.name, desc, pe)
			if !(twoSeg && stats.Known(c19KnownKeyPanic, msg)) {
				t.Fatalf("%s", msg)
			}
			panicked = true
		} else if derr != nil {
			t.Fatalf("VERIF-INFRA: %v", derr)
		}

		labels := []string{"route=" + route.name, fmt.Sprintf("tokens=%d", len(tokens)), "framing=" + route.framing}
		if readerTokens {
			labels = append(labels, "with-reader_tokens")
		}
		for _, p := range placed {
			if p.name != "" {
				hdrToo := "without-authorization-header"
				for _, q := range placed {
					if strings.HasPrefix(q.place, "hdr-") {
						hdrToo = "with-authorization-header"
					}
				}
				labels = append(labels, "param-name-percent-encoded/"+p.place, "param-name-percent-encoded/"+hdrToo, "param-name-percent-encoded/tok:"+p.tok.Kind.String())
				if readerTokens {
					labels = append(labels, "param-name-percent-encoded/with-reader_tokens")
				}
			}
			if p.place == "form" && route.framing != "content-length" {
				labels = append(labels, "framing="+route.framing+"+token-in-form-body")
			}
		}
		var raws []string
		fw := make([]c19.Forward, len(tokens))
		var legit []string
		mustForward := true
		for i, p := range placed {
			if p.name != "" {
				raws = append(raws, fmt.Sprintf("%s(name spelled %s, first=%v):%s", p.place, p.name, p.first, p.tok.Raw))
			} else {
				raws = append(raws, p.place+":"+p.tok.Raw)
			}
			effRes := res[i]
			if effRes.Status == 403 {
				// in a database, "valid but scope-restricted" is a row like any
				// other: the token resolves (salting it is right, refusing is
				// safe, passing it on raw is not)
				effRes.Status = 200
			}
			fw[i] = c19.ForwardFor(p.tok, remote, effRes)
			if p.tok.Kind == c19.KindOpaque && res[i].Status != 0 {
				// The property wants tokens that are not in Arvados format passed
				// through unchanged; this path salts those it finds in the local
				// database. Both are accepted, and so is refusing.
				fw[i].Shape = fmt.Sprintf("opaque-with-lookup-answer-%d", res[i].Status)
				if (res[i].Status == 200 || res[i].Status == 403) && !c19.BelongsTo(res[i].UUID, remote) {
					fw[i].Accept = append(fw[i].Accept, c19.Salted(res[i].UUID, p.tok.Raw, remote))
				}
			}
			if res[i].Status == 403 {
				fw[i].Shape += "(scope-restricted)"
			}
			if res[i].Status != 0 {
				labels = append(labels, fmt.Sprintf("lookup-answer=%d/%s", res[i].Status, p.tok.Kind))
			}
			legit = append(legit, fw[i].Accept...)
			labels = append(labels, "place="+p.place, "tok:"+p.tok.Kind.String(), "fw:"+fw[i].Shape)
			if p.tok.Kind == c19.KindV2 {
				labels = append(labels, "secret="+p.tok.SecretClass())
			}
			switch fw[i].Shape {
			case "v2-salted", "opaque-asis", "legacy-unknown-asis", "legacy-remote-owned-asis", "legacy-salted":
			default:
				mustForward = false
			}
		}
		legit = append(legit, reqid)
		describe := func(c *c19.Captured) string {
			s := fmt.Sprintf("%s (framing %s, chunk sizes %v), local %q, remote %q, tokens %q, resolutions %+v, response status %d", route.name, route.framing, route.chunks, localID, remote, raws, res, status)
			if c != nil {
				s += fmt.Sprintf(": request received by the remote:\n%q", c.Raw)
			}
			return s
		}
		known := map[string]bool{}
		switch {
		case len(caps) > 1:
			t.Fatalf("VERIF-INFRA: more than one forwarded request\n%s", describe(nil))
		case panicked:
			labels = append(labels, "outcome=panic", "known:"+c19KnownKeyPanic)
			if len(caps) > 0 {
				t.Fatalf("VERIF-INFRA: forwarded request after a panic\n%s", describe(nil))
			}
		case len(caps) == 0 && wentLocal:
			labels = append(labels, "outcome=handled-locally")
		case len(caps) == 0:
			labels = append(labels, "outcome=not-forwarded")
			if mustForward {
				t.Fatalf("nothing was forwarded although every token is forwardable (%+v)\n%s", fw, describe(nil))
			}
		default:
			labels = append(labels, "outcome=forwarded")
		}
		for ci := range caps {
			c := &caps[ci]
			if c.Err != "" {
				t.Fatalf("VERIF-INFRA: recorder could not parse request: %s\n%q", c.Err, c.Raw)
			}
			// (a) what the remote reads as the credential
			authz := c.Header["Authorization"]
			formOnly := len(placed) > 0
			for _, p := range placed {
				formOnly = formOnly && p.place == "form"
			}
			switch {
			case len(tokens) == 0:
				if len(authz) != 0 {
					t.Fatalf("request without token forwarded with Authorization %q\n%s", authz, describe(c))
				}
			case len(authz) != 1 || !strings.HasPrefix(authz[0], "Bearer "):
				msg := fmt.Sprintf("want exactly one Authorization: Bearer header, got %q\n%s", authz, describe(c))
				if len(authz) == 0 && formOnly && stats.Known(c19KnownKeyForm, msg) {
					known[c19KnownKeyForm] = true
					break
				}
				t.Fatalf("%s", msg)
			default:
				got := strings.TrimPrefix(authz[0], "Bearer ")
				ok := false
				var asIs *c19.Token
				for i := range placed {
					ok = ok || (!fw[i].Error && fw[i].Accepts(got))
					if got == placed[i].tok.Raw {
						asIs = &placed[i].tok
					}
				}
				if !ok {
					// A token whose lookup failed: the property does not say what
					// to send instead; anything that does not contain the raw
					// token is accepted here (non-disclosure is checked below).
					for i := range placed {
						if fw[i].Error && c19.Occurrences([]byte(got), placed[i].tok.Raw, nil) == 0 {
							ok = true
							labels = append(labels, "forwarded-despite-lookup-error")
						}
					}
				}
				if !ok {
					msg := fmt.Sprintf("forwarded credential %q is not the reference forwarding of any presented token (%+v)\n%s", got, fw, describe(c))
					if asIs != nil && asIs.In40NonHexRegion() && stats.Known(c19KnownKey, msg) {
						known[c19KnownKey] = true
						break
					}
					t.Fatalf("%s", msg)
				}
			}
			// (b) non-disclosure over the raw bytes, for every presented token
			var ctlCaps []c19.Captured
			ctlDone := false
			for i, p := range placed {
				if fw[i].Protected == "" {
					continue
				}
				needle, scan := c19.ScanNeedle(p.tok, fw[i].Protected)
				if !scan {
					labels = append(labels, "scan-skipped(short-secret)")
					continue
				}
				n := c19.Occurrences(c.Raw, needle, legit)
				if n == 0 {
					continue
				}
				ctlID := strings.Replace(reqid, "verif", "cntrl", 1)
				if !ctlDone {
					ctlCaps, _, _, _ = env.drive(localID, remote, route, ctlPlaced, ctlTable, ctlID)
					ctlDone = true
				}
				var ctlLegit []string
				for j := range placed {
					ctlLegit = append(ctlLegit, c19.ForwardFor(ctlPlaced[j].tok, remote, res[j]).Accept...)
				}
				ctlLegit = append(ctlLegit, ctlID)
				base := -1
				if len(ctlCaps) == 1 {
					base = c19.Occurrences(ctlCaps[0].Raw, needle, ctlLegit)
				}
				if base >= n {
					labels = append(labels, "secret-occurs-in-fixed-parts")
					continue
				}
				msg := fmt.Sprintf("secret of token %d (%s, %q) occurs %d time(s) in the forwarded bytes (control run: %d)\n%s", i, p.place, fw[i].Protected, n, base, describe(c))
				// Narrow classifiers. Each names one way the secret got out.
				params, _ := url.ParseQuery(string(c.Body))
				inFormBody := false
				for _, v := range params["api_token"] {
					inFormBody = inFormBody || v == p.tok.Raw
				}
				cookieLeak := false
				for _, ck := range (&http.Request{Header: c.Header}).Cookies() {
					if dec, err := auth.DecodeTokenCookie(ck.Value); err == nil && ck.Name == "arvados_api_token" && string(dec) == p.tok.Raw {
						cookieLeak = true
					}
				}
				switch {
				case p.tok.In40NonHexRegion() && len(authz) == 1 && authz[0] == "Bearer "+p.tok.Raw && stats.Known(c19KnownKey, msg):
					known[c19KnownKey] = true
				case p.place == "form" && inFormBody && stats.Known(c19KnownKeyForm, msg):
					known[c19KnownKeyForm] = true
				case p.place == "cookie" && cookieLeak && stats.Known(c19KnownKeyCookie, msg):
					known[c19KnownKeyCookie] = true
				default:
					t.Fatalf("%s", msg)
				}
			}
		}
		for k := range known {
			labels = append(labels, "known:"+k)
		}
		// the database is asked about bare (legacy or opaque) tokens only
		env.db.mu.Lock()
		asked := append([]string(nil), env.db.asked...)
		env.db.mu.Unlock()
		for _, a := range asked {
			if strings.HasPrefix(a, "VERIF-INFRA") {
				t.Fatalf("%s", a)
			}
		}
		nontrivial := false
		for _, tk := range tokens {
			nontrivial = nontrivial || tk.Kind != c19.KindOpaque
		}
		if len(caps) > 0 {
			labels = append(labels, "forwarded/framing="+route.framing)
			for _, p := range placed {
				if p.name != "" {
					labels = append(labels, "forwarded/param-name-percent-encoded/"+p.place)
				}
			}
		}
		stats.Case(stats.FP("legacy", raws, ids, res, route.name, route.framing, route.chunks), nontrivial && len(caps) > 0, labels...)
		stats.InfoAdd("raw_requests_scanned", int64(len(caps)))
		if len(caps) > 0 && len(placed) > 0 && stats.WantSample("legacy/"+placed[0].place) {
			stats.Sample("legacy/"+placed[0].place, map[string]interface{}{"route": route.name, "tokens": raws, "remote": remote, "received": string(caps[0].Raw)})
		}
	})
}
