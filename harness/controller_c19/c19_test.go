package controller

// C19 level (iv): the legacy federation path of lib/controller
// (setupProxyRemoteCluster -> genericFederatedRequestHandler / collection
// delegate -> remoteClusterRequest -> saltAuthToken -> proxy.Do), driven with
// server-side requests that carry 0-3 tokens in every placement, forwarding to
// a loopback server that records raw bytes. The api_client_authorizations
// lookup of validateAPItoken is answered by an in-memory database/sql driver
// (no PostgreSQL here), so the legacy-token branch is reachable too.

import (
	"bufio"
	"bytes"
	"context"
	"database/sql"
	"database/sql/driver"
	"errors"
	"fmt"
	"io"
	"net/http"
	"net/http/httptest"
	"net/url"
	"strings"
	"sync"
	"testing"

	"git.arvados.org/arvados.git/sdk/go/arvados"
	"git.arvados.org/arvados.git/sdk/go/auth"
	"github.com/jmoiron/sqlx"
	"pgregory.net/rapid"
	"verif.local/vcommon/c19"
	"verif.local/vcommon/stats"
)

const (
	c19KnownKey       = "c19-40char-nonhex-secret"
	c19KnownKeyForm   = "c19-legacy-form-body-token-not-salted"
	c19KnownKeyCookie = "c19-legacy-cookie-token-forwarded"
	c19KnownKeyPanic  = "c19-legacy-v2-two-segment-token-panics"
)

// ---------------------------------------------------------------- fake database

type c19DB struct {
	mu    sync.Mutex
	table map[string]c19.Resolution
	asked []string
}

func (db *c19DB) set(table map[string]c19.Resolution) {
	db.mu.Lock()
	db.table, db.asked = table, nil
	db.mu.Unlock()
}

type c19Connector struct{ db *c19DB }

func (c c19Connector) Connect(context.Context) (driver.Conn, error) { return &c19DBConn{c.db}, nil }
func (c c19Connector) Driver() driver.Driver                        { return c19Drv{} }

type c19Drv struct{}

func (c19Drv) Open(string) (driver.Conn, error) { return nil, errors.New("VERIF-INFRA: use the connector") }

type c19DBConn struct{ db *c19DB }

func (c *c19DBConn) Prepare(q string) (driver.Stmt, error) { return &c19Stmt{c.db, q}, nil }
func (c *c19DBConn) Close() error                          { return nil }
func (c *c19DBConn) Begin() (driver.Tx, error) {
	return nil, errors.New("VERIF-INFRA: fake database has no transactions")
}

type c19Stmt struct {
	db *c19DB
	q  string
}

func (s *c19Stmt) Close() error  { return nil }
func (s *c19Stmt) NumInput() int { return -1 }
func (s *c19Stmt) Exec([]driver.Value) (driver.Result, error) {
	return nil, errors.New("VERIF-INFRA: fake database is read-only: " + s.q)
}
func (s *c19Stmt) Query(args []driver.Value) (driver.Rows, error) {
	if !strings.Contains(s.q, "FROM api_client_authorizations JOIN users") || len(args) != 1 {
		return nil, errors.New("VERIF-INFRA: unexpected query: " + s.q)
	}
	tok, _ := args[0].(string)
	s.db.mu.Lock()
	defer s.db.mu.Unlock()
	s.db.asked = append(s.db.asked, tok)
	res, ok := s.db.table[tok]
	switch {
	case !ok || res.Status == 401:
		return &c19Rows{}, nil
	case res.Status != 200:
		return nil, errors.New("c19 fake database: lookup failed")
	}
	return &c19Rows{rows: [][]driver.Value{{res.UUID, `["all"]`, res.UUID[:5] + "-tpzed-" + res.UUID[12:]}}}, nil
}

type c19Rows struct{ rows [][]driver.Value }

func (r *c19Rows) Columns() []string { return []string{"uuid", "scopes", "uuid"} }
func (r *c19Rows) Close() error      { return nil }
func (r *c19Rows) Next(dest []driver.Value) error {
	if len(r.rows) == 0 {
		return io.EOF
	}
	copy(dest, r.rows[0])
	r.rows = r.rows[1:]
	return nil
}

// ---------------------------------------------------------------- request construction

var c19Placements = []string{"hdr-OAuth2", "hdr-Bearer", "hdr-Basic", "query", "form", "cookie"}

type c19Placed struct {
	tok   c19.Token
	place string
}

type c19Route struct {
	name, method, path string
	form               url.Values // non-token parameters; sent in the body when the method has one, else in the query
	hasBody            bool
}

func c19DrawRoute(t *rapid.T, remote string) c19Route {
	tail := rapid.StringMatching(`[0-9a-z]{15}`).Draw(t, "objTail")
	type rsc struct{ name, infix string }
	rs := rapid.SampledFrom([]rsc{{"workflows", "7fd4e"}, {"containers", "dz642"}, {"links", "o0j2j"}, {"container_requests", "xvhdp"}, {"collections", "4zz18"}}).Draw(t, "resource")
	uuidPath := "/arvados/v1/" + rs.name + "/" + remote + "-" + rs.infix + "-" + tail
	one := strings.TrimSuffix(rs.name, "s")
	switch k := rapid.IntRange(0, 6).Draw(t, "method"); {
	case k <= 1:
		return c19Route{name: "GET " + rs.name + "/uuid", method: "GET", path: uuidPath, form: url.Values{"select": {`["uuid","name"]`}}}
	case k == 2:
		return c19Route{name: "PATCH " + rs.name + "/uuid", method: "PATCH", path: uuidPath, form: url.Values{one: {`{"name":"c19 ` + tail + `"}`}}, hasBody: true}
	case k == 3:
		return c19Route{name: "PUT " + rs.name + "/uuid", method: "PUT", path: uuidPath, form: url.Values{one: {`{"name":"c19 ` + tail + `"}`}}, hasBody: true}
	case k == 4:
		return c19Route{name: "DELETE " + rs.name + "/uuid", method: "DELETE", path: uuidPath, form: url.Values{}}
	case k == 5 && rs.name != "container_requests":
		// create at the remote (container_requests POST hands the remote a
		// runtime token by design and is not part of this property)
		return c19Route{name: "POST " + rs.name + "?cluster_id", method: "POST", path: "/arvados/v1/" + rs.name,
			form: url.Values{"cluster_id": {remote}, one: {`{"name":"c19 ` + tail + `"}`}}, hasBody: true}
	}
	return c19Route{name: "POST(_method=GET) " + rs.name + "/uuid", method: "POST", path: uuidPath, form: url.Values{"_method": {"GET"}, "select": {`["uuid"]`}}, hasBody: true}
}

// c19Build produces the request as net/http's server would hand it to the
// handler (written to the wire format and read back with http.ReadRequest).
func c19Build(route c19Route, placed []c19Placed, reqid string) (*http.Request, error) {
	query := url.Values{}
	form := url.Values{}
	for k, v := range route.form {
		if route.hasBody {
			form[k] = v
		} else {
			query[k] = v
		}
	}
	hdr := http.Header{}
	var cookies []*http.Cookie
	for _, p := range placed {
		switch p.place {
		case "hdr-OAuth2":
			hdr.Set("Authorization", "OAuth2 "+p.tok.Raw)
		case "hdr-Bearer":
			hdr.Set("Authorization", "Bearer "+p.tok.Raw)
		case "hdr-Basic":
			r, _ := http.NewRequest("GET", "/", nil)
			r.SetBasicAuth("none", p.tok.Raw)
			hdr.Set("Authorization", r.Header.Get("Authorization"))
		case "query":
			query.Add("api_token", p.tok.Raw)
		case "form":
			form.Add("api_token", p.tok.Raw)
		case "cookie":
			cookies = append(cookies, &http.Cookie{Name: "arvados_api_token", Value: auth.EncodeTokenCookie([]byte(p.tok.Raw))})
		}
	}
	target := "http://controller.c19.example" + route.path
	if len(query) > 0 {
		target += "?" + query.Encode()
	}
	var body io.Reader
	if route.hasBody {
		body = strings.NewReader(form.Encode())
	}
	out, err := http.NewRequest(route.method, target, body)
	if err != nil {
		return nil, err
	}
	for k, v := range hdr {
		out.Header[k] = v
	}
	if route.hasBody {
		out.Header.Set("Content-Type", "application/x-www-form-urlencoded")
	}
	out.Header.Set("X-Request-Id", reqid)
	for _, c := range cookies {
		out.AddCookie(c)
	}
	var wire bytes.Buffer
	if err := out.Write(&wire); err != nil {
		return nil, err
	}
	in, err := http.ReadRequest(bufio.NewReader(&wire))
	if err != nil {
		return nil, err
	}
	in.RemoteAddr = "192.0.2.19:4444"
	return in, nil
}

type c19Env struct {
	db  *c19DB
	rec *c19.Recorder
	seq int
}

type c19Panic struct{ v interface{} }

func (p c19Panic) Error() string { return fmt.Sprintf("handler panicked: %v", p.v) }

func (e *c19Env) drive(localID, remote string, route c19Route, placed []c19Placed, table map[string]c19.Resolution, reqid string) (caps []c19.Captured, wentLocal bool, status int, err error) {
	e.db.set(table)
	cluster := &arvados.Cluster{ClusterID: localID, RemoteClusters: map[string]arvados.RemoteCluster{
		remote: {Host: e.rec.Addr, Scheme: "http", Proxy: true},
	}}
	cluster.API.MaxItemsPerResponse = 1000
	cluster.API.MaxRequestAmplification = 4
	h := &Handler{Cluster: cluster}
	h.pgdb = sqlx.NewDb(sql.OpenDB(c19Connector{e.db}), "postgres")
	defer h.pgdb.Close()
	h.proxy = &proxy{Name: "arvados-controller"}
	client := &http.Client{CheckRedirect: neverRedirect}
	h.secureClient, h.insecureClient = client, client
	next := http.HandlerFunc(func(w http.ResponseWriter, r *http.Request) {
		wentLocal = true
		w.WriteHeader(http.StatusTeapot)
	})
	req, err := c19Build(route, placed, reqid)
	if err != nil {
		return nil, false, 0, err
	}
	e.rec.Take()
	w := httptest.NewRecorder()
	func() {
		// net/http's server recovers handler panics (the client sees an aborted
		// connection); report them to the caller instead of dying here.
		defer func() {
			if v := recover(); v != nil {
				err = c19Panic{v}
			}
		}()
		h.setupProxyRemoteCluster(next).ServeHTTP(w, req)
	}()
	for _, c := range e.rec.Take() {
		if c.Header.Get("X-Request-Id") == reqid {
			caps = append(caps, c)
		}
	}
	return caps, wentLocal, w.Code, err
}

func TestVerifC19LegacyHandler(t *testing.T) {
	defer stats.Flush()
	env := &c19Env{db: &c19DB{}}
	var err error
	if env.rec, err = c19.NewRecorder(func(*c19.Captured) (int, string, []byte) {
		return 200, "application/json", []byte(`{}`)
	}); err != nil {
		t.Fatalf("VERIF-INFRA: %v", err)
	}
	defer env.rec.Close()
	rapid.Check(t, func(t *rapid.T) {
		ids := c19.DrawDistinctIDs(t, 3, "id")
		localID, remote := ids[0], ids[1]
		owners := []string{remote, localID, ids[2]}
		route := c19DrawRoute(t, remote)
		places := []string{"hdr-OAuth2", "hdr-Bearer", "hdr-Basic", "query", "cookie"}
		if route.hasBody {
			places = append(places, "form")
		}
		var tokens []c19.Token
		if rapid.IntRange(0, 19).Draw(t, "noToken") != 0 {
			tokens = c19.DrawTokens(t, owners, "tok")
		}
		var placed, ctlPlaced []c19Placed
		table := map[string]c19.Resolution{}
		ctlTable := map[string]c19.Resolution{}
		res := make([]c19.Resolution, len(tokens))
		hdrUsed := false
		for i, tk := range tokens {
			var place string
			for try := 0; ; try++ {
				place = rapid.SampledFrom(places).Draw(t, fmt.Sprintf("place%d.%d", i, try))
				if !(strings.HasPrefix(place, "hdr-") && hdrUsed) {
					break
				}
				if try > 20 {
					place = "query"
					break
				}
			}
			hdrUsed = hdrUsed || strings.HasPrefix(place, "hdr-")
			if place == "cookie" {
				for _, p := range placed {
					if p.place == "cookie" {
						place = "query" // one token cookie per request
					}
				}
			}
			ctl := c19.Control(tk)
			if tk.Kind == c19.KindLegacy {
				res[i] = c19.DrawResolution(t, owners, fmt.Sprintf("res%d", i))
				table[tk.Raw] = res[i]
				ctlTable[ctl.Raw] = res[i]
			}
			placed = append(placed, c19Placed{tk, place})
			ctlPlaced = append(ctlPlaced, c19Placed{ctl, place})
		}
		env.seq++
		reqid := fmt.Sprintf("req-c19verif%09d", env.seq)
		caps, wentLocal, status, derr := env.drive(localID, remote, route, placed, table, reqid)
		panicked := false
		if pe, ok := derr.(c19Panic); ok {
			// Narrow classifier: the token the legacy path picks is "v2/<one segment>".
			twoSeg := false
			var desc []string
			for _, p := range placed {
				desc = append(desc, p.place+":"+p.tok.Raw)
				seg := strings.Split(p.tok.Raw, "/")
				twoSeg = twoSeg || (len(seg) == 2 && seg[0] == "v2")
			}
			msg := fmt.Sprintf("%s with tokens %q: %v (tokens not in Arvados format are to be passed through unchanged)", route.name, desc, pe)
			if !(twoSeg && stats.Known(c19KnownKeyPanic, msg)) {
				t.Fatalf("%s", msg)
			}
			panicked = true
		} else if derr != nil {
			t.Fatalf("VERIF-INFRA: %v", derr)
		}

		labels := []string{"route=" + route.name, fmt.Sprintf("tokens=%d", len(tokens))}
		var raws []string
		fw := make([]c19.Forward, len(tokens))
		var legit []string
		mustForward := true
		for i, p := range placed {
			raws = append(raws, p.place+":"+p.tok.Raw)
			fw[i] = c19.ForwardFor(p.tok, remote, res[i])
			legit = append(legit, fw[i].Accept...)
			labels = append(labels, "place="+p.place, "tok:"+p.tok.Kind.String(), "fw:"+fw[i].Shape)
			if p.tok.Kind == c19.KindV2 {
				labels = append(labels, "secret="+p.tok.SecretClass())
			}
			switch fw[i].Shape {
			case "v2-salted", "opaque-asis", "legacy-unknown-asis", "legacy-remote-owned-asis", "legacy-salted":
			default:
				mustForward = false
			}
		}
		legit = append(legit, reqid)
		describe := func(c *c19.Captured) string {
			s := fmt.Sprintf("%s, local %q, remote %q, tokens %q, resolutions %+v, response status %d", route.name, localID, remote, raws, res, status)
			if c != nil {
				s += fmt.Sprintf(": request received by the remote:\n%q", c.Raw)
			}
			return s
		}
		known := map[string]bool{}
		switch {
		case len(caps) > 1:
			t.Fatalf("VERIF-INFRA: more than one forwarded request\n%s", describe(nil))
		case panicked:
			labels = append(labels, "outcome=panic", "known:"+c19KnownKeyPanic)
			if len(caps) > 0 {
				t.Fatalf("VERIF-INFRA: forwarded request after a panic\n%s", describe(nil))
			}
		case len(caps) == 0 && wentLocal:
			labels = append(labels, "outcome=handled-locally")
		case len(caps) == 0:
			labels = append(labels, "outcome=not-forwarded")
			if mustForward {
				t.Fatalf("nothing was forwarded although every token is forwardable (%+v)\n%s", fw, describe(nil))
			}
		default:
			labels = append(labels, "outcome=forwarded")
		}
		for ci := range caps {
			c := &caps[ci]
			if c.Err != "" {
				t.Fatalf("VERIF-INFRA: recorder could not parse request: %s\n%q", c.Err, c.Raw)
			}
			// (a) what the remote reads as the credential
			authz := c.Header["Authorization"]
			formOnly := len(placed) > 0
			for _, p := range placed {
				formOnly = formOnly && p.place == "form"
			}
			switch {
			case len(tokens) == 0:
				if len(authz) != 0 {
					t.Fatalf("request without token forwarded with Authorization %q\n%s", authz, describe(c))
				}
			case len(authz) != 1 || !strings.HasPrefix(authz[0], "Bearer "):
				msg := fmt.Sprintf("want exactly one Authorization: Bearer header, got %q\n%s", authz, describe(c))
				if len(authz) == 0 && formOnly && stats.Known(c19KnownKeyForm, msg) {
					known[c19KnownKeyForm] = true
					break
				}
				t.Fatalf("%s", msg)
			default:
				got := strings.TrimPrefix(authz[0], "Bearer ")
				ok := false
				var asIs *c19.Token
				for i := range placed {
					ok = ok || (!fw[i].Error && fw[i].Accepts(got))
					if got == placed[i].tok.Raw {
						asIs = &placed[i].tok
					}
				}
				if !ok {
					msg := fmt.Sprintf("forwarded credential %q is not the reference forwarding of any presented token (%+v)\n%s", got, fw, describe(c))
					if asIs != nil && asIs.In40NonHexRegion() && stats.Known(c19KnownKey, msg) {
						known[c19KnownKey] = true
						break
					}
					t.Fatalf("%s", msg)
				}
			}
			// (b) non-disclosure over the raw bytes, for every presented token
			var ctlCaps []c19.Captured
			ctlDone := false
			for i, p := range placed {
				if fw[i].Protected == "" {
					continue
				}
				needle, scan := c19.ScanNeedle(p.tok, fw[i].Protected)
				if !scan {
					labels = append(labels, "scan-skipped(short-secret)")
					continue
				}
				n := c19.Occurrences(c.Raw, needle, legit)
				if n == 0 {
					continue
				}
				ctlID := strings.Replace(reqid, "verif", "cntrl", 1)
				if !ctlDone {
					ctlCaps, _, _, _ = env.drive(localID, remote, route, ctlPlaced, ctlTable, ctlID)
					ctlDone = true
				}
				var ctlLegit []string
				for j := range placed {
					ctlLegit = append(ctlLegit, c19.ForwardFor(ctlPlaced[j].tok, remote, res[j]).Accept...)
				}
				ctlLegit = append(ctlLegit, ctlID)
				base := -1
				if len(ctlCaps) == 1 {
					base = c19.Occurrences(ctlCaps[0].Raw, needle, ctlLegit)
				}
				if base >= n {
					labels = append(labels, "secret-occurs-in-fixed-parts")
					continue
				}
				msg := fmt.Sprintf("secret of token %d (%s, %q) occurs %d time(s) in the forwarded bytes (control run: %d)\n%s", i, p.place, fw[i].Protected, n, base, describe(c))
				// Narrow classifiers. Each names one way the secret got out.
				params, _ := url.ParseQuery(string(c.Body))
				inFormBody := false
				for _, v := range params["api_token"] {
					inFormBody = inFormBody || v == p.tok.Raw
				}
				cookieLeak := false
				for _, ck := range (&http.Request{Header: c.Header}).Cookies() {
					if dec, err := auth.DecodeTokenCookie(ck.Value); err == nil && ck.Name == "arvados_api_token" && string(dec) == p.tok.Raw {
						cookieLeak = true
					}
				}
				switch {
				case p.tok.In40NonHexRegion() && len(authz) == 1 && authz[0] == "Bearer "+p.tok.Raw && stats.Known(c19KnownKey, msg):
					known[c19KnownKey] = true
				case p.place == "form" && inFormBody && stats.Known(c19KnownKeyForm, msg):
					known[c19KnownKeyForm] = true
				case p.place == "cookie" && cookieLeak && stats.Known(c19KnownKeyCookie, msg):
					known[c19KnownKeyCookie] = true
				default:
					t.Fatalf("%s", msg)
				}
			}
		}
		for k := range known {
			labels = append(labels, "known:"+k)
		}
		// the database is asked about bare (legacy or opaque) tokens only
		env.db.mu.Lock()
		asked := append([]string(nil), env.db.asked...)
		env.db.mu.Unlock()
		for _, a := range asked {
			if strings.HasPrefix(a, "VERIF-INFRA") {
				t.Fatalf("%s", a)
			}
		}
		nontrivial := false
		for _, tk := range tokens {
			nontrivial = nontrivial || tk.Kind != c19.KindOpaque
		}
		stats.Case(stats.FP("legacy", raws, ids, res, route.name), nontrivial && len(caps) > 0, labels...)
		stats.InfoAdd("raw_requests_scanned", int64(len(caps)))
		if len(caps) > 0 && len(placed) > 0 && stats.WantSample("legacy/"+placed[0].place) {
			stats.Sample("legacy/"+placed[0].place, map[string]interface{}{"route": route.name, "tokens": raws, "remote": remote, "received": string(caps[0].Raw)})
		}
	})
}
