//go:build verif
// +build verif

// Build-time stand-in for /repo/lib/controller/localdb/login_pam.go, presented
// through the overlay only (nothing in /repo is touched). The original imports
// the cgo package github.com/msteinert/pam, which needs <security/pam_appl.h>;
// that header is not installed in this sandbox, so without this stand-in neither
// lib/controller nor lib/controller/federation can be compiled at all. PAM
// password login is unrelated to property C19 (copy of the C18/C20 stand-in, kept separate so each key builds on its own). Logout and Login are copied
// unchanged; UserAuthenticate (the only PAM user) reports that PAM is unavailable.
package localdb

import (
	"context"
	"errors"
	"net/http"

	"git.arvados.org/arvados.git/sdk/go/arvados"
	"git.arvados.org/arvados.git/sdk/go/httpserver"
)

type pamLoginController struct {
	Cluster *arvados.Cluster
	Parent  *Conn
}

func (ctrl *pamLoginController) Logout(ctx context.Context, opts arvados.LogoutOptions) (arvados.LogoutResponse, error) {
	return noopLogout(ctrl.Cluster, opts)
}

func (ctrl *pamLoginController) Login(ctx context.Context, opts arvados.LoginOptions) (arvados.LoginResponse, error) {
	return arvados.LoginResponse{}, errors.New("interactive login is not available")
}

func (ctrl *pamLoginController) UserAuthenticate(ctx context.Context, opts arvados.UserAuthenticateOptions) (arvados.APIClientAuthorization, error) {
	return arvados.APIClientAuthorization{}, httpserver.ErrorWithStatus(errors.New("PAM is not available in the verification build"), http.StatusUnauthorized)
}
