package scheduler

// C14 part (a): scheduler-level state machine.
//
// A real Scheduler; runQueue() and sync() are rapid actions. The environment is
// an explicit model (vc14World) that implements both WorkerPool (instances and a
// process table) and ContainerQueue (API-side truth, the dispatcher's cache, and
// in-flight Lock/Unlock/Cancel calls that the machine completes with a drawn
// result). Invariants (checked at every pool call and after every step):
//
//  I1  at most one live crunch-run process per container across all instances;
//  I2  every StartContainer(it, c) is for a container that the queue (cache, as
//      the dispatcher sees it) has Locked with priority>0 at that moment, and that
//      is not reported by Running() (neither live nor an unacknowledged exit);
//  I3  (model self-check) a process is only ever placed on an idle instance with
//      IdleBehavior "run" and of the requested type;
//  I4  after sync(): every container that the cache shows Cancelled, Complete,
//      Queued (re-queued), on hold (priority 0) or that is not in the queue at
//      all, and that has a lingering (not yet acknowledged-as-exited) process,
//      received KillContainer - unless an earlier API call for that container is
//      still in flight (the per-container latch then defers the kill).
//
// All draws happen on the test goroutine at quiescent points: after every
// scheduler call the machine waits (goroutine count, no sleeps deciding anything)
// until every goroutine spawned by the scheduler has either finished or is
// parked inside a queue call.

import (
	"context"
	"fmt"
	"io/ioutil"
	"runtime"
	"sort"
	"strings"
	"sync"
	"testing"
	"time"

	"git.arvados.org/arvados.git/lib/dispatchcloud/container"
	"git.arvados.org/arvados.git/lib/dispatchcloud/test"
	"git.arvados.org/arvados.git/lib/dispatchcloud/worker"
	"git.arvados.org/arvados.git/sdk/go/arvados"
	"git.arvados.org/arvados.git/sdk/go/ctxlog"
	"github.com/sirupsen/logrus"
	"pgregory.net/rapid"
	"verif.local/vcommon/stats"
)

const (
	vc14Booting  = "booting"
	vc14Idle     = "idle"
	vc14Running  = "running"
	vc14Shutdown = "shutdown"
	vc14Unknown  = "unknown"

	vc14Run   = "run"
	vc14Hold  = "hold"
	vc14Drain = "drain"

	vc14PStarting = "starting"
	vc14PRunning  = "running"
	vc14PDead     = "dead-unreported" // crunch-run gone, pool has not noticed yet

	vc14MaxInstances = 3
)

type vc14Ctr struct {
	uuid  string
	state arvados.ContainerState // API-side truth
	prio  int64
	typ   int
}

type vc14Inst struct {
	id       int
	typ      int
	state    string
	behavior string
}

type vc14Proc struct {
	uuid       string
	inst       *vc14Inst
	phase      string
	hidden     bool // exists on a not yet probed (unknown) instance; the pool does not know it
	killReq    bool
	unkillable bool
}

func (p *vc14Proc) live() bool { return p.phase == vc14PStarting || p.phase == vc14PRunning }

type vc14Op struct {
	kind string // Lock Unlock Cancel
	uuid string
	done chan error
}

type vc14World struct {
	mu    sync.Mutex
	clock int64
	types []arvados.InstanceType

	// queue model
	ctrs         []*vc14Ctr
	cache        map[string]container.QueueEnt
	cacheUpdated time.Time
	parked       []*vc14Op
	phase        string
	unlockScript []bool
	createScript []bool

	// pool model
	insts   []*vc14Inst
	nextID  int
	procs   []*vc14Proc
	exited  map[string]time.Time
	atQuota bool

	// observation
	hist       []string
	violations []string
	killCalls  map[string]int
	flags      map[string]bool
	starts     map[string]int
}

func (w *vc14World) now() time.Time {
	w.clock++
	return time.Unix(2000000000+w.clock, 0)
}

func vc14Short(uuid string) string { return "c" + uuid[len(uuid)-1:] }

func (w *vc14World) logf(format string, args ...interface{}) {
	w.hist = append(w.hist, fmt.Sprintf(format, args...))
}

func (w *vc14World) violate(format string, args ...interface{}) {
	msg := fmt.Sprintf(format, args...)
	w.violations = append(w.violations, msg)
	w.hist = append(w.hist, "!! "+msg)
}

func (w *vc14World) ctr(uuid string) *vc14Ctr {
	for _, c := range w.ctrs {
		if c.uuid == uuid {
			return c
		}
	}
	return nil
}

func (w *vc14World) procsOn(in *vc14Inst, includeHidden bool) int {
	n := 0
	for _, p := range w.procs {
		if p.inst == in && (includeHidden || !p.hidden) {
			n++
		}
	}
	return n
}

func (w *vc14World) removeProc(p *vc14Proc) {
	for i, q := range w.procs {
		if q == p {
			w.procs = append(w.procs[:i], w.procs[i+1:]...)
			return
		}
	}
}

func (w *vc14World) removeInst(in *vc14Inst) {
	for i, q := range w.insts {
		if q == in {
			w.insts = append(w.insts[:i], w.insts[i+1:]...)
			return
		}
	}
}

// reveal makes hidden processes of uuid ("" = on instance in) known to the pool,
// as a completed probe would.
func (w *vc14World) reveal(uuid string, in *vc14Inst) {
	for _, p := range w.procs {
		if p.hidden && (uuid != "" && p.uuid == uuid || in != nil && p.inst == in) {
			p.hidden = false
			p.inst.state = vc14Running
			w.logf("  probe reveals process %s on i%d", vc14Short(p.uuid), p.inst.id)
		}
	}
}

// ---------------------------------------------------------------- WorkerPool

func (w *vc14World) Subscribe() <-chan struct{}  { return make(chan struct{}) }
func (w *vc14World) Unsubscribe(<-chan struct{}) {}

func (w *vc14World) runningLocked() map[string]time.Time {
	r := map[string]time.Time{}
	for _, p := range w.procs {
		if !p.hidden {
			r[p.uuid] = time.Time{}
		}
	}
	for uuid, t := range w.exited {
		r[uuid] = t
	}
	return r
}

func (w *vc14World) Running() map[string]time.Time {
	w.mu.Lock()
	defer w.mu.Unlock()
	return w.runningLocked()
}

func (w *vc14World) Unallocated() map[arvados.InstanceType]int {
	w.mu.Lock()
	defer w.mu.Unlock()
	r := map[arvados.InstanceType]int{}
	for _, in := range w.insts {
		if in.state == vc14Shutdown || in.state == vc14Running || in.behavior != vc14Run || w.procsOn(in, false) > 0 {
			continue
		}
		r[w.types[in.typ]]++
	}
	return r
}

func (w *vc14World) CountWorkers() map[worker.State]int {
	w.mu.Lock()
	defer w.mu.Unlock()
	r := map[worker.State]int{}
	for _, in := range w.insts {
		switch in.state {
		case vc14Booting:
			r[worker.StateBooting]++
		case vc14Idle:
			r[worker.StateIdle]++
		case vc14Running:
			r[worker.StateRunning]++
		case vc14Shutdown:
			r[worker.StateShutdown]++
		case vc14Unknown:
			r[worker.StateUnknown]++
		}
	}
	return r
}

func (w *vc14World) AtQuota() bool {
	w.mu.Lock()
	defer w.mu.Unlock()
	return w.atQuota
}

func (w *vc14World) typeIndex(it arvados.InstanceType) int {
	for i, t := range w.types {
		if t == it {
			return i
		}
	}
	return -1
}

func (w *vc14World) Create(it arvados.InstanceType) bool {
	w.mu.Lock()
	defer w.mu.Unlock()
	ok := false
	if len(w.createScript) > 0 {
		ok, w.createScript = w.createScript[0], w.createScript[1:]
	}
	ti := w.typeIndex(it)
	if ti < 0 || len(w.insts) >= vc14MaxInstances || w.atQuota {
		ok = false
	}
	if ok {
		w.nextID++
		w.insts = append(w.insts, &vc14Inst{id: w.nextID, typ: ti, state: vc14Booting, behavior: vc14Run})
	}
	w.logf("  Create(%s)=%v", it.Name, ok)
	return ok
}

func (w *vc14World) Shutdown(it arvados.InstanceType) bool {
	w.mu.Lock()
	defer w.mu.Unlock()
	ti := w.typeIndex(it)
	for _, try := range []string{vc14Booting, vc14Idle} {
		for _, in := range w.insts {
			if in.behavior != vc14Hold && in.state == try && in.typ == ti {
				in.state = vc14Shutdown
				w.logf("  Shutdown(%s)=true i%d", it.Name, in.id)
				return true
			}
		}
	}
	w.logf("  Shutdown(%s)=false", it.Name)
	return false
}

func (w *vc14World) StartContainer(it arvados.InstanceType, ctr arvados.Container) bool {
	w.mu.Lock()
	defer w.mu.Unlock()
	uuid := ctr.UUID
	// I2
	ent, ok := w.cache[uuid]
	switch {
	case !ok:
		w.violate("I2: StartContainer(%s) for a container that is not in the queue", vc14Short(uuid))
	case ent.Container.State != arvados.ContainerStateLocked:
		w.violate("I2: StartContainer(%s) while the queue has it in state %s (not Locked)", vc14Short(uuid), ent.Container.State)
	case ent.Container.Priority < 1:
		w.violate("I2: StartContainer(%s) while its priority is %d", vc14Short(uuid), ent.Container.Priority)
	}
	if t, reported := w.runningLocked()[uuid]; reported {
		what := "a live process"
		if !t.IsZero() {
			what = "an exited process whose outcome has not been acknowledged"
		}
		w.violate("I2: StartContainer(%s) although Running() reports %s for it", vc14Short(uuid), what)
	}
	ti := w.typeIndex(it)
	var target *vc14Inst
	for _, in := range w.insts {
		if in.typ == ti && in.state == vc14Idle && in.behavior == vc14Run && w.procsOn(in, true) == 0 {
			target = in
			break
		}
	}
	if target == nil {
		w.logf("  StartContainer(%s,%s)=false", it.Name, vc14Short(uuid))
		return false
	}
	// I1
	for _, p := range w.procs {
		if p.uuid == uuid && p.live() {
			w.violate("I1: second crunch-run for %s started on i%d while one is alive on i%d (phase %s, hidden=%v)", vc14Short(uuid), target.id, p.inst.id, p.phase, p.hidden)
		}
	}
	// I3 (self-check of the model's placement)
	if target.state != vc14Idle || target.behavior != vc14Run || target.typ != ti {
		w.violate("VERIF-INFRA: model placed a process on an ineligible instance")
	}
	w.procs = append(w.procs, &vc14Proc{uuid: uuid, inst: target, phase: vc14PStarting})
	target.state = vc14Running
	w.starts[uuid]++
	if w.starts[uuid] > 1 {
		w.flags["restarted-after-earlier-process-ended"] = true
	}
	w.flags["started"] = true
	w.logf("  StartContainer(%s,%s)=true on i%d", it.Name, vc14Short(uuid), target.id)
	return true
}

func (w *vc14World) KillContainer(uuid, reason string) bool {
	w.mu.Lock()
	defer w.mu.Unlock()
	// A probe of a not-yet-probed instance may complete at any moment; the model
	// lets it complete no later than the pool's lookup for this container.
	w.reveal(uuid, nil)
	w.killCalls[uuid]++
	found := false
	for _, p := range w.procs {
		if p.uuid == uuid && !p.hidden {
			p.killReq = true
			found = true
		}
	}
	if found {
		switch {
		case strings.HasPrefix(reason, "about to start"):
			w.flags["kill-guard-before-start-hit"] = true
		case strings.HasPrefix(reason, "about to lock"):
			w.flags["kill-guard-before-lock-hit"] = true
		default:
			w.flags["sync-killed-lingering-process"] = true
		}
	}
	w.logf("  KillContainer(%s,%q)=%v", vc14Short(uuid), reason, found)
	return found
}

func (w *vc14World) ForgetContainer(uuid string) {
	w.mu.Lock()
	defer w.mu.Unlock()
	if _, ok := w.exited[uuid]; ok {
		delete(w.exited, uuid)
		w.logf("  ForgetContainer(%s)", vc14Short(uuid))
	}
}

// ------------------------------------------------------------ ContainerQueue

func (w *vc14World) Entries() (map[string]container.QueueEnt, time.Time) {
	w.mu.Lock()
	defer w.mu.Unlock()
	r := make(map[string]container.QueueEnt, len(w.cache))
	for k, v := range w.cache {
		r[k] = v
	}
	return r, w.cacheUpdated
}

func (w *vc14World) Get(uuid string) (arvados.Container, bool) {
	w.mu.Lock()
	defer w.mu.Unlock()
	ent, ok := w.cache[uuid]
	return ent.Container, ok
}

func (w *vc14World) Forget(uuid string) {
	w.mu.Lock()
	defer w.mu.Unlock()
	ent, ok := w.cache[uuid]
	if !ok {
		return
	}
	c := ent.Container
	if c.State == arvados.ContainerStateComplete || c.State == arvados.ContainerStateCancelled || (c.State == arvados.ContainerStateQueued && c.Priority == 0) {
		delete(w.cache, uuid)
		w.logf("  Forget(%s)", vc14Short(uuid))
	}
}

func (w *vc14World) Update() error { return nil }

// apply performs an API call on the model: the API accepts it only if the
// drawn answer says so and the transition is legal for the API-side state.
// Caller holds mu.
func (w *vc14World) apply(kind, uuid string, accept bool) error {
	c := w.ctr(uuid)
	legal := false
	if c != nil {
		switch kind {
		case "Lock":
			legal = c.state == arvados.ContainerStateQueued && c.prio > 0
		case "Unlock":
			legal = c.state == arvados.ContainerStateLocked
		case "Cancel":
			legal = c.state == arvados.ContainerStateQueued || c.state == arvados.ContainerStateLocked || c.state == arvados.ContainerStateRunning
		}
	}
	if !accept || !legal {
		if kind == "Lock" {
			w.flags["lock-failed"] = true
		}
		w.logf("  api %s(%s) -> error (accept=%v legal=%v)", kind, vc14Short(uuid), accept, legal)
		return fmt.Errorf("stub api: %s %s refused", kind, uuid)
	}
	switch kind {
	case "Lock":
		c.state = arvados.ContainerStateLocked
	case "Unlock":
		c.state = arvados.ContainerStateQueued
	case "Cancel":
		c.state = arvados.ContainerStateCancelled
	}
	if ent, ok := w.cache[uuid]; ok {
		ent.Container.State, ent.Container.Priority = c.state, c.prio
		w.cache[uuid] = ent
	}
	w.logf("  api %s(%s) -> ok, now %s prio %d", kind, vc14Short(uuid), c.state, c.prio)
	return nil
}

func (w *vc14World) call(kind, uuid string) error {
	w.mu.Lock()
	if w.phase == "runQueue" && kind == "Unlock" {
		// runQueue unlocks synchronously on the scheduler's own goroutine.
		accept := true
		if len(w.unlockScript) > 0 {
			accept, w.unlockScript = w.unlockScript[0], w.unlockScript[1:]
		}
		w.flags["unlock-at-quota"] = true
		err := w.apply(kind, uuid, accept)
		w.mu.Unlock()
		return err
	}
	op := &vc14Op{kind: kind, uuid: uuid, done: make(chan error, 1)}
	w.parked = append(w.parked, op)
	w.logf("  %s(%s) called, in flight", kind, vc14Short(uuid))
	w.mu.Unlock()
	return <-op.done
}

func (w *vc14World) Lock(uuid string) error   { return w.call("Lock", uuid) }
func (w *vc14World) Unlock(uuid string) error { return w.call("Unlock", uuid) }
func (w *vc14World) Cancel(uuid string) error { return w.call("Cancel", uuid) }

// refreshCache is the queue's Update(): the cache takes the API-side truth.
// Caller holds mu.
func (w *vc14World) refreshCache() {
	for _, c := range w.ctrs {
		ent, ok := w.cache[c.uuid]
		if !ok {
			if !((c.state == arvados.ContainerStateQueued && c.prio > 0) || c.state == arvados.ContainerStateLocked || c.state == arvados.ContainerStateRunning) {
				continue
			}
			ent = container.QueueEnt{InstanceType: w.types[c.typ]}
		}
		ent.Container = arvados.Container{UUID: c.uuid, State: c.state, Priority: c.prio}
		w.cache[c.uuid] = ent
	}
	w.cacheUpdated = w.now()
}

// ---------------------------------------------------------------- machine

var vc14Logger = func() logrus.FieldLogger {
	l := logrus.New()
	l.Out = ioutil.Discard
	l.Level = logrus.ErrorLevel
	return l
}()

type vc14Machine struct {
	w    *vc14World
	sch  *Scheduler
	base int
	fp   []string // main-goroutine events only (deterministic)
	nRQ  int
	nSy  int
}

func (m *vc14Machine) dump() string {
	w := m.w
	var sb strings.Builder
	sb.WriteString("state: ctrs[")
	for _, c := range w.ctrs {
		ent, ok := w.cache[c.uuid]
		cs := "absent"
		if ok {
			cs = fmt.Sprintf("%s/%d", ent.Container.State, ent.Container.Priority)
		}
		fmt.Fprintf(&sb, "%s api=%s/%d cache=%s t%d; ", vc14Short(c.uuid), c.state, c.prio, cs, c.typ)
	}
	sb.WriteString("] insts[")
	for _, in := range w.insts {
		fmt.Fprintf(&sb, "i%d t%d %s/%s; ", in.id, in.typ, in.state, in.behavior)
	}
	sb.WriteString("] procs[")
	for _, p := range w.procs {
		fmt.Fprintf(&sb, "%s@i%d %s hidden=%v kill=%v; ", vc14Short(p.uuid), p.inst.id, p.phase, p.hidden, p.killReq)
	}
	fmt.Fprintf(&sb, "] exited=%d parked=%d atQuota=%v\nhistory:\n", len(w.exited), len(w.parked), w.atQuota)
	h := w.hist
	if len(h) > 150 {
		h = h[len(h)-150:]
	}
	sb.WriteString(strings.Join(h, "\n"))
	return sb.String()
}

// quiesce waits until every goroutine spawned by the scheduler has finished or
// is parked in a queue call. The time it takes decides nothing.
func (m *vc14Machine) quiesce(t *rapid.T) {
	deadline := time.Now().Add(120 * time.Second)
	for i := 0; ; i++ {
		m.w.mu.Lock()
		parked := len(m.w.parked)
		m.w.mu.Unlock()
		n := runtime.NumGoroutine()
		if n == m.base+parked {
			// every held latch must belong to a parked call
			m.sch.mtx.Lock()
			held := len(m.sch.uuidOp)
			m.sch.mtx.Unlock()
			if held <= parked {
				return
			}
		}
		if i < 200 {
			runtime.Gosched()
		} else {
			time.Sleep(50 * time.Microsecond)
		}
		if i%1000 == 999 && time.Now().After(deadline) {
			m.w.mu.Lock()
			d := m.dump()
			m.w.mu.Unlock()
			t.Fatalf("VERIF-INFRA: scheduler goroutines did not settle: goroutines=%d base=%d parked=%d\n%s", n, m.base, parked, d)
		}
	}
}

func (m *vc14Machine) event(format string, args ...interface{}) {
	s := fmt.Sprintf(format, args...)
	m.fp = append(m.fp, s)
	m.w.logf("%s", s)
}

func (m *vc14Machine) failIfViolated(t *rapid.T) {
	m.w.mu.Lock()
	defer m.w.mu.Unlock()
	if len(m.w.violations) > 0 {
		t.Fatalf("%s\n%s", strings.Join(m.w.violations, "\n"), m.dump())
	}
}

func vc14Bools(t *rapid.T, label string, n, pctTrue int) []bool {
	out := make([]bool, n)
	for i := range out {
		out[i] = rapid.IntRange(0, 99).Draw(t, label) < pctTrue
	}
	return out
}

func (m *vc14Machine) actRunQueue(t *rapid.T) {
	w := m.w
	unl := vc14Bools(t, "unlockAccepted", 4, 80)
	cre := vc14Bools(t, "createOK", 4, 70)
	w.mu.Lock()
	w.unlockScript, w.createScript = unl, cre
	w.phase = "runQueue"
	for _, op := range w.parked {
		if op.kind == "Lock" {
			w.flags["lock-in-flight-across-runQueue"] = true
		} else {
			w.flags["unlock-or-cancel-in-flight-across-runQueue"] = true
		}
	}
	m.event("runQueue unlockScript=%v createScript=%v", unl, cre)
	w.mu.Unlock()
	m.sch.runQueue()
	w.mu.Lock()
	w.phase = ""
	w.mu.Unlock()
	m.quiesce(t)
	m.nRQ++
}

func (m *vc14Machine) actSync(t *rapid.T) {
	w := m.w
	w.mu.Lock()
	w.phase = "sync"
	w.killCalls = map[string]int{}
	busy := map[string]bool{}
	for _, op := range w.parked {
		busy[op.uuid] = true
	}
	// I4 expectation, from the model state the scheduler is about to read
	expect := map[string]string{}
	for _, p := range w.procs {
		if p.hidden {
			continue
		}
		ent, ok := w.cache[p.uuid]
		why := ""
		switch {
		case !ok:
			why = "not in queue"
		case ent.Container.State == arvados.ContainerStateCancelled || ent.Container.State == arvados.ContainerStateComplete:
			why = "state " + string(ent.Container.State)
		case ent.Container.State == arvados.ContainerStateQueued:
			why = "re-queued (state Queued)"
		case ent.Container.Priority == 0:
			why = "on hold (priority 0)"
		}
		if why != "" {
			if busy[p.uuid] {
				w.flags["sync-kill-deferred-by-latch"] = true
			} else {
				expect[p.uuid] = why
			}
		}
	}
	m.event("sync")
	w.mu.Unlock()
	m.sch.sync()
	w.mu.Lock()
	w.phase = ""
	w.mu.Unlock()
	m.quiesce(t)
	w.mu.Lock()
	uuids := make([]string, 0, len(expect))
	for uuid := range expect {
		uuids = append(uuids, uuid)
	}
	sort.Strings(uuids)
	for _, uuid := range uuids {
		if w.killCalls[uuid] == 0 {
			w.violate("I4: container %s (%s) has a lingering process but sync() did not ask the pool to kill it", vc14Short(uuid), expect[uuid])
		} else {
			w.flags["sync-kill-expected-and-done"] = true
		}
	}
	w.mu.Unlock()
	m.nSy++
}

func (m *vc14Machine) actUpdate(t *rapid.T) {
	w := m.w
	w.mu.Lock()
	defer w.mu.Unlock()
	w.refreshCache()
	m.event("queue.Update")
}

func (m *vc14Machine) actCompleteOp(t *rapid.T) {
	w := m.w
	w.mu.Lock()
	if len(w.parked) == 0 {
		w.mu.Unlock()
		t.Skip("no call in flight")
	}
	ops := append([]*vc14Op(nil), w.parked...)
	w.mu.Unlock()
	sort.Slice(ops, func(i, j int) bool {
		if ops[i].uuid != ops[j].uuid {
			return ops[i].uuid < ops[j].uuid
		}
		return ops[i].kind < ops[j].kind
	})
	op := ops[rapid.IntRange(0, len(ops)-1).Draw(t, "op")]
	accept := rapid.IntRange(0, 99).Draw(t, "accepted") < 75
	w.mu.Lock()
	m.event("complete %s(%s) accept=%v", op.kind, vc14Short(op.uuid), accept)
	err := w.apply(op.kind, op.uuid, accept)
	for i, q := range w.parked {
		if q == op {
			w.parked = append(w.parked[:i], w.parked[i+1:]...)
			break
		}
	}
	w.mu.Unlock()
	op.done <- err
	m.quiesce(t)
}

func (m *vc14Machine) pickInst(t *rapid.T, label string, pred func(*vc14Inst) bool) *vc14Inst {
	var c []*vc14Inst
	for _, in := range m.w.insts {
		if pred(in) {
			c = append(c, in)
		}
	}
	if len(c) == 0 {
		return nil
	}
	return c[rapid.IntRange(0, len(c)-1).Draw(t, label)]
}

func (m *vc14Machine) pickProc(t *rapid.T, label string, pred func(*vc14Proc) bool) *vc14Proc {
	var c []*vc14Proc
	for _, p := range m.w.procs {
		if pred(p) {
			c = append(c, p)
		}
	}
	if len(c) == 0 {
		return nil
	}
	return c[rapid.IntRange(0, len(c)-1).Draw(t, label)]
}

func (m *vc14Machine) pickCtr(t *rapid.T, label string, pred func(*vc14Ctr) bool) *vc14Ctr {
	var c []*vc14Ctr
	for _, x := range m.w.ctrs {
		if pred(x) {
			c = append(c, x)
		}
	}
	if len(c) == 0 {
		return nil
	}
	return c[rapid.IntRange(0, len(c)-1).Draw(t, label)]
}

// settleInst applies the pool's own reaction to an instance that has nothing
// left to do: a draining one is shut down.
func (w *vc14World) settleInst(in *vc14Inst) {
	if in.state == vc14Idle && in.behavior == vc14Drain {
		in.state = vc14Shutdown
	}
}

func (m *vc14Machine) actInstBoot(t *rapid.T) {
	w := m.w
	w.mu.Lock()
	defer w.mu.Unlock()
	in := m.pickInst(t, "inst", func(in *vc14Inst) bool { return in.state == vc14Booting })
	if in == nil {
		t.Skip("nothing booting")
	}
	in.state = vc14Idle
	w.settleInst(in)
	m.event("instance i%d booted -> %s", in.id, in.state)
}

func (m *vc14Machine) actInstProbe(t *rapid.T) {
	w := m.w
	w.mu.Lock()
	defer w.mu.Unlock()
	in := m.pickInst(t, "inst", func(in *vc14Inst) bool { return in.state == vc14Unknown })
	if in == nil {
		t.Skip("no unknown instance")
	}
	m.event("instance i%d probed", in.id)
	in.state = vc14Idle
	w.reveal("", in)
	w.settleInst(in)
}

func (m *vc14Machine) actInstGone(t *rapid.T) {
	w := m.w
	w.mu.Lock()
	defer w.mu.Unlock()
	in := m.pickInst(t, "inst", func(in *vc14Inst) bool { return true })
	if in == nil {
		t.Skip("no instance")
	}
	m.event("instance i%d (%s) disappears with its processes", in.id, in.state)
	for i := len(w.procs) - 1; i >= 0; i-- {
		if w.procs[i].inst == in {
			w.flags["process-lost-with-instance"] = true
			w.procs = append(w.procs[:i], w.procs[i+1:]...)
		}
	}
	w.removeInst(in)
}

func (m *vc14Machine) actInstBehavior(t *rapid.T) {
	w := m.w
	w.mu.Lock()
	defer w.mu.Unlock()
	in := m.pickInst(t, "inst", func(in *vc14Inst) bool { return in.state != vc14Shutdown })
	if in == nil {
		t.Skip("no instance")
	}
	b := rapid.SampledFrom([]string{vc14Run, vc14Hold, vc14Drain}).Draw(t, "behavior")
	if b == in.behavior {
		t.Skip("unchanged")
	}
	in.behavior = b
	w.settleInst(in)
	w.flags["idle-behavior-changed"] = true
	m.event("instance i%d idle behavior -> %s (%s)", in.id, b, in.state)
}

func (m *vc14Machine) actProcRunning(t *rapid.T) {
	w := m.w
	w.mu.Lock()
	defer w.mu.Unlock()
	p := m.pickProc(t, "proc", func(p *vc14Proc) bool { return p.phase == vc14PStarting })
	if p == nil {
		t.Skip("no starting process")
	}
	p.phase = vc14PRunning
	c := w.ctr(p.uuid)
	setRunning := rapid.Bool().Draw(t, "crunchRunSetsRunning")
	if setRunning && c.state == arvados.ContainerStateLocked {
		c.state = arvados.ContainerStateRunning
	}
	m.event("process %s on i%d is running (api state %s)", vc14Short(p.uuid), p.inst.id, c.state)
}

// finalize models crunch-run's last API update.
func (w *vc14World) finalize(c *vc14Ctr, complete bool) {
	switch c.state {
	case arvados.ContainerStateLocked:
		if complete {
			c.state = arvados.ContainerStateComplete // Locked -> Running -> Complete
		} else {
			c.state = arvados.ContainerStateCancelled
		}
	case arvados.ContainerStateRunning:
		if complete {
			c.state = arvados.ContainerStateComplete
		} else {
			c.state = arvados.ContainerStateCancelled
		}
	}
}

func (m *vc14Machine) actProcExit(t *rapid.T) {
	w := m.w
	w.mu.Lock()
	defer w.mu.Unlock()
	p := m.pickProc(t, "proc", func(p *vc14Proc) bool { return p.live() && !p.unkillable })
	if p == nil {
		t.Skip("no live process")
	}
	c := w.ctr(p.uuid)
	fin := rapid.SampledFrom([]string{"none", "none", "complete", "cancelled"}).Draw(t, "finalize")
	before := c.state
	if fin != "none" {
		w.finalize(c, fin == "complete")
	}
	if c.state == before && (before == arvados.ContainerStateLocked || before == arvados.ContainerStateRunning) {
		w.flags["exit-without-finalizing"] = true
	}
	m.event("process %s on i%d exits (finalize=%s, api %s -> %s, hidden=%v)", vc14Short(p.uuid), p.inst.id, fin, before, c.state, p.hidden)
	if p.hidden {
		w.removeProc(p) // a later probe simply will not list it
		return
	}
	p.phase = vc14PDead
}

func (m *vc14Machine) reportExit(p *vc14Proc) {
	w := m.w
	w.removeProc(p)
	w.exited[p.uuid] = w.now()
	if w.procsOn(p.inst, true) == 0 && p.inst.state == vc14Running {
		p.inst.state = vc14Idle
		w.settleInst(p.inst)
	}
}

func (m *vc14Machine) actProcReported(t *rapid.T) {
	w := m.w
	w.mu.Lock()
	defer w.mu.Unlock()
	p := m.pickProc(t, "proc", func(p *vc14Proc) bool { return p.phase == vc14PDead })
	if p == nil {
		t.Skip("no unreported exit")
	}
	m.event("pool notices exit of %s on i%d", vc14Short(p.uuid), p.inst.id)
	m.reportExit(p)
}

func (m *vc14Machine) actProcKilled(t *rapid.T) {
	w := m.w
	w.mu.Lock()
	defer w.mu.Unlock()
	p := m.pickProc(t, "proc", func(p *vc14Proc) bool { return p.killReq && !p.hidden && !p.unkillable })
	if p == nil {
		t.Skip("no kill pending")
	}
	c := w.ctr(p.uuid)
	if p.live() && rapid.Bool().Draw(t, "cancelsOnSignal") {
		w.finalize(c, false)
	}
	m.event("kill of %s on i%d takes effect (api %s)", vc14Short(p.uuid), p.inst.id, c.state)
	m.reportExit(p)
}

func (m *vc14Machine) actProcUnkillable(t *rapid.T) {
	w := m.w
	w.mu.Lock()
	defer w.mu.Unlock()
	p := m.pickProc(t, "proc", func(p *vc14Proc) bool { return p.live() && !p.unkillable && !p.hidden })
	if p == nil {
		t.Skip("no live process")
	}
	p.unkillable = true
	w.flags["unkillable-process"] = true
	m.event("process %s on i%d becomes unkillable", vc14Short(p.uuid), p.inst.id)
}

func vc14Final(s arvados.ContainerState) bool {
	return s == arvados.ContainerStateComplete || s == arvados.ContainerStateCancelled
}

func (m *vc14Machine) actAPIPriority(t *rapid.T) {
	w := m.w
	w.mu.Lock()
	defer w.mu.Unlock()
	c := m.pickCtr(t, "ctr", func(c *vc14Ctr) bool { return !vc14Final(c.state) })
	if c == nil {
		t.Skip("all final")
	}
	p := int64(rapid.SampledFrom([]int{1, 0, 2, 3, 1, 2}).Draw(t, "prio"))
	if p == c.prio {
		t.Skip("unchanged")
	}
	if p == 0 {
		w.flags["put-on-hold"] = true
	}
	c.prio = p
	m.event("api: priority of %s -> %d", vc14Short(c.uuid), p)
}

func (m *vc14Machine) actAPICancel(t *rapid.T) {
	w := m.w
	w.mu.Lock()
	defer w.mu.Unlock()
	c := m.pickCtr(t, "ctr", func(c *vc14Ctr) bool { return !vc14Final(c.state) })
	if c == nil {
		t.Skip("all final")
	}
	c.state = arvados.ContainerStateCancelled
	w.flags["cancelled-by-user"] = true
	m.event("api: %s cancelled", vc14Short(c.uuid))
}

func (m *vc14Machine) actAPIRequeue(t *rapid.T) {
	w := m.w
	w.mu.Lock()
	defer w.mu.Unlock()
	c := m.pickCtr(t, "ctr", func(c *vc14Ctr) bool { return c.state == arvados.ContainerStateLocked })
	if c == nil {
		t.Skip("none locked")
	}
	c.state = arvados.ContainerStateQueued
	w.flags["requeued-behind-dispatchers-back"] = true
	m.event("api: %s unlocked by another client of the same token", vc14Short(c.uuid))
}

func (m *vc14Machine) actQuota(t *rapid.T) {
	w := m.w
	w.mu.Lock()
	defer w.mu.Unlock()
	w.atQuota = !w.atQuota
	m.event("pool atQuota -> %v", w.atQuota)
}

func (m *vc14Machine) check(t *rapid.T) {
	m.failIfViolated(t)
	w := m.w
	w.mu.Lock()
	defer w.mu.Unlock()
	live := map[string]int{}
	for _, p := range w.procs {
		if p.live() {
			live[p.uuid]++
		}
	}
	for uuid, n := range live {
		if n > 1 {
			t.Fatalf("I1: %d live processes for %s\n%s", n, vc14Short(uuid), m.dump())
		}
	}
	for _, in := range w.insts {
		if n := w.procsOn(in, true); n > 1 {
			t.Fatalf("VERIF-INFRA: model has %d processes on i%d\n%s", n, in.id, m.dump())
		}
	}
}

func vc14Setup(t *rapid.T) *vc14Machine {
	w := &vc14World{
		cache:     map[string]container.QueueEnt{},
		exited:    map[string]time.Time{},
		killCalls: map[string]int{},
		flags:     map[string]bool{},
		starts:    map[string]int{},
	}
	nTypes := rapid.SampledFrom([]int{1, 2, 1}).Draw(t, "nTypes")
	for i := 0; i < nTypes; i++ {
		w.types = append(w.types, test.InstanceType(i+1))
	}
	nCtrs := rapid.SampledFrom([]int{2, 1, 3, 4, 3, 4}).Draw(t, "nContainers")
	for i := 0; i < nCtrs; i++ {
		c := &vc14Ctr{uuid: test.ContainerUUID(i + 1)}
		c.state = rapid.SampledFrom([]arvados.ContainerState{
			arvados.ContainerStateQueued, arvados.ContainerStateLocked, arvados.ContainerStateQueued, arvados.ContainerStateLocked,
			arvados.ContainerStateQueued, arvados.ContainerStateLocked, arvados.ContainerStateRunning,
			arvados.ContainerStateComplete, arvados.ContainerStateCancelled,
		}).Draw(t, "state")
		c.prio = int64(rapid.SampledFrom([]int{1, 2, 3, 0, 1, 2, 3}).Draw(t, "prio"))
		c.typ = rapid.IntRange(0, nTypes-1).Draw(t, "type")
		w.ctrs = append(w.ctrs, c)
	}
	// restart scenario: the dispatcher has just been restarted, it has not probed
	// any instance yet, and most active containers have a process somewhere
	restart := rapid.IntRange(0, 4).Draw(t, "restartScenario") == 2
	nInsts := rapid.SampledFrom([]int{2, 1, 3, 2, 3}).Draw(t, "nInstances")
	for i := 0; i < nInsts; i++ {
		w.nextID++
		in := &vc14Inst{id: w.nextID}
		in.typ = rapid.IntRange(0, nTypes-1).Draw(t, "instType")
		in.state = rapid.SampledFrom([]string{vc14Idle, vc14Booting, vc14Idle, vc14Unknown, vc14Idle}).Draw(t, "instState")
		in.behavior = rapid.SampledFrom([]string{vc14Run, vc14Run, vc14Run, vc14Run, vc14Run, vc14Run, vc14Run, vc14Hold, vc14Drain}).Draw(t, "instBehavior")
		if restart && in.state == vc14Idle {
			in.state = vc14Unknown
		}
		w.settleInst(in)
		w.insts = append(w.insts, in)
	}
	// processes left over from "before" (previous dispatcher process, or earlier passes)
	for _, c := range w.ctrs {
		r := rapid.IntRange(0, 99).Draw(t, "leftoverProc")
		want := false
		switch c.state {
		case arvados.ContainerStateRunning:
			want = r < 85
		case arvados.ContainerStateLocked:
			want = r >= 30 && r < 70
		default:
			want = r >= 40 && r < 50
		}
		if restart && (c.state == arvados.ContainerStateRunning || c.state == arvados.ContainerStateLocked) {
			want = r < 75
		}
		if !want {
			continue
		}
		for _, in := range w.insts {
			if w.procsOn(in, true) > 0 {
				continue
			}
			if in.state == vc14Idle {
				w.procs = append(w.procs, &vc14Proc{uuid: c.uuid, inst: in, phase: vc14PRunning})
				in.state = vc14Running
				break
			}
			if in.state == vc14Unknown {
				w.procs = append(w.procs, &vc14Proc{uuid: c.uuid, inst: in, phase: vc14PRunning, hidden: true})
				w.flags["process-on-unprobed-instance"] = true
				break
			}
		}
	}
	w.atQuota = rapid.IntRange(0, 3).Draw(t, "atQuota") == 3
	w.refreshCache()

	m := &vc14Machine{w: w}
	var init strings.Builder
	for _, c := range w.ctrs {
		fmt.Fprintf(&init, "%s:%s/%d/t%d ", vc14Short(c.uuid), c.state, c.prio, c.typ)
	}
	for _, in := range w.insts {
		fmt.Fprintf(&init, "i%d:t%d/%s/%s ", in.id, in.typ, in.state, in.behavior)
	}
	for _, p := range w.procs {
		fmt.Fprintf(&init, "proc:%s@i%d/hidden=%v ", vc14Short(p.uuid), p.inst.id, p.hidden)
	}
	m.event("init %satQuota=%v", init.String(), w.atQuota)
	ctx := ctxlog.Context(context.Background(), vc14Logger)
	m.base = runtime.NumGoroutine()
	m.sch = New(ctx, w, w, nil, time.Hour, time.Hour)
	return m
}

// teardown releases every parked call and waits for the goroutines to end so
// that nothing leaks into the next case.
func (m *vc14Machine) teardown() {
	m.sch.wakeup.Stop()
	m.w.mu.Lock()
	ops := m.w.parked
	m.w.parked = nil
	m.w.mu.Unlock()
	for _, op := range ops {
		op.done <- fmt.Errorf("stub api: test case over")
	}
	deadline := time.Now().Add(60 * time.Second)
	for i := 0; runtime.NumGoroutine() > m.base; i++ {
		if i < 200 {
			runtime.Gosched()
		} else {
			time.Sleep(50 * time.Microsecond)
		}
		if i%1000 == 999 && time.Now().After(deadline) {
			panic("VERIF-INFRA: goroutines leaked from a C14a case")
		}
	}
}

func TestVerifC14aStateMachine(t *testing.T) {
	defer stats.Flush()
	rapid.Check(t, func(t *rapid.T) {
		m := vc14Setup(t)
		defer m.teardown()
		actions := map[string]func(*rapid.T){"": m.check}
		// rapid picks action names (sorted) with a bias towards the first ones
		// (about 3:1 between first and last), so the order below is the weighting.
		rare := func(pct int, f func(*rapid.T)) func(*rapid.T) {
			return func(t *rapid.T) {
				if rapid.IntRange(0, 99).Draw(t, "gate") >= pct {
					t.Skip("gated")
				}
				f(t)
			}
		}
		for i, a := range []struct {
			name string
			f    func(*rapid.T)
		}{
			{"runQueue", m.actRunQueue},
			{"completeOp", m.actCompleteOp},
			{"sync", m.actSync},
			{"update", m.actUpdate},
			{"procExit", m.actProcExit},
			{"procReported", m.actProcReported},
			{"runQueue", m.actRunQueue},
			{"procRunning", m.actProcRunning},
			{"procKilled", m.actProcKilled},
			{"instBoot", m.actInstBoot},
			{"completeOp", m.actCompleteOp},
			{"sync", m.actSync},
			{"update", m.actUpdate},
			{"apiPriority", m.actAPIPriority},
			{"instProbe", m.actInstProbe},
			{"runQueue", m.actRunQueue},
			{"procExit", m.actProcExit},
			{"procReported", m.actProcReported},
			{"instBehavior", rare(60, m.actInstBehavior)},
			{"apiRequeue", rare(40, m.actAPIRequeue)},
			{"apiCancel", rare(40, m.actAPICancel)},
			{"instGone", rare(40, m.actInstGone)},
			{"quota", rare(50, m.actQuota)},
			{"procUnkillable", rare(30, m.actProcUnkillable)},
			{"runQueue", m.actRunQueue},
			{"sync", m.actSync},
		} {
			actions[fmt.Sprintf("%02d-%s", i, a.name)] = a.f
		}
		t.Repeat(actions)
		m.failIfViolated(t)

		w := m.w
		w.mu.Lock()
		labels := make([]string, 0, len(w.flags)+2)
		for f := range w.flags {
			labels = append(labels, f)
		}
		sort.Strings(labels)
		nontrivial := w.flags["exit-without-finalizing"] || w.flags["lock-failed"] || w.flags["lock-in-flight-across-runQueue"] || w.flags["process-on-unprobed-instance"]
		fp := stats.FP(strings.Join(m.fp, "|"))
		w.mu.Unlock()
		if m.nRQ > 0 && m.nSy > 0 {
			labels = append(labels, "both-runQueue-and-sync")
		}
		stats.Case(fp, nontrivial, labels...)
		stats.InfoAdd("c14a_steps", int64(len(m.fp)-1))
		stats.InfoAdd("c14a_runQueue_calls", int64(m.nRQ))
		stats.InfoAdd("c14a_sync_calls", int64(m.nSy))
		for _, l := range []string{"kill-guard-before-start-hit", "restarted-after-earlier-process-ended", "sync-kill-expected-and-done"} {
			if w.flags[l] && stats.WantSample(l) {
				h := m.fp
				if len(h) > 40 {
					h = h[:40]
				}
				stats.Sample(l, h)
			}
		}
	})
}
