package main

// C04 (B): controlled interleavings of one Put-or-Touch and one Trash of the
// same (old, trashable) block. Both run on their own goroutines and stop at
// every instrumented filesystem point; a schedule decides which of the two is
// advanced to its next point. A goroutine that neither reaches a point nor
// finishes while the other is parked is classified as blocked (flock / the
// Serialize mutex) and the other one is advanced.
//
// Oracle (Volume interface contract, volume.go): if the Put/Touch was
// acknowledged, the block is still present and GET-able afterwards; a block
// that is gone implies the Put/Touch reported an error.

import (
	"bytes"
	"encoding/json"
	"fmt"
	"io/ioutil"
	"os"
	"path/filepath"
	"runtime"
	"strings"
	"sync"
	"testing"
	"time"

	"pgregory.net/rapid"
	"verif.local/vcommon/stats"
)

// ---- scheduler controller ------------------------------------------------

type c04Parked struct {
	label   string
	release chan struct{}
}

type c04Sched struct {
	mu      sync.Mutex
	free    bool
	roots   [2]uint64 // goroutine ids of the two actors' root goroutines
	queue   [2][]*c04Parked
	done    [2]bool
	steps   [2]int
	events  []string // "<actor>:<label>" in the order the steps were released
	chunk   int
	tsOrder []int
}

func (s *c04Sched) ChunkSize() int    { return s.chunk }
func (s *c04Sched) Enter(fn string)   {}
func (s *c04Sched) Exit(fn string)    {}
func (s *c04Sched) Fail(string) error { return nil }

func (s *c04Sched) actorOf(label string) int {
	gid := verifGoID()
	if gid == s.roots[1] {
		return 1
	}
	if gid == s.roots[0] {
		return 0
	}
	switch vkFunc(label) {
	case "Trash", "Mtime":
		return 1
	}
	return 0
}

func (s *c04Sched) Point(label string) {
	s.mu.Lock()
	if s.free {
		s.mu.Unlock()
		return
	}
	a := s.actorOf(label)
	p := &c04Parked{label: label, release: make(chan struct{})}
	s.queue[a] = append(s.queue[a], p)
	s.mu.Unlock()
	<-p.release
}

func (s *c04Sched) parkedLabel(a int) (string, bool) {
	s.mu.Lock()
	defer s.mu.Unlock()
	if len(s.queue[a]) == 0 {
		return "", false
	}
	return s.queue[a][0].label, true
}

func (s *c04Sched) isDone(a int) bool {
	s.mu.Lock()
	defer s.mu.Unlock()
	return s.done[a]
}

func (s *c04Sched) releaseOne(a int) {
	s.mu.Lock()
	p := s.queue[a][0]
	s.queue[a] = s.queue[a][1:]
	s.steps[a]++
	s.events = append(s.events, fmt.Sprintf("%d:%s", a, vkStable(p.label)))
	s.tsOrder = append(s.tsOrder, a)
	s.mu.Unlock()
	close(p.release)
}

func (s *c04Sched) releaseAll() {
	s.mu.Lock()
	s.free = true
	var all []*c04Parked
	for a := range s.queue {
		all = append(all, s.queue[a]...)
		s.queue[a] = nil
	}
	s.mu.Unlock()
	for _, p := range all {
		close(p.release)
	}
}

// blockedInLock reports whether some goroutine is waiting in flock(2) or for
// the Serialize mutex (read from a stack dump of all goroutines).
func c04BlockedInLock() bool {
	buf := make([]byte, 1<<18)
	n := runtime.Stack(buf, true)
	for _, g := range strings.Split(string(buf[:n]), "\n\n") {
		if strings.Contains(g, "syscall.Flock") || (strings.Contains(g, "sync.(*Mutex).Lock") && strings.Contains(g, "UnixVolume).lock")) {
			return true
		}
	}
	return false
}

const (
	c04Parkd   = "parked"
	c04Done    = "done"
	c04Blocked = "blocked"
)

// settle waits until actor a is parked at a point, finished, or blocked.
func (s *c04Sched) settle(a int) string {
	start := time.Now()
	confirm := 0
	for i := 0; ; i++ {
		if _, ok := s.parkedLabel(a); ok {
			return c04Parkd
		}
		if s.isDone(a) {
			return c04Done
		}
		if i < 50 {
			runtime.Gosched()
			continue
		}
		el := time.Since(start)
		if el > 300*time.Microsecond {
			if c04BlockedInLock() {
				confirm++
				if confirm >= 2 {
					return c04Blocked
				}
			} else {
				confirm = 0
			}
		}
		if el > 20*time.Second {
			// very slow or stuck: treat as blocked (the other actor is
			// the only enabled move); never a verdict
			return c04Blocked
		}
		time.Sleep(200 * time.Microsecond)
	}
}

// ---- scenario ------------------------------------------------------------------

type c04Scenario struct {
	G1        string // "touch" | "put"
	G2        string // "delete" | "trashitem"
	NVol      int
	SecondHas bool // second volume also holds an old copy
	Serialize bool
	Lifetime  time.Duration
	TTL       time.Duration
}

func (sc c04Scenario) String() string {
	return fmt.Sprintf("%s-vs-%s nvol=%d secondcopy=%v serialize=%v lifetime=%v ttl=%v", sc.G1, sc.G2, sc.NVol, sc.SecondHas, sc.Serialize, sc.Lifetime, sc.TTL)
}

type c04BEnv struct {
	sc    c04Scenario
	base  string
	roots []string
	uuids []string
	h     *vkHandler
	log   *vkLogBuf
	data  []byte
	hash  string
}

func c04NewBEnv(t vkT, sc c04Scenario) *c04BEnv {
	env := &c04BEnv{sc: sc, base: vkScratch(t), log: &vkLogBuf{}}
	env.data = []byte("c04 interleaving block " + sc.G1 + sc.G2)
	env.hash = vkMD5(env.data)
	conf := vkConf{TTL: sc.TTL, TrashLifetime: sc.Lifetime, BlobTrash: true, DeleteConc: 1, TrashConc: 1}
	for i := 0; i < sc.NVol; i++ {
		root := filepath.Join(env.base, fmt.Sprintf("vol%d", i))
		os.MkdirAll(root, 0755)
		uuid := fmt.Sprintf("zzzzz-nyw5e-%015d", i)
		env.roots, env.uuids = append(env.roots, root), append(env.uuids, uuid)
		conf.Vols = append(conf.Vols, vkVolSpec{UUID: uuid, Root: root, Serialize: sc.Serialize})
	}
	env.h = vkNewHandler(t, vkCluster(t, conf), env.log, env.uuids, 0)
	return env
}

func (env *c04BEnv) Close() {
	env.h.Close()
	os.RemoveAll(env.base)
}

type c04BResult struct {
	Events    []string
	G1Code    int
	G2Code    int
	Blocked   int
	Overlap   bool
	Present   bool
	Decisions int
	Choices   []int
	Branching []int
}

// run executes one schedule. choose(n) picks among n enabled actors (n is
// always 2 when called).
func (env *c04BEnv) run(t vkT, choose func() int) *c04BResult {
	sc := env.sc
	// initial state: old, trashable copy
	old := time.Now().Add(-sc.TTL - time.Hour)
	for i, root := range env.roots {
		os.RemoveAll(root)
		os.MkdirAll(root, 0755)
		if i == 0 || sc.SecondHas {
			vkWriteFile(t, vkBlockPath(root, env.hash), env.data, old)
		}
	}
	env.log.Reset()
	atomicStoreCounter(env.h, 0)
	s := &c04Sched{chunk: 8}
	res := &c04BResult{}
	var wg sync.WaitGroup
	started := make(chan struct{}, 2)
	verifInstall(s)
	defer verifInstall(nil)
	wg.Add(2)
	go func() { // actor 0: Put or Touch
		defer wg.Done()
		s.mu.Lock()
		s.roots[0] = verifGoID()
		s.mu.Unlock()
		started <- struct{}{}
		defer func() { s.mu.Lock(); s.done[0] = true; s.mu.Unlock() }()
		if sc.G1 == "touch" {
			res.G1Code = env.h.vkDo("TOUCH", "/"+env.hash, vkToken, nil).Code
		} else {
			res.G1Code = env.h.vkDo("PUT", "/"+env.hash, vkToken, env.data).Code
		}
	}()
	<-started
	go func() { // actor 1: Trash
		defer wg.Done()
		s.mu.Lock()
		s.roots[1] = verifGoID()
		s.mu.Unlock()
		started <- struct{}{}
		defer func() { s.mu.Lock(); s.done[1] = true; s.mu.Unlock() }()
		if sc.G2 == "delete" {
			res.G2Code = env.h.vkDo("DELETE", "/"+env.hash, vkToken, nil).Code
		} else {
			TrashItem(env.h.volmgr, env.h.Logger, env.h.Cluster, TrashRequest{Locator: env.hash, BlockMtime: old.UnixNano()})
		}
	}()
	<-started
	state := [2]string{s.settle(0), s.settle(1)}
	for iter := 0; iter < 400; iter++ {
		var enabled []int
		for a := 0; a < 2; a++ {
			if state[a] == c04Parkd {
				enabled = append(enabled, a)
			}
		}
		if len(enabled) == 0 {
			if state[0] == c04Done && state[1] == c04Done {
				break
			}
			// somebody is blocked while nobody can be advanced: it must be
			// waiting for something that is being released right now
			progressed := false
			for a := 0; a < 2; a++ {
				if state[a] == c04Blocked {
					if st := s.settle(a); st != c04Blocked {
						state[a] = st
						progressed = true
					}
				}
			}
			if !progressed && iter > 50 {
				break
			}
			continue
		}
		a := enabled[0]
		if len(enabled) == 2 {
			c := choose()
			res.Decisions++
			res.Choices = append(res.Choices, c)
			a = enabled[c]
		}
		s.releaseOne(a)
		state[a] = s.settle(a)
		if state[a] == c04Blocked {
			res.Blocked++
		}
		if o := 1 - a; state[o] == c04Blocked {
			state[o] = s.settle(o)
		}
	}
	s.releaseAll()
	fin := make(chan struct{})
	go func() { wg.Wait(); close(fin) }()
	select {
	case <-fin:
	case <-time.After(120 * time.Second):
		buf := make([]byte, 1<<18)
		n := runtime.Stack(buf, true)
		t.Fatalf("VERIF-INFRA: scenario %v did not finish within 120 s after all points were released; events %v\n%s", sc, s.events, buf[:n])
	}
	res.Events = s.events
	// overlap: some step of one actor lies between two steps of the other
	first, last := [2]int{-1, -1}, [2]int{-1, -1}
	for i, a := range s.tsOrder {
		if first[a] < 0 {
			first[a] = i
		}
		last[a] = i
	}
	if first[0] >= 0 && first[1] >= 0 {
		res.Overlap = !(last[0] < first[1] || last[1] < first[0])
	}
	return res
}

func atomicStoreCounter(h *vkHandler, v uint32) { h.volmgr.counter = v }

// oracle for one finished schedule; returns "" or the violation.
func (env *c04BEnv) oracle(res *c04BResult) string {
	present := false
	for _, root := range env.roots {
		if b, err := ioutil.ReadFile(vkBlockPath(root, env.hash)); err == nil {
			if !bytes.Equal(b, env.data) {
				return fmt.Sprintf("block file on %s holds wrong data after the schedule", root)
			}
			present = true
		}
	}
	res.Present = present
	get := env.h.vkDo("GET", "/"+env.hash, vkToken, nil)
	if get.Code == 200 && !bytes.Equal(get.Body.Bytes(), env.data) {
		return "GET returned 200 with wrong data"
	}
	if res.G1Code == 200 {
		if !present {
			return fmt.Sprintf("%s was acknowledged (200) while a concurrent %s ran, and afterwards no volume holds the block", strings.ToUpper(env.sc.G1), env.sc.G2)
		}
		if get.Code != 200 {
			return fmt.Sprintf("%s was acknowledged (200) but GET afterwards returns %d", strings.ToUpper(env.sc.G1), get.Code)
		}
	}
	return ""
}

func c04GenScenario(t *rapid.T) c04Scenario {
	sc := c04Scenario{}
	sc.G1 = vkPickStr(t, "g1", []string{"touch", "touch", "put"})
	sc.G2 = vkPickStr(t, "g2", []string{"delete", "trashitem"})
	sc.NVol = 1 + vkPick(t, "nvol", 3)/2
	sc.SecondHas = sc.NVol == 2 && vkPick(t, "secondhas", 2) == 0
	sc.Serialize = vkPick(t, "serialize", 3) == 0
	sc.Lifetime = []time.Duration{0, time.Hour}[vkPick(t, "lifetime", 2)]
	sc.TTL = []time.Duration{5 * time.Minute, 14 * 24 * time.Hour}[vkPick(t, "ttl", 2)]
	return sc
}

func c04BLabels(sc c04Scenario, res *c04BResult) []string {
	l := []string{"B:" + sc.G1 + "-vs-" + sc.G2, fmt.Sprintf("B:g1-status:%d", res.G1Code), fmt.Sprintf("B:present-after:%v", res.Present)}
	if res.Overlap {
		l = append(l, "B:overlap")
	}
	if res.Blocked > 0 {
		l = append(l, "B:blocked-in-lock")
	}
	if sc.Serialize {
		l = append(l, "B:serialize")
	}
	switch {
	case res.G1Code == 200 && res.Present:
		l = append(l, "B:outcome:ack+kept")
	case res.G1Code != 200 && !res.Present:
		l = append(l, "B:outcome:error+trashed")
	case res.G1Code != 200 && res.Present:
		l = append(l, "B:outcome:error+kept")
	}
	return l
}

type c04Replay struct {
	Scenario c04Scenario
	Choices  []int
}

func c04BFail(t vkT, env *c04BEnv, res *c04BResult, msg string) {
	// schedule artifact for ./check C04 --replay (unit exhaustive)
	if w := os.Getenv("VERIF_WORK"); w != "" {
		js, _ := json.Marshal(c04Replay{Scenario: env.sc, Choices: res.Choices})
		p := filepath.Join(w, "c04-schedule.json")
		if ioutil.WriteFile(p, js, 0644) == nil {
			fmt.Printf("VERIF-REPLAY: %s\n", p)
		}
	}
	t.Fatalf("C04 violated (interleaving): %s\n scenario: %v\n schedule (actor 0 = %s, actor 1 = %s), steps in the order they were released:\n   %s\n choices: %v\n responses: g1=%d g2=%d\n log:\n%s",
		msg, env.sc, env.sc.G1, env.sc.G2, strings.Join(res.Events, "\n   "), res.Choices, res.G1Code, res.G2Code, env.log.String())
}

// c04MaybeReplay re-runs the single schedule stored in $VERIF_REPLAY (written
// by c04BFail) instead of the generated ones.
func c04MaybeReplay(t *testing.T) bool {
	rp := os.Getenv("VERIF_REPLAY")
	if !strings.HasSuffix(rp, ".json") {
		return false
	}
	var r c04Replay
	buf, err := ioutil.ReadFile(rp)
	if err == nil {
		err = json.Unmarshal(buf, &r)
	}
	if err != nil {
		t.Fatalf("VERIF-INFRA: replay file %s: %v", rp, err)
	}
	env := c04NewBEnv(t, r.Scenario)
	defer env.Close()
	pos := 0
	res := env.run(t, func() int {
		c := 0
		if pos < len(r.Choices) {
			c = r.Choices[pos]
		}
		pos++
		return c
	})
	if msg := env.oracle(res); msg != "" {
		c04BFail(t, env, res, msg)
	}
	t.Logf("replayed schedule %v of %v: no violation; steps %v", r.Choices, r.Scenario, res.Events)
	return true
}

// TestVerifC04Interleave samples schedules with rapid.
func TestVerifC04Interleave(t *testing.T) {
	defer stats.Flush()
	vkCheckStaticPoints(t)
	runtime.GOMAXPROCS(2)
	defer runtime.GOMAXPROCS(1)
	if c04MaybeReplay(t) {
		return
	}
	rapid.Check(t, func(t *rapid.T) {
		sc := c04GenScenario(t)
		env := c04NewBEnv(t, sc)
		defer env.Close()
		nsched := 8
		for k := 0; k < nsched; k++ {
			res := env.run(t, func() int { return vkPick(t, "choice", 2) })
			if msg := env.oracle(res); msg != "" {
				c04BFail(t, env, res, msg)
			}
			stats.Case(stats.FP(sc.String(), strings.Join(res.Events, ",")), res.Overlap, c04BLabels(sc, res)...)
			if res.Overlap && stats.WantSample("schedule") {
				stats.Sample("schedule", map[string]interface{}{"scenario": sc.String(), "events": res.Events, "g1": res.G1Code, "present": res.Present})
			}
		}
	})
}

// TestVerifC04Exhaustive enumerates ALL schedules (every choice at every
// point where both goroutines are enabled) of the small scenarios.
func TestVerifC04Exhaustive(t *testing.T) {
	defer stats.Flush()
	vkCheckStaticPoints(t)
	runtime.GOMAXPROCS(2)
	defer runtime.GOMAXPROCS(1)
	thorough := os.Getenv("VERIF_TIER") == "thorough"
	var scs []c04Scenario
	for _, g1 := range []string{"touch", "put"} {
		for _, g2 := range []string{"delete", "trashitem"} {
			for _, ser := range []bool{false, true} {
				for _, life := range []time.Duration{time.Hour, 0} {
					if !thorough && (g1 == "put" || ser || life == 0) {
						continue
					}
					scs = append(scs, c04Scenario{G1: g1, G2: g2, NVol: 1, Serialize: ser, Lifetime: life, TTL: 14 * 24 * time.Hour})
				}
			}
		}
	}
	if c04MaybeReplay(t) {
		return
	}
	// shard the scenario list
	shard, nshards := vkShard()
	total := 0
	for idx, sc := range scs {
		if idx%nshards != shard {
			continue
		}
		env := c04NewBEnv(t, sc)
		t.Cleanup(env.Close)
		n := 0
		// odometer over the choice vector
		var prefix []int
		for {
			pos := 0
			res := env.run(t, func() int {
				c := 0
				if pos < len(prefix) {
					c = prefix[pos]
				}
				pos++
				return c
			})
			if msg := env.oracle(res); msg != "" {
				c04BFail(t, env, res, msg)
			}
			n++
			stats.Case(stats.FP(sc.String(), strings.Join(res.Events, ",")), res.Overlap, append(c04BLabels(sc, res), "B:exhaustive")...)
			// next vector: increment the last decision that was 0
			choices := res.Choices
			i := len(choices) - 1
			for i >= 0 && choices[i] == 1 {
				i--
			}
			if i < 0 {
				break
			}
			prefix = append(append([]int{}, choices[:i]...), 1)
			if n > 200000 {
				t.Fatalf("VERIF-INFRA: schedule enumeration of %v does not terminate", sc)
			}
		}
		stats.Info("exhaustive:"+sc.String(), n)
		total += n
	}
	stats.InfoAdd("exhaustive_schedules", int64(total))
	t.Logf("enumerated %d schedules over %d scenarios (shard %d/%d)", total, len(scs), shard, nshards)
}
