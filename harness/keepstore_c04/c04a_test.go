package main

// C04 (A): a freshly written or touched block survives garbage collection for
// the TTL -- histories of PUT / TOUCH / GET / trash-list / DELETE / untrash /
// EmptyTrash / direct volume calls on 1-2 Directory volumes, checked step by
// step against a file-level transition oracle at quiescence.
//
// The oracle never predicts which of several permitted outcomes the
// implementation picks; after each step it checks that every change on disk
// was permitted by the property for that step and then adopts the disk state.
// The server-level guarantee ("acknowledged at t => still retrievable before
// t+TTL") is tracked separately from the files' timestamps.

import (
	"bytes"
	"context"
	"encoding/json"
	"fmt"
	"io/ioutil"
	"os"
	"path/filepath"
	"regexp"
	"sort"
	"strconv"
	"strings"
	"testing"
	"time"

	"git.arvados.org/arvados.git/sdk/go/arvados"
	"pgregory.net/rapid"
	"verif.local/vcommon/stats"
)

// ---- disk state ----------------------------------------------------------

type c04Vol struct {
	present map[string]int64          // hash -> mtime (ns)
	trash   map[string]map[int64]bool // hash -> deadlines (unix s)
}

func (v *c04Vol) String() string {
	var s []string
	for h, m := range v.present {
		s = append(s, fmt.Sprintf("%s@%d", h[:6], m))
	}
	for h, ds := range v.trash {
		for d := range ds {
			s = append(s, fmt.Sprintf("%s.trash.%d", h[:6], d))
		}
	}
	sort.Strings(s)
	return "{" + strings.Join(s, " ") + "}"
}

var c04TrashRe = regexp.MustCompile(`^([0-9a-f]{32})\.trash\.(\d+)$`)
var c04BlockRe = regexp.MustCompile(`^[0-9a-f]{32}$`)

// c04Scan reads a volume directory. Every block or trash file must hold the
// complete block it is named after (the harness never creates corrupt copies
// in this check), otherwise an error text is returned.
func c04Scan(root string, blocks map[string][]byte) (*c04Vol, string) {
	v := &c04Vol{present: map[string]int64{}, trash: map[string]map[int64]bool{}}
	bad := ""
	filepath.Walk(root, func(p string, info os.FileInfo, err error) error {
		if err != nil || !info.Mode().IsRegular() {
			return nil
		}
		name := filepath.Base(p)
		hash := ""
		if c04BlockRe.MatchString(name) {
			hash = name
			v.present[hash] = info.ModTime().UnixNano()
		} else if m := c04TrashRe.FindStringSubmatch(name); m != nil {
			hash = m[1]
			d, _ := strconv.ParseInt(m[2], 10, 64)
			if v.trash[hash] == nil {
				v.trash[hash] = map[int64]bool{}
			}
			v.trash[hash][d] = true
		} else {
			return nil
		}
		if want, ok := blocks[hash]; ok {
			got, err := ioutil.ReadFile(p)
			if err == nil && !bytes.Equal(got, want) {
				bad = fmt.Sprintf("file %s holds %d bytes (md5 %s), not the block it is named after", p, len(got), vkMD5(got))
			}
		}
		return nil
	})
	return v, bad
}

// ---- case ----------------------------------------------------------------

type c04Entry struct {
	Locator    string `json:"locator"`
	BlockMtime int64  `json:"block_mtime"`
	MountUUID  string `json:"mount_uuid"`
}

type c04Step struct {
	Op      string
	Hash    string
	Vol     int        // direct calls / harness ops
	Entries []c04Entry // trash list
	Age     time.Duration
	Life    time.Duration
	Note    string
}

func (s c04Step) String() string {
	switch s.Op {
	case "trashlist":
		var es []string
		for _, e := range s.Entries {
			es = append(es, fmt.Sprintf("(%s mtime=%d mount=%q)", e.Locator[:6], e.BlockMtime, e.MountUUID))
		}
		return "trashlist[" + strings.Join(es, " ") + "]"
	case "age":
		return fmt.Sprintf("age(vol%d %s -> %v old)", s.Vol, s.Hash[:6], s.Age)
	case "lifetime":
		return fmt.Sprintf("set BlobTrashLifetime=%v", s.Life)
	case "emptytrash":
		return "EmptyTrash"
	case "expire":
		return fmt.Sprintf("expire-trash(vol%d %s)", s.Vol, s.Hash[:6])
	}
	if strings.HasPrefix(s.Op, "direct-") {
		return fmt.Sprintf("%s(vol%d %s)", s.Op, s.Vol, s.Hash[:6])
	}
	return fmt.Sprintf("%s(%s)", s.Op, s.Hash[:6])
}

type c04Case struct {
	conf     vkConf
	roots    []string
	uuids    []string
	readonly []bool   // read-only FOR THIS SERVER (volume.ReadOnly or AccessViaHosts[this server].ReadOnly)
	access   []string // vkVolSpec.Access of each volume
	hashes   []string
	blocks   map[string][]byte
	ttl      time.Duration
}

func c04Writable(cs *c04Case, i int) bool { return !cs.readonly[i] }

// ---- transition oracle -----------------------------------------------------

type c04Oracle struct {
	cs      *c04Case
	cl      *clusterView
	ack     map[string]time.Time // hash -> time of the latest acknowledged PUT/TOUCH
	history []string
	// backdated[hash] describes an untrash step that, after the latest
	// acknowledgement of hash, moved the stored timestamp of a present
	// replica backwards (classifier input for the known finding
	// untrash_backdates_fresh_block).
	backdated map[string]string
	// failedFreshness is set by check when the server-level freshness
	// clause is the one that failed.
	failedFreshness string
}

// clusterView is what the oracle needs to know about the configuration at
// the time of a step.
type clusterView struct {
	blobTrash  bool
	lifetime   time.Duration
	deleteConc int
}

func c04DeadlineOK(d int64, t0, t1 time.Time, life time.Duration) bool {
	return d >= t0.Add(life).Unix()-1 && d <= t1.Add(life).Unix()+1
}

// check verifies that the change prev -> next was permitted for step st,
// executed between t0 and t1 with response status code.
func (o *c04Oracle) check(st c04Step, code int, prev, next []*c04Vol, t0, t1 time.Time) string {
	cs := o.cs
	ttl := cs.ttl
	o.failedFreshness = ""
	oldEnough := func(mtime int64) bool { // could the implementation have seen age >= TTL?
		return t1.Sub(time.Unix(0, mtime)) >= ttl
	}
	fresh := func(mtime int64) bool {
		return mtime >= t0.Add(-2*time.Second).UnixNano() && mtime <= t1.Add(2*time.Second).UnixNano()
	}
	removalAllowed := func(i int, h string, m int64) (bool, string) {
		if !c04Writable(cs, i) {
			return false, fmt.Sprintf("the mount is read-only for this server (Volumes.ReadOnly=%v, AccessViaHosts mode %q)", cs.conf.Vols[i].ReadOnly, cs.access[i])
		}
		if !o.cl.blobTrash {
			return false, "BlobTrash is off"
		}
		if !oldEnough(m) {
			return false, fmt.Sprintf("stored timestamp is only %v old, TTL is %v", t1.Sub(time.Unix(0, m)), ttl)
		}
		switch st.Op {
		case "delete":
			if st.Hash == h {
				return true, ""
			}
			return false, "DELETE named a different block"
		case "direct-trash":
			if st.Hash == h && st.Vol == i {
				return true, ""
			}
			return false, "Trash was called for a different volume/block"
		case "trashlist":
			why := "no trash-list entry names this block"
			for _, e := range st.Entries {
				if e.Locator != h {
					continue
				}
				if e.MountUUID != "" && e.MountUUID != cs.uuids[i] {
					why = "entry names a different mount"
					continue
				}
				if e.BlockMtime != m {
					why = fmt.Sprintf("entry timestamp %d differs from stored timestamp %d", e.BlockMtime, m)
					continue
				}
				if t1.Sub(time.Unix(0, e.BlockMtime)) < ttl {
					why = "entry timestamp is younger than the TTL"
					continue
				}
				return true, ""
			}
			return false, why
		}
		return false, "this request is not a trash request"
	}
	for i := range cs.roots {
		for _, h := range cs.hashes {
			pm, pok := prev[i].present[h]
			nm, nok := next[i].present[h]
			untrashHere := (st.Op == "untrash" && st.Hash == h && c04Writable(cs, i)) || (st.Op == "direct-untrash" && st.Hash == h && st.Vol == i && c04Writable(cs, i))
			switch {
			case pok && !nok:
				if ok, why := removalAllowed(i, h, pm); !ok {
					return fmt.Sprintf("replica of %s on volume %d (stored mtime %d) was removed by %s although %s", h, i, pm, st, why)
				}
				if o.cl.lifetime > 0 {
					found := false
					for d := range next[i].trash[h] {
						if c04DeadlineOK(d, t0, t1, o.cl.lifetime) {
							found = true
						}
					}
					if !found {
						return fmt.Sprintf("replica of %s on volume %d was trashed by %s with BlobTrashLifetime %v but no trash file with deadline now+lifetime exists (trash deadlines %v, now %d)", h, i, st, o.cl.lifetime, next[i].trash[h], t1.Unix())
					}
				}
			case !pok && nok:
				switch {
				case (st.Op == "put" || st.Op == "direct-put") && st.Hash == h && c04Writable(cs, i):
				case untrashHere && len(prev[i].trash[h]) > 0:
				default:
					return fmt.Sprintf("a replica of %s appeared on volume %d (read-only=%v) after %s", h, i, cs.readonly[i], st)
				}
			case pok && nok && pm != nm:
				if !c04Writable(cs, i) {
					return fmt.Sprintf("timestamp of %s on read-only volume %d changed (%d -> %d) after %s", h, i, pm, nm, st)
				}
				if _, acked := o.ack[h]; acked && untrashHere && nm < pm && len(prev[i].trash[h]) > len(next[i].trash[h]) {
					o.backdated[h] = fmt.Sprintf("%s replaced the replica on volume %d (mtime %d) by a trashed copy (mtime %d)", st, i, pm, nm)
				}
			}
			// a replica restored by untrash carries a current timestamp (it
			// is protected like a new write; otherwise a trash request
			// naming the old timestamp could remove it again at once, even
			// if a freshly written copy was replaced by the rename)
			if untrashHere && nok && len(prev[i].trash[h]) > len(next[i].trash[h]) && !fresh(nm) {
				return fmt.Sprintf("%s restored %s on volume %d with the old timestamp %d (now %d, replica before: present=%v mtime=%d): the restored replica is not protected for the TTL", st, h, i, nm, t1.UnixNano(), pok, pm)
			}
			// trash files
			for d := range prev[i].trash[h] {
				if next[i].trash[h][d] {
					continue
				}
				switch {
				case untrashHere && nok:
				case (st.Op == "emptytrash" || (st.Op == "direct-emptytrash" && st.Vol == i)) && c04Writable(cs, i) && o.cl.deleteConc >= 1 && d <= t1.Unix():
				default:
					return fmt.Sprintf("trash file %s.trash.%d on volume %d (read-only=%v) disappeared after %s (now=%d, BlobDeleteConcurrency=%d)", h, d, i, cs.readonly[i], st, t1.Unix(), o.cl.deleteConc)
				}
			}
			for d := range next[i].trash[h] {
				if prev[i].trash[h][d] {
					continue
				}
				if ok, _ := removalAllowed(i, h, pm); !(pok && ok && c04DeadlineOK(d, t0, t1, o.cl.lifetime)) {
					return fmt.Sprintf("unexpected new trash file %s.trash.%d on volume %d after %s", h, d, i, st)
				}
			}
		}
	}
	// acknowledged PUT / TOUCH: some writable volume now holds the block
	// with a current timestamp
	if (st.Op == "put" || st.Op == "touch") && code == 200 {
		ok := false
		for i := range cs.roots {
			if m, present := next[i].present[st.Hash]; present && c04Writable(cs, i) && fresh(m) {
				ok = true
			}
		}
		if !ok {
			return fmt.Sprintf("%s was acknowledged (200) but no writable volume holds the block with a current timestamp: %v", st, next)
		}
		o.ack[st.Hash] = t0
		delete(o.backdated, st.Hash)
	}
	// server-level freshness: an acknowledged block is still there
	for h, t := range o.ack {
		if t1.Sub(t) > ttl-time.Minute {
			continue
		}
		there := false
		for i := range cs.roots {
			if _, ok := next[i].present[h]; ok {
				there = true
			}
		}
		if !there {
			o.failedFreshness = h
			return fmt.Sprintf("block %s was acknowledged (PUT/TOUCH) %v ago, TTL is %v, but after %s no volume holds it any more", h, t1.Sub(t), ttl, st)
		}
	}
	return ""
}

// ---- generator ---------------------------------------------------------------

func c04Age(t *rapid.T, label string, ttl time.Duration, class int) time.Duration {
	switch class {
	case 0:
		return 0
	case 1: // younger than the TTL, outside the guard band
		lo, hi := ttl-time.Hour, ttl-10*time.Second
		if lo < 10*time.Second {
			lo = 10 * time.Second
		}
		return lo + time.Duration(rapid.Int64Range(0, int64(hi-lo)).Draw(t, label))
	default: // older
		lo, hi := ttl+10*time.Second, 10*ttl
		return lo + time.Duration(rapid.Int64Range(0, int64(hi-lo)).Draw(t, label))
	}
}

func TestVerifC04Histories(t *testing.T) {
	defer stats.Flush()
	vkCheckStaticPoints(t)
	rapid.Check(t, func(t *rapid.T) {
		base := vkScratch(t)
		defer os.RemoveAll(base)
		log := &vkLogBuf{}
		cs := &c04Case{blocks: map[string][]byte{}}
		nvol := 1 + vkPick(t, "nvol", 2)
		cs.ttl = []time.Duration{5 * time.Minute, time.Hour, 14 * 24 * time.Hour}[vkPick(t, "ttl", 3)]
		life := []time.Duration{0, time.Hour}[vkPick(t, "lifetime", 2)]
		cs.conf = vkConf{TTL: cs.ttl, TrashLifetime: life, BlobTrash: vkPick(t, "blobtrash", 5) != 0,
			DeleteConc: []int{0, 1, 4}[vkPick(t, "deleteconc", 3)], TrashConc: []int{1, 4}[vkPick(t, "trashconc", 2)]}
		serialize := vkPick(t, "serialize", 2) == 0
		for i := 0; i < nvol; i++ {
			root := filepath.Join(base, fmt.Sprintf("vol%d", i))
			os.MkdirAll(root, 0755)
			// how the mount is configured for this server: read-write,
			// volume.ReadOnly, read-only only through AccessViaHosts (the
			// volume itself is NOT marked read-only), or read-write through
			// AccessViaHosts while another server has it read-only
			vs := vkVolSpec{UUID: fmt.Sprintf("zzzzz-nyw5e-%015d", i), Root: root, Serialize: serialize}
			switch vkPick(t, fmt.Sprintf("ro%d", i), 16) {
			case 0, 1:
				vs.ReadOnly = true
			case 2, 3, 4:
				vs.Access = vkAccessROHost
			case 5:
				vs.ReadOnly, vs.Access = true, vkAccessRWViaHost
			case 6, 7:
				vs.Access = vkAccessRWViaHost
			}
			cs.roots, cs.uuids, cs.readonly, cs.access = append(cs.roots, root), append(cs.uuids, vs.UUID), append(cs.readonly, vs.ReadOnlyHere()), append(cs.access, vs.Access)
			cs.conf.Vols = append(cs.conf.Vols, vs)
		}
		for i := 0; i < 3; i++ {
			b := []byte(fmt.Sprintf("c04 block %d %d", i, rapid.IntRange(0, 1000).Draw(t, "blk")))
			h := vkMD5(b)
			if _, dup := cs.blocks[h]; dup {
				continue
			}
			cs.blocks[h] = b
			cs.hashes = append(cs.hashes, h)
		}
		// initial state
		now := time.Now()
		var initDesc []string
		for i := range cs.roots {
			for _, h := range cs.hashes {
				kind := vkPick(t, "init", 6) // 0,1 absent  2 present  3 trashed  4 present+trashed  5 present old
				if kind >= 2 && kind != 3 {
					class := vkPick(t, "ageclass", 3)
					if kind == 5 {
						class = 2
					}
					age := c04Age(t, "age", cs.ttl, class)
					vkWriteFile(t, vkBlockPath(cs.roots[i], h), cs.blocks[h], now.Add(-age))
					initDesc = append(initDesc, fmt.Sprintf("vol%d %s present age %v", i, h[:6], age))
				}
				if kind == 3 || kind == 4 {
					nd := 1 + vkPick(t, "ndeadlines", 2)
					for k := 0; k < nd; k++ {
						off := []int64{-7200, -60, 60, 7200}[vkPick(t, "deadline", 4)] + int64(k)
						d := now.Unix() + off
						mt := now.Add(-c04Age(t, "trashage", cs.ttl, 2))
						vkWriteFile(t, fmt.Sprintf("%s.trash.%d", vkBlockPath(cs.roots[i], h), d), cs.blocks[h], mt)
						initDesc = append(initDesc, fmt.Sprintf("vol%d %s trashed deadline now%+d", i, h[:6], off))
					}
				}
			}
		}
		cl := vkCluster(t, cs.conf)
		order := append([]string{}, cs.uuids...)
		if nvol == 2 && vkPick(t, "swap", 2) == 0 {
			order[0], order[1] = order[1], order[0]
		}
		h := vkNewHandler(t, cl, log, order, uint32(vkPick(t, "counter", 2)))
		defer h.Close()
		o := &c04Oracle{cs: cs, ack: map[string]time.Time{}, backdated: map[string]string{}, cl: &clusterView{blobTrash: cs.conf.BlobTrash, lifetime: life, deleteConc: cs.conf.DeleteConc}}
		scan := func() []*c04Vol {
			var out []*c04Vol
			for _, root := range cs.roots {
				v, bad := c04Scan(root, cs.blocks)
				if bad != "" {
					t.Fatalf("C04 violated: %s\n history: %s", bad, strings.Join(o.history, "; "))
				}
				out = append(out, v)
			}
			return out
		}
		prev := scan()
		nsteps := rapid.IntRange(1, 40).Draw(t, "nsteps")
		var labels = map[string]bool{}
		protectThenTrash := false
		protected := map[string]bool{}
		trashEffective, untrashEffective, emptyEffective := 0, 0, 0
		ops := []string{"put", "put", "touch", "touch", "get", "trashlist", "trashlist", "trashlist", "delete", "delete", "untrash", "emptytrash", "age", "age", "lifetime", "expire", "direct"}
		for step := 0; step < nsteps; step++ {
			st := c04Step{Op: vkPickStr(t, "op", ops)}
			st.Hash = cs.hashes[vkPick(t, "hash", len(cs.hashes))]
			if st.Op == "direct" {
				st.Op = "direct-" + vkPickStr(t, "directop", []string{"trash", "untrash", "touch", "put", "emptytrash"})
				st.Vol = vkPick(t, "vol", nvol)
			}
			if strings.HasPrefix(st.Op, "direct-") && cs.access[st.Vol] == vkAccessROHost {
				// keepstore reaches Trash/Untrash/Touch/Put/EmptyTrash of a
				// mount only through volmgr.AllWritable / NextWritable /
				// Lookup(uuid, needWrite=true); a volume that is read-only
				// merely through AccessViaHosts has no check of its own, so
				// a direct call is not something keepstore does.
				continue
			}
			var code int
			t0 := time.Now()
			switch st.Op {
			case "put":
				code = h.vkDo("PUT", "/"+st.Hash, vkToken, cs.blocks[st.Hash]).Code
			case "touch":
				code = h.vkDo("TOUCH", "/"+st.Hash, vkToken, nil).Code
			case "get":
				r := h.vkDo("GET", "/"+st.Hash, vkToken, nil)
				code = r.Code
				present := false
				for _, v := range prev {
					if _, ok := v.present[st.Hash]; ok {
						present = true
					}
				}
				if code == 200 && !bytes.Equal(r.Body.Bytes(), cs.blocks[st.Hash]) {
					t.Fatalf("C04 violated: GET %s returned 200 with wrong data\n history: %s", st.Hash, strings.Join(o.history, "; "))
				}
				if present && code != 200 {
					t.Fatalf("C04 violated: GET %s returned %d although a replica is present (%v)\n init: %v\n history: %s\n log:\n%s", st.Hash, code, prev, initDesc, strings.Join(o.history, "; "), log.String())
				}
			case "delete":
				code = h.vkDo("DELETE", "/"+st.Hash, vkToken, nil).Code
			case "untrash":
				code = h.vkDo("PUT", "/untrash/"+st.Hash, vkToken, nil).Code
			case "trashlist":
				n := 1 + vkPick(t, "nentries", 3)
				for k := 0; k < n; k++ {
					e := c04Entry{Locator: cs.hashes[vkPick(t, "ehash", len(cs.hashes))]}
					switch vkPick(t, "emount", 5) {
					case 0:
						e.MountUUID = "zzzzz-nyw5e-999999999999999"
					case 1, 2:
						mi := vkPick(t, "emountvol", nvol)
						e.MountUUID = cs.uuids[mi]
						// an entry that names a mount usually names a block
						// that mount holds (keep-balance builds such entries
						// from the mount's own index)
						var held []string
						for _, hh := range cs.hashes {
							if _, ok := prev[mi].present[hh]; ok {
								held = append(held, hh)
							}
						}
						if len(held) > 0 && vkPick(t, "eheld", 2) == 0 {
							e.Locator = held[vkPick(t, "eheldhash", len(held))]
						}
					}
					var stored []int64
					for i, v := range prev {
						if m, ok := v.present[e.Locator]; ok {
							stored = append(stored, m)
							if cs.uuids[i] == e.MountUUID && vkPick(t, "namedmountmtime", 4) != 0 {
								// mostly the timestamp stored on the named mount
								stored = []int64{m}
								break
							}
						}
					}
					mk := vkPick(t, "emtime", 8)
					switch {
					case len(stored) > 0 && mk <= 3:
						e.BlockMtime = stored[vkPick(t, "which", len(stored))]
					case len(stored) > 0 && mk == 4:
						e.BlockMtime = stored[vkPick(t, "which", len(stored))] + 1
					case len(stored) > 0 && mk == 5:
						e.BlockMtime = stored[vkPick(t, "which", len(stored))] - 1
					case mk == 6:
						e.BlockMtime = t0.UnixNano()
					default:
						e.BlockMtime = t0.Add(-c04Age(t, "stale", cs.ttl, 2)).UnixNano()
					}
					st.Entries = append(st.Entries, e)
				}
				body, _ := json.Marshal(st.Entries)
				code = h.vkDo("PUT", "/trash", vkToken, body).Code
				h.vkWaitTrashIdle(t)
			case "emptytrash":
				// what the emptyTrash goroutine does on every tick
				for _, mnt := range h.volmgr.writables {
					mnt.EmptyTrash()
				}
			case "age":
				st.Vol = vkPick(t, "vol", nvol)
				if _, ok := prev[st.Vol].present[st.Hash]; !ok {
					continue
				}
				st.Age = c04Age(t, "newage", cs.ttl, 1+vkPick(t, "newageclass", 2))
				mt := t0.Add(-st.Age)
				os.Chtimes(vkBlockPath(cs.roots[st.Vol], st.Hash), mt, mt)
				delete(o.ack, st.Hash) // the harness simulated time passing
				delete(o.backdated, st.Hash)
				delete(protected, st.Hash)
				o.history = append(o.history, st.String())
				prev = scan()
				continue
			case "expire":
				st.Vol = vkPick(t, "vol", nvol)
				done := false
				for d := range prev[st.Vol].trash[st.Hash] {
					if d > t0.Unix() && !done {
						p := vkBlockPath(cs.roots[st.Vol], st.Hash)
						os.Rename(fmt.Sprintf("%s.trash.%d", p, d), fmt.Sprintf("%s.trash.%d", p, t0.Unix()-100-int64(step)))
						done = true
					}
				}
				if !done {
					continue
				}
				o.history = append(o.history, st.String())
				prev = scan()
				continue
			case "lifetime":
				st.Life = []time.Duration{0, time.Hour, 2 * time.Hour}[vkPick(t, "newlife", 3)]
				cl.Collections.BlobTrashLifetime = arvados.Duration(st.Life)
				o.cl.lifetime = st.Life
				o.history = append(o.history, st.String())
				continue
			case "direct-trash":
				h.volmgr.mountMap[cs.uuids[st.Vol]].Trash(st.Hash)
			case "direct-untrash":
				h.volmgr.mountMap[cs.uuids[st.Vol]].Untrash(st.Hash)
			case "direct-touch":
				h.volmgr.mountMap[cs.uuids[st.Vol]].Touch(st.Hash)
			case "direct-put":
				h.volmgr.mountMap[cs.uuids[st.Vol]].Put(context.Background(), st.Hash, cs.blocks[st.Hash])
			case "direct-emptytrash":
				// keepstore calls EmptyTrash only on writable mounts
				// (emptyTrash(h.volmgr.writables, ...)); it has no
				// read-only check of its own.
				if cs.readonly[st.Vol] {
					continue
				}
				h.volmgr.mountMap[cs.uuids[st.Vol]].EmptyTrash()
			}
			t1 := time.Now()
			next := scan()
			o.history = append(o.history, fmt.Sprintf("%s->%d", st, code))
			if msg := o.check(st, code, prev, next, t0, t1); msg != "" {
				if c04KnownUntrashRegression(o, st, msg) {
					// counted as known finding; this history ends here
					stats.Label("history-ended-by-known-finding")
					return
				}
				t.Fatalf("C04 violated: %s\n config: TTL=%v BlobTrash=%v lifetime=%v deleteconc=%d readonly(for this server)=%v access-via-hosts=%q\n initial: %v\n history: %s\n before: %v\n after:  %v\n log:\n%s",
					msg, cs.ttl, o.cl.blobTrash, o.cl.lifetime, o.cl.deleteConc, cs.readonly, cs.access, initDesc, strings.Join(o.history, "; "), prev, next, log.String())
			}
			// coverage bookkeeping
			labels["op:"+st.Op] = true
			for _, l := range c04ROAttempts(cs, o.cl, st, prev, t1) {
				labels[l] = true
				stats.Label("step:" + l)
			}
			if (st.Op == "put" || st.Op == "touch") && code == 200 {
				protected[st.Hash] = true
				labels["ack:"+st.Op] = true
			}
			for i := range prev {
				for _, hh := range cs.hashes {
					_, was := prev[i].present[hh]
					_, is := next[i].present[hh]
					if was && !is {
						trashEffective++
						labels["effect:replica-trashed-by-"+st.Op] = true
					}
					if !was && is && strings.Contains(st.Op, "untrash") {
						untrashEffective++
					}
					if len(prev[i].trash[hh]) > len(next[i].trash[hh]) && strings.Contains(st.Op, "emptytrash") {
						emptyEffective++
					}
				}
			}
			attempt := func(hh string) bool {
				switch st.Op {
				case "delete", "direct-trash":
					return st.Hash == hh
				case "trashlist":
					for _, e := range st.Entries {
						if e.Locator == hh {
							return true
						}
					}
				}
				return false
			}
			for hh := range protected {
				if attempt(hh) {
					protectThenTrash = true
					labels["protected-then-"+st.Op] = true
				}
			}
			prev = next
		}
		// final GETs
		for _, hh := range cs.hashes {
			present := false
			for _, v := range prev {
				if _, ok := v.present[hh]; ok {
					present = true
				}
			}
			r := h.vkDo("GET", "/"+hh, vkToken, nil)
			if present && (r.Code != 200 || !bytes.Equal(r.Body.Bytes(), cs.blocks[hh])) {
				t.Fatalf("C04 violated: final GET %s returned %d although a replica is present\n history: %s", hh, r.Code, strings.Join(o.history, "; "))
			}
		}
		var ls []string
		for l := range labels {
			ls = append(ls, l)
		}
		sort.Strings(ls)
		if trashEffective > 0 {
			ls = append(ls, "history-with-effective-trash")
		}
		if untrashEffective > 0 {
			ls = append(ls, "history-with-effective-untrash")
		}
		if emptyEffective > 0 {
			ls = append(ls, "history-with-effective-emptytrash")
		}
		ls = append(ls, fmt.Sprintf("nvol:%d", nvol), fmt.Sprintf("ttl:%v", cs.ttl), fmt.Sprintf("blobtrash:%v", cs.conf.BlobTrash))
		for i := range cs.readonly {
			if cs.readonly[i] {
				ls = append(ls, "has-readonly-volume")
				break
			}
		}
		for i := range cs.access {
			if cs.access[i] == vkAccessROHost {
				ls = append(ls, "has-ro-host-volume")
				break
			}
		}
		for i := range cs.access {
			if cs.access[i] == vkAccessRWViaHost && !cs.readonly[i] {
				ls = append(ls, "has-rw-via-host-volume")
				break
			}
		}
		stats.Case(stats.FP(cs.conf.TTL, cs.conf.BlobTrash, cs.readonly, initDesc, strings.Join(o.history, ";")), protectThenTrash, ls...)
		if protectThenTrash && stats.WantSample("history") {
			stats.Sample("history", map[string]interface{}{"ttl": cs.ttl.String(), "readonly": cs.readonly, "initial": initDesc, "history": o.history})
		}
	})
}

// c04ROAttempts measures (labels only, no verdict) how often a request is
// aimed at a mount that is read-only for this server and would have changed it
// had the mount been writable: "<ro-host|ro-config>:<request>". ro-host = the
// mount is read-only only through AccessViaHosts[this server].ReadOnly.
func c04ROAttempts(cs *c04Case, cl *clusterView, st c04Step, prev []*c04Vol, now time.Time) []string {
	var out []string
	for i := range cs.roots {
		if !cs.readonly[i] {
			continue
		}
		kind := "ro-config"
		if cs.access[i] == vkAccessROHost && !cs.conf.Vols[i].ReadOnly {
			kind = "ro-host"
		}
		trashable := func(h string) (int64, bool) {
			m, ok := prev[i].present[h]
			return m, ok && cl.blobTrash && now.Sub(time.Unix(0, m)) >= cs.ttl
		}
		switch st.Op {
		case "delete":
			if _, ok := trashable(st.Hash); ok {
				out = append(out, kind+":delete-of-trashable-replica")
			}
		case "trashlist":
			for _, e := range st.Entries {
				if m, ok := trashable(e.Locator); ok && m == e.BlockMtime {
					switch e.MountUUID {
					case "":
						out = append(out, kind+":trashlist-entry-without-mount-matches-replica")
					case cs.uuids[i]:
						out = append(out, kind+":trashlist-entry-naming-the-mount-matches-replica")
					}
				}
			}
		case "untrash":
			if len(prev[i].trash[st.Hash]) > 0 {
				out = append(out, kind+":untrash-of-trashed-copy")
			}
		case "emptytrash":
			for _, h := range cs.hashes {
				for d := range prev[i].trash[h] {
					if d < now.Unix()-1 && cl.deleteConc >= 1 {
						out = append(out, kind+":emptytrash-with-expired-copy")
					}
				}
			}
		case "put", "touch":
			if st.Hash != "" {
				out = append(out, kind+":"+st.Op)
			}
		}
	}
	sort.Strings(out)
	uniq := out[:0]
	for k, l := range out {
		if k == 0 || l != out[k-1] {
			uniq = append(uniq, l)
		}
	}
	return uniq
}

// c04KnownUntrashRegression is the classifier of the known finding
// "untrash_backdates_fresh_block": the freshness clause failed for a block
// whose present replica was, after its acknowledgement, replaced by an older
// trashed copy through untrash (UnixVolume.Untrash renames the trash file over
// the block file, so the stored timestamp jumps back and a following
// DELETE / trash-list entry may remove it). Any other failure is not matched.
func c04KnownUntrashRegression(o *c04Oracle, st c04Step, msg string) bool {
	h := o.failedFreshness
	if h == "" || o.backdated[h] == "" {
		return false
	}
	return stats.Known("untrash_backdates_fresh_block", o.backdated[h]+"; then "+st.String()+" removed it: "+strings.Join(o.history, "; "))
}
