package keepclient

// C12 (Go client side): readers and writers share one rendezvous probe order.
//
// Reference order: verif.local/vcommon/ref.RendezvousOrder (descending hex
// MD5(hash + uuid[12:27]) for 27-character UUIDs, whole UUID otherwise),
// written from doc/architecture/keep-clients.
//
// Observed: NewRootSorter(...).GetSortedRoots(); the order in which requests of
// a real KeepClient.Get/Ask (all services miss) and PutB (want=1, all services
// refuse) arrive at a recording HTTPClient stub that dials nothing.

import (
	"bytes"
	"crypto/md5"
	"encoding/json"
	"errors"
	"fmt"
	"io/ioutil"
	"net/http"
	"sort"
	"strconv"
	"strings"
	"sync"
	"testing"

	"git.arvados.org/arvados.git/sdk/go/arvadosclient"
	"pgregory.net/rapid"
	"verif.local/vcommon/nearmd5"
	"verif.local/vcommon/ref"
	"verif.local/vcommon/stats"
)

type c12Svc struct {
	UUID     string
	Root     string
	Host     string
	Port     int
	SSL      bool
	Type     string
	ReadOnly bool
}

// c12Key is the part of the uuid that enters the weight; two services with the
// same key have equal weights and an order the documentation does not define.
func c12Key(uuid string) string {
	if len(uuid) == 27 {
		return uuid[12:]
	}
	return uuid
}

const c12alnum = "0123456789abcdefghijklmnopqrstuvwxyz"

func c12Draw27(t *rapid.T, label string) string {
	var prefix string
	switch rapid.IntRange(0, 3).Draw(t, label+"pfx") {
	case 0:
		prefix = "zzzzz-bi6l4-"
	case 1:
		prefix = rapid.StringOfN(rapid.RuneFrom([]rune(c12alnum)), 5, 5, 5).Draw(t, label+"cl") + "-bi6l4-"
	default:
		prefix = rapid.StringOfN(rapid.RuneFrom([]rune(c12alnum+"-")), 12, 12, 12).Draw(t, label+"p12")
	}
	var suffix string
	switch rapid.IntRange(0, 3).Draw(t, label+"sfx") {
	case 0:
		// the numbering used by upstream tests and by KeepServiceURIs
		suffix = fmt.Sprintf("%015x", rapid.IntRange(0, 40).Draw(t, label+"n"))
	default:
		suffix = rapid.StringOfN(rapid.RuneFrom([]rune(c12alnum)), 15, 15, 15).Draw(t, label+"s15")
	}
	return prefix + suffix
}

func c12DrawOther(t *rapid.T, label string) string {
	for {
		var u string
		switch rapid.IntRange(0, 3).Draw(t, label+"kind") {
		case 0:
			u = rapid.StringOfN(rapid.RuneFrom([]rune(c12alnum+"-")), 1, 40, 40).Draw(t, label+"o")
		case 1:
			// one off the canonical length
			n := rapid.SampledFrom([]int{26, 28, 15, 12, 13}).Draw(t, label+"len")
			u = rapid.StringOfN(rapid.RuneFrom([]rune(c12alnum+"-")), n, n, n).Draw(t, label+"o")
		case 2:
			u = rapid.StringN(1, 20, 60).Draw(t, label+"o")
		default:
			u = "zzzzz-bi6l4-" + rapid.StringOfN(rapid.RuneFrom([]rune(c12alnum)), 1, 20, 20).Draw(t, label+"o")
		}
		if len(u) != 27 && len(u) > 0 {
			return u
		}
	}
}

// c12DrawSet draws n services with pairwise distinct weight keys and distinct roots.
func c12DrawSet(t *rapid.T, n int, mode int, label string, taken map[string]bool) []c12Svc {
	var out []c12Svc
	for i := 0; i < n; i++ {
		var u string
		for tries := 0; ; tries++ {
			use27 := mode == 0 || (mode == 2 && rapid.Bool().Draw(t, fmt.Sprintf("%s%dis27", label, i)))
			if use27 {
				u = c12Draw27(t, fmt.Sprintf("%s%d", label, i))
			} else {
				u = c12DrawOther(t, fmt.Sprintf("%s%d", label, i))
			}
			if !taken[c12Key(u)] && !taken["uuid:"+u] {
				break
			}
			if tries > 100 {
				t.Fatalf("VERIF-INFRA: cannot draw distinct uuid")
			}
		}
		taken[c12Key(u)] = true
		taken["uuid:"+u] = true
		s := c12Svc{UUID: u, Host: fmt.Sprintf("%s%d.c12.verif", label, i), Port: 25107 + i%3, Type: "disk"}
		s.SSL = rapid.IntRange(0, 3).Draw(t, fmt.Sprintf("%s%dssl", label, i)) == 0
		scheme := "http"
		if s.SSL {
			scheme = "https"
		}
		s.Root = fmt.Sprintf("%s://%s:%d", scheme, s.Host, s.Port)
		out = append(out, s)
	}
	return out
}

// c12MkSvcs turns given UUIDs (round 2: directed near-colliding weights) into
// services, registering them in taken; UUIDs whose key is already taken are
// skipped.
func c12MkSvcs(t *rapid.T, uuids []string, label string, taken map[string]bool) []c12Svc {
	var out []c12Svc
	for i, u := range uuids {
		if taken[c12Key(u)] || taken["uuid:"+u] {
			continue
		}
		taken[c12Key(u)] = true
		taken["uuid:"+u] = true
		s := c12Svc{UUID: u, Host: fmt.Sprintf("%s%d.c12.verif", label, i), Port: 25107 + i%3, Type: "disk"}
		s.SSL = rapid.IntRange(0, 3).Draw(t, fmt.Sprintf("%s%dssl", label, i)) == 0
		scheme := "http"
		if s.SSL {
			scheme = "https"
		}
		s.Root = fmt.Sprintf("%s://%s:%d", scheme, s.Host, s.Port)
		out = append(out, s)
	}
	return out
}

func c12Keys2(svcs []c12Svc) []string {
	out := make([]string, len(svcs))
	for i, s := range svcs {
		out[i] = c12Key(s.UUID)
	}
	return out
}

func c12Hash(t *rapid.T, label string) string {
	if rapid.IntRange(0, 9).Draw(t, label+"known") == 0 {
		// the vectors of root_sorter_test.go / keep-balance tests
		return fmt.Sprintf("%x", md5.Sum([]byte(fmt.Sprintf("%064x", rapid.IntRange(0, 3).Draw(t, label+"k")))))
	}
	return rapid.StringOfN(rapid.RuneFrom([]rune("0123456789abcdef")), 32, 32, 32).Draw(t, label)
}

func c12RefRoots(hash string, svcs []c12Svc) []string {
	uuids := make([]string, len(svcs))
	byUUID := map[string]string{}
	for i, s := range svcs {
		uuids[i] = s.UUID
		byUUID[s.UUID] = s.Root
	}
	var out []string
	for _, u := range ref.RendezvousOrder(hash, uuids) {
		out = append(out, byUUID[u])
	}
	return out
}

func c12RootMap(svcs []c12Svc, reverse bool) map[string]string {
	m := map[string]string{}
	if reverse {
		for i := len(svcs) - 1; i >= 0; i-- {
			m[svcs[i].UUID] = svcs[i].Root
		}
	} else {
		for _, s := range svcs {
			m[s.UUID] = s.Root
		}
	}
	return m
}

func c12Without(list []string, drop map[string]bool) []string {
	var out []string
	for _, x := range list {
		if !drop[x] {
			out = append(out, x)
		}
	}
	return out
}

func c12Eq(a, b []string) bool {
	if len(a) != len(b) {
		return false
	}
	for i := range a {
		if a[i] != b[i] {
			return false
		}
	}
	return true
}

// ---------------------------------------------------------------- stub

type c12Rec struct {
	Root, Method, Path string
}

type c12Stub struct {
	mu     sync.Mutex
	reqs   []c12Rec
	status func(root string) int // 0 = connection error
	store  map[string][]byte     // root -> block held (write-then-read check)
	accept bool
}

var c12ErrRefused = errors.New("c12 stub: not dialling (recorded and refused)")

func (st *c12Stub) Do(req *http.Request) (*http.Response, error) {
	root := req.URL.Scheme + "://" + req.URL.Host
	var body []byte
	if req.Body != nil {
		body, _ = ioutil.ReadAll(req.Body)
		req.Body.Close()
	}
	st.mu.Lock()
	st.reqs = append(st.reqs, c12Rec{root, req.Method, req.URL.Path})
	code := 404
	var out []byte
	hdr := http.Header{}
	switch {
	case st.accept && req.Method == "PUT":
		code = 200
		st.store[root] = body
		out = []byte(fmt.Sprintf("%s+%d+A%040x@7fffffff\n", strings.TrimPrefix(req.URL.Path, "/"), len(body), 1))
		hdr.Set(XKeepReplicasStored, "1")
	case st.accept:
		if blk, ok := st.store[root]; ok {
			code, out = 200, blk
		}
	case st.status != nil:
		code = st.status(root)
	}
	st.mu.Unlock()
	if code == 0 {
		return nil, c12ErrRefused
	}
	if code != 200 {
		out = []byte(fmt.Sprintf("%d %s\n", code, http.StatusText(code)))
	}
	if req.Method == "HEAD" {
		hdr.Set("Content-Length", strconv.Itoa(len(out)))
		return &http.Response{StatusCode: code, Status: fmt.Sprintf("%d %s", code, http.StatusText(code)), Proto: "HTTP/1.1", ProtoMajor: 1, ProtoMinor: 1,
			Header: hdr, Body: ioutil.NopCloser(bytes.NewReader(nil)), ContentLength: int64(len(out)), Request: req}, nil
	}
	return &http.Response{StatusCode: code, Status: fmt.Sprintf("%d %s", code, http.StatusText(code)), Proto: "HTTP/1.1", ProtoMajor: 1, ProtoMinor: 1,
		Header: hdr, Body: ioutil.NopCloser(bytes.NewReader(out)), ContentLength: int64(len(out)), Request: req}, nil
}

func (st *c12Stub) roots() []string {
	st.mu.Lock()
	defer st.mu.Unlock()
	out := make([]string, len(st.reqs))
	for i, r := range st.reqs {
		out[i] = r.Root
	}
	return out
}

func c12Client(t *rapid.T, svcs []c12Svc, gateways []c12Svc, viaJSON bool, st *c12Stub) *KeepClient {
	kc := &KeepClient{
		Arvados:       &arvadosclient.ArvadosClient{ApiToken: "c12token"},
		Want_replicas: 1,
		HTTPClient:    st,
	}
	if viaJSON {
		type item struct {
			UUID     string `json:"uuid"`
			Host     string `json:"service_host"`
			Port     int    `json:"service_port"`
			SSL      bool   `json:"service_ssl_flag"`
			Type     string `json:"service_type"`
			ReadOnly bool   `json:"read_only"`
		}
		var items []item
		for _, s := range svcs {
			items = append(items, item{s.UUID, s.Host, s.Port, s.SSL, s.Type, s.ReadOnly})
		}
		js, err := json.Marshal(map[string]interface{}{"items": items})
		if err != nil {
			t.Fatalf("VERIF-INFRA: %v", err)
		}
		if err := kc.LoadKeepServicesFromJSON(string(js)); err != nil {
			t.Fatalf("VERIF-INFRA: LoadKeepServicesFromJSON: %v", err)
		}
		// harness self-check: JSON must have preserved the uuids
		if len(kc.LocalRoots()) != len(svcs) {
			t.Fatalf("VERIF-INFRA: %d services configured, client knows %d", len(svcs), len(kc.LocalRoots()))
		}
		for _, s := range svcs {
			if kc.LocalRoots()[s.UUID] != s.Root {
				t.Fatalf("VERIF-INFRA: uuid %q did not survive JSON configuration", s.UUID)
			}
		}
	} else {
		locals, writables, gws := map[string]string{}, map[string]string{}, map[string]string{}
		for _, s := range svcs {
			locals[s.UUID] = s.Root
			if !s.ReadOnly {
				writables[s.UUID] = s.Root
			}
		}
		for _, g := range gateways {
			gws[g.UUID] = g.Root
		}
		kc.SetServiceRoots(locals, writables, gws)
	}
	return kc
}

// ---------------------------------------------------------------- property

type c12Hint struct {
	Text   string // "+K@…" etc
	Class  string
	Usable string // root the hint resolves to ("" = not usable)
}

func TestVerifC12ClientProbeOrder(t *testing.T) {
	defer stats.Flush()
	rapid.Check(t, func(t *rapid.T) {
		n := rapid.SampledFrom([]int{1, 2, 2, 3, 3, 4, 5, 6, 8, 12, 16, 24, 32}).Draw(t, "n")
		if rapid.IntRange(0, 4).Draw(t, "anyN") == 0 {
			n = rapid.IntRange(1, 32).Draw(t, "nAny")
		}
		mode := rapid.SampledFrom([]int{0, 0, 0, 0, 1, 2, 2}).Draw(t, "uuidMode") // all 27 / all other / mixed
		taken := map[string]bool{}
		data := rapid.SliceOfN(rapid.Byte(), 1, 24).Draw(t, "data")
		dhash := fmt.Sprintf("%x", md5.Sum(data))

		// Round 2: directed near-collisions. In ~45% of the cases the set contains
		// 2-3 services whose weights for the read hash (or for the hash of the
		// data written, or one group for each) share their first 4-8 hex digits
		// (10-16 for the precomputed pairs) and differ later. Their order is
		// fully defined by the documented full-string comparison.
		var hash string
		var directed []c12Svc // go into the set
		var heldOut []c12Svc  // near-collider of a member of the set, used as the ADDED service
		writeGroup := map[string]bool{}
		var dirLabels []string
		var groups []nearmd5.Group
		switch plan := rapid.SampledFrom([]string{"", "", "", "", "", "", "", "", "", "", "", "read", "read", "read", "write", "write", "both", "pinned", "pinned", "pinned-write"}).Draw(t, "directed"); plan {
		case "":
			hash = c12Hash(t, "hash")
		case "pinned":
			g := nearmd5.DrawPinned(t, "dp", mode)
			hash = g.Hash
			groups = append(groups, g)
			dirLabels = append(dirLabels, "directed:precomputed-pair-for-read-hash")
		case "pinned-write":
			// the block written is the 64-byte preimage of the pinned hash
			g := nearmd5.DrawPinned(t, "dp", mode)
			pre, ok := nearmd5.PinnedPreimage(g.Hash)
			if !ok {
				t.Fatalf("VERIF-INFRA: no preimage for pinned hash %s", g.Hash)
			}
			data = []byte(pre)
			dhash = fmt.Sprintf("%x", md5.Sum(data))
			if dhash != g.Hash {
				t.Fatalf("VERIF-INFRA: md5 of the pinned preimage is %s, want %s", dhash, g.Hash)
			}
			hash = c12Hash(t, "hash")
			groups = append(groups, g)
			dirLabels = append(dirLabels, "directed:precomputed-pair-for-write-hash")
		default:
			hash = c12Hash(t, "hash")
			if plan == "read" || plan == "both" {
				groups = append(groups, nearmd5.DrawGroup(t, "dr", hash, mode))
			}
			if plan == "write" || plan == "both" {
				groups = append(groups, nearmd5.DrawGroup(t, "dw", dhash, mode))
			}
			dirLabels = append(dirLabels, "directed:"+plan+"-hash")
		}
		for gi, g := range groups {
			if g.Pinned {
				if err := (nearmd5.PinnedPair{Hash: g.Hash, Hex: g.Hex, A: g.Keys[0], B: g.Keys[1]}).Verify(); err != nil {
					t.Fatalf("VERIF-INFRA: %v", err)
				}
			} else if len(g.UUIDs) >= 2 && g.Shared < g.Hex {
				t.Fatalf("VERIF-INFRA: near-collision search returned weights %v that share %d < %d hex digits", g.Weights, g.Shared, g.Hex)
			}
			if len(g.UUIDs) < 2 {
				dirLabels = append(dirLabels, "directed:search-ran-out-of-budget")
				continue
			}
			ms := c12MkSvcs(t, g.UUIDs, fmt.Sprintf("d%d", gi), taken)
			if len(ms) < 2 {
				continue
			}
			dirLabels = append(dirLabels, fmt.Sprintf("directed:group-of-%d", len(ms)))
			for _, u := range g.UUIDs {
				if len(u) == 27 {
					dirLabels = append(dirLabels, "directed:member-with-27-char-uuid")
				} else {
					dirLabels = append(dirLabels, "directed:member-with-other-length-uuid")
				}
			}
			if g.Hash == dhash {
				for _, m := range ms {
					writeGroup[m.UUID] = true
				}
			}
			if g.Hash == hash && heldOut == nil && rapid.IntRange(0, 2).Draw(t, "holdOut") == 0 {
				heldOut = ms[len(ms)-1:]
				ms = ms[:len(ms)-1]
				dirLabels = append(dirLabels, "directed:added-service-near-collides-with-a-member")
			}
			directed = append(directed, ms...)
			if stats.WantSample("directed near-collision") {
				stats.Sample("directed near-collision", map[string]interface{}{"hash": g.Hash, "uuids": g.UUIDs, "weights": g.Weights, "shared_hex_digits": g.Shared, "candidates_tried": g.Tried})
			}
		}
		if n < len(directed) {
			n = len(directed)
		}
		svcs := append(directed, c12DrawSet(t, n-len(directed), mode, "s", taken)...)
		if len(directed) > 0 && n > 1 && rapid.Bool().Draw(t, "shuffleSet") {
			svcs = rapid.Permutation(svcs).Draw(t, "setOrder")
		}
		for i := range svcs {
			svcs[i].ReadOnly = rapid.IntRange(0, 4).Draw(t, fmt.Sprintf("ro%d", i)) == 0 && !writeGroup[svcs[i].UUID]
			if rapid.IntRange(0, 3).Draw(t, fmt.Sprintf("px%d", i)) == 0 {
				svcs[i].Type = "proxy"
			}
		}
		labels := []string{fmt.Sprintf("uuids=%s", [...]string{"all-27", "all-other-length", "mixed"}[mode])}
		{
			seenL := map[string]bool{}
			for _, l := range dirLabels {
				if !seenL[l] {
					seenL[l] = true
					labels = append(labels, l)
				}
			}
		}
		// measured on the set itself, whatever produced it
		labels = append(labels, "read-hash:longest-common-weight-prefix="+nearmd5.PrefixBucket(nearmd5.MaxSharedPrefix(hash, c12Keys2(svcs))))
		{
			var wr []c12Svc
			for _, s := range svcs {
				if !s.ReadOnly {
					wr = append(wr, s)
				}
			}
			labels = append(labels, "write-hash:longest-common-weight-prefix="+nearmd5.PrefixBucket(nearmd5.MaxSharedPrefix(dhash, c12Keys2(wr))))
		}
		switch {
		case n == 1:
			labels = append(labels, "n=1")
		case n <= 4:
			labels = append(labels, "n=2-4")
		case n <= 12:
			labels = append(labels, "n=5-12")
		default:
			labels = append(labels, "n=13-32")
		}
		describe := func() string {
			var b strings.Builder
			fmt.Fprintf(&b, "hash %s, services:\n", hash)
			for _, s := range svcs {
				fmt.Fprintf(&b, "  %q -> %s type=%s readonly=%v\n", s.UUID, s.Root, s.Type, s.ReadOnly)
			}
			return b.String()
		}

		// (i) the sorter itself: equals the reference, is a permutation, and
		// does not depend on how the map was built.
		want := c12RefRoots(hash, svcs)
		got := NewRootSorter(c12RootMap(svcs, false), hash).GetSortedRoots()
		if !c12Eq(got, want) {
			t.Fatalf("NewRootSorter order differs from the documented order\n got  %v\n want %v\n%s", got, want, describe())
		}
		got2 := NewRootSorter(c12RootMap(svcs, true), hash).GetSortedRoots()
		if !c12Eq(got2, want) {
			t.Fatalf("NewRootSorter order depends on map construction\n got  %v\n want %v\n%s", got2, want, describe())
		}
		sortedGot := append([]string(nil), got...)
		sortedAll := make([]string, 0, n)
		for _, s := range svcs {
			sortedAll = append(sortedAll, s.Root)
		}
		sort.Strings(sortedGot)
		sort.Strings(sortedAll)
		if !c12Eq(sortedGot, sortedAll) {
			t.Fatalf("GetSortedRoots is not a permutation of the service set: %v\n%s", got, describe())
		}

		// (v) stability under removing / adding one service.
		if n >= 2 {
			x := rapid.IntRange(0, n-1).Draw(t, "remove")
			rest := append(append([]c12Svc(nil), svcs[:x]...), svcs[x+1:]...)
			gotRest := NewRootSorter(c12RootMap(rest, false), hash).GetSortedRoots()
			if exp := c12Without(got, map[string]bool{svcs[x].Root: true}); !c12Eq(gotRest, exp) {
				t.Fatalf("removing service %q changed the relative order of the others\n before %v\n after  %v\n%s", svcs[x].UUID, got, gotRest, describe())
			}
			labels = append(labels, "remove-one")
		}
		{
			extra := heldOut
			if extra == nil {
				extra = c12DrawSet(t, 1, mode, "x", taken)
				delete(taken, c12Key(extra[0].UUID))
				delete(taken, "uuid:"+extra[0].UUID)
			}
			more := append(append([]c12Svc(nil), svcs...), extra[0])
			gotMore := NewRootSorter(c12RootMap(more, false), hash).GetSortedRoots()
			if exp := c12Without(gotMore, map[string]bool{extra[0].Root: true}); !c12Eq(exp, got) {
				t.Fatalf("adding service %q changed the relative order of the others\n before %v\n after  %v\n%s", extra[0].UUID, got, gotMore, describe())
			}
			if !c12Eq(gotMore, c12RefRoots(hash, more)) {
				t.Fatalf("order after adding %q differs from the documented order: %v\n%s", extra[0].UUID, gotMore, describe())
			}
			pos := 0
			for i, r := range gotMore {
				if r == extra[0].Root {
					pos = i
				}
			}
			switch {
			case pos == 0:
				labels = append(labels, "added-lands-first")
			case pos == len(gotMore)-1:
				labels = append(labels, "added-lands-last")
			default:
				labels = append(labels, "added-lands-inside")
			}
		}

		// (ii) read path.
		viaJSON := rapid.Bool().Draw(t, "viaJSON")
		var gateways []c12Svc
		if !viaJSON {
			gateways = c12DrawSet(t, rapid.IntRange(0, 3).Draw(t, "ngw"), 0, "g", taken)
			if rapid.Bool().Draw(t, "localsAreGateways") {
				gateways = append(gateways, svcs...)
			}
		} else {
			gateways = svcs // loadKeepServers lists every service as a gateway
		}
		locator := hash
		if rapid.IntRange(0, 5).Draw(t, "sized") > 0 {
			locator += fmt.Sprintf("+%d", rapid.IntRange(1, 1<<26).Draw(t, "size"))
		}
		var hints []c12Hint
		seenUsable := map[string]bool{}
		nh := rapid.SampledFrom([]int{0, 0, 1, 1, 2, 3, 4}).Draw(t, "nhints")
		for i := 0; i < nh; i++ {
			l := fmt.Sprintf("h%d", i)
			var h c12Hint
			switch rapid.IntRange(0, 6).Draw(t, l+"class") {
			case 0, 1:
				id := rapid.StringOfN(rapid.RuneFrom([]rune(c12alnum)), 5, 5, 5).Draw(t, l+"id")
				h = c12Hint{"+K@" + id, "K5", "https://keep." + id + ".arvadosapi.com"}
			case 2:
				var g27 []c12Svc
				for _, g := range gateways {
					if len(g.UUID) == 27 && !strings.ContainsAny(g.UUID, "+ \n") {
						g27 = append(g27, g)
					}
				}
				if len(g27) == 0 {
					continue
				}
				g := g27[rapid.IntRange(0, len(g27)-1).Draw(t, l+"gw")]
				h = c12Hint{"+K@" + g.UUID, "K27-known", g.Root}
			case 3:
				u := "zzzzz-bi6l4-" + rapid.StringOfN(rapid.RuneFrom([]rune(c12alnum)), 15, 15, 15).Draw(t, l+"unk")
				known := false
				for _, g := range gateways {
					known = known || g.UUID == u
				}
				if known {
					continue
				}
				h = c12Hint{"+K@" + u, "K27-unknown", ""}
			case 4:
				ln := rapid.SampledFrom([]int{0, 1, 4, 6, 14, 26, 28, 33}).Draw(t, l+"badlen")
				h = c12Hint{"+K@" + rapid.StringOfN(rapid.RuneFrom([]rune(c12alnum+"-")), ln, ln, ln).Draw(t, l+"bad"), "K-other-length", ""}
			case 5:
				h = c12Hint{"+A" + rapid.StringOfN(rapid.RuneFrom([]rune("0123456789abcdef")), 40, 40, 40).Draw(t, l+"sig") + "@5f000000", "A", ""}
			default:
				h = c12Hint{rapid.SampledFrom([]string{"+Zx", "+Rzzzzz-abcdef@5f000000", "+Bfoo", "+k@abcde", "+Kabcde"}).Draw(t, l+"other"), "other", ""}
			}
			if h.Usable != "" {
				if seenUsable[h.Usable] {
					continue // the same usable hint twice: order/duplication is not specified
				}
				seenUsable[h.Usable] = true
			}
			hints = append(hints, h)
			locator += h.Text
			labels = append(labels, "hint="+h.Class)
		}
		if len(hints) == 0 {
			labels = append(labels, "hint=none")
		}
		if strings.HasPrefix(locator, "d41d8cd98f00b204e9800998ecf8427e+0") {
			t.Skip("empty-block locator is answered locally")
		}
		var hintRoots []string
		hintSet := map[string]bool{}
		for _, h := range hints {
			if h.Usable != "" {
				hintRoots = append(hintRoots, h.Usable)
				hintSet[h.Usable] = true
			}
		}
		allMiss := rapid.IntRange(0, 3).Draw(t, "allMiss") > 0
		statuses := map[string]int{}
		if !allMiss {
			for _, r := range append(append([]string(nil), want...), hintRoots...) {
				statuses[r] = rapid.SampledFrom([]int{404, 404, 403, 500, 503, 0}).Draw(t, "status "+r)
			}
			labels = append(labels, "read-mixed-failures")
		} else {
			labels = append(labels, "read-all-404")
		}
		st := &c12Stub{status: func(root string) int {
			if c, ok := statuses[root]; ok {
				return c
			}
			return 404
		}}
		kc := c12Client(t, svcs, gateways, viaJSON, st)
		kc.Retries = rapid.IntRange(0, 2).Draw(t, "retries")
		method := "GET"
		var rerr error
		if rapid.Bool().Draw(t, "ask") {
			method = "HEAD"
			_, _, rerr = kc.Ask(locator)
		} else {
			var rdr interface{ Close() error }
			rdr, _, _, rerr = kc.Get(locator)
			if rerr == nil && rdr != nil {
				rdr.Close()
			}
		}
		if rerr == nil {
			t.Fatalf("read of %q succeeded although every service failed\n%s", locator, describe())
		}
		st.mu.Lock()
		reqs := append([]c12Rec(nil), st.reqs...)
		st.mu.Unlock()
		for _, r := range reqs {
			if r.Method != method || r.Path != "/"+locator {
				t.Fatalf("unexpected request %s %s%s for %s of %q", r.Method, r.Root, r.Path, method, locator)
			}
		}
		obs := st.roots()
		hintedLocal := false
		for _, r := range want {
			hintedLocal = hintedLocal || hintSet[r]
		}
		if len(obs) < len(hintRoots) || !c12Eq(obs[:len(hintRoots)], hintRoots) {
			t.Fatalf("read of %q: usable hints are not tried first, in locator order\n probed %v\n hinted %v\n%s", locator, obs, hintRoots, describe())
		}
		if !hintedLocal {
			firstPass := len(hintRoots) + len(want)
			if len(obs) < firstPass {
				t.Fatalf("read of %q probed %d services, expected %d hinted + %d local\n probed %v\n%s", locator, len(obs), len(hintRoots), len(want), obs, describe())
			}
			if allMiss && len(obs) != firstPass {
				t.Fatalf("read of %q: every service answered 404 but %d requests were made for %d hinted + %d local services\n probed %v\n%s", locator, len(obs), len(hintRoots), len(want), obs, describe())
			}
			// every service fails, so the first pass visits all of them once
			if local := obs[len(hintRoots):firstPass]; !c12Eq(local, want) {
				t.Fatalf("read of %q: local services are not probed in the documented order\n probed %v\n want   %v (after %d hinted)\n%s", locator, local, want, len(hintRoots), describe())
			}
		} else {
			// A hinted gateway is also a local service. Whether it is probed
			// again at its local position is not specified; the others must
			// keep the documented order.
			labels = append(labels, "hint-names-local-service")
			if allMiss {
				local := obs[len(hintRoots):]
				if !c12Eq(c12Without(local, hintSet), c12Without(want, hintSet)) {
					t.Fatalf("read of %q: local services are not probed in the documented order\n probed %v\n want   %v (after %d hinted)\n%s", locator, local, want, len(hintRoots), describe())
				}
			}
		}

		// (iii) write path: want=1, every writable service refuses.
		var writable []c12Svc
		for _, s := range svcs {
			if !s.ReadOnly {
				writable = append(writable, s)
			}
		}
		wantW := c12RefRoots(dhash, writable)
		refusal := rapid.SampledFrom([]int{403, 403, 400, 503, 500, 0}).Draw(t, "refusal")
		wst := &c12Stub{status: func(string) int { return refusal }}
		wkc := c12Client(t, svcs, gateways, viaJSON, wst)
		wkc.Want_replicas = 1
		wkc.Retries = rapid.IntRange(0, 2).Draw(t, "wretries")
		_, _, werr := wkc.PutB(data)
		if werr == nil {
			t.Fatalf("PutB succeeded although every service refused with %d\n%s", refusal, describe())
		}
		wobs := wst.roots()
		if len(wobs) < len(wantW) {
			t.Fatalf("write of %s: %d requests for %d writable services: %v\n%s", dhash, len(wobs), len(wantW), wobs, describe())
		}
		if !c12Eq(wobs[:len(wantW)], wantW) {
			t.Fatalf("write of %s (want=1, all refuse %d): services are not tried in the documented order\n tried %v\n want  %v\n%s", dhash, refusal, wobs, wantW, describe())
		}
		for _, r := range wst.reqs {
			if r.Method != "PUT" || r.Path != "/"+dhash {
				t.Fatalf("unexpected write request %s %s%s", r.Method, r.Root, r.Path)
			}
		}
		if len(writable) == 0 {
			labels = append(labels, "no-writable-service")
		} else if len(writable) < n {
			labels = append(labels, "some-read-only")
		}

		// (vi) written with enough replicas => found at the first positions a
		// reader tries (all services writable and accepting).
		if rapid.Bool().Draw(t, "roundtrip") {
			all := make([]c12Svc, len(svcs))
			copy(all, svcs)
			for i := range all {
				all[i].ReadOnly = false
			}
			k := rapid.IntRange(1, 3).Draw(t, "k")
			ast := &c12Stub{accept: true, store: map[string][]byte{}}
			akc := c12Client(t, all, nil, viaJSON, ast)
			akc.Want_replicas = k
			loc, nrep, err := akc.PutB(data)
			order := c12RefRoots(dhash, all)
			if k <= len(all) {
				if err != nil || nrep < k {
					t.Fatalf("PutB(want=%d) with %d accepting services failed: %d %v\n%s", k, len(all), nrep, err, describe())
				}
				wrote := map[string]bool{}
				for r := range ast.store {
					wrote[r] = true
				}
				for i, r := range order {
					if (i < len(wrote)) != wrote[r] {
						t.Fatalf("write of %s want=%d stored at %v, which are not the first %d of the documented order %v\n%s", dhash, k, c12Keys(wrote), len(wrote), order, describe())
					}
				}
				ast.mu.Lock()
				ast.reqs = nil
				ast.mu.Unlock()
				rdr, _, _, err := akc.Get(loc)
				if err != nil {
					t.Fatalf("Get(%q) after successful write failed: %v", loc, err)
				}
				buf, err := ioutil.ReadAll(rdr)
				rdr.Close()
				if err != nil || !bytes.Equal(buf, data) {
					t.Fatalf("Get(%q) after write returned %q, %v; wrote %q", loc, buf, err, data)
				}
				if probes := ast.roots(); len(probes) != 1 || probes[0] != order[0] {
					t.Fatalf("block %s written with %d replicas was not found at the reader's first probe: reader probed %v, documented order %v\n%s", dhash, k, probes, order, describe())
				}
				labels = append(labels, "write-then-read")
			}
		}

		stats.Case(stats.FP(hash, locator, describe()), n >= 2, labels...)
		if n >= 2 && n <= 4 && stats.WantSample("read+write order") {
			stats.Sample("read+write order", map[string]interface{}{"locator": locator, "services": describe(), "read_probes": obs, "write_hash": dhash, "write_probes": wobs})
		}
	})
}

func c12Keys(m map[string]bool) []string {
	var out []string
	for k := range m {
		out = append(out, k)
	}
	sort.Strings(out)
	return out
}
