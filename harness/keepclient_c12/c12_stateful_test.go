package keepclient

// C12, round 3: ONE KeepClient used over a history. The same block hash is
// looked up again and again (getSortedRoots, Get, Ask, PutB) while the service
// set is replaced between the lookups: one uuid swapped for another (same
// size), the root of a uuid changed, two services exchanging their roots, the
// whole set replaced by another of the same size, one service added/removed -
// for local roots, writable roots and gateway roots alike, through
// SetServiceRoots or LoadKeepServicesFromJSON. Most histories never look up
// any other hash in between. After every replacement the probe order must be
// the rendezvous order of the CURRENT set (reference: vcommon/ref).

import (
	"crypto/md5"
	"encoding/json"
	"fmt"
	"strings"
	"testing"

	"git.arvados.org/arvados.git/sdk/go/arvadosclient"
	"pgregory.net/rapid"
	"verif.local/vcommon/stats"
)

// c12Fair draws an unbiased value in [0,n) (rapid's IntRange favours the ends).
func c12Fair(t *rapid.T, n int, label string) int {
	v := rapid.Uint64().Draw(t, label)
	v ^= v >> 33
	v *= 0xff51afd7ed558ccd
	v ^= v >> 33
	v *= 0xc4ceb9fe1a85ec53
	v ^= v >> 33
	return int(v % uint64(n))
}

type c12State struct {
	locals []c12Svc
	gws    []c12Svc // separate gateways (SetServiceRoots route only)
	json   bool     // last configuration went through LoadKeepServicesFromJSON
}

func (s *c12State) describe() string {
	var b strings.Builder
	route := "SetServiceRoots"
	if s.json {
		route = "LoadKeepServicesFromJSON"
	}
	fmt.Fprintf(&b, "current set (configured by %s):\n", route)
	for _, x := range s.locals {
		fmt.Fprintf(&b, "  local   %q -> %s readonly=%v\n", x.UUID, x.Root, x.ReadOnly)
	}
	if !s.json {
		for _, x := range s.gws {
			fmt.Fprintf(&b, "  gateway %q -> %s\n", x.UUID, x.Root)
		}
	}
	return b.String()
}

// c12Apply installs the state in the client with FRESH maps (SetServiceRoots
// forbids modifying the maps it was given).
func c12Apply(t *rapid.T, kc *KeepClient, s *c12State) {
	if s.json {
		type item struct {
			UUID     string `json:"uuid"`
			Host     string `json:"service_host"`
			Port     int    `json:"service_port"`
			SSL      bool   `json:"service_ssl_flag"`
			Type     string `json:"service_type"`
			ReadOnly bool   `json:"read_only"`
		}
		items := []item{}
		for _, x := range s.locals {
			items = append(items, item{x.UUID, x.Host, x.Port, x.SSL, x.Type, x.ReadOnly})
		}
		js, err := json.Marshal(map[string]interface{}{"items": items})
		if err != nil {
			t.Fatalf("VERIF-INFRA: %v", err)
		}
		if err := kc.LoadKeepServicesFromJSON(string(js)); err != nil {
			t.Fatalf("VERIF-INFRA: LoadKeepServicesFromJSON: %v", err)
		}
		return
	}
	locals, writables, gws := map[string]string{}, map[string]string{}, map[string]string{}
	for _, x := range s.locals {
		locals[x.UUID] = x.Root
		if !x.ReadOnly {
			writables[x.UUID] = x.Root
		}
	}
	for _, g := range s.gws {
		gws[g.UUID] = g.Root
	}
	kc.SetServiceRoots(locals, writables, gws)
}

// c12NewSvc draws one service whose uuid key and root are new in this history.
func c12NewSvc(t *rapid.T, mode int, label string, taken map[string]bool, serial *int) c12Svc {
	*serial++
	s := c12DrawSet(t, 1, mode, fmt.Sprintf("%s%d-", label, *serial), taken)[0]
	return s
}

func c12Reroot(s *c12Svc, serial *int) {
	*serial++
	s.Host = fmt.Sprintf("moved%d.c12.verif", *serial)
	scheme := "http"
	if s.SSL {
		scheme = "https"
	}
	s.Root = fmt.Sprintf("%s://%s:%d", scheme, s.Host, s.Port)
}

func TestVerifC12ClientStateful(t *testing.T) {
	defer stats.Flush()
	rapid.Check(t, func(t *rapid.T) {
		taken := map[string]bool{}
		serial := 0
		mode := []int{0, 0, 0, 1, 2}[c12Fair(t, 5, "uuidMode")]
		n := []int{1, 2, 2, 3, 3, 4, 4, 5, 6, 8, 12, 16}[c12Fair(t, 12, "n")]
		data := rapid.SliceOfN(rapid.Byte(), 1, 24).Draw(t, "data")
		dhash := fmt.Sprintf("%x", md5.Sum(data))
		hash := dhash // reads and writes then share one hash
		if c12Fair(t, 3, "readHashIsWriteHash") > 0 {
			hash = c12Hash(t, "hash")
		}
		otherHash := c12Hash(t, "otherHash")
		if hash == "d41d8cd98f00b204e9800998ecf8427e" || otherHash == hash {
			t.Skip("empty block / equal hashes")
		}
		state := &c12State{json: c12Fair(t, 3, "startJSON") == 0}
		state.locals = c12DrawSet(t, n, mode, "s", taken)
		for i := range state.locals {
			state.locals[i].ReadOnly = c12Fair(t, 5, fmt.Sprintf("ro%d", i)) == 0
		}
		state.gws = c12DrawSet(t, c12Fair(t, 4, "ngw"), 0, "g", taken)
		var formerGw []c12Svc // gateway uuids that were configured earlier and are gone now

		present := map[string]bool{} // roots that hold the block (HEAD/GET answer 200)
		st := &c12Stub{}
		st.status = func(root string) int {
			if present[root] {
				return 200
			}
			return 404
		}
		kc := &KeepClient{
			Arvados:       &arvadosclient.ArvadosClient{ApiToken: "c12token"},
			Want_replicas: 1,
			HTTPClient:    st,
		}
		c12Apply(t, kc, state)

		labels := []string{"stateful", fmt.Sprintf("uuids=%s", [...]string{"all-27", "all-other-length", "mixed"}[mode])}
		seen := map[string]bool{}
		add := func(l string) {
			if !seen[l] {
				seen[l] = true
				labels = append(labels, l)
			}
		}
		var history []string
		fail := func(format string, args ...interface{}) {
			t.Fatalf("%s\nhash %s (written data hashes to %s)\nhistory:\n  %s\n%s", fmt.Sprintf(format, args...), hash, dhash, strings.Join(history, "\n  "), state.describe())
		}

		// what the previous lookup of `hash` saw
		var prevOrder []string
		prevSize := -1
		lookedUp := false
		otherSince := false // another hash was looked up since the last lookup of `hash`
		changedSince := ""  // kind of replacement since the last lookup of `hash`
		nChanged := 0

		lookup := func(step int) {
			l := fmt.Sprintf("l%d", step)
			want := c12RefRoots(hash, state.locals)
			for r := range present {
				delete(present, r)
			}
			// hints: only gateways that are not local services (SetServiceRoots route)
			locator := hash
			kind := []string{"sorted", "sorted", "get", "ask", "put", "ask-hit"}[c12Fair(t, 6, l+"kind")]
			// (the stub answers a HEAD hit with Content-Length 0: no size hint then)
			if kind != "ask-hit" && c12Fair(t, 3, l+"sized") > 0 {
				locator += fmt.Sprintf("+%d", 1+c12Fair(t, 1<<20, l+"size"))
			}
			var hintRoots []string
			if !state.json {
				switch c12Fair(t, 6, l+"hint") {
				case 0, 1:
					if len(state.gws) > 0 {
						g := state.gws[c12Fair(t, len(state.gws), l+"gw")]
						locator += "+K@" + g.UUID
						hintRoots = append(hintRoots, g.Root)
						add("lookup:hint-names-current-gateway")
					}
				case 2:
					if len(formerGw) > 0 {
						g := formerGw[c12Fair(t, len(formerGw), l+"fgw")]
						locator += "+K@" + g.UUID
						add("lookup:hint-names-gateway-that-was-swapped-out")
					}
				}
			}
			var got []string
			var wantSeq []string
			switch kind {
			case "sorted":
				got = kc.getSortedRoots(locator)
				wantSeq = append(append([]string(nil), hintRoots...), want...)
			case "get", "ask", "ask-hit":
				wantSeq = append(append([]string(nil), hintRoots...), want...)
				if kind == "ask-hit" && len(want) > 0 {
					// some of the current local services hold the block: the
					// reader must stop at the first holder of the CURRENT order
					first := len(want)
					for i, r := range want {
						if c12Fair(t, 3, fmt.Sprintf("%shas%d", l, i)) == 0 {
							present[r] = true
							if i < first {
								first = i
							}
						}
					}
					if first == len(want) {
						first = c12Fair(t, len(want), l+"holder")
						present[want[first]] = true
					}
					wantSeq = wantSeq[:len(hintRoots)+first+1]
				}
				st.mu.Lock()
				st.reqs = nil
				st.mu.Unlock()
				kc.Retries = 0
				var err error
				var url string
				if kind == "get" {
					var rdr interface{ Close() error }
					rdr, _, url, err = kc.Get(locator)
					if err == nil && rdr != nil {
						rdr.Close()
					}
				} else {
					_, url, err = kc.Ask(locator)
				}
				if kind == "ask-hit" {
					if err != nil {
						fail("Ask(%q) failed although %v hold the block: %v", locator, c12Keys(present), err)
					}
					if exp := wantSeq[len(wantSeq)-1] + "/" + locator; url != exp {
						fail("Ask(%q) was answered by %s, the first holder in the documented order of the current set is %s", locator, url, exp)
					}
				} else if err == nil {
					fail("%s of %q succeeded although every service answers 404", kind, locator)
				}
				for _, r := range st.reqs {
					if r.Path != "/"+locator {
						fail("unexpected request %s %s%s during %s of %q", r.Method, r.Root, r.Path, kind, locator)
					}
				}
				got = st.roots()
			case "put":
				var wr []c12Svc
				for _, s := range state.locals {
					if !s.ReadOnly {
						wr = append(wr, s)
					}
				}
				wantSeq = c12RefRoots(dhash, wr)
				st.mu.Lock()
				st.reqs = nil
				st.mu.Unlock()
				kc.Retries = 0
				kc.Want_replicas = 1
				_, _, err := kc.PutB(data)
				if err == nil {
					fail("PutB succeeded although every service answers 404")
				}
				for _, r := range st.reqs {
					if r.Method != "PUT" || r.Path != "/"+dhash {
						fail("unexpected write request %s %s%s", r.Method, r.Root, r.Path)
					}
				}
				got = st.roots()
			}
			history = append(history, fmt.Sprintf("%s %s -> %v", kind, locator, got))
			if !c12Eq(got, wantSeq) {
				fail("%s of %q on a client whose service set was replaced: probe order is not the documented order of the current set\n got  %v\n want %v", kind, locator, got, wantSeq)
			}
			add("lookup:" + kind)
			if kind == "put" && hash != dhash {
				// a lookup of another hash (the write hash)
				otherSince = true
				return
			}
			if lookedUp && changedSince != "" {
				nChanged++
				l := "relookup-after-" + changedSince
				if otherSince {
					l += "(other hash in between)"
				}
				add(l)
				if len(state.locals) == prevSize && !otherSince {
					add("relookup-after-same-size-replacement,no-other-hash-in-between")
					if !c12Eq(prevOrder, want) {
						add("relookup-after-same-size-replacement,no-other-hash-in-between,local-order-differs")
					}
				}
			} else if lookedUp {
				add("relookup-of-unchanged-set")
			}
			lookedUp, otherSince, changedSince = true, false, ""
			prevOrder, prevSize = want, len(state.locals)
		}

		mutate := func(step int) {
			l := fmt.Sprintf("m%d", step)
			nl := len(state.locals)
			kinds := []string{"swap-local-uuid", "swap-local-uuid", "swap-local-uuid", "swap-local-uuid-and-root", "swap-local-uuid-and-root",
				"reroot-local", "exchange-roots", "replace-all-same-size", "swap-gateway-uuid", "reroot-gateway", "toggle-read-only", "add-local", "remove-local", "switch-route"}
			kind := kinds[c12Fair(t, len(kinds), l+"kind")]
			switch kind {
			case "swap-local-uuid", "swap-local-uuid-and-root":
				// one uuid swapped for another; the set keeps its size
				i := c12Fair(t, nl, l+"i")
				old := state.locals[i]
				nu := c12NewSvc(t, mode, "n", taken, &serial)
				nu.ReadOnly = old.ReadOnly
				if kind == "swap-local-uuid" {
					// the new uuid is served at the same address
					nu.Host, nu.Port, nu.SSL, nu.Root = old.Host, old.Port, old.SSL, old.Root
				}
				state.locals = append([]c12Svc(nil), state.locals...)
				state.locals[i] = nu
				history = append(history, fmt.Sprintf("%s: %q (%s) replaced by %q (%s)", kind, old.UUID, old.Root, nu.UUID, nu.Root))
			case "reroot-local":
				i := c12Fair(t, nl, l+"i")
				state.locals = append([]c12Svc(nil), state.locals...)
				old := state.locals[i].Root
				c12Reroot(&state.locals[i], &serial)
				history = append(history, fmt.Sprintf("%s: %q moves from %s to %s", kind, state.locals[i].UUID, old, state.locals[i].Root))
			case "exchange-roots":
				if nl < 2 {
					return
				}
				i := c12Fair(t, nl, l+"i")
				j := (i + 1 + c12Fair(t, nl-1, l+"j")) % nl
				state.locals = append([]c12Svc(nil), state.locals...)
				a, b := state.locals[i], state.locals[j]
				a.Host, a.Port, a.SSL, a.Root, b.Host, b.Port, b.SSL, b.Root = b.Host, b.Port, b.SSL, b.Root, a.Host, a.Port, a.SSL, a.Root
				state.locals[i], state.locals[j] = a, b
				history = append(history, fmt.Sprintf("%s: %q and %q exchange their addresses", kind, a.UUID, b.UUID))
			case "replace-all-same-size":
				var fresh []c12Svc
				for i := 0; i < nl; i++ {
					nu := c12NewSvc(t, mode, "r", taken, &serial)
					nu.ReadOnly = state.locals[i].ReadOnly
					fresh = append(fresh, nu)
				}
				state.locals = fresh
				history = append(history, fmt.Sprintf("%s: %d new services", kind, nl))
			case "swap-gateway-uuid":
				if state.json || len(state.gws) == 0 {
					return
				}
				i := c12Fair(t, len(state.gws), l+"i")
				old := state.gws[i]
				nu := c12NewSvc(t, 0, "ng", taken, &serial)
				if c12Fair(t, 2, l+"sameaddr") == 0 {
					nu.Host, nu.Port, nu.SSL, nu.Root = old.Host, old.Port, old.SSL, old.Root
				}
				state.gws = append([]c12Svc(nil), state.gws...)
				state.gws[i] = nu
				formerGw = append(formerGw, old)
				history = append(history, fmt.Sprintf("%s: gateway %q (%s) replaced by %q (%s)", kind, old.UUID, old.Root, nu.UUID, nu.Root))
			case "reroot-gateway":
				if state.json || len(state.gws) == 0 {
					return
				}
				i := c12Fair(t, len(state.gws), l+"i")
				state.gws = append([]c12Svc(nil), state.gws...)
				c12Reroot(&state.gws[i], &serial)
				history = append(history, fmt.Sprintf("%s: gateway %q moves to %s", kind, state.gws[i].UUID, state.gws[i].Root))
			case "toggle-read-only":
				i := c12Fair(t, nl, l+"i")
				state.locals = append([]c12Svc(nil), state.locals...)
				state.locals[i].ReadOnly = !state.locals[i].ReadOnly
				history = append(history, fmt.Sprintf("%s: %q read-only=%v", kind, state.locals[i].UUID, state.locals[i].ReadOnly))
			case "add-local":
				nu := c12NewSvc(t, mode, "a", taken, &serial)
				state.locals = append(append([]c12Svc(nil), state.locals...), nu)
				history = append(history, fmt.Sprintf("%s: %q (%s)", kind, nu.UUID, nu.Root))
			case "remove-local":
				if nl < 2 {
					return
				}
				i := c12Fair(t, nl, l+"i")
				history = append(history, fmt.Sprintf("%s: %q", kind, state.locals[i].UUID))
				state.locals = append(append([]c12Svc(nil), state.locals[:i]...), state.locals[i+1:]...)
			case "switch-route":
				state.json = !state.json
				history = append(history, fmt.Sprintf("%s: json=%v", kind, state.json))
			}
			if c12Fair(t, 4, l+"shuffle") == 0 && len(state.locals) > 1 {
				state.locals = rapid.Permutation(state.locals).Draw(t, l+"order")
			}
			c12Apply(t, kc, state)
			add("replace:" + kind)
			if changedSince == "" {
				changedSince = kind
			} else if changedSince != kind {
				changedSince = "several-replacements"
			}
		}

		nsteps := 3 + c12Fair(t, 8, "nsteps")
		for step := 0; step < nsteps; step++ {
			if step > 0 || c12Fair(t, 10, "mutateFirst") == 0 {
				mutate(step)
				if c12Fair(t, 6, fmt.Sprintf("twice%d", step)) == 0 {
					mutate(step + 100)
				}
			}
			if c12Fair(t, 8, fmt.Sprintf("other%d", step)) == 0 {
				// minority: another hash is looked up in between
				got := kc.getSortedRoots(otherHash)
				if want := c12RefRoots(otherHash, state.locals); !c12Eq(got, want) {
					fail("getSortedRoots(%q) is not the documented order of the current set\n got  %v\n want %v", otherHash, got, want)
				}
				history = append(history, fmt.Sprintf("sorted %s -> %v", otherHash, got))
				otherSince = true
				add("other-hash-looked-up-in-between")
			}
			lookup(step)
		}
		switch {
		case nChanged >= 4:
			add("relookups-after-replacement>=4")
		case nChanged >= 2:
			add("relookups-after-replacement=2-3")
		}
		stats.Case(stats.FP("stateful", hash, strings.Join(history, "|")), nChanged >= 1, labels...)
		if nChanged >= 2 && len(state.locals) <= 4 && stats.WantSample("stateful history") {
			stats.Sample("stateful history", map[string]interface{}{"hash": hash, "write_hash": dhash, "history": history, "final_set": state.describe()})
		}
	})
}
