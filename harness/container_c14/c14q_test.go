package container

// C14, unit "queue": the real container.Queue against an in-memory API stub.
//
// The stub is the "database": every record keeps its complete version history
// (one entry per modification). The harness owns the schedule:
//
//   - Update() runs in its own goroutine; every request it makes (auth, list
//     pages, the uuid-in "missing" query) parks at the stub. The machine decides
//     when the query is evaluated against the database (snapshot) and, separately,
//     when the answer is delivered. Anything may happen in between.
//   - Lock/Unlock/Cancel are either called synchronously (the stub answers at
//     once) or in a goroutine whose request parks the same way (arrive -> apply
//     -> deliver), at most one call in flight per container (that is what the
//     scheduler's per-container latch guarantees).
//   - Forget(), API-side changes (new container, priority incl. 0, cancel,
//     Locked->Running->Complete by crunch-run, record deleted) are plain actions.
//
// At any moment exactly one goroutine is runnable (hand-over through unbuffered
// channels); no sleep or wall-clock reading is a correctness signal (the 60 s
// select timeouts only turn a deadlock into VERIF-INFRA).
//
// Oracles (model = version history only; no copy of the cache logic):
//
//  Q1  after a successful local call returned, the entry (if cached) shows the
//      state/priority/locked_by_uuid of that response;
//  Q2  after Update() returned nil, every entry's (state, priority) equals the
//      record's content at some version v with floor <= v <= current, where floor
//      is the version of the last local-call response delivered during that poll
//      for this uuid, or else the version the record had when Update() was
//      called (Entries' documented threshold). This is "never older than a local
//      state change that completed during the poll" and "a forgotten container
//      reappears only with a state at least as new";
//  Q3  after Update() returned nil, a record that did not change during the poll,
//      had no local call completed and no Forget during the poll, and is
//      (Queued, priority>0) or (Locked/Running by this dispatcher) is present and
//      exact; the instance type is the one chooseType gives;
//  Q4  Forget drops exactly the documented states and nothing else;
//  Q5  the Entries() threshold lies between "Update() called" and "first request
//      of that poll arrived" (monotonic clock, causally ordered readings);
//  Q6  always: entry key == uuid, Get agrees with Entries, and the content is
//      some historic content of that record (never invented).

import (
	"fmt"
	"io"
	"io/ioutil"
	"sort"
	"strings"
	"testing"
	"time"

	"git.arvados.org/arvados.git/sdk/go/arvados"
	"github.com/sirupsen/logrus"
	"pgregory.net/rapid"
	"verif.local/vcommon/stats"
)

const (
	vqMe      = "zzzzz-gj3su-0000000000000me"
	vqOther   = "zzzzz-gj3su-00000000000else"
	vqMaxCtrs = 7
)

type vqVer struct {
	state    arvados.ContainerState
	prio     int64
	lockedBy string
	deleted  bool
}

type vqRec struct {
	uuid      string
	vcpus     int
	lockCount int
	hist      []vqVer
}

func (r *vqRec) cur() vqVer { return r.hist[len(r.hist)-1] }
func (r *vqRec) ver() int   { return len(r.hist) - 1 }
func (r *vqRec) set(v vqVer) {
	if v.state != arvados.ContainerStateLocked && v.state != arvados.ContainerStateRunning {
		v.lockedBy = ""
	}
	r.hist = append(r.hist, v)
}

type vqReq struct {
	kind    string // auth list op
	method  string
	path    string
	params  interface{}
	dst     interface{}
	release chan struct{}

	evaluated bool
	err       error
	items     map[string]int // list: uuid -> version in the snapshot
	missingQ  bool
	offsetQ   bool
	// op
	opKind  string
	opUUID  string
	resp    arvados.Container
	respVer int
}

type vqStub struct {
	m      *vqM
	arrive chan *vqReq
}

type vqPoll struct {
	done     chan error
	pending  *vqReq
	startVer map[string]int
	opVer    map[string]int
	forgot   map[string]bool
	snapVer  map[string]int
	t0, t1   time.Time
	nreq     int
	injected bool
	missingQ bool
	maxPages int
	curPages int
}

type vqOp struct {
	kind string
	uuid string
	req  *vqReq
	done chan error
}

type vqM struct {
	q           *Queue
	stub        *vqStub
	recs        map[string]*vqRec
	pageCap     int
	maxAttempts int
	poll        *vqPoll
	ops         []*vqOp
	trace       []string
	flags       map[string]bool
	infra       string
	parkNextOp  bool
	syncMode    string
	lastSync    *vqReq
	lastThr     time.Time
	nUpdates    int
	nOps        int
}

func vqTypeName(vcpus int) string { return fmt.Sprintf("type%d", vcpus) }

func (m *vqM) flag(f string) { m.flags[f] = true }

func (m *vqM) uuids() []string {
	out := make([]string, 0, len(m.recs))
	for u := range m.recs {
		out = append(out, u)
	}
	sort.Strings(out)
	return out
}

// ---------------------------------------------------------------- stub

func (s *vqStub) RequestAndDecode(dst interface{}, method, path string, body io.Reader, params interface{}) error {
	m := s.m
	req := &vqReq{method: method, path: path, params: params, dst: dst, release: make(chan struct{})}
	const cpfx = "arvados/v1/containers/"
	switch {
	case method == "GET" && path == "arvados/v1/api_client_authorizations/current":
		req.kind = "auth"
	case method == "GET" && path == "arvados/v1/containers":
		req.kind = "list"
	case method == "POST" && strings.HasPrefix(path, cpfx) && strings.HasSuffix(path, "/lock"):
		req.kind, req.opKind, req.opUUID = "op", "lock", strings.TrimSuffix(strings.TrimPrefix(path, cpfx), "/lock")
	case method == "POST" && strings.HasPrefix(path, cpfx) && strings.HasSuffix(path, "/unlock"):
		req.kind, req.opKind, req.opUUID = "op", "unlock", strings.TrimSuffix(strings.TrimPrefix(path, cpfx), "/unlock")
	case method == "PUT" && strings.HasPrefix(path, cpfx):
		p, ok := params.(map[string]map[string]interface{})
		if !ok || p["container"]["state"] != arvados.ContainerStateCancelled {
			m.infra = fmt.Sprintf("stub: unexpected PUT params %#v", params)
			return fmt.Errorf("stub: unsupported request")
		}
		req.kind, req.opKind, req.opUUID = "op", "cancel", strings.TrimPrefix(path, cpfx)
	default:
		m.infra = fmt.Sprintf("stub: unexpected request %s %s", method, path)
		return fmt.Errorf("stub: unsupported request")
	}
	if req.kind == "op" && !m.parkNextOp {
		// synchronous call on the test goroutine
		m.evalOp(req, m.syncMode)
		m.lastSync = req
		return req.err
	}
	m.parkNextOp = false
	s.arrive <- req
	<-req.release
	return req.err
}

// evalList evaluates a list query against the database as it is now.
func (m *vqM) evalList(req *vqReq) {
	req.evaluated = true
	params, ok := req.params.(arvados.ResourceListParams)
	if !ok {
		m.infra = fmt.Sprintf("stub: list params are %T", req.params)
		req.err = fmt.Errorf("stub: bad params")
		return
	}
	if params.Order != "uuid" || params.Offset < 0 {
		m.infra = fmt.Sprintf("stub: unsupported order/offset %q %d", params.Order, params.Offset)
		req.err = fmt.Errorf("stub: bad params")
		return
	}
	sel := map[string]bool{}
	for _, s := range params.Select {
		sel[s] = true
	}
	limit := m.pageCap
	if params.Limit != nil && *params.Limit < limit {
		limit = *params.Limit
	}
	req.items = map[string]int{}
	var items []arvados.Container
	skipped := 0
	if params.Offset > 0 {
		req.offsetQ = true
	}
	for _, uuid := range m.uuids() {
		r := m.recs[uuid]
		c := r.cur()
		if c.deleted {
			continue
		}
		match := true
		for _, f := range params.Filters {
			switch {
			case f.Attr == "locked_by_uuid" && f.Operator == "=":
				s, ok := f.Operand.(string)
				match = match && ok && c.lockedBy == s && s != ""
			case f.Attr == "state" && f.Operator == "=":
				s, ok := f.Operand.(arvados.ContainerState)
				match = match && ok && c.state == s
			case f.Attr == "priority" && f.Operator == ">":
				s, ok := f.Operand.(string)
				if !ok || s != "0" {
					m.infra = fmt.Sprintf("stub: unsupported priority operand %#v", f.Operand)
				}
				match = match && c.prio > 0
			case f.Attr == "uuid" && f.Operator == "in":
				req.missingQ = true
				l, ok := f.Operand.([]string)
				in := false
				for _, x := range l {
					in = in || x == uuid
				}
				match = match && ok && in
			case f.Attr == "uuid" && f.Operator == ">":
				s, ok := f.Operand.(string)
				match = match && ok && uuid > s
			default:
				m.infra = fmt.Sprintf("stub: unsupported filter %#v", f)
				match = false
			}
		}
		if !match {
			continue
		}
		if skipped < params.Offset {
			// Queue.fetchAll pages by offset (its keyset branch tests len(Order)==1, which "uuid" never satisfies)
			skipped++
			continue
		}
		if len(items) >= limit {
			break
		}
		it := arvados.Container{}
		if sel["uuid"] {
			it.UUID = uuid
		}
		if sel["state"] {
			it.State = c.state
		}
		if sel["priority"] {
			it.Priority = c.prio
		}
		if sel["locked_by_uuid"] {
			it.LockedByUUID = c.lockedBy
		}
		if sel["runtime_constraints"] {
			it.RuntimeConstraints = arvados.RuntimeConstraints{VCPUs: r.vcpus, RAM: 1 << 30}
		}
		if sel["container_image"] {
			it.ContainerImage = "img"
		}
		items = append(items, it)
		req.items[uuid] = r.ver()
	}
	if l, ok := req.dst.(*arvados.ContainerList); ok {
		*l = arvados.ContainerList{Items: items}
	} else {
		m.infra = fmt.Sprintf("stub: list dst is %T", req.dst)
	}
}

func (m *vqM) evalAuth(req *vqReq) {
	req.evaluated = true
	if a, ok := req.dst.(*arvados.APIClientAuthorization); ok {
		a.UUID = vqMe
	} else {
		m.infra = fmt.Sprintf("stub: auth dst is %T", req.dst)
	}
}

// evalOp applies a lock/unlock/cancel request to the database now.
// mode: ok | err (refused, nothing happens) | lost (applied, but the caller gets an error)
func (m *vqM) evalOp(req *vqReq, mode string) {
	req.evaluated = true
	if mode == "err" {
		req.err = fmt.Errorf("stub: 503 injected")
		return
	}
	r := m.recs[req.opUUID]
	if r == nil || r.cur().deleted {
		req.err = fmt.Errorf("stub: 404 %s", req.opUUID)
		return
	}
	c := r.cur()
	switch req.opKind {
	case "lock":
		if c.state != arvados.ContainerStateQueued || c.prio <= 0 {
			req.err = fmt.Errorf("stub: 422 cannot lock when %s priority %d", c.state, c.prio)
			return
		}
		r.lockCount++
		c.state, c.lockedBy = arvados.ContainerStateLocked, vqMe
	case "unlock":
		if c.state != arvados.ContainerStateLocked || c.lockedBy != vqMe {
			req.err = fmt.Errorf("stub: 422 cannot unlock when %s locked by %q", c.state, c.lockedBy)
			return
		}
		if r.lockCount >= m.maxAttempts {
			c.state = arvados.ContainerStateCancelled
		} else {
			c.state = arvados.ContainerStateQueued
		}
	case "cancel":
		switch {
		case c.state == arvados.ContainerStateQueued:
		case (c.state == arvados.ContainerStateLocked || c.state == arvados.ContainerStateRunning) && c.lockedBy == vqMe:
		default:
			req.err = fmt.Errorf("stub: 422 cannot cancel when %s locked by %q", c.state, c.lockedBy)
			return
		}
		c.state = arvados.ContainerStateCancelled
	}
	r.set(c)
	c = r.cur()
	req.respVer = r.ver()
	req.resp = arvados.Container{UUID: r.uuid, State: c.state, Priority: c.prio, LockedByUUID: c.lockedBy}
	if mode == "lost" {
		req.err = fmt.Errorf("stub: response lost")
		return
	}
	if d, ok := req.dst.(*arvados.Container); ok {
		*d = req.resp
	} else {
		m.infra = fmt.Sprintf("stub: op dst is %T", req.dst)
	}
}

// ---------------------------------------------------------------- machine

func vqSetup(t *rapid.T) *vqM {
	m := &vqM{recs: map[string]*vqRec{}, flags: map[string]bool{}}
	m.stub = &vqStub{m: m, arrive: make(chan *vqReq)}
	logger := logrus.New()
	logger.Out = ioutil.Discard
	m.q = NewQueue(logger, nil, func(c *arvados.Container) (arvados.InstanceType, error) {
		return arvados.InstanceType{Name: vqTypeName(c.RuntimeConstraints.VCPUs), VCPUs: c.RuntimeConstraints.VCPUs}, nil
	}, m.stub)
	switch rapid.IntRange(0, 5).Draw(t, "pageCapKind") {
	case 0, 3:
		m.pageCap = 1
	case 1:
		m.pageCap = 2
	case 4:
		m.pageCap = 3
	default:
		m.pageCap = 1000
	}
	m.maxAttempts = rapid.IntRange(1, 3).Draw(t, "maxAttempts")
	m.trace = append(m.trace, fmt.Sprintf("setup cap=%d max=%d", m.pageCap, m.maxAttempts))
	n := rapid.IntRange(1, 4).Draw(t, "initialCtrs")
	for i := 0; i < n; i++ {
		m.newCtr(t)
	}
	return m
}

func (m *vqM) newCtr(t *rapid.T) {
	var uuid string
	for tries := 0; ; tries++ {
		uuid = fmt.Sprintf("zzzzz-dz642-%015d", rapid.IntRange(0, 60).Draw(t, "uuidN"))
		if m.recs[uuid] == nil {
			break
		}
		if tries > 50 {
			t.Skip("no free uuid")
		}
	}
	r := &vqRec{uuid: uuid, vcpus: rapid.IntRange(1, 3).Draw(t, "vcpus")}
	prio := int64(0)
	if rapid.IntRange(0, 5).Draw(t, "newPrio0") != 3 {
		prio = int64(rapid.IntRange(1, 1000).Draw(t, "prio"))
	}
	r.set(vqVer{state: arvados.ContainerStateQueued, prio: prio})
	m.recs[uuid] = r
	m.trace = append(m.trace, fmt.Sprintf("new %s prio=%d", uuid[21:], prio))
}

func (m *vqM) log(f string, a ...interface{}) { m.trace = append(m.trace, fmt.Sprintf(f, a...)) }

func (m *vqM) history() string {
	var b strings.Builder
	b.WriteString(strings.Join(m.trace, "\n  "))
	b.WriteString("\n database:")
	for _, u := range m.uuids() {
		r := m.recs[u]
		fmt.Fprintf(&b, "\n  %s:", u[21:])
		for i, v := range r.hist {
			fmt.Fprintf(&b, " v%d=%s/%d", i, v.state, v.prio)
			if v.lockedBy == vqMe {
				b.WriteString("/me")
			} else if v.lockedBy != "" {
				b.WriteString("/other")
			}
			if v.deleted {
				b.WriteString("/deleted")
			}
		}
	}
	ents, _ := m.q.Entries()
	b.WriteString("\n cache:")
	var us []string
	for u := range ents {
		us = append(us, u)
	}
	sort.Strings(us)
	for _, u := range us {
		fmt.Fprintf(&b, " %s=%s/%d", u[21:], ents[u].Container.State, ents[u].Container.Priority)
	}
	return b.String()
}

func (m *vqM) fail(t *rapid.T, f string, a ...interface{}) {
	t.Fatalf("%s\n history:\n  %s", fmt.Sprintf(f, a...), m.history())
}

func (m *vqM) checkInfra(t *rapid.T) {
	if m.infra != "" {
		t.Fatalf("VERIF-INFRA: %s", m.infra)
	}
}

// matches reports whether (state, prio) is the content of uuid's record at some version >= floor.
func (m *vqM) matches(uuid string, state arvados.ContainerState, prio int64, floor int) bool {
	r := m.recs[uuid]
	if r == nil {
		return false
	}
	if floor < 0 {
		floor = 0
	}
	for v := floor; v < len(r.hist); v++ {
		h := r.hist[v]
		if !h.deleted && h.state == state && h.prio == prio {
			return true
		}
	}
	return false
}

// Q6
func (m *vqM) check(t *rapid.T) {
	m.checkInfra(t)
	ents, thr := m.q.Entries()
	if thr.Before(m.lastThr) {
		m.fail(t, "Entries() threshold went backwards: %v after %v", thr, m.lastThr)
	}
	m.lastThr = thr
	for uuid, ent := range ents {
		if ent.Container.UUID != uuid {
			m.fail(t, "entry %s holds container %q", uuid, ent.Container.UUID)
		}
		if !m.matches(uuid, ent.Container.State, ent.Container.Priority, 0) {
			m.fail(t, "entry %s = %s/%d was never the content of that record", uuid, ent.Container.State, ent.Container.Priority)
		}
		r := m.recs[uuid]
		if ent.InstanceType.Name != vqTypeName(r.vcpus) {
			m.fail(t, "entry %s has instance type %q, chooseType gives %q", uuid, ent.InstanceType.Name, vqTypeName(r.vcpus))
		}
		got, ok := m.q.Get(uuid)
		if !ok || got.State != ent.Container.State || got.Priority != ent.Container.Priority {
			m.fail(t, "Get(%s) = %v %s/%d disagrees with Entries %s/%d", uuid, ok, got.State, got.Priority, ent.Container.State, ent.Container.Priority)
		}
	}
}

func (m *vqM) inFlight(uuid string) bool {
	for _, o := range m.ops {
		if o.uuid == uuid {
			return true
		}
	}
	return false
}

// ---- Update() handling

func (m *vqM) startUpdate(t *rapid.T) {
	p := &vqPoll{done: make(chan error), startVer: map[string]int{}, opVer: map[string]int{}, forgot: map[string]bool{}, snapVer: map[string]int{}}
	for u, r := range m.recs {
		p.startVer[u] = r.ver()
	}
	m.poll = p
	m.nUpdates++
	if len(m.ops) > 0 {
		m.flag("local-call-in-flight-at-update-start")
	}
	m.log("Update() called")
	p.t0 = time.Now()
	go func() { p.done <- m.q.Update() }()
	m.awaitPoll(t)
}

func (m *vqM) awaitPoll(t *rapid.T) {
	p := m.poll
	select {
	case r := <-m.stub.arrive:
		if p.nreq == 0 {
			p.t1 = time.Now()
		}
		p.nreq++
		p.pending = r
		if r.kind == "op" {
			t.Fatalf("VERIF-INFRA: an op request arrived while waiting for the poll")
		}
	case err := <-p.done:
		p.pending = nil
		m.pollFinished(t, err)
	case <-time.After(60 * time.Second):
		t.Fatalf("VERIF-INFRA: Update() neither made a request nor returned within 60 s\n%s", m.history())
	}
}

func (m *vqM) snapshotPending(t *rapid.T) {
	p := m.poll
	r := p.pending
	if r.evaluated {
		return
	}
	if r.kind == "auth" {
		m.evalAuth(r)
		return
	}
	m.evalList(r)
	m.checkInfra(t)
	var d []string
	for u, v := range r.items {
		d = append(d, fmt.Sprintf("%s@v%d", u[21:], v))
	}
	sort.Strings(d)
	kind := "list"
	if r.missingQ {
		kind = "list(uuid in)"
		p.missingQ = true
		m.flag("missing-query")
	}
	m.log("  %s snapshot: [%s] filters=%v", kind, strings.Join(d, " "), vqFilters(r.params))
}

func vqFilters(params interface{}) string {
	p, _ := params.(arvados.ResourceListParams)
	var s []string
	for _, f := range p.Filters {
		op := fmt.Sprint(f.Operand)
		if l, ok := f.Operand.([]string); ok {
			var sh []string
			for _, x := range l {
				sh = append(sh, x[21:])
			}
			op = strings.Join(sh, ",")
		} else if len(op) > 21 && strings.HasPrefix(op, "zzzzz-dz642-") {
			op = op[21:]
		}
		s = append(s, f.Attr+f.Operator+op)
	}
	return strings.Join(s, " & ")
}

func (m *vqM) deliverPending(t *rapid.T, fail bool) {
	p := m.poll
	r := p.pending
	if fail {
		r.evaluated = true
		r.err = fmt.Errorf("stub: 503 injected into poll")
		p.injected = true
		m.log("  poll request fails (injected)")
	} else {
		m.snapshotPending(t)
		if r.kind == "list" {
			if len(r.items) > 0 {
				p.curPages++
				if p.curPages > p.maxPages {
					p.maxPages = p.curPages
				}
			} else {
				p.curPages = 0
			}
			for u, v := range r.items {
				p.snapVer[u] = v
			}
			m.log("  delivered")
		}
	}
	p.pending = nil
	close(r.release)
	m.awaitPoll(t)
}

func (m *vqM) pollFinished(t *rapid.T, err error) {
	p := m.poll
	m.poll = nil
	m.checkInfra(t)
	if err != nil {
		m.log("Update() returned error %v", err)
		if !p.injected {
			m.fail(t, "Update() returned an error although the stub answered every request: %v", err)
		}
		m.flag("update-error")
		return
	}
	m.log("Update() returned nil")
	if p.injected {
		m.fail(t, "Update() returned nil although a poll request failed")
	}
	ents, thr := m.q.Entries()
	// Q5
	if thr.Before(p.t0) || thr.After(p.t1) {
		m.fail(t, "Entries() threshold %v is not between the call of Update() (%v) and its first request (%v)", thr, p.t0, p.t1)
	}
	if p.maxPages > 1 {
		m.flag("multi-page-list")
	}
	// Offset paging can skip an unchanged record when an earlier one leaves the
	// result set between two pages, so with small pages Q3 needs a constant database.
	dbConstant := true
	for uuid, r := range m.recs {
		if v, ok := p.startVer[uuid]; !ok || v != r.ver() {
			dbConstant = false
		}
	}
	if !dbConstant {
		m.flag("database-changed-during-poll")
	}
	for uuid, r := range m.recs {
		ent, present := ents[uuid]
		opv, hadOp := p.opVer[uuid]
		sv, hadSnap := p.snapVer[uuid]
		startv, existed := p.startVer[uuid]
		if hadOp && hadSnap && sv < opv {
			m.flag("poll-snapshot-older-than-local-call")
			if p.forgot[uuid] {
				m.flag("poll-snapshot-older-than-local-call+forget")
			}
		}
		if hadOp && hadSnap && sv >= opv {
			m.flag("poll-snapshot-not-older-than-local-call")
		}
		if p.forgot[uuid] && present {
			m.flag("reappeared-after-forget-during-poll")
		}
		if present {
			// Q2
			floor, why := 0, "its creation"
			if hadOp {
				floor, why = opv, fmt.Sprintf("the local call answered during this poll (v%d)", opv)
			} else if existed {
				floor, why = startv, fmt.Sprintf("the call of Update() (v%d)", startv)
			}
			if !m.matches(uuid, ent.Container.State, ent.Container.Priority, floor) {
				m.fail(t, "after Update(): entry %s = %s/%d is older than %s (record is now at v%d)", uuid, ent.Container.State, ent.Container.Priority, why, r.ver())
			}
		}
		// Q3
		c := r.cur()
		if existed && startv == r.ver() && !hadOp && !p.forgot[uuid] && !c.deleted && (m.pageCap >= 1000 || dbConstant) {
			mine := c.lockedBy == vqMe && (c.state == arvados.ContainerStateLocked || c.state == arvados.ContainerStateRunning)
			avail := c.state == arvados.ContainerStateQueued && c.prio > 0
			if (mine || avail) && !present {
				m.fail(t, "after Update(): %s (%s/%d, unchanged during the poll) is missing from Entries()", uuid, c.state, c.prio)
			}
		}
	}
}

// drain completes the poll in progress, evaluating and delivering at once.
func (m *vqM) drain(t *rapid.T) {
	for i := 0; m.poll != nil; i++ {
		if i > 10000 {
			t.Fatalf("VERIF-INFRA: poll does not terminate")
		}
		m.deliverPending(t, false)
	}
}

// ---- local calls

func (m *vqM) callQueue(kind, uuid string) error {
	switch kind {
	case "lock":
		return m.q.Lock(uuid)
	case "unlock":
		return m.q.Unlock(uuid)
	default:
		return m.q.Cancel(uuid)
	}
}

// opReturned is called when a local call has returned to its caller.
func (m *vqM) opReturned(t *rapid.T, kind, uuid string, req *vqReq, err error) {
	m.checkInfra(t)
	m.nOps++
	if (err == nil) != (req.err == nil) {
		m.fail(t, "%s(%s) returned %v, the stub answered %v", kind, uuid, err, req.err)
	}
	if err != nil {
		m.log("%s(%s) returned error: %v", kind, uuid[21:], err)
		m.flag("local-call-failed")
		return
	}
	m.log("%s(%s) returned: %s/%d v%d", kind, uuid[21:], req.resp.State, req.resp.Priority, req.respVer)
	if m.poll != nil {
		m.poll.opVer[uuid] = req.respVer
		m.flag("local-call-answered-during-poll")
		m.flag(kind + "-answered-during-poll")
	}
	// Q1
	if got, ok := m.q.Get(uuid); ok {
		if got.State != req.resp.State || got.Priority != req.resp.Priority || got.LockedByUUID != req.resp.LockedByUUID {
			m.fail(t, "after %s(%s) returned %s/%d/%q the entry shows %s/%d/%q", kind, uuid, req.resp.State, req.resp.Priority, req.resp.LockedByUUID, got.State, got.Priority, got.LockedByUUID)
		}
	}
	if kind == "unlock" && req.resp.State == arvados.ContainerStateCancelled {
		m.flag("unlock-cancelled-max-attempts")
	}
}

func (m *vqM) syncOp(t *rapid.T, kind, uuid, mode string) {
	m.syncMode = mode
	m.parkNextOp = false
	m.lastSync = nil
	err := m.callQueue(kind, uuid)
	if m.lastSync == nil {
		t.Fatalf("VERIF-INFRA: %s(%s) made no request", kind, uuid)
	}
	m.opReturned(t, kind, uuid, m.lastSync, err)
}

func (m *vqM) pickMode(t *rapid.T) string {
	switch rapid.IntRange(0, 11).Draw(t, "opMode") {
	case 5:
		return "err"
	case 7:
		return "lost"
	}
	return "ok"
}

// pickTarget chooses a container for a local call: mostly one for which the
// call makes sense given the cache (that is what the scheduler does), sometimes any.
func (m *vqM) pickTarget(t *rapid.T) (kind, uuid string) {
	kind = []string{"lock", "unlock", "cancel", "unlock", "lock"}[rapid.IntRange(0, 4).Draw(t, "opKind")]
	ents, _ := m.q.Entries()
	var good, any []string
	for _, u := range m.uuids() {
		if m.inFlight(u) {
			continue
		}
		any = append(any, u)
		ent, ok := ents[u]
		if !ok {
			continue
		}
		switch kind {
		case "lock":
			if ent.Container.State == arvados.ContainerStateQueued && ent.Container.Priority > 0 {
				good = append(good, u)
			}
		case "unlock":
			if ent.Container.State == arvados.ContainerStateLocked {
				good = append(good, u)
			}
		case "cancel":
			if ent.Container.State == arvados.ContainerStateLocked || ent.Container.State == arvados.ContainerStateRunning || ent.Container.State == arvados.ContainerStateQueued {
				good = append(good, u)
			}
		}
	}
	pool := good
	if len(pool) == 0 || rapid.IntRange(0, 9).Draw(t, "anyTarget") == 4 {
		pool = any
	}
	if len(pool) == 0 {
		t.Skip("no target")
	}
	return kind, pool[rapid.IntRange(0, len(pool)-1).Draw(t, "target")]
}

func (m *vqM) actSyncOp(t *rapid.T) {
	kind, uuid := m.pickTarget(t)
	m.syncOp(t, kind, uuid, m.pickMode(t))
}

func (m *vqM) actParkOp(t *rapid.T) {
	if len(m.ops) >= 2 {
		t.Skip("enough calls in flight")
	}
	kind, uuid := m.pickTarget(t)
	op := &vqOp{kind: kind, uuid: uuid, done: make(chan error)}
	m.parkNextOp = true
	go func() { op.done <- m.callQueue(kind, uuid) }()
	select {
	case r := <-m.stub.arrive:
		op.req = r
	case <-time.After(60 * time.Second):
		t.Fatalf("VERIF-INFRA: parked call made no request")
	}
	m.ops = append(m.ops, op)
	m.log("%s(%s) called (request in flight)", kind, uuid[21:])
	m.flag("local-call-parked")
}

func (m *vqM) actApplyOp(t *rapid.T) {
	var cand []*vqOp
	for _, o := range m.ops {
		if !o.req.evaluated {
			cand = append(cand, o)
		}
	}
	if len(cand) == 0 {
		t.Skip("nothing to apply")
	}
	o := cand[rapid.IntRange(0, len(cand)-1).Draw(t, "which")]
	m.evalOp(o.req, m.pickMode(t))
	m.log("  %s(%s) reaches the database: v%d err=%v", o.kind, o.uuid[21:], o.req.respVer, o.req.err)
}

func (m *vqM) finishOp(t *rapid.T, i int) {
	o := m.ops[i]
	if !o.req.evaluated {
		m.evalOp(o.req, m.pickMode(t))
		m.log("  %s(%s) reaches the database: v%d err=%v", o.kind, o.uuid[21:], o.req.respVer, o.req.err)
	}
	m.ops = append(m.ops[:i], m.ops[i+1:]...)
	close(o.req.release)
	select {
	case err := <-o.done:
		m.opReturned(t, o.kind, o.uuid, o.req, err)
	case <-time.After(60 * time.Second):
		t.Fatalf("VERIF-INFRA: parked call did not return")
	}
}

func (m *vqM) actDeliverOp(t *rapid.T) {
	if len(m.ops) == 0 {
		t.Skip("nothing in flight")
	}
	m.finishOp(t, rapid.IntRange(0, len(m.ops)-1).Draw(t, "which"))
}

// ---- Forget

func (m *vqM) forget(t *rapid.T, uuid string) {
	before, was := m.q.Get(uuid)
	m.q.Forget(uuid)
	after, is := m.q.Get(uuid)
	eligible := before.State == arvados.ContainerStateComplete || before.State == arvados.ContainerStateCancelled ||
		(before.State == arvados.ContainerStateQueued && before.Priority == 0)
	m.log("Forget(%s) cached=%v %s/%d -> cached=%v", uuid[21:], was, before.State, before.Priority, is)
	// Q4
	if was && eligible && is {
		m.fail(t, "Forget(%s) kept a %s/%d entry", uuid, before.State, before.Priority)
	}
	if was && !eligible && (!is || after.State != before.State || after.Priority != before.Priority) {
		m.fail(t, "Forget(%s) changed a %s/%d entry (now cached=%v %s/%d)", uuid, before.State, before.Priority, is, after.State, after.Priority)
	}
	if !was && is {
		m.fail(t, "Forget(%s) created an entry", uuid)
	}
	if was && !is {
		m.flag("forgot")
		if m.poll != nil {
			m.poll.forgot[uuid] = true
			m.flag("forget-during-poll")
		}
	}
}

func (m *vqM) actForget(t *rapid.T) {
	ents, _ := m.q.Entries()
	var good, any []string
	for _, u := range m.uuids() {
		any = append(any, u)
		if ent, ok := ents[u]; ok {
			s := ent.Container.State
			if s == arvados.ContainerStateComplete || s == arvados.ContainerStateCancelled || (s == arvados.ContainerStateQueued && ent.Container.Priority == 0) {
				good = append(good, u)
			}
		}
	}
	pool := good
	if len(pool) == 0 || rapid.IntRange(0, 7).Draw(t, "anyForget") == 3 {
		pool = any
	}
	if len(pool) == 0 {
		t.Skip("nothing to forget")
	}
	m.forget(t, pool[rapid.IntRange(0, len(pool)-1).Draw(t, "target")])
}

// ---- API-side changes

func (m *vqM) pickRec(t *rapid.T, ok func(vqVer) bool) *vqRec {
	var cand []*vqRec
	for _, u := range m.uuids() {
		r := m.recs[u]
		if !r.cur().deleted && ok(r.cur()) {
			cand = append(cand, r)
		}
	}
	if len(cand) == 0 {
		t.Skip("no candidate")
	}
	return cand[rapid.IntRange(0, len(cand)-1).Draw(t, "rec")]
}

func vqLive(v vqVer) bool {
	return v.state == arvados.ContainerStateQueued || v.state == arvados.ContainerStateLocked || v.state == arvados.ContainerStateRunning
}

func (m *vqM) apiPrio(r *vqRec, prio int64) {
	c := r.cur()
	c.prio = prio
	r.set(c)
	m.log("api: %s priority=%d (v%d)", r.uuid[21:], prio, r.ver())
}

func (m *vqM) actAPIPrio(t *rapid.T) {
	r := m.pickRec(t, vqLive)
	prio := int64(0)
	if r.cur().prio == 0 || rapid.IntRange(0, 2).Draw(t, "hold") != 1 {
		prio = int64(rapid.IntRange(1, 1000).Draw(t, "prio"))
		if prio == r.cur().prio {
			prio++
		}
	}
	if prio > 0 && r.cur().prio == 0 {
		m.flag("api-priority-0-then-positive")
	}
	m.apiPrio(r, prio)
}

func (m *vqM) actAPINew(t *rapid.T) {
	if len(m.recs) >= vqMaxCtrs {
		t.Skip("enough containers")
	}
	m.newCtr(t)
}

func (m *vqM) actAPICancel(t *rapid.T) {
	r := m.pickRec(t, vqLive)
	c := r.cur()
	c.state = arvados.ContainerStateCancelled
	r.set(c)
	m.log("api: %s cancelled behind the dispatcher (v%d)", r.uuid[21:], r.ver())
}

func (m *vqM) actCrunchRun(t *rapid.T) {
	r := m.pickRec(t, func(v vqVer) bool {
		return v.lockedBy == vqMe && (v.state == arvados.ContainerStateLocked || v.state == arvados.ContainerStateRunning)
	})
	c := r.cur()
	if c.state == arvados.ContainerStateLocked {
		c.state = arvados.ContainerStateRunning
	} else if rapid.IntRange(0, 3).Draw(t, "endKind") == 2 {
		c.state = arvados.ContainerStateCancelled
	} else {
		c.state = arvados.ContainerStateComplete
	}
	r.set(c)
	m.log("crunch-run: %s -> %s (v%d)", r.uuid[21:], c.state, r.ver())
}

func (m *vqM) actAPIDelete(t *rapid.T) {
	r := m.pickRec(t, func(v vqVer) bool { return true })
	c := r.cur()
	c.deleted = true
	r.hist = append(r.hist, c)
	m.flag("record-deleted")
	m.log("api: %s deleted (v%d)", r.uuid[21:], r.ver())
}

// ---- poll actions

func (m *vqM) actPollStep(t *rapid.T) {
	if m.poll == nil {
		m.startUpdate(t)
		return
	}
	m.deliverPending(t, false)
}

func (m *vqM) actPollSnapshot(t *rapid.T) {
	if m.poll == nil || m.poll.pending.evaluated {
		t.Skip("nothing to snapshot")
	}
	m.snapshotPending(t)
	m.flag("snapshot-held-back")
}

func (m *vqM) actPollFail(t *rapid.T) {
	if m.poll == nil {
		t.Skip("no poll")
	}
	m.deliverPending(t, true)
}

func (m *vqM) actPollDrain(t *rapid.T) {
	if m.poll == nil {
		t.Skip("no poll")
	}
	m.drain(t)
}

// actAimed walks straight into the window named in the brief: a list snapshot
// that shows X Locked (or Queued with priority>0) is taken and held back; a
// local Unlock/Cancel (or Lock) for X completes; X is forgotten where the
// result allows it; the remaining schedule is left to the other actions.
func (m *vqM) actAimed(t *rapid.T) {
	variant := rapid.IntRange(0, 4).Draw(t, "variant")
	for len(m.ops) > 0 {
		m.finishOp(t, 0)
	}
	m.drain(t)
	if !m.haveAimCandidate() {
		// bring a fresh container into the cache first
		if len(m.recs) >= vqMaxCtrs+2 {
			t.Skip("no container to aim at")
		}
		m.newCtr(t)
		m.startUpdate(t)
		m.drain(t)
	}
	ents, _ := m.q.Entries()
	var locked, queued []string
	for _, u := range m.uuids() {
		c := m.recs[u].cur()
		ent, ok := ents[u]
		if !ok || c.deleted {
			continue
		}
		if c.state == arvados.ContainerStateLocked && c.lockedBy == vqMe && ent.Container.State == arvados.ContainerStateLocked {
			locked = append(locked, u)
		}
		if c.state == arvados.ContainerStateQueued && c.prio > 0 && ent.Container.State == arvados.ContainerStateQueued && ent.Container.Priority > 0 {
			queued = append(queued, u)
		}
	}
	var x string
	switch {
	case len(locked) > 0:
		x = locked[rapid.IntRange(0, len(locked)-1).Draw(t, "x")]
	case len(queued) > 0:
		x = queued[rapid.IntRange(0, len(queued)-1).Draw(t, "x")]
		if variant != 4 {
			m.syncOp(t, "lock", x, "ok")
		}
	default:
		t.Skip("no container to aim at")
	}
	m.log("aimed scenario variant %d on %s", variant, x[21:])
	m.startUpdate(t)
	for i := 0; ; i++ {
		if m.poll == nil || i > 200 {
			// the polls finished without showing x (cannot happen while x is unchanged)
			t.Fatalf("VERIF-INFRA: aimed scenario: poll ended without a snapshot containing %s\n%s", x, m.history())
		}
		m.snapshotPending(t)
		if _, ok := m.poll.pending.items[x]; ok {
			break
		}
		m.deliverPending(t, false)
	}
	switch variant {
	case 0: // put on hold, then unlock -> Queued/0
		m.apiPrio(m.recs[x], 0)
		m.syncOp(t, "unlock", x, "ok")
	case 1: // cancel -> Cancelled
		m.syncOp(t, "cancel", x, "ok")
	case 2: // plain unlock -> Queued/prio (not forgettable) or Cancelled (max attempts)
		m.syncOp(t, "unlock", x, "ok")
	case 3: // unlock, put on hold afterwards: cache shows Queued/prio
		m.syncOp(t, "unlock", x, "ok")
		m.apiPrio(m.recs[x], 0)
	case 4: // snapshot shows Queued, lock completes during the poll
		if m.recs[x].cur().state == arvados.ContainerStateQueued {
			m.syncOp(t, "lock", x, "ok")
		} else {
			m.syncOp(t, "unlock", x, "ok")
		}
	}
	if rapid.IntRange(0, 4).Draw(t, "forget") != 2 {
		m.forget(t, x)
	}
	m.flag("aimed-window")
	if rapid.IntRange(0, 2).Draw(t, "drainNow") == 1 {
		m.drain(t)
	}
}

func (m *vqM) haveAimCandidate() bool {
	ents, _ := m.q.Entries()
	for u, ent := range ents {
		c := m.recs[u].cur()
		if c.deleted {
			continue
		}
		if c.state == arvados.ContainerStateLocked && c.lockedBy == vqMe && ent.Container.State == arvados.ContainerStateLocked {
			return true
		}
		if c.state == arvados.ContainerStateQueued && c.prio > 0 && ent.Container.State == arvados.ContainerStateQueued && ent.Container.Priority > 0 {
			return true
		}
	}
	return false
}

func (m *vqM) teardown() {
	// let every parked goroutine go, whatever state the case ended in
	if p := m.poll; p != nil {
		for p.pending != nil {
			r := p.pending
			p.pending = nil
			r.err = fmt.Errorf("stub: case over")
			close(r.release)
			select {
			case p.pending = <-m.stub.arrive:
			case <-p.done:
			case <-time.After(60 * time.Second):
				panic("VERIF-INFRA: Update() goroutine leaked")
			}
		}
		m.poll = nil
	}
	for _, o := range m.ops {
		o.req.err = fmt.Errorf("stub: case over")
		close(o.req.release)
		select {
		case <-o.done:
		case <-time.After(60 * time.Second):
			panic("VERIF-INFRA: local call goroutine leaked")
		}
	}
	m.ops = nil
}

func TestVerifC14Queue(t *testing.T) {
	defer stats.Flush()
	rapid.Check(t, func(t *rapid.T) {
		m := vqSetup(t)
		defer m.teardown()
		actions := map[string]func(*rapid.T){"": m.check}
		rare := func(pct int, f func(*rapid.T)) func(*rapid.T) {
			return func(t *rapid.T) {
				// rapid's integers lean towards the ends of the range: use an interior window
				if g := rapid.IntRange(0, 99).Draw(t, "gate"); g < 40 || g >= 40+pct {
					t.Skip("gated")
				}
				f(t)
			}
		}
		// rapid favours the first names of the (sorted) action list; order = weight
		for i, a := range []struct {
			name string
			f    func(*rapid.T)
		}{
			{"pollStep", m.actPollStep},
			{"aimed", rare(25, m.actAimed)},
			{"syncOp", m.actSyncOp},
			{"pollSnapshot", m.actPollSnapshot},
			{"forget", m.actForget},
			{"pollStep", m.actPollStep},
			{"parkOp", m.actParkOp},
			{"deliverOp", m.actDeliverOp},
			{"apiPrio", m.actAPIPrio},
			{"pollStep", m.actPollStep},
			{"syncOp", m.actSyncOp},
			{"applyOp", m.actApplyOp},
			{"apiNew", m.actAPINew},
			{"crunchRun", m.actCrunchRun},
			{"forget", m.actForget},
			{"pollStep", m.actPollStep},
			{"pollDrain", rare(50, m.actPollDrain)},
			{"apiCancel", rare(40, m.actAPICancel)},
			{"pollFail", rare(6, m.actPollFail)},
			{"apiDelete", rare(8, m.actAPIDelete)},
			{"deliverOp", m.actDeliverOp},
			{"pollStep", m.actPollStep},
		} {
			actions[fmt.Sprintf("%02d-%s", i, a.name)] = a.f
		}
		t.Repeat(actions)

		// Quiescent end: finish what is in flight, then one undisturbed Update().
		for len(m.ops) > 0 {
			m.finishOp(t, 0)
		}
		m.drain(t)
		m.check(t)
		m.log("final undisturbed Update()")
		m.startUpdate(t)
		m.drain(t)
		m.check(t)
		ents, _ := m.q.Entries()
		for uuid, ent := range ents {
			c := m.recs[uuid].cur()
			if c.deleted || ent.Container.State != c.state || ent.Container.Priority != c.prio {
				m.fail(t, "after an undisturbed Update(): entry %s = %s/%d, database has %s/%d deleted=%v", uuid, ent.Container.State, ent.Container.Priority, c.state, c.prio, c.deleted)
			}
		}

		labels := make([]string, 0, len(m.flags)+2)
		for f := range m.flags {
			labels = append(labels, f)
		}
		sort.Strings(labels)
		if m.pageCap < 1000 {
			labels = append(labels, "small-pages")
		}
		nontrivial := m.flags["local-call-answered-during-poll"] || m.flags["forget-during-poll"]
		stats.Case(stats.FP(strings.Join(m.trace, "|")), nontrivial, labels...)
		stats.InfoAdd("c14q_updates", int64(m.nUpdates))
		stats.InfoAdd("c14q_local_calls", int64(m.nOps))
		for _, l := range []string{"poll-snapshot-older-than-local-call+forget", "reappeared-after-forget-during-poll"} {
			if m.flags[l] && stats.WantSample(l) {
				h := m.trace
				if len(h) > 60 {
					h = h[:60]
				}
				stats.Sample(l, h)
			}
		}
	})
}
