package main

// C06 part 2 (producer side): keepstore's index handler must not terminate an
// index response with the end-of-index blank line when any volume's IndexTo
// failed – so that every reader (arvados.KeepService.Index / IndexMount,
// keepclient.KeepClient.GetIndex) reports an error instead of acting on a
// partial index. The real handler (handler.setup + MakeRESTRouter) is served
// over loopback HTTP; volumes use a harness driver whose IndexTo writes j
// complete entries (plus, optionally, part of the next one) and then fails.

import (
	"bytes"
	"context"
	"crypto/md5"
	"encoding/json"
	"errors"
	"fmt"
	"io"
	"io/ioutil"
	"net"
	"net/http"
	"net/http/httptest"
	"net/url"
	"sort"
	"strconv"
	"strings"
	"sync"
	"testing"

	"git.arvados.org/arvados.git/lib/config"
	"git.arvados.org/arvados.git/sdk/go/arvados"
	"git.arvados.org/arvados.git/sdk/go/arvadosclient"
	"git.arvados.org/arvados.git/sdk/go/ctxlog"
	"git.arvados.org/arvados.git/sdk/go/keepclient"
	"github.com/prometheus/client_golang/prometheus"
	"github.com/sirupsen/logrus"
	"pgregory.net/rapid"
	"verif.local/vcommon/stats"
)

const c06Token = "verifsystemroottokenverifsystemroottokenverif"

type c06VolPlan struct {
	lines     []string // complete index lines, without newline
	failAfter int      // -1: IndexTo succeeds; j>=0: fails after writing j matching lines
	partial   int      // bytes of line j written (without newline) before failing
}

type c06Volume struct {
	*MockVolume
	id   int
	mu   sync.Mutex
	plan c06VolPlan
}

var (
	c06VolMu sync.Mutex
	c06Vols  = map[int]*c06Volume{}
)

func init() {
	driver["verifc06"] = func(cluster *arvados.Cluster, volume arvados.Volume, logger logrus.FieldLogger, metrics *volumeMetricsVecs) (Volume, error) {
		var p struct{ ID int }
		if err := json.Unmarshal(volume.DriverParameters, &p); err != nil {
			return nil, err
		}
		mv, err := newMockVolume(cluster, volume, logger, metrics)
		if err != nil {
			return nil, err
		}
		v := &c06Volume{MockVolume: mv.(*MockVolume), id: p.ID, plan: c06VolPlan{failAfter: -1}}
		c06VolMu.Lock()
		c06Vols[p.ID] = v
		c06VolMu.Unlock()
		return v, nil
	}
}

func (v *c06Volume) GetDeviceID() string { return fmt.Sprintf("c06-device-%d", v.id) }
func (v *c06Volume) String() string      { return fmt.Sprintf("[c06Volume %d]", v.id) }

func (v *c06Volume) IndexTo(prefix string, w io.Writer) error {
	v.mu.Lock()
	plan := v.plan
	v.mu.Unlock()
	n := 0
	for _, l := range plan.lines {
		if !strings.HasPrefix(l, prefix) {
			continue
		}
		if plan.failAfter >= 0 && n == plan.failAfter {
			if plan.partial > 0 {
				p := plan.partial
				if p > len(l) {
					p = len(l)
				}
				io.WriteString(w, l[:p])
			}
			return errors.New("c06: injected IndexTo failure")
		}
		if _, err := fmt.Fprintf(w, "%s\n", l); err != nil {
			return err
		}
		n++
	}
	if plan.failAfter >= 0 {
		// fewer matching entries than failAfter: fail at the end of the listing
		return errors.New("c06: injected IndexTo failure (end of listing)")
	}
	return nil
}

func c06DiscardLogger() *logrus.Logger {
	l := logrus.New()
	l.Out = ioutil.Discard
	return l
}

const c06NVol = 3

func c06Setup(t *testing.T) (*handler, *httptest.Server) {
	ldr := config.NewLoader(bytes.NewBufferString(`
Clusters:
  zzzzz:
    SystemRootToken: `+c06Token+`
    Services:
      Controller:
        ExternalURL: "https://zzzzz.verif.invalid"
`), c06DiscardLogger())
	ldr.Path = "-"
	cfg, err := ldr.Load()
	if err != nil {
		t.Fatalf("VERIF-INFRA: config: %v", err)
	}
	cluster, err := cfg.GetCluster("")
	if err != nil {
		t.Fatalf("VERIF-INFRA: config: %v", err)
	}
	cluster.Collections.BlobSigning = false
	cluster.Collections.BlobSigningKey = ""
	cluster.API.MaxKeepBlobBuffers = 2
	cluster.Collections.BlobTrashCheckInterval = 0
	cluster.Volumes = map[string]arvados.Volume{}
	for i := 0; i < c06NVol; i++ {
		params, _ := json.Marshal(map[string]int{"ID": i})
		cluster.Volumes[fmt.Sprintf("zzzzz-nyw5e-%015d", i)] = arvados.Volume{Driver: "verifc06", Replication: 1, DriverParameters: params}
	}
	h := &handler{}
	ctx := ctxlog.Context(context.Background(), c06DiscardLogger())
	if err := h.setup(ctx, cluster, "", prometheus.NewRegistry(), arvados.URL{Scheme: "http", Host: "localhost:12345"}); err != nil {
		t.Fatalf("VERIF-INFRA: handler.setup: %v", err)
	}
	if len(h.volmgr.readables) != c06NVol {
		t.Fatalf("VERIF-INFRA: %d readable volumes, want %d", len(h.volmgr.readables), c06NVol)
	}
	quiet := c06DiscardLogger()
	srv := httptest.NewServer(http.HandlerFunc(func(w http.ResponseWriter, r *http.Request) {
		h.ServeHTTP(w, r.WithContext(ctxlog.Context(r.Context(), quiet)))
	}))
	return h, srv
}

type c06Rd struct {
	name string
	read func(mountUUID, prefix string) ([]string, error) // returns "hash+size" of each entry
}

func c06MakeReaders(t *testing.T, base string) []c06Rd {
	u, err := url.Parse(base)
	if err != nil {
		t.Fatal(err)
	}
	host, portS, _ := net.SplitHostPort(u.Host)
	port, _ := strconv.Atoi(portS)
	ks := &arvados.KeepService{UUID: "zzzzz-bi6l4-c06c06c06c06c06", ServiceHost: host, ServicePort: port, ServiceType: "disk"}
	ac := &arvados.Client{APIHost: "unused.invalid", AuthToken: c06Token}
	kc := &keepclient.KeepClient{Arvados: &arvadosclient.ArvadosClient{ApiToken: c06Token}, Want_replicas: 1,
		// same logic as the default client, minus its wall-clock timeouts (2 s connect / 20 s request)
		HTTPClient: &http.Client{Transport: &http.Transport{}}}
	kc.SetServiceRoots(map[string]string{ks.UUID: base}, nil, nil)
	conv := func(es []arvados.KeepServiceIndexEntry) []string {
		var out []string
		for _, e := range es {
			out = append(out, string(e.SizedDigest))
		}
		return out
	}
	return []c06Rd{
		{"arvados.KeepService.IndexMount", func(m, p string) ([]string, error) {
			es, err := ks.IndexMount(context.Background(), ac, m, p)
			return conv(es), err
		}},
		{"arvados.KeepService.Index", func(m, p string) ([]string, error) {
			es, err := ks.Index(context.Background(), ac, p)
			return conv(es), err
		}},
		{"keepclient.KeepClient.GetIndex", func(m, p string) ([]string, error) {
			rdr, err := kc.GetIndex(ks.UUID, p)
			if err != nil {
				return nil, err
			}
			buf, err := ioutil.ReadAll(rdr)
			if err != nil {
				return nil, err
			}
			var out []string
			for _, l := range strings.Split(string(buf), "\n") {
				if l != "" {
					out = append(out, strings.Split(l, " ")[0])
				}
			}
			return out, nil
		}},
	}
}

func c06RawGet(base, path string) (int, string, error) {
	req, _ := http.NewRequest("GET", base+path, nil)
	req.Header.Set("Authorization", "OAuth2 "+c06Token)
	resp, err := http.DefaultClient.Do(req)
	if err != nil {
		return 0, "", err
	}
	defer resp.Body.Close()
	buf, err := ioutil.ReadAll(resp.Body)
	return resp.StatusCode, string(buf), err
}

func TestVerifC06IndexProducer(t *testing.T) {
	defer stats.Flush()
	h, srv := c06Setup(t)
	defer srv.Close()
	defer func() {
		h.pullq.Close()
		h.trashq.Close()
	}()
	readers := c06MakeReaders(t, srv.URL)
	mounts := append([]*VolumeMount(nil), h.volmgr.readables...)
	sort.Slice(mounts, func(i, j int) bool { return mounts[i].UUID < mounts[j].UUID })

	rapid.Check(t, func(t *rapid.T) {
		// every probe order is a state handler.setup can produce (it iterates a map)
		perm := rapid.Permutation([]int{0, 1, 2}).Draw(t, "volumeOrder")
		var order []*VolumeMount
		for _, i := range perm {
			order = append(order, mounts[i])
		}
		h.volmgr.readables = order

		seed := rapid.IntRange(0, 1<<20).Draw(t, "seed")
		failVol := rapid.IntRange(-1, c06NVol-1).Draw(t, "failingVolume") // -1: no failure (control)
		plans := make([]c06VolPlan, c06NVol)
		var desc []string
		for i := 0; i < c06NVol; i++ {
			n := rapid.IntRange(0, 3).Draw(t, "entries")
			p := c06VolPlan{failAfter: -1}
			for k := 0; k < n; k++ {
				hsh := fmt.Sprintf("%x", md5.Sum([]byte(fmt.Sprintf("c06-prod-%d-%d-%d", seed, i, k))))
				if rapid.IntRange(0, 3).Draw(t, "samePrefix") == 0 {
					hsh = "abc" + hsh[3:]
				}
				mt := int64(1443559274)*1e9 + int64(rapid.IntRange(0, 999999999).Draw(t, "ns"))
				p.lines = append(p.lines, fmt.Sprintf("%s+%d %d", hsh, rapid.SampledFrom([]int{0, 3, 44, 67108864}).Draw(t, "size"), mt))
			}
			if i == failVol {
				p.failAfter = rapid.IntRange(0, n).Draw(t, "failAfter")
				if p.failAfter < n && rapid.Bool().Draw(t, "partialLine") {
					p.partial = rapid.IntRange(1, len(p.lines[p.failAfter])).Draw(t, "partialBytes")
				}
			}
			plans[i] = p
			desc = append(desc, fmt.Sprintf("volume %d (%s): lines=%q failAfter=%d partial=%d", i, mounts[i].UUID, p.lines, p.failAfter, p.partial))
		}
		for i := 0; i < c06NVol; i++ {
			v := c06Vols[i]
			v.mu.Lock()
			v.plan = plans[i]
			v.mu.Unlock()
		}
		prefix := rapid.SampledFrom([]string{"", "", "abc", "a", "f"}).Draw(t, "prefix")
		target := rapid.IntRange(0, c06NVol-1).Draw(t, "mountForIndexMount")
		volIdx := map[string]int{}
		for i, m := range mounts {
			volIdx[m.UUID] = i
		}
		expect := func(vols []int) (complete bool, want []string) {
			complete = true
			for _, i := range vols {
				if plans[i].failAfter >= 0 {
					complete = false
				}
				for _, l := range plans[i].lines {
					if strings.HasPrefix(l, prefix) {
						want = append(want, strings.Split(l, " ")[0])
					}
				}
			}
			sort.Strings(want)
			return
		}
		all := []int{}
		for _, m := range order {
			all = append(all, volIdx[m.UUID])
		}
		ctx := func() string {
			return fmt.Sprintf("prefix=%q probe order=%v\n%s", prefix, all, strings.Join(desc, "\n"))
		}
		// raw view of what the handler sends
		type probe struct {
			name string
			path string
			vols []int
		}
		probes := []probe{
			{"GET /index/" + prefix, "/index/" + prefix, all},
			{"GET /mounts/{uuid}/blocks", "/mounts/" + mounts[target].UUID + "/blocks?prefix=" + prefix, []int{target}},
		}
		if prefix == "" {
			probes = append(probes, probe{"GET /index", "/index", all})
		}
		labels := map[string]bool{}
		for _, pr := range probes {
			complete, want := expect(pr.vols)
			code, body, err := c06RawGet(srv.URL, pr.path)
			if err != nil || code != 200 {
				if complete {
					t.Fatalf("VERIF-INFRA: %s: status %d err %v\n%s", pr.name, code, err, ctx())
				}
			} else if !complete {
				if body == "\n" || strings.HasSuffix(body, "\n\n") {
					t.Fatalf("%s: a volume's IndexTo failed but the response still ends with the end-of-index blank line\nbody %q\n%s", pr.name, body, ctx())
				}
				labels["producer_truncated_response"] = true
				if body == "" {
					labels["producer_empty_body"] = true
				} else if !strings.HasSuffix(body, "\n") {
					labels["producer_partial_last_line"] = true
				} else {
					labels["producer_ends_at_line_boundary"] = true
				}
			} else {
				var got []string
				for _, l := range strings.Split(body, "\n") {
					if l != "" {
						got = append(got, strings.Split(l, " ")[0])
					}
				}
				sort.Strings(got)
				if !strings.HasSuffix(body, "\n") || fmt.Sprint(got) != fmt.Sprint(want) {
					t.Fatalf("VERIF-INFRA: %s: complete index expected; body %q want entries %v\n%s", pr.name, body, want, ctx())
				}
				labels["producer_complete_response"] = true
			}
		}
		// end to end: the three readers against the real handler
		for ri, rd := range readers {
			vols := all
			if ri == 0 {
				vols = []int{target}
			}
			complete, want := expect(vols)
			got, err := rd.read(mounts[target].UUID, prefix)
			if !complete {
				if err == nil {
					t.Fatalf("%s returned %d entries and no error although a volume's IndexTo failed while the response was produced\n%s", rd.name, len(got), ctx())
				}
				labels["reader_rejects_partial"] = true
				continue
			}
			if err != nil {
				t.Fatalf("VERIF-INFRA: %s failed on a complete index: %v\n%s", rd.name, err, ctx())
			}
			sort.Strings(got)
			if fmt.Sprint(got) != fmt.Sprint(want) {
				t.Fatalf("%s returned an index that differs from the volumes' content without reporting an error\ngot  %v\nwant %v\n%s", rd.name, got, want, ctx())
			}
			labels["reader_accepts_complete"] = true
		}
		ls := []string{}
		for l := range labels {
			ls = append(ls, l)
		}
		if failVol < 0 {
			ls = append(ls, "no_failure_control")
		} else {
			ls = append(ls, fmt.Sprintf("fail_position_in_probe_order=%d", c06IndexOf(all, failVol)))
			if plans[failVol].partial > 0 {
				ls = append(ls, "fails_mid_line")
			}
			if plans[failVol].failAfter == 0 {
				ls = append(ls, "fails_before_first_entry")
			}
		}
		sort.Strings(ls)
		stats.Case(stats.FP("prod", ctx(), target), failVol >= 0, ls...)
		if stats.WantSample("producer") {
			stats.Sample("producer", map[string]interface{}{"volumes": desc, "prefix": prefix, "probe_order": all})
		}
	})
}

func c06IndexOf(xs []int, v int) int {
	for i, x := range xs {
		if x == v {
			return i
		}
	}
	return -1
}
