package main

// C07 (keepstore half): with blob signing enabled keepstore returns block
// data only for locators carrying a valid unexpired signature for the
// requesting token; expired -> 401, anything else -> 403; the locator in a PUT
// reply verifies for the caller's token only.
//
// Oracle: the HMAC reference transcribed from services/api/app/models/blob.rb
// (vcommon/ref), the harness's own copy of every stored block, and the
// harness's own parsing of the reply locator.

import (
	"bytes"
	"context"
	"encoding/json"
	"fmt"
	"io/ioutil"
	"net/http"
	"net/http/httptest"
	"os"
	"path/filepath"
	"runtime/debug"
	"strconv"
	"strings"
	"testing"
	"time"

	"git.arvados.org/arvados.git/lib/config"
	"git.arvados.org/arvados.git/sdk/go/arvados"
	"git.arvados.org/arvados.git/sdk/go/ctxlog"
	"github.com/prometheus/client_golang/prometheus"
	"github.com/sirupsen/logrus"
	"pgregory.net/rapid"
	"verif.local/vcommon/ref"
	"verif.local/vcommon/stats"
)

const c07kHex = "0123456789abcdef"
const c07kPrintable = "!\"#$%&'()*+,-./0123456789:;<=>?@ABCDEFGHIJKLMNOPQRSTUVWXYZ[\\]^_`abcdefghijklmnopqrstuvwxyz{|}~"

var c07kServiceURL = arvados.URL{Scheme: "http", Host: "localhost:12345"}

type c07kEnv struct {
	base    string
	roots   []string
	cluster *arvados.Cluster
	h       *handler
	srv     *httptest.Server
	blocks  [][]byte // stored before the search starts
}

func c07kExpand(seed uint64, n int) []byte {
	out := make([]byte, n)
	x := seed
	for i := 0; i < n; i += 8 {
		x += 0x9e3779b97f4a7c15
		z := x
		z = (z ^ (z >> 30)) * 0xbf58476d1ce4e5b9
		z = (z ^ (z >> 27)) * 0x94d049bb133111eb
		z ^= z >> 31
		for j := 0; j < 8 && i+j < n; j++ {
			out[i+j] = byte(z >> (8 * uint(j)))
		}
	}
	return out
}

func c07kSetup() (*c07kEnv, error) {
	ctxlog.SetLevel("panic")
	os.Setenv("PATH", "/nonexistent-verif") // no findmnt exec (blank DeviceID path); irrelevant here
	debug.SetGCPercent(400)
	root := "/dev/shm"
	if fi, err := os.Stat(root); err != nil || !fi.IsDir() {
		root = os.Getenv("VERIF_WORK")
		if root == "" {
			root = os.TempDir()
		}
	}
	if ents, err := ioutil.ReadDir(root); err == nil {
		for _, e := range ents {
			if strings.HasPrefix(e.Name(), "verif-c07k-") && time.Since(e.ModTime()) > 3*time.Hour {
				os.RemoveAll(filepath.Join(root, e.Name()))
			}
		}
	}
	base, err := ioutil.TempDir(root, "verif-c07k-")
	if err != nil {
		return nil, err
	}
	lg := logrus.New()
	lg.Out = ioutil.Discard
	ldr := config.NewLoader(bytes.NewBufferString(`
Clusters:
  zzzzz:
    SystemRootToken: verifsystemroottokenverifsystemroottokenverif
    ManagementToken: verifmanagementtokenverifmanagementtokenverif
    Services:
      Controller:
        ExternalURL: "https://zzzzz.verif.invalid"
`), lg)
	ldr.Path = "-"
	cfg, err := ldr.Load()
	if err != nil {
		return nil, err
	}
	cluster, err := cfg.GetCluster("")
	if err != nil {
		return nil, err
	}
	cluster.Collections.BlobSigning = true
	cluster.Collections.BlobSigningKey = "initial-key-replaced-per-case"
	cluster.API.MaxKeepBlobBuffers = 4
	cluster.Collections.BlobTrashCheckInterval = 0
	env := &c07kEnv{base: base, cluster: cluster}
	cluster.Volumes = map[string]arvados.Volume{}
	for i := 0; i < 2; i++ {
		r := filepath.Join(base, fmt.Sprintf("vol%d", i))
		if err := os.MkdirAll(r, 0755); err != nil {
			return nil, err
		}
		env.roots = append(env.roots, r)
		params, _ := json.Marshal(map[string]interface{}{"Root": r})
		cluster.Volumes[fmt.Sprintf("zzzzz-nyw5e-%015d", i)] = arvados.Volume{Driver: "Directory", Replication: 1, DriverParameters: params}
	}
	for i, n := range []int{0, 1, 10, 100, 5000, 70000} {
		b := c07kExpand(uint64(1000+i), n)
		h := ref.MD5Hex(b)
		p := filepath.Join(env.roots[i%2], h[:3], h)
		os.MkdirAll(filepath.Dir(p), 0755)
		if err := ioutil.WriteFile(p, b, 0644); err != nil {
			return nil, err
		}
		env.blocks = append(env.blocks, b)
	}
	env.h = &handler{}
	ctx := ctxlog.Context(context.Background(), lg)
	if err := env.h.setup(ctx, cluster, "", prometheus.NewRegistry(), c07kServiceURL); err != nil {
		return nil, err
	}
	env.srv = httptest.NewServer(env.h)
	return env, nil
}

func (env *c07kEnv) close() {
	env.srv.CloseClientConnections()
	env.srv.Close()
	os.RemoveAll(env.base)
}

type c07kResp struct {
	Status int
	CLen   int64
	Body   []byte
}

// direct request: the locator goes into URL.Path verbatim, the token into the
// Authorization header verbatim (scheme "" = no header at all).
func (env *c07kEnv) direct(method, locator, scheme, token string, body []byte) c07kResp {
	var req *http.Request
	if body != nil {
		req = httptest.NewRequest(method, "/x", bytes.NewReader(body))
	} else {
		req = httptest.NewRequest(method, "/x", nil)
	}
	req.URL.Path = "/" + locator
	req.URL.RawPath = ""
	req.RequestURI = "/" + locator
	if scheme != "" {
		req.Header["Authorization"] = []string{scheme + " " + token}
	}
	rec := httptest.NewRecorder()
	env.h.ServeHTTP(rec, req)
	r := c07kResp{Status: rec.Code, CLen: -1, Body: rec.Body.Bytes()}
	if cl := rec.Header().Get("Content-Length"); cl != "" {
		r.CLen, _ = strconv.ParseInt(cl, 10, 64)
	}
	return r
}

func (env *c07kEnv) wire(method, locator, scheme, token string) (c07kResp, error) {
	req, err := http.NewRequest(method, env.srv.URL+"/"+locator, nil)
	if err != nil {
		return c07kResp{}, err
	}
	if scheme != "" {
		req.Header.Set("Authorization", scheme+" "+token)
	}
	resp, err := env.srv.Client().Do(req)
	if err != nil {
		return c07kResp{}, err
	}
	defer resp.Body.Close()
	data, err := ioutil.ReadAll(resp.Body)
	if err != nil {
		return c07kResp{}, err
	}
	return c07kResp{Status: resp.StatusCode, CLen: resp.ContentLength, Body: data}, nil
}

func c07kToken(t *rapid.T, label string) (string, string) {
	switch rapid.IntRange(0, 4).Draw(t, label+"Class") {
	case 0:
		return "v2/zzzzz-gj3su-" + rapid.StringMatching(`[0-9a-z]{15}`).Draw(t, label+"U") + "/" + rapid.StringMatching(`[0-9a-z]{40,60}`).Draw(t, label+"S"), "v2"
	case 1:
		return rapid.StringMatching(`[0-9a-z]{40,60}`).Draw(t, label), "v1"
	case 2:
		// @ + / and interior spaces; no leading/trailing space (the header
		// grammar itself would strip those)
		return rapid.StringMatching(`[0-9a-z@+/][0-9a-z@+/ ]{0,28}[0-9a-z@+/]`).Draw(t, label), "punct"
	case 3:
		return rapid.StringMatching(`[a-z]{1,4}@[0-9a-f]{8}@[0-9a-f]{1,4}`).Draw(t, label), "looks-like-signature-fields"
	default:
		return rapid.StringMatching(`[0-9a-zA-Z]{1,12}`).Draw(t, label), "short"
	}
}

func c07kKey(t *rapid.T, label string) string {
	n := rapid.SampledFrom([]int{1, 2, 8, 40, 63, 64, 65, 128}).Draw(t, label+"Len")
	return rapid.StringOfN(rapid.RuneFrom([]rune(c07kPrintable)), n, n, n).Draw(t, label)
}

// hints keepstore may be sent here: anything but +R (remote proxy path) and +A.
func c07kHints(t *rapid.T, label string) string {
	n := rapid.IntRange(0, 2).Draw(t, label+"N")
	s := ""
	for i := 0; i < n; i++ {
		s += rapid.SampledFrom([]string{"+Zx", "+K@abcde", "+Bfoo_-@", "+K@zzzzz-bi6l4-0123456789abcde", "+C", "+Z0-9"}).Draw(t, label)
	}
	return s
}

func c07kRotHex(c byte, by int) byte {
	return c07kHex[(strings.IndexByte(c07kHex, c)+1+by)%16]
}

// c07kParseSigned splits hash, signature and expiry out of a reply locator by
// plain string operations (no code or regexp shared with the implementation).
func c07kParseSigned(loc string) (hash, sig, expHex string, ok bool) {
	parts := strings.Split(loc, "+")
	if len(parts[0]) != 32 {
		return
	}
	hash = parts[0]
	n := 0
	for _, p := range parts[1:] {
		if strings.HasPrefix(p, "A") {
			n++
			f := strings.Split(p[1:], "@")
			if len(f) != 2 || len(f[0]) != 40 || len(f[1]) != 8 {
				return
			}
			sig, expHex = f[0], f[1]
		}
	}
	ok = n == 1
	return
}

func TestVerifC07KeepstoreSigned(t *testing.T) {
	defer stats.Flush()
	env, err := c07kSetup()
	if err != nil {
		t.Fatalf("VERIF-INFRA: setup: %v", err)
	}
	defer env.close()
	newBlocks := 0

	rapid.Check(t, func(t *rapid.T) {
		key := c07kKey(t, "key")
		ttl := rapid.SampledFrom([]int64{1, 2, 15, 16, 17, 300, 3600, 1209600, 1209601, 31536000}).Draw(t, "ttl")
		env.cluster.Collections.BlobSigningKey = key
		env.cluster.Collections.BlobSigningTTL = arvados.Duration(time.Duration(ttl) * time.Second)
		token, tokClass := c07kToken(t, "token")
		scheme := rapid.SampledFrom([]string{"OAuth2", "OAuth2", "Bearer"}).Draw(t, "scheme")
		bi := rapid.IntRange(0, len(env.blocks)-1).Draw(t, "block")
		block := env.blocks[bi]
		hash := ref.MD5Hex(block)
		size := ""
		if rapid.Bool().Draw(t, "hasSize") {
			size = fmt.Sprintf("+%d", len(block))
		}
		pre := c07kHints(t, "pre")
		post := c07kHints(t, "post")
		future := rapid.IntRange(0, 3).Draw(t, "future") > 0
		// guard band: the clock is not injectable. A past expiry stays past
		// however slow the machine is; a future one is at least 30 s away.
		var delta int64
		if future {
			delta = rapid.SampledFrom([]int64{30, 31, 60, 3600, 86400, 14 * 86400, 365 * 86400, 5 * 365 * 86400}).Draw(t, "delta")
		} else {
			delta = -rapid.SampledFrom([]int64{5, 6, 60, 3600, 86400, 14 * 86400, 365 * 86400, 5 * 365 * 86400}).Draw(t, "delta")
		}
		delta += rapid.Int64Range(0, 999).Draw(t, "jitter") * (delta / 1000)
		start := time.Now()
		expHex := fmt.Sprintf("%08x", start.Unix()+delta)
		ttlHex := ref.TTLHex(ttl)
		sig := ref.BlobSignature([]byte(key), hash, token, expHex, ttlHex)
		base := hash + size + pre
		full := base + "+A" + sig + "@" + expHex + post

		nreq := 0
		ctxt := func() string {
			return fmt.Sprintf("config: BlobSigningKey=%q BlobSigningTTL=%ds; block %s (%d bytes); reference-signed locator %q for token %q", key, ttl, hash, len(block), full, token)
		}
		isData := func(r c07kResp) bool {
			return (len(block) > 0 && bytes.Equal(r.Body, block)) || (len(block) >= 16 && bytes.Contains(r.Body, block[:16]))
		}
		// wantOK: the reference verdict is "valid and unexpired for this token"
		expectOK := func(what, method, loc, sch, tok string) {
			nreq++
			r := env.direct(method, loc, sch, tok, nil)
			if r.Status != 200 {
				t.Fatalf("%s: %s /%s with Authorization %q -> %d %q, want 200 (valid unexpired signature for the requesting token)\n%s", what, method, loc, sch+" "+tok, r.Status, r.Body, ctxt())
			}
			if method == "GET" && !bytes.Equal(r.Body, block) {
				t.Fatalf("%s: GET /%s -> 200 but body (%d bytes) is not the block\n%s", what, loc, len(r.Body), ctxt())
			}
			if r.CLen != int64(len(block)) {
				t.Fatalf("%s: %s /%s -> 200 with Content-Length %d, block has %d bytes\n%s", what, method, loc, r.CLen, len(block), ctxt())
			}
		}
		// expectDenied: never data; 401 when (only) expired, 403 otherwise.
		// expiredOK/forbiddenOK say which of the two the property allows here.
		expectDenied := func(what, method, loc, sch, tok string, expiredOK, forbiddenOK bool) {
			nreq++
			r := env.direct(method, loc, sch, tok, nil)
			if r.Status == 200 || isData(r) {
				t.Fatalf("%s: %s /%s with Authorization %q -> %d with %d body bytes (block data: %v); the reference says this signature is not valid for the requesting token\n%s", what, method, loc, sch+" "+tok, r.Status, len(r.Body), isData(r), ctxt())
			}
			if !(r.Status == 401 && expiredOK) && !(r.Status == 403 && forbiddenOK) {
				t.Fatalf("%s: %s /%s with Authorization %q -> %d %q; allowed here: 401 (expired)=%v 403 (missing/invalid)=%v\n%s", what, method, loc, sch+" "+tok, r.Status, r.Body, expiredOK, forbiddenOK, ctxt())
			}
		}

		method := rapid.SampledFrom([]string{"GET", "GET", "HEAD"}).Draw(t, "method")

		// ---- the exact locator
		if future {
			expectOK("exact", method, full, scheme, token)
			expectOK("exact-other-scheme", "GET", full, "Bearer", token)
			if pre != "" || post != "" {
				expectOK("hints-reordered", method, hash+size+post+"+A"+sig+"@"+expHex+pre, scheme, token)
			}
			if tokClass == "v2" || tokClass == "v1" || tokClass == "short" {
				nreq++
				r, err := env.wire(method, full, scheme, token)
				if err != nil {
					t.Fatalf("VERIF-INFRA: wire request: %v", err)
				}
				if r.Status != 200 || (method == "GET" && !bytes.Equal(r.Body, block)) || r.CLen != int64(len(block)) {
					t.Fatalf("exact over the wire: %s /%s -> %d, Content-Length %d, %d body bytes; want 200 with the block\n%s", method, full, r.Status, r.CLen, len(r.Body), ctxt())
				}
			}
		} else {
			// well-formed, correctly signed, expired: 401 exactly
			expectDenied("exact-expired", method, full, scheme, token, true, false)
		}
		// From here on every request is a perturbation. With a future expiry
		// only 403 is allowed; with a past expiry the locator is also
		// expired, and either report is accepted (the property groups
		// "well-formed but expired" separately and is silent on which wins).
		eOK := !future

		// ---- other requester
		tok2, _ := c07kToken(t, "token2")
		if tok2 != token {
			expectDenied("other-token", method, full, scheme, tok2, eOK, true)
		}
		expectDenied("token+suffix", method, full, scheme, token+"x", eOK, true)
		expectDenied("token-prefix-only", method, full, scheme, token[:len(token)-1], eOK, true)
		expectDenied("no-authorization-header", method, full, "", "", eOK, true)
		expectDenied("system-root-token", method, full, scheme, env.cluster.SystemRootToken, eOK, true)

		// ---- signatures computed for something else
		key2 := c07kKey(t, "key2")
		if key2 != key {
			expectDenied("signed-with-other-key", method, base+"+A"+ref.BlobSignature([]byte(key2), hash, token, expHex, ttlHex)+"@"+expHex+post, scheme, token, eOK, true)
		}
		for _, ttl2 := range []int64{ttl + 1, ttl - 1, ttl * 16} {
			if ttl2 > 0 {
				expectDenied(fmt.Sprintf("signed-for-ttl-%d", ttl2), method, base+"+A"+ref.BlobSignature([]byte(key), hash, token, expHex, ref.TTLHex(ttl2))+"@"+expHex+post, scheme, token, eOK, true)
			}
		}
		ob := env.blocks[(bi+1+rapid.IntRange(0, len(env.blocks)-2).Draw(t, "otherBlock"))%len(env.blocks)]
		oh := ref.MD5Hex(ob)
		// a perfectly valid signature for another block, moved onto this hash
		expectDenied("signature-of-other-block", method, base+"+A"+ref.BlobSignature([]byte(key), oh, token, expHex, ttlHex)+"@"+expHex+post, scheme, token, eOK, true)
		// the classic forgery: keep the signature, extend the expiry
		later := fmt.Sprintf("%08x", start.Unix()+delta+int64(rapid.IntRange(1, 1<<20).Draw(t, "extend")))
		if !future {
			later = fmt.Sprintf("%08x", start.Unix()+int64(rapid.IntRange(30, 1<<20).Draw(t, "extendToFuture")))
		}
		expectDenied("expiry-extended", method, base+"+A"+sig+"@"+later+post, scheme, token, false, true)

		// ---- single characters of signature and expiry
		sigStart := len(base) + 2
		expStart := sigStart + 41
		pos := rapid.IntRange(0, 39).Draw(t, "sigPos")
		orig := full[sigStart+pos]
		repl := []byte{c07kRotHex(orig, rapid.IntRange(0, 14).Draw(t, "sigRot")), 'g', '@', ' ', '+'}
		if orig >= 'a' && orig <= 'f' {
			repl = append(repl, orig-32)
		}
		for _, rc := range repl {
			// a non-hex character makes the hint ill-formed: not "expired"
			wellFormed := strings.IndexByte(c07kHex, rc) >= 0 || (rc >= 'A' && rc <= 'F')
			expectDenied(fmt.Sprintf("sig[%d]=%q", pos, rc), method, full[:sigStart+pos]+string(rc)+full[sigStart+pos+1:], scheme, token, eOK && wellFormed, true)
		}
		epos := rapid.IntRange(0, 7).Draw(t, "expPos")
		eorig := full[expStart+epos]
		erepl := []byte{c07kRotHex(eorig, rapid.IntRange(0, 14).Draw(t, "expRot")), 'g', '-'}
		if eorig >= 'a' && eorig <= 'f' {
			erepl = append(erepl, eorig-32)
		}
		for _, rc := range erepl {
			// the changed digit may move the expiry to either side of now
			pexp := full[expStart:expStart+epos] + string(rc) + full[expStart+epos+1:expStart+8]
			v, perr := strconv.ParseInt(pexp, 16, 64)
			past := perr == nil && v < start.Unix()-5
			near := perr == nil && v >= start.Unix()-5 && v <= start.Unix()+30
			expectDenied(fmt.Sprintf("exp[%d]=%q", epos, rc), method, full[:expStart+epos]+string(rc)+full[expStart+epos+1:], scheme, token, past || near, true)
		}

		// ---- structure
		expectDenied("no-signature", method, hash, scheme, token, false, true)
		if base+post != hash {
			expectDenied("signature-removed", method, base+post, scheme, token, false, true)
		}
		expectDenied("signature-39-digits", method, base+"+A"+sig[:39]+"@"+expHex+post, scheme, token, false, true)
		expectDenied("signature-41-digits", method, base+"+A"+sig+"0@"+expHex+post, scheme, token, false, true)
		expectDenied("expiry-9-digits", method, base+"+A"+sig+"@0"+expHex+post, scheme, token, false, true)
		expectDenied("expiry-7-digits", method, base+"+A"+sig+"@"+expHex[1:]+post, scheme, token, false, true)
		expectDenied("no-at-sign", method, base+"+A"+sig+expHex+post, scheme, token, false, true)
		expectDenied("lowercase-a-hint", method, base+"+a"+sig+"@"+expHex+post, scheme, token, false, true)
		if strings.ToUpper(sig) != sig {
			expectDenied("uppercase-signature", method, base+"+A"+strings.ToUpper(sig)+"@"+expHex+post, scheme, token, eOK, true)
		}

		// ---- a valid signature for a block that is not stored: never data
		{
			// (prefix keeps it distinct from every block PUT by an earlier case)
			nb := append([]byte("never-stored:"), c07kExpand(rapid.Uint64().Draw(t, "absentSeed"), 40)...)
			nh := ref.MD5Hex(nb)
			loc := nh + fmt.Sprintf("+%d+A", len(nb)) + ref.BlobSignature([]byte(key), nh, token, expHex, ttlHex) + "@" + expHex
			nreq++
			if r := env.direct("GET", loc, scheme, token, nil); r.Status < 400 {
				t.Fatalf("GET of a block that was never stored -> %d\n%s", r.Status, ctxt())
			}
		}

		// ---- PUT reply
		putLabel := ""
		if ttl >= 300 {
			var pb []byte
			if rapid.Bool().Draw(t, "putNew") {
				pb = append([]byte("put:"), c07kExpand(rapid.Uint64().Draw(t, "putSeed"), rapid.IntRange(0, 200).Draw(t, "putLen"))...)
				putLabel = "put-new-block"
				newBlocks++
			} else {
				pb = block
				putLabel = "put-stored-block"
			}
			ph := ref.MD5Hex(pb)
			before := time.Now().Unix()
			nreq++
			r := env.direct("PUT", ph, scheme, token, pb)
			if r.Status != 200 {
				// the property does not oblige keepstore to accept; a scratch
				// volume that cannot be written is a harness problem
				t.Fatalf("VERIF-INFRA: PUT /%s -> %d %q\n%s", ph, r.Status, r.Body, ctxt())
			}
			reply := strings.TrimSuffix(string(r.Body), "\n")
			rh, rsig, rexp, ok := c07kParseSigned(reply)
			if !ok || rh != ph || !strings.HasPrefix(reply, fmt.Sprintf("%s+%d", ph, len(pb))) {
				t.Fatalf("PUT /%s with Authorization %q replied %q: not the block's locator with exactly one +A<40 hex>@<8 hex> hint\n%s", ph, scheme+" "+token, reply, ctxt())
			}
			if want := ref.BlobSignature([]byte(key), ph, token, rexp, ttlHex); rsig != want {
				t.Fatalf("PUT /%s with Authorization %q replied %q: signature is not the reference HMAC %s for (hash, caller's token, expiry %s, ttl %s)\n%s", ph, scheme+" "+token, reply, want, rexp, ttlHex, ctxt())
			}
			ev, perr := strconv.ParseInt(rexp, 16, 64)
			if perr != nil || ev < before+30 {
				t.Fatalf("PUT /%s replied %q: expiry %s is not in the future (now %x, BlobSigningTTL %d s)\n%s", ph, reply, rexp, before, ttl, ctxt())
			}
			// verifies for the caller ...
			nreq++
			g := env.direct("GET", reply, scheme, token, nil)
			if g.Status != 200 || !bytes.Equal(g.Body, pb) {
				t.Fatalf("GET /%s (locator from the PUT reply) with the caller's token -> %d, %d body bytes; want 200 with the block\n%s", reply, g.Status, len(g.Body), ctxt())
			}
			// ... and for nobody else
			saveBlock := block
			block = pb
			if tok2 != token {
				expectDenied("put-reply-with-other-token", "GET", reply, scheme, tok2, false, true)
			}
			expectDenied("put-reply-without-token", "GET", reply, "", "", false, true)
			block = saveBlock
		}

		label := "expiry-future"
		if !future {
			label = "expiry-past"
		}
		stats.Case(stats.FP(hash, size, pre, post, token, key, ttl, expHex, method, scheme), true,
			label, "token="+tokClass, "method="+method, "scheme="+scheme, putLabel,
			fmt.Sprintf("pre-hints=%d", strings.Count(pre, "+")), fmt.Sprintf("post-hints=%d", strings.Count(post, "+")),
			fmt.Sprintf("block-bytes=%d", len(block)))
		stats.InfoAdd("c07_keepstore_requests", int64(nreq))
		if stats.WantSample("keepstore/" + label) {
			stats.Sample("keepstore/"+label, map[string]interface{}{"locator": full, "token": token, "scheme": scheme, "ttl_s": ttl, "key": key, "method": method, "requests": nreq})
		}
	})
	stats.Info("c07_keepstore_blocks_put", newBlocks)
}
