package federation

// C19 levels (ii) and (iii):
//  (ii)  saltedTokenProvider with a stub local backend;
//  (iii) a real federation.New(cluster) Conn whose remotes are loopback servers
//        recording the raw bytes of every request, and whose Rails API is a
//        loopback stub (answers api_client_authorizations/current, 404 otherwise).

import (
	"context"
	"encoding/json"
	"errors"
	"fmt"
	"net/http"
	"net/url"
	"sort"
	"strings"
	"sync"
	"testing"

	"git.arvados.org/arvados.git/sdk/go/arvados"
	"git.arvados.org/arvados.git/sdk/go/auth"
	"pgregory.net/rapid"
	"verif.local/vcommon/c19"
	"verif.local/vcommon/stats"
)

const c19KnownKey = "c19-40char-nonhex-secret"

func c19LenBand(n int) string {
	switch {
	case n < 39:
		return "len<39"
	case n > 41:
		return "len>41"
	}
	return fmt.Sprintf("len=%d", n)
}

func c19TokenLabels(tokens []c19.Token) []string {
	labels := []string{fmt.Sprintf("tokens=%d", len(tokens))}
	for _, tk := range tokens {
		labels = append(labels, "tok:"+tk.Kind.String())
		if tk.Kind == c19.KindV2 {
			labels = append(labels, "secret="+tk.SecretClass(), c19LenBand(len(tk.Secret)))
		}
	}
	return labels
}

// c19KnownUnsalted applies the narrow F5 classifier: the failure concerns a
// v2 token whose secret is exactly 40 characters and not 40 hex digits.
func c19KnownUnsalted(tk c19.Token, detail string) bool {
	return tk.In40NonHexRegion() && stats.Known(c19KnownKey, detail)
}

// ---------------------------------------------------------------- level (ii)

type c19Local struct {
	backend // nil: any other call would panic (and fail the case)
	table   map[string]c19.Resolution
	asked   []string
}

func (l *c19Local) APIClientAuthorizationCurrent(ctx context.Context, _ arvados.GetOptions) (arvados.APIClientAuthorization, error) {
	creds, ok := auth.FromContext(ctx)
	if !ok || len(creds.Tokens) != 1 {
		return arvados.APIClientAuthorization{}, httpErrorf(http.StatusInternalServerError, "VERIF-INFRA: stub local backend called with %v", creds)
	}
	tok := creds.Tokens[0]
	l.asked = append(l.asked, tok)
	res, ok := l.table[tok]
	switch {
	case !ok || res.Status == 401:
		return arvados.APIClientAuthorization{}, httpErrorf(http.StatusUnauthorized, "Not logged in")
	case res.Status == c19.StatusConnError:
		// no HTTP answer at all: an error without a status
		return arvados.APIClientAuthorization{}, errors.New("Get \"https://rails.c19.example/arvados/v1/api_client_authorizations/current\": dial tcp 192.0.2.19:443: connect: connection refused")
	case res.Status == 403:
		return arvados.APIClientAuthorization{}, httpErrorf(http.StatusForbidden, "Forbidden (token scopes do not permit this request)")
	case res.Status != 200:
		return arvados.APIClientAuthorization{}, httpErrorf(res.Status, "lookup failed")
	}
	return arvados.APIClientAuthorization{UUID: res.UUID, APIToken: tok, Scopes: []string{"all"}}, nil
}

func TestVerifC19Provider(t *testing.T) {
	defer stats.Flush()
	rapid.Check(t, func(t *rapid.T) {
		ids := c19.DrawDistinctIDs(t, 3, "id")
		remote := ids[0]
		tokens := c19.DrawTokens(t, ids, "tok")
		local := &c19Local{table: map[string]c19.Resolution{}}
		res := make([]c19.Resolution, len(tokens))
		for i, tk := range tokens {
			if tk.Kind == c19.KindLegacy {
				res[i] = c19.DrawResolution(t, ids, fmt.Sprintf("res%d", i))
				local.table[tk.Raw] = res[i]
			}
		}
		var raws []string
		for _, tk := range tokens {
			raws = append(raws, tk.Raw)
		}
		ctx := auth.NewContext(context.Background(), &auth.Credentials{Tokens: append([]string(nil), raws...)})
		provider := saltedTokenProvider(local, remote)
		out, err := provider(ctx)
		out2, err2 := provider(ctx)
		if fmt.Sprint(out, err) != fmt.Sprint(out2, err2) {
			t.Fatalf("not deterministic: tokens %q remote %q: (%q, %v) then (%q, %v)", raws, remote, out, err, out2, err2)
		}

		labels := c19TokenLabels(tokens)
		wantErr := false
		fw := make([]c19.Forward, len(tokens))
		for i, tk := range tokens {
			fw[i] = c19.ForwardFor(tk, remote, res[i])
			wantErr = wantErr || fw[i].Error
			labels = append(labels, "fw:"+fw[i].Shape)
			if tk.Kind == c19.KindLegacy {
				labels = append(labels, fmt.Sprintf("lookup-answer=%d", res[i].Status))
			}
		}
		known := false
		switch {
		case err != nil && !wantErr:
			t.Fatalf("provider(tokens %q, remote %q) failed: %v; every token is forwardable (%+v)", raws, remote, err, fw)
		case err != nil:
			labels = append(labels, "provider-error")
			if len(out) != 0 {
				t.Fatalf("provider(tokens %q, remote %q) returned both tokens %q and error %v", raws, remote, out, err)
			}
		default:
			if wantErr {
				labels = append(labels, "forwarded-despite-lookup-error")
			}
			if len(out) != len(tokens) {
				t.Fatalf("provider(tokens %q, remote %q) = %q: want one token per incoming token, in order", raws, remote, out)
			}
			for i, tk := range tokens {
				if fw[i].Error {
					// property is silent on what to send; only non-disclosure applies
					if strings.Contains(out[i], fw[i].Protected) {
						t.Fatalf("provider(tokens %q, remote %q)[%d] = %q discloses the legacy token although its lookup failed", raws, remote, i, out[i])
					}
					continue
				}
				if fw[i].Accepts(out[i]) {
					continue
				}
				msg := fmt.Sprintf("provider(tokens %q, remote %q)[%d] = %q, want %q (%s; resolution %+v)", raws, remote, i, out[i], fw[i].Accept, fw[i].Shape, res[i])
				if out[i] == tk.Raw && c19KnownUnsalted(tk, msg) {
					known = true
					continue
				}
				t.Fatalf("%s", msg)
			}
			// the protected secrets occur nowhere in what is handed to the rpc layer
			all := strings.Join(out, "\n")
			for i, tk := range tokens {
				if fw[i].Protected == "" {
					continue
				}
				var legit []string
				for _, f := range fw {
					legit = append(legit, f.Accept...)
				}
				needle, scan := c19.ScanNeedle(tk, fw[i].Protected)
				if !scan {
					labels = append(labels, "scan-skipped(short-secret)")
					continue
				}
				if n := c19.Occurrences([]byte(all), needle, legit); n > 0 {
					msg := fmt.Sprintf("provider(tokens %q, remote %q) = %q discloses the secret of token %d (%q)", raws, remote, out, i, fw[i].Protected)
					if c19KnownUnsalted(tk, msg) {
						known = true
						continue
					}
					t.Fatalf("%s", msg)
				}
			}
		}
		// the local backend is consulted for legacy tokens only, with exactly that token
		for _, a := range local.asked {
			if c19.Parse(a).Kind != c19.KindLegacy {
				t.Fatalf("provider looked up non-legacy token %q at the local cluster (tokens %q)", a, raws)
			}
		}
		if known {
			labels = append(labels, "known:"+c19KnownKey)
		}
		nontrivial := false
		for _, tk := range tokens {
			nontrivial = nontrivial || tk.Kind != c19.KindOpaque
		}
		stats.Case(stats.FP("provider", raws, remote, res), nontrivial, labels...)
		lab := "provider/" + fw[0].Shape
		if stats.WantSample(lab) {
			stats.Sample(lab, map[string]interface{}{"tokens": raws, "remote": remote, "resolution": res, "forwarded": out, "err": fmt.Sprint(err)})
		}
	})
}

// ---------------------------------------------------------------- level (iii)

type c19Rails struct {
	mu    sync.Mutex
	table map[string]c19.Resolution
}

func (r *c19Rails) respond(c *c19.Captured) (int, string, []byte) {
	if !strings.HasPrefix(c.Target, "/arvados/v1/api_client_authorizations/current") {
		return 404, "application/json", []byte(`{"errors":["not found"]}`)
	}
	tok := strings.TrimPrefix(c.Header.Get("Authorization"), "Bearer ")
	r.mu.Lock()
	res, ok := r.table[tok]
	r.mu.Unlock()
	switch {
	case !ok || res.Status == 401:
		return 401, "application/json", []byte(`{"errors":["Not logged in"]}`)
	case res.Status == c19.StatusConnError:
		return 0, "", nil // the recorder drops the connection
	case res.Status == 403:
		return 403, "application/json", []byte(`{"errors":["Forbidden"]}`)
	case res.Status != 200:
		return res.Status, "application/json", []byte(`{"errors":["lookup failed"]}`)
	}
	j, _ := json.Marshal(map[string]interface{}{"uuid": res.UUID, "api_token": tok, "scopes": []string{"all"}, "kind": "arvados#apiClientAuthorization"})
	return 200, "application/json", j
}

type c19Op struct {
	name    string
	targets []int // indexes of the remotes that must receive a request
	run     func(ctx context.Context, conn *Conn) error
	// okBody, if set, fixes the remotes' answer to 200 with this body (needed
	// where one failing remote would cancel the requests to the others).
	okBody string
}

func c19DrawOp(t *rapid.T, r []string) c19Op {
	tail := rapid.StringMatching(`[0-9a-z]{15}`).Draw(t, "objTail")
	k := rapid.IntRange(0, 1).Draw(t, "target")
	long := make([]string, 0, 130)
	for i := 0; i < 130; i++ {
		long = append(long, fmt.Sprintf("attr_%04d", i))
	}
	switch rapid.IntRange(0, 8).Draw(t, "op") {
	case 0:
		return c19Op{name: "CollectionGet-uuid", targets: []int{k}, run: func(ctx context.Context, conn *Conn) error {
			_, err := conn.CollectionGet(ctx, arvados.GetOptions{UUID: r[k] + "-4zz18-" + tail})
			return err
		}}
	case 1:
		return c19Op{name: "CollectionGet-pdh", targets: []int{0, 1}, run: func(ctx context.Context, conn *Conn) error {
			_, err := conn.CollectionGet(ctx, arvados.GetOptions{UUID: "d41d8cd98f00b204e9800998ecf8427e+0"})
			return err
		}}
	case 2:
		return c19Op{name: "CollectionUpdate", targets: []int{k}, run: func(ctx context.Context, conn *Conn) error {
			_, err := conn.CollectionUpdate(ctx, arvados.UpdateOptions{UUID: r[k] + "-4zz18-" + tail, Attrs: map[string]interface{}{"name": "c19 " + tail}})
			return err
		}}
	case 3:
		return c19Op{name: "ContainerGet", targets: []int{k}, run: func(ctx context.Context, conn *Conn) error {
			_, err := conn.ContainerGet(ctx, arvados.GetOptions{UUID: r[k] + "-dz642-" + tail})
			return err
		}}
	case 4:
		return c19Op{name: "SpecimenCreate", targets: []int{k}, run: func(ctx context.Context, conn *Conn) error {
			_, err := conn.SpecimenCreate(ctx, arvados.CreateOptions{ClusterID: r[k], Attrs: map[string]interface{}{"properties": map[string]string{"k": tail}}})
			return err
		}}
	case 5:
		return c19Op{name: "UserGet", targets: []int{k}, run: func(ctx context.Context, conn *Conn) error {
			_, err := conn.UserGet(ctx, arvados.GetOptions{UUID: r[k] + "-tpzed-" + tail})
			return err
		}}
	case 6:
		return c19Op{name: "CollectionList-2remotes", targets: []int{0, 1}, run: func(ctx context.Context, conn *Conn) error {
			_, err := conn.CollectionList(ctx, arvados.ListOptions{Limit: -1, Count: "none",
				Filters: []arvados.Filter{{"uuid", "in", []string{r[0] + "-4zz18-" + tail, r[1] + "-4zz18-" + tail}}}})
			return err
		}, okBody: `{"kind":"arvados#collectionList","items":[{"uuid":"` + r[0] + "-4zz18-" + tail + `"},{"uuid":"` + r[1] + "-4zz18-" + tail + `"}]}`}
	case 7:
		return c19Op{name: "ContainerRequestGet-longselect(POST body)", targets: []int{k}, run: func(ctx context.Context, conn *Conn) error {
			_, err := conn.ContainerRequestGet(ctx, arvados.GetOptions{UUID: r[k] + "-xvhdp-" + tail, Select: long})
			return err
		}}
	default:
		return c19Op{name: "APIClientAuthorizationCurrent", targets: []int{k}, run: func(ctx context.Context, conn *Conn) error {
			_, err := conn.APIClientAuthorizationCurrent(ctx, arvados.GetOptions{UUID: r[k] + "-gj3su-" + tail})
			return err
		}}
	}
}

type c19Env struct {
	rails   *c19.Recorder
	railsDB *c19Rails
	rec     [2]*c19.Recorder
	seq     int
}

// drive runs op on a fresh real Conn with the given tokens and returns what
// each remote received (only requests tagged with this run's request id).
func (e *c19Env) drive(localID string, remotes []string, raws []string, table map[string]c19.Resolution, op c19Op, remoteStatus int, reqid string) (caps [2][]c19.Captured, err error) {
	e.railsDB.mu.Lock()
	e.railsDB.table = table
	e.railsDB.mu.Unlock()
	answer := func(c *c19.Captured) (int, string, []byte) {
		if op.okBody != "" {
			return 200, "application/json", []byte(op.okBody)
		}
		if remoteStatus == 200 {
			return 200, "application/json", []byte(`{}`)
		}
		return remoteStatus, "application/json", []byte(`{"errors":["c19 stub"]}`)
	}
	cluster := &arvados.Cluster{ClusterID: localID, RemoteClusters: map[string]arvados.RemoteCluster{}}
	cluster.API.MaxItemsPerResponse = 1000
	cluster.Services.RailsAPI.InternalURLs = map[arvados.URL]arvados.ServiceInstance{
		arvados.URL{Scheme: "http", Host: e.rails.Addr, Path: "/"}: {},
	}
	for i, id := range remotes {
		e.rec[i].SetResponder(answer)
		e.rec[i].Take()
		cluster.RemoteClusters[id] = arvados.RemoteCluster{Host: e.rec[i].Addr, Scheme: "http", Proxy: true}
	}
	e.rails.Take()
	conn := New(cluster)
	ctx := auth.NewContext(context.Background(), &auth.Credentials{Tokens: append([]string(nil), raws...)})
	ctx = arvados.ContextWithRequestID(ctx, reqid)
	err = op.run(ctx, conn)
	for i := range remotes {
		for _, c := range e.rec[i].Take() {
			if c.Header.Get("X-Request-Id") == reqid {
				caps[i] = append(caps[i], c)
			}
		}
	}
	return caps, err
}

// c19Params returns the request parameters wherever they travel (query, form body).
func c19Params(c c19.Captured) (url.Values, error) {
	vals := url.Values{}
	if i := strings.IndexByte(c.Target, '?'); i >= 0 {
		q, err := url.ParseQuery(c.Target[i+1:])
		if err != nil {
			return nil, err
		}
		for k, v := range q {
			vals[k] = append(vals[k], v...)
		}
	}
	if len(c.Body) > 0 && strings.HasPrefix(c.Header.Get("Content-Type"), "application/x-www-form-urlencoded") {
		q, err := url.ParseQuery(string(c.Body))
		if err != nil {
			return nil, err
		}
		for k, v := range q {
			vals[k] = append(vals[k], v...)
		}
	}
	return vals, nil
}

func TestVerifC19Conn(t *testing.T) {
	defer stats.Flush()
	env := &c19Env{railsDB: &c19Rails{}}
	var err error
	if env.rails, err = c19.NewRecorder(env.railsDB.respond); err != nil {
		t.Fatalf("VERIF-INFRA: %v", err)
	}
	defer env.rails.Close()
	for i := range env.rec {
		if env.rec[i], err = c19.NewRecorder(nil); err != nil {
			t.Fatalf("VERIF-INFRA: %v", err)
		}
		defer env.rec[i].Close()
	}
	rapid.Check(t, func(t *rapid.T) {
		ids := c19.DrawDistinctIDs(t, 4, "id")
		localID, remotes := ids[0], ids[1:3]
		// uuid owners: remote 0 first (most likely), local, remote 1, a cluster without a connection
		tokens := c19.DrawTokens(t, []string{ids[1], ids[0], ids[2], ids[3]}, "tok")
		table := map[string]c19.Resolution{}
		ctlTable := map[string]c19.Resolution{}
		res := make([]c19.Resolution, len(tokens))
		var raws, ctlRaws []string
		for i, tk := range tokens {
			ctl := c19.Control(tk)
			if tk.Kind == c19.KindLegacy {
				res[i] = c19.DrawResolution(t, []string{ids[1], ids[0], ids[2], ids[3]}, fmt.Sprintf("res%d", i))
				table[tk.Raw] = res[i]
				ctlTable[ctl.Raw] = res[i]
			}
			raws = append(raws, tk.Raw)
			ctlRaws = append(ctlRaws, ctl.Raw)
		}
		op := c19DrawOp(t, remotes)
		remoteStatus := rapid.SampledFrom([]int{404, 404, 200, 403}).Draw(t, "remoteStatus")
		if len(op.targets) > 1 {
			remoteStatus = 404 // every remote is awaited: no cancelled request is left in flight
		}
		if op.okBody != "" {
			remoteStatus = 200
		}
		env.seq++
		reqid := fmt.Sprintf("req-c19verif%09d", env.seq)
		caps, opErr := env.drive(localID, remotes, raws, table, op, remoteStatus, reqid)

		labels := append(c19TokenLabels(tokens), "op="+op.name, fmt.Sprintf("remote-status=%d", remoteStatus))
		wantErr := false
		known := false
		for ri, rid := range remotes {
			fw := make([]c19.Forward, len(tokens))
			var legit []string
			for i, tk := range tokens {
				fw[i] = c19.ForwardFor(tk, rid, res[i])
				wantErr = wantErr || fw[i].Error
				legit = append(legit, fw[i].Accept...)
				if ri == 0 {
					labels = append(labels, "fw:"+fw[i].Shape)
					if tk.Kind == c19.KindLegacy {
						labels = append(labels, fmt.Sprintf("lookup-answer=%d", res[i].Status))
					}
				}
			}
			legit = append(legit, reqid)
			targeted := false
			for _, k := range op.targets {
				targeted = targeted || k == ri
			}
			switch {
			case wantErr && len(caps[ri]) > 0:
				labels = append(labels, "forwarded-despite-lookup-error")
			case wantErr:
				labels = append(labels, "not-forwarded(lookup-error)")
			case targeted && len(caps[ri]) == 0:
				t.Fatalf("%s with tokens %q: remote %q received no request (op error: %v); every token is forwardable (%+v)", op.name, raws, rid, opErr, fw)
			case !targeted && len(caps[ri]) > 0:
				t.Fatalf("VERIF-INFRA: %s: remote %q was not a target but received %q", op.name, rid, caps[ri][0].Raw)
			}
			for _, c := range caps[ri] {
				if c.Err != "" {
					t.Fatalf("VERIF-INFRA: recorder could not parse request: %s\n%q", c.Err, c.Raw)
				}
				describe := func() string {
					return fmt.Sprintf("%s, local %q, tokens %q, resolutions %+v: request received by remote %q:\n%q", op.name, localID, raws, res, rid, c.Raw)
				}
				// (a) the tokens as the remote will read them
				var got []string
				authz := c.Header["Authorization"]
				if len(authz) != 1 || !strings.HasPrefix(authz[0], "Bearer ") {
					t.Fatalf("want exactly one Authorization: Bearer header, got %q\n%s", authz, describe())
				}
				got = append(got, strings.TrimPrefix(authz[0], "Bearer "))
				params, perr := c19Params(c)
				if perr != nil {
					t.Fatalf("VERIF-INFRA: cannot parse forwarded parameters: %v\n%s", perr, describe())
				}
				if rt, ok := params["reader_tokens"]; ok {
					var list []string
					if len(rt) != 1 || json.Unmarshal([]byte(rt[0]), &list) != nil {
						t.Fatalf("VERIF-INFRA: unparsable reader_tokens %q\n%s", rt, describe())
					}
					got = append(got, list...)
				}
				if _, ok := params["api_token"]; ok {
					t.Fatalf("forwarded request carries an api_token parameter\n%s", describe())
				}
				if len(got) != len(tokens) {
					t.Fatalf("remote reads tokens %q, want one per incoming token\n%s", got, describe())
				}
				for i, tk := range tokens {
					if fw[i].Error {
						continue
					}
					if !fw[i].Accepts(got[i]) {
						msg := fmt.Sprintf("token %d forwarded as %q, want %q (%s)\n%s", i, got[i], fw[i].Accept, fw[i].Shape, describe())
						if got[i] == tk.Raw && c19KnownUnsalted(tk, msg) {
							known = true
							continue
						}
						t.Fatalf("%s", msg)
					}
				}
				// (b) non-disclosure over the raw bytes
				for i, tk := range tokens {
					if fw[i].Protected == "" {
						continue
					}
					needle, scan := c19.ScanNeedle(tk, fw[i].Protected)
					if !scan {
						labels = append(labels, "scan-skipped(short-secret)")
						continue
					}
					n := c19.Occurrences(c.Raw, needle, legit)
					if n == 0 {
						continue
					}
					// Confirm with a control run: same request, secrets replaced
					// character by character. Occurrences that are also present
					// there do not come from the token.
					ctlID := strings.Replace(reqid, "verif", "cntrl", 1)
					ctlCaps, _ := env.drive(localID, remotes, ctlRaws, ctlTable, op, remoteStatus, ctlID)
					var ctlLegit []string
					for j, tkj := range tokens {
						ctlLegit = append(ctlLegit, c19.ForwardFor(c19.Control(tkj), rid, res[j]).Accept...)
					}
					ctlLegit = append(ctlLegit, ctlID)
					base := -1
					for _, cc := range ctlCaps[ri] {
						if cc.Method == c.Method && strings.SplitN(cc.Target, "?", 2)[0] == strings.SplitN(c.Target, "?", 2)[0] {
							base = c19.Occurrences(cc.Raw, needle, ctlLegit)
						}
					}
					if base >= n {
						labels = append(labels, "secret-occurs-in-fixed-parts")
						continue
					}
					msg := fmt.Sprintf("secret of token %d (%q) occurs %d time(s) in the forwarded bytes (control run: %d)\n%s", i, fw[i].Protected, n, base, describe())
					if c19KnownUnsalted(tk, msg) {
						known = true
						continue
					}
					t.Fatalf("%s", msg)
				}
			}
		}
		if known {
			labels = append(labels, "known:"+c19KnownKey)
		}
		nreq := len(caps[0]) + len(caps[1])
		labels = append(labels, fmt.Sprintf("captured-requests=%d", nreq))
		nontrivial := false
		for _, tk := range tokens {
			nontrivial = nontrivial || tk.Kind != c19.KindOpaque
		}
		stats.Case(stats.FP("conn", raws, ids, res, op.name, remoteStatus), nontrivial && nreq > 0, labels...)
		stats.InfoAdd("raw_requests_scanned", int64(nreq))
		if nreq > 0 && stats.WantSample("conn/"+op.name) {
			keys := make([]string, 0)
			for _, c := range caps[op.targets[0]] {
				keys = append(keys, string(c.Raw))
			}
			sort.Strings(keys)
			stats.Sample("conn/"+op.name, map[string]interface{}{"tokens": raws, "local": localID, "remotes": remotes, "received_by_first_target": keys})
		}
	})
}
