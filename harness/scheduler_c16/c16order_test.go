package scheduler

// C16 (second clause): among containers that need the same instance type a
// lower-priority one is never started while a higher-priority Locked one is
// still waiting for a worker; at quota a waiting Locked container is never
// unlocked while a strictly lower-priority waiting one keeps its lock.
//
// Drive: one real runQueue() pass over a generated queue snapshot against a
// consistent recording pool. Oracle: on the recorded call log (see vc16CheckLog).

import (
	"context"
	"fmt"
	"io/ioutil"
	"runtime"
	"strings"
	"sync"
	"testing"
	"time"

	"git.arvados.org/arvados.git/lib/dispatchcloud/container"
	"git.arvados.org/arvados.git/lib/dispatchcloud/test"
	"git.arvados.org/arvados.git/lib/dispatchcloud/worker"
	"git.arvados.org/arvados.git/sdk/go/arvados"
	"git.arvados.org/arvados.git/sdk/go/ctxlog"
	"github.com/sirupsen/logrus"
	"pgregory.net/rapid"
	"verif.local/vcommon/stats"
)

type vc16Call struct {
	op   string // Running Unallocated AtQuota Create Shutdown Start Kill Forget Lock Unlock Cancel
	uuid string
	it   string
	ok   bool
}

func (c vc16Call) String() string {
	s := c.op + "("
	if c.it != "" {
		s += c.it
	}
	if c.uuid != "" {
		if c.it != "" {
			s += ","
		}
		s += "c" + c.uuid[len(c.uuid)-1:]
	}
	return fmt.Sprintf("%s)=%v", s, c.ok)
}

type vc16Log struct {
	mu    sync.Mutex
	calls []vc16Call
}

func (l *vc16Log) add(c vc16Call) {
	l.mu.Lock()
	l.calls = append(l.calls, c)
	l.mu.Unlock()
}

// vc16Pool is a consistent recording pool: Unallocated = booting+idle per type,
// a successful StartContainer consumes an idle worker, a successful Create adds a
// booting one.
type vc16Pool struct {
	mu        sync.Mutex
	log       *vc16Log
	types     []arvados.InstanceType
	idle      map[arvados.InstanceType]int
	booting   map[arvados.InstanceType]int
	running   map[string]time.Time
	atQuota   bool
	listZero  bool   // Unallocated() lists types with zero workers too
	startFail []bool // per StartContainer call: transient failure although a worker is idle
	createOK  []bool // per Create call
	nStart    int
	nCreate   int
}

func (p *vc16Pool) AtQuota() bool {
	p.log.add(vc16Call{op: "AtQuota", ok: p.atQuota})
	return p.atQuota
}
func (p *vc16Pool) Subscribe() <-chan struct{}  { return make(chan struct{}) }
func (p *vc16Pool) Unsubscribe(<-chan struct{}) {}
func (p *vc16Pool) Running() map[string]time.Time {
	p.mu.Lock()
	defer p.mu.Unlock()
	r := map[string]time.Time{}
	for k, v := range p.running {
		r[k] = v
	}
	return r
}
func (p *vc16Pool) Unallocated() map[arvados.InstanceType]int {
	p.mu.Lock()
	defer p.mu.Unlock()
	r := map[arvados.InstanceType]int{}
	for _, it := range p.types {
		if n := p.idle[it] + p.booting[it]; n > 0 || p.listZero {
			r[it] = n
		}
	}
	return r
}
func (p *vc16Pool) CountWorkers() map[worker.State]int {
	p.mu.Lock()
	defer p.mu.Unlock()
	r := map[worker.State]int{}
	for _, it := range p.types {
		r[worker.StateIdle] += p.idle[it]
		r[worker.StateBooting] += p.booting[it]
	}
	for _, t := range p.running {
		if t.IsZero() {
			r[worker.StateRunning]++
		}
	}
	return r
}
func (p *vc16Pool) Create(it arvados.InstanceType) bool {
	p.mu.Lock()
	defer p.mu.Unlock()
	ok := false
	if p.nCreate < len(p.createOK) {
		ok = p.createOK[p.nCreate]
	}
	p.nCreate++
	if ok {
		p.booting[it]++
	}
	p.log.add(vc16Call{op: "Create", it: it.Name, ok: ok})
	return ok
}
func (p *vc16Pool) Shutdown(it arvados.InstanceType) bool {
	p.mu.Lock()
	defer p.mu.Unlock()
	ok := true
	if p.booting[it] > 0 {
		p.booting[it]--
	} else if p.idle[it] > 0 {
		p.idle[it]--
	} else {
		ok = false
	}
	p.log.add(vc16Call{op: "Shutdown", it: it.Name, ok: ok})
	return ok
}
func (p *vc16Pool) StartContainer(it arvados.InstanceType, ctr arvados.Container) bool {
	p.mu.Lock()
	defer p.mu.Unlock()
	fail := false
	if p.nStart < len(p.startFail) {
		fail = p.startFail[p.nStart]
	}
	p.nStart++
	ok := p.idle[it] > 0 && !fail
	if ok {
		p.idle[it]--
		p.running[ctr.UUID] = time.Time{}
	}
	p.log.add(vc16Call{op: "Start", uuid: ctr.UUID, it: it.Name, ok: ok})
	return ok
}
func (p *vc16Pool) KillContainer(uuid, reason string) bool {
	p.mu.Lock()
	defer p.mu.Unlock()
	t, ok := p.running[uuid]
	live := ok && t.IsZero()
	p.log.add(vc16Call{op: "Kill", uuid: uuid, ok: live})
	return live
}
func (p *vc16Pool) ForgetContainer(uuid string) {
	p.mu.Lock()
	defer p.mu.Unlock()
	if t, ok := p.running[uuid]; ok && !t.IsZero() {
		delete(p.running, uuid)
	}
	p.log.add(vc16Call{op: "Forget", uuid: uuid, ok: true})
}

type vc16Queue struct {
	mu       sync.Mutex
	log      *vc16Log
	ents     map[string]container.QueueEnt
	updated  time.Time
	lockOK   map[string]bool
	unlockOK map[string]bool
}

func (q *vc16Queue) Entries() (map[string]container.QueueEnt, time.Time) {
	q.mu.Lock()
	defer q.mu.Unlock()
	r := map[string]container.QueueEnt{}
	for k, v := range q.ents {
		r[k] = v
	}
	return r, q.updated
}
func (q *vc16Queue) change(op, uuid string, from, to arvados.ContainerState, allowed bool) error {
	q.mu.Lock()
	defer q.mu.Unlock()
	ent, ok := q.ents[uuid]
	good := ok && allowed && ent.Container.State == from
	if good {
		ent.Container.State = to
		q.ents[uuid] = ent
	}
	q.log.add(vc16Call{op: op, uuid: uuid, ok: good})
	if !good {
		return fmt.Errorf("%s %s failed", op, uuid)
	}
	return nil
}
func (q *vc16Queue) Lock(uuid string) error {
	return q.change("Lock", uuid, arvados.ContainerStateQueued, arvados.ContainerStateLocked, q.lockOK[uuid])
}
func (q *vc16Queue) Unlock(uuid string) error {
	return q.change("Unlock", uuid, arvados.ContainerStateLocked, arvados.ContainerStateQueued, q.unlockOK[uuid])
}
func (q *vc16Queue) Cancel(uuid string) error {
	q.mu.Lock()
	defer q.mu.Unlock()
	ent, ok := q.ents[uuid]
	if ok {
		ent.Container.State = arvados.ContainerStateCancelled
		q.ents[uuid] = ent
	}
	q.log.add(vc16Call{op: "Cancel", uuid: uuid, ok: ok})
	return nil
}
func (q *vc16Queue) Forget(uuid string) {
	q.mu.Lock()
	defer q.mu.Unlock()
	delete(q.ents, uuid)
}
func (q *vc16Queue) Get(uuid string) (arvados.Container, bool) {
	q.mu.Lock()
	defer q.mu.Unlock()
	ent, ok := q.ents[uuid]
	return ent.Container, ok
}
func (q *vc16Queue) Subscribe() <-chan struct{}  { return make(chan struct{}) }
func (q *vc16Queue) Unsubscribe(<-chan struct{}) {}
func (q *vc16Queue) Update() error               { return nil }

// vc16WaitGoroutines waits until the goroutines spawned by the scheduler call
// (lockContainer) have finished: the goroutine count returns to its value before
// the call. No verdict depends on how long this takes.
// vc16Failer is satisfied by *rapid.T and *testing.T.
type vc16Failer interface {
	Fatalf(format string, args ...interface{})
}

func vc16WaitGoroutines(t vc16Failer, base int) {
	deadline := time.Now().Add(120 * time.Second)
	for i := 0; runtime.NumGoroutine() > base; i++ {
		if i < 200 {
			runtime.Gosched()
		} else {
			time.Sleep(50 * time.Microsecond)
		}
		if i%1000 == 999 && time.Now().After(deadline) {
			t.Fatalf("VERIF-INFRA: goroutines spawned by runQueue did not finish (%d > %d)", runtime.NumGoroutine(), base)
		}
	}
}

type vc16Ctr struct {
	uuid    string
	state   arvados.ContainerState
	prio    int64
	typ     int // index into types
	proc    int // 0 none, 1 live process known to the pool, 2 exited placeholder
	lockOK  bool
	unlkOK  bool
	waiting bool
}

func vc16Pct(t *rapid.T, label string, pct int) bool {
	return rapid.IntRange(0, 99).Draw(t, label) < pct
}

var vc16Logger = func() logrus.FieldLogger {
	l := logrus.New()
	l.Out = ioutil.Discard
	l.Level = logrus.WarnLevel
	return l
}()

func (p *vc16Pool) clone(log *vc16Log) *vc16Pool {
	c := &vc16Pool{log: log, types: p.types, idle: map[arvados.InstanceType]int{}, booting: map[arvados.InstanceType]int{}, running: map[string]time.Time{},
		atQuota: p.atQuota, listZero: p.listZero, startFail: p.startFail, createOK: p.createOK}
	for k, v := range p.idle {
		c.idle[k] = v
	}
	for k, v := range p.booting {
		c.booting[k] = v
	}
	for k, v := range p.running {
		c.running[k] = v
	}
	return c
}

func (q *vc16Queue) clone(log *vc16Log) *vc16Queue {
	c := &vc16Queue{log: log, ents: map[string]container.QueueEnt{}, updated: q.updated, lockOK: q.lockOK, unlockOK: q.unlockOK}
	for k, v := range q.ents {
		c.ents[k] = v
	}
	return c
}

// vc16Fair returns an unbiased n-bit number (rapid's integer generators prefer
// small values and the bounds).
func vc16Fair(t *rapid.T, label string, bits int) int {
	v := 0
	for _, b := range rapid.SliceOfN(rapid.Bool(), bits, bits).Draw(t, label) {
		v <<= 1
		if b {
			v |= 1
		}
	}
	return v
}

// vc16BigPrios returns n distinct priorities in the form the API server
// produces: (request priority 1..1000)<<50 minus the creation time in
// milliseconds. Most containers share one request priority and were created
// 1..200 ms apart, so their priorities differ by 1..200 at magnitudes up to
// 2^60; the rest belong to requests with a neighbouring or unrelated priority.
func vc16BigPrios(t *rapid.T, n int) []int64 {
	reqs := []int{1000, 999, 513, 512, 768, 600, 257, 256, 129, 128, 64, 17, 8, 4, 2, 1}
	req := reqs[vc16Fair(t, "reqPrioBits", 4)]
	if vc16Pct(t, "reqPrioAny", 25) {
		req = 1 + vc16Fair(t, "reqPrioAnyBits", 10)%1000
	}
	// creation times between 2021 and 2027, in ms since the epoch
	created := int64(1609459200000) + int64(vc16Fair(t, "createdBits", 30))*176
	steps := []int64{1, 1, 1, 2, 3, 5, 7, 16, 31, 64, 100, 127, 128, 129, 199, 200}
	out := make([]int64, n)
	for i := range out {
		created += steps[vc16Fair(t, "stepBits", 4)]
		r := int64(req)
		switch x := vc16Fair(t, "otherReqBits", 4); {
		case x == 0 && req > 1:
			r = int64(req) - 1
		case x == 1 && req < 1000:
			r = int64(req) + 1
		case x == 2:
			r = 1 + int64(vc16Fair(t, "otherReqAnyBits", 10)%1000)
		}
		out[i] = r<<50 - created
	}
	// the order of creation is unrelated to the container numbering
	perm := rapid.Permutation(out).Draw(t, "bigPrioOrder")
	return perm
}

// vc16BigLabels measures what the large-priority cases contain.
func vc16BigLabels(ctrs []*vc16Ctr) []string {
	labels := []string{"bigprio"}
	near, collapse, closeAny, top := false, false, false, false
	for i, a := range ctrs {
		if a.prio >= 1<<59 {
			top = true
		}
		for _, b := range ctrs[i+1:] {
			d := a.prio - b.prio
			if d < 0 {
				d = -d
			}
			if a.prio < 1<<49 || b.prio < 1<<49 || d == 0 || d > 200 {
				continue
			}
			closeAny = true
			if a.waiting && b.waiting && a.typ == b.typ {
				near = true
				if float64(a.prio) == float64(b.prio) {
					collapse = true
				}
			}
		}
	}
	if closeAny {
		labels = append(labels, "bigprio:pair-1..200-apart")
	}
	if near {
		labels = append(labels, "bigprio:waiting-same-type-pair-1..200-apart")
	}
	if collapse {
		labels = append(labels, "bigprio:waiting-same-type-pair-equal-as-float64")
	}
	if top {
		labels = append(labels, "bigprio:>=2^59")
	}
	return labels
}

func TestVerifC16Order(t *testing.T) {
	defer stats.Flush()
	rapid.Check(t, func(t *rapid.T) {
		nTypes := rapid.IntRange(1, 3).Draw(t, "nTypes")
		types := make([]arvados.InstanceType, nTypes)
		for i := range types {
			types[i] = test.InstanceType(i + 1)
		}
		// The pool and queue are mutated by a pass; they are rebuilt from the
		// drawn description for every repetition (see the end of this function).
		pool := &vc16Pool{types: types, idle: map[arvados.InstanceType]int{}, booting: map[arvados.InstanceType]int{}, running: map[string]time.Time{}}
		var poolDesc []string
		for _, it := range types {
			pool.idle[it] = rapid.SampledFrom([]int{0, 0, 1, 1, 2, 3}).Draw(t, "idle")
			pool.booting[it] = rapid.SampledFrom([]int{0, 0, 0, 1, 2}).Draw(t, "booting")
			poolDesc = append(poolDesc, fmt.Sprintf("%s:idle=%d,booting=%d", it.Name, pool.idle[it], pool.booting[it]))
		}
		pool.atQuota = vc16Pct(t, "atQuota", 40)
		pool.listZero = rapid.Bool().Draw(t, "listZero")
		anyStartFail := vc16Pct(t, "anyTransientStartFailure", 50)
		for i := 0; i < 8; i++ {
			pool.startFail = append(pool.startFail, anyStartFail && vc16Pct(t, "startFail", 30))
		}
		createMode := rapid.IntRange(0, 3).Draw(t, "createMode") // 0 always ok, 1 never, 2,3 per call
		for i := 0; i < 8; i++ {
			ok := createMode == 0
			if createMode >= 2 {
				ok = vc16Pct(t, "createOK", 60)
			}
			pool.createOK = append(pool.createOK, ok)
		}

		n := rapid.SampledFrom([]int{4, 2, 3, 5, 6, 7, 8, 1, 6, 8}).Draw(t, "nContainers")
		maxPrio := rapid.SampledFrom([]int{1, 2, 3, 4, 8, 1000}).Draw(t, "maxPrio")
		// Round 3: priorities as the API server computes them,
		// (request priority 1..1000)<<50 - creation time in ms: int64 values up
		// to 2^60, distinct, a few units apart (vc16BigPrios). Fair bits decide
		// the share (rapid's integer draws are biased to the low end).
		big := vc16Fair(t, "bigPrioBits", 10)%10 < 3
		var bigPrios []int64
		if big {
			bigPrios = vc16BigPrios(t, n)
		}
		queue := &vc16Queue{ents: map[string]container.QueueEnt{}, updated: time.Unix(2000000000, 0), lockOK: map[string]bool{}, unlockOK: map[string]bool{}}
		ctrs := make([]*vc16Ctr, n)
		for i := range ctrs {
			c := &vc16Ctr{uuid: test.ContainerUUID(i + 1)}
			c.state = rapid.SampledFrom([]arvados.ContainerState{
				arvados.ContainerStateLocked, arvados.ContainerStateLocked, arvados.ContainerStateLocked,
				arvados.ContainerStateLocked, arvados.ContainerStateLocked, arvados.ContainerStateLocked,
				arvados.ContainerStateQueued, arvados.ContainerStateQueued, arvados.ContainerStateQueued,
				arvados.ContainerStateRunning, arvados.ContainerStateComplete, arvados.ContainerStateCancelled,
			}).Draw(t, "state")
			c.prio = int64(rapid.IntRange(0, maxPrio).Draw(t, "prio"))
			if c.prio == 0 && vc16Pct(t, "prioNonzero", 70) {
				c.prio = 1
			}
			c.typ = rapid.IntRange(0, nTypes-1).Draw(t, "type")
			bigWaiting := false
			if big {
				if !(c.prio == 0 && vc16Pct(t, "bigKeepHeld", 50)) {
					c.prio = bigPrios[i]
				}
				// most containers of such a case wait, Locked, for the same type
				if vc16Pct(t, "bigSameType", 60) {
					c.typ = 0
				}
				if vc16Pct(t, "bigWaiting", 60) {
					c.state = arvados.ContainerStateLocked
					bigWaiting = true
				}
			}
			switch c.state {
			case arvados.ContainerStateRunning:
				if vc16Pct(t, "runningHasProc", 85) {
					c.proc = 1
				}
			case arvados.ContainerStateLocked, arvados.ContainerStateQueued:
				switch r := rapid.IntRange(0, 99).Draw(t, "proc"); {
				case bigWaiting:
				case r >= 40 && r < 48:
					c.proc = 1
				case r >= 48 && r < 54:
					c.proc = 2
				}
			default:
				if vc16Pct(t, "finalHasProc", 30) {
					c.proc = 1
				}
			}
			switch c.proc {
			case 1:
				pool.running[c.uuid] = time.Time{}
			case 2:
				pool.running[c.uuid] = time.Unix(1999999990, 0)
			}
			c.lockOK = vc16Pct(t, "lockOK", 80)
			c.unlkOK = vc16Pct(t, "unlockOK", 85)
			queue.lockOK[c.uuid], queue.unlockOK[c.uuid] = c.lockOK, c.unlkOK
			c.waiting = c.state == arvados.ContainerStateLocked && c.prio > 0 && c.proc == 0
			queue.ents[c.uuid] = container.QueueEnt{
				Container:    arvados.Container{UUID: c.uuid, State: c.state, Priority: c.prio},
				InstanceType: types[c.typ],
			}
			ctrs[i] = c
		}
		var desc strings.Builder
		fmt.Fprintf(&desc, "pool{%s atQuota=%v startFail=%v createOK=%v} queue[", strings.Join(poolDesc, " "), pool.atQuota, pool.startFail, pool.createOK)
		for i, c := range ctrs {
			fmt.Fprintf(&desc, "c%d:%s,prio=%d,%s,proc=%d,lockOK=%v,unlockOK=%v ", i+1, c.state, c.prio, types[c.typ].Name, c.proc, c.lockOK, c.unlkOK)
		}
		desc.WriteString("]")

		// runQueue sorts a slice filled in map iteration order with an unstable
		// sort: the same snapshot is decided several times, each time on a fresh
		// copy of the generated pool and queue, and every pass must satisfy the
		// oracle. (One pass for the small-priority cases keeps their cost as it was.)
		reps := 1
		if big {
			reps = 6
		}
		ctx := ctxlog.Context(context.Background(), vc16Logger)
		var labels []string
		var calls []vc16Call
		nontrivial := false
		seenLabel := map[string]bool{}
		orders := map[string]bool{}
		for rep := 0; rep < reps; rep++ {
			log := &vc16Log{}
			p := pool.clone(log)
			q := queue.clone(log)
			sch := New(ctx, q, p, nil, time.Hour, time.Hour)
			base := runtime.NumGoroutine()
			sch.runQueue()
			vc16WaitGoroutines(t, base)
			sch.wakeup.Stop()

			log.mu.Lock()
			calls = append([]vc16Call(nil), log.calls...)
			log.mu.Unlock()
			ls, nt := vc16CheckLog(t, ctrs, types, pool.atQuota, calls, fmt.Sprintf("%s (pass %d of %d over the same snapshot)", desc.String(), rep+1, reps))
			nontrivial = nontrivial || nt
			for _, l := range ls {
				if !seenLabel[l] {
					seenLabel[l] = true
					labels = append(labels, l)
				}
			}
			orders[vc16CallsString(calls)] = true
		}
		if big {
			labels = append(labels, vc16BigLabels(ctrs)...)
			if len(orders) > 1 {
				// legitimately different call logs for one snapshot (ties, held
				// or non-waiting containers visited in another order)
				labels = append(labels, "bigprio:passes-differ")
			}
		}
		stats.Case(stats.FP(desc.String()), nontrivial, labels...)
		if big && stats.WantSample("bigprio") {
			stats.Sample("bigprio", map[string]interface{}{"case": desc.String(), "calls": vc16CallsString(calls)})
		}
		for _, l := range labels {
			if (l == "dontstart-blocked-lower" || l == "quota-unlock-tail" || l == "started-in-order>=2") && stats.WantSample(l) {
				stats.Sample(l, map[string]interface{}{"case": desc.String(), "calls": vc16CallsString(calls)})
			}
		}
	})
}

func vc16CallsString(calls []vc16Call) string {
	var parts []string
	for _, c := range calls {
		if c.op == "AtQuota" {
			continue
		}
		parts = append(parts, c.String())
	}
	return strings.Join(parts, " ")
}

// vc16CheckLog applies the oracle to the recorded calls of one runQueue pass.
func vc16CheckLog(t vc16Failer, ctrs []*vc16Ctr, types []arvados.InstanceType, atQuota bool, calls []vc16Call, desc string) (labels []string, nontrivial bool) {
	byUUID := map[string]*vc16Ctr{}
	for _, c := range ctrs {
		byUUID[c.uuid] = c
	}
	started := map[string]bool{}     // successful StartContainer
	startTried := map[string]bool{}  // any StartContainer
	killTried := map[string]bool{}   // any KillContainer
	unlockCall := map[string]bool{}  // Unlock called (whatever the API answered)
	createFailed := map[string]int{} // type name -> index of first failed Create
	fail := func(format string, args ...interface{}) {
		t.Fatalf("%s\ncase: %s\ncalls: %s", fmt.Sprintf(format, args...), desc, vc16CallsString(calls))
	}
	var startOrder []*vc16Ctr
	for i, call := range calls {
		switch call.op {
		case "Create":
			if !call.ok {
				if _, seen := createFailed[call.it]; !seen {
					createFailed[call.it] = i
				}
			}
		case "Kill":
			killTried[call.uuid] = true
		case "Unlock":
			unlockCall[call.uuid] = true
		case "Start":
			c := byUUID[call.uuid]
			if c == nil {
				fail("StartContainer for unknown container %s", call.uuid)
			}
			startTried[call.uuid] = true
			if call.it != types[c.typ].Name {
				fail("container %s needs %s but StartContainer was asked for %s", call.uuid, types[c.typ].Name, call.it)
			}
			if !call.ok {
				continue
			}
			if started[call.uuid] {
				fail("container %s started twice in one pass", call.uuid)
			}
			started[call.uuid] = true
			startOrder = append(startOrder, c)
		}
	}
	// (A) priority order among same-type containers
	for i, call := range calls {
		if call.op != "Start" || !call.ok {
			continue
		}
		c := byUUID[call.uuid]
		for _, h := range ctrs {
			if h.waiting && h.typ == c.typ && h.prio > c.prio && !started[h.uuid] {
				// Candidate known finding (narrow): h never reached the start stage
				// because Create for its type failed earlier in this pass.
				if fi, ok := createFailed[types[h.typ].Name]; ok && fi < i && !startTried[h.uuid] && !killTried[h.uuid] {
					detail := fmt.Sprintf("%s (prio %d) started while %s (prio %d, same type %s, Locked, waiting) was skipped after a failed Create; %s; calls: %s",
						c.uuid, c.prio, h.uuid, h.prio, types[c.typ].Name, desc, vc16CallsString(calls))
					if stats.Known("c16-create-failure-skips-dontstart", detail) {
						labels = append(labels, "known:create-failure-skips-dontstart")
						continue
					}
				}
				fail("priority inversion: %s (prio %d) started while Locked %s (prio %d) of the same type %s was waiting and not started in this pass",
					c.uuid, c.prio, h.uuid, h.prio, types[c.typ].Name)
			}
		}
	}
	// (B) at quota: no waiting Locked container unlocked while a strictly
	// lower-priority waiting one keeps its lock
	if atQuota {
		for _, u := range ctrs {
			if !u.waiting || !unlockCall[u.uuid] {
				continue
			}
			for _, l := range ctrs {
				if l.waiting && l.prio < u.prio && !unlockCall[l.uuid] && !started[l.uuid] {
					fail("at quota: %s (prio %d) was unlocked while lower-priority waiting %s (prio %d) kept its lock",
						u.uuid, u.prio, l.uuid, l.prio)
				}
			}
		}
	}

	// ---- evidence ----
	nWaiting := 0
	sameTypeDiffPrio := false
	tiesAmongWaiting := false
	for i, a := range ctrs {
		if !a.waiting {
			continue
		}
		nWaiting++
		for _, b := range ctrs[i+1:] {
			if !b.waiting {
				continue
			}
			if a.typ == b.typ && a.prio != b.prio {
				sameTypeDiffPrio = true
			}
			if a.prio == b.prio {
				tiesAmongWaiting = true
			}
		}
	}
	anyUnlockWaiting := false
	for _, c := range ctrs {
		if c.waiting && unlockCall[c.uuid] {
			anyUnlockWaiting = true
		}
	}
	// a failed start that left a lower-priority same-type waiting container blocked
	for _, call := range calls {
		if call.op == "Start" && !call.ok {
			h := byUUID[call.uuid]
			for _, c := range ctrs {
				if c.waiting && c.typ == h.typ && c.prio < h.prio {
					labels = append(labels, "dontstart-blocked-lower")
					break
				}
			}
			break
		}
	}
	if len(startOrder) >= 2 {
		labels = append(labels, "started-in-order>=2")
	}
	if len(startOrder) >= 1 {
		labels = append(labels, "started>=1")
	}
	if anyUnlockWaiting && atQuota {
		labels = append(labels, "quota-unlock-tail")
	}
	if atQuota {
		labels = append(labels, "at-quota")
	}
	if tiesAmongWaiting {
		labels = append(labels, "priority-ties-among-waiting")
	}
	if len(createFailed) > 0 {
		labels = append(labels, "create-failed")
	}
	for _, c := range ctrs {
		if c.state == arvados.ContainerStateLocked && c.proc == 1 && unlockCall[c.uuid] {
			labels = append(labels, "note:unlocked-a-locked-container-with-live-process")
			break
		}
	}
	labels = append(labels, fmt.Sprintf("waiting:%d", nWaiting))
	nontrivial = (nWaiting >= 2 && sameTypeDiffPrio) || (atQuota && anyUnlockWaiting && nWaiting >= 2)
	return labels, nontrivial
}

// TestVerifC16OrderRegress replays, without the library, the scenario that
// exposed the defect fixed by repo commit 52dee5e (Create fails for a waiting
// Locked container, succeeds later in the same pass for a lower-priority one of
// the same type, which was then started ahead of it).
func TestVerifC16OrderRegress(t *testing.T) {
	types := []arvados.InstanceType{test.InstanceType(1), test.InstanceType(2)}
	log := &vc16Log{}
	pool := &vc16Pool{log: log, types: types,
		idle:     map[arvados.InstanceType]int{types[1]: 2},
		booting:  map[arvados.InstanceType]int{},
		running:  map[string]time.Time{},
		createOK: []bool{false, true, true, true},
	}
	queue := &vc16Queue{log: log, ents: map[string]container.QueueEnt{}, updated: time.Unix(2000000000, 0), lockOK: map[string]bool{}, unlockOK: map[string]bool{}}
	ctrs := []*vc16Ctr{
		{uuid: test.ContainerUUID(1), state: arvados.ContainerStateQueued, prio: 3, typ: 1, lockOK: true, unlkOK: true},
		{uuid: test.ContainerUUID(2), state: arvados.ContainerStateQueued, prio: 3, typ: 1, lockOK: true, unlkOK: true},
		{uuid: test.ContainerUUID(3), state: arvados.ContainerStateLocked, prio: 2, typ: 1, lockOK: true, unlkOK: true, waiting: true},
		{uuid: test.ContainerUUID(4), state: arvados.ContainerStateLocked, prio: 1, typ: 1, lockOK: true, unlkOK: true, waiting: true},
	}
	for _, c := range ctrs {
		queue.lockOK[c.uuid], queue.unlockOK[c.uuid] = c.lockOK, c.unlkOK
		queue.ents[c.uuid] = container.QueueEnt{
			Container:    arvados.Container{UUID: c.uuid, State: c.state, Priority: c.prio},
			InstanceType: types[c.typ],
		}
	}
	ctx := ctxlog.Context(context.Background(), vc16Logger)
	sch := New(ctx, queue, pool, nil, time.Hour, time.Hour)
	base := runtime.NumGoroutine()
	sch.runQueue()
	vc16WaitGoroutines(t, base)
	sch.wakeup.Stop()
	log.mu.Lock()
	calls := append([]vc16Call(nil), log.calls...)
	log.mu.Unlock()
	vc16CheckLog(t, ctrs, types, false, calls, "regression scenario for 52dee5e: type2 idle=2; c1,c2 Queued prio 3; c3 Locked prio 2; c4 Locked prio 1; all type2; Create answers false,true")
}
