package keepclient

// C11: Keep client reports a successful write only when enough replicas are
// confirmed.
//
// Real KeepClient (PutB / PutHB / PutHR / PutR -> putReplicas), in-memory
// HTTPClient stub (no sockets).  The stub reads and hashes every request body,
// answers from a generated outcome table (service x attempt) and releases the
// answers one at a time in a generated order.  The oracle is recomputed from
// the service-side log only.

import (
	"bytes"
	"crypto/md5"
	"encoding/json"
	"errors"
	"flag"
	"fmt"
	"io"
	"io/ioutil"
	"net/http"
	"os"
	"path/filepath"
	"sort"
	"strconv"
	"strings"
	"sync"
	"sync/atomic"
	"testing"
	"time"

	"git.arvados.org/arvados.git/sdk/go/arvadosclient"
	"pgregory.net/rapid"
	"verif.local/vcommon/stats"
)

var c11ShardFlag = flag.Int("verif.shard", 0, "shard index for the exhaustive C11 enumeration")

// ---------------------------------------------------------------- scenario

const (
	c11o200r1 = iota // 200, X-Keep-Replicas-Stored: 1
	c11o200r2        // 200, X-Keep-Replicas-Stored: 2
	c11o200nh        // 200, no header
	c11o400
	c11o403
	c11o408
	c11o429
	c11o500
	c11o502
	c11o503
	c11oConn // connection-level error (Do returns an error)
	c11nOut
)

var c11OutName = [...]string{"200/1", "200/2", "200/-", "400", "403", "408", "429", "500", "502", "503", "conn"}
var c11OutStatus = [...]int{200, 200, 200, 400, 403, 408, 429, 500, 502, 503, 0}

func c11Is200(o int) bool { return o <= c11o200nh }

// c11RetryableStatus is the property's list of transient failures:
// connection errors (status 0 here), 408, 429, 5xx other than 503.
func c11RetryableStatus(status int) bool {
	return status == 0 || status == 408 || status == 429 || (status >= 500 && status != 503)
}

type c11Cell struct {
	Out  int  `json:"out"`
	Slow bool `json:"slow,omitempty"` // answered after all faster pending ones
	Prio int  `json:"prio"`           // release priority among pending answers (low first)
	Hdr  int  `json:"hdr,omitempty"`  // X-Keep-Replicas-Stored on a non-200 answer (0 = none)
}

func (c c11Cell) String() string {
	s := c11OutName[c.Out]
	if c.Hdr > 0 && !c11Is200(c.Out) && c.Out != c11oConn {
		s += fmt.Sprintf("(hdr%d)", c.Hdr)
	}
	if c.Slow {
		s += "~slow"
	}
	return fmt.Sprintf("%s@%d", s, c.Prio)
}

type c11Svc struct {
	UUID     string    `json:"uuid"`
	Type     string    `json:"type"` // disk | proxy
	ReadOnly bool      `json:"read_only,omitempty"`
	Cells    []c11Cell `json:"cells"` // outcome per attempt (attempt = n-th request this service receives)
}

const (
	c11ePutB = iota
	c11ePutHB
	c11ePutHR
	c11ePutR
)

var c11EntryName = [...]string{"PutB", "PutHB", "PutHR", "PutR"}

const (
	c11mOK        = iota // hash and length given to the client are those of the data
	c11mWrongHash        // PutHB/PutHR with a hash that is not the data's
	c11mShort            // PutHR with dataBytes larger than what the reader delivers
	c11mLong             // PutHR with dataBytes smaller than what the reader delivers
	c11mOversize         // PutHR with dataBytes > BLOCKSIZE
)

var c11ModeName = [...]string{"ok", "wronghash", "shortreader", "longreader", "oversize"}

type c11Scenario struct {
	Svcs    []c11Svc `json:"svcs"`
	Want    int      `json:"want"`
	Retries int      `json:"retries"`
	Entry   int      `json:"entry"`
	Mode    int      `json:"mode"`
	Data    []byte   `json:"data"`
	ViaJSON bool     `json:"via_json"` // LoadKeepServicesFromJSON, else SetServiceRoots
}

func (sc *c11Scenario) host(i int) string { return fmt.Sprintf("keep%d.c11.verif:25107", i) }

func (sc *c11Scenario) String() string {
	var b strings.Builder
	fmt.Fprintf(&b, "want=%d retries=%d entry=%s mode=%s datalen=%d viaJSON=%v\n", sc.Want, sc.Retries, c11EntryName[sc.Entry], c11ModeName[sc.Mode], len(sc.Data), sc.ViaJSON)
	for i, s := range sc.Svcs {
		ro := ""
		if s.ReadOnly {
			ro = " READ-ONLY"
		}
		fmt.Fprintf(&b, "  svc%d %s %s%s outcomes per attempt: %v\n", i, s.UUID, s.Type, ro, s.Cells)
	}
	return b.String()
}

// ---------------------------------------------------------------- stub

type c11Req struct {
	Svc      int    `json:"svc"` // -1: unknown host
	Attempt  int    `json:"attempt"`
	Method   string `json:"method"`
	Path     string `json:"path"`
	CLen     int64  `json:"clen"`
	BodyLen  int64  `json:"bodylen"`
	BodyMD5  string `json:"bodymd5"`
	BodyErr  string `json:"bodyerr,omitempty"`
	WantHdr  string `json:"desired_hdr"`
	Arrived  int    `json:"arrived"`  // event counter at arrival
	Answered int    `json:"answered"` // event counter when the answer was released (0 = never)
	Late     bool   `json:"late,omitempty"` // answer released only after Put had returned
	Status   int    `json:"status"`   // status actually sent (0 = connection error)
	Replicas int    `json:"replicas"` // replicas announced by a 200 answer (header, or 1 without header)
	HdrSent  string `json:"hdr_sent,omitempty"`
	Body     string `json:"body,omitempty"`
	Forced   string `json:"forced,omitempty"` // answer not taken from the table (malformed request, table exhausted)
	cell     c11Cell
	gate     chan struct{}
}

type c11Stub struct {
	mu       sync.Mutex
	sc       *c11Scenario
	byHost   map[string]int
	log      []*c11Req
	pending  []*c11Req
	events   int
	finished bool
	arrival  chan struct{}
	maxPend  int
}

func c11NewStub(sc *c11Scenario) *c11Stub {
	st := &c11Stub{sc: sc, byHost: map[string]int{}, arrival: make(chan struct{}, 1)}
	for i := range sc.Svcs {
		st.byHost[sc.host(i)] = i
	}
	return st
}

var c11ErrConn = errors.New("c11 stub: connection refused")

func (st *c11Stub) Do(req *http.Request) (*http.Response, error) {
	r := &c11Req{Svc: -1, Method: req.Method, Path: req.URL.Path, CLen: req.ContentLength,
		WantHdr: req.Header.Get(XKeepDesiredReplicas), gate: make(chan struct{})}
	if i, ok := st.byHost[req.URL.Host]; ok {
		r.Svc = i
	}
	// A service (and net/http on the way to it) consumes the whole body.
	h := md5.New()
	if req.Body != nil {
		n, err := io.Copy(h, req.Body)
		req.Body.Close()
		r.BodyLen = n
		if err != nil {
			r.BodyErr = err.Error()
		}
	}
	r.BodyMD5 = fmt.Sprintf("%x", h.Sum(nil))

	st.mu.Lock()
	st.events++
	r.Arrived = st.events
	for _, p := range st.log {
		if p.Svc == r.Svc {
			r.Attempt++
		}
	}
	st.decide(r)
	st.log = append(st.log, r)
	if st.finished {
		// Put has already returned; nobody schedules any more.
		st.events++
		r.Answered = st.events
		r.Late = true
		close(r.gate)
	} else {
		st.pending = append(st.pending, r)
		if len(st.pending) > st.maxPend {
			st.maxPend = len(st.pending)
		}
	}
	st.mu.Unlock()
	select {
	case st.arrival <- struct{}{}:
	default:
	}
	<-r.gate

	if r.Status == 0 {
		return nil, c11ErrConn
	}
	resp := &http.Response{
		StatusCode: r.Status,
		Status:     fmt.Sprintf("%d %s", r.Status, http.StatusText(r.Status)),
		Proto:      "HTTP/1.1", ProtoMajor: 1, ProtoMinor: 1,
		Header:        http.Header{},
		Body:          ioutil.NopCloser(strings.NewReader(r.Body)),
		ContentLength: int64(len(r.Body)),
		Request:       req,
	}
	if r.HdrSent != "" {
		resp.Header.Set(XKeepReplicasStored, r.HdrSent)
	}
	return resp, nil
}

// decide fixes the answer for r (called with st.mu held).
func (st *c11Stub) decide(r *c11Req) {
	hash := strings.TrimPrefix(r.Path, "/")
	switch {
	case r.Svc < 0:
		r.Forced, r.Status, r.Body = "unknown host", 403, "unknown host\n"
		return
	case r.BodyErr != "" || r.BodyLen != r.CLen:
		// net/http fails such a request ("http: ContentLength=N with Body
		// length M", or the body reader's own error) before a service can
		// answer it.
		r.Forced, r.Status = "body unreadable or length mismatch", 0
		return
	case r.Method != "PUT":
		r.Forced, r.Status, r.Body = "method", 405, "method not allowed\n"
		return
	case r.BodyMD5 != hash:
		// what keepstore does with a body that does not match the locator
		r.Forced, r.Status, r.Body = "hash mismatch", 422, "checksum mismatch\n"
		return
	}
	cells := st.sc.Svcs[r.Svc].Cells
	if r.Attempt >= len(cells) {
		// more requests than the table (1+Retries columns) provides for;
		// the oracle reports this. A definite refusal ends the exchange.
		r.Forced, r.Status, r.Body = "table exhausted", 403, "too many requests for this service\n"
		return
	}
	c := cells[r.Attempt]
	r.cell = c
	r.Status = c11OutStatus[c.Out]
	switch c.Out {
	case c11o200r1:
		r.Replicas, r.HdrSent = 1, "1"
	case c11o200r2:
		r.Replicas, r.HdrSent = 2, "2"
	case c11o200nh:
		r.Replicas = 1
	case c11oConn:
	default:
		if c.Hdr > 0 {
			r.HdrSent = strconv.Itoa(c.Hdr)
		}
		r.Body = fmt.Sprintf("svc%d says %s\n", r.Svc, http.StatusText(r.Status))
	}
	if r.Status == 200 {
		// a locator for exactly the hash and size received, with a
		// signature hint that identifies the answer
		r.Body = fmt.Sprintf("%s+%d+A%040x@%08x\n", hash, r.BodyLen, r.Svc*16+r.Attempt+1, 0x7fff0000+r.Svc*16+r.Attempt)
	}
}

func (st *c11Stub) npending() int {
	st.mu.Lock()
	defer st.mu.Unlock()
	return len(st.pending)
}

// waitPending waits until n answers are pending (or the timeout expires).
func (st *c11Stub) waitPending(n int, d time.Duration, done <-chan struct{}) bool {
	var timer *time.Timer
	for {
		if st.npending() >= n {
			return true
		}
		if timer == nil {
			timer = time.NewTimer(d)
			defer timer.Stop()
		}
		select {
		case <-st.arrival:
		case <-done:
			return false
		case <-timer.C:
			return st.npending() >= n
		}
	}
}

// releaseBest releases the pending answer with the lowest (slow, prio, svc) key.
func (st *c11Stub) releaseBest() {
	st.mu.Lock()
	defer st.mu.Unlock()
	if len(st.pending) == 0 {
		return
	}
	best := 0
	key := func(r *c11Req) [3]int {
		s := 0
		if r.cell.Slow {
			s = 1
		}
		return [3]int{s, r.cell.Prio, r.Svc}
	}
	for i := 1; i < len(st.pending); i++ {
		a, b := key(st.pending[i]), key(st.pending[best])
		if a[0] < b[0] || a[0] == b[0] && (a[1] < b[1] || a[1] == b[1] && a[2] < b[2]) {
			best = i
		}
	}
	r := st.pending[best]
	st.pending = append(st.pending[:best], st.pending[best+1:]...)
	st.events++
	r.Answered = st.events
	close(r.gate)
}

// finish is called once Put has returned: everything still pending (abandoned
// uploads) is released and flagged, later arrivals are answered at once.
func (st *c11Stub) finish() []c11Req {
	st.mu.Lock()
	defer st.mu.Unlock()
	st.finished = true
	for _, r := range st.pending {
		st.events++
		r.Answered = st.events
		r.Late = true
		close(r.gate)
	}
	st.pending = nil
	out := make([]c11Req, len(st.log))
	for i, r := range st.log {
		out[i] = *r
		out[i].gate = nil
	}
	return out
}

// ---------------------------------------------------------------- scheduler

// The client announces through the package's public DebugPrintf hook
// ("Replicas remaining to write: %v active uploads: %v") that it is about to
// wait for an upload status and how many uploads are in flight. The harness
// uses that only to make the completion order reproducible: it waits until
// that many requests have reached the stub and then releases exactly one
// answer. If the announcement does not come (a changed tree), it falls back
// to releasing whatever is pending after a pause. The verdict never depends
// on which of the two paths scheduled the answers.

type c11Ctl struct {
	reqid  string
	notice chan int
}

var (
	c11Cur      atomic.Value // *c11Ctl
	c11HookOnce sync.Once
	c11Seq      int64
	c11HungDesc string // set when a Put never returned; later cases fail fast
)

func c11Debug(format string, args ...interface{}) {
	if len(args) != 3 || !strings.Contains(format, "active uploads") {
		return
	}
	ctl, _ := c11Cur.Load().(*c11Ctl)
	if ctl == nil {
		return
	}
	if id, ok := args[0].(string); !ok || id != ctl.reqid {
		return
	}
	a, ok := args[2].(int)
	if !ok {
		return
	}
	select {
	case ctl.notice <- a:
	default:
	}
}

type c11Result struct {
	Loc       string
	N         int
	Err       error
	Panic     interface{}
	Hung      bool
	Log       []c11Req
	MaxPend   int
	Fallbacks int
}

const (
	c11NoNoticePause = 100 * time.Millisecond
	c11ArrivalWait   = 500 * time.Millisecond
	c11HangAfter     = 60 * time.Second // >10^5 x the normal duration of a case; only reached when Put spins or deadlocks
)

func c11Run(sc *c11Scenario) *c11Result {
	c11HookOnce.Do(func() { DebugPrintf = c11Debug })
	res := &c11Result{}
	st := c11NewStub(sc)
	kc := &KeepClient{
		Arvados:       &arvadosclient.ArvadosClient{ApiToken: "c11token"},
		Want_replicas: sc.Want,
		Retries:       sc.Retries,
		HTTPClient:    st,
		RequestID:     fmt.Sprintf("c11-%d", atomic.AddInt64(&c11Seq, 1)),
	}
	if sc.ViaJSON {
		type item struct {
			UUID     string `json:"uuid"`
			Host     string `json:"service_host"`
			Port     int    `json:"service_port"`
			SSL      bool   `json:"service_ssl_flag"`
			Type     string `json:"service_type"`
			ReadOnly bool   `json:"read_only"`
		}
		var items []item
		for i, s := range sc.Svcs {
			hp := strings.Split(sc.host(i), ":")
			port, _ := strconv.Atoi(hp[1])
			items = append(items, item{s.UUID, hp[0], port, false, s.Type, s.ReadOnly})
		}
		js, _ := json.Marshal(map[string]interface{}{"items": items})
		if err := kc.LoadKeepServicesFromJSON(string(js)); err != nil {
			panic("VERIF-INFRA: LoadKeepServicesFromJSON: " + err.Error())
		}
	} else {
		locals, writables := map[string]string{}, map[string]string{}
		for i, s := range sc.Svcs {
			locals[s.UUID] = "http://" + sc.host(i)
			if !s.ReadOnly {
				writables[s.UUID] = "http://" + sc.host(i)
			}
		}
		kc.SetServiceRoots(locals, writables, nil)
	}

	ctl := &c11Ctl{reqid: kc.RequestID, notice: make(chan int, 1024)}
	c11Cur.Store(ctl)
	defer c11Cur.Store((*c11Ctl)(nil))

	hash := fmt.Sprintf("%x", md5.Sum(sc.Data))
	given := hash
	if sc.Mode == c11mWrongHash {
		given = fmt.Sprintf("%x", md5.Sum(append([]byte("not "), sc.Data...)))
	}
	done := make(chan struct{})
	go func() {
		defer close(done)
		defer func() {
			if r := recover(); r != nil {
				res.Panic = r
			}
		}()
		switch sc.Entry {
		case c11ePutB:
			res.Loc, res.N, res.Err = kc.PutB(sc.Data)
		case c11ePutHB:
			res.Loc, res.N, res.Err = kc.PutHB(given, sc.Data)
		case c11ePutR:
			res.Loc, res.N, res.Err = kc.PutR(bytes.NewReader(sc.Data))
		case c11ePutHR:
			n := int64(len(sc.Data))
			switch sc.Mode {
			case c11mShort:
				n += 3
			case c11mLong:
				n -= 2
			case c11mOversize:
				n = BLOCKSIZE + 1
			}
			res.Loc, res.N, res.Err = kc.PutHR(given, bytes.NewReader(sc.Data), n)
		}
	}()

	lastProgress := time.Now()
	pause := time.NewTimer(c11NoNoticePause)
	defer pause.Stop()
loop:
	for {
		if !pause.Stop() {
			select {
			case <-pause.C:
			default:
			}
		}
		pause.Reset(c11NoNoticePause)
		active := 0
		select {
		case <-done:
			break loop
		case a := <-ctl.notice:
			if a <= 0 {
				continue
			}
			active = a
		case <-pause.C:
			if st.npending() == 0 {
				if time.Since(lastProgress) > c11HangAfter {
					res.Hung = true
					break loop
				}
				continue
			}
			res.Fallbacks++
			active = 1
		}
		if !st.waitPending(active, c11ArrivalWait, done) {
			select {
			case <-done:
				break loop
			default:
			}
			res.Fallbacks++
		}
		if st.npending() == 0 {
			continue
		}
		st.releaseBest()
		lastProgress = time.Now()
	}
	res.Log = st.finish()
	res.MaxPend = st.maxPend
	return res
}

// ---------------------------------------------------------------- oracle

type c11Facts struct {
	non200Before int // non-200 answers released before Put returned
	sum200Before int // replicas announced in 200 answers released before Put returned
	sum200All    int
	retried      bool
	abandoned    int
	acceptors    int
	saw2         bool
}

// c11Oracle checks (sc, res) against the property using only the
// service-side log. It returns the list of violated clauses.
func c11Oracle(sc *c11Scenario, res *c11Result) (viol []string, f c11Facts) {
	bad := func(format string, args ...interface{}) { viol = append(viol, fmt.Sprintf(format, args...)) }
	if res.Panic != nil {
		bad("Put panicked: %v", res.Panic)
		return
	}
	if res.Hung {
		bad("Put did not return within %v although no request was pending at any service", c11HangAfter)
		return
	}
	trueHash := fmt.Sprintf("%x", md5.Sum(sc.Data))
	wellFormed := sc.Mode == c11mOK

	perSvc := map[int][]c11Req{}
	issued := map[string]bool{}
	for _, r := range res.Log {
		if r.Svc < 0 {
			bad("request to a host that is not a configured service: %s %s", r.Method, r.Path)
			continue
		}
		s := sc.Svcs[r.Svc]
		if s.ReadOnly {
			bad("request #%d (%s %s) was sent to read-only service svc%d", r.Arrived, r.Method, r.Path, r.Svc)
		}
		if r.Method != "PUT" {
			bad("svc%d received %s instead of PUT", r.Svc, r.Method)
		}
		if wellFormed {
			if r.Path != "/"+trueHash {
				bad("svc%d received PUT %s, block hash is %s", r.Svc, r.Path, trueHash)
			}
			if r.BodyErr != "" || r.BodyLen != int64(len(sc.Data)) || r.BodyMD5 != trueHash || r.CLen != int64(len(sc.Data)) {
				bad("svc%d attempt %d: request body is not the block: len=%d content-length=%d md5=%s err=%q, block is %s+%d",
					r.Svc, r.Attempt, r.BodyLen, r.CLen, r.BodyMD5, r.BodyErr, trueHash, len(sc.Data))
			}
		}
		if r.Forced == "table exhausted" {
			// reported below through the request count
		}
		perSvc[r.Svc] = append(perSvc[r.Svc], r)
		if r.Answered > 0 && !r.Late {
			if r.Status == 200 {
				f.sum200Before += r.Replicas
				issued[strings.TrimSpace(r.Body)] = true
				if r.Replicas == 2 {
					f.saw2 = true
				}
			} else {
				f.non200Before++
			}
		}
		if r.Status == 200 && r.Answered > 0 {
			f.sum200All += r.Replicas
		}
		if r.Late {
			f.abandoned++
		}
	}
	for i, reqs := range perSvc {
		if len(reqs) > 1+sc.Retries {
			bad("svc%d received %d requests, limit is 1+Retries=%d", i, len(reqs), 1+sc.Retries)
		}
		for n := 1; n < len(reqs); n++ {
			f.retried = true
			prev := reqs[n-1]
			if prev.Answered == 0 || prev.Answered > reqs[n].Arrived {
				bad("svc%d received request #%d before its answer to request #%d had been sent", i, n+1, n)
			} else if !c11RetryableStatus(prev.Status) {
				bad("svc%d was sent another request after answering %d, which is not a transient failure", i, prev.Status)
			}
		}
	}

	for _, s := range sc.Svcs {
		if s.ReadOnly {
			continue
		}
		all := len(s.Cells) >= 1+sc.Retries
		for a := 0; a <= sc.Retries && a < len(s.Cells); a++ {
			if !c11Is200(s.Cells[a].Out) {
				all = false
			}
		}
		if all {
			f.acceptors++
		}
	}

	if sc.Mode == c11mOversize {
		if res.Err == nil {
			bad("oversize block accepted: Put returned (%q, %d, nil)", res.Loc, res.N)
		}
		if len(res.Log) > 0 {
			bad("oversize block: %d requests were sent", len(res.Log))
		}
		return
	}

	if res.Err == nil {
		if f.sum200Before < sc.Want {
			bad("Put returned no error, but the 200 answers sent before it returned confirm only %d replicas, want %d", f.sum200Before, sc.Want)
		}
		if res.N < sc.Want {
			bad("Put returned no error with replica count %d < want %d", res.N, sc.Want)
		}
		if res.N > f.sum200Before {
			bad("Put returned replica count %d, but 200 answers confirm only %d", res.N, f.sum200Before)
		}
		if !issued[res.Loc] {
			bad("Put returned locator %q, which no service issued in a 200 answer (issued: %v)", res.Loc, c11Keys(issued))
		}
		if want := fmt.Sprintf("%s+%d+", trueHash, len(sc.Data)); !strings.HasPrefix(res.Loc, want) {
			bad("Put returned locator %q, which is not for the block's hash and size %s", res.Loc, want)
		}
	} else {
		if res.N != f.sum200All {
			bad("Put failed (%v) reporting %d replicas stored, but 200 answers confirm %d", res.Err, res.N, f.sum200All)
		}
		if res.N >= sc.Want {
			bad("Put failed (%v) although it reports %d replicas stored, want %d", res.Err, res.N, sc.Want)
		}
		// transient failures are retried up to the limit before giving up
		for i, s := range sc.Svcs {
			reqs := perSvc[i]
			if s.ReadOnly || len(reqs) == 0 {
				continue
			}
			last := reqs[len(reqs)-1]
			if last.Answered > 0 && c11RetryableStatus(last.Status) && len(reqs) < 1+sc.Retries {
				bad("Put gave up (%v) after %d request(s) to svc%d whose last answer was the transient failure %d; retry limit allows %d",
					res.Err, len(reqs), i, last.Status, 1+sc.Retries)
			}
		}
		if wellFormed && f.acceptors >= sc.Want {
			bad("Put failed (%v) although %d writable services accept the block on every attempt (want %d)", res.Err, f.acceptors, sc.Want)
		}
	}
	return
}

func c11Keys(m map[string]bool) []string {
	var out []string
	for k := range m {
		out = append(out, k)
	}
	sort.Strings(out)
	return out
}

func c11Describe(sc *c11Scenario, res *c11Result) string {
	var b strings.Builder
	b.WriteString(sc.String())
	fmt.Fprintf(&b, "result: locator=%q replicas=%d err=%v\nservice-side log (arrival order):\n", res.Loc, res.N, res.Err)
	for _, r := range res.Log {
		late := ""
		if r.Late {
			late = " (released after Put returned)"
		}
		forced := ""
		if r.Forced != "" {
			forced = " [" + r.Forced + "]"
		}
		fmt.Fprintf(&b, "  t=%d svc%d attempt %d %s %s len=%d/%d md5=%s -> t=%d status=%d replicas-hdr=%q body=%q%s%s\n",
			r.Arrived, r.Svc, r.Attempt, r.Method, r.Path, r.BodyLen, r.CLen, r.BodyMD5, r.Answered, r.Status, r.HdrSent, strings.TrimSpace(r.Body), forced, late)
	}
	return b.String()
}

// c11Check runs one scenario and records it. It returns a failure text or "".
func c11Check(sc *c11Scenario, extraLabels ...string) string {
	if c11HungDesc != "" {
		return "an earlier case left Put spinning in this process; first failure was:\n" + c11HungDesc
	}
	res := c11Run(sc)
	viol, f := c11Oracle(sc, res)
	if len(viol) > 0 {
		msg := "C11 violated:\n  - " + strings.Join(viol, "\n  - ") + "\n" + c11Describe(sc, res)
		if res.Hung {
			c11HungDesc = msg
			if dir := os.Getenv("VERIF_WORK"); dir != "" {
				p := filepath.Join(dir, "c11-hang.txt")
				if ioutil.WriteFile(p, []byte(msg), 0644) == nil {
					fmt.Printf("VERIF-REPLAY: %s\n", p)
				}
			}
		}
		return msg
	}

	nW, nRO, disk, proxy := 0, 0, 0, 0
	for _, s := range sc.Svcs {
		if s.ReadOnly {
			nRO++
			continue
		}
		nW++
		if s.Type == "disk" {
			disk++
		} else {
			proxy++
		}
	}
	labels := []string{
		fmt.Sprintf("want=%d", sc.Want), fmt.Sprintf("retries=%d", sc.Retries),
		fmt.Sprintf("writable=%d", nW), fmt.Sprintf("readonly=%d", nRO),
		"entry=" + c11EntryName[sc.Entry], "mode=" + c11ModeName[sc.Mode],
	}
	switch {
	case proxy == 0:
		labels = append(labels, "types=all-disk")
	case disk == 0:
		labels = append(labels, "types=all-proxy")
	default:
		labels = append(labels, "types=mixed")
	}
	if res.Err == nil {
		labels = append(labels, "result=ok")
		if res.N > sc.Want {
			labels = append(labels, "ok-with-more-than-wanted")
		}
	} else {
		labels = append(labels, "result=insufficient")
		if res.N > 0 {
			labels = append(labels, "insufficient-with-some-stored")
		}
	}
	if f.non200Before > 0 {
		labels = append(labels, "non200-consumed")
	}
	if f.retried {
		labels = append(labels, "some-service-retried")
	}
	if res.MaxPend >= 2 {
		labels = append(labels, fmt.Sprintf("concurrent-uploads=%d", res.MaxPend))
	}
	if f.abandoned > 0 {
		labels = append(labels, "abandoned-upload")
	}
	if f.saw2 {
		labels = append(labels, "200-announcing-2-consumed")
	}
	if f.acceptors >= sc.Want {
		labels = append(labels, "completeness-premise-holds")
	}
	if res.Fallbacks > 0 {
		labels = append(labels, "sched-fallback")
	}
	if sc.ViaJSON {
		labels = append(labels, "config=json")
	} else {
		labels = append(labels, "config=setroots")
	}
	labels = append(labels, extraLabels...)
	stats.Case(stats.FP(sc.String()), f.non200Before > 0, labels...)
	key := "insufficient"
	if res.Err == nil {
		key = "ok"
	}
	if f.retried {
		key += "+retry"
	}
	if stats.WantSample(key) {
		stats.Sample(key, map[string]interface{}{"scenario": sc.String(), "locator": res.Loc, "replicas": res.N, "err": fmt.Sprint(res.Err), "requests": len(res.Log)})
	}
	return ""
}

// ---------------------------------------------------------------- generator

func c11DrawCell(t *rapid.T, profile int, attempt int, label string) c11Cell {
	var c c11Cell
	pick := func(outs ...int) int { return rapid.SampledFrom(outs).Draw(t, label+"out") }
	ok := []int{c11o200r1, c11o200r1, c11o200nh, c11o200r2}
	transient := []int{c11o408, c11o429, c11o500, c11o502, c11oConn}
	refusal := []int{c11o400, c11o403, c11o503}
	switch profile {
	case 0: // acceptor
		c.Out = pick(ok...)
	case 1: // refuser (first answer), anything afterwards
		if attempt == 0 {
			c.Out = pick(refusal...)
		} else {
			c.Out = rapid.IntRange(0, c11nOut-1).Draw(t, label+"out")
		}
	case 2: // transient first, then anything
		if attempt == 0 || rapid.Bool().Draw(t, label+"again") {
			c.Out = pick(transient...)
		} else {
			c.Out = rapid.IntRange(0, c11nOut-1).Draw(t, label+"out")
		}
	default:
		c.Out = rapid.IntRange(0, c11nOut-1).Draw(t, label+"out")
	}
	c.Prio = rapid.IntRange(0, 9).Draw(t, label+"prio")
	c.Slow = rapid.IntRange(0, 6).Draw(t, label+"slow") == 0
	if !c11Is200(c.Out) && c.Out != c11oConn {
		c.Hdr = rapid.SampledFrom([]int{0, 0, 0, 1, 2}).Draw(t, label+"hdr")
	}
	return c
}

func c11DrawScenario(t *rapid.T) *c11Scenario {
	sc := &c11Scenario{}
	nW := rapid.IntRange(1, 5).Draw(t, "writable")
	nRO := rapid.SampledFrom([]int{0, 0, 1, 2}).Draw(t, "readonly")
	sc.Want = rapid.IntRange(1, 3).Draw(t, "want")
	sc.Retries = rapid.IntRange(0, 3).Draw(t, "retries")
	typeMode := rapid.SampledFrom([]int{0, 0, 0, 1, 1, 2, 2}).Draw(t, "types") // all disk, all proxy, mixed
	sc.ViaJSON = rapid.IntRange(0, 4).Draw(t, "config") > 0
	ro := make([]bool, nW+nRO)
	for i := 0; i < nRO; i++ {
		ro[i] = true
	}
	ro = rapid.Permutation(ro).Draw(t, "roPos")
	suffixes := map[string]bool{}
	for i := 0; i < nW+nRO; i++ {
		var suf string
		for {
			suf = rapid.StringMatching(`[0-9a-z]{15}`).Draw(t, fmt.Sprintf("uuid%d", i))
			if !suffixes[suf] {
				break
			}
		}
		suffixes[suf] = true
		s := c11Svc{UUID: "zzzzz-bi6l4-" + suf, ReadOnly: ro[i]}
		switch typeMode {
		case 0:
			s.Type = "disk"
		case 1:
			s.Type = "proxy"
		default:
			s.Type = rapid.SampledFrom([]string{"disk", "proxy"}).Draw(t, fmt.Sprintf("type%d", i))
		}
		if s.ReadOnly {
			// must never be asked; would confirm two replicas if it were
			for a := 0; a <= sc.Retries; a++ {
				s.Cells = append(s.Cells, c11Cell{Out: c11o200r2})
			}
		} else {
			profile := rapid.SampledFrom([]int{0, 0, 0, 1, 2, 2, 3, 3, 3}).Draw(t, fmt.Sprintf("profile%d", i))
			for a := 0; a <= sc.Retries; a++ {
				s.Cells = append(s.Cells, c11DrawCell(t, profile, a, fmt.Sprintf("s%da%d", i, a)))
			}
		}
		sc.Svcs = append(sc.Svcs, s)
	}
	sc.Data = rapid.SliceOfN(rapid.Byte(), 0, 48).Draw(t, "data")
	sc.Entry = rapid.SampledFrom([]int{c11ePutB, c11ePutB, c11ePutHB, c11ePutHR, c11ePutHR, c11ePutR}).Draw(t, "entry")
	sc.Mode = c11mOK
	switch sc.Entry {
	case c11ePutHB:
		if rapid.IntRange(0, 7).Draw(t, "hbmode") == 0 {
			sc.Mode = c11mWrongHash
		}
	case c11ePutHR:
		switch rapid.IntRange(0, 19).Draw(t, "hrmode") {
		case 0, 1:
			sc.Mode = c11mWrongHash
		case 2:
			sc.Mode = c11mShort
		case 3:
			sc.Mode = c11mLong
		case 4:
			sc.Mode = c11mOversize
		}
		// PutHR(…, dataBytes=0) allocates a 64 MiB buffer and sends no body at
		// all; callers pass the real size. Use non-empty data with PutHR.
		if len(sc.Data) < 3 {
			sc.Data = append(sc.Data, 'x', 'y', 'z')
		}
	}
	return sc
}

func TestVerifC11PutReplicas(t *testing.T) {
	defer stats.Flush()
	rapid.Check(t, func(t *rapid.T) {
		sc := c11DrawScenario(t)
		if msg := c11Check(sc, "unit=random"); msg != "" {
			t.Fatalf("%s", msg)
		}
	})
}

// TestVerifC11Exhaustive enumerates every outcome table for 1-2 writable
// services x 1-2 attempts (11 outcomes per cell), crossed with want 1-3, disk
// or proxy services, 0-1 read-only services and both completion orders.
// The quick tier enumerates the one-attempt tables completely and every 29th
// two-attempt table; the thorough tier enumerates all of them.
func TestVerifC11Exhaustive(t *testing.T) {
	defer stats.Flush()
	nshards, _ := strconv.Atoi(os.Getenv("VERIF_NSHARDS"))
	if nshards < 1 {
		nshards = 1
	}
	shard := *c11ShardFlag
	thorough := os.Getenv("VERIF_TIER") == "thorough"
	data := []byte("c11 exhaustive block")
	idx, ran := 0, int64(0)
	for _, nW := range []int{1, 2} {
		for _, retries := range []int{0, 1} {
			cells := nW * (1 + retries)
			total := 1
			for i := 0; i < cells; i++ {
				total *= c11nOut
			}
			stride := 1
			if !thorough && cells == 4 {
				stride = 29
			}
			for tbl := 0; tbl < total; tbl += stride {
				for want := 1; want <= 3; want++ {
					for _, typ := range []string{"disk", "proxy"} {
						for nRO := 0; nRO <= 1; nRO++ {
							for order := 0; order < nW; order++ {
								idx++
								if idx%nshards != shard%nshards {
									continue
								}
								sc := &c11Scenario{Want: want, Retries: retries, Entry: c11ePutB, Data: data, ViaJSON: true}
								x := tbl
								for i := 0; i < nW; i++ {
									s := c11Svc{UUID: fmt.Sprintf("zzzzz-bi6l4-%015d", i), Type: typ}
									for a := 0; a <= retries; a++ {
										c := c11Cell{Out: x % c11nOut, Prio: i}
										x /= c11nOut
										if order == 1 {
											c.Prio = nW - i
										}
										if !c11Is200(c.Out) && c.Out != c11oConn {
											c.Hdr = 2
										}
										s.Cells = append(s.Cells, c)
									}
									sc.Svcs = append(sc.Svcs, s)
								}
								if nRO == 1 {
									s := c11Svc{UUID: "zzzzz-bi6l4-readonly0000000", Type: typ, ReadOnly: true}
									for a := 0; a <= retries; a++ {
										s.Cells = append(s.Cells, c11Cell{Out: c11o200r2})
									}
									sc.Svcs = append(sc.Svcs, s)
								}
								if msg := c11Check(sc, "unit=exhaustive"); msg != "" {
									t.Fatalf("exhaustive case #%d: %s", idx, msg)
								}
								ran++
							}
						}
					}
				}
			}
		}
	}
	stats.InfoAdd("exhaustive_cases_run", ran)
	stats.Info("exhaustive_space", fmt.Sprintf("%d scenarios in the enumeration (all shards), stride-29 sampling of 2x2 tables in quick tier=%v", idx, !thorough))
}
