package main

// C02, unit `overlap`: two overlapping PUTs of the SAME block on the same
// server, one of them abandoned.
//
// The crash enumeration (c02_test.go) only ever has one write of a block in
// flight. The property also forbids "partial or mixed data" when a write is
// abandoned while another write of the same hash is in progress or completes.
// Here both PUTs run on their own goroutines and park at every instrumented
// filesystem point (the scheduler idea of the C04 interleave unit); a drawn
// schedule decides which of the two advances. One of them (the victim) is
// abandoned at a drawn point of its own:
//
//   die-one    every goroutine of the victim stops for good at its next point
//              (runtime.Goexit) and its client goes away; the other PUT runs on
//   die-all    the process dies at that point: every goroutine of either PUT
//              stops at its next point (the other PUT may have been
//              acknowledged before)
//   cancel     the victim's client disconnects at the point; the step is held
//              until the victim's handler has answered   (cancel-nw: not held)
//   fail       the victim's step returns EIO (sticky for the victim only)
//   none       nobody is abandoned (both complete)
//
// Afterwards the usual restart oracle of C02 is applied (cs.oracle): every
// file named <hash> is the complete block (or the untouched pre-existing
// corrupt copy), acknowledged => retrievable from a fresh handler, GET is an
// error or the complete block, the indexes list only complete blocks with
// their true sizes and no temp file.

import (
	"encoding/json"
	"fmt"
	"os"
	"path/filepath"
	"runtime"
	"strconv"
	"strings"
	"sync"
	"syscall"
	"testing"
	"time"

	"pgregory.net/rapid"
	"verif.local/vcommon/stats"
)

const (
	c02OvDieOne = "die-one"
	c02OvDieAll = "die-all"
)

type c02OvParked struct {
	label   string
	gid     uint64
	release chan struct{}
	action  string // set by the scheduler before release
}

type c02OvCtl struct {
	mu       sync.Mutex
	chunk    int
	free     bool
	actorOfG map[uint64]int
	last     int // actor released last (fallback attribution)
	fallback int
	queue    [2][]*c02OvParked
	active   [2]int
	hdone    [2]bool
	hdoneCh  [2]chan struct{}
	rootG    [2]uint64
	trace    [2][]string
	events   []string
	order    []int
	dead     [2]bool
	// plan
	victim     int
	target     int
	action     string
	acted      bool
	actedLabel string
	actedEvent int
	failArmed  bool
	failLabel  string
	sticky     map[string]bool
	disconnect [2]func()
	// hdone of the other actor at the instant of a die-all
	otherDoneAtKill bool
}

func (c *c02OvCtl) ChunkSize() int { return c.chunk }

// c02OvCreator parses the id of the goroutine that created the calling one
// from its own stack ("created by f in goroutine N").
func c02OvCreator() uint64 {
	buf := make([]byte, 1<<16)
	n := runtime.Stack(buf, false)
	return c02OvCreatorIn(string(buf[:n]))
}

func c02OvCreatorIn(s string) uint64 {
	i := strings.LastIndex(s, "created by ")
	if i < 0 {
		return 0
	}
	line := s[i:]
	if j := strings.Index(line, "\n"); j >= 0 {
		line = line[:j]
	}
	k := strings.LastIndex(line, " in goroutine ")
	if k < 0 {
		return 0
	}
	id, _ := strconv.ParseUint(strings.TrimSpace(line[k+len(" in goroutine "):]), 10, 64)
	return id
}

// actor attributes the calling goroutine to one of the two PUTs: known
// goroutine, else the PUT of its creator (WriteBlock runs on a goroutine made
// by putWithPipe on the handler's goroutine), else by walking a dump of all
// goroutines, else the PUT that was released last. c.mu is held.
func (c *c02OvCtl) actor(gid uint64) int {
	if a, ok := c.actorOfG[gid]; ok {
		return a
	}
	if a, ok := c.actorOfG[c02OvCreator()]; ok {
		c.actorOfG[gid] = a
		return a
	}
	buf := make([]byte, 1<<20)
	n := runtime.Stack(buf, true)
	parent := map[uint64]uint64{}
	for _, g := range strings.Split(string(buf[:n]), "\n\n") {
		if !strings.HasPrefix(g, "goroutine ") {
			continue
		}
		f := strings.Fields(g)
		id, _ := strconv.ParseUint(f[1], 10, 64)
		parent[id] = c02OvCreatorIn(g)
	}
	for p, hops := parent[gid], 0; p != 0 && hops < 20; p, hops = parent[p], hops+1 {
		if a, ok := c.actorOfG[p]; ok {
			c.actorOfG[gid] = a
			return a
		}
	}
	c.fallback++
	c.actorOfG[gid] = c.last
	return c.last
}

func (c *c02OvCtl) Enter(fn string) {
	gid := verifGoID()
	c.mu.Lock()
	c.active[c.actor(gid)]++
	c.mu.Unlock()
}

func (c *c02OvCtl) Exit(fn string) {
	gid := verifGoID()
	c.mu.Lock()
	c.active[c.actor(gid)]--
	c.mu.Unlock()
}

func (c *c02OvCtl) Point(label string) {
	gid := verifGoID()
	c.mu.Lock()
	a := c.actor(gid)
	if c.dead[a] {
		c.mu.Unlock()
		runtime.Goexit()
	}
	if c.free {
		c.mu.Unlock()
		return
	}
	p := &c02OvParked{label: label, gid: gid, release: make(chan struct{})}
	c.queue[a] = append(c.queue[a], p)
	c.mu.Unlock()
	<-p.release
	c.mu.Lock()
	dead := c.dead[a]
	c.mu.Unlock()
	if dead {
		// the point was never passed: nothing touches the disk any more
		runtime.Goexit()
	}
}

func (c *c02OvCtl) Fail(label string) error {
	gid := verifGoID()
	c.mu.Lock()
	defer c.mu.Unlock()
	a := c.actor(gid)
	if a != c.victim || c.dead[a] {
		return nil
	}
	if c.sticky[label] {
		return &os.PathError{Op: c02InjectMsg, Path: label, Err: syscall.EIO}
	}
	if c.failArmed && vkKind(label) == "lock" {
		// the Serialize mutex is not a filesystem step
		c.failArmed = false
		return nil
	}
	if c.failArmed {
		c.failArmed = false
		c.failLabel = label
		c.sticky[label] = true
		return &os.PathError{Op: c02InjectMsg, Path: label, Err: syscall.EIO}
	}
	return nil
}

func (c *c02OvCtl) parked(a int) bool {
	c.mu.Lock()
	defer c.mu.Unlock()
	return len(c.queue[a]) > 0
}

func (c *c02OvCtl) isDone(a int) bool {
	c.mu.Lock()
	defer c.mu.Unlock()
	return c.hdone[a] && c.active[a] == 0 && len(c.queue[a]) == 0
}

// kill marks the actor(s) dead, wakes their parked goroutines (which exit)
// and makes their clients go away so the handler goroutines return.
func (c *c02OvCtl) kill(actors ...int) {
	var wake []*c02OvParked
	c.mu.Lock()
	for _, a := range actors {
		c.dead[a] = true
		wake = append(wake, c.queue[a]...)
		c.queue[a] = nil
	}
	c.mu.Unlock()
	for _, p := range wake {
		close(p.release)
	}
	for _, a := range actors {
		c.disconnect[a]()
	}
}

// releaseOne lets the first parked goroutine of actor a perform its step; if
// that step is the victim's target the action is applied first.
func (c *c02OvCtl) releaseOne(a int) {
	c.mu.Lock()
	p := c.queue[a][0]
	c.queue[a] = c.queue[a][1:]
	idx := len(c.trace[a])
	c.trace[a] = append(c.trace[a], p.label)
	c.events = append(c.events, fmt.Sprintf("%d:%s", a, vkStable(p.label)))
	c.order = append(c.order, a)
	c.last = a
	if a == c.victim {
		c.failArmed = false // an armed failure the previous step did not consume was not feasible
	}
	act := c02NoAction
	if a == c.victim && idx == c.target && !c.acted && c.action != c02NoAction {
		act = c.action
		c.acted, c.actedLabel, c.actedEvent = true, p.label, len(c.events)-1
		c.events[len(c.events)-1] += " <" + act + ">"
	}
	root := c.rootG[a]
	done := c.hdoneCh[a]
	if act == c02OvDieAll {
		c.otherDoneAtKill = c.hdone[1-a]
	}
	if act == c02Fail {
		c.failArmed = true
	}
	c.mu.Unlock()
	switch act {
	case c02OvDieOne:
		c.mu.Lock()
		c.queue[a] = append([]*c02OvParked{p}, c.queue[a]...)
		c.mu.Unlock()
		c.kill(a)
		return
	case c02OvDieAll:
		c.mu.Lock()
		c.queue[a] = append([]*c02OvParked{p}, c.queue[a]...)
		c.mu.Unlock()
		c.kill(a, 1-a)
		return
	case c02Cancel, c02CancelNW:
		c.disconnect[a]()
		if act == c02Cancel && p.gid != root {
			// let the victim's handler notice the disconnect and answer
			// before the step goes ahead (not verdict relevant: on timeout
			// the step simply continues)
			select {
			case <-done:
			case <-time.After(5 * time.Second):
			}
		}
	}
	close(p.release)
}

func (c *c02OvCtl) releaseAll() {
	c.mu.Lock()
	c.free = true
	var all []*c02OvParked
	for a := range c.queue {
		all = append(all, c.queue[a]...)
		c.queue[a] = nil
	}
	c.mu.Unlock()
	for _, p := range all {
		close(p.release)
	}
}

// c02OvBlockedInLock reports whether some goroutine is waiting in flock(2) or
// for the Serialize mutex (read from a stack dump of all goroutines).
func c02OvBlockedInLock() bool {
	buf := make([]byte, 1<<18)
	n := runtime.Stack(buf, true)
	for _, g := range strings.Split(string(buf[:n]), "\n\n") {
		if strings.Contains(g, "syscall.Flock") || (strings.Contains(g, "sync.(*Mutex).Lock") && strings.Contains(g, "UnixVolume).lock")) {
			return true
		}
	}
	return false
}

const (
	c02OvParkd   = "parked"
	c02OvDone    = "done"
	c02OvBlocked = "blocked"
)

// settle waits until actor a is parked at a point, finished, or (apparently)
// blocked by the other one. A wrong "blocked" only costs control over the
// schedule, never a verdict.
func (c *c02OvCtl) settle(a int) string {
	start := time.Now()
	confirm := 0
	for i := 0; ; i++ {
		if c.parked(a) {
			return c02OvParkd
		}
		if c.isDone(a) {
			return c02OvDone
		}
		if i < 50 {
			runtime.Gosched()
			continue
		}
		el := time.Since(start)
		if el > 300*time.Microsecond {
			if c02OvBlockedInLock() {
				confirm++
				if confirm >= 2 {
					return c02OvBlocked
				}
			} else {
				confirm = 0
			}
		}
		if el > 20*time.Second {
			return c02OvBlocked
		}
		time.Sleep(200 * time.Microsecond)
	}
}

// ---- one overlapped execution ----------------------------------------------

type c02OvPlan struct {
	Victim int
	Target int
	Action string
}

type c02OvResult struct {
	Events     []string
	Trace      [2][]string
	Acted      bool
	ActedLabel string
	FailLabel  string
	Status     [2]int  // response status (0: none counted)
	Counted    [2]bool // the response reached the client of that PUT
	Body       [2]string
	Overlap    bool // a step of one PUT lies between two steps of the other
	BothInWin  bool // both PUTs were between temp-file creation and rename at the same time
	ActInWin   bool // ... and the victim was abandoned at such an instant
	Blocked    int
	Fallback   int
	FreeRun    bool
}

// runOverlap performs the two PUTs under the schedule given by choose (called
// with the number of enabled actors, always 2) and leaves the directories in
// the state a freshly started process would find.
func (cs *c02Case) runOverlap(t vkT, env *c02Env, plan c02OvPlan, choose func() int) *c02OvResult {
	cs.prepare(t, env)
	cl := vkCluster(t, cs.conf(env))
	h := vkNewHandler(t, cl, env.log, cs.Order, cs.Counter)
	defer h.Close()
	c := &c02OvCtl{chunk: cs.Chunk, actorOfG: map[uint64]int{}, sticky: map[string]bool{},
		victim: plan.Victim, target: plan.Target, action: plan.Action}
	var resp [2]*vkResp
	for a := 0; a < 2; a++ {
		resp[a] = vkNewResp()
		c.disconnect[a] = resp[a].Disconnect
		c.hdoneCh[a] = make(chan struct{})
	}
	verifInstall(c)
	defer verifInstall(nil)
	for a := 0; a < 2; a++ {
		a := a
		started := make(chan struct{})
		go func() {
			defer func() {
				c.mu.Lock()
				c.hdone[a] = true
				c.mu.Unlock()
				close(c.hdoneCh[a])
			}()
			c.mu.Lock()
			c.rootG[a] = verifGoID()
			c.actorOfG[c.rootG[a]] = a
			c.mu.Unlock()
			close(started)
			h.ServeHTTP(resp[a], vkRequest("PUT", "/"+cs.Hash, vkToken, cs.Data))
		}()
		<-started
	}
	res := &c02OvResult{}
	state := [2]string{c.settle(0), c.settle(1)}
	iter := 0
	for ; iter < 3000; iter++ {
		var enabled []int
		for a := 0; a < 2; a++ {
			if state[a] == c02OvParkd {
				enabled = append(enabled, a)
			}
		}
		if len(enabled) == 0 {
			if state[0] == c02OvDone && state[1] == c02OvDone {
				break
			}
			progressed := false
			for a := 0; a < 2; a++ {
				if state[a] != c02OvParkd {
					if st := c.settle(a); st != state[a] {
						state[a] = st
						progressed = true
					}
				}
			}
			if !progressed && iter > 50 {
				res.FreeRun = true
				break
			}
			continue
		}
		a := enabled[0]
		if len(enabled) == 2 {
			a = enabled[choose()]
		}
		c.releaseOne(a)
		state[a] = c.settle(a)
		if state[a] == c02OvBlocked {
			res.Blocked++
		}
		// the step may have unblocked, finished or (die-all) killed the other
		if o := 1 - a; state[o] != c02OvParkd || !c.parked(o) {
			state[o] = c.settle(o)
		}
	}
	if iter >= 3000 {
		res.FreeRun = true
	}
	c.releaseAll()
	// quiescence: both handlers returned, no volume call in flight
	deadline := time.Now().Add(120 * time.Second)
	for !(c.isDone(0) && c.isDone(1)) {
		if time.Now().After(deadline) {
			buf := make([]byte, 1<<18)
			n := runtime.Stack(buf, true)
			t.Fatalf("VERIF-INFRA: overlapped PUTs did not quiesce within 120 s (case %v, plan %+v, events %v)\n%s", cs.describe(), plan, c.events, buf[:n])
		}
		time.Sleep(100 * time.Microsecond)
	}
	c.mu.Lock()
	defer c.mu.Unlock()
	res.Events = append([]string{}, c.events...)
	res.Trace = c.trace
	res.Acted, res.ActedLabel, res.FailLabel, res.Fallback = c.acted, c.actedLabel, c.failLabel, c.fallback
	for a := 0; a < 2; a++ {
		counted := !c.dead[a]
		if c.acted && c.action == c02OvDieAll && a != c.victim {
			// the response counts only if it was complete when the
			// process died
			counted = c.otherDoneAtKill
		}
		if counted {
			res.Counted[a] = true
			res.Status[a] = resp[a].Code
			res.Body[a] = resp[a].Body.String()
		}
	}
	// overlap measures
	first, last := [2]int{-1, -1}, [2]int{-1, -1}
	for i, a := range c.order {
		if first[a] < 0 {
			first[a] = i
		}
		last[a] = i
	}
	if first[0] >= 0 && first[1] >= 0 {
		res.Overlap = !(last[0] < first[1] || last[1] < first[0])
	}
	var inWin [2]bool
	pos := [2]int{}
	for i, a := range c.order {
		l := c.trace[a][pos[a]]
		pos[a]++
		// a step at which the PUT died or that was made to fail did not happen
		skipped := c.acted && i == c.actedEvent && (c.action == c02OvDieOne || c.action == c02OvDieAll || (c.action == c02Fail && c.failLabel != ""))
		if vkFunc(l) == "WriteBlock" && !skipped {
			switch vkKind(l) {
			case "create": // released: the temp file exists from now on
				inWin[a] = true
			case "remove":
				inWin[a] = false
			}
		}
		if inWin[0] && inWin[1] {
			res.BothInWin = true
			if c.acted && i == c.actedEvent {
				res.ActInWin = true
			}
		}
		if vkFunc(l) == "WriteBlock" && vkKind(l) == "rename" {
			inWin[a] = false // (after the check: the rename has not happened yet when it is released)
		}
	}
	return res
}

// ---- property ------------------------------------------------------------------

func c02OvActions() []string {
	return []string{c02OvDieOne, c02OvDieOne, c02OvDieAll, c02Cancel, c02CancelNW, c02Fail, c02Fail, c02NoAction}
}

func TestVerifC02Overlap(t *testing.T) {
	defer stats.Flush()
	vkCheckStaticPoints(t)
	runtime.GOMAXPROCS(2)
	defer runtime.GOMAXPROCS(1)
	thorough := os.Getenv("VERIF_TIER") == "thorough"
	nruns := 10
	if thorough {
		nruns = 16
	}
	rapid.Check(t, func(t *rapid.T) {
		cs := c02Gen(t, thorough)
		// two PUTs of the same block meet on the same volume when there is
		// only one writable volume: make that the common shape
		single := len(cs.Vols) == 1
		if len(cs.Vols) == 2 && !cs.Vols[0].ReadOnly && !cs.Vols[1].ReadOnly {
			switch vkPick(t, "ov-shape", 3) {
			case 0:
				cs.Vols = cs.Vols[:1]
				cs.Order = []string{cs.Vols[0].UUID}
				single = true
			case 1:
				cs.Vols[1].ReadOnly = true
				single = true
			}
		} else if len(cs.Vols) == 2 {
			single = true
		}
		env := &c02Env{base: vkScratch(t), log: &vkLogBuf{}}
		defer os.RemoveAll(env.base)
		for i := range cs.Vols {
			env.roots = append(env.roots, filepath.Join(env.base, fmt.Sprintf("vol%d", i)))
		}
		// solo dry run: length of one PUT's trace
		dry := cs.run(t, env, -1, c02NoAction)
		if !dry.Responded || dry.Status != 200 {
			t.Fatalf("VERIF-INFRA: uninterrupted PUT did not succeed (status %d %q) for case %v; log:\n%s", dry.Status, dry.Body, cs.describe(), env.log.String())
		}
		n := len(dry.Trace)
		var window []int // points between temp-file creation and rename in a solo run
		for k, l := range dry.Trace {
			if c02Window(l) {
				window = append(window, k)
			}
		}
		for r := 0; r < nruns; r++ {
			plan := c02OvPlan{Victim: vkPick(t, "victim", 2), Action: vkPickStr(t, "action", c02OvActions())}
			plan.Target = vkPick(t, "target", n+2)
			if len(window) > 0 && vkPick(t, "target-in-window", 2) == 0 {
				plan.Target = window[vkPick(t, "target-window-index", len(window))]
			}
			// how readily the schedule switches between the two PUTs
			sw := []int{1, 1, 2, 4}[vkPick(t, "switchiness", 4)]
			lastChoice := 0
			env.log.Reset()
			res := cs.runOverlap(t, env, plan, func() int {
				if vkPick(t, "choice", sw+1) == 0 {
					lastChoice = 1 - lastChoice
				}
				return lastChoice
			})
			// verdict: the usual restart oracle
			syn := &c02Result{FailLabel: res.FailLabel}
			for a := 0; a < 2; a++ {
				if res.Counted[a] && res.Status[a] == 200 {
					syn.Responded, syn.Status, syn.Body = true, 200, res.Body[a]
				}
			}
			oracleAction := plan.Action
			if !res.Acted {
				oracleAction = c02NoAction
			}
			if msg := cs.oracle(t, env, syn, oracleAction); msg != "" {
				js, _ := json.Marshal(cs.describe())
				t.Fatalf("C02 violated (two overlapping PUTs of the same block): %s\n  case: %s\n  plan: PUT #%d abandoned by %q at its point %d (%s; acted=%v, failed step %q)\n  steps in the order they were released (<PUT>:<point>):\n    %s\n  responses: PUT#0 counted=%v status=%d, PUT#1 counted=%v status=%d\n  handler log:\n%s",
					msg, js, plan.Victim, plan.Action, plan.Target, res.ActedLabel, res.Acted, res.FailLabel, strings.Join(res.Events, "\n    "),
					res.Counted[0], res.Status[0], res.Counted[1], res.Status[1], env.log.String())
			}
			other := 1 - plan.Victim
			lab := []string{"ov:action:" + plan.Action, "ov:runs"}
			if single {
				lab = append(lab, "ov:single-writable-volume")
			}
			if res.Overlap {
				lab = append(lab, "ov:steps-interleaved")
			}
			if res.BothInWin {
				lab = append(lab, "ov:both-temp-files-in-flight")
			}
			if res.ActInWin {
				lab = append(lab, "ov:abandoned-while-both-temp-files-in-flight", "ov:abandoned-in-flight:"+plan.Action)
			}
			if res.Acted {
				lab = append(lab, "ov:acted", "ov:acted-kind:"+vkKind(res.ActedLabel))
				if res.Counted[other] && res.Status[other] == 200 {
					lab = append(lab, "ov:other-acknowledged")
					if res.ActInWin {
						lab = append(lab, "ov:abandoned-in-flight+other-acknowledged")
					}
				}
				if res.Counted[plan.Victim] && res.Status[plan.Victim] == 200 {
					lab = append(lab, "ov:victim-acknowledged-anyway")
				}
			} else if plan.Action != c02NoAction {
				lab = append(lab, "ov:target-not-reached")
			}
			if plan.Action == c02Fail && res.Acted {
				if res.FailLabel == "" {
					lab = append(lab, "ov:fail:not-feasible")
				} else {
					lab = append(lab, "ov:fail:injected")
				}
			}
			if res.Blocked > 0 {
				lab = append(lab, "ov:blocked-in-lock")
			}
			if res.FreeRun {
				lab = append(lab, "ov:schedule-control-lost")
			}
			if res.Fallback > 0 {
				lab = append(lab, "ov:goroutine-attributed-by-fallback")
			}
			for a := 0; a < 2; a++ {
				touch, write := false, false
				for _, l := range res.Trace[a] {
					if vkFunc(l) == "Touch" {
						touch = true
					}
					if vkFunc(l) == "WriteBlock" && vkKind(l) == "create" {
						write = true
					}
				}
				switch {
				case write && touch:
					lab = append(lab, "ov:put-path:write+touch")
				case write:
					lab = append(lab, "ov:put-path:write")
				case touch:
					lab = append(lab, "ov:put-path:touch-existing")
				}
			}
			nontrivial := res.Overlap && (res.Acted || plan.Action == c02NoAction)
			stats.Case(stats.FP("overlap", cs.SizeClass, cs.Chunk, cs.Serialize, c02PreKey(cs), plan.Victim, plan.Action, strings.Join(res.Events, ",")), nontrivial, lab...)
			if res.ActInWin && stats.WantSample("overlap") {
				d := cs.describe()
				d["plan"] = plan
				d["events"] = res.Events
				d["status"] = res.Status
				stats.Sample("overlap", d)
			}
		}
		var vl []string
		for _, v := range cs.Vols {
			vl = append(vl, "ov:pre:"+v.Pre)
		}
		stats.Label(vl...)
		stats.Label("ov:cases", "ov:sizeclass:"+cs.SizeClass, fmt.Sprintf("ov:serialize:%v", cs.Serialize))
	})
}
