package main

// Helpers shared by the C02 and C04 checks (keepstore_c04 is built with
// 'with': ['keepstore_c02'], so this file is part of both binaries):
// handler set-up on scratch Directory volumes, request helpers, directory
// snapshots, static-point classification.

import (
	"bytes"
	"context"
	"crypto/md5"
	"encoding/json"
	"flag"
	"fmt"
	"io/ioutil"
	"net/http"
	"net/http/httptest"
	"os"
	"path/filepath"
	"regexp"
	"runtime"
	"sort"
	"strconv"
	"strings"
	"sync"
	"sync/atomic"
	"syscall"
	"time"

	"git.arvados.org/arvados.git/lib/config"
	"git.arvados.org/arvados.git/sdk/go/arvados"
	"git.arvados.org/arvados.git/sdk/go/arvadosclient"
	"git.arvados.org/arvados.git/sdk/go/ctxlog"
	"github.com/prometheus/client_golang/prometheus"
	"github.com/sirupsen/logrus"
	"pgregory.net/rapid"
)

const vkToken = "verifsystemroottokenverifsystemroottokenverif00"

var vkServiceURL = arvados.URL{Scheme: "http", Host: "localhost:12345"}

// fataler is satisfied by *testing.T and *rapid.T.
type vkT interface {
	Fatalf(format string, args ...interface{})
	Logf(format string, args ...interface{})
}

var (
	vkBaseOnce    sync.Once
	vkBaseCluster *arvados.Cluster
	vkBaseErr     error
	vkOrigPath    = os.Getenv("PATH")
)

func init() {
	// UnixVolume.GetDeviceID execs findmnt twice per volume per handler
	// set-up (~10 ms each). The device id plays no role in C02/C04, so
	// make the lookup fail fast ("using blank DeviceID").
	os.Setenv("PATH", "/nonexistent-verif")
	// handler.setup builds a keepclient for the pull worker; loading the
	// system CA bundle for it costs ~20 ms per set-up and is irrelevant here.
	arvadosclient.CertFiles = nil
	// One P: keepstore's buffer pool is a sync.Pool of 64 MiB buffers whose
	// per-P caches make almost every Get allocate (and clear) a new 64 MiB
	// slice when goroutines move between Ps. The driver runs one process per
	// shard, so parallelism comes from there.
	runtime.GOMAXPROCS(1)
}

// vkLogBuf collects the handler's log output of the current case; it is
// printed only when the case fails.
type vkLogBuf struct {
	mu  sync.Mutex
	buf bytes.Buffer
}

func (b *vkLogBuf) Write(p []byte) (int, error) {
	b.mu.Lock()
	defer b.mu.Unlock()
	if b.buf.Len() < 1<<20 {
		b.buf.Write(p)
	}
	return len(p), nil
}

func (b *vkLogBuf) String() string {
	b.mu.Lock()
	defer b.mu.Unlock()
	s := b.buf.String()
	if len(s) > 6000 {
		s = "…" + s[len(s)-6000:]
	}
	return s
}

func (b *vkLogBuf) Reset() {
	b.mu.Lock()
	defer b.mu.Unlock()
	b.buf.Reset()
}

func vkLoadBase() (*arvados.Cluster, error) {
	vkBaseOnce.Do(func() {
		lg := logrus.New()
		lg.Out = ioutil.Discard
		ldr := config.NewLoader(bytes.NewBufferString(`Clusters: {zzzzz: {SystemRootToken: `+vkToken+`, Services: {Controller: {ExternalURL: "https://zzzzz.example.invalid"}}}}`), lg)
		ldr.Path = "-"
		cfg, err := ldr.Load()
		if err != nil {
			vkBaseErr = err
			return
		}
		vkBaseCluster, vkBaseErr = cfg.GetCluster("")
	})
	return vkBaseCluster, vkBaseErr
}

type vkVolSpec struct {
	UUID      string
	Root      string
	ReadOnly  bool // Volumes.<uuid>.ReadOnly
	Serialize bool
	// Access restricts the volume through Volumes.<uuid>.AccessViaHosts:
	//   ""            no AccessViaHosts entry at all
	//   "ro-host"     this server's URL is listed with ReadOnly: true (another
	//                 server has read-write access); volume.ReadOnly stays false
	//   "rw-via-host" this server's URL is listed read-write, another server's
	//                 URL is listed read-only
	Access string
}

const (
	vkAccessROHost    = "ro-host"
	vkAccessRWViaHost = "rw-via-host"
)

// vkOtherURL is some other keepstore server of the same cluster.
var vkOtherURL = arvados.URL{Scheme: "http", Host: "otherkeep.example.invalid:25107"}

// ReadOnlyHere tells whether the mount is read-only for the server under test
// (either way of configuring it).
func (v vkVolSpec) ReadOnlyHere() bool { return v.ReadOnly || v.Access == vkAccessROHost }

type vkConf struct {
	Vols          []vkVolSpec
	TTL           time.Duration
	TrashLifetime time.Duration
	BlobTrash     bool
	DeleteConc    int
	TrashConc     int
}

// vkCluster returns a private copy of the default cluster config with the
// given Directory volumes.
func vkCluster(t vkT, c vkConf) *arvados.Cluster {
	base, err := vkLoadBase()
	if err != nil {
		t.Fatalf("VERIF-INFRA: config load: %v", err)
	}
	cl := *base
	cl.SystemRootToken = vkToken
	cl.Collections.BlobSigning = false
	cl.Collections.BlobSigningKey = "verifblobsigningkey"
	cl.Collections.BlobTrashCheckInterval = arvados.Duration(0)
	cl.Collections.BlobSigningTTL = arvados.Duration(c.TTL)
	cl.Collections.BlobTrashLifetime = arvados.Duration(c.TrashLifetime)
	cl.Collections.BlobTrash = c.BlobTrash
	cl.Collections.BlobDeleteConcurrency = c.DeleteConc
	cl.Collections.BlobTrashConcurrency = c.TrashConc
	cl.Collections.BlobReplicateConcurrency = 1
	cl.API.MaxKeepBlobBuffers = 4
	cl.Volumes = map[string]arvados.Volume{}
	for _, v := range c.Vols {
		dp, _ := json.Marshal(map[string]interface{}{"Root": v.Root, "Serialize": v.Serialize})
		cv := arvados.Volume{
			Driver:           "Directory",
			DriverParameters: dp,
			Replication:      1,
			ReadOnly:         v.ReadOnly,
		}
		switch v.Access {
		case vkAccessROHost:
			cv.AccessViaHosts = map[arvados.URL]arvados.VolumeAccess{vkServiceURL: {ReadOnly: true}, vkOtherURL: {}}
		case vkAccessRWViaHost:
			cv.AccessViaHosts = map[arvados.URL]arvados.VolumeAccess{vkServiceURL: {}, vkOtherURL: {ReadOnly: true}}
		case "":
		default:
			t.Fatalf("VERIF-INFRA: unknown volume access mode %q", v.Access)
		}
		cl.Volumes[v.UUID] = cv
	}
	return &cl
}

type vkHandler struct {
	*handler
	log *vkLogBuf
}

// vkNewHandler sets up a real keepstore handler. order lists volume UUIDs in
// the order the volume manager should use (handler.setup takes it from map
// iteration, i.e. at random; the harness fixes it so that a case can be
// re-run from the same state). counter is the round-robin start value.
func vkNewHandler(t vkT, cl *arvados.Cluster, log *vkLogBuf, order []string, counter uint32) *vkHandler {
	lg := logrus.New()
	lg.Out = log
	lg.Formatter = &logrus.TextFormatter{DisableTimestamp: true}
	ctx := ctxlog.Context(context.Background(), lg)
	h := &handler{}
	if err := h.setup(ctx, cl, "", prometheus.NewRegistry(), vkServiceURL); err != nil {
		t.Fatalf("VERIF-INFRA: handler.setup: %v", err)
	}
	if order != nil {
		rank := map[string]int{}
		for i, u := range order {
			rank[u] = i
		}
		for _, s := range []*[]*VolumeMount{&h.volmgr.mounts, &h.volmgr.readables, &h.volmgr.writables} {
			l := *s
			sort.SliceStable(l, func(i, j int) bool { return rank[l[i].UUID] < rank[l[j].UUID] })
		}
	}
	atomic.StoreUint32(&h.volmgr.counter, counter)
	vkAdoptBufs(lg)
	return &vkHandler{handler: h, log: log}
}

var vkSharedBufs *bufferPool

// vkAdoptBufs replaces the 64 MiB-per-buffer pool that handler.setup just
// created (package global `bufs`) by one pool shared by all handlers of this
// test process, so that not every set-up costs fresh 64 MiB allocations. It
// is called only while no request is in flight. Slots still marked "in use"
// at that moment belong to goroutines that were killed by a simulated crash;
// the pool is then replaced.
func vkAdoptBufs(lg logrus.FieldLogger) {
	if vkSharedBufs == nil || vkSharedBufs.Len() != 0 {
		vkSharedBufs = newBufferPool(lg, 16, BlockSize)
	}
	vkSharedBufs.log = lg
	bufs = vkSharedBufs
}

// Close stops the handler's worker goroutines.
func (h *vkHandler) Close() {
	h.pullq.Close()
	h.trashq.Close()
}

// vkWaitTrashIdle waits until the trash work queue is drained.
func (h *vkHandler) vkWaitTrashIdle(t vkT) {
	deadline := time.Now().Add(120 * time.Second)
	for {
		st := h.trashq.Status()
		if st.InProgress == 0 && st.Queued == 0 {
			return
		}
		if time.Now().After(deadline) {
			t.Fatalf("VERIF-INFRA: trash queue did not drain within 120 s: %+v", st)
		}
		time.Sleep(200 * time.Microsecond)
	}
}

// vkResp is a ResponseRecorder that also implements http.CloseNotifier so
// the harness can end the request context (client disconnect).
type vkResp struct {
	*httptest.ResponseRecorder
	closed chan bool
	once   sync.Once
}

func vkNewResp() *vkResp {
	return &vkResp{ResponseRecorder: httptest.NewRecorder(), closed: make(chan bool, 1)}
}

func (r *vkResp) CloseNotify() <-chan bool { return r.closed }

// Disconnect simulates the client going away.
func (r *vkResp) Disconnect() { r.once.Do(func() { r.closed <- true }) }

func vkRequest(method, path, token string, body []byte) *http.Request {
	req, err := http.NewRequest(method, path, bytes.NewReader(body))
	if err != nil {
		panic(err)
	}
	if token != "" {
		req.Header.Set("Authorization", "OAuth2 "+token)
	}
	return req
}

// vkDo runs one request synchronously.
func (h *vkHandler) vkDo(method, path, token string, body []byte) *httptest.ResponseRecorder {
	resp := vkNewResp()
	h.ServeHTTP(resp, vkRequest(method, path, token, body))
	return resp.ResponseRecorder
}

func vkMD5(b []byte) string { return fmt.Sprintf("%x", md5.Sum(b)) }

// vkSnapshot reads every regular file below root: relative path -> content.
func vkSnapshot(root string) (map[string][]byte, error) {
	out := map[string][]byte{}
	err := filepath.Walk(root, func(p string, info os.FileInfo, err error) error {
		if err != nil {
			return err
		}
		if info.Mode().IsRegular() {
			b, err := ioutil.ReadFile(p)
			if err != nil {
				return err
			}
			rel, _ := filepath.Rel(root, p)
			out[rel] = b
		}
		return nil
	})
	return out, err
}

func vkSortedKeys(m map[string][]byte) []string {
	var ks []string
	for k := range m {
		ks = append(ks, k)
	}
	sort.Strings(ks)
	return ks
}

// vkPick draws an index in [0,n) with (nearly) uniform probability. rapid's
// own integer generators favour small values, which would make the first
// elements of every choice list dominate the few hundred cases of a run; the
// drawn 64-bit value is therefore scrambled before it is reduced.
func vkPick(t *rapid.T, label string, n int) int {
	x := rapid.Uint64().Draw(t, label)
	x += 0x9e3779b97f4a7c15
	x = (x ^ (x >> 30)) * 0xbf58476d1ce4e5b9
	x = (x ^ (x >> 27)) * 0x94d049bb133111eb
	x ^= x >> 31
	return int(x % uint64(n))
}

func vkPickStr(t *rapid.T, label string, xs []string) string { return xs[vkPick(t, label, len(xs))] }

var vkShardFlag = flag.Int("verif.shard", 0, "index of this shard (set by the driver for units with shard_arg)")

// vkShard returns (shard index, number of shards) for enumerations that are
// split across the driver's processes.
func vkShard() (int, int) {
	n, _ := strconv.Atoi(os.Getenv("VERIF_NSHARDS"))
	if n < 1 {
		n = 1
	}
	return *vkShardFlag % n, n
}

var vkScratchSeq int64
var vkSweepOnce sync.Once

// vkSweepStale removes scratch directories left behind by test processes
// that no longer exist (killed on a driver timeout, for instance).
func vkSweepStale(base string) {
	ents, err := ioutil.ReadDir(base)
	if err != nil {
		return
	}
	for _, e := range ents {
		parts := strings.Split(e.Name(), "-")
		if len(parts) != 4 || parts[0] != "verif" || parts[1] != "ks" {
			continue
		}
		pid, err := strconv.Atoi(parts[2])
		if err != nil || pid == os.Getpid() {
			continue
		}
		if err := syscall.Kill(pid, 0); err == syscall.ESRCH {
			os.RemoveAll(filepath.Join(base, e.Name()))
		}
	}
}

// vkScratch creates a private scratch directory (tmpfs when available: ns
// mtimes, flock, plenty of space so IsFull is false).
func vkScratch(t vkT) string {
	base := "/dev/shm"
	if fi, err := os.Stat(base); err != nil || !fi.IsDir() {
		base = os.Getenv("VERIF_WORK")
		if base == "" {
			base = os.TempDir()
		}
	}
	vkSweepOnce.Do(func() { vkSweepStale(base) })
	d := filepath.Join(base, fmt.Sprintf("verif-ks-%d-%d", os.Getpid(), atomic.AddInt64(&vkScratchSeq, 1)))
	os.RemoveAll(d)
	if err := os.MkdirAll(d, 0755); err != nil {
		t.Fatalf("VERIF-INFRA: scratch dir: %v", err)
	}
	return d
}

func vkBlockPath(root, hash string) string { return filepath.Join(root, hash[:3], hash) }

func vkWriteFile(t vkT, path string, data []byte, mtime time.Time) {
	if err := os.MkdirAll(filepath.Dir(path), 0755); err != nil {
		t.Fatalf("VERIF-INFRA: %v", err)
	}
	if err := ioutil.WriteFile(path, data, 0644); err != nil {
		t.Fatalf("VERIF-INFRA: %v", err)
	}
	if !mtime.IsZero() {
		if err := os.Chtimes(path, mtime, mtime); err != nil {
			t.Fatalf("VERIF-INFRA: %v", err)
		}
	}
}

// ---- static points -------------------------------------------------------

// vkKind maps a point label "L<line>:<func>:<callee>" to a step kind.
func vkKind(label string) string {
	parts := strings.SplitN(label, ":", 3)
	if len(parts) != 3 {
		return "other"
	}
	callee := parts[2]
	m := callee
	if i := strings.LastIndex(m, "."); i >= 0 && !strings.HasPrefix(m, "write") {
		m = m[i+1:]
	}
	switch {
	case callee == "write" || callee == "write.mid" || m == "Write" || m == "WriteString" || m == "WriteAt" || m == "ReadFrom":
		return "write"
	case m == "MkdirAll" || m == "Mkdir":
		return "mkdir"
	case m == "TempFile" || m == "Create" || m == "CreateTemp" || strings.HasSuffix(m, "[O_CREATE]"):
		return "create"
	case m == "Close":
		return "close"
	case m == "Chtimes":
		return "chtimes"
	case m == "Rename":
		return "rename"
	case m == "Remove" || m == "RemoveAll" || m == "Unlink":
		return "remove"
	case m == "Open" || m == "OpenFile":
		return "open"
	case m == "Stat" || m == "Lstat":
		return "stat"
	case m == "lockfile" || m == "Flock":
		return "flock"
	case m == "lock":
		return "lock"
	case m == "Copy":
		return "copy"
	case m == "Readdir" || m == "Readdirnames" || m == "ReadDir" || m == "Walk":
		return "readdir"
	}
	return "other"
}

func vkFunc(label string) string {
	parts := strings.SplitN(label, ":", 3)
	if len(parts) != 3 {
		return ""
	}
	return parts[1]
}

var vkLineRe = regexp.MustCompile(`^L\d+:`)

// vkStable strips the line number so labels stay comparable when the source
// file is edited.
func vkStable(label string) string { return vkLineRe.ReplaceAllString(label, "") }

// vkCheckStaticPoints fails with VERIF-INFRA when the instrumenter did not
// find every step kind the property lists.
func vkCheckStaticPoints(t vkT) map[string]int {
	kinds := map[string]int{}
	for _, p := range verifStaticPoints {
		kinds[vkKind(p)]++
	}
	var missing []string
	for _, k := range []string{"mkdir", "create", "write", "close", "chtimes", "rename", "remove"} {
		if kinds[k] == 0 {
			missing = append(missing, k)
		}
	}
	if len(missing) > 0 {
		t.Fatalf("VERIF-INFRA: instrumenter found no point of kind(s) %v in unix_volume.go (static points: %v)", missing, verifStaticPoints)
	}
	return kinds
}
